import TabulaModel.Model.Reader
import TabulaModel.Lemmas.Xref
import TabulaModel.Lemmas.PdfCS
/-!
Lemmas about the end-to-end reader model (`Model/Reader.lean`): the fuel bound is a function
of the set of numbers that have an entry; `getObject` is a function of the newest entries and
of the objects at the offsets they name.
-/
namespace Tabula.Reader
open Tabula.Xref (getLast)

theorem getLast_isSome_of_mem {α : Type} (l : List (Nat × α)) (n : Nat) (h : n ∈ l.map Prod.fst) :
    (getLast l n).isSome = true := by
  induction l with
  | nil => simp at h
  | cons kv l ih =>
    obtain ⟨k, v⟩ := kv
    simp only [getLast]
    cases hr : getLast l n with
    | some w => rfl
    | none =>
      simp only [List.map_cons, List.mem_cons] at h
      rcases h with h | h
      · simp [h]
      · have := ih h
        rw [hr] at this
        cases this

theorem mem_keys_iff {α : Type} (l : List (Nat × α)) (n : Nat) :
    n ∈ l.map Prod.fst ↔ (getLast l n).isSome = true := by
  constructor
  · exact getLast_isSome_of_mem l n
  · intro h
    cases hv : getLast l n with
    | none => rw [hv] at h; cases h
    | some v => exact Xref.getLast_mem_keys l n v hv

theorem le_maxKey (l : Xref.Section) (n : Nat) (h : n ∈ l.map Prod.fst) : n ≤ maxKey l := by
  induction l with
  | nil => simp at h
  | cons kv l ih =>
    obtain ⟨k, v⟩ := kv
    simp only [List.map_cons, List.mem_cons] at h
    simp only [maxKey]
    rcases h with h | h
    · subst h; exact Nat.le_max_left _ _
    · exact Nat.le_trans (ih h) (Nat.le_max_right _ _)

theorem maxKey_mem (l : Xref.Section) (h : maxKey l ≠ 0) : maxKey l ∈ l.map Prod.fst := by
  induction l with
  | nil => simp [maxKey] at h
  | cons kv l ih =>
    obtain ⟨k, v⟩ := kv
    simp only [maxKey, List.map_cons, List.mem_cons] at h ⊢
    by_cases hk : maxKey l ≤ k
    · left; exact Nat.max_eq_left hk
    · right
      have hm : max k (maxKey l) = maxKey l := Nat.max_eq_right (by omega)
      rw [hm]
      exact ih (by omega)

theorem maxKey_le_of_keys (l l' : Xref.Section)
    (h : ∀ n, (getLast l n).isSome = true → (getLast l' n).isSome = true) : maxKey l ≤ maxKey l' := by
  by_cases h0 : maxKey l = 0
  · omega
  · have := maxKey_mem l h0
    have := h _ ((mem_keys_iff l _).mp this)
    exact le_maxKey l' _ ((mem_keys_iff l' _).mpr this)

/-- the fuel bound depends only on which numbers have an entry -/
theorem maxKey_congr (l l' : Xref.Section) (h : ∀ n, (getLast l n).isSome = (getLast l' n).isSome) :
    maxKey l = maxKey l' :=
  Nat.le_antisymm (maxKey_le_of_keys l l' fun n hn => by rw [← h n]; exact hn)
    (maxKey_le_of_keys l' l fun n hn => by rw [h n]; exact hn)

theorem fuelOf_congr (f f' : AbsFile) (h : ∀ n, (entry f n).isSome = (entry f' n).isSome) :
    fuelOf f = fuelOf f' := by
  unfold fuelOf
  rw [maxKey_congr (xref f) (xref f') h]

/-! ### `getObject` is a function of the newest entries and the objects they name -/

theorem objectAt_congr (f f' : AbsFile) (n off : Nat) (h : getLast f.objs off = getLast f'.objs off) :
    objectAt f n off = objectAt f' n off := by
  unfold objectAt
  rw [h]

theorem objStmAt_congr (f f' : AbsFile) (ext : Ext) (stm off : Nat)
    (h : getLast f.objs off = getLast f'.objs off) : objStmAt f ext stm off = objStmAt f' ext stm off := by
  unfold objStmAt
  rw [objectAt_congr f f' stm off h]

/-- the offsets a lookup of `n` may read an object from -/
def Names (f : AbsFile) (off : Nat) : Prop :=
  ∃ n, entry f n = some (.at off) ∨ entry f n = some (.free off)

theorem loadObjStm_congr (f f' : AbsFile) (ext : Ext) (he : ∀ n, entry f n = entry f' n)
    (ho : ∀ off, Names f off → getLast f.objs off = getLast f'.objs off) (stm : Nat) :
    loadObjStm f ext stm = loadObjStm f' ext stm := by
  unfold loadObjStm
  rw [← he stm]
  cases h : entry f stm with
  | none => rfl
  | some e =>
    cases e with
    | free nx => exact objStmAt_congr f f' ext stm nx (ho nx ⟨stm, Or.inr h⟩)
    | «at» off => exact objStmAt_congr f f' ext stm off (ho off ⟨stm, Or.inl h⟩)
    | inStm a b => rfl

theorem getObject_congr (f f' : AbsFile) (ext : Ext) (he : ∀ n, entry f n = entry f' n)
    (ho : ∀ off, Names f off → getLast f.objs off = getLast f'.objs off) (n : Nat) :
    getObject f ext n = getObject f' ext n := by
  unfold getObject
  rw [← he n]
  cases h : entry f n with
  | none => rfl
  | some e =>
    cases e with
    | free nx => rfl
    | «at» off =>
      simp only
      rw [objectAt_congr f f' n off (ho off ⟨n, Or.inl h⟩)]
    | inStm stm idx =>
      simp only
      rw [loadObjStm_congr f f' ext he ho stm]

/-- the reader is a function of: the object lookup, the fuel bound, the root, and whether the
file is inside the modelled fragment -/
theorem readPages_congr (f f' : AbsFile) (ext : Ext) (hobj : ∀ n, getObject f ext n = getObject f' ext n)
    (hfuel : fuelOf f = fuelOf f') (hroot : rootOf f = rootOf f') (hd : prevDangling f = prevDangling f') :
    readPages f ext = readPages f' ext := by
  unfold readPages
  have : getObject f ext = getObject f' ext := funext hobj
  rw [this, hfuel, hroot, hd]

theorem isSome_of_getObject_congr (f f' : AbsFile) (he : ∀ n, entry f n = entry f' n) :
    ∀ n, (entry f n).isSome = (entry f' n).isSome := fun n => by rw [he n]

/-! ### `/Prev` chain bookkeeping -/

theorem newest_append (a b : List Xref.Section) (n : Nat) :
    Xref.newest (a ++ b) n = (Xref.newest b n).or (Xref.newest a n) := by
  induction a with
  | nil => cases h : Xref.newest b n <;> simp [Xref.newest, h]
  | cons t a ih =>
    simp only [List.cons_append, Xref.newest, ih]
    cases Xref.newest b n <;> simp

end Tabula.Reader

/-! ### re-spelling the separator in front of a token (for content split over streams) -/
namespace Tabula.Pdf

/-- the separator in front of an object's first token -/
def SObj.pre : SObj → Sep
  | .null p | .bool p _ | .int p _ _ _ | .real p _ | .lit p _ | .hex p _ _ _ | .name p _
  | .arr p _ _ | .dict p _ _ | .ref p _ _ _ _ => p

/-- the same object with another separator in front -/
def SObj.setPre (q : Sep) : SObj → SObj
  | .null _ => .null q
  | .bool _ b => .bool q b
  | .int _ a b c => .int q a b c
  | .real _ r => .real q r
  | .lit _ ps => .lit q ps
  | .hex _ a b c => .hex q a b c
  | .name _ ps => .name q ps
  | .arr _ a b => .arr q a b
  | .dict _ a b => .dict q a b
  | .ref _ a b c d => .ref q a b c d

/-- what an object renders after its leading separator -/
def SObj.body (x : SObj) : Str := (x.setPre []).render

theorem renderSep_append (a b : Sep) : renderSep (a ++ b) = renderSep a ++ renderSep b := by
  simp [renderSep]

theorem SObj.setPre_render (q : Sep) (x : SObj) : (x.setPre q).render = renderSep q ++ x.body := by
  cases x <;> simp [SObj.setPre, SObj.body, SObj.render, renderSep]

theorem SObj.render_eq (x : SObj) : x.render = renderSep x.pre ++ x.body := by
  have : x.setPre x.pre = x := by cases x <;> rfl
  rw [← SObj.setPre_render, this]

theorem SObj.setPre_value (q : Sep) (x : SObj) : (x.setPre q).value = x.value := by
  cases x <;> simp [SObj.setPre, SObj.value]

theorem SObj.setPre_endsRegular (q : Sep) (x : SObj) : (x.setPre q).endsRegular = x.endsRegular := by
  cases x <;> rfl

theorem SObj.setPre_noRef (q : Sep) (x : SObj) : (x.setPre q).noRef = x.noRef := by
  cases x <;> simp [SObj.setPre, SObj.noRef]

/-- a spelling stays legal when the separator in front of it is replaced by any legal separator
that is non-empty if the old one was -/
theorem SObj.setPre_valid (q : Sep) (x : SObj) (need : Bool) (hv : x.Valid need) (hq : SepOk q)
    (hne : x.pre ≠ [] → q ≠ []) : (x.setPre q).Valid need := by
  cases x <;> simp only [SObj.setPre, SObj.Valid, SObj.pre] at hv hne ⊢
  all_goals first
    | exact ⟨hq, fun h => hne (hv.2 h)⟩
    | exact ⟨hq, fun h => hne (hv.2.1 h), hv.2.2⟩
    | exact ⟨hq, hv.2⟩
    | exact ⟨hq, fun h => hne (hv.2.1 h), hv.2.2.1, hv.2.2.2.1, hv.2.2.2.2.1, hv.2.2.2.2.2.1, hv.2.2.2.2.2.2⟩

/-- the separator in front of an operation's first token -/
def SOp.lead (o : SOp) : Sep :=
  match o.operands with
  | [] => o.pre
  | x :: _ => x.pre

def SOp.setLead (q : Sep) (o : SOp) : SOp :=
  match o.operands with
  | [] => { o with pre := q }
  | x :: xs => { o with operands := x.setPre q :: xs }

/-- what an operation renders after its leading separator -/
def SOp.body (o : SOp) : Str := (o.setLead []).render

theorem SOp.setLead_render (q : Sep) (o : SOp) : (o.setLead q).render = renderSep q ++ o.body := by
  obtain ⟨operands, pre, op⟩ := o
  cases operands with
  | nil => simp [SOp.setLead, SOp.body, SOp.render, renderList, renderSep]
  | cons x xs =>
    simp only [SOp.setLead, SOp.body, SOp.render, renderList, SObj.setPre_render]
    simp [renderSep]

theorem SOp.render_eq (o : SOp) : o.render = renderSep o.lead ++ o.body := by
  have : o.setLead o.lead = o := by
    obtain ⟨operands, pre, op⟩ := o
    cases operands with
    | nil => rfl
    | cons x xs =>
      simp only [SOp.setLead, SOp.lead]
      have : x.setPre x.pre = x := by cases x <;> rfl
      rw [this]
  rw [← SOp.setLead_render, this]

theorem SOp.setLead_op (q : Sep) (o : SOp) : (o.setLead q).op = o.op := by
  obtain ⟨operands, pre, op⟩ := o
  cases operands <;> rfl

theorem SOp.setLead_values (q : Sep) (o : SOp) :
    valueList (o.setLead q).operands = valueList o.operands := by
  obtain ⟨operands, pre, op⟩ := o
  cases operands with
  | nil => rfl
  | cons x xs => simp [SOp.setLead, valueList, SObj.setPre_value]

/-- a program stays legal when the separator in front of its first token is replaced by any
legal separator that is non-empty if the old one was -/
theorem ValidOps_setLead (q : Sep) (o : SOp) (os : List SOp) (need : Bool) (hv : ValidOps need (o :: os))
    (hq : SepOk q) (hne : o.lead ≠ [] → q ≠ []) : ValidOps need (o.setLead q :: os) := by
  obtain ⟨operands, pre, op⟩ := o
  cases operands with
  | nil =>
    simp only [ValidOps, SOp.setLead, SOp.lead, lastEndsRegular] at hv hne ⊢
    exact ⟨hv.1, hv.2.1, hq, fun h => hne (hv.2.2.2.1 h), hv.2.2.2.2⟩
  | cons x xs =>
    simp only [ValidOps, SOp.setLead, SOp.lead, ValidList, noRefList, lastEndsRegular,
      SObj.setPre_endsRegular, SObj.setPre_noRef] at hv hne ⊢
    exact ⟨⟨SObj.setPre_valid q x need hv.1.1 hq hne, hv.1.2⟩, hv.2⟩

theorem renderOps_append (a b : List SOp) : renderOps (a ++ b) = renderOps a ++ renderOps b := by
  induction a with
  | nil => rfl
  | cons o os ih => simp [renderOps, ih]

theorem ValidOps_append (a b : List SOp) (need : Bool) (ha : ValidOps need a) (hb : ValidOps true b)
    (hne : a ≠ []) : ValidOps need (a ++ b) := by
  induction a generalizing need with
  | nil => exact absurd rfl hne
  | cons o os ih =>
    simp only [List.cons_append, ValidOps] at ha ⊢
    refine ⟨ha.1, ha.2.1, ha.2.2.1, ha.2.2.2.1, ha.2.2.2.2.1, ?_⟩
    cases os with
    | nil => exact hb
    | cons o' os' => exact ih true ha.2.2.2.2.2 (by simp)

end Tabula.Pdf

/-! ### a content stream cut into chunks at operation boundaries -/
namespace Tabula.Reader
open Tabula.Pdf

/-- a chunk of a page's content: some operations (spelled) followed by a separator -/
abbrev Chunk := List SOp × Sep

def chunkBytes (c : Chunk) : Str := renderOps c.1 ++ renderSep c.2

/-- the operation a spelled operation stands for -/
def opVal (o : SOp) : CS.Operation := { op := o.op, operands := valueList o.operands }

/-- the program written by the chunks one after another: the separator left pending by the
chunks so far goes in front of the next chunk's first token; the second component is the
separator pending at the end -/
def glue : Sep → List Chunk → List SOp × Sep
  | pend, [] => ([], pend)
  | pend, ([], tr) :: rest => glue (pend ++ tr) rest
  | pend, (o :: os, tr) :: rest =>
    (o.setLead (pend ++ o.lead) :: (os ++ (glue tr rest).1), (glue tr rest).2)

theorem glue_render (cs : List Chunk) (pend : Sep) :
    renderOps (glue pend cs).1 ++ renderSep (glue pend cs).2 = renderSep pend ++ cs.flatMap chunkBytes := by
  induction cs generalizing pend with
  | nil => simp [glue, renderOps]
  | cons c rest ih =>
    obtain ⟨ops, tr⟩ := c
    cases ops with
    | nil =>
      simp only [glue, ih, renderSep_append, List.flatMap_cons, chunkBytes, renderOps, List.nil_append,
        List.append_assoc]
    | cons o os =>
      have h := ih tr
      simp only [glue, renderOps, renderOps_append, SOp.setLead_render, renderSep_append, List.flatMap_cons,
        chunkBytes, SOp.render_eq o, List.append_assoc] at h ⊢
      rw [h]

theorem setLead_opVal (q : Sep) (o : SOp) : opVal (o.setLead q) = opVal o := by
  simp [opVal, SOp.setLead_op, SOp.setLead_values]

theorem glue_values (cs : List Chunk) (pend : Sep) :
    (glue pend cs).1.map opVal = cs.flatMap fun c => c.1.map opVal := by
  induction cs generalizing pend with
  | nil => rfl
  | cons c rest ih =>
    obtain ⟨ops, tr⟩ := c
    cases ops with
    | nil => simp [glue, ih]
    | cons o os => simp [glue, ih, setLead_opVal]

/-- every operation of the glued program is an operation of a chunk, up to the separator in
front of it -/
theorem glue_mem (cs : List Chunk) (pend : Sep) (o : SOp) (ho : o ∈ (glue pend cs).1) :
    ∃ c ∈ cs, ∃ o' ∈ c.1, valueList o.operands = valueList o'.operands := by
  induction cs generalizing pend with
  | nil => simp [glue] at ho
  | cons c rest ih =>
    obtain ⟨ops, tr⟩ := c
    cases ops with
    | nil =>
      obtain ⟨c', hc', o', ho', e⟩ := ih (pend ++ tr) ho
      exact ⟨c', by simp [hc'], o', ho', e⟩
    | cons o1 os =>
      simp only [glue, List.mem_cons, List.mem_append] at ho
      rcases ho with rfl | ho | ho
      · exact ⟨(o1 :: os, tr), by simp, o1, by simp, SOp.setLead_values _ _⟩
      · exact ⟨(o1 :: os, tr), by simp, o, by simp [ho], rfl⟩
      · obtain ⟨c', hc', o', ho', e⟩ := ih tr ho
        exact ⟨c', by simp [hc'], o', ho', e⟩

theorem sepOk_append {a b : Sep} : SepOk (a ++ b) ↔ SepOk a ∧ SepOk b := by
  unfold SepOk
  constructor
  · intro h; exact ⟨fun u hu => h u (by simp [hu]), fun u hu => h u (by simp [hu])⟩
  · intro h u hu
    rcases List.mem_append.mp hu with hu | hu
    · exact h.1 u hu
    · exact h.2 u hu

theorem sepOk_lf : SepOk [SepUnit.ws 10] := by
  intro u hu
  simp only [List.mem_cons, List.not_mem_nil, or_false] at hu
  subst hu
  show isWs 10 = true
  decide

theorem SObj.valid_pre_ok (x : SObj) (need : Bool) (hv : x.Valid need) : SepOk x.pre := by
  cases x <;> simp only [SObj.Valid, SObj.pre] at hv ⊢ <;> exact hv.1

theorem SOp.setLead_lead (q : Sep) (o : SOp) : (o.setLead q).lead = q := by
  obtain ⟨operands, pre, op⟩ := o
  cases operands with
  | nil => rfl
  | cons x xs => cases x <;> rfl

theorem SOp.setLead_setLead (q q' : Sep) (o : SOp) : (o.setLead q).setLead q' = o.setLead q' := by
  obtain ⟨operands, pre, op⟩ := o
  cases operands with
  | nil => rfl
  | cons x xs => cases x <;> rfl

theorem validOps_lead_ok (o : SOp) (os : List SOp) (need : Bool) (hv : ValidOps need (o :: os)) : SepOk o.lead := by
  obtain ⟨operands, pre, op⟩ := o
  cases operands with
  | nil => exact hv.2.2.1
  | cons x xs => exact SObj.valid_pre_ok x need hv.1.1

theorem validOps_split (a b : List SOp) (need : Bool) (h : ValidOps need (a ++ b)) (hne : a ≠ []) :
    ValidOps need a ∧ ValidOps true b := by
  induction a generalizing need with
  | nil => exact absurd rfl hne
  | cons o os ih =>
    simp only [List.cons_append, ValidOps] at h ⊢
    cases os with
    | nil => exact ⟨⟨h.1, h.2.1, h.2.2.1, h.2.2.2.1, h.2.2.2.2.1, trivial⟩, h.2.2.2.2.2⟩
    | cons o' os' =>
      have := ih true h.2.2.2.2.2 (by simp)
      exact ⟨⟨h.1, h.2.1, h.2.2.1, h.2.2.2.1, h.2.2.2.2.1, this.1⟩, this.2⟩

/-- the separator pending in front of a legal glued program is legal -/
theorem glue_pend_ok (cs : List Chunk) (pend : Sep) (need : Bool) (hv : ValidOps need (glue pend cs).1)
    (ht : SepOk (glue pend cs).2) : SepOk pend := by
  induction cs generalizing pend with
  | nil => exact ht
  | cons c rest ih =>
    obtain ⟨ops, tr⟩ := c
    cases ops with
    | nil => exact (sepOk_append.mp (ih (pend ++ tr) hv ht)).1
    | cons o os =>
      have := validOps_lead_ok _ _ need hv
      rw [SOp.setLead_lead] at this
      exact (sepOk_append.mp this).1

/-- what tabula's join does to a chunk: a line feed after every non-empty part -/
def withLF (c : Chunk) : Chunk := if chunkBytes c = [] then c else (c.1, c.2 ++ [SepUnit.ws 10])

theorem withLF_ops (c : Chunk) : (withLF c).1 = c.1 := by unfold withLF; split <;> rfl

theorem chunkBytes_withLF (c : Chunk) :
    chunkBytes (withLF c) = if (chunkBytes c).isEmpty then [] else chunkBytes c ++ [10] := by
  unfold withLF
  by_cases h : chunkBytes c = []
  · simp [h]
  · rw [if_neg h]
    have h' : (chunkBytes c).isEmpty = false := by
      cases hc : chunkBytes c with
      | nil => exact absurd hc h
      | cons a b => rfl
    rw [h']
    simp [chunkBytes, renderSep_append, renderSep, SepUnit.render]

theorem join_chunks (cs : List Chunk) :
    PdfDoc.joinContents (cs.map chunkBytes) = (cs.map withLF).flatMap chunkBytes := by
  unfold PdfDoc.joinContents
  induction cs with
  | nil => rfl
  | cons c rest ih =>
    simp only [List.map_cons, List.flatMap_cons, chunkBytes_withLF]
    rw [ih]

theorem opName_ne_nil (op : Str) (h : OpName op) : op ≠ [] := by
  obtain ⟨⟨c, r, rfl, _⟩, _⟩ := h
  simp

theorem chunkBytes_ne_nil (o : SOp) (os : List SOp) (tr : Sep) (h : OpName o.op) : chunkBytes (o :: os, tr) ≠ [] := by
  have := opName_ne_nil o.op h
  simp [chunkBytes, renderOps, SOp.render, this]

theorem append_ne_nil_of {a b a' b' : Sep} (ha : a ≠ [] → a' ≠ []) (hb : b ≠ [] → b' ≠ []) :
    a ++ b ≠ [] → a' ++ b' ≠ [] := by
  intro h h'
  rcases List.append_eq_nil_iff.mp h' with ⟨x, y⟩
  by_cases hx : a = []
  · by_cases hy : b = []
    · exact h (by simp [hx, hy])
    · exact hb hy y
  · exact ha hx x

/-- legality survives the join: if the chunks written one after another (after the pending
separator `pend`) are a legal program, so are the chunks with tabula's line feeds, after any
legal pending separator that is non-empty if `pend` was -/
theorem glue_withLF_valid (cs : List Chunk) (pend pend' : Sep) (need : Bool)
    (hv : ValidOps need (glue pend cs).1) (ht : SepOk (glue pend cs).2)
    (hp : SepOk pend') (hne : pend ≠ [] → pend' ≠ []) :
    ValidOps need (glue pend' (cs.map withLF)).1 ∧ SepOk (glue pend' (cs.map withLF)).2 := by
  induction cs generalizing pend pend' need with
  | nil => exact ⟨trivial, hp⟩
  | cons c rest ih =>
    obtain ⟨ops, tr⟩ := c
    cases ops with
    | nil =>
      have hpt := glue_pend_ok rest (pend ++ tr) need hv ht
      have htr := (sepOk_append.mp hpt).2
      simp only [List.map_cons, withLF]
      split
      · exact ih (pend ++ tr) (pend' ++ tr) need hv ht (sepOk_append.mpr ⟨hp, htr⟩)
          (append_ne_nil_of hne id)
      · exact ih (pend ++ tr) (pend' ++ (tr ++ [SepUnit.ws 10])) need hv ht
          (sepOk_append.mpr ⟨hp, sepOk_append.mpr ⟨htr, sepOk_lf⟩⟩) (fun _ => by simp)
    | cons o os =>
      simp only [glue] at hv ht
      have hsplit := validOps_split [o.setLead (pend ++ o.lead)] (os ++ (glue tr rest).1) need (by simpa using hv) (by simp)
      have hsplit2 : ValidOps need (o.setLead (pend ++ o.lead) :: os) ∧ ValidOps true (glue tr rest).1 := by
        have h0 : ValidOps need ((o.setLead (pend ++ o.lead) :: os) ++ (glue tr rest).1) := by simpa using hv
        exact validOps_split _ _ need h0 (by simp)
      have hop : OpName o.op := by
        have := hsplit2.1.2.2.2.2.1
        rwa [SOp.setLead_op] at this
      have hlead := validOps_lead_ok _ _ need hsplit2.1
      rw [SOp.setLead_lead] at hlead
      have htr : SepOk tr := glue_pend_ok rest tr true hsplit2.2 ht
      have hrest := ih tr (tr ++ [SepUnit.ws 10]) true hsplit2.2 ht
        (sepOk_append.mpr ⟨htr, sepOk_lf⟩) (fun _ => by simp)
      have hnew : ValidOps need (o.setLead (pend' ++ o.lead) :: os) := by
        have := ValidOps_setLead (pend' ++ o.lead) (o.setLead (pend ++ o.lead)) os need hsplit2.1
          (sepOk_append.mpr ⟨hp, (sepOk_append.mp hlead).2⟩)
          (by
            rw [SOp.setLead_lead]
            exact append_ne_nil_of hne id)
        rwa [SOp.setLead_setLead] at this
      have hw : withLF (o :: os, tr) = (o :: os, tr ++ [SepUnit.ws 10]) := by
        unfold withLF
        rw [if_neg (chunkBytes_ne_nil o os tr hop)]
      simp only [List.map_cons, hw, glue]
      refine ⟨?_, hrest.2⟩
      have := ValidOps_append (o.setLead (pend' ++ o.lead) :: os) _ need hnew hrest.1 (by simp)
      simpa using this

end Tabula.Reader
