import TabulaModel.Lemmas.Package
/-!
Helper lemmas for C18 about the chapter loop of `epubdoc.(*Reader).loadChapters` after
`fix: a resource listed several times in an EPUB spine is one chapter`
(`epubLoopS`: the loop carries the resolved hrefs already loaded).

* `spineFirsts` — the specification, from the declaration only: the spine entries (with
  their positions) whose resolved href no earlier entry resolves to;
* `epubLoopS_eq_firsts`, `firstsFrom_eq_filter` — the loop is the old per-entry step
  (`epubPart`) over exactly those entries;
* `epubLoopS_paths` — no resolved href is presented twice;
* `epubLoopS_eq_loopIdx` — without repetitions the loop is the old skip loop;
* `epubLoopS_congr`, `epubLoopS_pointwise` — congruence in the lookup / in the declaration.
-/
namespace Tabula.Package

/-- the loop of `loadChapters` without the lookups: which spine entries get past the
`loaded` check (`seen` = the resolved hrefs marked so far) -/
def firstsFrom (cp : Str → Option Str) : List Str → List (Str × Nat) → List (Str × Nat)
  | _, [] => []
  | seen, e :: rest =>
    match cp e.1 with
    | none => firstsFrom cp seen rest
    | some p => if p ∈ seen then firstsFrom cp seen rest else e :: firstsFrom cp (p :: seen) rest

/-- **the spine as the reader follows it** — defined from the declaration only: the spine
entries `(idref, position)`, in spine order, whose idref the manifest knows and whose
resolved href (`chapterPath`: manifest href, percent-decoded, joined to the package
directory) is not the resolved href of any EARLIER spine entry. Later repetitions of an
already listed resource (same idref again, another manifest item with the same href,
another spelling of the same href) are removed; positions are the original ones. -/
def spineFirsts (base : Str) (manifest : List (Str × Str)) (spine : List Str) : List (Str × Nat) :=
  spine.zipIdx.filter fun e =>
    match chapterPath base manifest e.1 with
    | none => false
    | some p => decide (p ∉ (spine.take e.2).filterMap (chapterPath base manifest))

/-- the resources a spine lists: the resolved hrefs of its entries, in spine order, with
repetitions -/
def spineHrefs (base : Str) (manifest : List (Str × Str)) (spine : List Str) : List Str :=
  spine.filterMap (chapterPath base manifest)

theorem le_of_mem_zipIdx {α : Type} {l : List α} {i : Nat} {e : α × Nat} (h : e ∈ l.zipIdx i) : i ≤ e.2 := by
  obtain ⟨a, k⟩ := e
  have := List.mk_mem_zipIdx_iff_le_and_getElem?_sub.mp h
  exact this.1

/-- the loop is the per-entry step of the old loop, taken over the entries that get past
the `loaded` check -/
theorem epubLoopS_eq_firsts (look : Str → Option Nat) (base : Str) (manifest : List (Str × Str))
    (seen : List Str) (i : Nat) (l : List Str) :
    epubLoopS look base manifest seen i l =
      (firstsFrom (chapterPath base manifest) seen (l.zipIdx i)).filterMap
        (fun e => epubPart look base manifest e.2 e.1) := by
  induction l generalizing seen i with
  | nil => rfl
  | cons r rest ih =>
    simp only [epubLoopS, List.zipIdx_cons, firstsFrom]
    cases hcp : chapterPath base manifest r with
    | none => exact ih seen (i + 1)
    | some p =>
      by_cases hs : p ∈ seen
      · simp only [hs, if_true]
        exact ih seen (i + 1)
      · have hpart : epubPart look base manifest i r = (look p).map fun c => (i, c, p, r) := by
          unfold epubPart
          rw [hcp]
          cases hl : look p <;> simp [hl]
        simp only [hs, if_false, List.filterMap_cons, hpart]
        cases look p with
        | none => exact ih (p :: seen) (i + 1)
        | some c => simp only [Option.map_some, ih (p :: seen) (i + 1)]

/-- which entries get past the check, said without recursion: the manifest knows the
idref, and the resolved href is neither marked at the start nor the resolved href of an
earlier entry -/
theorem firstsFrom_eq_filter (cp : Str → Option Str) (seen : List Str) (i : Nat) (l : List Str) :
    firstsFrom cp seen (l.zipIdx i) =
      (l.zipIdx i).filter fun e =>
        match cp e.1 with
        | none => false
        | some p => decide (p ∉ seen ∧ p ∉ (l.take (e.2 - i)).filterMap cp) := by
  induction l generalizing seen i with
  | nil => rfl
  | cons r rest ih =>
    simp only [List.zipIdx_cons, firstsFrom, List.filter_cons]
    have htake : ∀ e ∈ rest.zipIdx (i + 1), (r :: rest).take (e.2 - i) = r :: rest.take (e.2 - (i + 1)) := by
      intro e he
      have := le_of_mem_zipIdx he
      have h1 : e.2 - i = (e.2 - (i + 1)) + 1 := by omega
      rw [h1, List.take_succ_cons]
    cases hcp : cp r with
    | none =>
      simp only [Bool.false_eq_true, if_false]
      rw [ih seen (i + 1)]
      apply List.filter_congr
      intro e he
      rw [htake e he, List.filterMap_cons, hcp]
    | some p =>
      by_cases hs : p ∈ seen
      · simp only [hs, if_true, not_true_eq_false, false_and, decide_false, Bool.false_eq_true, if_false]
        rw [ih seen (i + 1)]
        apply List.filter_congr
        intro e he
        rw [htake e he, List.filterMap_cons, hcp]
        cases cp e.1 with
        | none => rfl
        | some q =>
          simp only [List.mem_cons, not_or, decide_eq_decide]
          constructor
          · intro ⟨h1, h2⟩
            refine ⟨h1, ?_, h2⟩
            intro e
            subst e
            exact h1 hs
          · intro ⟨h1, _, h2⟩
            exact ⟨h1, h2⟩
      · simp only [hs, if_false, Nat.sub_self, List.take_zero, List.filterMap_nil, List.not_mem_nil,
          not_false_eq_true, and_self, decide_true, if_true]
        rw [ih (p :: seen) (i + 1)]
        congr 1
        apply List.filter_congr
        intro e he
        rw [htake e he, List.filterMap_cons, hcp]
        cases cp e.1 with
        | none => rfl
        | some q =>
          simp only [List.mem_cons, not_or, decide_eq_decide]
          constructor
          · intro ⟨⟨h1, h2⟩, h3⟩
            exact ⟨h2, h1, h3⟩
          · intro ⟨h1, h2, h3⟩
            exact ⟨⟨h2, h1⟩, h3⟩

/-- `loadChapters` follows `spineFirsts` -/
theorem epubLoop_eq_spineFirsts (look : Str → Option Nat) (base : Str) (manifest : List (Str × Str))
    (spine : List Str) :
    epubLoop look base manifest 0 spine =
      (spineFirsts base manifest spine).filterMap (fun e => epubPart look base manifest e.2 e.1) := by
  unfold epubLoop spineFirsts
  rw [epubLoopS_eq_firsts, firstsFrom_eq_filter]
  congr 1
  apply List.filter_congr
  intro e _
  cases chapterPath base manifest e.1 with
  | none => rfl
  | some p => simp

/-- every presented chapter: its path is a resolved href of the spine that was not marked
before, it was found under that path, and no path is presented twice -/
theorem epubLoopS_paths (look : Str → Option Nat) (base : Str) (manifest : List (Str × Str))
    (seen : List Str) (i : Nat) (l : List Str) :
    (∀ q ∈ (epubLoopS look base manifest seen i l).map (fun c => c.2.2.1),
        q ∉ seen ∧ q ∈ l.filterMap (chapterPath base manifest)) ∧
      ((epubLoopS look base manifest seen i l).map (fun c => c.2.2.1)).Nodup := by
  induction l generalizing seen i with
  | nil => simp [epubLoopS]
  | cons r rest ih =>
    simp only [epubLoopS, List.filterMap_cons]
    cases hcp : chapterPath base manifest r with
    | none => exact ih seen (i + 1)
    | some p =>
      by_cases hs : p ∈ seen
      · simp only [hs, if_true]
        obtain ⟨h1, h2⟩ := ih seen (i + 1)
        exact ⟨fun q hq => ⟨(h1 q hq).1, List.mem_cons_of_mem _ (h1 q hq).2⟩, h2⟩
      · simp only [hs, if_false]
        obtain ⟨h1, h2⟩ := ih (p :: seen) (i + 1)
        have hrest : ∀ q ∈ (epubLoopS look base manifest (p :: seen) (i + 1) rest).map (fun c => c.2.2.1),
            q ∉ seen ∧ q ∈ p :: rest.filterMap (chapterPath base manifest) := by
          intro q hq
          have := h1 q hq
          exact ⟨fun hmem => this.1 (List.mem_cons_of_mem _ hmem), List.mem_cons_of_mem _ this.2⟩
        cases look p with
        | none => exact ⟨hrest, h2⟩
        | some c =>
          simp only [List.map_cons, List.nodup_cons]
          refine ⟨?_, ?_, h2⟩
          · intro q hq
            rcases List.mem_cons.mp hq with hq | hq
            · subst hq
              exact ⟨hs, List.mem_cons_self⟩
            · exact hrest q hq
          · intro hmem
            exact (h1 p hmem).1 List.mem_cons_self

/-- every presented chapter was found in the archive under its path -/
theorem epubLoopS_found (look : Str → Option Nat) (base : Str) (manifest : List (Str × Str))
    (seen : List Str) (i : Nat) (l : List Str) :
    ∀ c ∈ epubLoopS look base manifest seen i l, look c.2.2.1 = some c.2.1 := by
  rw [epubLoopS_eq_firsts]
  intro c hc
  obtain ⟨e, _, he⟩ := List.mem_filterMap.mp hc
  unfold epubPart at he
  cases hcp : chapterPath base manifest e.1 with
  | none => simp [hcp] at he
  | some p =>
    cases hl : look p with
    | none => simp [hcp, hl] at he
    | some d =>
      simp only [hcp, hl, Option.some.injEq] at he
      subst he
      exact hl

/-- a spine that lists no resource twice (and none that is marked already) is walked by
the loop exactly as by the loop before the fix -/
theorem epubLoopS_eq_loopIdx (look : Str → Option Nat) (base : Str) (manifest : List (Str × Str))
    (seen : List Str) (i : Nat) (l : List Str)
    (hnd : (l.filterMap (chapterPath base manifest)).Nodup)
    (hdis : ∀ q ∈ l.filterMap (chapterPath base manifest), q ∉ seen) :
    epubLoopS look base manifest seen i l = loopIdx (epubPart look base manifest) i l := by
  induction l generalizing seen i with
  | nil => rfl
  | cons r rest ih =>
    simp only [epubLoopS, loopIdx, epubPart]
    cases hcp : chapterPath base manifest r with
    | none =>
      simp only [List.filterMap_cons, hcp] at hnd hdis
      exact ih seen (i + 1) hnd hdis
    | some p =>
      simp only [List.filterMap_cons, hcp, List.nodup_cons] at hnd hdis
      have hs : p ∉ seen := hdis p List.mem_cons_self
      have hdis' : ∀ q ∈ rest.filterMap (chapterPath base manifest), q ∉ p :: seen := by
        intro q hq hmem
        rcases List.mem_cons.mp hmem with e | hmem
        · subst e
          exact hnd.1 hq
        · exact hdis q (List.mem_cons_of_mem _ hq) hmem
      have := ih (p :: seen) (i + 1) hnd.2 hdis'
      simp only [hs, if_false]
      cases look p with
      | none => exact this
      | some c => simp only [this]

/-- the loop depends on the archive only through the lookups at the resolved hrefs -/
theorem epubLoopS_congr (look look' : Str → Option Nat) (base : Str) (manifest : List (Str × Str))
    (seen : List Str) (i : Nat) (l : List Str)
    (h : ∀ p ∈ l.filterMap (chapterPath base manifest), look' p = look p) :
    epubLoopS look' base manifest seen i l = epubLoopS look base manifest seen i l := by
  induction l generalizing seen i with
  | nil => rfl
  | cons r rest ih =>
    simp only [epubLoopS]
    cases hcp : chapterPath base manifest r with
    | none =>
      simp only [List.filterMap_cons, hcp] at h
      exact ih seen (i + 1) h
    | some p =>
      simp only [List.filterMap_cons, hcp] at h
      have hp : look' p = look p := h p List.mem_cons_self
      have hr := fun s => ih s (i + 1) (fun q hq => h q (List.mem_cons_of_mem _ hq))
      simp only [hp, hr]

/-- two declarations whose spines resolve, position by position, to the same paths with
the same contents behind them (and carry the same idrefs) are walked alike: the `loaded`
sets evolve identically -/
theorem epubLoopS_pointwise (look look' : Str → Option Nat) (base base' : Str)
    (manifest manifest' : List (Str × Str)) (seen : List Str) (i : Nat) (l l' : List Str)
    (hl : l.length = l'.length)
    (h : ∀ (k : Nat) (r r' : Str), l[k]? = some r → l'[k]? = some r' →
      r = r' ∧ chapterPath base manifest r = chapterPath base' manifest' r' ∧
      ∀ p, chapterPath base manifest r = some p → look p = look' p) :
    epubLoopS look base manifest seen i l = epubLoopS look' base' manifest' seen i l' := by
  induction l generalizing l' seen i with
  | nil =>
    cases l' with
    | nil => rfl
    | cons _ _ => simp at hl
  | cons r rest ih =>
    cases l' with
    | nil => simp at hl
    | cons r' rest' =>
      obtain ⟨h1, h2, h3⟩ := h 0 r r' (by simp) (by simp)
      subst h1
      have hrest := fun s => ih s (i + 1) rest' (by simpa using hl)
        (fun k a b ha hb => h (k + 1) a b (by simpa using ha) (by simpa using hb))
      simp only [epubLoopS, ← h2]
      cases hcp : chapterPath base manifest r with
      | none => exact hrest seen
      | some p =>
        simp only [← h3 p hcp, hrest]

end Tabula.Package
