import TabulaModel.Lemmas.A1Range
/-!
Lemmas for the total (all strings) statements about the reference codec of xlsx/cell.go:
case folding commutes with every step of `ParseCellRef`, bounds of what parses, `strconv.Atoi`
on a printed negative number, `strings.Split(ref, ":")` in general.
-/
namespace Tabula.A1

theorem upper_idem (c : Nat) : upper (upper c) = upper c := by
  unfold upper; split <;> rename_i h
  · have : ¬ (97 ≤ c - 32) := by simp at h; omega
    simp [this]
  · simp [h]

theorem isLetter_upper (c : Nat) : isLetter (upper c) = isLetter c := by
  unfold isLetter upper
  by_cases h : 97 ≤ c ∧ c ≤ 122
  · have h1 : (97 ≤ c && c ≤ 122) = true := by simp [h]
    have : 65 ≤ c - 32 ∧ c - 32 ≤ 90 := by omega
    simp [h1, this]
  · have h1 : (97 ≤ c && c ≤ 122) = false := by
      cases hh : (97 ≤ c && c ≤ 122) with
      | false => rfl
      | true => simp at hh; exact absurd hh h
    simp [h1]

/-- case folding leaves every byte that is no lower-case letter alone -/
theorem upper_of_not_lower (c : Nat) (h : ¬ (97 ≤ c ∧ c ≤ 122)) : upper c = c := by
  unfold upper
  have h1 : (97 ≤ c && c ≤ 122) = false := by
    cases hh : (97 ≤ c && c ≤ 122) with
    | false => rfl
    | true => simp at hh; exact absurd hh h
  simp [h1]

/-- the folded byte of a lower-case letter is an upper-case letter -/
theorem upper_of_lower (c : Nat) (h : 97 ≤ c ∧ c ≤ 122) : upper c = c - 32 := by
  unfold upper
  have h1 : (97 ≤ c && c ≤ 122) = true := by simp [h]
  simp [h1]

theorem takeWhile_letters (s : Str) : ∀ x ∈ s.takeWhile isLetter, isLetter x = true := by
  induction s with
  | nil => simp
  | cons c cs ih =>
    intro x hx
    simp only [List.takeWhile_cons] at hx
    split at hx
    · rename_i hc
      rcases List.mem_cons.mp hx with h | h
      · rw [h]; exact hc
      · exact ih x h
    · cases hx

theorem dropWhile_nil_letters (s : Str) (h : s.dropWhile isLetter = []) : ∀ x ∈ s, isLetter x = true := by
  induction s with
  | nil => simp
  | cons c cs ih =>
    simp only [List.dropWhile_cons] at h
    split at h
    · rename_i hc
      intro x hx
      rcases List.mem_cons.mp hx with hx | hx
      · rw [hx]; exact hc
      · exact ih h x hx
    · cases h

theorem dec_zero : dec 0 = [48] := by
  unfold dec; rw [decAux]; simp

theorem takeWhile_map_upper (s : Str) :
    (s.map upper).takeWhile isLetter = (s.takeWhile isLetter).map upper := by
  induction s with
  | nil => rfl
  | cons c cs ih =>
    simp only [List.map_cons, List.takeWhile_cons, isLetter_upper]
    split
    · simp [ih]
    · rfl

theorem dropWhile_map_upper (s : Str) :
    (s.map upper).dropWhile isLetter = (s.dropWhile isLetter).map upper := by
  induction s with
  | nil => rfl
  | cons c cs ih =>
    simp only [List.map_cons, List.dropWhile_cons, isLetter_upper]
    split
    · exact ih
    · rfl

theorem digitsAcc_map_upper (s : Str) (a : Nat) : digitsAcc (s.map upper) a = digitsAcc s a := by
  induction s generalizing a with
  | nil => rfl
  | cons c cs ih =>
    simp only [List.map_cons, digitsAcc]
    by_cases h : 97 ≤ c ∧ c ≤ 122
    · rw [upper_of_lower c h]
      have h1 : (48 ≤ c - 32 && c - 32 ≤ 57) = false := by
        cases hh : (48 ≤ c - 32 && c - 32 ≤ 57) with
        | false => rfl
        | true => simp at hh; omega
      have h2 : (48 ≤ c && c ≤ 57) = false := by
        cases hh : (48 ≤ c && c ≤ 57) with
        | false => rfl
        | true => simp at hh; omega
      rw [h1, h2]; rfl
    · rw [upper_of_not_lower c h, ih]

/-- `strconv.Atoi` does not see the case folding: a sign and digits have no case, and a byte that
is no digit stays one -/
theorem atoi_map_upper (s : Str) : atoi (s.map upper) = atoi s := by
  cases s with
  | nil => rfl
  | cons c cs =>
    by_cases h43 : c = 43
    · subst h43
      have : upper 43 = 43 := by decide
      simp only [List.map_cons, this, atoi, List.isEmpty_map, digitsAcc_map_upper]
    · by_cases h45 : c = 45
      · subst h45
        have : upper 45 = 45 := by decide
        simp only [List.map_cons, this, atoi, List.isEmpty_map, digitsAcc_map_upper]
      · have hu43 : upper c ≠ 43 := by
          by_cases h : 97 ≤ c ∧ c ≤ 122
          · rw [upper_of_lower c h]; omega
          · rw [upper_of_not_lower c h]; exact h43
        have hu45 : upper c ≠ 45 := by
          by_cases h : 97 ≤ c ∧ c ≤ 122
          · rw [upper_of_lower c h]; omega
          · rw [upper_of_not_lower c h]; exact h45
        have e1 : atoi (c :: cs) =
            (if (c :: cs).isEmpty then none else
              match digitsAcc (c :: cs) 0 with
              | none => none
              | some v => if v ≤ maxInt64 then some (v : Int) else none) := by
          unfold atoi
          split
          · rename_i heq
            split at heq
            · rename_i h'; simp at h'; exact absurd h'.1 h43
            · rename_i h'; simp at h'; exact absurd h'.1 h45
            · simp at heq; obtain ⟨hn, hds⟩ := heq; subst hn; subst hds; rfl
        have e2 : atoi (upper c :: cs.map upper) =
            (if (upper c :: cs.map upper).isEmpty then none else
              match digitsAcc (upper c :: cs.map upper) 0 with
              | none => none
              | some v => if v ≤ maxInt64 then some (v : Int) else none) := by
          unfold atoi
          split
          · rename_i heq
            split at heq
            · rename_i h'; simp at h'; exact absurd h'.1 hu43
            · rename_i h'; simp at h'; exact absurd h'.1 hu45
            · simp at heq; obtain ⟨hn, hds⟩ := heq; subst hn; subst hds; rfl
        have e3 := digitsAcc_map_upper (c :: cs) 0
        simp only [List.map_cons] at e3
        simp only [List.map_cons]
        rw [e1, e2, e3]; rfl

/-- what `colAcc` accepts is within the bound -/
theorem colAcc_le (s : Str) (a r : Nat) (ha : a ≤ maxColumnNumber) (h : colAcc s a = some r) :
    r ≤ maxColumnNumber := by
  induction s generalizing a with
  | nil => simp [colAcc] at h; omega
  | cons c cs ih =>
    simp only [colAcc] at h
    split at h
    · split at h
      · cases h
      · exact ih _ (by omega) h
    · cases h

/-- `ColumnToIndex` answers -1 or an index below `maxColumnNumber` -/
theorem columnToIndex_range (s : Str) : columnToIndex s = -1 ∨
    (0 ≤ columnToIndex s + 1 ∧ columnToIndex s + 1 ≤ (maxColumnNumber : Int)) := by
  unfold columnToIndex
  cases h : colAcc s 0 with
  | none => exact Or.inl rfl
  | some r =>
    have := colAcc_le s 0 r (by decide) h
    refine Or.inr ⟨by simp only; omega, by simp only; omega⟩

/-- `strconv.Atoi` answers within the int64 range -/
theorem atoi_range (s : Str) (v : Int) (h : atoi s = some v) :
    -((maxInt64 : Int) + 1) ≤ v ∧ v ≤ (maxInt64 : Int) := by
  unfold atoi at h
  split at h
  rename_i neg ds heq
  split at h
  · cases h
  · split at h
    · cases h
    · rename_i w hw
      cases neg with
      | true =>
        simp only [if_true] at h
        split at h
        · cases h; omega
        · cases h
      | false =>
        simp only [Bool.false_eq_true, if_false] at h
        split at h
        · cases h; omega
        · cases h

/-- `strconv.Atoi` of a printed negative number -/
theorem atoi_neg_dec (n : Nat) (h : n ≤ maxInt64 + 1) : atoi (45 :: dec n) = some (-(n : Int)) := by
  obtain ⟨d, ds, hd, h1, h2⟩ := dec_head n
  have hdig := digitsAcc_dec n
  unfold atoi
  simp only [hd] at hdig ⊢
  simp [hdig, h]

/-- `strings.Split(s, ":")` in general: the piece up to the first colon, then the pieces of the
rest -/
theorem splitOnColon_cons_colon (a rest cur : Str) (ha : 58 ∉ a) :
    splitOnColon (a ++ 58 :: rest) cur = (cur.reverse ++ a) :: splitOnColon rest [] := by
  rw [splitOnColon_clean a _ cur ha]
  simp [splitOnColon]

theorem splitOnColon_no_colon (a cur : Str) (ha : 58 ∉ a) :
    splitOnColon a cur = [cur.reverse ++ a] := by
  have := splitOnColon_clean a [] cur ha
  simp only [List.append_nil] at this
  rw [this]; simp [splitOnColon]

/-- every string is a colon-free piece, alone or followed by a colon and a rest -/
theorem split_first_colon (s : Str) :
    58 ∉ s ∨ ∃ a rest, s = a ++ 58 :: rest ∧ 58 ∉ a := by
  induction s with
  | nil => exact Or.inl (by simp)
  | cons c cs ih =>
    by_cases hc : c = 58
    · exact Or.inr ⟨[], cs, by simp [hc], by simp⟩
    · rcases ih with h | ⟨a, rest, h1, h2⟩
      · refine Or.inl ?_
        intro hm
        rcases List.mem_cons.mp hm with hm | hm
        · exact hc hm.symm
        · exact h hm
      · refine Or.inr ⟨c :: a, rest, by simp [h1], ?_⟩
        intro hm
        rcases List.mem_cons.mp hm with hm | hm
        · exact hc hm.symm
        · exact h2 hm

theorem splitOnColon_ne_nil (s cur : Str) : splitOnColon s cur ≠ [] := by
  induction s generalizing cur with
  | nil => simp [splitOnColon]
  | cons c cs ih =>
    simp only [splitOnColon]
    split
    · simp
    · exact ih _

/-- `strings.Split(s, ":")` has exactly two pieces iff `s` has exactly one colon -/
theorem splitOnColon_two_iff (s a b : Str) :
    splitOnColon s [] = [a, b] ↔ s = a ++ 58 :: b ∧ 58 ∉ a ∧ 58 ∉ b := by
  constructor
  · intro h
    rcases split_first_colon s with hs | ⟨x, rest, hx, hxa⟩
    · rw [splitOnColon_no_colon s [] hs] at h; simp at h
    · subst hx
      rw [splitOnColon_cons_colon x rest [] hxa] at h
      simp only [List.reverse_nil, List.nil_append, List.cons.injEq] at h
      obtain ⟨h1, h2⟩ := h
      subst h1
      rcases split_first_colon rest with hr | ⟨y, rest', hy, hya⟩
      · rw [splitOnColon_no_colon rest [] hr] at h2
        simp only [List.reverse_nil, List.nil_append, List.cons.injEq, and_true] at h2
        subst h2
        exact ⟨rfl, hxa, hr⟩
      · subst hy
        rw [splitOnColon_cons_colon y rest' [] hya] at h2
        simp only [List.reverse_nil, List.nil_append, List.cons.injEq] at h2
        exact absurd h2.2 (splitOnColon_ne_nil rest' [])
  · rintro ⟨rfl, ha, hb⟩
    exact splitOnColon_pair a b ha hb

end Tabula.A1
