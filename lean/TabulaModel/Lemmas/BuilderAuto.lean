import TabulaModel.Model.BuilderAuto
import TabulaModel.Lemmas.BuilderHist
/-!
Helper lemmas for `Props/C10Auto.lean`: the life-cycle automaton of `Model/BuilderAuto.lean`
is an abstraction of the store model (`abs_step`, `abs_exec`), the state of an extractor is a
fold over its own operations (`life_local`), and the last of them decides whether it holds a
reader (`fold_last`).
-/
namespace Tabula.BuilderAuto
open Tabula.PageSel Tabula.Builder

/-! ### list helpers -/

theorem set_same {α : Type} (l : List α) (i : Nat) (a : α) (h : l[i]? = some a) : l.set i a = l := by
  induction l generalizing i with
  | nil => rfl
  | cons x xs ih =>
    cases i with
    | zero => simp only [List.getElem?_cons_zero, Option.some.injEq] at h; subst h; rfl
    | succ k => simp only [List.getElem?_cons_succ] at h; simp [ih k h]

/-! ### the abstraction -/

/-- the life-cycle states of all extractors of a store -/
def abs (s : Store) : List LS := s.exts.map lsOf

theorem abs_getElem? (s : Store) (i : Nat) : (abs s)[i]? = (s.exts[i]?).map lsOf := by
  simp [abs]

/-- in a reachable store the state determines the three life-cycle fields -/
theorem flags_of_lsOf {s : Store} (h : StoreInv s) {i : Nat} {e : Ext} (he : s.exts[i]? = some e) :
    (lsOf e).owns = e.owns ∧ (lsOf e).opened = e.opened ∧ (lsOf e).hasReader = e.reader.isSome := by
  unfold lsOf
  cases ho : e.opened with
  | false =>
    obtain ⟨h1, h2⟩ := h.unopened i e he ho
    simp [LS.owns, LS.opened, LS.hasReader, h1, h2]
  | true =>
    obtain ⟨r, hr, _⟩ := h.live i e he ho
    cases hw : e.owns <;> simp [LS.owns, LS.opened, LS.hasReader, hr]

theorem lsOf_holding_iff {s : Store} (h : StoreInv s) {i : Nat} {e : Ext} (he : s.exts[i]? = some e) :
    lsOf e = .holding ↔ e.owns = true := by
  have := (flags_of_lsOf h he).1
  constructor
  · intro hl; rw [hl] at this; exact this.symm
  · intro ho
    rw [ho] at this
    cases hl : lsOf e <;> rw [hl] at this <;> simp [LS.owns] at this

theorem abs_closeExt {s : Store} (h : StoreInv s) {i : Nat} {e : Ext} (he : s.exts[i]? = some e) :
    abs (closeExt s i e) = (abs s).set i (lsClose (lsOf e)) := by
  have hi := lt_of_getElem? he
  unfold closeExt
  cases hw : e.owns with
  | false =>
    have hl : lsClose (lsOf e) = lsOf e := by
      unfold lsOf; rw [hw]; cases e.opened <;> rfl
    simp only [Bool.false_eq_true, if_false]
    rw [hl, set_same]
    rw [abs_getElem?, he]; rfl
  | true =>
    have ho := h.owns_opened he hw
    obtain ⟨r, hr, _⟩ := h.live i e he ho
    have hl : lsOf e = .holding := by unfold lsOf; rw [ho, hw]; rfl
    simp only [if_true, hr, abs, List.map_set, hl, lsClose]
    rfl

theorem abs_openNew {s : Store} {i : Nat} {e : Ext} :
    abs (openNew s i e).1 = (abs s).set i .holding := by
  simp only [abs, openNew, List.map_set]
  rfl

theorem abs_termStore (w : World) {s : Store} (h : StoreInv s) {i : Nat} {e : Ext}
    (he : s.exts[i]? = some e) :
    abs (termStore w s i e) = (abs s).set i (lsClose (lsEnsure w e (lsOf e))) := by
  have hself : (abs s)[i]? = some (lsOf e) := by rw [abs_getElem?, he]; rfl
  rcases termStore_cases w s i e with ⟨ho, hr⟩ | ⟨ho, hb, hr⟩ | ⟨ho, hf, hw, hr⟩
  · rw [hr, abs_closeExt h he]
    have : lsEnsure w e (lsOf e) = lsOf e := by
      unfold lsOf; rw [ho]; cases e.owns <;> rfl
    rw [this]
  · rw [hr]
    have hl : lsOf e = .idle := by unfold lsOf; rw [ho]; rfl
    have : lsEnsure w e .idle = .idle := by
      unfold lsEnsure
      rcases hb with hb | hb <;> simp [hb]
    rw [hl, this]
    show abs s = (abs s).set i .idle
    rw [set_same]; rw [hself, hl]
  · rw [hr, close_openNew h he ho]
    have hl : lsOf e = .idle := by unfold lsOf; rw [ho]; rfl
    have : lsEnsure w e .idle = .holding := by unfold lsEnsure; simp [hf, hw]
    rw [hl, this]
    show abs s = (abs s).set i .idle
    rw [set_same]; rw [hself, hl]

theorem abs_ntStore (w : World) {s : Store} {i : Nat} {e : Ext}
    (he : s.exts[i]? = some e) :
    abs (ntStore w s i e) = (abs s).set i (lsEnsure w e (lsOf e)) := by
  have hself : (abs s)[i]? = some (lsOf e) := by rw [abs_getElem?, he]; rfl
  rcases ntStore_cases w s i e with ⟨ho, hr⟩ | ⟨ho, hb, hr⟩ | ⟨ho, hf, hw, hr⟩
  · rw [hr]
    have : lsEnsure w e (lsOf e) = lsOf e := by
      unfold lsOf; rw [ho]; cases e.owns <;> rfl
    rw [this, set_same]; exact hself
  · rw [hr]
    have hl : lsOf e = .idle := by unfold lsOf; rw [ho]; rfl
    have : lsEnsure w e .idle = .idle := by
      unfold lsEnsure
      rcases hb with hb | hb <;> simp [hb]
    rw [hl, this, set_same]; rw [hself, hl]
  · rw [hr, abs_openNew]
    have hl : lsOf e = .idle := by unfold lsOf; rw [ho]; rfl
    have : lsEnsure w e .idle = .holding := by unfold lsEnsure; simp [hf, hw]
    rw [hl, this]

theorem abs_mismatch (w : World) {s : Store} (h : StoreInv s) {i : Nat} {e : Ext}
    (he : s.exts[i]? = some e) :
    abs (mismatchStore w s i e) = (abs s).set i (lsMismatch w e (lsOf e)) := by
  have hself : (abs s)[i]? = some (lsOf e) := by rw [abs_getElem?, he]; rfl
  rw [mismatchStore_eq w h he]
  unfold lsMismatch
  cases hf : e.hasFile with
  | true => simp only [if_true]; exact abs_termStore w h he
  | false =>
    simp only [Bool.false_eq_true, if_false]
    have : lsEnsure w e (lsOf e) = lsOf e := by
      unfold lsEnsure
      cases lsOf e <;> simp [hf]
    rw [this, set_same]; exact hself

/-- the frames only look at the configuration -/
theorem lsTerm_congr (w : World) (k : Term) (e e' : Ext) (l : LS) (h : e.static = e'.static) :
    lsTerm w k e l = lsTerm w k e' l := by
  simp only [Ext.static, Prod.mk.injEq] at h
  obtain ⟨_, h2, h3, h4⟩ := h
  unfold lsTerm lsMismatch lsEnsure
  rw [h2, h3, h4]

theorem lsNonTerm_congr (w : World) (k : NonTerm) (e e' : Ext) (l : LS) (h : e.static = e'.static) :
    lsNonTerm w k e l = lsNonTerm w k e' l := by
  simp only [Ext.static, Prod.mk.injEq] at h
  obtain ⟨_, h2, h3, h4⟩ := h
  unfold lsNonTerm lsMismatch lsEnsure
  rw [h2, h3, h4]

/-- the configurations `C` describe the store -/
def CfgOf (C : List Ext) (s : Store) : Prop :=
  ∀ (i : Nat) (e : Ext), s.exts[i]? = some e → ∃ c, C[i]? = some c ∧ c.static = e.static

theorem cfgOf_lin {e0 : Ext} {L : List (List BCall)} {s : Store} (hl : LinInv e0 L s) :
    CfgOf (cfgs e0 L) s := by
  intro i e he
  have hi : i < L.length := by rw [hl.1]; exact lt_of_getElem? he
  refine ⟨chainFrom e0 L[i], ?_, ?_⟩
  · simp [cfgs, List.getElem?_eq_getElem hi]
  · exact (hl.2 i L[i] e (List.getElem?_eq_getElem hi) he).symm

theorem derive_lsOf {s : Store} (h : StoreInv s) {i : Nat} {e : Ext} (he : s.exts[i]? = some e)
    (c : BCall) : lsOf (e.derive c) = (lsOf e).cloned := by
  rcases derive_life e c with ⟨ho, hno, _, hw, hop⟩ | ⟨_, hw, hop⟩
  · -- shared: the parent is opened and does not own from a file
    have hown : e.owns = false := by
      cases hw' : e.owns with
      | false => rfl
      | true =>
        have := h.ownsFile i e he hw'
        rw [hw', this] at hno; cases hno
    unfold lsOf
    rw [hop, hw, ho, hown]; rfl
  · have : lsOf (e.derive c) = .idle := by unfold lsOf; rw [hop]; rfl
    rw [this]
    -- the parent is idle or holding
    unfold lsOf
    cases ho : e.opened with
    | false => rfl
    | true =>
      cases hw' : e.owns with
      | true => rfl
      | false =>
        -- opened, not owned: clone would have shared
        exfalso
        have : (e.derive c).opened = true := by
          unfold Ext.derive
          rw [applyCall_opened]
          unfold Ext.clone
          simp [ho, hw']
        rw [hop] at this; cases this

/-- **simulation**: one operation on a reachable store is one step of the automaton -/
theorem abs_step (w : World) {s : Store} (h : StoreInv s) {C : List Ext} (hc : CfgOf C s) (op : Op) :
    abs (step w s op).1 = lsStep w C (abs s) op := by
  cases op with
  | derive i c =>
    simp only [step, deriveOp, lsStep, abs_getElem?]
    cases he : s.exts[i]? with
    | none => rfl
    | some e =>
      simp only [Option.map_some, abs, List.map_append, List.map_cons, List.map_nil]
      rw [derive_lsOf h he c]
  | term i k =>
    simp only [step, lsStep, abs_getElem?]
    cases he : s.exts[i]? with
    | none => simp [terminal, he]
    | some e =>
      obtain ⟨c, hcc, hst⟩ := hc i e he
      simp only [Option.map_some, hcc]
      rw [terminal_fst w k s i e he, lsTerm_congr w k c e _ hst]
      unfold lsTerm
      split
      · rw [set_same]; rw [abs_getElem?, he]; rfl
      · split
        · exact abs_mismatch w h he
        · exact abs_termStore w h he
  | nonTerm i k =>
    simp only [step, lsStep, abs_getElem?]
    cases he : s.exts[i]? with
    | none => simp [nonTerminal, he]
    | some e =>
      obtain ⟨c, hcc, hst⟩ := hc i e he
      simp only [Option.map_some, hcc]
      rw [nonTerminal_fst w k s i e he, lsNonTerm_congr w k c e _ hst]
      unfold lsNonTerm
      split
      · rw [set_same]; rw [abs_getElem?, he]; rfl
      · split
        · exact abs_mismatch w h he
        · exact abs_ntStore w he
  | close i =>
    simp only [step, closeOp, lsStep, abs_getElem?]
    cases he : s.exts[i]? with
    | none => rfl
    | some e => simp only [Option.map_some]; exact abs_closeExt h he

/-- … and a whole history is a run of the automaton -/
theorem abs_exec (w : World) (e0 : Ext) (ops : List Op) :
    ∀ {L : List (List BCall)} {s : Store}, StoreInv s → LinInv e0 L s →
      abs (exec w s ops) = lifeRun w e0 L (abs s) ops := by
  induction ops with
  | nil => intro L s _ _; rfl
  | cons op ops ih =>
    intro L s h hl
    simp only [exec, lifeRun]
    rw [← abs_step w h (cfgOf_lin hl) op]
    exact ih (inv_step w h op) (lin_exec w e0 [op] hl)


/-! ### the state of one extractor is a fold over its own operations -/

theorem lineage_cons (L : List (List BCall)) (op : Op) (ops : List Op) :
    lineage L (op :: ops) = lineage (lineage L [op]) ops := by
  cases op <;> rfl

theorem lineage_one_get (L : List (List BCall)) (op : Op) (i : Nat) (hi : i < L.length) :
    (lineage L [op])[i]? = L[i]? := by
  cases op with
  | derive j c =>
    simp only [lineage]
    cases L[j]? with
    | none => rfl
    | some cs => exact List.getElem?_append_left hi
  | _ => rfl

theorem lineage_one_length_le (L : List (List BCall)) (op : Op) :
    L.length ≤ (lineage L [op]).length := by
  cases op with
  | derive j c =>
    simp only [lineage]
    cases L[j]? <;> simp
  | _ => exact Nat.le_refl _

theorem lineage_get_lt (ops : List Op) : ∀ (L : List (List BCall)) (i : Nat), i < L.length →
    (lineage L ops)[i]? = L[i]? := by
  induction ops with
  | nil => intro L i _; rfl
  | cons op ops ih =>
    intro L i hi
    rw [lineage_cons, ih _ i (Nat.lt_of_lt_of_le hi (lineage_one_length_le L op)), lineage_one_get L op i hi]

theorem lsStep_length (w : World) (C : List Ext) (S : List LS) (L : List (List BCall)) (op : Op)
    (h : L.length = S.length) : (lineage L [op]).length = (lsStep w C S op).length := by
  cases op with
  | derive j c =>
    simp only [lineage, lsStep]
    by_cases hj : j < S.length
    · rw [List.getElem?_eq_getElem hj, List.getElem?_eq_getElem (h ▸ hj)]
      simp [h]
    · rw [List.getElem?_eq_none_iff.mpr (by omega), List.getElem?_eq_none_iff.mpr (by omega)]
      exact h
  | term j k =>
    simp only [lineage, lsStep]
    split <;> simp [h]
  | nonTerm j k =>
    simp only [lineage, lsStep]
    split <;> simp [h]
  | close j =>
    simp only [lineage, lsStep]
    split <;> simp [h]

theorem lsStep_get_self (w : World) (C : List Ext) (S : List LS) (op : Op) (i : Nat) (l : LS) (e : Ext)
    (hop : op.mutates = true) (ht : op.target = i) (hS : S[i]? = some l) (hC : C[i]? = some e) :
    (lsStep w C S op)[i]? = some (lsLocal w e l op) := by
  have hi := lt_of_getElem? hS
  cases op with
  | derive j c => cases hop
  | term j k =>
    simp only [Op.target] at ht; subst ht
    simp only [lsStep, hS, hC, lsLocal, List.getElem?_set_self hi]
  | nonTerm j k =>
    simp only [Op.target] at ht; subst ht
    simp only [lsStep, hS, hC, lsLocal, List.getElem?_set_self hi]
  | close j =>
    simp only [Op.target] at ht; subst ht
    simp only [lsStep, hS, lsLocal, List.getElem?_set_self hi]

theorem lsStep_get_other (w : World) (C : List Ext) (S : List LS) (op : Op) (i : Nat)
    (h : op.mutates = false ∨ op.target ≠ i) (hi : i < S.length) :
    (lsStep w C S op)[i]? = S[i]? := by
  cases op with
  | derive j c =>
    simp only [lsStep]
    cases S[j]? with
    | none => rfl
    | some l => exact List.getElem?_append_left hi
  | term j k =>
    have hne : j ≠ i := by rcases h with h | h; · cases h
                           · exact h
    simp only [lsStep]
    split
    · exact List.getElem?_set_ne hne
    · rfl
  | nonTerm j k =>
    have hne : j ≠ i := by rcases h with h | h; · cases h
                           · exact h
    simp only [lsStep]
    split
    · exact List.getElem?_set_ne hne
    · rfl
  | close j =>
    have hne : j ≠ i := by rcases h with h | h; · cases h
                           · exact h
    simp only [lsStep]
    split
    · exact List.getElem?_set_ne hne
    · rfl

theorem ownOps_cons (i : Nat) (op : Op) (ops : List Op) :
    ownOps i (op :: ops) =
      if (op.mutates && op.target == i) = true then op :: ownOps i ops else ownOps i ops := by
  simp only [ownOps, List.filter_cons]

theorem wellScoped_cons {n : Nat} {op : Op} {ops : List Op} (h : wellScoped n (op :: ops) = true)
    (w : World) (C : List Ext) (S : List LS) (hS : S.length = n) :
    op.target < n ∧ wellScoped (lsStep w C S op).length ops = true := by
  cases op with
  | derive j c =>
    simp only [wellScoped, Bool.and_eq_true, decide_eq_true_eq] at h
    refine ⟨h.1, ?_⟩
    simp only [lsStep]
    rw [List.getElem?_eq_getElem (hS ▸ h.1)]
    simp only [List.length_append, List.length_cons, List.length_nil, hS]
    exact h.2
  | term j k =>
    simp only [wellScoped, Bool.and_eq_true, decide_eq_true_eq] at h
    refine ⟨h.1, ?_⟩
    simp only [lsStep]
    split <;> simp [hS, h.2]
  | nonTerm j k =>
    simp only [wellScoped, Bool.and_eq_true, decide_eq_true_eq] at h
    refine ⟨h.1, ?_⟩
    simp only [lsStep]
    split <;> simp [hS, h.2]
  | close j =>
    simp only [wellScoped, Bool.and_eq_true, decide_eq_true_eq] at h
    refine ⟨h.1, ?_⟩
    simp only [lsStep]
    split <;> simp [hS, h.2]

/-- an extractor that exists: its final state is the fold of its own operations over its
state now -/
theorem life_old (w : World) (e0 : Ext) (ops : List Op) :
    ∀ (L : List (List BCall)) (S : List LS), L.length = S.length → wellScoped S.length ops = true →
      ∀ (i : Nat) (cs : List BCall) (l : LS), L[i]? = some cs → S[i]? = some l →
        (lifeRun w e0 L S ops)[i]? = some ((ownOps i ops).foldl (lsLocal w (chainFrom e0 cs)) l) := by
  induction ops with
  | nil => intro L S _ _ i cs l _ hS; exact hS
  | cons op ops ih =>
    intro L S hlen hws i cs l hL hS
    have hiS := lt_of_getElem? hS
    have hiL := lt_of_getElem? hL
    obtain ⟨_, hws'⟩ := wellScoped_cons hws w (cfgs e0 L) S rfl
    have hlen' := lsStep_length w (cfgs e0 L) S L op hlen
    have hL' : (lineage L [op])[i]? = some cs := by rw [lineage_one_get L op i hiL]; exact hL
    have hC : (cfgs e0 L)[i]? = some (chainFrom e0 cs) := by simp [cfgs, hL]
    simp only [lifeRun]
    rw [ownOps_cons]
    by_cases hown : (op.mutates && op.target == i) = true
    · simp only [Bool.and_eq_true, beq_iff_eq] at hown
      have hS' := lsStep_get_self w (cfgs e0 L) S op i l _ hown.1 hown.2 hS hC
      rw [if_pos (by simp [hown.1, hown.2])]
      exact ih _ _ hlen' hws' i cs _ hL' hS'
    · have hoth : op.mutates = false ∨ op.target ≠ i := by
        cases hm : op.mutates with
        | false => left; rfl
        | true => right; intro ht; apply hown; simp [hm, ht]
      have hS' : (lsStep w (cfgs e0 L) S op)[i]? = some l := by
        rw [lsStep_get_other w _ S op i hoth hiS]; exact hS
      rw [if_neg hown]
      exact ih _ _ hlen' hws' i cs _ hL' hS'

theorem lsEnsure_idle (w : World) (e : Ext) :
    lsEnsure w e .idle = if (e.hasFile && w.openOk) = true then .holding else .idle := rfl
theorem lsEnsure_holding (w : World) (e : Ext) : lsEnsure w e .holding = .holding := rfl
theorem lsEnsure_borrowed (w : World) (e : Ext) : lsEnsure w e .borrowed = .borrowed := rfl
theorem lsClose_idle : lsClose .idle = .idle := rfl
theorem lsClose_holding : lsClose .holding = .idle := rfl
theorem lsClose_borrowed : lsClose .borrowed = .borrowed := rfl

/-- no extractor of the family has a borrowed reader (families grown from `Open(f)`) -/
def NoBorrowed (S : List LS) : Prop := ∀ l ∈ S, l ≠ LS.borrowed

theorem lsClose_nb {l : LS} (h : l ≠ .borrowed) : lsClose l ≠ .borrowed := by
  cases l <;> simp_all [lsClose]

theorem lsEnsure_nb (w : World) (e : Ext) {l : LS} (h : l ≠ .borrowed) : lsEnsure w e l ≠ .borrowed := by
  cases l with
  | idle => rw [lsEnsure_idle]; split <;> simp
  | holding => simp [lsEnsure_holding]
  | borrowed => exact absurd rfl h

theorem lsLocal_nb (w : World) (e : Ext) {l : LS} (op : Op) (h : l ≠ .borrowed) :
    lsLocal w e l op ≠ .borrowed := by
  cases op with
  | derive j c => exact h
  | term j k =>
    simp only [lsLocal, lsTerm, lsMismatch]
    split
    · exact h
    · split
      · split
        · exact lsClose_nb (lsEnsure_nb w e h)
        · exact lsEnsure_nb w e h
      · exact lsClose_nb (lsEnsure_nb w e h)
  | nonTerm j k =>
    simp only [lsLocal, lsNonTerm, lsMismatch]
    split
    · exact h
    · split
      · split
        · exact lsClose_nb (lsEnsure_nb w e h)
        · exact lsEnsure_nb w e h
      · exact lsEnsure_nb w e h
  | close j => exact lsClose_nb h

theorem mem_set {α : Type} {l : List α} {i : Nat} {a b : α} (h : b ∈ l.set i a) : b = a ∨ b ∈ l := by
  induction l generalizing i with
  | nil => simp at h
  | cons x xs ih =>
    cases i with
    | zero =>
      simp only [List.set_cons_zero, List.mem_cons] at h
      rcases h with h | h
      · left; exact h
      · right; exact List.mem_cons_of_mem _ h
    | succ k =>
      simp only [List.set_cons_succ, List.mem_cons] at h
      rcases h with h | h
      · right; rw [h]; exact List.mem_cons_self
      · rcases ih h with h | h
        · left; exact h
        · right; exact List.mem_cons_of_mem _ h

theorem lsStep_nb (w : World) (C : List Ext) {S : List LS} (op : Op) (h : NoBorrowed S) :
    NoBorrowed (lsStep w C S op) := by
  cases op with
  | derive j c =>
    simp only [lsStep]
    cases hj : S[j]? with
    | none => exact h
    | some l =>
      intro x hx
      simp only [List.mem_append, List.mem_cons, List.not_mem_nil, or_false] at hx
      rcases hx with hx | hx
      · exact h x hx
      · have hl := h l (List.mem_of_getElem? hj)
        rw [hx]; cases l <;> simp_all [LS.cloned]
  | term j k =>
    simp only [lsStep]
    split
    · rename_i l e hl _
      intro x hx
      rcases mem_set hx with hx | hx
      · rw [hx]; exact lsLocal_nb w e (.term j k) (h _ (List.mem_of_getElem? hl))
      · exact h x hx
    · exact h
  | nonTerm j k =>
    simp only [lsStep]
    split
    · rename_i l e hl _
      intro x hx
      rcases mem_set hx with hx | hx
      · rw [hx]; exact lsLocal_nb w e (.nonTerm j k) (h _ (List.mem_of_getElem? hl))
      · exact h x hx
    · exact h
  | close j =>
    simp only [lsStep]
    split
    · rename_i l hl
      intro x hx
      rcases mem_set hx with hx | hx
      · rw [hx]; exact lsClose_nb (h _ (List.mem_of_getElem? hl))
      · exact h x hx
    · exact h

theorem ownOps_none (i n : Nat) (ops : List Op) (hws : wellScoped n ops = true) (hi : n ≤ i)
    (hfuture : ∀ op ∈ ops, op.mutates = true → op.target ≠ i) : ownOps i ops = [] := by
  unfold ownOps
  rw [List.filter_eq_nil_iff]
  intro op hop
  cases hm : op.mutates with
  | false => simp
  | true => have := hfuture op hop hm; simp [this]

/-- an extractor created later in the history: its final state is the fold of its own
operations over `idle` -/
theorem life_new (w : World) (e0 : Ext) (ops : List Op) :
    ∀ (L : List (List BCall)) (S : List LS), L.length = S.length → wellScoped S.length ops = true →
      NoBorrowed S → ∀ (i : Nat) (cs : List BCall), S.length ≤ i → (lineage L ops)[i]? = some cs →
        (lifeRun w e0 L S ops)[i]? = some ((ownOps i ops).foldl (lsLocal w (chainFrom e0 cs)) .idle) := by
  induction ops with
  | nil =>
    intro L S hlen _ _ i cs hi hL
    have := lt_of_getElem? hL
    simp only [lineage] at this
    omega
  | cons op ops ih =>
    intro L S hlen hws hnb i cs hi hL
    obtain ⟨htgt, hws'⟩ := wellScoped_cons hws w (cfgs e0 L) S rfl
    have hlen' := lsStep_length w (cfgs e0 L) S L op hlen
    have hnb' := lsStep_nb w (cfgs e0 L) op hnb
    rw [lineage_cons] at hL
    simp only [lifeRun]
    have hnot : (op.mutates && op.target == i) = false := by
      have : op.target ≠ i := by omega
      simp [this]
    rw [ownOps_cons, hnot]
    simp only [Bool.false_eq_true, if_false]
    by_cases hge : (lsStep w (cfgs e0 L) S op).length ≤ i
    · exact ih _ _ hlen' hws' hnb' i cs hge hL
    · -- created by this very operation
      have hlt : i < (lsStep w (cfgs e0 L) S op).length := by omega
      have hLi : (lineage L [op])[i]? = some cs := by
        rw [← lineage_get_lt ops _ i (by rw [hlen']; exact hlt)]; exact hL
      obtain ⟨l, hl⟩ : ∃ l, (lsStep w (cfgs e0 L) S op)[i]? = some l :=
        ⟨_, List.getElem?_eq_getElem hlt⟩
      have hidle : l = .idle := by
        cases op with
        | derive j c =>
          simp only [lsStep] at hl hlt
          cases hj : S[j]? with
          | none => rw [hj] at hlt; simp only at hlt; omega
          | some p =>
            rw [hj] at hl hlt
            simp only [List.length_append, List.length_cons, List.length_nil] at hlt
            have hi' : i = S.length := by omega
            subst hi'
            rw [List.getElem?_append_right (Nat.le_refl _)] at hl
            simp only [Nat.sub_self, List.getElem?_cons_zero, Option.some.injEq] at hl
            rw [← hl]
            have := hnb p (List.mem_of_getElem? hj)
            cases p <;> simp_all [LS.cloned]
        | term j k =>
          exfalso; apply hge; simp only [lsStep]; split <;> (try simp only [List.length_set]) <;> omega
        | nonTerm j k =>
          exfalso; apply hge; simp only [lsStep]; split <;> (try simp only [List.length_set]) <;> omega
        | close j =>
          exfalso; apply hge; simp only [lsStep]; split <;> (try simp only [List.length_set]) <;> omega
      rw [hidle] at hl
      exact life_old w e0 ops _ _ hlen' hws' i cs .idle hLi hl

/-! ### the last operation decides -/

/-- what is true of the state of a file-based extractor at every point of its fold -/
def Jst (w : World) (e : Ext) (l : LS) : Prop :=
  l ≠ .borrowed ∧ (l = .holding → e.hasFile = true ∧ e.err = false ∧ w.openOk = true)

theorem lsLocal_J (w : World) (e : Ext) (l : LS) (op : Op) (hJ : Jst w e l) (hop : op.mutates = true) :
    Jst w e (lsLocal w e l op) ∧ (lsLocal w e l op = .holding ↔ opensReader w e op = true) := by
  obtain ⟨hnb, hh⟩ := hJ
  cases op with
  | derive j c => cases hop
  | close j =>
    refine ⟨⟨lsClose_nb hnb, ?_⟩, ?_⟩
    · intro h; cases l <;> simp [lsLocal, lsClose] at h
    · simp only [opensReader]
      constructor
      · intro h; cases l <;> simp [lsLocal, lsClose] at h
      · intro h; cases h
  | term j k =>
    have key : lsLocal w e l (.term j k) ≠ .holding := by
      simp only [lsLocal, lsTerm, lsMismatch]
      cases l with
      | borrowed => exact absurd rfl hnb
      | idle =>
        simp only [lsEnsure_idle]
        cases (k.checksErr e.format && e.err) <;> cases (k.pdfOnly && e.format != .pdf) <;>
          cases e.hasFile <;> cases w.openOk <;> simp [lsClose_idle, lsClose_holding]
      | holding =>
        obtain ⟨h1, h2, _⟩ := hh rfl
        cases (k.pdfOnly && e.format != .pdf) <;>
          simp [h1, h2, lsEnsure_holding, lsClose_holding]
    refine ⟨⟨lsLocal_nb w e _ hnb, fun h => absurd h key⟩, ?_⟩
    simp only [opensReader]
    constructor
    · intro h; exact absurd h key
    · intro h; cases h
  | nonTerm j k =>
    simp only [lsLocal, lsNonTerm, lsMismatch, opensReader, Jst]
    cases l with
    | borrowed => exact absurd rfl hnb
    | idle =>
      simp only [lsEnsure_idle]
      cases e.err <;> cases (k.pdfOnly && e.format != .pdf) <;>
        cases e.hasFile <;> cases w.openOk <;> simp [lsClose_idle, lsClose_holding]
    | holding =>
      obtain ⟨h1, h2, h3⟩ := hh rfl
      cases (k.pdfOnly && e.format != .pdf) <;>
        simp [h1, h2, h3, lsEnsure_holding, lsClose_holding]

theorem getLast?_cons' {α : Type} (a : α) (l : List α) :
    (a :: l).getLast? = some (match l.getLast? with | some b => b | none => a) := by
  cases l with
  | nil => rfl
  | cons b bs =>
    rw [List.getLast?_cons_cons]
    cases h : (b :: bs).getLast? with
    | none => simp at h
    | some c => rfl

/-- **the last operation decides**: a fold of mutating operations over a state of a file-based
extractor ends holding a reader iff the last of them opens one (with no operation at all: iff it
held one before) -/
theorem fold_last (w : World) (e : Ext) (own : List Op) : ∀ (l : LS), Jst w e l →
    (∀ op ∈ own, op.mutates = true) →
    Jst w e (own.foldl (lsLocal w e) l) ∧
    (own.foldl (lsLocal w e) l = .holding ↔
      (match own.getLast? with | some op => opensReader w e op = true | none => l = .holding)) := by
  induction own with
  | nil => intro l hJ _; exact ⟨hJ, Iff.rfl⟩
  | cons op rest ih =>
    intro l hJ hall
    have hop := hall op List.mem_cons_self
    obtain ⟨hJ', hiff⟩ := lsLocal_J w e l op hJ hop
    obtain ⟨h1, h2⟩ := ih _ hJ' (fun o ho => hall o (List.mem_cons_of_mem _ ho))
    refine ⟨h1, ?_⟩
    simp only [List.foldl_cons]
    rw [h2, getLast?_cons']
    cases hr : rest.getLast? with
    | none => exact hiff
    | some o => rfl

theorem ownOps_mutates (i : Nat) (ops : List Op) : ∀ op ∈ ownOps i ops, op.mutates = true := by
  intro op hop
  simp only [ownOps, List.mem_filter, Bool.and_eq_true] at hop
  exact hop.2.1

end Tabula.BuilderAuto
