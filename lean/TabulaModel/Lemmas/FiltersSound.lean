import TabulaModel.Lemmas.Filters
import TabulaModel.Model.FilterSpec
import TabulaModel.Model.StreamConform
/-!
Helper lemmas for C05, the converse direction ("not wrong bytes"): whenever a decoder of
`Model/Filters.lean` returns bytes, its input was the conforming encoding of exactly those
bytes. Predictors: the row loops are injective and their left inverse (`Lemmas/Filters.lean`)
is also a right inverse. ASCIIHex: the one-pass decoder equals the declarative reading of
§7.4.2 (`hexSpec`) on every input.
-/
namespace Tabula.Filters

/-! ### rows -/

/-- a row the decoder accepts is the filtered form of the row it returns -/
theorem decRow_sound (P : Str → Option Nat) (P' : Str → Nat) (n : Nat)
    (hP : ∀ done : Str, done.length < n → P done = some (P' done)) :
    ∀ (f done out : Str), done.length + f.length = n → (∀ b ∈ f, b < 256) → decRow P f done = some out →
      ∃ r, out = done ++ r ∧ r.length = f.length ∧ (∀ b ∈ r, b < 256) ∧ encRow P' r done = f := by
  intro f
  induction f with
  | nil =>
    intro done out _ _ h
    simp only [decRow, Option.some.injEq] at h
    exact ⟨[], by simp [h], rfl, by simp, rfl⟩
  | cons b bs ih =>
    intro done out hlen hb h
    simp only [List.length_cons] at hlen
    simp only [decRow] at h
    rw [hP done (by omega)] at h
    simp only at h
    obtain ⟨r, hout, hrl, hrb, henc⟩ := ih (done ++ [(b + P' done) % 256]) out (by simp; omega)
      (fun x hx => hb x (by simp [hx])) h
    refine ⟨(b + P' done) % 256 :: r, by simp [hout], by simp [hrl], ?_, ?_⟩
    · intro x hx
      simp only [List.mem_cons] at hx
      rcases hx with hx | hx
      · omega
      · exact hrb x hx
    · have hb0 : b < 256 := hb b (by simp)
      have e : ((b + P' done) % 256 + 256 - P' done % 256) % 256 = b := by omega
      simp only [encRow, e, henc]

/-- a row that fails at its first byte fails -/
theorem decRow_none_head (P : Str → Option Nat) (f : Nat) (fs done : Str) (h : P done = none) :
    decRow P (f :: fs) done = none := by
  simp [decRow, h]

theorem decodePNGRow_sound (tag bpp : Nat) (prev : Option Str) (prior f row : Str) (hb : 1 ≤ bpp)
    (hf : f ≠ []) (hrel : PriorRel prev prior f.length) (hbytes : ∀ b ∈ f, b < 256)
    (h : decodePNGRow f tag bpp prev = some row) :
    tag ≤ 4 ∧ row.length = f.length ∧ (∀ b ∈ row, b < 256) ∧ encRow (specPredAt tag bpp prior) row [] = f := by
  have htag : tag ≤ 4 := by
    apply Nat.le_of_not_gt
    intro hgt
    rw [decodePNGRow_bad_tag f tag bpp prev hgt hf] at h
    exact absurd h (by simp)
  unfold decodePNGRow at h
  obtain ⟨r, hout, hrl, hrb, henc⟩ := decRow_sound (pngPredicted tag bpp prev) (specPredAt tag bpp prior) f.length
    (fun done hd => pngPredicted_eq_spec tag bpp prev prior done f.length htag hb hrel hd) f [] row (by simp) hbytes h
  simp only [List.nil_append] at hout
  subst hout
  exact ⟨htag, hrl, hrb, henc⟩

/-- the row loop of `applyPNGPredictor`: whatever it accepts is the PNG-filtered form (with the
filter-type bytes it found, all ≤ 4) of what it returns -/
theorem pngRows_sound (bpp rowLen : Nat) (hb : 1 ≤ bpp) (hrow : 1 ≤ rowLen) :
    ∀ (n : Nat) (data prior : Str) (prev : Option Str) (acc : List Str) (out : Str),
      data.length = n * (rowLen + 1) → (∀ b ∈ data, b < 256) → PriorRel prev prior rowLen →
      pngRows n rowLen bpp data prev acc = some out →
      ∃ tags y, tags.length = n ∧ (∀ t ∈ tags, t ≤ 4) ∧ y.length = n * rowLen ∧ (∀ b ∈ y, b < 256) ∧
        out = acc.reverse.flatten ++ y ∧ data = pngPredictRows bpp rowLen tags y prior := by
  intro n
  induction n with
  | zero =>
    intro data prior prev acc out hlen _ _ h
    simp only [pngRows, Option.some.injEq] at h
    have : data = [] := by simpa using hlen
    subst this
    exact ⟨[], [], rfl, by simp, by simp, by simp, by simp [h], rfl⟩
  | succ n ih =>
    intro data prior prev acc out hlen hbytes hrel h
    cases data with
    | nil => simp [Nat.add_mul] at hlen
    | cons tag body =>
      have hbl : body.length = n * (rowLen + 1) + rowLen := by
        simp only [List.length_cons] at hlen
        rw [Nat.add_mul] at hlen
        omega
      have htl : (body.take rowLen).length = rowLen := by simp; omega
      simp only [pngRows] at h
      cases hrowd : decodePNGRow (body.take rowLen) tag bpp prev with
      | none => rw [hrowd] at h; exact absurd h (by simp)
      | some row =>
        rw [hrowd] at h
        simp only at h
        have hne : body.take rowLen ≠ [] := by
          intro hnil
          rw [hnil] at htl
          simp at htl
          omega
        obtain ⟨htag, hrl, hrb, henc⟩ := decodePNGRow_sound tag bpp prev prior (body.take rowLen) row hb hne
          (by rw [htl]; exact hrel) (fun b hbm => hbytes b (by simp [List.mem_of_mem_take hbm])) hrowd
        rw [htl] at hrl
        obtain ⟨tags, y, htn, htags, hyl, hyb, hout, hdata⟩ := ih (body.drop rowLen) row (some row) (row :: acc) out
          (by simp [hbl]) (fun b hbm => hbytes b (by simp [List.mem_of_mem_drop hbm])) (Or.inr ⟨rfl, hrl⟩) h
        refine ⟨tag :: tags, row ++ y, by simp [htn], ?_, ?_, ?_, ?_, ?_⟩
        · intro t ht
          simp only [List.mem_cons] at ht
          rcases ht with ht | ht
          · omega
          · exact htags t ht
        · simp only [List.length_append, hrl, hyl, Nat.add_mul]; omega
        · intro b hbm
          rcases List.mem_append.mp hbm with hbm | hbm
          · exact hrb b hbm
          · exact hyb b hbm
        · simp [hout, List.append_assoc]
        · simp only [pngPredictRows]
          rw [List.take_left' hrl, List.drop_left' hrl, henc, ← hdata, List.cons_append, List.take_append_drop]

theorem predictorRowBytes_some (columns colors : Int) (rb : Nat) (h : predictorRowBytes columns colors = some rb) :
    1 ≤ columns ∧ 1 ≤ colors ∧ columns * colors ≤ 2147483646 ∧ rb = (columns * colors).toNat := by
  unfold predictorRowBytes at h
  split at h
  · exact absurd h (by simp)
  · rename_i h1
    split at h
    · exact absurd h (by simp)
    · rename_i h2
      simp only [Option.some.injEq] at h
      have hpos : (0 : Int) < colors := by omega
      have hle : columns ≤ 2147483646 / colors := by omega
      have := (Int.le_ediv_iff_mul_le hpos).mp hle
      exact ⟨by omega, by omega, this, h.symm⟩

/-- **PNG predictor, soundness**: if `applyPNGPredictor` returns `y` for the byte string `data`,
then the parameters are a valid geometry (8 bits, `Columns`, `Colors` ≥ 1 within the cap) and
`data` is exactly the conforming PNG encoding of `y` under the filter types found in it. -/
theorem applyPNGPredictor_sound (data : Str) (p : Params) (y : Str) (hd : ∀ b ∈ data, b < 256)
    (h : applyPNGPredictor data p = some y) :
    ∃ (colors columns : Nat) (tags : List Nat), p.colors.getD 1 = colors ∧ p.columns.getD 1 = columns ∧
      p.bpc.getD 8 = 8 ∧ 1 ≤ columns ∧ 1 ≤ colors ∧ columns * colors ≤ 2147483646 ∧ (∀ t ∈ tags, t ≤ 4) ∧
      y.length = tags.length * (columns * colors) ∧ (∀ b ∈ y, b < 256) ∧ data = pngPredict colors columns tags y := by
  unfold applyPNGPredictor at h
  simp only at h
  split at h
  · exact absurd h (by simp)
  · rename_i hbpc
    split at h
    · exact absurd h (by simp)
    · rename_i rb hrb
      split at h
      · exact absurd h (by simp)
      · rename_i hmod
        obtain ⟨h1, h2, hcap, hrbe⟩ := predictorRowBytes_some _ _ rb hrb
        obtain ⟨columns, hcolumns⟩ : ∃ n : Nat, p.columns.getD 1 = n := ⟨(p.columns.getD 1).toNat, by omega⟩
        obtain ⟨colors, hcolors⟩ : ∃ n : Nat, p.colors.getD 1 = n := ⟨(p.colors.getD 1).toNat, by omega⟩
        simp only [hcolumns, hcolors] at h1 h2 hcap hrbe
        have hm : ((columns : Int) * (colors : Int)) = ((columns * colors : Nat) : Int) := by simp
        rw [hm] at hcap hrbe
        rw [Int.toNat_natCast] at hrbe
        subst hrbe
        have hc1 : 1 ≤ columns := by omega
        have hc2 : 1 ≤ colors := by omega
        have hpos : 1 ≤ columns * colors := Nat.mul_pos hc1 hc2
        have hmod' : data.length % (columns * colors + 1) = 0 := by
          apply Classical.byContradiction
          intro hne
          exact hmod hne
        have hlen : data.length = data.length / (columns * colors + 1) * (columns * colors + 1) := by
          have := Nat.div_add_mod data.length (columns * colors + 1)
          rw [hmod', Nat.add_zero, Nat.mul_comm] at this
          exact this.symm
        rw [hcolors, Int.toNat_natCast] at h
        obtain ⟨tags, y', htn, htags, hyl, hyb, hout, hdata⟩ := pngRows_sound colors (columns * colors) hc2 hpos
          (data.length / (columns * colors + 1)) data (List.replicate (columns * colors) 0) none [] y hlen hd
          (Or.inl ⟨rfl, rfl⟩) h
        simp only [List.reverse_nil, List.flatten_nil, List.nil_append] at hout
        subst hout
        refine ⟨colors, columns, tags, hcolors, hcolumns, ?_, hc1, hc2, by omega, htags, by rw [hyl, htn], hyb, ?_⟩
        · apply Classical.byContradiction
          intro hne
          exact hbpc hne
        · exact hdata

/-- the row loop of `applyTIFFPredictor2` -/
theorem tiffRows_sound (colors rowLen : Nat) (hc : 1 ≤ colors) :
    ∀ (n : Nat) (data : Str) (acc : List Str) (out : Str), data.length = n * rowLen → (∀ b ∈ data, b < 256) →
      tiffRows n rowLen colors data acc = some out →
      ∃ y, y.length = n * rowLen ∧ (∀ b ∈ y, b < 256) ∧ out = acc.reverse.flatten ++ y ∧
        data = tiffPredictRows colors rowLen n y := by
  intro n
  induction n with
  | zero =>
    intro data acc out hlen _ h
    simp only [tiffRows, Option.some.injEq] at h
    have : data = [] := by simpa using hlen
    subst this
    exact ⟨[], by simp, by simp, by simp [h], rfl⟩
  | succ n ih =>
    intro data acc out hlen hbytes h
    have hdl : data.length = n * rowLen + rowLen := by rw [hlen, Nat.add_mul]; omega
    have htl : (data.take rowLen).length = rowLen := by simp; omega
    simp only [tiffRows] at h
    cases hrowd : decRow (tiffPredicted colors) (data.take rowLen) [] with
    | none => rw [hrowd] at h; exact absurd h (by simp)
    | some row =>
      rw [hrowd] at h
      simp only at h
      obtain ⟨r, hout, hrl, hrb, henc⟩ := decRow_sound (tiffPredicted colors) (specTiffAt colors) (data.take rowLen).length
        (fun done _ => tiffPredicted_eq_spec colors hc done) (data.take rowLen) [] row (by simp)
        (fun b hbm => hbytes b (List.mem_of_mem_take hbm)) hrowd
      simp only [List.nil_append] at hout
      subst hout
      rw [htl] at hrl
      obtain ⟨y, hyl, hyb, hout, hdata⟩ := ih (data.drop rowLen) (row :: acc) out (by simp [hdl])
        (fun b hbm => hbytes b (List.mem_of_mem_drop hbm)) h
      refine ⟨row ++ y, ?_, ?_, ?_, ?_⟩
      · simp only [List.length_append, hrl, hyl, Nat.add_mul]; omega
      · intro b hbm
        rcases List.mem_append.mp hbm with hbm | hbm
        · exact hrb b hbm
        · exact hyb b hbm
      · simp [hout, List.append_assoc]
      · simp only [tiffPredictRows]
        rw [List.take_left' hrl, List.drop_left' hrl, henc, ← hdata, List.take_append_drop]

/-- **TIFF predictor, soundness** -/
theorem applyTIFFPredictor2_sound (data : Str) (p : Params) (y : Str) (hd : ∀ b ∈ data, b < 256)
    (h : applyTIFFPredictor2 data p = some y) :
    ∃ (colors columns : Nat), p.colors.getD 1 = colors ∧ p.columns.getD 1 = columns ∧
      p.bpc.getD 8 = 8 ∧ 1 ≤ columns ∧ 1 ≤ colors ∧ columns * colors ≤ 2147483646 ∧
      y.length % (columns * colors) = 0 ∧ (∀ b ∈ y, b < 256) ∧ data = tiffPredict colors columns y := by
  unfold applyTIFFPredictor2 at h
  simp only at h
  split at h
  · exact absurd h (by simp)
  · rename_i hbpc
    split at h
    · exact absurd h (by simp)
    · rename_i rb hrb
      split at h
      · exact absurd h (by simp)
      · rename_i hmod
        obtain ⟨h1, h2, hcap, hrbe⟩ := predictorRowBytes_some _ _ rb hrb
        obtain ⟨columns, hcolumns⟩ : ∃ n : Nat, p.columns.getD 1 = n := ⟨(p.columns.getD 1).toNat, by omega⟩
        obtain ⟨colors, hcolors⟩ : ∃ n : Nat, p.colors.getD 1 = n := ⟨(p.colors.getD 1).toNat, by omega⟩
        simp only [hcolumns, hcolors] at h1 h2 hcap hrbe
        have hm : ((columns : Int) * (colors : Int)) = ((columns * colors : Nat) : Int) := by simp
        rw [hm] at hcap hrbe
        rw [Int.toNat_natCast] at hrbe
        subst hrbe
        have hc1 : 1 ≤ columns := by omega
        have hc2 : 1 ≤ colors := by omega
        have hpos : 1 ≤ columns * colors := Nat.mul_pos hc1 hc2
        have hmod' : data.length % (columns * colors) = 0 := by
          apply Classical.byContradiction
          intro hne
          exact hmod hne
        have hlen : data.length = data.length / (columns * colors) * (columns * colors) := by
          have := Nat.div_add_mod data.length (columns * colors)
          rw [hmod', Nat.add_zero, Nat.mul_comm] at this
          exact this.symm
        rw [hcolors, Int.toNat_natCast] at h
        obtain ⟨y', hyl, hyb, hout, hdata⟩ := tiffRows_sound colors (columns * colors) hc2
          (data.length / (columns * colors)) data [] y hlen hd h
        simp only [List.reverse_nil, List.flatten_nil, List.nil_append] at hout
        subst hout
        have hylen : y.length = data.length := by rw [hyl, ← hlen]
        refine ⟨colors, columns, hcolors, hcolumns, ?_, hc1, hc2, by omega, by rw [hylen]; exact hmod', hyb, ?_⟩
        · apply Classical.byContradiction
          intro hne
          exact hbpc hne
        · unfold tiffPredict
          rw [hylen]
          exact hdata

/-! ### ASCIIHex: the decoder is the declarative reading of §7.4.2 -/

theorem hexBodyOf_ws (c : Nat) (rest : Str) (h : isWs c = true) : hexBodyOf (c :: rest) = hexBodyOf rest := by
  have h62 : (c != 62) = true := by
    cases hc : (c != 62)
    · have : c = 62 := by simpa using hc
      subst this
      exact absurd h (by decide)
    · rfl
  simp [hexBodyOf, h62, h]

theorem hexBodyOf_eod (rest : Str) : hexBodyOf (62 :: rest) = [] := by
  simp [hexBodyOf]

theorem hexBodyOf_other (c : Nat) (rest : Str) (h1 : isWs c = false) (h2 : c ≠ 62) :
    hexBodyOf (c :: rest) = c :: hexBodyOf rest := by
  have h62 : (c != 62) = true := by simpa using h2
  simp [hexBodyOf, h62, h1]

theorem hexGo_eq_spec : ∀ (s : Str) (p : Option Nat) (acc : Str),
    hexGo s p acc = (hexVals (hexBodyOf s)).map (fun vs => acc.reverse ++ pairUp (p.toList ++ vs)) := by
  intro s
  induction s with
  | nil =>
    intro p acc
    cases p <;> simp [hexGo, hexFinish, hexBodyOf, hexVals, pairUp]
  | cons c rest ih =>
    intro p acc
    simp only [hexGo]
    split
    · rename_i hws
      rw [hexBodyOf_ws c rest hws]
      exact ih p acc
    · rename_i hws
      have hws' : isWs c = false := by simpa using hws
      split
      · rename_i h62
        subst h62
        rw [hexBodyOf_eod]
        cases p <;> simp [hexFinish, hexVals, pairUp]
      · rename_i h62
        rw [hexBodyOf_other c rest hws' h62]
        simp only [hexVals]
        cases hv : hexVal c with
        | none => rfl
        | some v =>
          simp only
          cases p with
          | none =>
            rw [ih (some v) acc]
            cases hexVals (hexBodyOf rest) <;> simp
          | some h =>
            simp only
            rw [ih none ((h * 16 + v) :: acc)]
            cases hexVals (hexBodyOf rest) <;> simp [pairUp]

theorem hexDecode_eq_spec (s : Str) : hexDecode s = hexSpec s := by
  unfold hexDecode hexSpec
  rw [hexGo_eq_spec]
  cases hexVals (hexBodyOf s) <;> simp

theorem hexVals_none_iff (cs : Str) : hexVals cs = none ↔ ∃ c ∈ cs, hexVal c = none := by
  induction cs with
  | nil => simp [hexVals]
  | cons c cs ih =>
    simp only [hexVals, List.mem_cons, exists_eq_or_imp]
    cases hv : hexVal c with
    | none => simp
    | some v =>
      simp only [Option.map_eq_none_iff, ih]
      constructor
      · intro h; exact Or.inr h
      · intro h
        rcases h with h | h
        · exact absurd h (by simp)
        · exact h

/-! ### ASCII85: the decoder is the declarative reading of §7.4.3 -/

theorem a85BodyOf_nil : a85BodyOf [] = [] := rfl

theorem a85BodyOf_ws (c : Nat) (rest : Str) (h : isWs c = true) : a85BodyOf (c :: rest) = a85BodyOf rest := by
  have h126 : ¬ (c = 126 ∧ rest.head? = some 62) := by
    rintro ⟨hc, _⟩
    subst hc
    exact absurd h (by decide)
  simp [a85BodyOf, cutEOD, h126, h]

theorem a85BodyOf_eod (c : Nat) (rest : Str) (h : c = 126 ∧ rest.head? = some 62) : a85BodyOf (c :: rest) = [] := by
  simp [a85BodyOf, cutEOD, h]

theorem a85BodyOf_other (c : Nat) (rest : Str) (h1 : isWs c = false) (h2 : ¬ (c = 126 ∧ rest.head? = some 62)) :
    a85BodyOf (c :: rest) = c :: a85BodyOf rest := by
  simp [a85BodyOf, cutEOD, h2, h1]

/-- the characters of digits -/
def a85Chars (ds : List Nat) : Str := ds.map (· + 33)

theorem a85Digit_char (d : Nat) (h : d < 85) : a85Digit (d + 33) = true := by
  simp [a85Digit]; omega

theorem a85Groups_z (body : Str) : a85Groups (122 :: body) = (a85Groups body).map (fun t => 0 :: 0 :: 0 :: 0 :: t) := by
  rw [a85Groups.eq_def]
  simp

/-- fewer than five digit characters at the end are the final partial group -/
theorem a85Groups_partial (ds : List Nat) (hl : ds.length < 5) (hd : ∀ d ∈ ds, d < 85) :
    a85Groups (a85Chars ds) = a85Flush ds := by
  match ds, hl, hd with
  | [], _, _ => rfl
  | [a], _, hd =>
    have ha := hd a (by simp)
    have n1 : ¬ (a + 33 = 122) := by omega
    simp [a85Chars, a85Groups, n1, a85Group, a85Digit_char a ha]
  | [a, b], _, hd =>
    have ha := hd a (by simp); have hb := hd b (by simp)
    have n1 : ¬ (a + 33 = 122) := by omega
    simp [a85Chars, a85Groups, n1, a85Group, a85Digit_char a ha, a85Digit_char b hb]
  | [a, b, c], _, hd =>
    have ha := hd a (by simp); have hb := hd b (by simp); have hc := hd c (by simp)
    have n1 : ¬ (a + 33 = 122) := by omega
    simp [a85Chars, a85Groups, n1, a85Group, a85Digit_char a ha, a85Digit_char b hb, a85Digit_char c hc]
  | [a, b, c, d], _, hd =>
    have ha := hd a (by simp); have hb := hd b (by simp); have hc := hd c (by simp); have hd' := hd d (by simp)
    have n1 : ¬ (a + 33 = 122) := by omega
    simp [a85Chars, a85Groups, n1, a85Group, a85Digit_char a ha, a85Digit_char b hb, a85Digit_char c hc,
      a85Digit_char d hd']
  | _ :: _ :: _ :: _ :: _ :: _, hl, _ => simp at hl; omega

/-- five digit characters are a full group -/
theorem a85Groups_full (a b c d : Nat) (ha : a < 85) (hb : b < 85) (hc : c < 85) (hd : d < 85) (e : Nat)
    (he : a85Digit e = true) (body : Str) :
    a85Groups (a85Chars [a, b, c, d] ++ e :: body) =
      match a85Flush [a, b, c, d, e - 33] with
      | none => none
      | some g => (a85Groups body).map (fun t => g ++ t) := by
  have n1 : ¬ (a + 33 = 122) := by omega
  simp only [a85Chars, List.map_cons, List.map_nil, List.cons_append, List.nil_append]
  rw [a85Groups.eq_def]
  simp only [n1, if_false, a85Group, List.all_cons, List.all_nil, a85Digit_char a ha, a85Digit_char b hb,
    a85Digit_char c hc, a85Digit_char d hd, he, Bool.and_self, if_true, List.map_cons, List.map_nil,
    Nat.add_sub_cancel]
  cases a85Flush [a, b, c, d, e - 33] <;> rfl

/-- a character that is no digit among the first five of a group (which does not start with `z`) -/
theorem a85Groups_bad (cs : Str) (i : Nat) (hi : i < 5) (c : Nat) (hc : cs[i]? = some c) (hbad : a85Digit c = false)
    (h0 : cs.head? ≠ some 122) : a85Groups cs = none := by
  cases cs with
  | nil => simp at hc
  | cons c0 r0 =>
    have n1 : ¬ (c0 = 122) := by
      intro h; subst h; exact h0 rfl
    rw [a85Groups.eq_def]
    simp only [n1, if_false]
    split
    · rename_i c1 c2 c3 c4 r
      have hall : List.all [c0, c1, c2, c3, c4] a85Digit = false := by
        match i, hi, hc with
        | 0, _, hc => simp at hc; subst hc; simp [hbad]
        | 1, _, hc => simp at hc; subst hc; simp [hbad]
        | 2, _, hc => simp at hc; subst hc; simp [hbad]
        | 3, _, hc => simp at hc; subst hc; simp [hbad]
        | 4, _, hc => simp at hc; subst hc; simp [hbad]
      simp [a85Group, hall]
    · have hall : List.all (c0 :: r0) a85Digit = false := by
        rw [List.all_eq_false]
        exact ⟨c, List.mem_of_getElem? hc, by simp [hbad]⟩
      simp [a85Group, hall]

theorem a85Chars_append (ds : List Nat) (c : Nat) (h : 33 ≤ c) : a85Chars (ds ++ [c - 33]) = a85Chars ds ++ [c] := by
  simp only [a85Chars, List.map_append, List.map_cons, List.map_nil]
  congr 2
  omega

theorem a85Go_eq_spec : ∀ (s : Str) (ds acc : Str), ds.length < 5 → (∀ d ∈ ds, d < 85) →
    a85Go s ds acc = (a85Groups (a85Chars ds ++ a85BodyOf s)).map (fun t => acc.reverse ++ t) := by
  intro s
  induction s with
  | nil =>
    intro ds acc hl hd
    simp only [a85Go, a85BodyOf_nil, List.append_nil, a85Groups_partial ds hl hd, a85Finish]
    cases a85Flush ds <;> rfl
  | cons c rest ih =>
    intro ds acc hl hd
    simp only [a85Go]
    split
    · rename_i hws
      rw [a85BodyOf_ws c rest hws]
      exact ih ds acc hl hd
    · rename_i hws
      have hws' : isWs c = false := by simpa using hws
      split
      · rename_i heod
        rw [a85BodyOf_eod c rest heod]
        simp only [List.append_nil, a85Groups_partial ds hl hd, a85Finish]
        cases a85Flush ds <;> rfl
      · rename_i heod
        rw [a85BodyOf_other c rest hws' heod]
        split
        · rename_i hz
          obtain ⟨hds, hc⟩ := hz
          subst hds hc
          rw [ih [] _ (by simp) (by simp)]
          simp only [a85Chars, List.map_nil, List.nil_append, a85Groups_z, Option.map_map]
          congr 1
          funext t
          simp
        · rename_i hz
          split
          · rename_i hrange
            have hbad : a85Digit c = false := by
              simp only [a85Digit, Bool.and_eq_false_iff, decide_eq_false_iff_not]
              omega
            have hidx : (a85Chars ds ++ c :: a85BodyOf rest)[ds.length]? = some c := by
              have : ds.length = (a85Chars ds).length := by simp [a85Chars]
              rw [this, List.getElem?_append_right (Nat.le_refl _)]
              simp
            have hhead : (a85Chars ds ++ c :: a85BodyOf rest).head? ≠ some 122 := by
              cases ds with
              | nil =>
                simp only [a85Chars, List.map_nil, List.nil_append, List.head?_cons, ne_eq, Option.some.injEq]
                intro hc
                exact hz ⟨rfl, hc⟩
              | cons d0 dr =>
                have := hd d0 (by simp)
                simp only [a85Chars, List.map_cons, List.cons_append, List.head?_cons, ne_eq, Option.some.injEq]
                omega
            rw [a85Groups_bad _ ds.length hl c hidx hbad hhead]
            rfl
          · rename_i hrange
            have h33 : 33 ≤ c := by omega
            have h117 : c ≤ 117 := by omega
            have hdig : a85Digit c = true := by simp [a85Digit]; omega
            split
            · rename_i hfive
              have h4 : ds.length = 4 := by simpa using hfive
              match ds, h4, hd with
              | [a, b, c', d], _, hd =>
                have ha := hd a (by simp); have hb := hd b (by simp)
                have hc := hd c' (by simp); have hd' := hd d (by simp)
                rw [a85Groups_full a b c' d ha hb hc hd' c hdig]
                simp only [List.cons_append, List.nil_append]
                cases a85Flush [a, b, c', d, c - 33] with
                | none => rfl
                | some g =>
                  simp only
                  rw [ih [] _ (by simp) (by simp)]
                  simp only [a85Chars, List.map_nil, List.nil_append, Option.map_map]
                  congr 1
                  funext t
                  simp
            · rename_i hfive
              have hlt : (ds ++ [c - 33]).length < 5 := by
                have : (ds ++ [c - 33]).length = ds.length + 1 := by simp
                omega
              rw [ih (ds ++ [c - 33]) acc hlt (by
                intro d hdm
                rcases List.mem_append.mp hdm with h | h
                · exact hd d h
                · simp at h; omega)]
              rw [a85Chars_append ds c h33]
              simp

theorem a85Decode_eq_spec (s : Str) : a85Decode s = a85Spec s := by
  unfold a85Decode a85Spec
  rw [a85Go_eq_spec s [] [] (by simp) (by simp)]
  simp [a85Chars]

/-! ### white space anywhere -/

/-- a white-space character inserted anywhere does not change what counts -/
theorem hexBodyOf_insert_ws (c : Nat) (hc : isWs c = true) (b : Str) : ∀ a : Str,
    hexBodyOf (a ++ c :: b) = hexBodyOf (a ++ b) := by
  intro a
  induction a with
  | nil => exact hexBodyOf_ws c b hc
  | cons x a ih =>
    simp only [List.cons_append]
    cases hx : isWs x with
    | true => rw [hexBodyOf_ws x _ hx, hexBodyOf_ws x _ hx, ih]
    | false =>
      by_cases h62 : x = 62
      · subst h62; rw [hexBodyOf_eod, hexBodyOf_eod]
      · rw [hexBodyOf_other x _ hx h62, hexBodyOf_other x _ hx h62, ih]

/-- … except between the `~` and the `>` of the EOD marker, which tabula (like §7.4.3) takes as
two adjacent characters -/
theorem a85BodyOf_insert_ws (c : Nat) (hc : isWs c = true) (b : Str) : ∀ a : Str, a.getLast? ≠ some 126 →
    a85BodyOf (a ++ c :: b) = a85BodyOf (a ++ b) := by
  intro a
  induction a with
  | nil => intro _; exact a85BodyOf_ws c b hc
  | cons x a ih =>
    intro hlast
    simp only [List.cons_append]
    have hheads : (x = 126 ∧ (a ++ c :: b).head? = some 62) ↔ (x = 126 ∧ (a ++ b).head? = some 62) := by
      cases a with
      | nil =>
        have : x ≠ 126 := by
          intro h; subst h; exact hlast rfl
        simp [this]
      | cons y a' => simp
    have hlast' : a ≠ [] → a.getLast? ≠ some 126 := by
      intro hne
      cases a with
      | nil => exact absurd rfl hne
      | cons y a' => simpa [List.getLast?_cons_cons] using hlast
    cases hx : isWs x with
    | true =>
      rw [a85BodyOf_ws x _ hx, a85BodyOf_ws x _ hx]
      cases a with
      | nil => exact a85BodyOf_ws c b hc
      | cons y a' => exact ih (hlast' (by simp))
    | false =>
      by_cases heod : x = 126 ∧ (a ++ b).head? = some 62
      · rw [a85BodyOf_eod x _ (hheads.mpr heod), a85BodyOf_eod x _ heod]
      · rw [a85BodyOf_other x _ hx (fun h => heod (hheads.mp h)), a85BodyOf_other x _ hx heod]
        cases a with
        | nil => rw [List.nil_append, List.nil_append, a85BodyOf_ws c b hc]
        | cons y a' => rw [ih (hlast' (by simp))]

/-- what follows the EOD marker does not count -/
theorem hexBodyOf_after_eod (a t t' : Str) : hexBodyOf (a ++ 62 :: t) = hexBodyOf (a ++ 62 :: t') := by
  induction a with
  | nil => rw [List.nil_append, List.nil_append, hexBodyOf_eod, hexBodyOf_eod]
  | cons x a ih =>
    simp only [List.cons_append]
    cases hx : isWs x with
    | true => rw [hexBodyOf_ws x _ hx, hexBodyOf_ws x _ hx, ih]
    | false =>
      by_cases h62 : x = 62
      · subst h62; rw [hexBodyOf_eod, hexBodyOf_eod]
      · rw [hexBodyOf_other x _ hx h62, hexBodyOf_other x _ hx h62, ih]

theorem a85BodyOf_after_eod (a t t' : Str) :
    a85BodyOf (a ++ 126 :: 62 :: t) = a85BodyOf (a ++ 126 :: 62 :: t') := by
  induction a with
  | nil =>
    rw [List.nil_append, List.nil_append, a85BodyOf_eod _ _ ⟨rfl, rfl⟩, a85BodyOf_eod _ _ ⟨rfl, rfl⟩]
  | cons x a ih =>
    simp only [List.cons_append]
    have hheads : (x = 126 ∧ (a ++ 126 :: 62 :: t).head? = some 62) ↔ (x = 126 ∧ (a ++ 126 :: 62 :: t').head? = some 62) := by
      cases a <;> simp
    cases hx : isWs x with
    | true => rw [a85BodyOf_ws x _ hx, a85BodyOf_ws x _ hx, ih]
    | false =>
      by_cases heod : x = 126 ∧ (a ++ 126 :: 62 :: t').head? = some 62
      · rw [a85BodyOf_eod x _ (hheads.mpr heod), a85BodyOf_eod x _ heod]
      · rw [a85BodyOf_other x _ hx (fun h => heod (hheads.mp h)), a85BodyOf_other x _ hx heod, ih]

/-! ### the executable checkers of the encoder-side relations -/

/-- the writings of `x` by a conforming ASCIIHex encoder, up to the EOD marker: two digits per
byte (`HexEnc`), or — when the low digit of the last byte is 0 — that digit left out (§7.4.2: "if
the filter encounters the EOD marker after reading an odd number of hexadecimal digits, it shall
behave as if a 0 followed the last digit") -/
def HexWriting (s x : Str) : Prop :=
  HexEnc s x ∨ ∃ s' x' c v w, HexEnc s' x' ∧ hexVal c = some v ∧ (∀ c ∈ w, isWs c = true) ∧
    x = x' ++ [v * 16] ∧ s = s' ++ c :: w

theorem HexWriting_ws (c : Nat) (s x : Str) (hc : isWs c = true) (h : HexWriting s x) : HexWriting (c :: s) x := by
  rcases h with h | ⟨s', x', c', v, w, h1, h2, h3, h4, h5⟩
  · exact Or.inl (.ws c s x hc h)
  · exact Or.inr ⟨c :: s', x', c', v, w, .ws c s' x' hc h1, h2, h3, h4, by simp [h5]⟩

theorem HexWriting_byte (h l b : Nat) (w s x : Str) (hh : hexVal h = some (b / 16)) (hl : hexVal l = some (b % 16))
    (hw : ∀ c ∈ w, isWs c = true) (hs : HexWriting s x) : HexWriting (h :: (w ++ l :: s)) (b :: x) := by
  rcases hs with hs | ⟨s', x', c', v, w', h1, h2, h3, h4, h5⟩
  · exact Or.inl (.byte h l b w s x hh hl hw hs)
  · refine Or.inr ⟨h :: (w ++ l :: s'), b :: x', c', v, w', .byte h l b w s' x' hh hl hw h1, h2, h3, by simp [h4], ?_⟩
    simp [h5]

theorem hexEncGo_sound : ∀ (s : Str),
    (∀ x, hexEncGo s none x = true → HexWriting s x) ∧
    (∀ (c0 b : Nat) (xs w : Str), hexVal c0 = some (b / 16) → (∀ c ∈ w, isWs c = true) →
      hexEncGo s (some (b / 16)) (b :: xs) = true → HexWriting (c0 :: (w ++ s)) (b :: xs)) := by
  intro s
  induction s with
  | nil =>
    refine ⟨?_, ?_⟩
    · intro x h
      cases x with
      | nil => exact Or.inl .nil
      | cons b xs => simp [hexEncGo] at h
    · intro c0 b xs w hc0 hw h
      cases xs with
      | nil =>
        simp only [hexEncGo, beq_iff_eq] at h
        refine Or.inr ⟨[], [], c0, b / 16, w, .nil, hc0, hw, ?_, by simp⟩
        have : b / 16 * 16 = b := by omega
        simp [this]
      | cons b' xs' => simp [hexEncGo] at h
  | cons c s ih =>
    obtain ⟨ih1, ih2⟩ := ih
    refine ⟨?_, ?_⟩
    · intro x h
      simp only [hexEncGo] at h
      split at h
      · rename_i hws
        exact HexWriting_ws c s x hws (ih1 x h)
      · cases x with
        | nil => simp at h
        | cons b xs =>
          simp only at h
          split at h
          · rename_i hv
            have := ih2 c b xs [] hv (by simp) h
            simpa using this
          · exact absurd h (by simp)
    · intro c0 b xs w hc0 hw h
      simp only [hexEncGo] at h
      split at h
      · rename_i hws
        have := ih2 c0 b xs (w ++ [c]) hc0 (by
          intro c' hc'
          rcases List.mem_append.mp hc' with h' | h'
          · exact hw c' h'
          · simp at h'; subst h'; exact hws) h
        simpa [List.append_assoc] using this
      · split at h
        · rename_i hv
          exact HexWriting_byte c0 c b w s xs hc0 hv hw (ih1 xs h)
        · exact absurd h (by simp)

theorem hexWritingB_sound (s x : Str) (h : hexWritingB s x = true) : HexWriting s x :=
  (hexEncGo_sound s).1 x h

theorem a85WritingB_sound (s x : Str) (h : a85WritingB s x = true) : A85Writing s x := by
  unfold a85WritingB at h
  unfold A85Writing
  simpa using h

/-- a string is what precedes its first `>`, alone or followed by `>` and the rest -/
theorem takeWhile_eod (y : Str) :
    y = y.takeWhile (fun c => c != 62) ∨ ∃ t, y = y.takeWhile (fun c => c != 62) ++ 62 :: t := by
  induction y with
  | nil => exact Or.inl rfl
  | cons c y ih =>
    by_cases hc : c = 62
    · subst hc
      exact Or.inr ⟨y, by simp⟩
    · have hne : (c != 62) = true := by simpa using hc
      rcases ih with ih | ⟨t, ih⟩
      · left
        rw [List.takeWhile_cons, hne]
        simp only [if_true]
        rw [← ih]
      · right
        refine ⟨t, ?_⟩
        rw [List.takeWhile_cons, hne]
        simp only [if_true, List.cons_append]
        rw [← ih]

/-- a string is what precedes its first `~>`, alone or followed by `~>` and the rest -/
theorem cutEOD_split (y : Str) : y = cutEOD y ∨ ∃ t, y = cutEOD y ++ 126 :: 62 :: t := by
  induction y with
  | nil => exact Or.inl rfl
  | cons c y ih =>
    simp only [cutEOD]
    split
    · rename_i h
      obtain ⟨hc, hh⟩ := h
      subst hc
      cases y with
      | nil => simp at hh
      | cons d y' =>
        simp only [List.head?_cons, Option.some.injEq] at hh
        subst hh
        exact Or.inr ⟨y', by simp⟩
    · rcases ih with ih | ⟨t, ih⟩
      · left; rw [← ih]
      · right; exact ⟨t, by rw [List.cons_append, ← ih]⟩

end Tabula.Filters
