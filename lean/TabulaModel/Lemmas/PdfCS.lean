import TabulaModel.Model.Spell
import TabulaModel.Lemmas.A1
import TabulaModel.Lemmas.PdfName
import TabulaModel.Lemmas.PdfStr
import TabulaModel.Lemmas.PdfHex
import TabulaModel.Lemmas.PdfReal
import TabulaModel.Lemmas.PdfDepth
namespace Tabula.Pdf
open Tabula.A1 (atoi dec)
/-
Property C06, content-stream side: every legally spelled operand (any depth) and every
legally spelled operator program is read back by the model of contentstream/parser.go as the
value meant.  Helper lemmas live in `namespace CSL`.  Core Lean only.
-/
namespace CSL

theorem skipSpace_nil : CS.skipSpace [] = [] := by
  rw [CS.skipSpace.eq_def]

theorem skipSpace_ws (b : Nat) (r : Str) (h : isWs b = true) : CS.skipSpace (b :: r) = CS.skipSpace r := by
  rw [CS.skipSpace.eq_def]; simp only [h, if_true]

theorem skipSpace_pct (r : Str) : CS.skipSpace (37 :: r) = CS.skipSpace (CS.skipLine r) := by
  rw [CS.skipSpace.eq_def]
  have : isWs 37 = false := by decide
  simp only [this, if_true]; simp

theorem skipSpace_stop (c : Nat) (r : Str) (h1 : isWs c = false) (h2 : c ≠ 37) :
    CS.skipSpace (c :: r) = c :: r := by
  rw [CS.skipSpace.eq_def]; simp only [h1, h2, if_false]; simp

theorem skipLine_comment (t e Y : Str) (ht : ∀ c ∈ t, c ≠ 10 ∧ c ≠ 13)
    (he : ∃ b e', e = b :: e' ∧ (b = 13 ∨ b = 10)) : CS.skipLine (t ++ (e ++ Y)) = e ++ Y := by
  induction t with
  | nil =>
    obtain ⟨b, e', rfl, hb⟩ := he
    simp only [List.nil_append, List.cons_append, CS.skipLine, hb, if_true]
  | cons c t ih =>
    have hc := ht c (by simp)
    have : ¬ (c = 13 ∨ c = 10) := by omega
    simp only [List.cons_append, CS.skipLine, this, if_false]
    exact ih (fun x hx => ht x (by simp [hx]))

theorem skipSpace_unit (u : SepUnit) (hu : u.Ok) (X : Str) :
    CS.skipSpace (u.render ++ X) = CS.skipSpace X := by
  cases u with
  | ws b => exact skipSpace_ws b X hu
  | comment t e =>
    obtain ⟨ht, he⟩ := hu
    have h10 : isWs 10 = true := by decide
    have h13 : isWs 13 = true := by decide
    simp only [SepUnit.render, List.cons_append, List.append_assoc]
    rw [skipSpace_pct, skipLine_comment t e X ht (by rcases he with rfl | rfl | rfl <;> simp)]
    rcases he with rfl | rfl | rfl
    · exact skipSpace_ws _ _ h10
    · exact skipSpace_ws _ _ h13
    · simp only [List.cons_append, List.nil_append]
      rw [skipSpace_ws _ _ h13, skipSpace_ws _ _ h10]

theorem skipSpace_sep (us : Sep) (h : SepOk us) (X : Str) :
    CS.skipSpace (renderSep us ++ X) = CS.skipSpace X := by
  induction us with
  | nil => rfl
  | cons u us ih =>
    have e : renderSep (u :: us) ++ X = u.render ++ (renderSep us ++ X) := by
      simp [renderSep]
    rw [e, skipSpace_unit u (h u (by simp)), ih (fun v hv => h v (by simp [hv]))]

/-- after skipSpace the first byte is neither white space nor `%` -/
theorem skipSpace_head (X : Str) (c : Nat) (r : Str) (h : CS.skipSpace X = c :: r) :
    isWs c = false ∧ c ≠ 37 := by
  suffices H : ∀ n (X : Str), X.length ≤ n → CS.skipSpace X = c :: r → isWs c = false ∧ c ≠ 37 from
    H X.length X (Nat.le_refl _) h
  intro n
  induction n with
  | zero =>
    intro X hn h
    cases X with
    | nil => rw [skipSpace_nil] at h; cases h
    | cons b t => simp at hn
  | succ n ih =>
    intro X hn h
    cases X with
    | nil => rw [skipSpace_nil] at h; cases h
    | cons b t =>
      cases hw : isWs b with
      | true =>
        rw [skipSpace_ws b t hw] at h
        exact ih t (by simp at hn; omega) h
      | false =>
        by_cases h37 : b = 37
        · subst h37
          rw [skipSpace_pct] at h
          have := CS.skipLine_le t
          exact ih _ (by simp at hn; omega) h
        · rw [skipSpace_stop b t hw h37] at h
          cases h; exact ⟨hw, h37⟩

theorem skipSpace_idem (X : Str) : CS.skipSpace (CS.skipSpace X) = CS.skipSpace X := by
  cases h : CS.skipSpace X with
  | nil => exact skipSpace_nil
  | cons c r =>
    obtain ⟨h1, h2⟩ := skipSpace_head X c r h
    exact skipSpace_stop c r h1 h2


theorem po_num (f d : Nat) (X : Str) (c : Nat) (r : Str) (h : CS.skipSpace X = c :: r)
    (hc : c = 45 ∨ c = 43 ∨ c = 46 ∨ isDigit c = true) :
    CS.parseOperand (f + 1) d X = CS.parseNumber (c :: r) := by
  rw [CS.parseOperand, h]; simp only [hc, if_true]

theorem po_str (f d : Nat) (X : Str) (r v r' : Str) (h : CS.skipSpace X = 40 :: r)
    (hs : CS.strLoop 1 r = some (v, r')) :
    CS.parseOperand (f + 1) d X = some (.str v, r') := by
  rw [CS.parseOperand, h]
  have : ¬ (40 = 45 ∨ 40 = 43 ∨ 40 = 46 ∨ isDigit 40 = true) := by decide
  simp only [this, if_false, if_true, hs]

theorem po_hex (f d : Nat) (X : Str) (r v r' : Str) (h : CS.skipSpace X = 60 :: r) (h1 : r ≠ [])
    (h2 : r.head? ≠ some 60) (hs : CS.hexLoop r = some (v, r')) :
    CS.parseOperand (f + 1) d X = some (.str v, r') := by
  rw [CS.parseOperand, h]
  have a : ¬ (60 = 45 ∨ 60 = 43 ∨ 60 = 46 ∨ isDigit 60 = true) := by decide
  have b : (60 : Nat) ≠ 40 := by decide
  simp only [a, b, if_false, h1, h2, ne_eq, not_false_eq_true, and_self, if_true, hs]

theorem po_name (f d : Nat) (X : Str) (r : Str) (h : CS.skipSpace X = 47 :: r) :
    CS.parseOperand (f + 1) d X = some (.name (CS.nameLoop r).1, (CS.nameLoop r).2) := by
  rw [CS.parseOperand, h]
  have a : ¬ (47 = 45 ∨ 47 = 43 ∨ 47 = 46 ∨ isDigit 47 = true) := by decide
  have b : (47 : Nat) ≠ 40 := by decide
  have c : (47 : Nat) ≠ 60 := by decide
  simp only [a, b, c, if_false, false_and, if_true]

theorem po_arr (f d : Nat) (X : Str) (r : Str) (h : CS.skipSpace X = 91 :: r) (hd : d < maxNestingDepth) :
    CS.parseOperand (f + 1) d X = CS.parseArray f (d + 1) r [] := by
  rw [CS.parseOperand, h]
  have a : ¬ (91 = 45 ∨ 91 = 43 ∨ 91 = 46 ∨ isDigit 91 = true) := by decide
  have b : (91 : Nat) ≠ 40 := by decide
  have c : (91 : Nat) ≠ 60 := by decide
  have e : (91 : Nat) ≠ 47 := by decide
  simp only [a, b, c, e, if_false, false_and, if_true, Nat.not_le.2 hd]

theorem po_arr_deep (f d : Nat) (X : Str) (r : Str) (h : CS.skipSpace X = 91 :: r) (hd : maxNestingDepth ≤ d) :
    CS.parseOperand (f + 1) d X = none := by
  rw [CS.parseOperand, h]
  have a : ¬ (91 = 45 ∨ 91 = 43 ∨ 91 = 46 ∨ isDigit 91 = true) := by decide
  have b : (91 : Nat) ≠ 40 := by decide
  have c : (91 : Nat) ≠ 60 := by decide
  have e : (91 : Nat) ≠ 47 := by decide
  simp only [a, b, c, e, if_false, false_and, if_true, hd]

theorem po_dict (f d : Nat) (X : Str) (r : Str) (h : CS.skipSpace X = 60 :: 60 :: r) (hd : d < maxNestingDepth) :
    CS.parseOperand (f + 1) d X = CS.parseDict f (d + 1) r [] := by
  rw [CS.parseOperand, h]
  have a : ¬ (60 = 45 ∨ 60 = 43 ∨ 60 = 46 ∨ isDigit 60 = true) := by decide
  have b : (60 : Nat) ≠ 40 := by decide
  have c : (60 : Nat) ≠ 47 := by decide
  have e : (60 : Nat) ≠ 91 := by decide
  simp only [a, b, c, e, if_false, List.head?_cons, ne_eq, not_true_eq_false, and_false, true_and,
    if_true, List.drop_succ_cons, List.drop_zero, Nat.not_le.2 hd]

theorem po_dict_deep (f d : Nat) (X : Str) (r : Str) (h : CS.skipSpace X = 60 :: 60 :: r)
    (hd : maxNestingDepth ≤ d) :
    CS.parseOperand (f + 1) d X = none := by
  rw [CS.parseOperand, h]
  have a : ¬ (60 = 45 ∨ 60 = 43 ∨ 60 = 46 ∨ isDigit 60 = true) := by decide
  have b : (60 : Nat) ≠ 40 := by decide
  have c : (60 : Nat) ≠ 47 := by decide
  have e : (60 : Nat) ≠ 91 := by decide
  simp only [a, b, c, e, if_false, List.head?_cons, ne_eq, not_true_eq_false, and_false, true_and,
    if_true, hd]

theorem po_kw (f d : Nat) (X : Str) (c : Nat) (r : Str) (h : CS.skipSpace X = c :: r)
    (hc : c = 116 ∨ c = 102 ∨ c = 110) :
    CS.parseOperand (f + 1) d X =
      (let t := CS.regularToken (c :: r)
        if t = kwTrue then some (.bool true, (c :: r).drop t.length)
        else if t = kwFalse then some (.bool false, (c :: r).drop t.length)
        else if t = kwNull then some (.null, (c :: r).drop t.length)
        else none) := by
  rw [CS.parseOperand, h]
  have a : ¬ (c = 45 ∨ c = 43 ∨ c = 46 ∨ isDigit c = true) := by
    rcases hc with rfl | rfl | rfl <;> decide
  have b : c ≠ 40 := by omega
  have b' : c ≠ 60 := by omega
  have d' : c ≠ 47 := by omega
  have e : c ≠ 91 := by omega
  simp only [a, b, b', d', e, hc, if_false, false_and, if_true]

theorem po_skip (f d : Nat) (X : Str) : CS.parseOperand f d (CS.skipSpace X) = CS.parseOperand f d X := by
  cases f with
  | zero => simp only [CS.parseOperand]
  | succ f => rw [CS.parseOperand, CS.parseOperand, skipSpace_idem]


def AllDigits (ds : Str) : Prop := ∀ c ∈ ds, 48 ≤ c ∧ c ≤ 57

theorem terminated_not_num (rest : Str) (h : Terminated rest) :
    rest = [] ∨ ∃ c r, rest = c :: r ∧ isDigit c = false ∧ c ≠ 46 := by
  rcases h with h | ⟨c, r, rfl, hc⟩
  · exact Or.inl h
  · refine Or.inr ⟨c, r, rfl, ?_, ?_⟩
    · simp only [isWs, isDelim, Bool.or_eq_true, beq_iff_eq] at hc
      simp only [isDigit, Bool.and_eq_false_iff, decide_eq_false_iff_not]
      omega
    · intro h46; subst h46; revert hc; decide

theorem numBody_digits (ds rest : Str) (hd : AllDigits ds)
    (hr : rest = [] ∨ ∃ c r, rest = c :: r ∧ isDigit c = false ∧ c ≠ 46) :
    CS.numBody false (ds ++ rest) = (ds, false, rest) := by
  induction ds with
  | nil =>
    rcases hr with rfl | ⟨c, r, rfl, h1, h2⟩
    · simp [CS.numBody]
    · simp [CS.numBody, h1, h2]
  | cons d ds ih =>
    have hdd := hd d (by simp)
    have : isDigit d = true := by simp [isDigit, hdd.1, hdd.2]
    simp only [List.cons_append, CS.numBody, this, if_true]
    rw [ih (fun x hx => hd x (by simp [hx]))]

theorem dec_allDigits (n : Nat) : AllDigits (dec n) := by
  unfold dec
  induction n using Nat.strongRecOn with
  | _ n ih =>
    rw [Tabula.A1.decAux]
    split
    · intro c hc; simp at hc; omega
    · rw [Tabula.A1.decAux_acc]
      intro c hc
      simp only [List.mem_append, List.mem_singleton] at hc
      rcases hc with hc | hc
      · exact ih (n / 10) (by omega) c hc
      · omega

theorem zeros_allDigits (z : Nat) : AllDigits (List.replicate z 48) := by
  intro c hc
  have := List.eq_of_mem_replicate hc
  omega

theorem digitsAcc_zeros (z : Nat) (s : Str) :
    Tabula.A1.digitsAcc (List.replicate z 48 ++ s) 0 = Tabula.A1.digitsAcc s 0 := by
  induction z with
  | zero => rfl
  | succ z ih =>
    simp only [List.replicate_succ, List.cons_append, Tabula.A1.digitsAcc]
    simpa using ih

/-- digit strings (non-empty, value in range) under `atoi`, with each sign -/
theorem atoi_plain (ds : Str) (v : Nat) (hne : ds ≠ []) (hd : AllDigits ds)
    (hv : Tabula.A1.digitsAcc ds 0 = some v) (hr : v ≤ Tabula.A1.maxInt64) :
    atoi ds = some (v : Int) := by
  cases ds with
  | nil => exact absurd rfl hne
  | cons d ds =>
    have hdd := hd d (by simp)
    unfold atoi
    split
    · rename_i heq
      split at heq
      · rename_i h'; simp at h'; omega
      · rename_i h'; simp at h'; omega
      · simp at heq
        obtain ⟨hn, hds⟩ := heq
        subst hn; subst hds
        simp [hv, hr]

theorem atoi_plus (ds : Str) (v : Nat) (hne : ds ≠ [])
    (hv : Tabula.A1.digitsAcc ds 0 = some v) (hr : v ≤ Tabula.A1.maxInt64) :
    atoi (43 :: ds) = some (v : Int) := by
  cases ds with
  | nil => exact absurd rfl hne
  | cons d ds => simp [atoi, hv, hr]

theorem atoi_minus (ds : Str) (v : Nat) (hne : ds ≠ [])
    (hv : Tabula.A1.digitsAcc ds 0 = some v) (hr : v ≤ Tabula.A1.maxInt64 + 1) :
    atoi (45 :: ds) = some (-(v : Int)) := by
  cases ds with
  | nil => exact absurd rfl hne
  | cons d ds => simp [atoi, hv, hr]

theorem parseNumber_int (plus : Bool) (z : Nat) (i : Int) (rest : Str)
    (h1 : -(2 ^ 63 : Int) ≤ i) (h2 : i < (2 ^ 63 : Int)) (hr : Terminated rest) :
    CS.parseNumber (printInt plus z i ++ rest) = some (.int i, rest) := by
  have hr' := terminated_not_num rest hr
  obtain ⟨d, ds', hdec, hd1, hd2⟩ := Tabula.A1.dec_head i.natAbs
  have hAll : AllDigits (List.replicate z 48 ++ dec i.natAbs) := by
    intro c hc
    rcases List.mem_append.1 hc with hc | hc
    · exact zeros_allDigits z c hc
    · exact dec_allDigits _ c hc
  have hne : List.replicate z 48 ++ dec i.natAbs ≠ [] := by rw [hdec]; simp
  have hval : Tabula.A1.digitsAcc (List.replicate z 48 ++ dec i.natAbs) 0 = some i.natAbs := by
    rw [digitsAcc_zeros, Tabula.A1.digitsAcc_dec]
  have hmax : Tabula.A1.maxInt64 = 9223372036854775807 := rfl
  have hnb := numBody_digits _ rest hAll hr'
  by_cases hneg : i < 0
  · have e : printInt plus z i ++ rest = 45 :: ((List.replicate z 48 ++ dec i.natAbs) ++ rest) := by
      simp [printInt, hneg]
    rw [e]
    unfold CS.parseNumber
    simp only [or_true, if_true, List.length_singleton, List.drop_succ_cons, List.drop_zero, hnb,
      List.singleton_append]
    rw [atoi_minus _ _ hne hval (by omega)]
    have : -(i.natAbs : Int) = i := by omega
    simp [this]
  · have habs : (i.natAbs : Int) = i := by omega
    cases plus with
    | true =>
      have e : printInt true z i ++ rest = 43 :: ((List.replicate z 48 ++ dec i.natAbs) ++ rest) := by
        simp [printInt, hneg]
      rw [e]
      unfold CS.parseNumber
      simp only [true_or, if_true, List.length_singleton, List.drop_succ_cons, List.drop_zero, hnb,
        List.singleton_append]
      rw [atoi_plus _ _ hne hval (by omega)]
      simp [habs]
    | false =>
      have e : printInt false z i ++ rest = (List.replicate z 48 ++ dec i.natAbs) ++ rest := by
        simp [printInt, hneg]
      rw [e]
      obtain ⟨c, cs, hcs⟩ : ∃ c cs, List.replicate z 48 ++ dec i.natAbs = c :: cs := by
        cases hh : List.replicate z 48 ++ dec i.natAbs with
        | nil => exact absurd hh hne
        | cons c cs => exact ⟨c, cs, rfl⟩
      have hc := hAll c (by rw [hcs]; simp)
      have hcn : ¬ (c = 43 ∨ c = 45) := by omega
      rw [hcs] at hnb hne hval hAll ⊢
      unfold CS.parseNumber
      simp only [List.cons_append, hcn, if_false, List.length_nil, List.drop_zero, List.nil_append]
      rw [← List.cons_append, hnb]
      simp only []
      rw [atoi_plain _ _ hne hAll hval (by omega)]
      simp [habs]


theorem regularToken_append (t rest : Str) (ht : ∀ c ∈ t, (isWs c || isDelim c) = false)
    (hr : Terminated rest) : CS.regularToken (t ++ rest) = t := by
  unfold CS.regularToken
  induction t with
  | nil =>
    rcases hr with rfl | ⟨c, r, rfl, hc⟩
    · rfl
    · have : (!isWs c && !isDelim c) = false := by
        cases h1 : isWs c <;> cases h2 : isDelim c <;> simp_all
      simp [this]
  | cons c t ih =>
    have hc := ht c (by simp)
    have : (!isWs c && !isDelim c) = true := by
      cases h1 : isWs c <;> cases h2 : isDelim c <;> simp_all
    simp only [List.cons_append, List.takeWhile_cons, this, if_true]
    rw [ih (fun x hx => ht x (by simp [hx]))]

theorem kwNull_reg : ∀ c ∈ kwNull, (isWs c || isDelim c) = false := by decide
theorem kwTrue_reg : ∀ c ∈ kwTrue, (isWs c || isDelim c) = false := by decide
theorem kwFalse_reg : ∀ c ∈ kwFalse, (isWs c || isDelim c) = false := by decide

theorem drop_append_len (t rest : Str) : (t ++ rest).drop t.length = rest := by
  simp

/-- a non-empty legal separator in front makes anything terminated -/
theorem terminated_sep (us : Sep) (h : SepOk us) (hne : us ≠ []) (X : Str) :
    Terminated (renderSep us ++ X) := by
  cases us with
  | nil => exact absurd rfl hne
  | cons u us =>
    have hu := h u (by simp)
    cases u with
    | ws b =>
      exact Or.inr ⟨b, renderSep us ++ X, by simp [renderSep, SepUnit.render], by
        have : isWs b = true := hu
        simp [this]⟩
    | comment t e =>
      exact Or.inr ⟨37, (t ++ e) ++ (renderSep us ++ X), by simp [renderSep, SepUnit.render], by decide⟩

theorem terminated_cons (c : Nat) (r : Str) (h : (isWs c || isDelim c) = true) : Terminated (c :: r) :=
  Or.inr ⟨c, r, rfl, h⟩

/-- separator (possibly empty) then something terminated -/
theorem terminated_sep' (us : Sep) (h : SepOk us) (X : Str) (hX : Terminated X) :
    Terminated (renderSep us ++ X) := by
  by_cases hne : us = []
  · subst hne; exact hX
  · exact terminated_sep us h hne X

theorem hexBody_ne60 (ps : List HPiece) (last : Option HLast) (w : Str)
    (hps : ∀ p ∈ ps, p.Ok) (hlast : ∀ l, last = some l → l.Ok) (hw : AllWs w) :
    ∀ c ∈ renderHexBody ps last w, c ≠ 60 := by
  have ws60 : ∀ c, isWs c = true → c ≠ 60 := by
    intro c hc h; subst h; revert hc; decide
  have hd60 : ∀ u v, v < 16 → hexDigitChar u v ≠ 60 := by
    intro u v hv
    unfold hexDigitChar
    split
    · omega
    · split <;> omega
  intro c hc
  simp only [renderHexBody, List.mem_append, List.mem_flatMap, List.mem_singleton] at hc
  rcases hc with ((⟨p, hp, hc⟩ | hc) | hc) | hc
  · obtain ⟨hb, h1, h2⟩ := hps p hp
    simp only [HPiece.render, List.mem_append, List.mem_singleton] at hc
    rcases hc with ((hc | hc) | hc) | hc
    · exact ws60 c (h1 c hc)
    · rw [hc]; exact hd60 _ _ (by omega)
    · exact ws60 c (h2 c hc)
    · rw [hc]; exact hd60 _ _ (by omega)
  · cases last with
    | none => simp at hc
    | some l =>
      obtain ⟨h1, h2⟩ := hlast l rfl
      simp only [HLast.render, List.mem_append, List.mem_singleton] at hc
      rcases hc with hc | hc
      · exact ws60 c (h2 c hc)
      · rw [hc]; exact hd60 _ _ h1
  · exact ws60 c (hw c hc)
  · omega

theorem hexBody_ne_nil (ps : List HPiece) (last : Option HLast) (w : Str) :
    renderHexBody ps last w ≠ [] := by
  simp [renderHexBody]

theorem skip_render (pre : Sep) (hp : SepOk pre) (c : Nat) (r : Str) (h1 : isWs c = false) (h2 : c ≠ 37) :
    CS.skipSpace (renderSep pre ++ (c :: r)) = c :: r := by
  rw [skipSpace_sep pre hp, skipSpace_stop c r h1 h2]

theorem pa_close (f d : Nat) (close : Sep) (hc : SepOk close) (rest : Str) (acc : List Obj) :
    CS.parseArray (f + 1) d (renderSep close ++ 93 :: rest) acc = some (.arr acc, rest) := by
  rw [CS.parseArray, skip_render close hc 93 rest (by decide) (by decide)]
  have : renderSep close ++ 93 :: rest ≠ [] := by simp
  simp only [this, if_false, if_true]

theorem pa_item (f d : Nat) (inp : Str) (acc : List Obj) (c : Nat) (r : Str) (o : Obj) (r' : Str)
    (h : CS.skipSpace inp = c :: r) (hc : c ≠ 93) (hp : CS.parseOperand f d inp = some (o, r')) :
    CS.parseArray (f + 1) d inp acc = CS.parseArray f d r' (acc ++ [o]) := by
  have hne : inp ≠ [] := by
    intro e; rw [e, skipSpace_nil] at h; cases h
  have hp' : CS.parseOperand f d (c :: r) = some (o, r') := by rw [← h, po_skip, hp]
  rw [CS.parseArray, h]
  simp only [hne, hc, if_false, hp']

theorem pa_item_err (f d : Nat) (inp : Str) (acc : List Obj) (c : Nat) (r : Str)
    (h : CS.skipSpace inp = c :: r) (hc : c ≠ 93) (hp : CS.parseOperand f d inp = none) :
    CS.parseArray (f + 1) d inp acc = none := by
  have hne : inp ≠ [] := by
    intro e; rw [e, skipSpace_nil] at h; cases h
  have hp' : CS.parseOperand f d (c :: r) = none := by rw [← h, po_skip, hp]
  rw [CS.parseArray, h]
  simp only [hne, hc, if_false, hp']

theorem pd_close (f d : Nat) (close : Sep) (hc : SepOk close) (rest : Str) (acc : List (Str × Obj)) :
    CS.parseDict (f + 1) d (renderSep close ++ 62 :: 62 :: rest) acc = some (.dict acc, rest) := by
  rw [CS.parseDict, skip_render close hc 62 (62 :: rest) (by decide) (by decide)]
  have : renderSep close ++ 62 :: 62 :: rest ≠ [] := by simp
  simp only [this, if_false, List.head?_cons, and_self, if_true, List.drop_succ_cons, List.drop_zero]

theorem pd_item (f d : Nat) (pre : Sep) (hpre : SepOk pre) (ps : List NPiece) (hps : ∀ p ∈ ps, p.Ok)
    (Y : Str) (hY : Terminated Y) (acc : List (Str × Obj)) (o : Obj) (r' : Str)
    (hp : CS.parseOperand f d Y = some (o, r')) :
    CS.parseDict (f + 1) d (renderSep pre ++ 47 :: (renderName ps ++ Y)) acc =
      CS.parseDict f d r' (dictSet acc (ps.map NPiece.byte) o) := by
  rw [CS.parseDict, skip_render pre hpre 47 _ (by decide) (by decide)]
  have hne : renderSep pre ++ 47 :: (renderName ps ++ Y) ≠ [] := by simp
  have h1 : ¬ ((47 : Nat) = 62 ∧ (renderName ps ++ Y).head? = some 62) := by
    intro h; exact absurd h.1 (by decide)
  simp only [hne, h1, if_false, ne_eq, not_true_eq_false, cs_nameLoop_roundtrip ps Y hps hY, hp]

theorem pd_item_err (f d : Nat) (pre : Sep) (hpre : SepOk pre) (ps : List NPiece) (hps : ∀ p ∈ ps, p.Ok)
    (Y : Str) (hY : Terminated Y) (acc : List (Str × Obj))
    (hp : CS.parseOperand f d Y = none) :
    CS.parseDict (f + 1) d (renderSep pre ++ 47 :: (renderName ps ++ Y)) acc = none := by
  rw [CS.parseDict, skip_render pre hpre 47 _ (by decide) (by decide)]
  have hne : renderSep pre ++ 47 :: (renderName ps ++ Y) ≠ [] := by simp
  have h1 : ¬ ((47 : Nat) = 62 ∧ (renderName ps ++ Y).head? = some 62) := by
    intro h; exact absurd h.1 (by decide)
  simp only [hne, h1, if_false, ne_eq, not_true_eq_false, cs_nameLoop_roundtrip ps Y hps hY, hp]

theorem dictSet_fresh (acc : List (Str × Obj)) (k : Str) (v : Obj) (h : k ∉ acc.map Prod.fst) :
    dictSet acc k v = acc ++ [(k, v)] := by
  induction acc with
  | nil => rfl
  | cons a acc ih =>
    obtain ⟨k', v'⟩ := a
    simp only [List.map_cons, List.mem_cons, not_or] at h
    have : ¬ k' = k := fun e => h.1 e.symm
    simp only [dictSet, this, if_false, List.cons_append, ih h.2]

end CSL

mutual
/-- no indirect reference anywhere (content streams have none) -/
def SObj.noRef : SObj → Bool
  | .ref _ _ _ _ _ => false
  | .arr _ items _ => noRefList items
  | .dict _ kvs _ => noRefList kvs
  | _ => true
def noRefList : List SObj → Bool
  | [] => true
  | x :: xs => x.noRef && noRefList xs
end

/-- does the last token written so far end in a regular character? -/
def lastEndsRegular : Bool → List SObj → Bool
  | need, [] => need
  | _, x :: xs => lastEndsRegular x.endsRegular xs

/-- a legal operator name: starts with a letter, ' or ", continues with letters, digits, ' " *, and is not a keyword object -/
def OpName (op : Str) : Prop :=
  (∃ c r, op = c :: r ∧ (CS.isLetter c = true ∨ c = 39 ∨ c = 34) ∧ ∀ x ∈ r, CS.isOpChar true x = true) ∧
    CS.isKeywordObject op = false

def SOp.render (o : SOp) : Str := renderList o.operands ++ (renderSep o.pre ++ o.op)

def renderOps : List SOp → Str
  | [] => []
  | o :: os => o.render ++ renderOps os

def ValidOps : Bool → List SOp → Prop
  | _, [] => True
  | need, o :: os =>
    ValidList need o.operands ∧ noRefList o.operands = true ∧ SepOk o.pre ∧
      (lastEndsRegular need o.operands = true → o.pre ≠ []) ∧ OpName o.op ∧ ValidOps true os

namespace CSL

/-- the test of `parseLoop` that sends the parser to `parseOperator` -/
def opBranch (c : Nat) (r : Str) : Bool :=
  (CS.isLetter c && !CS.isKeywordObject (CS.regularToken (c :: r))) || c = 39 || c = 34

theorem opBranch_nonletter (c : Nat) (r : Str) (h : CS.isLetter c = false) (h1 : c ≠ 39) (h2 : c ≠ 34) :
    opBranch c r = false := by
  simp [opBranch, h, h1, h2]

theorem printInt_head (plus : Bool) (z : Nat) (i : Int) :
    ∃ c r, printInt plus z i = c :: r ∧ (c = 45 ∨ c = 43 ∨ isDigit c = true) := by
  obtain ⟨d, ds, hd, h1, h2⟩ := Tabula.A1.dec_head i.natAbs
  have hdig : ∀ x, 48 ≤ x → x ≤ 57 → isDigit x = true := by
    intro x a b; simp [isDigit, a, b]
  unfold printInt
  by_cases hneg : i < 0
  · exact ⟨45, List.replicate z 48 ++ dec i.natAbs, by simp [hneg], Or.inl rfl⟩
  · cases plus with
    | true => exact ⟨43, List.replicate z 48 ++ dec i.natAbs, by simp [hneg], Or.inr (Or.inl rfl)⟩
    | false =>
      cases z with
      | zero => exact ⟨d, ds, by simp [hneg, hd], Or.inr (Or.inr (hdig d h1 h2))⟩
      | succ z => exact ⟨48, List.replicate z 48 ++ dec i.natAbs, by simp [hneg, List.replicate_succ], Or.inr (Or.inr (by decide))⟩

theorem numStart_facts (c : Nat) (h : c = 45 ∨ c = 43 ∨ isDigit c = true) :
    isWs c = false ∧ c ≠ 37 ∧ c ≠ 93 ∧ CS.isLetter c = false ∧ c ≠ 39 ∧ c ≠ 34 := by
  have hd : isDigit c = true → 48 ≤ c ∧ c ≤ 57 := by
    intro h; simpa [isDigit] using h
  have hr : 43 ≤ c ∧ c ≤ 57 := by
    rcases h with rfl | rfl | h
    · omega
    · omega
    · have := hd h; omega
  refine ⟨?_, by omega, by omega, ?_, by omega, by omega⟩
  · simp only [isWs, Bool.or_eq_false_iff, beq_eq_false_iff_ne]; omega
  · simp only [CS.isLetter, Bool.or_eq_false_iff, Bool.and_eq_false_iff, decide_eq_false_iff_not]; omega

/-- the first byte of a real: a sign, a digit or the point -/
theorem real_head (r : RealSp) (h : r.Ok) :
    ∃ c t, r.render = c :: t ∧ (c = 45 ∨ c = 43 ∨ c = 46 ∨ isDigit c = true) := by
  obtain ⟨neg, plus, ip, fp⟩ := r
  obtain ⟨hi, _, _⟩ := h
  simp only at hi
  cases neg with
  | true => exact ⟨45, ip ++ 46 :: fp, by simp [RealSp.render], Or.inl rfl⟩
  | false =>
    cases plus with
    | true => exact ⟨43, ip ++ 46 :: fp, by simp [RealSp.render], Or.inr (Or.inl rfl)⟩
    | false =>
      obtain ⟨c, t, e, hc⟩ := Rl.body_head ip fp hi
      refine ⟨c, t, by simp [RealSp.render, e], ?_⟩
      rcases hc with hc | hc
      · exact Or.inr (Or.inr (Or.inr (by simp [isDigit, hc.1, hc.2])))
      · exact Or.inr (Or.inr (Or.inl hc))

theorem realStart_facts (c : Nat) (h : c = 45 ∨ c = 43 ∨ c = 46 ∨ isDigit c = true) :
    isWs c = false ∧ c ≠ 37 ∧ c ≠ 93 ∧ CS.isLetter c = false ∧ c ≠ 39 ∧ c ≠ 34 := by
  rcases h with h | h | h | h
  · exact numStart_facts c (Or.inl h)
  · exact numStart_facts c (Or.inr (Or.inl h))
  · subst h; decide
  · exact numStart_facts c (Or.inr (Or.inr h))

theorem terminated_render (so : SObj) (need : Bool) (hv : so.Valid need) (hnr : so.noRef = true)
    (X : Str) (h : need = true ∨ so.startsRegular = false) : Terminated (so.render ++ X) := by
  cases so with
  | null pre =>
    simp only [SObj.Valid] at hv
    rcases h with h | h
    · simp only [SObj.render, List.append_assoc]
      exact terminated_sep pre hv.1 (hv.2 h) _
    · simp [SObj.startsRegular] at h
  | bool pre b =>
    simp only [SObj.Valid] at hv
    rcases h with h | h
    · simp only [SObj.render, List.append_assoc]
      exact terminated_sep pre hv.1 (hv.2 h) _
    · simp [SObj.startsRegular] at h
  | int pre plus z i =>
    simp only [SObj.Valid] at hv
    rcases h with h | h
    · simp only [SObj.render, List.append_assoc]
      exact terminated_sep pre hv.1 (hv.2.1 h) _
    · simp [SObj.startsRegular] at h
  | real pre r =>
    simp only [SObj.Valid] at hv
    rcases h with h | h
    · simp only [SObj.render, List.append_assoc]
      exact terminated_sep pre hv.1 (hv.2.1 h) _
    · simp [SObj.startsRegular] at h
  | lit pre ps =>
    simp only [SObj.Valid] at hv
    simp only [SObj.render, renderStr, List.append_assoc, List.cons_append]
    exact terminated_sep' pre hv.1 _ (terminated_cons 40 _ (by decide))
  | hex pre ps last w =>
    simp only [SObj.Valid] at hv
    simp only [SObj.render, renderHex, List.append_assoc, List.cons_append]
    exact terminated_sep' pre hv.1 _ (terminated_cons 60 _ (by decide))
  | name pre ps =>
    simp only [SObj.Valid] at hv
    simp only [SObj.render, List.append_assoc, List.cons_append]
    exact terminated_sep' pre hv.1 _ (terminated_cons 47 _ (by decide))
  | arr pre items close =>
    simp only [SObj.Valid] at hv
    simp only [SObj.render, List.append_assoc, List.cons_append]
    exact terminated_sep' pre hv.1 _ (terminated_cons 91 _ (by decide))
  | dict pre kvs close =>
    simp only [SObj.Valid] at hv
    simp only [SObj.render, List.append_assoc, List.cons_append]
    exact terminated_sep' pre hv.1 _ (terminated_cons 60 _ (by decide))
  | ref pre n g s1 s2 => simp [SObj.noRef] at hnr

theorem terminated_list (xs : List SObj) (hv : ValidList true xs) (hnr : noRefList xs = true) (T : Str)
    (hT : lastEndsRegular true xs = true → Terminated T) : Terminated (renderList xs ++ T) := by
  cases xs with
  | nil => exact hT rfl
  | cons x xs =>
    simp only [ValidList] at hv
    simp only [noRefList, Bool.and_eq_true] at hnr
    simp only [renderList, List.append_assoc]
    exact terminated_render x true hv.1 hnr.1 _ (Or.inl rfl)

/-- what the parser sees after the separator of an operand: a byte that is not `]` and does
not start an operator -/
theorem head_cases (so : SObj) (need : Bool) (hv : so.Valid need) (hnr : so.noRef = true) (rest : Str)
    (hrest : so.endsRegular = true → Terminated rest) :
    ∃ c r, CS.skipSpace (so.render ++ rest) = c :: r ∧ c ≠ 93 ∧ opBranch c r = false := by
  have kwcase : ∀ (pre : Sep) (kw : Str) (c : Nat) (t : Str), SepOk pre → kw = c :: t →
      (∀ x ∈ kw, (isWs x || isDelim x) = false) → CS.isKeywordObject kw = true →
      c ≠ 37 → c ≠ 93 → c ≠ 39 → c ≠ 34 → Terminated rest →
      ∃ c r, CS.skipSpace (renderSep pre ++ (kw ++ rest)) = c :: r ∧ c ≠ 93 ∧ opBranch c r = false := by
    intro pre kw c t hp hkw hreg hk h37 h93 h39 h34 hT
    have hws : isWs c = false := by
      have := hreg c (by rw [hkw]; simp)
      simp only [Bool.or_eq_false_iff] at this; exact this.1
    refine ⟨c, t ++ rest, ?_, h93, ?_⟩
    · rw [hkw, List.cons_append]; exact skip_render pre hp c _ hws h37
    · have e : c :: (t ++ rest) = kw ++ rest := by rw [hkw]; rfl
      simp [opBranch, e, regularToken_append kw rest hreg hT, hk, h39, h34]
  have delim : ∀ (pre : Sep) (c : Nat) (t : Str), SepOk pre → isWs c = false → c ≠ 37 → c ≠ 93 →
      CS.isLetter c = false → c ≠ 39 → c ≠ 34 →
      ∃ c' r, CS.skipSpace (renderSep pre ++ (c :: t)) = c' :: r ∧ c' ≠ 93 ∧ opBranch c' r = false := by
    intro pre c t hp hws h37 h93 hl h39 h34
    exact ⟨c, t, skip_render pre hp c t hws h37, h93, opBranch_nonletter c t hl h39 h34⟩
  cases so with
  | null pre =>
    simp only [SObj.Valid] at hv
    simp only [SObj.render, List.append_assoc]
    exact kwcase pre kwNull 110 _ hv.1 rfl kwNull_reg (by decide) (by decide) (by decide) (by decide)
      (by decide) (hrest rfl)
  | bool pre b =>
    simp only [SObj.Valid] at hv
    simp only [SObj.render, List.append_assoc]
    cases b with
    | true =>
      exact kwcase pre kwTrue 116 _ hv.1 rfl kwTrue_reg (by decide) (by decide) (by decide) (by decide)
        (by decide) (hrest rfl)
    | false =>
      exact kwcase pre kwFalse 102 _ hv.1 rfl kwFalse_reg (by decide) (by decide) (by decide) (by decide)
        (by decide) (hrest rfl)
  | int pre plus z i =>
    simp only [SObj.Valid] at hv
    obtain ⟨c, t, hc, hcc⟩ := printInt_head plus z i
    obtain ⟨a1, a2, a3, a4, a5, a6⟩ := numStart_facts c hcc
    simp only [SObj.render, List.append_assoc, hc, List.cons_append]
    exact delim pre c _ hv.1 a1 a2 a3 a4 a5 a6
  | real pre r =>
    simp only [SObj.Valid] at hv
    obtain ⟨c, t, hc, hcc⟩ := real_head r hv.2.2
    obtain ⟨a1, a2, a3, a4, a5, a6⟩ := realStart_facts c hcc
    simp only [SObj.render, List.append_assoc, hc, List.cons_append]
    exact delim pre c _ hv.1 a1 a2 a3 a4 a5 a6
  | lit pre ps =>
    simp only [SObj.Valid] at hv
    simp only [SObj.render, renderStr, List.append_assoc, List.cons_append]
    exact delim pre 40 _ hv.1 (by decide) (by decide) (by decide) (by decide) (by decide) (by decide)
  | hex pre ps last w =>
    simp only [SObj.Valid] at hv
    simp only [SObj.render, renderHex, List.append_assoc, List.cons_append]
    exact delim pre 60 _ hv.1 (by decide) (by decide) (by decide) (by decide) (by decide) (by decide)
  | name pre ps =>
    simp only [SObj.Valid] at hv
    simp only [SObj.render, List.append_assoc, List.cons_append]
    exact delim pre 47 _ hv.1 (by decide) (by decide) (by decide) (by decide) (by decide) (by decide)
  | arr pre items close =>
    simp only [SObj.Valid] at hv
    simp only [SObj.render, List.append_assoc, List.cons_append]
    exact delim pre 91 _ hv.1 (by decide) (by decide) (by decide) (by decide) (by decide) (by decide)
  | dict pre kvs close =>
    simp only [SObj.Valid] at hv
    simp only [SObj.render, List.append_assoc, List.cons_append]
    exact delim pre 60 _ hv.1 (by decide) (by decide) (by decide) (by decide) (by decide) (by decide)
  | ref pre n g s1 s2 => simp [SObj.noRef] at hnr

theorem kw_operand (f d : Nat) (pre : Sep) (hp : SepOk pre) (kw : Str) (c : Nat) (t : Str) (rest : Str)
    (hkw : kw = c :: t) (hc : c = 116 ∨ c = 102 ∨ c = 110)
    (hreg : ∀ x ∈ kw, (isWs x || isDelim x) = false) (hT : Terminated rest) :
    CS.parseOperand (f + 1) d (renderSep pre ++ (kw ++ rest)) =
      (if kw = kwTrue then some (.bool true, rest)
        else if kw = kwFalse then some (.bool false, rest)
        else if kw = kwNull then some (.null, rest)
        else none) := by
  have hws : isWs c = false := by
    have := hreg c (by rw [hkw]; simp)
    simp only [Bool.or_eq_false_iff] at this; exact this.1
  have h37 : c ≠ 37 := by omega
  have hs : CS.skipSpace (renderSep pre ++ (kw ++ rest)) = c :: (t ++ rest) := by
    rw [hkw, List.cons_append]; exact skip_render pre hp c _ hws h37
  rw [po_kw f d _ c _ hs hc]
  have e : c :: (t ++ rest) = kw ++ rest := by rw [hkw]; rfl
  simp only [e, regularToken_append kw rest hreg hT, drop_append_len]

mutual
theorem op_rt (so : SObj) (need : Bool) (rest : Str) (f d : Nat)
    (hv : so.Valid need) (hnr : so.noRef = true) (hf : so.size ≤ f)
    (hd : d + so.depth ≤ maxNestingDepth)
    (hrest : so.endsRegular = true → Terminated rest) :
    CS.parseOperand f d (so.render ++ rest) = some (so.value, rest) := by
  obtain ⟨f, rfl⟩ : ∃ f', f = f' + 1 := by
    cases f with
    | zero => cases so <;> simp [SObj.size] at hf
    | succ f' => exact ⟨f', rfl⟩
  match so with
  | .null pre =>
    simp only [SObj.Valid] at hv
    simp only [SObj.render, List.append_assoc, SObj.value]
    rw [kw_operand f d pre hv.1 kwNull 110 _ rest rfl (by decide) kwNull_reg (hrest rfl)]
    rfl
  | .bool pre b =>
    simp only [SObj.Valid] at hv
    simp only [SObj.render, List.append_assoc, SObj.value]
    cases b with
    | true =>
      exact (kw_operand f d pre hv.1 kwTrue 116 _ rest rfl (by decide) kwTrue_reg (hrest rfl)).trans rfl
    | false =>
      exact (kw_operand f d pre hv.1 kwFalse 102 _ rest rfl (by decide) kwFalse_reg (hrest rfl)).trans rfl
  | .int pre plus z i =>
    simp only [SObj.Valid] at hv
    obtain ⟨c, t, hc, hcc⟩ := printInt_head plus z i
    obtain ⟨a1, a2, _⟩ := numStart_facts c hcc
    have hs : CS.skipSpace (renderSep pre ++ (printInt plus z i ++ rest)) = c :: (t ++ rest) := by
      rw [hc, List.cons_append]; exact skip_render pre hv.1 c _ a1 a2
    simp only [SObj.render, List.append_assoc, SObj.value]
    rw [po_num f d _ c _ hs (by rcases hcc with h | h | h <;> simp [h])]
    have e : c :: (t ++ rest) = printInt plus z i ++ rest := by rw [hc]; rfl
    rw [e, parseNumber_int plus z i rest hv.2.2.1 hv.2.2.2 (hrest rfl)]
  | .real pre r =>
    simp only [SObj.Valid] at hv
    obtain ⟨c, t, hc, hcc⟩ := real_head r hv.2.2
    obtain ⟨a1, a2, _⟩ := realStart_facts c hcc
    have hs : CS.skipSpace (renderSep pre ++ (r.render ++ rest)) = c :: (t ++ rest) := by
      rw [hc, List.cons_append]; exact skip_render pre hv.1 c _ a1 a2
    simp only [SObj.render, List.append_assoc, SObj.value]
    rw [po_num f d _ c _ hs hcc]
    have e : c :: (t ++ rest) = r.render ++ rest := by rw [hc]; rfl
    rw [e, cs_parseNumber_real r rest hv.2.2 (hrest rfl)]
  | .lit pre ps =>
    simp only [SObj.Valid] at hv
    simp only [SObj.render, renderStr, List.append_assoc, List.cons_append, SObj.value, List.nil_append]
    have hs := skip_render pre hv.1 40 (renderStrBody ps ++ 41 :: rest) (by decide) (by decide)
    exact po_str f d _ _ _ _ hs (by rw [cs_strLoop_eq]; exact litstr_roundtrip ps rest hv.2)
  | .hex pre ps last w =>
    simp only [SObj.Valid] at hv
    simp only [SObj.render, renderHex, List.append_assoc, List.cons_append, SObj.value]
    have hs := skip_render pre hv.1 60 (renderHexBody ps last w ++ rest) (by decide) (by decide)
    have h60 := hexBody_ne60 ps last w hv.2.1 hv.2.2.1 hv.2.2.2
    have hne := hexBody_ne_nil ps last w
    refine po_hex f d _ _ _ _ hs ?_ ?_ (cs_hexstr_roundtrip ps last w rest hv.2.1 hv.2.2.1 hv.2.2.2)
    · simp [hne]
    · cases hb : renderHexBody ps last w with
      | nil => exact absurd hb hne
      | cons c t =>
        have := h60 c (by rw [hb]; simp)
        simp [this]
  | .name pre ps =>
    simp only [SObj.Valid] at hv
    simp only [SObj.render, List.append_assoc, List.cons_append, SObj.value]
    have hs := skip_render pre hv.1 47 (renderName ps ++ rest) (by decide) (by decide)
    rw [po_name f d _ _ hs, cs_nameLoop_roundtrip ps rest hv.2 (hrest rfl)]
  | .arr pre items close =>
    simp only [SObj.Valid] at hv
    simp only [SObj.noRef] at hnr
    simp only [SObj.size] at hf
    simp only [SObj.depth] at hd
    simp only [SObj.render, List.append_assoc, List.cons_append, SObj.value, List.nil_append]
    have hs := skip_render pre hv.1 91 (renderList items ++ (renderSep close ++ 93 :: rest)) (by decide) (by decide)
    rw [po_arr f d _ _ hs (by omega),
      arr_rt items false close rest f (d + 1) [] hv.2.2 hnr hv.2.1 (by omega) (by omega)]
    rfl
  | .dict pre kvs close =>
    simp only [SObj.Valid] at hv
    simp only [SObj.noRef] at hnr
    simp only [SObj.size] at hf
    simp only [SObj.depth] at hd
    simp only [SObj.render, List.append_assoc, List.cons_append, SObj.value, List.nil_append]
    have hs := skip_render pre hv.1 60 (60 :: (renderList kvs ++ (renderSep close ++ 62 :: 62 :: rest)))
      (by decide) (by decide)
    rw [po_dict f d _ _ hs (by omega),
      dict_rt kvs close rest f (d + 1) [] hv.2.2.1 hnr hv.2.1 hv.2.2.2 (by simp) (by omega) (by omega)]
    rfl
  | .ref pre n g s1 s2 => simp [SObj.noRef] at hnr
theorem arr_rt (items : List SObj) (need : Bool) (close : Sep) (rest : Str) (f d : Nat) (acc : List Obj)
    (hv : ValidList need items) (hnr : noRefList items = true) (hc : SepOk close)
    (hf : sizeList items + 1 ≤ f) (hd : d + sdepthList items ≤ maxNestingDepth) :
    CS.parseArray f d (renderList items ++ (renderSep close ++ 93 :: rest)) acc =
      some (.arr (acc ++ valueList items), rest) := by
  obtain ⟨f, rfl⟩ : ∃ f', f = f' + 1 := ⟨f - 1, by omega⟩
  match items with
  | [] =>
    simp only [renderList, List.nil_append, valueList, List.append_nil]
    exact pa_close f d close hc rest acc
  | x :: xs =>
    simp only [ValidList] at hv
    simp only [noRefList, Bool.and_eq_true] at hnr
    simp only [sizeList] at hf
    simp only [sdepthList] at hd
    simp only [renderList, List.append_assoc, valueList]
    have hT : Terminated (renderSep close ++ 93 :: rest) :=
      terminated_sep' close hc _ (terminated_cons 93 _ (by decide))
    have hrest : x.endsRegular = true → Terminated (renderList xs ++ (renderSep close ++ 93 :: rest)) := by
      intro he
      rw [he] at hv
      exact terminated_list xs hv.2 hnr.2 _ (fun _ => hT)
    obtain ⟨c, r, hs, h93, _⟩ := head_cases x need hv.1 hnr.1 _ hrest
    have hx := op_rt x need _ f d hv.1 hnr.1 (by omega) (by omega) hrest
    rw [pa_item f d _ acc c r _ _ hs h93 hx,
      arr_rt xs x.endsRegular close rest f d (acc ++ [x.value]) hv.2 hnr.2 hc (by omega) (by omega)]
    simp
theorem dict_rt (kvs : List SObj) (close : Sep) (rest : Str) (f d : Nat) (acc : List (Str × Obj))
    (hv : ValidKVs kvs) (hnr : noRefList kvs = true) (hc : SepOk close)
    (hnd : (keysOf kvs).Nodup) (hfr : ∀ k ∈ keysOf kvs, k ∉ acc.map Prod.fst)
    (hf : sizeList kvs + 1 ≤ f) (hd : d + sdepthList kvs ≤ maxNestingDepth) :
    CS.parseDict f d (renderList kvs ++ (renderSep close ++ 62 :: 62 :: rest)) acc =
      some (.dict (acc ++ valueKVs kvs), rest) := by
  obtain ⟨f, rfl⟩ : ∃ f', f = f' + 1 := ⟨f - 1, by omega⟩
  match kvs with
  | [] =>
    simp only [renderList, List.nil_append, valueKVs, List.append_nil]
    exact pd_close f d close hc rest acc
  | [_] => simp [ValidKVs] at hv
  | k :: v :: kvs' =>
    simp only [ValidKVs] at hv
    obtain ⟨hkn, hkv, hvv, hv'⟩ := hv
    simp only [noRefList, Bool.and_eq_true] at hnr
    obtain ⟨_, hnrv, hnr'⟩ := hnr
    simp only [sizeList] at hf
    simp only [sdepthList] at hd
    simp only [keysOf, List.nodup_cons] at hnd
    match k, hkn, hkv with
    | .name pre ps, _, hkv =>
      simp only [SObj.Valid] at hkv
      simp only [keysOf, SObj.keyBytes, List.mem_cons, forall_eq_or_imp] at hfr hnd
      simp only [renderList, SObj.render, List.append_assoc, List.cons_append, valueKVs, SObj.keyBytes]
      have hT : Terminated (renderSep close ++ 62 :: 62 :: rest) :=
        terminated_sep' close hc _ (terminated_cons 62 _ (by decide))
      have hT' : Terminated (renderList kvs' ++ (renderSep close ++ 62 :: 62 :: rest)) := by
        match kvs', hv', hnr' with
        | [], _, _ => exact hT
        | [_], hv', _ => simp [ValidKVs] at hv'
        | k2 :: v2 :: r2, hv', hnr' =>
          simp only [ValidKVs] at hv'
          simp only [noRefList, Bool.and_eq_true] at hnr'
          simp only [renderList, List.append_assoc]
          refine terminated_render k2 false hv'.2.1 hnr'.1 _ (Or.inr ?_)
          cases k2 <;> simp [SObj.isName] at hv' <;> rfl
      have hY : Terminated (v.render ++ (renderList kvs' ++ (renderSep close ++ 62 :: 62 :: rest))) :=
        terminated_render v true hvv hnrv _ (Or.inl rfl)
      have hx := op_rt v true _ f d hvv hnrv (by omega) (by omega) (fun _ => hT')
      rw [pd_item f d pre hkv.1 ps hkv.2 _ hY acc _ _ hx, dictSet_fresh acc _ _ hfr.1,
        dict_rt kvs' close rest f d _ hv' hnr' hc hnd.2 ?_ (by omega) (by omega)]
      · simp
      · intro k' hk'
        simp only [List.map_append, List.map_cons, List.map_nil, List.mem_append, List.mem_singleton, not_or]
        refine ⟨hfr.2 k' hk', ?_⟩
        intro e; subst e; exact hnd.1 hk'
end


/-! ### beyond the nesting limit -/

mutual
theorem op_deep (so : SObj) (need : Bool) (rest : Str) (f d : Nat)
    (hv : so.Valid need) (hnr : so.noRef = true) (hf : so.size ≤ f)
    (hd : d ≤ maxNestingDepth) (hdeep : maxNestingDepth < d + so.depth)
    (hrest : so.endsRegular = true → Terminated rest) :
    CS.parseOperand f d (so.render ++ rest) = none := by
  obtain ⟨f, rfl⟩ : ∃ f', f = f' + 1 := by
    cases f with
    | zero => cases so <;> simp [SObj.size] at hf
    | succ f' => exact ⟨f', rfl⟩
  match so with
  | .null _ => simp only [SObj.depth] at hdeep; omega
  | .bool _ _ => simp only [SObj.depth] at hdeep; omega
  | .int _ _ _ _ => simp only [SObj.depth] at hdeep; omega
  | .real _ _ => simp only [SObj.depth] at hdeep; omega
  | .lit _ _ => simp only [SObj.depth] at hdeep; omega
  | .hex _ _ _ _ => simp only [SObj.depth] at hdeep; omega
  | .name _ _ => simp only [SObj.depth] at hdeep; omega
  | .ref _ _ _ _ _ => simp only [SObj.depth] at hdeep; omega
  | .arr pre items close =>
    simp only [SObj.Valid] at hv
    simp only [SObj.noRef] at hnr
    simp only [SObj.size] at hf
    simp only [SObj.depth] at hdeep
    simp only [SObj.render, List.append_assoc, List.cons_append, List.nil_append]
    have hs := skip_render pre hv.1 91 (renderList items ++ (renderSep close ++ 93 :: rest)) (by decide) (by decide)
    by_cases hlim : maxNestingDepth ≤ d
    · exact po_arr_deep f d _ _ hs hlim
    · rw [po_arr f d _ _ hs (by omega)]
      exact arr_deep items false close rest f (d + 1) [] hv.2.2 hnr hv.2.1 (by omega) (by omega) (by omega)
  | .dict pre kvs close =>
    simp only [SObj.Valid] at hv
    simp only [SObj.noRef] at hnr
    simp only [SObj.size] at hf
    simp only [SObj.depth] at hdeep
    simp only [SObj.render, List.append_assoc, List.cons_append, List.nil_append]
    have hs := skip_render pre hv.1 60 (60 :: (renderList kvs ++ (renderSep close ++ 62 :: 62 :: rest)))
      (by decide) (by decide)
    by_cases hlim : maxNestingDepth ≤ d
    · exact po_dict_deep f d _ _ hs hlim
    · rw [po_dict f d _ _ hs (by omega)]
      exact dict_deep kvs close rest f (d + 1) [] hv.2.2.1 hnr hv.2.1 hv.2.2.2 (by simp) (by omega) (by omega)
        (by omega)
theorem arr_deep (items : List SObj) (need : Bool) (close : Sep) (rest : Str) (f d : Nat) (acc : List Obj)
    (hv : ValidList need items) (hnr : noRefList items = true) (hc : SepOk close)
    (hf : sizeList items + 1 ≤ f) (hd : d ≤ maxNestingDepth)
    (hdeep : maxNestingDepth < d + sdepthList items) :
    CS.parseArray f d (renderList items ++ (renderSep close ++ 93 :: rest)) acc = none := by
  obtain ⟨f, rfl⟩ : ∃ f', f = f' + 1 := ⟨f - 1, by omega⟩
  match items with
  | [] => simp only [sdepthList] at hdeep; omega
  | x :: xs =>
    simp only [ValidList] at hv
    simp only [noRefList, Bool.and_eq_true] at hnr
    simp only [sizeList] at hf
    simp only [sdepthList] at hdeep
    simp only [renderList, List.append_assoc]
    have hT : Terminated (renderSep close ++ 93 :: rest) :=
      terminated_sep' close hc _ (terminated_cons 93 _ (by decide))
    have hrest : x.endsRegular = true → Terminated (renderList xs ++ (renderSep close ++ 93 :: rest)) := by
      intro he
      rw [he] at hv
      exact terminated_list xs hv.2 hnr.2 _ (fun _ => hT)
    obtain ⟨c, r, hs, h93, _⟩ := head_cases x need hv.1 hnr.1 _ hrest
    by_cases hx : d + x.depth ≤ maxNestingDepth
    · have hx' := op_rt x need _ f d hv.1 hnr.1 (by omega) hx hrest
      rw [pa_item f d _ acc c r _ _ hs h93 hx']
      exact arr_deep xs x.endsRegular close rest f d (acc ++ [x.value]) hv.2 hnr.2 hc (by omega) hd (by omega)
    · have hx' := op_deep x need _ f d hv.1 hnr.1 (by omega) hd (by omega) hrest
      exact pa_item_err f d _ acc c r hs h93 hx'
theorem dict_deep (kvs : List SObj) (close : Sep) (rest : Str) (f d : Nat) (acc : List (Str × Obj))
    (hv : ValidKVs kvs) (hnr : noRefList kvs = true) (hc : SepOk close)
    (hnd : (keysOf kvs).Nodup) (hfr : ∀ k ∈ keysOf kvs, k ∉ acc.map Prod.fst)
    (hf : sizeList kvs + 1 ≤ f) (hd : d ≤ maxNestingDepth)
    (hdeep : maxNestingDepth < d + sdepthList kvs) :
    CS.parseDict f d (renderList kvs ++ (renderSep close ++ 62 :: 62 :: rest)) acc = none := by
  obtain ⟨f, rfl⟩ : ∃ f', f = f' + 1 := ⟨f - 1, by omega⟩
  match kvs with
  | [] => simp only [sdepthList] at hdeep; omega
  | [_] => simp [ValidKVs] at hv
  | k :: v :: kvs' =>
    simp only [ValidKVs] at hv
    obtain ⟨hkn, hkv, hvv, hv'⟩ := hv
    simp only [noRefList, Bool.and_eq_true] at hnr
    obtain ⟨_, hnrv, hnr'⟩ := hnr
    simp only [sizeList] at hf
    simp only [keysOf, List.nodup_cons] at hnd
    match k, hkn, hkv with
    | .name pre ps, _, hkv =>
      simp only [SObj.Valid] at hkv
      simp only [sdepthList, SObj.depth] at hdeep
      simp only [keysOf, SObj.keyBytes, List.mem_cons, forall_eq_or_imp] at hfr hnd
      simp only [renderList, SObj.render, List.append_assoc, List.cons_append]
      have hT : Terminated (renderSep close ++ 62 :: 62 :: rest) :=
        terminated_sep' close hc _ (terminated_cons 62 _ (by decide))
      have hT' : Terminated (renderList kvs' ++ (renderSep close ++ 62 :: 62 :: rest)) := by
        match kvs', hv', hnr' with
        | [], _, _ => exact hT
        | [_], hv', _ => simp [ValidKVs] at hv'
        | k2 :: v2 :: r2, hv', hnr' =>
          simp only [ValidKVs] at hv'
          simp only [noRefList, Bool.and_eq_true] at hnr'
          simp only [renderList, List.append_assoc]
          refine terminated_render k2 false hv'.2.1 hnr'.1 _ (Or.inr ?_)
          cases k2 <;> simp [SObj.isName] at hv' <;> rfl
      have hY : Terminated (v.render ++ (renderList kvs' ++ (renderSep close ++ 62 :: 62 :: rest))) :=
        terminated_render v true hvv hnrv _ (Or.inl rfl)
      by_cases hx : d + v.depth ≤ maxNestingDepth
      · have hx' := op_rt v true _ f d hvv hnrv (by omega) hx (fun _ => hT')
        rw [pd_item f d pre hkv.1 ps hkv.2 _ hY acc _ _ hx', dictSet_fresh acc _ _ hfr.1]
        refine dict_deep kvs' close rest f d _ hv' hnr' hc hnd.2 ?_ (by omega) hd (by omega)
        intro k' hk'
        simp only [List.map_append, List.map_cons, List.map_nil, List.mem_append, List.mem_singleton, not_or]
        refine ⟨hfr.2 k' hk', ?_⟩
        intro e; subst e; exact hnd.1 hk'
      · have hx' := op_deep v true _ f d hvv hnrv (by omega) hd (by omega) (fun _ => hT')
        exact pd_item_err f d pre hkv.1 ps hkv.2 _ hY acc hx'
end

/-! ### the program level -/

theorem pl_operand (n fuel : Nat) (inp : Str) (stack : List Obj) (ops : List CS.Operation)
    (c : Nat) (r : Str) (o : Obj) (r' : Str) (hs : CS.skipSpace inp = c :: r)
    (hb : opBranch c r = false) (hp : CS.parseOperand fuel 0 inp = some (o, r')) :
    CS.parseLoop (n + 1) fuel inp stack ops = CS.parseLoop n fuel r' (stack ++ [o]) ops := by
  have hp' : CS.parseOperand fuel 0 (c :: r) = some (o, r') := by rw [← hs, po_skip, hp]
  have hb' : ¬ (((CS.isLetter c && !CS.isKeywordObject (CS.regularToken (c :: r))) || c = 39 || c = 34) = true) := by
    have : ((CS.isLetter c && !CS.isKeywordObject (CS.regularToken (c :: r))) || c = 39 || c = 34) = opBranch c r := rfl
    rw [this, hb]; simp
  rw [CS.parseLoop, hs]
  simp only [hb', hp', Bool.false_eq_true, if_false]

theorem pl_operand_err (n fuel : Nat) (inp : Str) (stack : List Obj) (ops : List CS.Operation)
    (c : Nat) (r : Str) (hs : CS.skipSpace inp = c :: r)
    (hb : opBranch c r = false) (hp : CS.parseOperand fuel 0 inp = none) :
    CS.parseLoop (n + 1) fuel inp stack ops = none := by
  have hp' : CS.parseOperand fuel 0 (c :: r) = none := by rw [← hs, po_skip, hp]
  have hb' : ¬ (((CS.isLetter c && !CS.isKeywordObject (CS.regularToken (c :: r))) || c = 39 || c = 34) = true) := by
    have : ((CS.isLetter c && !CS.isKeywordObject (CS.regularToken (c :: r))) || c = 39 || c = 34) = opBranch c r := rfl
    rw [this, hb]; simp
  rw [CS.parseLoop, hs]
  simp only [hb', hp', Bool.false_eq_true, if_false]

theorem opChar_regular (x : Nat) (h : CS.isOpChar true x = true) : (isWs x || isDelim x) = false := by
  simp only [CS.isOpChar, CS.isLetter, isDigit, Bool.or_eq_true, Bool.and_eq_true, decide_eq_true_eq,
    beq_iff_eq, Bool.true_and] at h
  simp only [isWs, isDelim, Bool.or_eq_false_iff, beq_eq_false_iff_ne]
  omega

theorem opStart_facts (c : Nat) (h : CS.isLetter c = true ∨ c = 39 ∨ c = 34) :
    CS.isOpChar false c = true ∧ CS.isOpChar true c = true := by
  rcases h with h | rfl | rfl
  · simp [CS.isOpChar, h]
  · decide
  · decide

theorem opName_tail (r T : Str) (hr : ∀ x ∈ r, CS.isOpChar true x = true) (hT : Terminated T) :
    CS.opName true (r ++ T) = (r, T) := by
  induction r with
  | nil =>
    rcases hT with rfl | ⟨x, t, rfl, hx⟩
    · rfl
    · have : CS.isOpChar true x = false := by
        cases h : CS.isOpChar true x with
        | false => rfl
        | true => rw [opChar_regular x h] at hx; cases hx
      simp [CS.opName, this]
  | cons x r ih =>
    have hx := hr x (by simp)
    simp only [List.cons_append, CS.opName, hx, if_true]
    rw [ih (fun y hy => hr y (by simp [hy]))]

theorem pl_operator (n fuel : Nat) (pre : Sep) (hp : SepOk pre) (op : Str) (hop : OpName op) (T : Str)
    (hT : Terminated T) (stack : List Obj) (ops : List CS.Operation) :
    CS.parseLoop (n + 1) fuel (renderSep pre ++ (op ++ T)) stack ops =
      CS.parseLoop n fuel T [] (ops ++ [{ op := op, operands := stack }]) := by
  obtain ⟨⟨c, r, rfl, hc, hr⟩, hk⟩ := hop
  obtain ⟨hc0, hc1⟩ := opStart_facts c hc
  have hreg : ∀ x ∈ c :: r, (isWs x || isDelim x) = false := by
    intro x hx
    rcases List.mem_cons.1 hx with rfl | hx
    · exact opChar_regular _ hc1
    · exact opChar_regular _ (hr x hx)
  have hcr := hreg c (by simp)
  simp only [Bool.or_eq_false_iff] at hcr
  have h37 : c ≠ 37 := by
    intro h; subst h; revert hcr; decide
  have hs : CS.skipSpace (renderSep pre ++ (c :: r ++ T)) = c :: (r ++ T) :=
    skip_render pre hp c _ hcr.1 h37
  have hname : CS.opName false (c :: (r ++ T)) = (c :: r, T) := by
    simp only [CS.opName, hc0, if_true, opName_tail r T hr hT]
  have htok : CS.regularToken (c :: (r ++ T)) = c :: r := regularToken_append (c :: r) T hreg hT
  have hb : ((CS.isLetter c && !CS.isKeywordObject (CS.regularToken (c :: (r ++ T)))) || c = 39 || c = 34) = true := by
    rw [htok, hk]
    rcases hc with h | rfl | rfl
    · simp [h]
    · decide
    · decide
  rw [CS.parseLoop, hs]
  simp only [hb, if_true, hname]
  simp

theorem pl_end (n fuel : Nat) (trail : Sep) (ht : SepOk trail) (stack : List Obj) (ops : List CS.Operation) :
    CS.parseLoop (n + 1) fuel (renderSep trail) stack ops = some ops := by
  have : CS.skipSpace (renderSep trail) = [] := by
    have := skipSpace_sep trail ht []
    rw [List.append_nil] at this
    rw [this, skipSpace_nil]
  rw [CS.parseLoop, this]

theorem pl_operands (xs : List SObj) (need : Bool) (T : Str) (fuel m : Nat) (stack : List Obj)
    (ops : List CS.Operation) (hv : ValidList need xs) (hnr : noRefList xs = true)
    (hsz : ∀ x ∈ xs, x.size ≤ fuel) (hdp : sdepthList xs ≤ maxNestingDepth)
    (hT : lastEndsRegular need xs = true → Terminated T) :
    CS.parseLoop (xs.length + m) fuel (renderList xs ++ T) stack ops =
      CS.parseLoop m fuel T (stack ++ valueList xs) ops := by
  induction xs generalizing need stack with
  | nil => simp [renderList, valueList]
  | cons x xs ih =>
    simp only [ValidList] at hv
    simp only [noRefList, Bool.and_eq_true] at hnr
    simp only [lastEndsRegular] at hT
    simp only [sdepthList] at hdp
    have hrest : x.endsRegular = true → Terminated (renderList xs ++ T) := by
      intro he
      rw [he] at hv hT
      exact terminated_list xs hv.2 hnr.2 T hT
    obtain ⟨c, r, hs, _, hb⟩ := head_cases x need hv.1 hnr.1 _ hrest
    have hx := op_rt x need _ fuel 0 hv.1 hnr.1 (hsz x (by simp)) (by omega) hrest
    have e : (x :: xs).length + m = (xs.length + m) + 1 := by simp only [List.length_cons]; omega
    simp only [renderList, List.append_assoc, valueList]
    rw [e, pl_operand _ fuel _ stack ops c r _ _ hs hb hx,
      ih x.endsRegular (stack ++ [x.value]) hv.2 hnr.2 (fun y hy => hsz y (by simp [hy])) (by omega) hT]
    simp

/-- an operand list one of whose members nests too deep stops the whole `Parse` -/
theorem pl_operands_deep (xs : List SObj) (need : Bool) (T : Str) (fuel m : Nat) (stack : List Obj)
    (ops : List CS.Operation) (hv : ValidList need xs) (hnr : noRefList xs = true)
    (hsz : ∀ x ∈ xs, x.size ≤ fuel) (hdeep : maxNestingDepth < sdepthList xs)
    (hT : lastEndsRegular need xs = true → Terminated T) :
    CS.parseLoop (xs.length + m) fuel (renderList xs ++ T) stack ops = none := by
  induction xs generalizing need stack with
  | nil => simp only [sdepthList] at hdeep; omega
  | cons x xs ih =>
    simp only [ValidList] at hv
    simp only [noRefList, Bool.and_eq_true] at hnr
    simp only [lastEndsRegular] at hT
    simp only [sdepthList] at hdeep
    have hrest : x.endsRegular = true → Terminated (renderList xs ++ T) := by
      intro he
      rw [he] at hv hT
      exact terminated_list xs hv.2 hnr.2 T hT
    obtain ⟨c, r, hs, _, hb⟩ := head_cases x need hv.1 hnr.1 _ hrest
    have e : (x :: xs).length + m = (xs.length + m) + 1 := by simp only [List.length_cons]; omega
    simp only [renderList, List.append_assoc]
    by_cases hx : x.depth ≤ maxNestingDepth
    · have hx' := op_rt x need _ fuel 0 hv.1 hnr.1 (hsz x (by simp)) (by omega) hrest
      rw [e, pl_operand _ fuel _ stack ops c r _ _ hs hb hx']
      exact ih x.endsRegular (stack ++ [x.value]) hv.2 hnr.2 (fun y hy => hsz y (by simp [hy])) (by omega) hT
    · have hx' := op_deep x need _ fuel 0 hv.1 hnr.1 (hsz x (by simp)) (Nat.zero_le _) (by omega) hrest
      rw [e]
      exact pl_operand_err _ fuel _ stack ops c r hs hb hx'

def countOps : List SOp → Nat
  | [] => 0
  | o :: os => o.operands.length + 1 + countOps os

theorem terminated_trail (trail : Sep) (ht : SepOk trail) : Terminated (renderSep trail) := by
  by_cases h : trail = []
  · subst h; exact Or.inl rfl
  · have := terminated_sep trail ht h []
    rwa [List.append_nil] at this

theorem terminated_ops (os : List SOp) (trail : Sep) (hv : ValidOps true os) (ht : SepOk trail) :
    Terminated (renderOps os ++ renderSep trail) := by
  cases os with
  | nil => exact terminated_trail trail ht
  | cons o os =>
    simp only [ValidOps] at hv
    obtain ⟨h1, h2, h3, h4, _, _⟩ := hv
    simp only [renderOps, SOp.render, List.append_assoc]
    exact terminated_list o.operands h1 h2 _ (fun h => terminated_sep o.pre h3 (h4 h) _)

theorem pl_ops (os : List SOp) (need : Bool) (trail : Sep) (fuel m : Nat) (acc : List CS.Operation)
    (hv : ValidOps need os) (ht : SepOk trail) (hsz : ∀ o ∈ os, ∀ x ∈ o.operands, x.size ≤ fuel)
    (hdp : ∀ o ∈ os, sdepthList o.operands ≤ maxNestingDepth) :
    CS.parseLoop (countOps os + (m + 1)) fuel (renderOps os ++ renderSep trail) [] acc =
      some (acc ++ os.map fun o => { op := o.op, operands := valueList o.operands }) := by
  induction os generalizing need acc with
  | nil => simp only [countOps, Nat.zero_add, renderOps, List.nil_append, List.map_nil, List.append_nil]
           exact pl_end m fuel trail ht [] acc
  | cons o os ih =>
    simp only [ValidOps] at hv
    obtain ⟨h1, h2, h3, h4, h5, h6⟩ := hv
    have hT := terminated_ops os trail h6 ht
    have e : countOps (o :: os) + (m + 1) = o.operands.length + ((countOps os + (m + 1)) + 1) := by
      simp only [countOps]; omega
    simp only [renderOps, SOp.render, List.append_assoc]
    rw [e, pl_operands o.operands need _ fuel _ [] acc h1 h2 (hsz o (by simp)) (hdp o (by simp))
        (fun h => terminated_sep o.pre h3 (h4 h) _),
      pl_operator _ fuel o.pre h3 o.op h5 _ hT,
      ih true _ h6 (fun o' ho' => hsz o' (by simp [ho'])) (fun o' ho' => hdp o' (by simp [ho']))]
    simp

/-- a program one of whose operands nests too deep: `Parse` fails -/
theorem pl_ops_deep (os : List SOp) (need : Bool) (trail : Sep) (fuel m : Nat) (acc : List CS.Operation)
    (hv : ValidOps need os) (ht : SepOk trail) (hsz : ∀ o ∈ os, ∀ x ∈ o.operands, x.size ≤ fuel)
    (hdeep : ∃ o ∈ os, maxNestingDepth < sdepthList o.operands) :
    CS.parseLoop (countOps os + (m + 1)) fuel (renderOps os ++ renderSep trail) [] acc = none := by
  induction os generalizing need acc with
  | nil => obtain ⟨o, ho, _⟩ := hdeep; cases ho
  | cons o os ih =>
    simp only [ValidOps] at hv
    obtain ⟨h1, h2, h3, h4, h5, h6⟩ := hv
    have hT := terminated_ops os trail h6 ht
    have e : countOps (o :: os) + (m + 1) = o.operands.length + ((countOps os + (m + 1)) + 1) := by
      simp only [countOps]; omega
    simp only [renderOps, SOp.render, List.append_assoc]
    by_cases hx : sdepthList o.operands ≤ maxNestingDepth
    · rw [e, pl_operands o.operands need _ fuel _ [] acc h1 h2 (hsz o (by simp)) hx
          (fun h => terminated_sep o.pre h3 (h4 h) _),
        pl_operator _ fuel o.pre h3 o.op h5 _ hT]
      refine ih true _ h6 (fun o' ho' => hsz o' (by simp [ho'])) ?_
      obtain ⟨o', ho', hd'⟩ := hdeep
      rcases List.mem_cons.1 ho' with rfl | ho'
      · omega
      · exact ⟨o', ho', hd'⟩
    · rw [e]
      exact pl_operands_deep o.operands need _ fuel _ [] acc h1 h2 (hsz o (by simp)) (by omega)
        (fun h => terminated_sep o.pre h3 (h4 h) _)

/-- the operand lists of a valid program are valid lists -/
theorem validOps_mem (os : List SOp) (need : Bool) (hv : ValidOps need os) (o : SOp) (ho : o ∈ os) :
    ∃ n, ValidList n o.operands := by
  induction os generalizing need with
  | nil => cases ho
  | cons p ps ih =>
    simp only [ValidOps] at hv
    rcases List.mem_cons.1 ho with rfl | ho
    · exact ⟨need, hv.1⟩
    · exact ih true hv.2.2.2.2.2 ho

/-! ### fuel and iteration budget -/

mutual
theorem size_le (so : SObj) : so.size + 1 ≤ 3 * so.render.length := by
  match so with
  | .null pre => simp [SObj.size, SObj.render, kwNull]; omega
  | .bool pre b => cases b <;> simp [SObj.size, SObj.render, kwTrue, kwFalse] <;> omega
  | .int pre plus z i =>
    obtain ⟨c, t, hc, _⟩ := printInt_head plus z i
    simp [SObj.size, SObj.render, hc]; omega
  | .real pre r =>
    have : 1 ≤ r.render.length := by
      simp only [RealSp.render, List.length_append, List.length_cons]; omega
    simp [SObj.size, SObj.render]; omega
  | .lit pre ps => simp [SObj.size, SObj.render, renderStr]; omega
  | .hex pre ps last w => simp [SObj.size, SObj.render, renderHex]; omega
  | .name pre ps => simp [SObj.size, SObj.render]; omega
  | .arr pre items close =>
    have := sizeList_le items
    simp [SObj.size, SObj.render]; omega
  | .dict pre kvs close =>
    have := sizeList_le kvs
    simp [SObj.size, SObj.render]; omega
  | .ref pre n g s1 s2 =>
    obtain ⟨d, ds, hd, _⟩ := Tabula.A1.dec_head n
    simp [SObj.size, SObj.render, hd]; omega
theorem sizeList_le (xs : List SObj) : sizeList xs ≤ 3 * (renderList xs).length := by
  match xs with
  | [] => simp [sizeList]
  | x :: xs =>
    have h1 := size_le x
    have h2 := sizeList_le xs
    simp [sizeList, renderList]; omega
end

theorem mem_size (xs : List SObj) (x : SObj) (h : x ∈ xs) : x.size ≤ 3 * (renderList xs).length := by
  induction xs with
  | nil => cases h
  | cons y ys ih =>
    simp only [renderList, List.length_append]
    rcases List.mem_cons.1 h with rfl | h
    · have := size_le x; omega
    · have := ih h; omega

theorem length_le (xs : List SObj) : xs.length ≤ (renderList xs).length := by
  induction xs with
  | nil => simp
  | cons y ys ih =>
    have := size_le y
    simp only [renderList, List.length_append, List.length_cons]; omega

theorem mem_ops_size (os : List SOp) (o : SOp) (ho : o ∈ os) (x : SObj) (hx : x ∈ o.operands) :
    x.size ≤ 3 * (renderOps os).length := by
  induction os with
  | nil => cases ho
  | cons p ps ih =>
    simp only [renderOps, SOp.render, List.length_append]
    rcases List.mem_cons.1 ho with rfl | ho
    · have := mem_size o.operands x hx; omega
    · have := ih ho; omega

theorem countOps_le (os : List SOp) (need : Bool) (hv : ValidOps need os) :
    countOps os ≤ (renderOps os).length := by
  induction os generalizing need with
  | nil => simp [countOps]
  | cons o os ih =>
    simp only [ValidOps] at hv
    obtain ⟨_, _, _, _, h5, h6⟩ := hv
    obtain ⟨⟨c, r, hop, _⟩, _⟩ := h5
    have h1 := length_le o.operands
    have h2 := ih true h6
    simp only [countOps, renderOps, SOp.render, List.length_append, hop, List.length_cons]; omega

end CSL

/-- one operand, any legal spelling, nested at most as deep as `p.depth` leaves room for -/
theorem cs_operand_roundtrip (so : SObj) (need : Bool) (rest : Str) (f d : Nat)
    (hv : so.Valid need) (hnr : so.noRef = true) (hf : so.size ≤ f)
    (hd : d + so.value.depth ≤ maxNestingDepth)
    (hrest : so.endsRegular = true → Terminated rest) :
    CS.parseOperand f d (so.render ++ rest) = some (so.value, rest) := by
  rw [value_depth so need hv] at hd
  exact CSL.op_rt so need rest f d hv hnr hf hd hrest

/-- … and one that needs more open containers than the limit allows is an error -/
theorem cs_operand_too_deep (so : SObj) (need : Bool) (rest : Str) (f d : Nat)
    (hv : so.Valid need) (hnr : so.noRef = true) (hf : so.size ≤ f)
    (hd : d ≤ maxNestingDepth) (hdeep : maxNestingDepth < d + so.value.depth)
    (hrest : so.endsRegular = true → Terminated rest) :
    CS.parseOperand f d (so.render ++ rest) = none := by
  rw [value_depth so need hv] at hdeep
  exact CSL.op_deep so need rest f d hv hnr hf hd hdeep hrest

/-- a whole program whose operands nest at most `maxNestingDepth` deep: operands are grouped with
the operator that follows them -/
theorem cs_roundtrip (ops : List SOp) (trail : Sep) (hv : ValidOps false ops) (ht : SepOk trail)
    (hd : ∀ o ∈ ops, Obj.depthList (valueList o.operands) ≤ maxNestingDepth) :
    CS.csParse (renderOps ops ++ renderSep trail) =
      some (ops.map fun o => { op := o.op, operands := valueList o.operands }) := by
  have hc := CSL.countOps_le ops false hv
  unfold CS.csParse CS.fuelFor
  obtain ⟨m, hm⟩ : ∃ m, (renderOps ops ++ renderSep trail).length + 2 = CSL.countOps ops + (m + 1) :=
    ⟨(renderOps ops ++ renderSep trail).length + 1 - CSL.countOps ops, by
      simp only [List.length_append]; omega⟩
  rw [hm, CSL.pl_ops ops false trail _ m [] hv ht ?_ ?_]
  · simp
  · intro o ho x hx
    have := CSL.mem_ops_size ops o ho x hx
    simp only [List.length_append]; omega
  · intro o ho
    obtain ⟨n, hn⟩ := CSL.validOps_mem ops false hv o ho
    rw [← valueList_depth o.operands n hn]
    exact hd o ho

/-- a whole program one of whose operands nests deeper than `maxNestingDepth`: `Parse` fails -/
theorem cs_too_deep (ops : List SOp) (trail : Sep) (hv : ValidOps false ops) (ht : SepOk trail)
    (hd : ∃ o ∈ ops, maxNestingDepth < Obj.depthList (valueList o.operands)) :
    CS.csParse (renderOps ops ++ renderSep trail) = none := by
  have hc := CSL.countOps_le ops false hv
  unfold CS.csParse CS.fuelFor
  obtain ⟨m, hm⟩ : ∃ m, (renderOps ops ++ renderSep trail).length + 2 = CSL.countOps ops + (m + 1) :=
    ⟨(renderOps ops ++ renderSep trail).length + 1 - CSL.countOps ops, by
      simp only [List.length_append]; omega⟩
  rw [hm]
  refine CSL.pl_ops_deep ops false trail _ m [] hv ht ?_ ?_
  · intro o ho x hx
    have := CSL.mem_ops_size ops o ho x hx
    simp only [List.length_append]; omega
  · obtain ⟨o, ho, hdo⟩ := hd
    obtain ⟨n, hn⟩ := CSL.validOps_mem ops false hv o ho
    rw [valueList_depth o.operands n hn] at hdo
    exact ⟨o, ho, hdo⟩

theorem nestArr_noRef (k : Nat) (so : SObj) (h : so.noRef = true) : (nestArr k so).noRef = true := by
  induction k with
  | zero => exact h
  | succ k ih => simp [nestArr, SObj.noRef, noRefList, ih]

theorem nestDict_noRef (k : Nat) (so : SObj) (h : so.noRef = true) : (nestDict k so).noRef = true := by
  induction k with
  | zero => exact h
  | succ k ih => simp [nestDict, SObj.noRef, noRefList, ih]

end Tabula.Pdf
