import TabulaModel.Lemmas.HtmlBlocks
import TabulaModel.Lemmas.HtmlApi
/-!
Helper lemmas for C19 (Props/C19Md.lean): the Markdown view up to white space as a function
of the blocks; heading levels of a parsed document.
-/
namespace Tabula.Html

/-- what one block looks like in the Markdown view (indentation and separators aside) -/
def Block.md (hl : Nat → Nat) : Block → Str
  | .heading l t => hashes (hl l) ++ [32] ++ t
  | .para t => t
  | .item _ t o => (if o then [49, 46, 32] else [45, 32]) ++ t
  | .table _ rows => tableToMarkdown rows
  | .code t => [96, 96, 96, 10] ++ t ++ [10, 96, 96, 96]
  | .quote t => mdQuote t

theorem squeeze_mdItems (hl : Nat → Nat) : ∀ (items : List Item) (first : Bool),
    squeeze (mdItems items first) = items.flatMap fun i => squeeze ((itemBlock i).md hl)
  | [], _ => rfl
  | i :: rest, first => by
      simp only [mdItems, squeeze_append, squeeze_spaces, squeeze_mdItems hl rest false,
        List.flatMap_cons, itemBlock, Block.md]
      have h1 : squeeze (if first = true then [] else [10]) = [] := by split <;> rfl
      rw [h1]; simp

theorem items_md (hl : Nat → Nat) (items : List Item) :
    (items.map itemBlock).flatMap (fun b => squeeze (b.md hl)) =
      items.flatMap fun i => squeeze ((itemBlock i).md hl) := by
  induction items with
  | nil => rfl
  | cons i rest ih => simp [List.flatMap_cons, ih]

/-- Up to white space the Markdown view is a function of the blocks alone. -/
theorem squeeze_renderMd (hl : Nat → Nat) : ∀ (els : List Element) (acc : Str),
    squeeze (renderMd hl els acc) = squeeze acc ++ (flattenB els).flatMap fun b => squeeze (b.md hl)
  | [], acc => by simp [renderMd, flattenB]
  | e :: rest, acc => by
      have hf : flattenB (e :: rest) = e.blocks ++ flattenB rest := by simp [flattenB]
      rw [hf, List.flatMap_append, ← List.append_assoc]
      unfold renderMd
      simp only []
      rw [squeeze_renderMd hl rest]
      congr 1
      cases e with
      | heading l t => simp [squeeze_append, squeeze_sep, Element.blocks, Block.md]
      | para t => simp [squeeze_append, squeeze_sep, Element.blocks, Block.md]
      | code t => simp [squeeze_append, squeeze_sep, Element.blocks, Block.md]
      | quote t => simp [squeeze_append, squeeze_sep, Element.blocks, Block.md]
      | list o items =>
        simp only [squeeze_append, squeeze_sep, Element.blocks, squeeze_mdItems hl, items_md,
          List.append_nil]
      | table hd rows =>
        simp only [Element.blocks, List.flatMap_cons, List.flatMap_nil, List.append_nil, Block.md]
        by_cases hr : rows = []
        · simp [hr, tableToMarkdown_nil, squeeze]
        · simp only [hr, if_false, squeeze_append, squeeze_sep, List.append_nil]

/-! ### heading levels -/

theorem classify_heading (tag : Str) (l : Nat) (h : classify tag = .heading l) : 1 ≤ l ∧ l ≤ 6 := by
  unfold classify at h
  by_cases h1 : tag = T.h1
  · rw [if_pos h1] at h; cases h; omega
  rw [if_neg h1] at h
  by_cases h2 : tag = T.h2
  · rw [if_pos h2] at h; cases h; omega
  rw [if_neg h2] at h
  by_cases h3 : tag = T.h3
  · rw [if_pos h3] at h; cases h; omega
  rw [if_neg h3] at h
  by_cases h4 : tag = T.h4
  · rw [if_pos h4] at h; cases h; omega
  rw [if_neg h4] at h
  by_cases h5 : tag = T.h5
  · rw [if_pos h5] at h; cases h; omega
  rw [if_neg h5] at h
  by_cases h6 : tag = T.h6
  · rw [if_pos h6] at h; cases h; omega
  rw [if_neg h6] at h
  iterate 9 (split at h; · cases h)
  cases h

def Block.levelOk : Block → Prop
  | .heading l _ => 1 ≤ l ∧ l ≤ 6
  | _ => True

theorem runBlocks_levelOk (run : Str) : ∀ b ∈ runBlocks run, b.levelOk := by
  intro b hb
  unfold runBlocks at hb
  split at hb
  · simp only [List.mem_singleton] at hb
    subst hb; trivial
  · cases hb

mutual
theorem blocks_levelOk (p : Pos → Dom → Bool) (w : Bool) :
    ∀ (t : Dom) (pos : Pos) (lc : LCB), ∀ b ∈ blocks p w pos lc t, b.levelOk
  | .text _, pos, lc => by simp [blocks]
  | .other kids, pos, lc => by
      simp only [blocks]; exact blocksL_levelOk p w kids _ lc
  | .elem tag attrs kids, pos, lc => by
      unfold blocks
      by_cases hs : isSkip tag = true
      · simp [hs]
      · by_cases hp : p pos (.elem tag attrs kids) = true
        · simp [hs, hp]
        · simp only [hs, hp, if_false, Bool.false_eq_true]
          cases hc : classify tag with
          | heading lvl =>
            simp only []
            intro b hb
            split at hb
            · simp only [List.mem_singleton] at hb
              subst hb
              exact classify_heading tag lvl hc
            · cases hb
          | pdiv isP =>
            simp only []
            intro b hb
            split at hb
            · simp only [List.mem_singleton] at hb
              subst hb; trivial
            · exact blocksM_levelOk p w kids _ lc [] b hb
          | list ord => simp only []; exact blocksL_levelOk p w kids _ _
          | li =>
            simp only []
            intro b hb
            rw [List.mem_append] at hb
            rcases hb with hb | hb
            · split at hb
              · simp only [List.mem_singleton] at hb
                subst hb; trivial
              · cases hb
            · exact blocksLi_levelOk p w kids _ _ b hb
          | table =>
            simp only []
            intro b hb
            split at hb
            · simp only [List.mem_singleton] at hb
              subst hb; trivial
            · cases hb
          | code =>
            simp only []
            intro b hb
            split at hb
            · simp only [List.mem_singleton] at hb
              subst hb; trivial
            · cases hb
          | quote =>
            simp only []
            intro b hb
            split at hb
            · simp only [List.mem_singleton] at hb
              subst hb; trivial
            · cases hb
          | void => simp
          | other => simp only []; exact blocksL_levelOk p w kids _ lc
theorem blocksL_levelOk (p : Pos → Dom → Bool) (w : Bool) :
    ∀ (ts : List Dom) (kp : Pos) (lc : LCB), ∀ b ∈ blocksL p w kp lc ts, b.levelOk
  | [], kp, lc => by simp [blocksL]
  | k :: ks, kp, lc => by
      simp only [blocksL]
      intro b hb
      rw [List.mem_append] at hb
      rcases hb with hb | hb
      · exact blocks_levelOk p w k kp lc b hb
      · exact blocksL_levelOk p w ks kp lc b hb
theorem blocksLi_levelOk (p : Pos → Dom → Bool) (w : Bool) :
    ∀ (ts : List Dom) (kp : Pos) (lc : LCB), ∀ b ∈ blocksLi p w kp lc ts, b.levelOk
  | [], kp, lc => by simp [blocksLi]
  | k :: ks, kp, lc => by
      simp only [blocksLi]
      intro b hb
      rw [List.mem_append] at hb
      rcases hb with hb | hb
      · split at hb
        · exact blocks_levelOk p w k kp lc b hb
        · cases hb
      · exact blocksLi_levelOk p w ks kp lc b hb
theorem blocksM_levelOk (p : Pos → Dom → Bool) (w : Bool) :
    ∀ (ts : List Dom) (kp : Pos) (lc : LCB) (run : Str), ∀ b ∈ blocksM p w kp lc ts run, b.levelOk
  | [], kp, lc, run => by
      simp only [blocksM]
      intro b hb
      exact runBlocks_levelOk run b hb
  | k :: ks, kp, lc, run => by
      simp only [blocksM]
      intro b hb
      split at hb
      · exact blocksM_levelOk p w ks kp lc _ b hb
      · rw [List.mem_append, List.mem_append] at hb
        rcases hb with (hb | hb) | hb
        · exact runBlocks_levelOk run b hb
        · exact blocks_levelOk p w k kp lc b hb
        · exact blocksM_levelOk p w ks kp lc [] b hb
end

/-- the view only reads `hl` at the levels of the heading elements -/
theorem renderMd_congr (hl1 hl2 : Nat → Nat) : ∀ (els : List Element) (acc : Str),
    (∀ l t, Element.heading l t ∈ els → hl1 l = hl2 l) → renderMd hl1 els acc = renderMd hl2 els acc
  | [], acc, _ => rfl
  | e :: rest, acc, h => by
      have hr : ∀ l t, Element.heading l t ∈ rest → hl1 l = hl2 l :=
        fun l t hm => h l t (List.mem_cons_of_mem _ hm)
      unfold renderMd
      cases e with
      | heading l t =>
        simp only []
        rw [h l t (List.mem_cons_self), renderMd_congr hl1 hl2 rest _ hr]
      | para t => simp only []; exact renderMd_congr hl1 hl2 rest _ hr
      | code t => simp only []; exact renderMd_congr hl1 hl2 rest _ hr
      | quote t => simp only []; exact renderMd_congr hl1 hl2 rest _ hr
      | list o items => simp only []; exact renderMd_congr hl1 hl2 rest _ hr
      | table hd rows => simp only []; exact renderMd_congr hl1 hl2 rest _ hr

theorem heading_mem_flattenB (els : List Element) (l : Nat) (t : Str) (h : Element.heading l t ∈ els) :
    Block.heading l t ∈ flattenB els := by
  unfold flattenB
  rw [List.mem_flatMap]
  exact ⟨_, h, by simp [Element.blocks]⟩

/-- every heading element of a parsed document has a level 1..6 -/
theorem extract_heading_levels (p : Pos → Dom → Bool) (body : Dom) (l : Nat) (t : Str)
    (h : Element.heading l t ∈ extractWith p body) : 1 ≤ l ∧ l ≤ 6 := by
  have hb := heading_mem_flattenB _ l t h
  rw [extract_blocks] at hb
  exact blocks_levelOk p _ body _ _ _ hb

end Tabula.Html
