import TabulaModel.Lemmas.XrefLines
/-!
`FindXRef` on a file that ends the way ISO 32000-1 7.5.5 prescribes.
-/
namespace Tabula.XrefFile
open Tabula.XrefBytes Tabula.A1

theorem afterLast_none_of_no_s (x : Str) (h : 115 ∉ x) : afterLast kwStartxref x = none := by
  induction x with
  | nil => rfl
  | cons c r ih =>
    have hc : c ≠ 115 := fun e => h (by simp [e])
    have hr : 115 ∉ r := fun m => h (by simp [m])
    simp only [afterLast, ih hr]
    have : kwStartxref.isPrefixOf (c :: r) = false := by
      simp [kwStartxref, List.isPrefixOf, hc]
      intro e; exact absurd e.symm hc
    simp [this]

theorem afterLast_append (pat a b t : Str) (h : afterLast pat b = some t) : afterLast pat (a ++ b) = some t := by
  induction a with
  | nil => exact h
  | cons c a ih => simp [afterLast, ih]

/-- behind the keyword nothing can start another `startxref` when no `s` follows -/
theorem afterLast_keyword (x : Str) (h : 115 ∉ x) : afterLast kwStartxref (kwStartxref ++ x) = some x := by
  have hx := afterLast_none_of_no_s x h
  unfold kwStartxref at hx ⊢
  simp [afterLast, hx, List.isPrefixOf]

theorem normEolAux_eol (e : Eol) (r : Str) :
    normEolAux false (e.bytes ++ r) = 10 :: normEolAux (decide (e = .cr)) r := by
  cases e <;> simp [Eol.bytes, normEolAux]

theorem normEolAux_digits (ds : Str) (h : IsDigits ds) (hne : ds ≠ []) (b : Bool) (r : Str) :
    normEolAux b (ds ++ r) = ds ++ normEolAux false r := by
  induction ds generalizing b with
  | nil => exact absurd rfl hne
  | cons d ds ih =>
    have hd := h d (by simp)
    have h13 : d ≠ 13 := by omega
    have h10 : d ≠ 10 := by omega
    simp only [List.cons_append, normEolAux, h13, h10, if_false, false_and]
    cases ds with
    | nil => simp
    | cons x xs =>
      rw [ih (fun c hc => h c (by simp [hc])) (by simp)]

theorem takeWhile_digits (ds : Str) (h : IsDigits ds) (r : Str) :
    (ds ++ 10 :: r).takeWhile (· ≠ 10) = ds := by
  induction ds with
  | nil => simp
  | cons d ds ih =>
    have hd := h d (by simp)
    have h10 : d ≠ 10 := by omega
    simp only [List.cons_append, List.takeWhile_cons, ne_eq, h10, not_false_eq_true, decide_true, if_true]
    rw [ih (fun c hc => h c (by simp [hc]))]

theorem drop_window (body s : Str) (h : s.length ≤ 1024) :
    ∃ body', (body ++ s).drop ((body ++ s).length - 1024) = body' ++ s := by
  refine ⟨body.drop ((body ++ s).length - 1024), ?_⟩
  rw [List.drop_append_of_le_length (by simp; omega)]

end Tabula.XrefFile
