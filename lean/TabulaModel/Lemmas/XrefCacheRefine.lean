import TabulaModel.Lemmas.XrefCacheSpec
import TabulaModel.Lemmas.XrefObjStm
/-!
# The reader's caches never change an answer: `XrefC.getC` refines `XrefC.getD`

Invariant `CInv`: every binding of `objCache` is an answer of a fresh reader together with the
nested loads it needs (`objNeed`), every binding of `objStmCache` is the stream a fresh reader
would load, with the nested loads that takes (`stmNeed`), and its wrapper's state is sound.
Under the invariant, `GetObject(n)` with `loading` being loaded answers what the cache-free
lookup answers with the remaining budget - a cache hit being counted as the load it stands
for -, keeps the invariant, and leaves `reach` where a real load would have left it.
-/
namespace Tabula.XrefC
open Tabula.Pdf (Obj)
open Tabula.Reader (Dict dget PVal)
open Tabula.XrefFile

/-- the wrapper state of a cached object stream is sound for what decoding the stream yields -/
def OSGood (dec : Except Reader.Err Reader.ObjStm) (sk : OSStateK) : Prop :=
  ∃ s0 : OSState, OSRel dec sk s0 ∧ OSOk dec s0

theorem osGood_empty (dec : Except Reader.Err Reader.ObjStm) : OSGood dec {} :=
  ⟨{}, osRel_empty dec, osOk_empty dec⟩

theorem osGood_step (keep : Bool) (dec : Except Reader.Err Reader.ObjStm) (sk : OSStateK) (idx : Int)
    (h : OSGood dec sk) :
    (osGetByIndexK keep dec sk idx).1 = osSpec dec idx ∧ OSGood dec (osGetByIndexK keep dec sk idx).2 := by
  obtain ⟨s0, hrel, hok⟩ := h
  have h1 := osGetByIndexK_rel keep dec sk s0 idx hrel
  have h2 := osGetByIndex_spec dec s0 idx hok
  exact ⟨h1.1.trans h2.1, _, h1.2, h2.2⟩

/-- `getCompressedObject`'s number check on what the wrapper answers is `memberAtI` -/
theorem member_of_osSpec (dec : Except Reader.Err Reader.ObjStm) (n idx : Int) :
    (match osSpec dec idx with
     | none => (none : Option PVal)
     | some (num, o) => if num = n then some (.obj o) else none) =
    (match dec with
     | .ok os => (memberAtI os n idx).map .obj
     | .error _ => none) := by
  cases dec with
  | error e => rfl
  | ok os =>
    simp only [osSpec, memberAtI]
    by_cases hneg : idx < 0
    · simp only [hneg, if_true, Option.map_none]
    · simp only [hneg, if_false]
      cases Reader.memberSlice os idx.toNat with
      | none => rfl
      | some p =>
        obtain ⟨num, bytes⟩ := p
        simp only
        cases Tabula.Pdf.coreParse bytes with
        | error _ => rfl
        | ok r =>
          obtain ⟨o, s'⟩ := r
          simp only
          by_cases hn : num = n
          · simp only [hn, if_true, Option.map_some]
          · simp only [hn, if_false, Option.map_none]

/-- `core.NewObjectStream` refuses what `mkObjStm` refuses in front of the decoding -/
theorem mkObjStm_of_not_ok (ext : Reader.Ext) (kv : Dict) (data : Str) (h : newObjStmOk kv = false) :
    ∃ e, Reader.mkObjStm ext kv data = .error e := by
  unfold newObjStmOk at h
  unfold Reader.mkObjStm
  split at h
  · rename_i t n first h1 h2 h3
    simp only [h1, h2, h3]
    split at h
    · rename_i hc
      simp only [hc, if_true]
      exact ⟨_, rfl⟩
    · cases h
  · rename_i hx
    split
    · rename_i t n first h1 h2 h3
      exact absurd h3 (hx _ _ _ h1 h2)
    · exact ⟨_, rfl⟩


section
variable (ext : Reader.Ext) (file : Str) (x : RawSection)

/-- `getObjectStream(s)` on a fresh reader with `b` nested loads allowed below it: the stream
the wrapper is made of, and the nested loads its loading takes -/
def stmD (b : Nat) (s : Int) : Option (Dict × Str × Nat) :=
  match getLastI x s with
  | none => none
  | some xe =>
    if xe.kind = .compressed then none
    else
      match plainD file (getD ext file x b) s xe.f1 with
      | some (.stream kv data, j) => if newObjStmOk kv then some (kv, data, j) else none
      | _ => none

/-- an `objStmCache` binding is what a fresh reader would load -/
def StmOk (s : Int) (se : StmEntry) : Prop :=
  stmD ext file x se.need s = some (se.kv, se.data, se.need) ∧
    OSGood (Reader.mkObjStm ext se.kv se.data) se.os

/-- the invariant of the reader's caches -/
structure CInv (st : RSt) : Prop where
  obj : ∀ n v k, st.obj.lookup n = some (v, k) → getD ext file x k n = some (v, k)
  stm : ∀ s se, st.stm.lookup s = some se → StmOk ext file x s se

theorem cinv_empty (reach : Nat) : CInv ext file x { reach := reach } :=
  ⟨fun n v k h => by simp [List.lookup] at h, fun s se h => by simp [List.lookup] at h⟩

/-- `reach` is no part of the invariant -/
theorem cinv_reach {st : RSt} (h : CInv ext file x st) (r : Nat) : CInv ext file x { st with reach := r } :=
  ⟨h.obj, h.stm⟩

theorem cinv_clear (st : RSt) : CInv ext file x (clearC st) := cinv_empty ext file x _

/-- the answer of `plainD` at any budget, from its answer at the budget that equals the need -/
theorem plainD_at_budget {n off : Int} {w : PVal} {k : Nat}
    (h : plainD file (getD ext file x k) n off = some (w, k)) (b : Nat) :
    plainD file (getD ext file x b) n off = if k ≤ b then some (w, k) else none := by
  by_cases hk : k ≤ b
  · simp only [hk, if_true]
    exact plainD_transfer h (fun m v hm => getD_mono_le ext file x k b hk m _ hm)
  · simp only [hk, if_false]
    unfold plainD at h ⊢
    cases hu : uncompressedAtK file n off with
    | fin r =>
      rw [hu] at h
      cases r with
      | none => rfl
      | some v =>
        simp only [Option.map_some, Option.some.injEq, Prod.mk.injEq] at h
        omega
    | ask m kk =>
      rw [hu] at h
      simp only at h ⊢
      cases hm : getD ext file x k m with
      | none => rw [hm] at h; cases h
      | some r =>
        obtain ⟨v, j⟩ := r
        rw [hm] at h
        simp only at h
        cases hkv : kk (lenInt (some v)) with
        | none => rw [hkv] at h; cases h
        | some w' =>
          rw [hkv] at h
          simp only [Option.map_some, Option.some.injEq, Prod.mk.injEq] at h
          obtain ⟨_, hj⟩ := h
          subst hj
          rw [getD_below_need ext file x j b m v j hm (by omega)]

theorem stmD_at_budget {s : Int} {kv : Dict} {data : Str} {k : Nat}
    (h : stmD ext file x k s = some (kv, data, k)) (b : Nat) :
    stmD ext file x b s = if k ≤ b then some (kv, data, k) else none := by
  unfold stmD at h ⊢
  cases hx : getLastI x s with
  | none => rw [hx] at h; cases h
  | some xe =>
    rw [hx] at h
    simp only at h ⊢
    by_cases hc : xe.kind = .compressed
    · simp only [hc, if_true] at h; cases h
    · simp only [hc, if_false] at h ⊢
      cases hp : plainD file (getD ext file x k) s xe.f1 with
      | none => rw [hp] at h; cases h
      | some r =>
        obtain ⟨sv, j⟩ := r
        rw [hp] at h
        cases sv with
        | obj o => cases h
        | stream kv' data' =>
          simp only at h
          by_cases hok : newObjStmOk kv' = true
          · simp only [hok, if_true, Option.some.injEq, Prod.mk.injEq] at h
            obtain ⟨h1, h2, h3⟩ := h
            subst h1 h2 h3
            rw [plainD_at_budget ext file x hp b]
            by_cases hk : j ≤ b
            · simp only [hk, if_true, hok]
            · simp only [hk, if_false]
          · simp only [hok] at h; cases h

/-- the compressed arm of `getD` through `stmD` -/
theorem stepD_compressed (b : Nat) (n : Int) (e : RawEntry) (he : getLastI x n = some e)
    (hfree : ¬ e.kind = .free) (hin : ¬ e.kind = .inUse) :
    stepD ext file x (getD ext file x b) n =
      match stmD ext file x b e.f1 with
      | none => none
      | some (kv, data, j) =>
        match Reader.mkObjStm ext kv data with
        | .ok os => (memberAtI os n e.f2).map fun o => (.obj o, j + 1)
        | .error _ => none := by
  unfold stepD stmD
  simp only [he, hfree, hin, if_false]
  cases hx : getLastI x e.f1 with
  | none => rfl
  | some xe =>
    simp only
    by_cases hc : xe.kind = .compressed
    · simp only [hc, if_true]
    · simp only [hc, if_false]
      cases hp : plainD file (getD ext file x b) e.f1 xe.f1 with
      | none => rfl
      | some r =>
        obtain ⟨sv, j⟩ := r
        cases sv with
        | obj o => rfl
        | stream kv data =>
          simp only
          by_cases hok : newObjStmOk kv = true
          · simp only [hok, if_true]
            cases Reader.mkObjStm ext kv data <;> rfl
          · have hok' : newObjStmOk kv = false := by simpa using hok
            obtain ⟨err, herr⟩ := mkObjStm_of_not_ok ext kv data hok'
            simp only [hok', herr]
            rfl

/-- what the nested `GetObject` must do for object `m` at nesting `Lnow` with budget `b` -/
def NestedOk (nested : Int → RSt → Option PVal × RSt) (Lnow b : Nat) (m : Int) : Prop :=
  ∀ s, CInv ext file x s →
    (nested m s).1 = (getD ext file x b m).map Prod.fst ∧ CInv ext file x (nested m s).2 ∧
    ∀ v j, getD ext file x b m = some (v, j) → (nested m s).2.reach = max s.reach (Lnow + j)

/-- `getUncompressedObject` on the reader's state -/
theorem loadAtC_refines (nested : Int → RSt → Option PVal × RSt) (Lnow b : Nat) (n off : Int) (st : RSt)
    (hst : CInv ext file x st) (hr : Lnow ≤ st.reach)
    (hn : ∀ m, (uncompressedAtK file n off).asked = some m → NestedOk ext file x nested Lnow b m) :
    (loadAtC file nested n off st).1 = (plainD file (getD ext file x b) n off).map Prod.fst ∧
    CInv ext file x (loadAtC file nested n off st).2 ∧
    ∀ w j, plainD file (getD ext file x b) n off = some (w, j) →
      (loadAtC file nested n off st).2.reach = max st.reach (Lnow + j) := by
  unfold loadAtC plainD
  cases hu : uncompressedAtK file n off with
  | fin r =>
    simp only
    refine ⟨by cases r <;> rfl, hst, ?_⟩
    intro w j hj
    cases r with
    | none => cases hj
    | some v =>
      simp only [Option.map_some, Option.some.injEq, Prod.mk.injEq] at hj
      obtain ⟨_, hj⟩ := hj
      subst hj
      omega
  | ask m k =>
    rw [hu] at hn
    obtain ⟨h1, h2, h3⟩ := hn m rfl st hst
    simp only
    refine ⟨?_, h2, ?_⟩
    · rw [h1]
      cases hg : getD ext file x b m with
      | none => simp only [Option.map_none, lenInt, uncompressedAtK_ask_none hu]
      | some r =>
        obtain ⟨v, j⟩ := r
        simp only [Option.map_some]
        cases k (lenInt (some v)) <;> rfl
    · intro w j hj
      cases hg : getD ext file x b m with
      | none => rw [hg] at hj; cases hj
      | some r =>
        obtain ⟨v, j'⟩ := r
        rw [hg] at hj
        simp only at hj
        cases hkv : k (lenInt (some v)) with
        | none => rw [hkv] at hj; cases hj
        | some w' =>
          rw [hkv] at hj
          simp only [Option.map_some, Option.some.injEq, Prod.mk.injEq] at hj
          obtain ⟨_, hj⟩ := hj
          subst hj
          exact h3 v j' hg

theorem plainD_to_need {n off : Int} {w : PVal} {j b : Nat}
    (h : plainD file (getD ext file x b) n off = some (w, j)) :
    plainD file (getD ext file x j) n off = some (w, j) :=
  plainD_transfer h (fun m v hm => getD_threshold ext file x b m v j hm)

theorem lookup_cons_eq {α : Type} (k k' : Int) (v : α) (l : List (Int × α)) :
    List.lookup k ((k', v) :: l) = if k = k' then some v else List.lookup k l := by
  simp only [List.lookup]
  by_cases h : k = k'
  · subst h; simp
  · have : (k == k') = false := by simpa using h
    simp [this, h]

/-- `getObjectStream` on the reader's state -/
theorem openStmC_refines (nested : Int → RSt → Option PVal × RSt) (Lnow b : Nat)
    (hLb : Lnow + b = maxNestedLoads) (s : Int) (st : RSt)
    (hst : CInv ext file x st) (hr : Lnow ≤ st.reach)
    (hn : ∀ xe, getLastI x s = some xe → ¬ xe.kind = .compressed →
      ∀ m, (uncompressedAtK file s xe.f1).asked = some m → NestedOk ext file x nested Lnow b m) :
    ((openStmC file x nested Lnow s st).1.map fun se => (se.kv, se.data, se.need)) = stmD ext file x b s ∧
    CInv ext file x (openStmC file x nested Lnow s st).2 ∧
    ∀ se, (openStmC file x nested Lnow s st).1 = some se →
      StmOk ext file x s se ∧ (openStmC file x nested Lnow s st).2.reach = max st.reach (Lnow + se.need) := by
  unfold openStmC
  cases hl : st.stm.lookup s with
  | some se =>
    obtain ⟨hsd, hos⟩ := hst.stm s se hl
    simp only [nestCached]
    rw [stmD_at_budget ext file x hsd b]
    by_cases hk : se.need ≤ b
    · have hlt : ¬ maxNestedLoads < Lnow + se.need := by omega
      simp only [hlt, if_false, if_true, Option.map_some, hk]
      refine ⟨trivial, cinv_reach ext file x hst _, ?_⟩
      intro se' hse'
      simp only [Option.some.injEq] at hse'
      subst hse'
      exact ⟨⟨hsd, hos⟩, rfl⟩
    · have hlt : maxNestedLoads < Lnow + se.need := by omega
      simp only [hlt, if_true, hk, if_false, Bool.false_eq_true, Option.map_none]
      exact ⟨trivial, hst, fun se' h => by cases h⟩
  | none =>
    simp only
    unfold stmD
    cases hx : getLastI x s with
    | none => exact ⟨rfl, hst, fun se' h => by cases h⟩
    | some xe =>
      simp only
      by_cases hc : xe.kind = .compressed
      · simp only [hc, if_true]
        exact ⟨rfl, hst, fun se' h => by cases h⟩
      · simp only [hc, if_false]
        obtain ⟨h1, h2, h3⟩ := loadAtC_refines ext file x nested Lnow b s xe.f1 { st with reach := Lnow }
          (cinv_reach ext file x hst _) (Nat.le_refl _) (hn xe hx hc)
        generalize loadAtC file nested s xe.f1 { st with reach := Lnow } = r at h1 h2 h3
        obtain ⟨r1, r2⟩ := r
        simp only at h1 h2 h3 ⊢
        cases hp : plainD file (getD ext file x b) s xe.f1 with
        | none =>
          rw [hp] at h1
          simp only [Option.map_none] at h1
          subst h1
          exact ⟨rfl, cinv_reach ext file x h2 _, fun se' h => by cases h⟩
        | some pr =>
          obtain ⟨sv, j⟩ := pr
          rw [hp] at h1
          simp only [Option.map_some] at h1
          subst h1
          cases sv with
          | obj o => exact ⟨rfl, cinv_reach ext file x h2 _, fun se' h => by cases h⟩
          | stream kv data =>
            simp only
            have hreach : r2.reach = Lnow + j := by
              have := h3 _ j hp
              omega
            by_cases hok : newObjStmOk kv = true
            · simp only [hok, if_true, Option.map_some]
              have hneed : r2.reach - Lnow = j := by omega
              have hsd : stmD ext file x j s = some (kv, data, j) := by
                unfold stmD
                simp only [hx, hc, if_false, plainD_to_need ext file x hp, hok, if_true]
              refine ⟨by rw [hneed], ?_, ?_⟩
              · constructor
                · exact h2.obj
                · intro s' se' hl'
                  simp only [lookup_cons_eq] at hl'
                  by_cases hs : s' = s
                  · subst hs
                    simp only [if_true, Option.some.injEq] at hl'
                    subst hl'
                    exact ⟨by simp only [hneed]; exact hsd, osGood_empty _⟩
                  · simp only [hs, if_false] at hl'
                    exact h2.stm s' se' hl'
              · intro se' hse'
                simp only [Option.some.injEq] at hse'
                subst hse'
                refine ⟨⟨by simp only [hneed]; exact hsd, osGood_empty _⟩, ?_⟩
                simp only [hneed, hreach]
                omega
            · simp only [hok, Bool.false_eq_true, if_false, Option.map_none]
              exact ⟨trivial, cinv_reach ext file x h2 _, fun se' h => by cases h⟩

/-- the two components of `compressedC` behind a successful `getObjectStream` -/
theorem compressedC_some (keep : Bool) (nested : Int → RSt → Option PVal × RSt) (Lnow : Nat) (n : Int) (e : RawEntry)
    (st st' : RSt) (se : StmEntry) (ho : openStmC file x nested Lnow e.f1 st = (some se, st')) :
    (compressedC ext keep file x nested Lnow n e st).1 =
      (match (osGetByIndexK keep (Reader.mkObjStm ext se.kv se.data) se.os e.f2).1 with
       | none => none
       | some (num, o) => if num = n then some (.obj o) else none) ∧
    (compressedC ext keep file x nested Lnow n e st).2 =
      { st' with stm := (e.f1, { se with os := (osGetByIndexK keep (Reader.mkObjStm ext se.kv se.data) se.os e.f2).2 }) :: st'.stm } := by
  unfold compressedC
  rw [ho]
  simp only
  cases (osGetByIndexK keep (Reader.mkObjStm ext se.kv se.data) se.os e.f2).1 with
  | none => exact ⟨rfl, rfl⟩
  | some p =>
    obtain ⟨num, o⟩ := p
    simp only
    by_cases hn : num = n
    · simp only [hn, if_true]; exact ⟨trivial, trivial⟩
    · simp only [hn, if_false]; exact ⟨trivial, trivial⟩

/-- `getCompressedObject` on the reader's state -/
theorem compressedC_refines (keep : Bool) (nested : Int → RSt → Option PVal × RSt) (Lnow b : Nat)
    (hLb : Lnow + b = maxNestedLoads) (n : Int) (e : RawEntry) (he : getLastI x n = some e)
    (hfree : ¬ e.kind = .free) (hin : ¬ e.kind = .inUse) (st : RSt)
    (hst : CInv ext file x st) (hr : Lnow ≤ st.reach)
    (hn : ∀ xe, getLastI x e.f1 = some xe → ¬ xe.kind = .compressed →
      ∀ m, (uncompressedAtK file e.f1 xe.f1).asked = some m → NestedOk ext file x nested Lnow b m) :
    (compressedC ext keep file x nested Lnow n e st).1 = (stepD ext file x (getD ext file x b) n).map Prod.fst ∧
    CInv ext file x (compressedC ext keep file x nested Lnow n e st).2 ∧
    ∀ w k, stepD ext file x (getD ext file x b) n = some (w, k) →
      (compressedC ext keep file x nested Lnow n e st).2.reach = max st.reach (Lnow + (k - 1)) := by
  obtain ⟨h1, h2, h3⟩ := openStmC_refines ext file x nested Lnow b hLb e.f1 st hst hr hn
  rw [stepD_compressed ext file x b n e he hfree hin]
  cases ho : openStmC file x nested Lnow e.f1 st with
  | mk o1 st' =>
    rw [ho] at h1 h2 h3
    simp only at h1 h2 h3
    cases o1 with
    | none =>
      simp only [Option.map_none] at h1
      rw [← h1]
      have hc : compressedC ext keep file x nested Lnow n e st = (none, st') := by
        unfold compressedC; rw [ho]
      rw [hc]
      exact ⟨rfl, h2, fun w k h => by cases h⟩
    | some se =>
      simp only [Option.map_some] at h1
      obtain ⟨⟨hsd, hos⟩, hreach⟩ := h3 se rfl
      obtain ⟨c1, c2⟩ := compressedC_some ext file x keep nested Lnow n e st st' se ho
      obtain ⟨a1, a2⟩ := osGood_step keep (Reader.mkObjStm ext se.kv se.data) se.os e.f2 hos
      rw [c1, c2, ← h1, a1, member_of_osSpec]
      simp only
      refine ⟨?_, ?_, ?_⟩
      · cases hd : Reader.mkObjStm ext se.kv se.data with
        | error _ => rfl
        | ok os => cases hm : memberAtI os n e.f2 <;> simp [hm]
      · constructor
        · exact h2.obj
        · intro s' se' hl'
          simp only [lookup_cons_eq] at hl'
          by_cases hs : s' = e.f1
          · subst hs
            simp only [if_true, Option.some.injEq] at hl'
            subst hl'
            exact ⟨hsd, a2⟩
          · simp only [hs, if_false] at hl'
            exact h2.stm s' se' hl'
      · intro w k hk
        rw [hreach]
        cases hd : Reader.mkObjStm ext se.kv se.data with
        | error _ => rw [hd] at hk; cases hk
        | ok os =>
          rw [hd] at hk
          simp only at hk
          cases hm : memberAtI os n e.f2 with
          | none => rw [hm] at hk; cases hk
          | some o =>
            rw [hm] at hk
            simp only [Option.map_some, Option.some.injEq, Prod.mk.injEq] at hk
            obtain ⟨_, hk⟩ := hk
            subst hk
            simp

/-- **the reader's caches never change an answer** (`GetObject` at any nesting): under the
invariant, with every object of `loading` on the way to `n`, `getC` answers what the cache-free
`getD` answers with the remaining budget, keeps the invariant, and leaves `reach` where a load
of `n` would have left it -/
theorem getC_refines (keep : Bool) : ∀ (fuel : Nat) (L : List Int) (n : Int) (st : RSt),
    CInv ext file x st → (∀ p ∈ L, Chain file x p n) → maxNestedLoads + 1 ≤ fuel + L.length →
    (getC ext keep file x fuel L n st).1 = (getD ext file x (maxNestedLoads - L.length) n).map Prod.fst ∧
    CInv ext file x (getC ext keep file x fuel L n st).2 ∧
    ∀ v k, getD ext file x (maxNestedLoads - L.length) n = some (v, k) →
      (getC ext keep file x fuel L n st).2.reach = max st.reach (L.length + k) := by
  intro fuel
  induction fuel with
  | zero =>
    intro L n st hst _ hf
    have : maxNestedLoads - L.length = 0 := by omega
    rw [this]
    exact ⟨rfl, hst, fun v k h => by cases h⟩
  | succ fuel ih =>
    intro L n st hst hch hf
    simp only [getC]
    cases hl : st.obj.lookup n with
    | some c =>
      obtain ⟨v, need⟩ := c
      have hg := hst.obj n v need hl
      have hneed := getD_need ext file x need n v need hg
      rw [getD_of_need ext file x need (maxNestedLoads - L.length) n v need hg]
      simp only [nestCached]
      by_cases hk : need ≤ maxNestedLoads - L.length
      · have hlt : ¬ maxNestedLoads < L.length + need := by omega
        simp only [hlt, if_false, if_true, hk, Option.map_some]
        refine ⟨trivial, cinv_reach ext file x hst _, ?_⟩
        intro v' k' hvk
        simp only [Option.some.injEq, Prod.mk.injEq] at hvk
        obtain ⟨_, hk'⟩ := hvk
        subst hk'
        rfl
      · have hlt : maxNestedLoads < L.length + need := by omega
        simp only [hlt, if_true, hk, if_false, Bool.false_eq_true, Option.map_none]
        exact ⟨trivial, hst, fun v' k' h => by cases h⟩
    | none =>
      simp only
      cases he : getLastI x n with
      | none =>
        rw [getD_no_entry ext file x _ n he]
        exact ⟨rfl, hst, fun v k h => by cases h⟩
      | some e =>
        simp only
        by_cases hfree : e.kind = .free
        · rw [getD_free ext file x _ n e he hfree]
          simp only [hfree, if_true]
          exact ⟨rfl, hst, fun v k h => by cases h⟩
        · simp only [hfree, if_false]
          by_cases hcon : L.contains n = true
          · have hmem : n ∈ L := by simpa using hcon
            rw [getD_cycle ext file x _ n (hch n hmem)]
            simp only [hcon, if_true]
            exact ⟨rfl, hst, fun v k h => by cases h⟩
          · simp only [hcon]
            by_cases hlim : L.length ≥ maxNestedLoads
            · have : maxNestedLoads - L.length = 0 := by omega
              rw [this]
              simp only [hlim, if_true]
              exact ⟨rfl, hst, fun v k h => by cases h⟩
            · simp only [hlim, if_false, Bool.false_eq_true]
              obtain ⟨b, hb⟩ : ∃ b, maxNestedLoads - L.length = b + 1 := ⟨maxNestedLoads - L.length - 1, by omega⟩
              have hb' : maxNestedLoads - (n :: L).length = b := by simp only [List.length_cons]; omega
              have hLb : (L.length + 1) + b = maxNestedLoads := by omega
              rw [hb, getD_succ]
              -- the nested lookups, by induction
              have hnest : ∀ m, nextOf file x n = some m →
                  NestedOk ext file x (fun m s => getC ext keep file x fuel (n :: L) m s) (L.length + 1) b m := by
                intro m hm s hs
                have := ih (n :: L) m s hs (by
                  intro p hp
                  cases hp with
                  | head => exact .one hm
                  | tail _ hp' => exact (hch p hp').snoc hm) (by simp only [List.length_cons]; omega)
                rw [hb'] at this
                simpa only [List.length_cons] using this
              -- what the load of `n` itself does, in either arm
              have hR : ∀ r : Option PVal × RSt,
                  r = (if e.kind = .inUse then
                        loadAtC file (fun m s => getC ext keep file x fuel (n :: L) m s) n e.f1 { st with reach := L.length + 1 }
                       else compressedC ext keep file x (fun m s => getC ext keep file x fuel (n :: L) m s) (L.length + 1) n e
                        { st with reach := L.length + 1 }) →
                  r.1 = (stepD ext file x (getD ext file x b) n).map Prod.fst ∧ CInv ext file x r.2 ∧
                  ∀ w k, stepD ext file x (getD ext file x b) n = some (w, k) → r.2.reach = L.length + k := by
                intro r hr
                by_cases hin : e.kind = .inUse
                · simp only [hin, if_true] at hr
                  obtain ⟨h1, h2, h3⟩ := loadAtC_refines ext file x _ (L.length + 1) b n e.f1 { st with reach := L.length + 1 }
                    (cinv_reach ext file x hst _) (Nat.le_refl _)
                    (fun m hm => hnest m (by simp only [nextOf, he, hin, hm]; simp))
                  rw [← hr] at h1 h2 h3
                  have hs : stepD ext file x (getD ext file x b) n =
                      (plainD file (getD ext file x b) n e.f1).map fun p => (p.1, p.2 + 1) := by
                    simp only [stepD, he, hin]; simp
                  rw [hs]
                  refine ⟨?_, h2, ?_⟩
                  · rw [h1]; cases plainD file (getD ext file x b) n e.f1 <;> rfl
                  · intro w k hk
                    cases hp : plainD file (getD ext file x b) n e.f1 with
                    | none => rw [hp] at hk; cases hk
                    | some pr =>
                      obtain ⟨w', j⟩ := pr
                      rw [hp] at hk
                      simp only [Option.map_some, Option.some.injEq, Prod.mk.injEq] at hk
                      have := h3 w' j hp
                      simp only at this
                      omega
                · simp only [hin, if_false] at hr
                  obtain ⟨h1, h2, h3⟩ := compressedC_refines ext file x keep _ (L.length + 1) b hLb n e he hfree hin
                    { st with reach := L.length + 1 } (cinv_reach ext file x hst _) (Nat.le_refl _)
                    (fun xe hxe hc m hm => hnest m (by
                      simp only [nextOf, he, hfree, hin, if_false, hxe, hc, hm]))
                  rw [← hr] at h1 h2 h3
                  refine ⟨h1, h2, ?_⟩
                  intro w k hk
                  have hk1 : 1 ≤ k := by
                    obtain ⟨j, hj, _⟩ := stepD_transfer hk
                    omega
                  have := h3 w k hk
                  simp only at this
                  omega
              generalize hrdef : (if e.kind = .inUse then
                        loadAtC file (fun m s => getC ext keep file x fuel (n :: L) m s) n e.f1 { st with reach := L.length + 1 }
                       else compressedC ext keep file x (fun m s => getC ext keep file x fuel (n :: L) m s) (L.length + 1) n e
                        { st with reach := L.length + 1 }) = r
              obtain ⟨h1, h2, h3⟩ := hR r hrdef.symm
              obtain ⟨r1, r2⟩ := r
              simp only at h1 h2 h3 ⊢
              cases hs : stepD ext file x (getD ext file x b) n with
              | none =>
                rw [hs] at h1
                simp only [Option.map_none] at h1
                subst h1
                exact ⟨rfl, cinv_reach ext file x h2 _, fun v k h => by cases h⟩
              | some pr =>
                obtain ⟨w, k⟩ := pr
                rw [hs] at h1
                simp only [Option.map_some] at h1
                subst h1
                have hreach := h3 w k hs
                have hk1 : 1 ≤ k := by
                  obtain ⟨j, hj, _⟩ := stepD_transfer hs
                  omega
                refine ⟨rfl, ?_, ?_⟩
                · constructor
                  · intro n' v' k' hl'
                    simp only [lookup_cons_eq] at hl'
                    by_cases hn' : n' = n
                    · subst hn'
                      simp only [if_true, Option.some.injEq, Prod.mk.injEq] at hl'
                      obtain ⟨hv, hk'⟩ := hl'
                      subst hv
                      have : k' = k := by omega
                      subst this
                      have hg : getD ext file x (b + 1) n' = some (w, k') := by rw [getD_succ]; exact hs
                      exact getD_threshold ext file x (b + 1) n' w k' hg
                    · simp only [hn', if_false] at hl'
                      exact h2.obj n' v' k' hl'
                  · exact h2.stm
                · intro v' k' hvk
                  simp only [Option.some.injEq, Prod.mk.injEq] at hvk
                  obtain ⟨_, hk'⟩ := hvk
                  subst hk'
                  simp only
                  omega

end

/-- beyond the limit nothing happens: with more than `maxNestedLoads` objects being loaded every
`GetObject` is an error and leaves the reader as it is -/
theorem getC_limit (ext : Reader.Ext) (keep : Bool) (file : Str) (x : RawSection) (fuel : Nat) (L : List Int)
    (n : Int) (st : RSt) (h : maxNestedLoads + 1 ≤ L.length) : getC ext keep file x fuel L n st = (none, st) := by
  cases fuel with
  | zero => rfl
  | succ f =>
    simp only [getC]
    cases st.obj.lookup n with
    | some c =>
      obtain ⟨v, need⟩ := c
      have : maxNestedLoads < L.length + need := by omega
      simp only [nestCached, this, if_true, Bool.false_eq_true, if_false]
    | none =>
      simp only
      cases getLastI x n with
      | none => rfl
      | some e =>
        simp only
        split
        · rfl
        · split
          · rfl
          · have : L.length ≥ maxNestedLoads := by omega
            simp only [this, if_true]

/-- **the structural fuel of the cached reader is never what ends a lookup** -/
theorem getC_fuel (ext : Reader.Ext) (keep : Bool) (file : Str) (x : RawSection) :
    ∀ (f f' : Nat) (L : List Int) (n : Int) (st : RSt),
      maxNestedLoads + 1 ≤ f + L.length → maxNestedLoads + 1 ≤ f' + L.length →
      getC ext keep file x f L n st = getC ext keep file x f' L n st := by
  intro f
  induction f with
  | zero =>
    intro f' L n st h _
    rw [getC_limit ext keep file x 0 L n st (by omega), getC_limit ext keep file x f' L n st (by omega)]
  | succ f ih =>
    intro f' L n st h h'
    cases f' with
    | zero =>
      rw [getC_limit ext keep file x (f + 1) L n st (by omega), getC_limit ext keep file x 0 L n st (by omega)]
    | succ f' =>
      have e : (fun m s => getC ext keep file x f (n :: L) m s) = (fun m s => getC ext keep file x f' (n :: L) m s) := by
        funext m s
        exact ih f' (n :: L) m s (by simp only [List.length_cons]; omega) (by simp only [List.length_cons]; omega)
      simp only [getC, e]

end Tabula.XrefC
