import TabulaModel.Lemmas.CMapItems
/-!
Locating the sections of a rendered CMap program: tabula's parser (`parseCMapData`) run on
`renderProgram p w secs` sets `byteWidth := w` from the code-space section, then hands every
bfchar section body to `parseBfCharSection` and every bfrange section body to
`parseBfRangeSection`, in program order (`parse_renderProgram`).
-/
namespace Tabula.CMap
open Tabula.UTF16

/-! ## occurrences of a keyword -/

/-- no occurrence of `kw` starts inside `a`, whatever follows `a` -/
def NoOcc (kw : Str) : Str → Prop
  | [] => True
  | c :: a => (∀ t, kw.isPrefixOf (c :: (a ++ t)) = false) ∧ NoOcc kw a

theorem noOcc_append {kw a b : Str} (ha : NoOcc kw a) (hb : NoOcc kw b) : NoOcc kw (a ++ b) := by
  induction a with
  | nil => exact hb
  | cons c a ih =>
    show NoOcc kw (c :: (a ++ b))
    refine ⟨fun t => ?_, ih ha.2⟩
    rw [List.append_assoc]
    exact ha.1 (b ++ t)

theorem indexOf_skip {kw a : Str} (h : NoOcc kw a) (t : Str) :
    indexOf kw (a ++ t) = (indexOf kw t).map (· + a.length) := by
  induction a with
  | nil =>
    show indexOf kw t = (indexOf kw t).map (· + 0)
    cases indexOf kw t <;> rfl
  | cons c a ih =>
    show indexOf kw (c :: (a ++ t)) = _
    rw [indexOf, h.1 t, ih h.2]
    cases indexOf kw t with
    | none => rfl
    | some i => simp only [Bool.false_eq_true, if_false, Option.map_some, List.length_cons]; rfl

theorem indexOf_self (kw t : Str) : indexOf kw (kw ++ t) = some 0 := by
  cases h : kw ++ t with
  | nil =>
    have : kw = [] := (List.append_eq_nil_iff.mp h).1
    subst this; rfl
  | cons c s =>
    rw [indexOf, ← h]
    have : kw.isPrefixOf (kw ++ t) = true := List.isPrefixOf_iff_prefix.mpr (List.prefix_append kw t)
    rw [this]; rfl

theorem indexOf_none {kw a : Str} (h : NoOcc kw a) (hk : kw ≠ []) : indexOf kw a = none := by
  have := indexOf_skip h []
  rw [List.append_nil] at this
  rw [this]
  cases kw with
  | nil => exact absurd rfl hk
  | cons k kw => rfl

/-- `kw` could start at the head of `s`: `kw` is a prefix of `s` or `s` is a prefix of `kw` -/
def compat : Str → Str → Bool
  | [], _ => true
  | _ :: _, [] => true
  | k :: kw, c :: s => k == c && compat kw s

theorem compat_sound (kw s : Str) (h : compat kw s = false) (t : Str) :
    kw.isPrefixOf (s ++ t) = false := by
  induction kw generalizing s with
  | nil => simp [compat] at h
  | cons k kw ih =>
    cases s with
    | nil => simp [compat] at h
    | cons c s =>
      simp only [compat, Bool.and_eq_false_iff] at h
      simp only [List.cons_append, List.isPrefixOf, Bool.and_eq_false_iff]
      rcases h with h | h
      · exact Or.inl h
      · exact Or.inr (ih s h)

/-- Boolean check of `NoOcc` -/
def noOccB (kw : Str) : Str → Bool
  | [] => true
  | c :: a => !compat kw (c :: a) && noOccB kw a

theorem noOccB_sound (kw a : Str) (h : noOccB kw a = true) : NoOcc kw a := by
  induction a with
  | nil => trivial
  | cons c a ih =>
    simp only [noOccB, Bool.and_eq_true, Bool.not_eq_true'] at h
    exact ⟨fun t => compat_sound kw (c :: a) h.1 t, ih h.2⟩

theorem compat_false_of_mark (m : Nat) (kw : Str) (hm : m ∈ kw) (s : Str) (l : Nat)
    (hl : l ∉ kw) (hs : ∀ c ∈ s, c ≠ m) (hlast : s.getLast? = some l) : compat kw s = false := by
  induction kw generalizing s with
  | nil => simp at hm
  | cons k kw ih =>
    cases s with
    | nil => simp at hlast
    | cons c s =>
      simp only [compat, Bool.and_eq_false_iff]
      by_cases hkc : k = c
      · right
        subst hkc
        have hkm : k ≠ m := hs k (by simp)
        have hm' : m ∈ kw := by
          rcases List.mem_cons.mp hm with h | h
          · exact absurd h.symm hkm
          · exact h
        cases s with
        | nil =>
          simp at hlast
          subst hlast
          exact absurd (List.mem_cons_self) hl
        | cons d s =>
          rw [List.getLast?_cons_cons] at hlast
          exact ih hm' (d :: s) (fun h => hl (List.mem_cons_of_mem _ h))
            (fun x hx => hs x (List.mem_cons_of_mem _ hx)) hlast
      · left
        simpa using hkc

/-- a string without the byte `m` that ends in a byte foreign to `kw` holds no occurrence of a
keyword that contains `m` -/
theorem noOcc_of_mark (m : Nat) (kw : Str) (hm : m ∈ kw) (a : Str) (l : Nat)
    (hl : l ∉ kw) (ha : ∀ c ∈ a, c ≠ m) (hlast : a = [] ∨ a.getLast? = some l) : NoOcc kw a := by
  induction a with
  | nil => trivial
  | cons c a ih =>
    have hlast' : (c :: a).getLast? = some l := by
      rcases hlast with h | h
      · simp at h
      · exact h
    refine ⟨fun t => compat_sound kw (c :: a) (compat_false_of_mark m kw hm _ l hl ha hlast') t, ?_⟩
    apply ih (fun x hx => ha x (List.mem_cons_of_mem _ hx))
    cases a with
    | nil => exact Or.inl rfl
    | cons d a => right; rw [List.getLast?_cons_cons] at hlast'; exact hlast'

/-! ## the section loop -/

theorem sectionsLoop_none (kb ke : Str) (f : Str → CMap → CMap) (fuel : Nat) (a : Str) (cm : CMap)
    (h : NoOcc kb a) (hk : kb ≠ []) : sectionsLoop kb ke f fuel a cm = cm := by
  cases fuel with
  | zero => rfl
  | succ n => rw [sectionsLoop, indexOf_none h hk]

theorem sectionsLoop_step (kb ke : Str) (f : Str → CMap → CMap) (fuel : Nat)
    (pre body rest : Str) (cm : CMap) (hpre : NoOcc kb pre) (hbody : NoOcc ke body) :
    sectionsLoop kb ke f (fuel + 1) (pre ++ (kb ++ (body ++ (ke ++ rest)))) cm =
      sectionsLoop kb ke f fuel rest (f body cm) := by
  rw [sectionsLoop, indexOf_skip hpre, indexOf_self]
  simp only [Option.map_some, Nat.zero_add]
  have h1 : (pre ++ (kb ++ (body ++ (ke ++ rest)))).drop (pre.length + kb.length) =
      body ++ (ke ++ rest) := by
    rw [← List.append_assoc pre kb, ← List.length_append]
    exact List.drop_left' rfl
  rw [h1, indexOf_skip hbody, indexOf_self]
  simp only [Option.map_some, Nat.zero_add]
  have h2 : (body ++ (ke ++ rest)).take body.length = body := List.take_left' rfl
  have h3 : (body ++ (ke ++ rest)).drop (body.length + ke.length) = rest := by
    rw [← List.append_assoc body ke, ← List.length_append]
    exact List.drop_left' rfl
  rw [h2, h3]

/-! ## section bodies -/

/-- every byte of a section body is not the letter `n` (110, which occurs in all six keywords),
and a non-empty body ends in LF or space -/
def BodyOK (b : Str) : Prop :=
  (∀ c ∈ b, c ≠ 110) ∧ (b = [] ∨ b.getLast? = some 10 ∨ b.getLast? = some 32)

/-- the keywords the parser searches for -/
def IsKw (kw : Str) : Prop :=
  kw = kwBeginCodeSpace ∨ kw = kwEndCodeSpace ∨ kw = kwBeginBfChar ∨ kw = kwEndBfChar ∨
    kw = kwBeginBfRange ∨ kw = kwEndBfRange

theorem isKw_facts {kw : Str} (h : IsKw kw) : 110 ∈ kw ∧ 10 ∉ kw ∧ 32 ∉ kw := by
  rcases h with h | h | h | h | h | h <;> subst h <;> decide

theorem noOcc_of_bodyOK {kw b : Str} (hk : IsKw kw) (hb : BodyOK b) : NoOcc kw b := by
  obtain ⟨h110, h10, h32⟩ := isKw_facts hk
  rcases hb.2 with h | h | h
  · exact noOcc_of_mark 110 kw h110 b 10 h10 hb.1 (Or.inl h)
  · exact noOcc_of_mark 110 kw h110 b 10 h10 hb.1 (Or.inr h)
  · exact noOcc_of_mark 110 kw h110 b 32 h32 hb.1 (Or.inr h)

theorem isKw_kwBegin (k : Kind) : IsKw k.kwBegin := by
  cases k <;> simp [IsKw, Kind.kwBegin]

theorem isKw_kwEnd (k : Kind) : IsKw k.kwEnd := by
  cases k <;> simp [IsKw, Kind.kwEnd]

/-- the three ends of line -/
theorem eol_cases (p : Policy) : p.eol = [32] ∨ p.eol = [13, 10] ∨ p.eol = [10] := by
  unfold Policy.eol
  split
  · exact Or.inl rfl
  · split
    · exact Or.inr (Or.inl rfl)
    · exact Or.inr (Or.inr rfl)

theorem sep_cases (p : Policy) : p.sep = [] ∨ p.sep = [32] := by
  unfold Policy.sep
  split
  · exact Or.inl rfl
  · exact Or.inr rfl

theorem bodyOK_eol (p : Policy) : BodyOK p.eol := by
  rcases eol_cases p with h | h | h <;> rw [h] <;> refine ⟨by decide, ?_⟩ <;> simp

theorem natDec_mem (n : Nat) : ∀ c ∈ natDec n, 48 ≤ c ∧ c ≤ 57 := by
  induction n using Nat.strongRecOn with
  | _ n ih =>
    intro c hc
    rw [natDec] at hc
    split at hc
    · simp only [List.mem_singleton] at hc; omega
    · simp only [List.mem_append, List.mem_singleton] at hc
      rcases hc with hc | hc
      · exact ih (n / 10) (by omega) c hc
      · omega

theorem bodyOK_natDec (n : Nat) : BodyOK (natDec n ++ [32]) := by
  refine ⟨?_, Or.inr (Or.inr (by simp))⟩
  intro c hc
  simp only [List.mem_append, List.mem_singleton] at hc
  rcases hc with hc | hc
  · have := natDec_mem n c hc; omega
  · omega

/-! ## hex text -/

/-- a hex digit of either case -/
def HexCh (c : Nat) : Prop := (48 ≤ c ∧ c ≤ 57) ∨ (65 ≤ c ∧ c ≤ 70) ∨ (97 ≤ c ∧ c ≤ 102)

private theorem hexDigitP_hex (up : Bool) (d : Nat) (h : d < 16) : HexCh (hexDigitP up d) := by
  unfold hexDigitP HexCh
  split
  · omega
  · split <;> omega

private theorem hexOfBytesP_mem (up : Bool) (bs : List Nat) (hb : AllBytes bs) :
    ∀ c ∈ hexOfBytesP up bs, HexCh c := by
  induction bs with
  | nil => intro c hc; simp [hexOfBytesP] at hc
  | cons b t ih =>
    intro c hc
    have hb0 : b < 256 := hb b (by simp)
    simp only [hexOfBytesP, List.mem_cons] at hc
    rcases hc with hc | hc | hc
    · subst hc; exact hexDigitP_hex _ _ (by omega)
    · subst hc; exact hexDigitP_hex _ _ (by omega)
    · exact ih (allBytes_tail hb) c hc

private theorem hexOfBytesP_length (up : Bool) (bs : List Nat) : (hexOfBytesP up bs).length = 2 * bs.length := by
  induction bs with
  | nil => rfl
  | cons b t ih => simp only [hexOfBytesP, List.length_cons, ih]; omega

theorem allBytes_replicate (n b : Nat) (hb : b < 256) : AllBytes (List.replicate n b) := by
  intro x hx
  rw [List.mem_replicate] at hx
  omega

/-! ## ends of line -/

theorem getLast_append_eol (p : Policy) (x : Str) :
    (x ++ p.eol).getLast? = some 10 ∨ (x ++ p.eol).getLast? = some 32 := by
  rcases eol_cases p with h | h | h <;> rw [h] <;> simp [List.getLast?_append]

theorem bodyOK_append_eol (p : Policy) (x : Str) (hx : ∀ c ∈ x, c ≠ 110) : BodyOK (x ++ p.eol) := by
  refine ⟨?_, Or.inr (getLast_append_eol p x)⟩
  intro c hc
  rcases List.mem_append.mp hc with h | h
  · exact hx c h
  · exact (bodyOK_eol p).1 c h

/-! ## the fixed lines -/

/-- `header` as a function of the end of line -/
def headerE (e : Str) : Str :=
  (hdr1 ++ e) ++ (hdr2 ++ e) ++ (hdr3 ++ e) ++ (hdr4 ++ e) ++ (hdr5 ++ e) ++ (hdr6 ++ e)

/-- `trailer` as a function of the end of line -/
def trailerE (e : Str) : Str := (trl1 ++ e) ++ (trl2 ++ e) ++ (trl3 ++ e) ++ (trl3 ++ e)

theorem header_eq (p : Policy) : header p = headerE p.eol := rfl
theorem trailer_eq (p : Policy) : trailer p = trailerE p.eol := rfl

theorem kwBegin_ne_nil (k : Kind) : k.kwBegin ≠ [] := by cases k <;> decide

theorem noOcc_header (k : Kind) (p : Policy) : NoOcc k.kwBegin (header p) := by
  rw [header_eq]
  rcases eol_cases p with h | h | h <;> rw [h] <;> cases k <;>
    exact noOccB_sound _ _ (by decide +kernel)

theorem noOcc_trailer (k : Kind) (p : Policy) : NoOcc k.kwBegin (trailer p) := by
  rw [trailer_eq]
  rcases eol_cases p with h | h | h <;> rw [h] <;> cases k <;>
    exact noOccB_sound _ _ (by decide +kernel)

theorem noOcc_hdr7 (k : Kind) : NoOcc k.kwBegin hdr7 := by
  cases k <;> exact noOccB_sound _ _ (by decide +kernel)

theorem noOcc_endCodeSpace (k : Kind) (p : Policy) : NoOcc k.kwBegin (kwEndCodeSpace ++ p.eol) := by
  rcases eol_cases p with h | h | h <;> rw [h] <;> cases k <;>
    exact noOccB_sound _ _ (by decide +kernel)

theorem noOcc_otherBegin (k k' : Kind) (hk : k' ≠ k) (p : Policy) :
    NoOcc k.kwBegin (k'.kwBegin ++ p.eol) := by
  rcases eol_cases p with h | h | h <;> rw [h] <;> cases k <;> cases k' <;>
    first
    | exact absurd rfl hk
    | exact noOccB_sound _ _ (by decide +kernel)

theorem noOcc_otherEnd (k k' : Kind) (hk : k' ≠ k) (p : Policy) :
    NoOcc k.kwBegin (k'.kwEnd ++ p.eol) := by
  rcases eol_cases p with h | h | h <;> rw [h] <;> cases k <;> cases k' <;>
    first
    | exact absurd rfl hk
    | exact noOccB_sound _ _ (by decide +kernel)

theorem noOcc_header_codeSpace (p : Policy) : NoOcc kwBeginCodeSpace (header p ++ [49, 32]) := by
  rw [header_eq]
  rcases eol_cases p with h | h | h <;> rw [h] <;>
    exact noOccB_sound _ _ (by decide +kernel)

/-! ## the code-space section -/

theorem codeSpaceBody_shape (p : Policy) (w : Nat) :
    codeSpaceBody p w = p.eol ++ 60 :: (hexOfBytesP p.upper (List.replicate w 0) ++ 62 :: (p.sep ++
      60 :: (hexOfBytesP p.upper (List.replicate w 255) ++ 62 :: p.eol))) := by
  simp [codeSpaceBody, Tok.text, List.append_assoc]

theorem hexCh_facts {c : Nat} (h : HexCh c) : c ≠ 110 ∧ c ≠ 10 ∧ c ≠ 62 ∧ c ≠ 60 := by
  unfold HexCh at h; omega

theorem sep_mem (p : Policy) : ∀ c ∈ p.sep, c = 32 := by
  intro c hc
  rcases sep_cases p with h | h <;> rw [h] at hc <;> simp at hc
  exact hc

theorem bodyOK_codeSpaceBody (p : Policy) (w : Nat) : BodyOK (codeSpaceBody p w) := by
  have h0 := hexOfBytesP_mem p.upper _ (allBytes_replicate w 0 (by decide))
  have h1 := hexOfBytesP_mem p.upper _ (allBytes_replicate w 255 (by decide))
  unfold codeSpaceBody
  apply bodyOK_append_eol
  intro c hc
  simp only [Tok.text, List.mem_append, List.mem_cons, List.mem_nil_iff, or_false] at hc
  rcases hc with (((hc | hc | hc | hc) | hc) | hc | hc | hc)
  · exact (bodyOK_eol p).1 c hc
  · omega
  · exact (hexCh_facts (h0 c hc)).1
  · omega
  · have := sep_mem p c hc; omega
  · omega
  · exact (hexCh_facts (h1 c hc)).1
  · omega

theorem noOcc_codeSpaceSec (k : Kind) (p : Policy) (w : Nat) : NoOcc k.kwBegin (codeSpaceSec p w) := by
  unfold codeSpaceSec
  rw [List.append_assoc]
  exact noOcc_append (noOcc_append (noOcc_hdr7 k)
    (noOcc_of_bodyOK (isKw_kwBegin k) (bodyOK_codeSpaceBody p w))) (noOcc_endCodeSpace k p)

/-! ## the bfchar / bfrange sections -/

/-- the section texts of one kind, in program order, as the section parser receives them (from
right after the begin keyword to right before the end keyword) -/
def sectionTexts (p : Policy) (w : Nat) (k : Kind) (secs : List Section) : List Str :=
  (secs.filter (fun s => s.kind = k)).map fun s => p.eol ++ sectionBody p w s

theorem renderSec_shape (p : Policy) (w : Nat) (s : Section) : renderSec p w s =
    (natDec s.items.length ++ [32]) ++ (s.kind.kwBegin ++ ((p.eol ++ sectionBody p w s) ++
      (s.kind.kwEnd ++ p.eol))) := by
  simp [renderSec, List.append_assoc]

theorem renderSec_shape' (p : Policy) (w : Nat) (s : Section) : renderSec p w s =
    (natDec s.items.length ++ [32]) ++ ((s.kind.kwBegin ++ p.eol) ++ (sectionBody p w s ++
      (s.kind.kwEnd ++ p.eol))) := by
  simp [renderSec, List.append_assoc]

theorem noOcc_renderSec_other (p : Policy) (w : Nat) (k : Kind) (s : Section) (hk : s.kind ≠ k)
    (hb : BodyOK (sectionBody p w s)) : NoOcc k.kwBegin (renderSec p w s) := by
  rw [renderSec_shape']
  have hkw := isKw_kwBegin k
  exact noOcc_append (noOcc_of_bodyOK hkw (bodyOK_natDec _))
    (noOcc_append (noOcc_otherBegin k s.kind hk p)
      (noOcc_append (noOcc_of_bodyOK hkw hb) (noOcc_otherEnd k s.kind hk p)))

theorem sectionsLoop_secs (p : Policy) (w : Nat) (k : Kind) (f : Str → CMap → CMap) (tail : Str)
    (htail : NoOcc k.kwBegin tail) (secs : List Section)
    (hb : ∀ s ∈ secs, BodyOK (sectionBody p w s)) :
    ∀ (fuel : Nat), secs.length < fuel → ∀ (pre : Str), NoOcc k.kwBegin pre → ∀ cm : CMap,
    sectionsLoop k.kwBegin k.kwEnd f fuel (pre ++ (secs.flatMap (renderSec p w) ++ tail)) cm =
      (sectionTexts p w k secs).foldl (fun cm b => f b cm) cm := by
  induction secs with
  | nil =>
    intro fuel _ pre hpre cm
    exact sectionsLoop_none _ _ _ _ _ _ (noOcc_append hpre htail) (kwBegin_ne_nil k)
  | cons s secs ih =>
    intro fuel hf pre hpre cm
    have hb' : ∀ x ∈ secs, BodyOK (sectionBody p w x) := fun x hx => hb x (List.mem_cons_of_mem _ hx)
    have hbs := hb s List.mem_cons_self
    have hlen : secs.length + 1 < fuel := by simpa using hf
    by_cases hk : s.kind = k
    · cases fuel with
      | zero => omega
      | succ n =>
        have hshape : pre ++ ((s :: secs).flatMap (renderSec p w) ++ tail) =
            (pre ++ (natDec s.items.length ++ [32])) ++ (k.kwBegin ++ ((p.eol ++ sectionBody p w s) ++
              (k.kwEnd ++ (p.eol ++ (secs.flatMap (renderSec p w) ++ tail))))) := by
          rw [List.flatMap_cons, renderSec_shape, hk]; simp only [List.append_assoc]
        rw [hshape, sectionsLoop_step _ _ _ _ _ _ _ _
          (noOcc_append hpre (noOcc_of_bodyOK (isKw_kwBegin k) (bodyOK_natDec _)))
          (noOcc_append (noOcc_of_bodyOK (isKw_kwEnd k) (bodyOK_eol p))
            (noOcc_of_bodyOK (isKw_kwEnd k) hbs))]
        rw [ih hb' n (by omega) p.eol (noOcc_of_bodyOK (isKw_kwBegin k) (bodyOK_eol p))]
        simp [sectionTexts, hk]
    · have hshape : pre ++ ((s :: secs).flatMap (renderSec p w) ++ tail) =
          (pre ++ renderSec p w s) ++ (secs.flatMap (renderSec p w) ++ tail) := by
        rw [List.flatMap_cons]; simp only [List.append_assoc]
      rw [hshape, ih hb' fuel (by omega) _
        (noOcc_append hpre (noOcc_renderSec_other p w k s hk hbs))]
      simp [sectionTexts, hk]

/-! ## `parseCodeSpaceRange` -/

theorem isSpace_facts {c : Nat} (h : isSpace c = true) : c ≠ 60 ∧ c ≠ 62 := by
  simp only [isSpace, Bool.or_eq_true, decide_eq_true_eq] at h
  omega

theorem hexStringsAux_space (ws : Str) (h : ∀ c ∈ ws, isSpace c = true) (st : Option Str) :
    hexStringsAux st ws = [] := by
  induction ws generalizing st with
  | nil => cases st <;> rfl
  | cons c ws ih =>
    have hc := isSpace_facts (h c (by simp))
    have ih' := fun st => ih (fun x hx => h x (List.mem_cons_of_mem _ hx)) st
    cases st with
    | none => simp only [hexStringsAux, hc.1, if_false, ih']
    | some acc => simp only [hexStringsAux, hc.2, if_false, ih']

theorem hexStringsAux_append_space (l ws : Str) (h : ∀ c ∈ ws, isSpace c = true) (st : Option Str) :
    hexStringsAux st (l ++ ws) = hexStringsAux st l := by
  induction l generalizing st with
  | nil =>
    rw [List.nil_append, hexStringsAux_space ws h]
    cases st <;> rfl
  | cons c l ih =>
    cases st with
    | none =>
      simp only [List.cons_append, hexStringsAux]
      split <;> rw [ih]
    | some acc =>
      simp only [List.cons_append, hexStringsAux]
      split <;> rw [ih]

theorem hexStringsAux_dropWhile (l : Str) :
    hexStringsAux none (l.dropWhile isSpace) = hexStringsAux none l := by
  induction l with
  | nil => rfl
  | cons c l ih =>
    rw [List.dropWhile_cons]
    split
    · rename_i hc
      rw [ih]
      simp only [hexStringsAux, (isSpace_facts hc).1, if_false]
    · rfl

theorem mem_takeWhile_sat (q : Nat → Bool) (l : Str) : ∀ c ∈ l.takeWhile q, q c = true := by
  induction l with
  | nil => intro c hc; simp at hc
  | cons a l ih =>
    intro c hc
    rw [List.takeWhile_cons] at hc
    split at hc
    · rename_i ha
      rcases List.mem_cons.mp hc with h | h
      · rw [h]; exact ha
      · exact ih c h
    · simp at hc

theorem trim_right_decomp (l : Str) :
    ∃ ws, (∀ c ∈ ws, isSpace c = true) ∧ l = (l.reverse.dropWhile isSpace).reverse ++ ws := by
  refine ⟨(l.reverse.takeWhile isSpace).reverse, ?_, ?_⟩
  · intro c hc
    exact mem_takeWhile_sat _ _ c (List.mem_reverse.mp hc)
  · rw [← List.reverse_append, List.takeWhile_append_dropWhile, List.reverse_reverse]

theorem hexStrings_trimSpace (l : Str) : hexStrings (trimSpace l) = hexStrings l := by
  unfold hexStrings trimSpace
  obtain ⟨ws, hws, hl⟩ := trim_right_decomp (l.dropWhile isSpace)
  rw [← hexStringsAux_dropWhile l]
  conv => rhs; rw [hl]
  rw [hexStringsAux_append_space _ ws hws]

theorem codeSpaceLines_skip (l : Str) (rest : List Str) (cm : CMap) (h : hexStrings l = []) :
    codeSpaceLines (l :: rest) cm = codeSpaceLines rest cm := by
  rw [codeSpaceLines]
  simp only [hexStrings_trimSpace, h]
  split <;> rfl

theorem codeSpaceLines_hit (l : Str) (rest : List Str) (cm : CMap) (h0 h1 : Str)
    (h : hexStrings l = [h0, h1]) :
    codeSpaceLines (l :: rest) cm = { cm with byteWidth := (h0.length + 1) / 2 } := by
  rw [codeSpaceLines]
  have hne : trimSpace l ≠ [] := by
    intro he
    have := hexStrings_trimSpace l
    rw [he, h] at this
    simp [hexStrings, hexStringsAux] at this
  simp only [hexStrings_trimSpace, h, hne, if_false]

theorem splitOn_ne_nil (sep : Nat) (a : Str) : splitOn sep a ≠ [] := by
  cases a with
  | nil => simp [splitOn]
  | cons c t =>
    rw [splitOn]
    split
    · simp
    · split <;> simp

theorem splitOn_single (sep : Nat) (a : Str) (h : ∀ c ∈ a, c ≠ sep) : splitOn sep a = [a] := by
  induction a with
  | nil => rfl
  | cons c a ih =>
    rw [splitOn, if_neg (h c (by simp)), ih (fun x hx => h x (List.mem_cons_of_mem _ hx))]

theorem splitOn_sep (sep : Nat) (a b : Str) (h : ∀ c ∈ a, c ≠ sep) :
    splitOn sep (a ++ sep :: b) = a :: splitOn sep b := by
  induction a with
  | nil => simp [splitOn]
  | cons c a ih =>
    rw [List.cons_append, splitOn, if_neg (h c (by simp)),
      ih (fun x hx => h x (List.mem_cons_of_mem _ hx))]

/-- the line of the two code-space tokens -/
theorem hex_line (h0 h1 sep y : Str) (hh0 : ∀ c ∈ h0, c ≠ 62) (hh1 : ∀ c ∈ h1, c ≠ 62)
    (hsep : sep = [] ∨ sep = [32]) (hy : hexStringsAux none y = []) :
    hexStringsAux none (60 :: (h0 ++ 62 :: (sep ++ 60 :: (h1 ++ 62 :: y)))) = [h0, h1] := by
  rw [hexStringsAux, if_pos rfl, hexAux_token h0 hh0]
  have : hexStringsAux none (sep ++ 60 :: (h1 ++ 62 :: y)) = [h1] := by
    rcases hsep with h | h <;> subst h
    · rw [List.nil_append, hexStringsAux, if_pos rfl, hexAux_token h1 hh1, hy]; rfl
    · rw [List.cons_append, List.nil_append, hexStringsAux, if_neg (by decide), hexStringsAux,
        if_pos rfl, hexAux_token h1 hh1, hy]; rfl
  rw [this]; rfl

theorem codeSpaceLines_body (p : Policy) (w : Nat) (cm : CMap) :
    codeSpaceLines (splitOn 10 (codeSpaceBody p w)) cm = { cm with byteWidth := w } := by
  have m0 := hexOfBytesP_mem p.upper _ (allBytes_replicate w 0 (by decide))
  have m1 := hexOfBytesP_mem p.upper _ (allBytes_replicate w 255 (by decide))
  have hlen : ((hexOfBytesP p.upper (List.replicate w 0)).length + 1) / 2 = w := by
    rw [hexOfBytesP_length, List.length_replicate]; omega
  have g0 : ∀ c ∈ hexOfBytesP p.upper (List.replicate w 0), c ≠ 62 := fun c hc => (hexCh_facts (m0 c hc)).2.2.1
  have g1 : ∀ c ∈ hexOfBytesP p.upper (List.replicate w 255), c ≠ 62 := fun c hc => (hexCh_facts (m1 c hc)).2.2.1
  have hsep := sep_cases p
  have hsm := sep_mem p
  rw [codeSpaceBody_shape]
  generalize hexOfBytesP p.upper (List.replicate w 0) = h0 at *
  generalize hexOfBytesP p.upper (List.replicate w 255) = h1 at *
  generalize p.sep = sep at *
  -- no line feed inside the token line
  have hno : ∀ y : Str, (∀ c ∈ y, c ≠ 10) →
      ∀ c ∈ 60 :: (h0 ++ 62 :: (sep ++ 60 :: (h1 ++ 62 :: y))), c ≠ 10 := by
    intro y hy c hc
    simp only [List.mem_append, List.mem_cons] at hc
    rcases hc with hc | hc | hc | hc | hc | hc | hc | hc
    · omega
    · exact (hexCh_facts (m0 c hc)).2.1
    · omega
    · have := hsm c hc; omega
    · omega
    · exact (hexCh_facts (m1 c hc)).2.1
    · omega
    · exact hy c hc
  rcases eol_cases p with he | he | he <;> rw [he]
  · -- one line
    rw [splitOn_single 10 _ (by
      intro c hc
      rcases List.mem_append.mp hc with h | h
      · simp at h; omega
      · exact hno [32] (by simp) c h)]
    rw [codeSpaceLines_hit _ _ _ h0 h1 (by
      show hexStringsAux none (32 :: (60 :: (h0 ++ 62 :: (sep ++ 60 :: (h1 ++ 62 :: [32]))))) = _
      rw [hexStringsAux, if_neg (by decide)]
      exact hex_line h0 h1 sep [32] g0 g1 hsep rfl), hlen]
  · -- CR LF
    have hshape : [13, 10] ++ 60 :: (h0 ++ 62 :: (sep ++ 60 :: (h1 ++ 62 :: [13, 10]))) =
        [13] ++ 10 :: ((60 :: (h0 ++ 62 :: (sep ++ 60 :: (h1 ++ 62 :: [13])))) ++ 10 :: []) := by
      simp
    rw [hshape, splitOn_sep 10 _ _ (by simp), splitOn_sep 10 _ _ (hno [13] (by simp))]
    rw [codeSpaceLines_skip _ _ _ (by rfl)]
    rw [codeSpaceLines_hit _ _ _ h0 h1 (hex_line h0 h1 sep [13] g0 g1 hsep rfl), hlen]
  · -- LF
    have hshape : [10] ++ 60 :: (h0 ++ 62 :: (sep ++ 60 :: (h1 ++ 62 :: [10]))) =
        [] ++ 10 :: ((60 :: (h0 ++ 62 :: (sep ++ 60 :: (h1 ++ 62 :: [])))) ++ 10 :: []) := by
      simp
    rw [hshape, splitOn_sep 10 _ _ (by simp), splitOn_sep 10 _ _ (hno [] (by simp))]
    rw [codeSpaceLines_skip _ _ _ (by rfl)]
    rw [codeSpaceLines_hit _ _ _ h0 h1 (hex_line h0 h1 sep [] g0 g1 hsep rfl), hlen]

theorem parseCodeSpaceRange_program (p : Policy) (w : Nat) (rest : Str) (cm : CMap) :
    parseCodeSpaceRange (header p ++ codeSpaceSec p w ++ rest) cm = { cm with byteWidth := w } := by
  have hshape : header p ++ codeSpaceSec p w ++ rest =
      (header p ++ [49, 32]) ++ (kwBeginCodeSpace ++ (codeSpaceBody p w ++ (kwEndCodeSpace ++
        (p.eol ++ rest)))) := by
    simp [codeSpaceSec, hdr7, List.append_assoc]
  rw [hshape, parseCodeSpaceRange, indexOf_skip (noOcc_header_codeSpace p), indexOf_self]
  simp only [Option.map_some, Nat.zero_add]
  have h1 : ((header p ++ [49, 32]) ++ (kwBeginCodeSpace ++ (codeSpaceBody p w ++ (kwEndCodeSpace ++
      (p.eol ++ rest))))).drop ((header p ++ [49, 32]).length + kwBeginCodeSpace.length) =
      codeSpaceBody p w ++ (kwEndCodeSpace ++ (p.eol ++ rest)) := by
    rw [← List.append_assoc _ kwBeginCodeSpace, ← List.length_append]
    exact List.drop_left' rfl
  rw [h1, indexOf_skip (noOcc_of_bodyOK (Or.inr (Or.inl rfl)) (bodyOK_codeSpaceBody p w)),
    indexOf_self]
  simp only [Option.map_some, Nat.zero_add]
  rw [List.take_left' rfl, codeSpaceLines_body]

/-! ## the whole program -/

theorem flatMap_renderSec_length (p : Policy) (w : Nat) (secs : List Section) :
    secs.length ≤ (secs.flatMap (renderSec p w)).length := by
  induction secs with
  | nil => simp
  | cons s secs ih =>
    rw [List.flatMap_cons, List.length_append, renderSec_shape]
    simp only [List.length_append, List.length_cons, List.length_nil]
    omega

theorem sectionsLoop_program (p : Policy) (w : Nat) (secs : List Section)
    (hb : ∀ s ∈ secs, BodyOK (sectionBody p w s)) (k : Kind) (f : Str → CMap → CMap) (cm : CMap) :
    sectionsLoop k.kwBegin k.kwEnd f ((renderProgram p w secs).length + 1) (renderProgram p w secs) cm =
      (sectionTexts p w k secs).foldl (fun cm b => f b cm) cm := by
  have hshape : renderProgram p w secs =
      (header p ++ codeSpaceSec p w) ++ (secs.flatMap (renderSec p w) ++ trailer p) := by
    simp only [renderProgram, List.append_assoc]
  have hlen := flatMap_renderSec_length p w secs
  rw [hshape]
  apply sectionsLoop_secs p w k f (trailer p) (noOcc_trailer k p) secs hb
  · simp only [List.length_append]; omega
  · exact noOcc_append (noOcc_header k p) (noOcc_codeSpaceSec k p w)

/-- tabula's parser finds exactly the sections the writer wrote: the code-space section sets
`byteWidth := w`, then every bfchar section body goes to `parseBfCharSection` in order, then
every bfrange section body to `parseBfRangeSection` in order -/
theorem parse_renderProgram (p : Policy) (w : Nat) (secs : List Section)
    (hb : ∀ s ∈ secs, BodyOK (sectionBody p w s)) :
    parseCMapData (renderProgram p w secs) =
      (sectionTexts p w .bfrange secs).foldl (fun cm b => parseBfRangeSection b cm)
        ((sectionTexts p w .bfchar secs).foldl (fun cm b => parseBfCharSection b cm)
          { byteWidth := w }) := by
  have hcs : parseCodeSpaceRange (renderProgram p w secs) {} = { byteWidth := w } := by
    have hshape : renderProgram p w secs =
        header p ++ codeSpaceSec p w ++ (secs.flatMap (renderSec p w) ++ trailer p) := by
      simp only [renderProgram, List.append_assoc]
    rw [hshape, parseCodeSpaceRange_program]
  unfold parseCMapData
  rw [hcs]
  have h1 := sectionsLoop_program p w secs hb .bfchar parseBfCharSection { byteWidth := w }
  have h2 := fun cm => sectionsLoop_program p w secs hb .bfrange parseBfRangeSection cm
  unfold parseBfRange parseBfChar
  exact (congrArg _ h1).trans (h2 _)

/-! ## section bodies of well-formed items -/

theorem renderToks_append (a b : List (Tok × Str)) : renderToks (a ++ b) = renderToks a ++ renderToks b := by
  unfold renderToks; rw [List.flatMap_append]

/-- no byte of the pair's text is `n` -/
def PairOK (tf : Tok × Str) : Prop := ∀ c ∈ tf.1.text ++ tf.2, c ≠ 110

theorem pairOK_mk (p : Policy) (tok : Tok) (fill : Str) (htok : ∀ c ∈ tok.text, c ≠ 110)
    (hf : fill = p.sep ∨ fill = p.eol) : PairOK (tok, fill) := by
  intro c hc
  rcases List.mem_append.mp hc with h | h
  · exact htok c h
  · rcases hf with hf | hf <;> subst hf
    · have := sep_mem p c h; omega
    · exact (bodyOK_eol p).1 c h

theorem hexTok_ok (h : Str) (hh : ∀ c ∈ h, HexCh c) : ∀ c ∈ Tok.text (.hex h), c ≠ 110 := by
  intro c hc
  simp only [Tok.text, List.mem_cons, List.mem_append, List.mem_nil_iff, or_false] at hc
  rcases hc with hc | hc | hc
  · omega
  · exact (hexCh_facts (hh c hc)).1
  · omega

theorem codeTok_ok (p : Policy) (w c : Nat) : ∀ x ∈ Tok.text (.hex (codeTok p w c)), x ≠ 110 :=
  hexTok_ok _ (hexOfBytesP_mem _ _ (codeBytes_bytes w c))

theorem textTok_ok (p : Policy) (t : List Nat) (ht : AllScalar t) :
    ∀ x ∈ Tok.text (.hex (textTok p t)), x ≠ 110 :=
  hexTok_ok _ (hexOfBytesP_mem _ _ (bytesBE_bytes _ (encodeUnits_lt t ht)))

private theorem arrayElems_ok (p : Policy) (n : Nat) (ts : List (List Nat)) (hts : ∀ t ∈ ts, AllScalar t) :
    ∀ i, ∀ tf ∈ arrayElems p n i ts, PairOK tf := by
  induction ts with
  | nil => intro i tf h; simp [arrayElems] at h
  | cons t ts ih =>
    intro i tf h
    rw [arrayElems] at h
    rcases List.mem_cons.mp h with h | h
    · subst h
      apply pairOK_mk p _ _ (textTok_ok p t (hts t (by simp)))
      split
      · exact Or.inr rfl
      · exact Or.inl rfl
    · exact ih (fun x hx => hts x (List.mem_cons_of_mem _ hx)) _ tf h

theorem headD_scalar (ts : List (List Nat)) (h : ∀ t ∈ ts, TextOK t) : AllScalar (ts.headD []) := by
  cases ts with
  | nil => exact allScalar_nil
  | cons t ts => exact (h t (by simp)).1

private theorem itemToks_ok (p : Policy) (w : Nat) (it : Item) (hit : ItemOK w it) :
    ∀ tf ∈ itemToks p w it, PairOK tf := by
  intro tf htf
  cases it with
  | char c t =>
    simp only [itemToks, List.mem_cons, List.mem_nil_iff, or_false] at htf
    rcases htf with h | h <;> subst h
    · exact pairOK_mk p _ _ (codeTok_ok p w c) (Or.inl rfl)
    · exact pairOK_mk p _ _ (textTok_ok p t hit.2.1) (Or.inr rfl)
  | offset r =>
    simp only [itemToks, List.mem_cons, List.mem_nil_iff, or_false] at htf
    rcases htf with h | h | h <;> subst h
    · exact pairOK_mk p _ _ (codeTok_ok p w _) (Or.inl rfl)
    · exact pairOK_mk p _ _ (codeTok_ok p w _) (Or.inl rfl)
    · exact pairOK_mk p _ _ (textTok_ok p _ (headD_scalar _ hit.1.2.2)) (Or.inr rfl)
  | array r =>
    simp only [itemToks, List.mem_append, List.mem_cons, List.mem_nil_iff, or_false] at htf
    rcases htf with ((h | h | h) | h) | h
    · subst h; exact pairOK_mk p _ _ (codeTok_ok p w _) (Or.inl rfl)
    · subst h; exact pairOK_mk p _ _ (codeTok_ok p w _) (Or.inl rfl)
    · subst h; exact pairOK_mk p _ _ (by simp [Tok.text]) (Or.inl rfl)
    · exact arrayElems_ok p _ _ (fun t ht => (hit.2.2 t ht).1) _ tf h
    · subst h; exact pairOK_mk p _ _ (by simp [Tok.text]) (Or.inr rfl)

theorem itemToks_last (p : Policy) (w : Nat) (it : Item) :
    ∃ front tok, itemToks p w it = front ++ [(tok, p.eol)] := by
  cases it with
  | char c t => exact ⟨[_], _, rfl⟩
  | offset r => exact ⟨[_, _], _, rfl⟩
  | array r => exact ⟨_, _, rfl⟩

theorem renderToks_item_ends (p : Policy) (w : Nat) (it : Item) :
    ∃ x, renderToks (itemToks p w it) = x ++ p.eol := by
  obtain ⟨front, tok, h⟩ := itemToks_last p w it
  refine ⟨renderToks front ++ tok.text, ?_⟩
  rw [h, renderToks_append]
  simp [renderToks, List.append_assoc]

theorem sectionBody_ends (p : Policy) (w : Nat) (items : List Item) :
    renderToks (items.flatMap (itemToks p w)) = [] ∨
      ∃ x, renderToks (items.flatMap (itemToks p w)) = x ++ p.eol := by
  induction items with
  | nil => exact Or.inl rfl
  | cons it items ih =>
    right
    rw [List.flatMap_cons, renderToks_append]
    obtain ⟨x, hx⟩ := renderToks_item_ends p w it
    rcases ih with h | ⟨y, hy⟩
    · exact ⟨x, by rw [h, List.append_nil, hx]⟩
    · exact ⟨renderToks (itemToks p w it) ++ y, by rw [hy, List.append_assoc]⟩

/-- the hypothesis of `parse_renderProgram` holds for every section of well-formed items -/
theorem bodyOK_sectionBody (p : Policy) (w : Nat) (s : Section) (hs : SectionOK w s) :
    BodyOK (sectionBody p w s) := by
  unfold sectionBody
  constructor
  · intro c hc
    unfold renderToks at hc
    obtain ⟨tf, htf, hc⟩ := List.mem_flatMap.mp hc
    obtain ⟨it, hit, htf⟩ := List.mem_flatMap.mp htf
    exact itemToks_ok p w it (hs it hit).1 tf htf c hc
  · rcases sectionBody_ends p w s.items with h | ⟨x, hx⟩
    · exact Or.inl h
    · right
      rw [hx]
      exact getLast_append_eol p x

end Tabula.CMap
