import TabulaModel.Model.HtmlApi
/-!
Helper lemmas for the depth limit of `htmldoc.OpenReader` (C19, Props/C19Api.lean):
`treeDeeperThan` against the height of the tree, `guarded`, the levels of the nodes of an
admitted tree, nested chains as edge witnesses.
-/
namespace Tabula.Html

/-! ### the iterative walk computes the height -/

mutual
theorem deeper_iff (limit : Nat) : ∀ (n : Dom) (d : Nat), d ≤ limit →
    (deeper limit d n = true ↔ limit < d + depth n)
  | .elem _ _ kids, d, h => by
      rw [deeper, depth]; exact deeperL_iff limit kids d h
  | .other kids, d, h => by
      rw [deeper, depth]; exact deeperL_iff limit kids d h
  | .text _, d, h => by
      simp only [deeper, depth]
      constructor
      · intro x; cases x
      · intro x; omega
theorem deeperL_iff (limit : Nat) : ∀ (ks : List Dom) (d : Nat), d ≤ limit →
    (deeperL limit d ks = true ↔ limit < d + depthL ks)
  | [], d, h => by
      simp only [deeperL, depthL]
      constructor
      · intro x; cases x
      · intro x; omega
  | k :: ks, d, h => by
      have ihs := deeperL_iff limit ks d h
      simp only [deeperL, depthL, Bool.or_eq_true, decide_eq_true_eq]
      by_cases h1 : d + 1 > limit
      · constructor
        · intro _
          have : depth k + 1 ≤ max (depth k + 1) (depthL ks) := Nat.le_max_left _ _
          omega
        · intro _; exact Or.inl (Or.inl h1)
      · have ihk := deeper_iff limit k (d + 1) (by omega)
        rw [ihk, ihs]
        constructor
        · intro x
          rcases x with (x | x) | x
          · omega
          · have : depth k + 1 ≤ max (depth k + 1) (depthL ks) := Nat.le_max_left _ _
            omega
          · have : depthL ks ≤ max (depth k + 1) (depthL ks) := Nat.le_max_right _ _
            omega
        · intro x
          by_cases hc : depth k + 1 ≤ depthL ks
          · exact Or.inr (by omega)
          · exact Or.inl (Or.inr (by omega))
end

/-- `treeDeeperThan(root, limit)` answers whether the height of the tree (edges from the root to
its deepest node) exceeds the limit: strictly greater, a tree of height exactly `limit` passes -/
theorem treeDeeperThan_iff (doc : Dom) (limit : Nat) : treeDeeperThan doc limit = true ↔ limit < depth doc := by
  unfold treeDeeperThan
  rw [deeper_iff limit doc 0 (Nat.zero_le _)]
  simp

theorem treeDeeperThan_eq (doc : Dom) (limit : Nat) : treeDeeperThan doc limit = decide (limit < depth doc) := by
  cases h : treeDeeperThan doc limit
  · have : ¬ limit < depth doc := fun x => by rw [(treeDeeperThan_iff doc limit).mpr x] at h; cases h
    simp [this]
  · simp [(treeDeeperThan_iff doc limit).mp h]

/-! ### guarded -/

theorem guarded_within {α : Type} (doc : Dom) (x : α) (h : depth doc ≤ maxTreeDepth) : guarded doc x = some x := by
  unfold guarded
  rw [treeDeeperThan_eq]
  have : ¬ maxTreeDepth < depth doc := by omega
  simp [this]

theorem guarded_beyond {α : Type} (doc : Dom) (x : α) (h : maxTreeDepth < depth doc) : guarded doc x = none := by
  unfold guarded
  rw [treeDeeperThan_eq]
  simp [h]

theorem guarded_eq_none_iff {α : Type} (doc : Dom) (x : α) : guarded doc x = none ↔ maxTreeDepth < depth doc := by
  constructor
  · intro h
    apply Classical.byContradiction
    intro hn
    rw [guarded_within doc x (by omega)] at h
    cases h
  · exact guarded_beyond doc x

theorem guarded_eq_some {α : Type} (doc : Dom) (x y : α) (h : guarded doc x = some y) :
    depth doc ≤ maxTreeDepth ∧ y = x := by
  by_cases hd : depth doc ≤ maxTreeDepth
  · rw [guarded_within doc x hd] at h
    exact ⟨hd, (Option.some.inj h).symm⟩
  · rw [guarded_beyond doc x (by omega)] at h
    cases h

/-- the trees `OpenReader` admits, said with the height -/
def admitted (doc : Dom) : Bool := decide (depth doc ≤ maxTreeDepth)

theorem guarded_eq {α : Type} (doc : Dom) (x : α) : guarded doc x = if admitted doc then some x else none := by
  unfold admitted
  by_cases h : depth doc ≤ maxTreeDepth
  · rw [guarded_within doc x h]; simp [h]
  · rw [guarded_beyond doc x (by omega)]; simp [h]

/-! ### every node of an admitted tree sits at a level of at most the limit -/

mutual
/-- every node below (and including) a node at level `l`, with its level: the number of frames a
walk that recurses once per child level has open when it visits the node, less one -/
def nodesAt : Nat → Dom → List (Nat × Dom)
  | l, .elem t a kids => (l, .elem t a kids) :: nodesAtL (l + 1) kids
  | l, .other kids => (l, .other kids) :: nodesAtL (l + 1) kids
  | l, .text s => [(l, .text s)]
def nodesAtL : Nat → List Dom → List (Nat × Dom)
  | _, [] => []
  | l, k :: ks => nodesAt l k ++ nodesAtL l ks
end

mutual
theorem nodesAt_level : ∀ (n : Dom) (l : Nat) (x : Nat × Dom), x ∈ nodesAt l n → x.1 + depth x.2 ≤ l + depth n
  | .elem t a kids, l, x, h => by
      rw [nodesAt, List.mem_cons] at h
      rcases h with h | h
      · subst h; exact Nat.le_refl _
      · have := nodesAtL_level kids (l + 1) x h
        rw [depth]
        cases kids with
        | nil => rw [nodesAtL] at h; cases h
        | cons k ks => omega
  | .other kids, l, x, h => by
      rw [nodesAt, List.mem_cons] at h
      rcases h with h | h
      · subst h; exact Nat.le_refl _
      · have := nodesAtL_level kids (l + 1) x h
        rw [depth]
        cases kids with
        | nil => rw [nodesAtL] at h; cases h
        | cons k ks => omega
  | .text s, l, x, h => by
      rw [nodesAt, List.mem_singleton] at h
      subst h; exact Nat.le_refl _
/-- for the children of a node: level + height ≤ (level of the children − 1) + height of the parent -/
theorem nodesAtL_level : ∀ (ks : List Dom) (l : Nat) (x : Nat × Dom), x ∈ nodesAtL l ks →
    x.1 + depth x.2 + 1 ≤ l + depthL ks
  | [], _, x, h => by rw [nodesAtL] at h; cases h
  | k :: ks, l, x, h => by
      rw [nodesAtL, List.mem_append] at h
      rw [depthL]
      rcases h with h | h
      · have := nodesAt_level k l x h
        have : depth k + 1 ≤ max (depth k + 1) (depthL ks) := Nat.le_max_left _ _
        omega
      · have := nodesAtL_level ks l x h
        have : depthL ks ≤ max (depth k + 1) (depthL ks) := Nat.le_max_right _ _
        omega
end

/-! ### body is a subtree -/

mutual
theorem findBody_depth : ∀ (n b : Dom), findBody n = some b → depth b ≤ depth n
  | .elem tag attrs kids, b, h => by
      rw [findBody] at h
      split at h
      · cases h; exact Nat.le_refl _
      · have := findBodyL_depth kids b h
        rw [depth]; omega
  | .other kids, b, h => by
      rw [findBody] at h
      have := findBodyL_depth kids b h
      rw [depth]; omega
  | .text _, b, h => by rw [findBody] at h; cases h
theorem findBodyL_depth : ∀ (ks : List Dom) (b : Dom), findBodyL ks = some b → depth b + 1 ≤ depthL ks
  | [], b, h => by rw [findBodyL] at h; cases h
  | k :: ks, b, h => by
      rw [findBodyL] at h
      rw [depthL]
      split at h
      · rename_i b' hk
        cases h
        have := findBody_depth k b hk
        have : depth k + 1 ≤ max (depth k + 1) (depthL ks) := Nat.le_max_left _ _
        omega
      · have := findBodyL_depth ks b h
        have : depthL ks ≤ max (depth k + 1) (depthL ks) := Nat.le_max_right _ _
        omega
end

/-- the subtree the extraction walks (`body`, or the document when there is none) is no deeper
than the document -/
theorem bodyOf_depth_le (doc : Dom) : depth (bodyOf doc) ≤ depth doc := by
  unfold bodyOf
  cases h : findBody doc with
  | none => exact Nat.le_refl _
  | some b => exact findBody_depth doc b h

/-! ### edge witnesses: `n` elements nested in each other around a node -/

/-- `<tag><tag>…t…</tag></tag>`, `n` deep -/
def nest (tag : Str) : Nat → Dom → Dom
  | 0, t => t
  | n + 1, t => .elem tag [] [nest tag n t]

theorem depth_nest (tag : Str) (t : Dom) : ∀ n, depth (nest tag n t) = n + depth t
  | 0 => by simp [nest]
  | n + 1 => by
      rw [nest, depth, depthL, depthL, depth_nest tag t n]
      simp; omega

/-- document → html → body → p → `n` nested spans → one text node: height `n + 4` -/
def nestedDoc (n : Nat) (s : Str) : Dom :=
  .other [.elem [104, 116, 109, 108] [] [.elem T.body [] [.elem T.p [] [nest [115, 112, 97, 110] n (.text s)]]]]

theorem depth_nestedDoc (n : Nat) (s : Str) : depth (nestedDoc n s) = n + 4 := by
  simp only [nestedDoc, depth, depthL, depth_nest]
  simp

end Tabula.Html
