import TabulaModel.Model.Spell
/-! The two-token window of `core.Parser` (`currentToken`, `peekToken`) as a function of the unread
bytes: `stateAt inp` is the parser state `NewParser` builds on `inp`; advancing it by one token is the
state built on what the first token leaves unread. -/
namespace Tabula.Pdf

/-- the parser state on the bytes `inp` (both lookahead tokens loaded) -/
def stateAt (inp : Str) : PState := newParser inp

/-- the state after the first `nextToken` call of `NewParser` -/
def half (inp : Str) : PState := PState.next { cur := none, peek := none, inp := inp, err := false }

theorem stateAt_def (inp : Str) : stateAt inp = (half inp).next := rfl

theorem half_cur (inp : Str) : (half inp).cur = none := by
  unfold half PState.next
  simp only [reduceCtorEq, if_false, Bool.false_eq_true]
  split <;> rfl

theorem stateAt_cur (inp : Str) : (stateAt inp).cur = (half inp).peek := by
  rw [stateAt_def]
  generalize half inp = s
  unfold PState.next
  split
  · rfl
  · split
    · rfl
    · split <;> rfl

theorem half_of_lex (inp : Str) (t : Token) (r : Str) (h : lexSkip (inp.length + 1) inp = some (t, r)) :
    half inp = { cur := none, peek := some t, inp := r, err := false } := by
  unfold half PState.next
  simp only [reduceCtorEq, if_false, Bool.false_eq_true, h]

/-- the first token of the input is the current token -/
theorem stateAt_cur_of_lex (inp : Str) (t : Token) (r : Str) (h : lexSkip (inp.length + 1) inp = some (t, r)) :
    (stateAt inp).cur = some t := by
  rw [stateAt_cur, half_of_lex inp t r h]

/-- advancing the window by one token = the window on what the first token left unread; no token is
lost or seen twice -/
theorem stateAt_next (inp : Str) (t : Token) (r : Str) (h : lexSkip (inp.length + 1) inp = some (t, r))
    (hs : t ≠ .keyword kwStream) : (stateAt inp).next = stateAt r := by
  rw [stateAt_def, stateAt_def, half_of_lex inp t r h]
  have e1 : (PState.next { cur := none, peek := some t, inp := r, err := false }) =
      { cur := some t, peek := (half r).peek, inp := (half r).inp, err := (half r).err } := by
    unfold half PState.next
    have : (some t = some (Token.keyword kwStream)) = False := by simp [hs]
    simp only [this, if_false, reduceCtorEq, Bool.false_eq_true]
    split <;> rfl
  rw [e1]
  have e2 : half r = { cur := none, peek := (half r).peek, inp := (half r).inp, err := (half r).err } := by
    have := half_cur r
    cases hh : half r with
    | mk c p i e => rw [hh] at this; simp at this; subst this; rfl
  rw [e2]
  unfold PState.next
  simp only

/-- the lookahead token is the first token of what the first token left unread -/
theorem stateAt_peek (inp : Str) (t : Token) (r : Str) (h : lexSkip (inp.length + 1) inp = some (t, r))
    (hs : t ≠ .keyword kwStream) : (stateAt inp).peek = (stateAt r).cur := by
  rw [stateAt_cur r, stateAt_def, half_of_lex inp t r h]
  unfold half PState.next
  have : (some t = some (Token.keyword kwStream)) = False := by simp [hs]
  simp only [this, if_false, reduceCtorEq, Bool.false_eq_true]
  split <;> rfl

theorem stateAt_err_false (inp : Str) (t : Token) (r : Str) (t2 : Token) (r2 : Str)
    (h : lexSkip (inp.length + 1) inp = some (t, r)) (hs : t ≠ .keyword kwStream)
    (h2 : lexSkip (r.length + 1) r = some (t2, r2)) : (stateAt inp).err = false := by
  rw [stateAt_def, half_of_lex inp t r h]
  unfold PState.next
  have : (some t = some (Token.keyword kwStream)) = False := by simp [hs]
  simp only [this, if_false, Bool.false_eq_true, h2]

end Tabula.Pdf
