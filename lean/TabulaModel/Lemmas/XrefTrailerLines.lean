import TabulaModel.Lemmas.XrefClassic
/-!
The trailer dictionary of a classic cross-reference table spelled over SEVERAL lines: the
scanner (`linesOf`) on a text whose only end-of-line bytes are line feeds, and the loop of
`parseTrailer` (`trailerText`) putting the text together again.
-/
namespace Tabula.XrefFile
open Tabula.XrefBytes Tabula.A1 Tabula.Pdf

/-! ### the LF-separated lines of a text -/

/-- the first LF-separated line of a text, and the lines after it -/
def lfSplit : Str → Str × List Str
  | [] => ([], [])
  | c :: r =>
    if c = 10 then ([], (lfSplit r).1 :: (lfSplit r).2)
    else (c :: (lfSplit r).1, (lfSplit r).2)

/-- the LF-separated lines of a text (`strings.Split(t, "\n")`): never empty; a text ending in
LF has a last line `[]` -/
def lfLines (t : Str) : List Str := (lfSplit t).1 :: (lfSplit t).2

/-- `strings.Join(l :: ls, "\n")` -/
def joinLf (l : Str) : List Str → Str
  | [] => l
  | l' :: ls => l ++ 10 :: joinLf l' ls

theorem lfLines_nil : lfLines [] = [[]] := rfl

theorem lfLines_cons (c : Nat) (r : Str) :
    lfLines (c :: r) = if c = 10 then [] :: lfLines r else (c :: (lfSplit r).1) :: (lfSplit r).2 := by
  unfold lfLines
  simp only [lfSplit]
  split <;> rfl

theorem joinLf_cons (c : Nat) (l : Str) (ls : List Str) : joinLf (c :: l) ls = c :: joinLf l ls := by
  cases ls <;> simp [joinLf]

theorem joinLf_lfSplit (t : Str) : joinLf (lfSplit t).1 (lfSplit t).2 = t := by
  induction t with
  | nil => rfl
  | cons c r ih =>
    simp only [lfSplit]
    split
    · rename_i h; subst h; simp only [joinLf, ih, List.nil_append]
    · simp only [joinLf_cons, ih]

/-- a line of the text has no LF, and its bytes are bytes of the text -/
theorem lfLines_mem (t : Str) : ∀ l ∈ lfLines t, ∀ c ∈ l, c ≠ 10 ∧ c ∈ t := by
  induction t with
  | nil => intro l hl c hc; simp [lfLines_nil] at hl; subst hl; simp at hc
  | cons x r ih =>
    intro l hl c hc
    rw [lfLines_cons] at hl
    split at hl
    · simp only [List.mem_cons] at hl
      rcases hl with rfl | hl
      · simp at hc
      · have := ih l (by simpa [lfLines] using hl) c hc
        exact ⟨this.1, by simp [this.2]⟩
    · rename_i hx
      simp only [List.mem_cons] at hl
      rcases hl with rfl | hl
      · simp only [List.mem_cons] at hc
        rcases hc with rfl | hc
        · exact ⟨hx, by simp⟩
        · have := ih (lfSplit r).1 (by simp [lfLines]) c hc
          exact ⟨this.1, by simp [this.2]⟩
      · have := ih l (by simp [lfLines, hl]) c hc
        exact ⟨this.1, by simp [this.2]⟩

theorem lfLines_noEol (t : Str) (hcr : 13 ∉ t) : ∀ l ∈ lfLines t, NoEol l := by
  intro l hl c hc
  have := lfLines_mem t l hl c hc
  exact ⟨this.1, fun h => hcr (h ▸ this.2)⟩

/-! ### the scanner on such a text -/

theorem followOk_lf (rest : Str) : Eol.lf.FollowOk rest := fun h => by cases h

/-- lines without end-of-line bytes that fit the buffer, LF between them, any end-of-line
marker behind the last: the scanner delivers them one by one -/
theorem linesOf_joinLf (e : Eol) (rest : Str) (hr : e.FollowOk rest) (ls : List Str) :
    ∀ l : Str, (∀ x ∈ l :: ls, NoEol x ∧ x.length ≤ 65534) →
      linesOf (joinLf l ls ++ (e.bytes ++ rest)) = (l :: ls ++ (linesOf rest).1, (linesOf rest).2) := by
  induction ls with
  | nil =>
    intro l h
    have hl := h l (by simp)
    simp only [joinLf]
    rw [linesOf_line l hl.1 hl.2 e rest hr]
    simp
  | cons l' ls ih =>
    intro l h
    have hl := h l (by simp)
    have e1 : joinLf l (l' :: ls) ++ (e.bytes ++ rest) =
        l ++ (Eol.lf.bytes ++ (joinLf l' ls ++ (e.bytes ++ rest))) := by
      simp [joinLf, Eol.bytes]
    rw [e1, linesOf_line l hl.1 hl.2 .lf _ (followOk_lf _),
      ih l' (fun x hx => h x (by simp only [List.mem_cons] at hx ⊢; exact Or.inr hx))]
    simp

/-- **the scanner on a multi-line text**: a text without CR whose LF-separated lines all fit
the buffer, followed by an end-of-line marker, comes out as exactly its LF-separated lines;
the scanner then goes on behind the marker -/
theorem linesOf_text (t : Str) (hcr : 13 ∉ t) (hfit : ∀ l ∈ lfLines t, l.length ≤ 65534)
    (e : Eol) (rest : Str) (hr : e.FollowOk rest) :
    linesOf (t ++ (e.bytes ++ rest)) = (lfLines t ++ (linesOf rest).1, (linesOf rest).2) := by
  have h := linesOf_joinLf e rest hr (lfSplit t).2 (lfSplit t).1
    (fun x hx => ⟨lfLines_noEol t hcr x hx, hfit x hx⟩)
  rw [joinLf_lfSplit] at h
  exact h

/-- … with LF itself as the marker: `linesOf (t ++ 10 :: k)` -/
theorem linesOf_text_lf (t : Str) (hcr : 13 ∉ t) (hfit : ∀ l ∈ lfLines t, l.length ≤ 65534) (k : Str) :
    linesOf (t ++ 10 :: k) = (lfLines t ++ (linesOf k).1, (linesOf k).2) :=
  linesOf_text t hcr hfit .lf k (followOk_lf k)

theorem followOk_append (e : Eol) (t k : Str) (hne : t ≠ []) (h : e.FollowOk t) : e.FollowOk (t ++ k) := by
  intro he t' heq
  cases t with
  | nil => exact hne rfl
  | cons c r =>
    simp only [List.cons_append, List.cons.injEq] at heq
    exact h he r (by rw [heq.1])

/-- the lines of a rendered table whose trailer text runs over several lines: `xref`, headers
and entries, `trailer`, the LF-separated lines of the text, then whatever the rest of the file
yields (`linesOf_classic` is the case of one line) -/
theorem linesOf_classic_lines (eol : Eol) (ee : EntEol) (subs : List CSub) (hss : ∀ s ∈ subs, s.Ok)
    (trailer rest : Str) (hcr : 13 ∉ trailer) (hfit : ∀ l ∈ lfLines trailer, l.length ≤ 65534)
    (hne : trailer ≠ []) (hfirst : eol.FollowOk trailer) (hrest : eol.FollowOk rest) :
    linesOf (renderClassic eol ee subs trailer rest) =
      (kwXref :: (subLines ee subs ++ kwTrailer :: (lfLines trailer ++ (linesOf rest).1)),
        (linesOf rest).2) := by
  unfold renderClassic
  have hk := kwTrailer_notLf (eol.bytes ++ (trailer ++ (eol.bytes ++ rest)))
  rw [linesOf_line kwXref kwXref_noEol (by decide) eol _
    (followOk_of_notLf _ _ (renderSubs_notLf eol ee subs _ hk))]
  rw [linesOf_subs eol ee subs hss _ hk]
  rw [linesOf_line kwTrailer kwTrailer_noEol (by decide) eol _ (followOk_append eol _ _ hne hfirst)]
  rw [linesOf_text trailer hcr hfit eol rest hrest]

/-- the same when the marker is a lone CR and the text begins with LF: `trailer CR LF` is one
end of line, and the scanner does not deliver the empty first line of the text -/
theorem linesOf_classic_lines_crlf (ee : EntEol) (subs : List CSub) (hss : ∀ s ∈ subs, s.Ok)
    (t' rest : Str) (hcr : 13 ∉ t') (hfit : ∀ l ∈ lfLines t', l.length ≤ 65534)
    (hrest : Eol.cr.FollowOk rest) :
    linesOf (renderClassic .cr ee subs (10 :: t') rest) =
      (kwXref :: (subLines ee subs ++ kwTrailer :: (lfLines t' ++ (linesOf rest).1)),
        (linesOf rest).2) := by
  unfold renderClassic
  have e : kwTrailer ++ (Eol.cr.bytes ++ ((10 :: t') ++ (Eol.cr.bytes ++ rest))) =
      kwTrailer ++ (Eol.crlf.bytes ++ (t' ++ (Eol.cr.bytes ++ rest))) := by
    simp [Eol.bytes]
  rw [e]
  have hk := kwTrailer_notLf (Eol.crlf.bytes ++ (t' ++ (Eol.cr.bytes ++ rest)))
  rw [linesOf_line kwXref kwXref_noEol (by decide) .cr _
    (followOk_of_notLf _ _ (renderSubs_notLf .cr ee subs _ hk))]
  rw [linesOf_subs .cr ee subs hss _ hk]
  rw [linesOf_line kwTrailer kwTrailer_noEol (by decide) .crlf _ (fun h => by cases h)]
  rw [linesOf_text t' hcr hfit .cr rest hrest]

/-- the first line of a rendered table is `xref`, whatever the trailer text -/
theorem linesOf_classic_head (eol : Eol) (ee : EntEol) (subs : List CSub) (trailer rest : Str) :
    ∃ ls, (linesOf (renderClassic eol ee subs trailer rest)).1 = kwXref :: ls := by
  unfold renderClassic
  have hk := kwTrailer_notLf (eol.bytes ++ (trailer ++ (eol.bytes ++ rest)))
  rw [linesOf_line kwXref kwXref_noEol (by decide) eol _
    (followOk_of_notLf _ _ (renderSubs_notLf eol ee subs _ hk))]
  exact ⟨_, rfl⟩

/-- `ParseXRef(offset)` at the offset where a rendered table starts is `parseTraditionalXRef`
on the scanner's lines from there, whatever precedes the table -/
theorem parseXRef_renderClassic (ext : Reader.Ext) (before : Str) (eol : Eol) (ee : EntEol)
    (subs : List CSub) (trailer rest : Str) :
    parseXRef ext (before ++ renderClassic eol ee subs trailer rest) before.length =
      parseClassic (linesOf (renderClassic eol ee subs trailer rest)).1
        (linesOf (renderClassic eol ee subs trailer rest)).2 := by
  unfold parseXRef
  have hneg : ¬ ((before.length : Int) < 0) := by omega
  simp only [hneg, if_false, Int.toNat_natCast, List.drop_left]
  obtain ⟨ls, hls⟩ := linesOf_classic_head eol ee subs trailer rest
  rw [hls]
  simp only [trimSpaceU_kwXref, if_true]

theorem lfLines_lf (t : Str) : lfLines (10 :: t) = [] :: lfLines t := by
  rw [lfLines_cons]; simp

theorem lfLines_ne_nil (t : Str) : lfLines t ≠ [] := by simp [lfLines]

/-- a text without any end-of-line byte is its own single line -/
theorem lfLines_of_noEol (t : Str) (h : NoEol t) : lfLines t = [t] := by
  induction t with
  | nil => rfl
  | cons c r ih =>
    have hc := (h c (by simp)).1
    have := ih (fun x hx => h x (by simp [hx]))
    rw [lfLines_cons]
    simp only [hc, if_false]
    simp only [lfLines, List.cons.injEq] at this
    rw [this.1, this.2]

/-! ### `parseTrailer` puts the lines together again -/

theorem containsGtGt_cons_inv (c : Nat) (r : Str) (h : containsGtGt (c :: r) = true) :
    (c = 62 ∧ ∃ r', r = 62 :: r') ∨ containsGtGt r = true := by
  unfold containsGtGt at h
  split at h
  · rename_i heq
    simp only [List.cons.injEq] at heq
    exact Or.inl ⟨heq.1, _, heq.2⟩
  · rename_i heq
    simp only [List.cons.injEq] at heq
    obtain ⟨_, rfl⟩ := heq
    exact Or.inr h
  · rename_i heq; simp at heq

/-- `>>` cannot straddle a line feed -/
theorem containsGtGt_lf (a b : Str) (h : containsGtGt (a ++ 10 :: b) = true) :
    containsGtGt a = true ∨ containsGtGt b = true := by
  induction a with
  | nil =>
    rcases containsGtGt_cons_inv 10 b h with ⟨h10, _⟩ | h'
    · exact absurd h10 (by decide)
    · exact Or.inr h'
  | cons c a ih =>
    rcases containsGtGt_cons_inv c _ h with ⟨hc, r', hr'⟩ | h'
    · replace hr' : a ++ 10 :: b = 62 :: r' := hr'
      clear ih h
      cases a with
      | nil =>
        simp only [List.nil_append, List.cons.injEq] at hr'
        exact absurd hr'.1 (by decide)
      | cons d a =>
        simp only [List.cons_append, List.cons.injEq] at hr'
        subst hc
        rw [hr'.1]
        exact Or.inl (by simp [containsGtGt])
    · rcases ih h' with h1 | h2
      · exact Or.inl (containsGtGt_cons c a h1)
      · exact Or.inr h2

theorem containsGtGt_false_of_append (a b : Str) (h : containsGtGt (a ++ b) = false) :
    containsGtGt b = false := by
  cases hb : containsGtGt b with
  | false => rfl
  | true => rw [containsGtGt_append a b hb] at h; exact h

/-- **the loop of `parseTrailer` on several lines**: when no line but the last contains `>>`
and the text as a whole does, the loop reads every line and returns the text, LF behind every
line — the text as written followed by one LF -/
theorem trailerText_joinLf (more : List Str) (ls : List Str) :
    ∀ l : Str, (∀ x ∈ (l :: ls).dropLast, containsGtGt x = false) → containsGtGt (joinLf l ls) = true →
      trailerText (l :: ls ++ more) = (joinLf l ls ++ [10], false) := by
  induction ls with
  | nil =>
    intro l _ hgt
    simp only [joinLf] at hgt
    simp [trailerText, joinLf, hgt]
  | cons l' ls ih =>
    intro l hno hgt
    have hl : containsGtGt l = false := hno l (by simp [List.dropLast])
    have hrest : containsGtGt (joinLf l' ls) = true := by
      simp only [joinLf] at hgt
      rcases containsGtGt_lf _ _ hgt with h | h
      · rw [hl] at h; cases h
      · exact h
    have := ih l' (fun x hx => hno x (by
      simp only [List.dropLast_cons_cons, List.mem_cons] at hx ⊢
      exact Or.inr hx)) hrest
    simp only [List.cons_append] at this ⊢
    rw [trailerText]
    simp only [hl, Bool.false_eq_true, if_false]
    rw [this]
    simp [joinLf]

theorem trailerText_text (t : Str) (more : List Str)
    (hno : ∀ l ∈ (lfLines t).dropLast, containsGtGt l = false) (hgt : containsGtGt t = true) :
    trailerText (lfLines t ++ more) = (t ++ [10], false) := by
  have h := trailerText_joinLf more (lfSplit t).2 (lfSplit t).1 hno (by rw [joinLf_lfSplit]; exact hgt)
  rw [joinLf_lfSplit] at h
  exact h

/-- the `trailer` line followed by a dictionary over several lines (`classicLoop_trailer` is
the case of one line) -/
theorem classicLoop_trailer_lines (tl : Bool) (t : Str) (kv : Reader.Dict) (st : PState) (more : List Str)
    (n : Int) (acc : RawSection)
    (hno : ∀ l ∈ (lfLines t).dropLast, containsGtGt l = false) (hgt : containsGtGt t = true)
    (hp : coreParse (t ++ [10]) = .ok (.dict kv, st)) :
    classicLoop tl (kwTrailer :: (lfLines t ++ more)) 0 n acc = .ok (acc, kv) := by
  have hne : kwTrailer ≠ [] := by decide
  simp only [classicLoop, trimSpaceU_kwTrailer, hne, if_false, if_true, parseTrailer,
    trailerText_text t more hno hgt, hp]
  simp

/-! ### the same hypotheses stated on the text instead of on its lines -/

theorem joinLf_noGtGt (ls : List Str) :
    ∀ l : Str, (∀ a b, joinLf l ls = a ++ 10 :: b → containsGtGt a = false) →
      ∀ x ∈ (l :: ls).dropLast, containsGtGt x = false := by
  induction ls with
  | nil => intro l _ x hx; simp [List.dropLast] at hx
  | cons l' ls ih =>
    intro l h x hx
    simp only [List.dropLast_cons_cons, List.mem_cons] at hx
    rcases hx with rfl | hx
    · exact h x (joinLf l' ls) rfl
    · refine ih l' (fun a b hab => ?_) x hx
      have := h (l ++ 10 :: a) b (by simp [joinLf, hab])
      exact containsGtGt_false_of_append (l ++ [10]) a (by simpa using this)

/-- no `>>` before the last line feed of the text: no line but the last contains `>>` -/
theorem lfLines_noGtGt (t : Str) (h : ∀ a b, t = a ++ 10 :: b → containsGtGt a = false) :
    ∀ l ∈ (lfLines t).dropLast, containsGtGt l = false :=
  joinLf_noGtGt (lfSplit t).2 (lfSplit t).1 (by rw [joinLf_lfSplit]; exact h)

theorem joinLf_fit (N : Nat) (ls : List Str) :
    ∀ l : Str, (∀ x ∈ l :: ls, 10 ∉ x) →
      (∀ a x b, joinLf l ls = a ++ x ++ b → 10 ∉ x → x.length ≤ N) →
      ∀ x ∈ l :: ls, x.length ≤ N := by
  induction ls with
  | nil =>
    intro l h10 h x hx
    simp at hx; subst hx
    exact h [] x [] (by simp [joinLf]) (h10 x (by simp))
  | cons l' ls ih =>
    intro l h10 h x hx
    simp only [List.mem_cons] at hx
    rcases hx with rfl | hx
    · exact h [] x (10 :: joinLf l' ls) (by simp [joinLf]) (h10 x (by simp))
    · refine ih l' (fun y hy => h10 y (by simp only [List.mem_cons] at hy ⊢; exact Or.inr hy))
        (fun a y b hab hy => ?_) x (by simpa using hx)
      exact h (l ++ 10 :: a) y b (by simp [joinLf, hab]) hy

/-- every stretch of the text without LF fits: every line fits -/
theorem lfLines_fit (N : Nat) (t : Str) (h : ∀ a l b, t = a ++ l ++ b → 10 ∉ l → l.length ≤ N) :
    ∀ l ∈ lfLines t, l.length ≤ N :=
  joinLf_fit N (lfSplit t).2 (lfSplit t).1
    (fun x hx hm => (lfLines_mem t x hx 10 hm).1 rfl) (by rw [joinLf_lfSplit]; exact h)

/-! ### … and back: the two statements of each hypothesis are equivalent -/

/-- `strings.Split(a + "\n" + b, "\n")` -/
theorem lfLines_append_lf (a b : Str) : lfLines (a ++ 10 :: b) = lfLines a ++ lfLines b := by
  induction a with
  | nil => rw [List.nil_append, lfLines_lf, lfLines_nil]; rfl
  | cons c a ih =>
    rw [List.cons_append, lfLines_cons, lfLines_cons]
    by_cases hc : c = 10
    · simp only [hc, if_true, ih, List.cons_append]
    · simp only [hc, if_false]
      simp only [lfLines, List.cons_append, List.cons.injEq] at ih
      rw [ih.1, ih.2]
      rfl

theorem joinLf_noGtGt_all (ls : List Str) :
    ∀ l : Str, (∀ x ∈ l :: ls, containsGtGt x = false) → containsGtGt (joinLf l ls) = false := by
  induction ls with
  | nil => intro l h; exact h l (by simp)
  | cons l' ls ih =>
    intro l h
    have h1 := h l (by simp)
    have h2 := ih l' (fun x hx => h x (by simp only [List.mem_cons] at hx ⊢; exact Or.inr hx))
    simp only [joinLf]
    cases hc : containsGtGt (l ++ 10 :: joinLf l' ls) with
    | false => rfl
    | true =>
      rcases containsGtGt_lf _ _ hc with h' | h'
      · rw [h1] at h'; cases h'
      · rw [h2] at h'; cases h'

theorem noGtGt_of_lfLines (t : Str) (h : ∀ l ∈ (lfLines t).dropLast, containsGtGt l = false) :
    ∀ a b, t = a ++ 10 :: b → containsGtGt a = false := by
  intro a b hab
  subst hab
  rw [lfLines_append_lf, List.dropLast_append_of_ne_nil (lfLines_ne_nil b)] at h
  have := joinLf_noGtGt_all (lfSplit a).2 (lfSplit a).1 (fun x hx => h x (List.mem_append_left _ hx))
  rw [joinLf_lfSplit] at this
  exact this

theorem lfSplit_append_no10 (x b : Str) (h : 10 ∉ x) : (lfSplit (x ++ b)).1 = x ++ (lfSplit b).1 := by
  induction x with
  | nil => rfl
  | cons c x ih =>
    have hc : c ≠ 10 := fun e => h (by simp [e])
    simp only [List.cons_append, lfSplit, hc, if_false]
    rw [ih (fun hm => h (List.mem_cons_of_mem _ hm))]

/-- the first line of `y` is the end of a line of `a ++ y` -/
theorem lfLines_first_le (a y : Str) : ∃ L ∈ lfLines (a ++ y), (lfSplit y).1.length ≤ L.length := by
  induction a with
  | nil => exact ⟨(lfSplit y).1, by simp [lfLines], Nat.le_refl _⟩
  | cons c a ih =>
    obtain ⟨L, hL, hle⟩ := ih
    rw [List.cons_append, lfLines_cons]
    by_cases hc : c = 10
    · simp only [hc, if_true]
      exact ⟨L, List.mem_cons_of_mem _ hL, hle⟩
    · simp only [hc, if_false]
      simp only [lfLines, List.mem_cons] at hL
      rcases hL with rfl | hL
      · exact ⟨c :: (lfSplit (a ++ y)).1, by simp, by simp; omega⟩
      · exact ⟨L, List.mem_cons_of_mem _ hL, hle⟩

theorem fit_of_lfLines (N : Nat) (t : Str) (h : ∀ l ∈ lfLines t, l.length ≤ N) :
    ∀ a l b, t = a ++ l ++ b → 10 ∉ l → l.length ≤ N := by
  intro a l b hab hl
  subst hab
  rw [List.append_assoc] at h
  obtain ⟨L, hL, hle⟩ := lfLines_first_le a (l ++ b)
  have := h L hL
  rw [lfSplit_append_no10 l b hl, List.length_append] at hle
  omega

end Tabula.XrefFile
