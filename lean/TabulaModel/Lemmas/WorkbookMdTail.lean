import TabulaModel.Lemmas.WorkbookMdAll
import TabulaModel.Lemmas.WorkbookTrim
import TabulaModel.Lemmas.WorkbookText
/-!
The Markdown of several sheets read back sheet by sheet, for every workbook (C17): also when
sheets without content come last, where `strings.TrimSpace` cuts into the last heading lines.
-/
namespace Tabula.Wb
open Tabula.A1 Tabula.Sheet

/-! ## lines that are no table lines -/

theorem nonPipe_prefix (l' l : Str) (hp : l' <+: l) (hl : l = [] ∨ isHeading l = true) : mdParseLine l' = none := by
  cases l' with
  | nil => rfl
  | cons a t =>
    obtain ⟨suf, hs⟩ := hp
    rcases hl with rfl | hl
    · simp at hs
    · rw [← hs] at hl
      simp only [isHeading, List.cons_append, List.head?_cons, beq_iff_eq, Option.some.injEq] at hl
      subst hl
      simp [mdParseLine]

/-- the lines of a prefix of a text are prefixes of the text's lines (or empty) -/
theorem prefix_lines (G : List Str) (hG : ∀ g ∈ G, 10 ∉ g) (T' : Str) (hp : T' <+: G.flatMap nl) :
    ∀ l ∈ splitOn 10 T', l = [] ∨ ∃ g ∈ G, l <+: g := by
  induction G generalizing T' with
  | nil =>
    have : T' = [] := by simpa using hp
    subst this
    intro l hl
    simp [splitOn, splitAux] at hl
    exact Or.inl hl
  | cons g G ih =>
    obtain ⟨suf, hs⟩ := hp
    simp only [List.flatMap_cons, nl, List.append_assoc, List.singleton_append] at hs
    have hg := hG g (by simp)
    rcases List.append_eq_append_iff.mp hs with ⟨a', h1, h2⟩ | ⟨c', h1, h2⟩
    · -- T' is a prefix of g
      have hT : 10 ∉ T' := fun h => hg (by rw [h1]; simp [h])
      intro l hl
      have : splitOn 10 T' = [T'] := by
        have := splitAux_append_clean 10 T' [] [] hT
        simp only [List.append_nil] at this
        unfold splitOn; rw [this]; simp [splitAux]
      rw [this] at hl
      simp only [List.mem_singleton] at hl
      exact Or.inr ⟨g, by simp, ⟨a', by rw [hl, h1]⟩⟩
    · cases c' with
      | nil =>
        simp only [List.append_nil] at h1
        intro l hl
        have : splitOn 10 T' = [T'] := by
          have := splitAux_append_clean 10 T' [] [] (by rw [h1]; exact hg)
          simp only [List.append_nil] at this
          unfold splitOn; rw [this]; simp [splitAux]
        rw [this] at hl
        simp only [List.mem_singleton] at hl
        exact Or.inr ⟨g, by simp, ⟨[], by rw [hl, h1]; simp⟩⟩
      | cons d c'' =>
        simp only [List.cons_append, List.cons.injEq] at h2
        obtain ⟨hd, h2⟩ := h2
        subst hd
        intro l hl
        rw [h1, splitOn_append_sep] at hl
        have hsg : splitOn 10 g = [g] := by
          have := splitAux_append_clean 10 g [] [] hg
          simp only [List.append_nil] at this
          unfold splitOn; rw [this]; simp [splitAux]
        rw [hsg] at hl
        simp only [List.singleton_append, List.mem_cons] at hl
        rcases hl with rfl | hl
        · exact Or.inr ⟨l, by simp, List.prefix_refl _⟩
        · rcases ih (fun x hx => hG x (by simp [hx])) c'' ⟨suf, h2.symm⟩ l hl with h | ⟨x, hx, h⟩
          · exact Or.inl h
          · exact Or.inr ⟨x, by simp [hx], h⟩

/-! ## sections with lines after the sheets -/

theorem dropHeadings_sublist (k : Nat) (L : List Str) : (dropHeadings k L).Sublist L := by
  induction L generalizing k with
  | nil => simp [dropHeadings]
  | cons l ls ih =>
    simp only [dropHeadings]
    split
    · cases k with
      | zero => exact List.sublist_cons_self _ _
      | succ k => exact (ih k).trans (List.sublist_cons_self _ _)
    · exact (ih k).trans (List.sublist_cons_self _ _)

theorem filterMap_nonPipe (L : List Str) (h : ∀ l ∈ L, mdParseLine l = none) : L.filterMap mdParseLine = [] := by
  rw [List.filterMap_eq_nil_iff]; exact h

theorem section_nonPipe (k : Nat) (L : List Str) (h : ∀ l ∈ L, mdParseLine l = none) :
    (sectionLines k L).filterMap mdParseLine = [] := by
  apply filterMap_nonPipe
  intro l hl
  exact h l ((dropHeadings_sublist k L).mem ((List.takeWhile_sublist _).mem hl))

/-- sections of the sheets' lines followed by lines that are no table lines: the `k`-th section
reads as the `k`-th sheet's table lines, and there is nothing beyond the sheets -/
theorem section_tail (lvl : Nat) (hl : 1 ≤ lvl) (ss : List Sheet) (G' : List Str)
    (hG : ∀ l ∈ G', mdParseLine l = none) (k : Nat) :
    (sectionLines k (joinSheets (ss.map (sheetLines lvl)) ++ G')).filterMap mdParseLine =
      match ss[k]? with
      | some s => (tableLines s).filterMap mdParseLine
      | none => [] := by
  induction ss generalizing k with
  | nil =>
    simp only [List.map_nil, joinSheets, List.nil_append, List.getElem?_nil]
    exact section_nonPipe k G' hG
  | cons s0 rest ih =>
    have hhead := isHeading_headingLine lvl s0.name hl
    have hnh : ∀ l ∈ ([] : Str) :: tableLines s0, isHeading l = false := by
      intro l hl'
      rcases List.mem_cons.mp hl' with rfl | h
      · rfl
      · exact tableLines_not_heading s0 l h
    -- what follows the first sheet's lines
    have hj : ∃ tail, joinSheets ((s0 :: rest).map (sheetLines lvl)) ++ G' =
        headingLine lvl s0.name :: ((([] : Str) :: tableLines s0) ++ tail) ∧
        (rest = [] ∧ tail = G' ∨
         rest ≠ [] ∧ tail = [] :: [] :: (joinSheets (rest.map (sheetLines lvl)) ++ G')) := by
      cases rest with
      | nil => exact ⟨G', by simp [joinSheets, sheetLines], Or.inl ⟨rfl, rfl⟩⟩
      | cons s1 rest' => exact ⟨_, by simp [joinSheets, sheetLines], Or.inr ⟨by simp, rfl⟩⟩
    obtain ⟨tail, hj, htail⟩ := hj
    unfold sectionLines
    rw [hj]
    cases k with
    | zero =>
      simp only [dropHeadings, hhead, if_true, List.getElem?_cons_zero]
      rw [takeWhile_not_heading _ _ hnh, List.filterMap_append, List.filterMap_cons]
      have e0 : mdParseLine ([] : Str) = none := rfl
      simp only [e0]
      suffices h : (tail.takeWhile fun l => !isHeading l).filterMap mdParseLine = [] by rw [h, List.append_nil]
      rcases htail with ⟨_, ht⟩ | ⟨hne, rfl⟩
      · rw [ht]
        exact filterMap_nonPipe _ (fun l hl' => hG l ((List.takeWhile_sublist _).mem hl'))
      · cases rest with
        | nil => exact absurd rfl hne
        | cons s1 rest' =>
          obtain ⟨xs, hxs⟩ := joinSheets_head lvl s1 rest'
          have hh1 := isHeading_headingLine lvl s1.name hl
          rw [hxs]
          have : List.takeWhile (fun l => !isHeading l)
              (([] : Str) :: [] :: (headingLine lvl s1.name :: xs ++ G')) = [[], []] := by
            simp [hh1, show isHeading ([] : Str) = false from rfl]
          rw [this]; rfl
    | succ k =>
      simp only [dropHeadings, hhead, if_true, List.getElem?_cons_succ]
      rw [dropHeadings_not_heading k _ _ hnh]
      rcases htail with ⟨hr, ht⟩ | ⟨hne, rfl⟩
      · subst hr
        rw [ht]
        simp only [List.getElem?_nil]
        have := section_nonPipe k G' hG
        unfold sectionLines at this
        exact this
      · have e : dropHeadings k (([] : Str) :: [] :: (joinSheets (rest.map (sheetLines lvl)) ++ G')) =
            dropHeadings k (joinSheets (rest.map (sheetLines lvl)) ++ G') := by
          have := dropHeadings_not_heading k [([] : Str), []] (joinSheets (rest.map (sheetLines lvl)) ++ G')
            (by intro l hl'; simp only [List.mem_cons, List.not_mem_nil, or_false] at hl'; rcases hl' with rfl | rfl <;> rfl)
          simpa using this
        rw [e]
        have := ih k
        unfold sectionLines at this
        exact this

/-! ## every workbook -/

theorem split_last {α : Type} (p : α → Bool) (l : List α) :
    (∀ x ∈ l, p x = false) ∨
      ∃ init last trailing, l = init ++ last :: trailing ∧ p last = true ∧ ∀ x ∈ trailing, p x = false := by
  induction l with
  | nil => exact Or.inl (by simp)
  | cons a l ih =>
    rcases ih with h | ⟨init, last, trailing, h1, h2, h3⟩
    · cases hp : p a with
      | false => exact Or.inl (by intro x hx; rcases List.mem_cons.mp hx with rfl | hx; exact hp; exact h x hx)
      | true => exact Or.inr ⟨[], a, l, rfl, hp, h⟩
    · exact Or.inr ⟨a :: init, last, trailing, by rw [h1]; rfl, h2, h3⟩

theorem joinSheets_append (Ls Ms : List (List Str)) (hL : Ls ≠ []) (hM : Ms ≠ []) :
    joinSheets (Ls ++ Ms) = joinSheets Ls ++ [[], []] ++ joinSheets Ms := by
  induction Ls with
  | nil => exact absurd rfl hL
  | cons L rest ih =>
    cases rest with
    | nil =>
      cases Ms with
      | nil => exact absurd rfl hM
      | cons M Ms' => simp [joinSheets]
    | cons L' rest' =>
      have := ih (by simp)
      simp only [List.cons_append] at this ⊢
      simp only [joinSheets, this, List.append_assoc]

theorem tableLines_empty (s : Sheet) (hrect : Rect (s.maxCol + 1) s.rows)
    (h : (findContentBounds s).isEmpty = true) : tableLines s = [] := by
  unfold tableLines
  rw [headers_isEmpty_iff s hrect, h]; rfl

/-- lines of sheets without content: blank or headings, and free of newlines -/
theorem emptySheets_lines (lvl : Nat) (hl : 1 ≤ lvl) (ss : List Sheet)
    (hrect : ∀ s ∈ ss, Rect (s.maxCol + 1) s.rows) (hnames : ∀ s ∈ ss, 10 ∉ s.name)
    (hempty : ∀ s ∈ ss, (findContentBounds s).isEmpty = true) :
    ∀ g ∈ joinSheets (ss.map (sheetLines lvl)), 10 ∉ g ∧ (g = [] ∨ isHeading g = true) := by
  intro g hg
  rcases joinSheets_mem _ g hg with rfl | ⟨L, hL, hg'⟩
  · exact ⟨by simp, Or.inl rfl⟩
  · obtain ⟨t, ht, rfl⟩ := List.mem_map.mp hL
    rw [sheetLines, tableLines_empty t (hrect t ht) (hempty t ht)] at hg'
    simp only [List.append_nil, List.mem_cons, List.not_mem_nil, or_false] at hg'
    rcases hg' with rfl | rfl
    · exact ⟨headingLine_clean lvl t.name (hnames t ht), Or.inr (isHeading_headingLine lvl t.name hl)⟩
    · exact ⟨by simp, Or.inl rfl⟩

/-- the lines of a prefix of such a text are no table lines -/
theorem prefix_nonPipe (G : List Str) (hG : ∀ g ∈ G, 10 ∉ g ∧ (g = [] ∨ isHeading g = true))
    (T' : Str) (hp : T' <+: G.flatMap nl) : ∀ l ∈ splitOn 10 T', mdParseLine l = none := by
  intro l hl
  rcases prefix_lines G (fun g hg => (hG g hg).1) T' hp l hl with rfl | ⟨g, hg, hpre⟩
  · rfl
  · exact nonPipe_prefix l g hpre (hG g hg).2

theorem trimSpace_of_hash (z : List Nat) : HF.trimSpace (35 :: z) = HF.trimRight (35 :: z) := by
  unfold HF.trimSpace
  rw [HF.trimLeft_of_none (stripOne_hash z)]

/-- **the Markdown of any list of sheets, trimmed, read back sheet by sheet** -/
theorem mdReadSheet_general (lvl : Nat) (hl : 1 ≤ lvl) (ss : List Sheet)
    (hrect : ∀ s ∈ ss, Rect (s.maxCol + 1) s.rows) (hnames : ∀ s ∈ ss, 10 ∉ s.name) (k : Nat) :
    mdReadSheet k (HF.trimSpace (intercalate [10, 10] (ss.map (sheetMd lvl)))) =
      match ss[k]? with
      | some s => if (findContentBounds s).isEmpty then [] else (boxTable s).map (·.map pad)
      | none => [] := by
  have e1 : ss.map (sheetMd lvl) = (ss.map (sheetLines lvl)).map fun L => L.flatMap nl := by
    rw [List.map_map]
    apply List.map_congr_left
    intro t ht
    exact sheetMd_lines lvl t (hrect t ht)
  rw [e1, intercalate_sheets]
  unfold mdReadSheet
  cases hss : ss with
  | nil =>
    have : HF.trimSpace ((joinSheets (([] : List Sheet).map (sheetLines lvl))).flatMap nl) = [] := by
      simp only [List.map_nil, joinSheets, List.flatMap_nil]
      decide
    rw [this]
    have := section_nonPipe k (splitOn 10 []) (by intro l hl'; simp [splitOn, splitAux] at hl'; rw [hl']; rfl)
    rw [this]; rfl
  | cons s1 rest1 =>
    rw [← hss]
    obtain ⟨kk, hkk⟩ : ∃ kk, lvl = kk + 1 := ⟨lvl - 1, by omega⟩
    -- the text starts with '#'
    obtain ⟨xs, hxs⟩ := joinSheets_head lvl s1 rest1
    have hstart : ∃ z, (joinSheets (ss.map (sheetLines lvl))).flatMap nl = 35 :: z := by
      rw [hss, hxs, hkk]
      exact ⟨_, by simp [nl, headingLine, List.replicate_succ]; rfl⟩
    obtain ⟨z, hz⟩ := hstart
    rcases split_last (fun s => !(findContentBounds s).isEmpty) ss with hall | ⟨init, last, trailing, hsplit, hlast, htrail⟩
    · -- no sheet has content: no table line anywhere
      have hall' : ∀ s ∈ ss, (findContentBounds s).isEmpty = true := by
        intro s hs; have := hall s hs; simpa using this
      have hlines := emptySheets_lines lvl hl ss hrect hnames hall'
      have hpre : HF.trimSpace ((joinSheets (ss.map (sheetLines lvl))).flatMap nl) <+:
          (joinSheets (ss.map (sheetLines lvl))).flatMap nl := by
        rw [hz, trimSpace_of_hash]
        obtain ⟨suf, hsuf⟩ := HF.trimRight_prefix (35 :: z)
        exact ⟨suf, hsuf.symm⟩
      rw [section_nonPipe k _ (prefix_nonPipe _ hlines _ hpre)]
      cases hk : ss[k]? with
      | none => rfl
      | some s => simp [hall' s (List.mem_of_getElem? hk)]; rfl
    · -- the last sheet with content, and empty sheets after it
      have hlast' : (findContentBounds last).isEmpty = false := by simpa using hlast
      have htrail' : ∀ s ∈ trailing, (findContentBounds s).isEmpty = true := by
        intro s hs; have := htrail s hs; simpa using this
      have hmemf : ∀ s ∈ init ++ [last], s ∈ ss := by
        intro s hs; rw [hsplit]; simp only [List.mem_append, List.mem_cons, List.not_mem_nil, or_false] at hs ⊢
        rcases hs with h | h
        · exact Or.inl h
        · exact Or.inr (Or.inl h)
      have hmemt : ∀ s ∈ trailing, s ∈ ss := by
        intro s hs; rw [hsplit]; simp [hs]
      have hlastne : (sheetToTable last).headers.isEmpty = false := by
        rw [headers_isEmpty_iff last (hrect last (hmemf last (by simp)))]; exact hlast'
      obtain ⟨T, i, hT⟩ := tableLines_last_ends last hlastne
      obtain ⟨pre, hpre⟩ := joinSheets_append_last (init.map (sheetLines lvl)) (sheetLines lvl last)
      have hAf : joinSheets ((init ++ [last]).map (sheetLines lvl)) =
          (pre ++ [headingLine lvl last.name, []] ++ T) ++ [i ++ [124]] := by
        rw [List.map_append, List.map_cons, List.map_nil, hpre]
        unfold sheetLines
        rw [hT]
        simp
      -- the lines after the last table line
      have hG : ∃ G, joinSheets (ss.map (sheetLines lvl)) = joinSheets ((init ++ [last]).map (sheetLines lvl)) ++ G ∧
          ∀ g ∈ G, 10 ∉ g ∧ (g = [] ∨ isHeading g = true) := by
        cases htr : trailing with
        | nil => exact ⟨[], by rw [hsplit, htr]; simp, by simp⟩
        | cons t ts =>
          refine ⟨[[], []] ++ joinSheets (trailing.map (sheetLines lvl)), ?_, ?_⟩
          · have : ss = (init ++ [last]) ++ trailing := by rw [hsplit]; simp
            rw [this, List.map_append, joinSheets_append _ _ (by simp) (by rw [htr]; simp)]
            simp
          · intro g hg
            simp only [List.cons_append, List.nil_append, List.mem_cons] at hg
            rcases hg with rfl | rfl | hg
            · exact ⟨by simp, Or.inl rfl⟩
            · exact ⟨by simp, Or.inl rfl⟩
            · exact emptySheets_lines lvl hl trailing (fun s hs => hrect s (hmemt s hs))
                (fun s hs => hnames s (hmemt s hs)) htrail' g hg
      obtain ⟨G, hAG, hGl⟩ := hG
      have hcleanf : ∀ l ∈ joinSheets ((init ++ [last]).map (sheetLines lvl)), 10 ∉ l := by
        intro l hl'
        rcases joinSheets_mem _ l hl' with rfl | ⟨L, hL, hl''⟩
        · simp
        · obtain ⟨t, ht, rfl⟩ := List.mem_map.mp hL
          simp only [sheetLines, List.cons_append, List.nil_append, List.mem_cons] at hl''
          rcases hl'' with rfl | rfl | hl''
          · exact headingLine_clean lvl t.name (hnames t (hmemf t ht))
          · simp
          · exact tableLines_clean t l hl''
      -- the text, cut at the last pipe
      have htext : (joinSheets (ss.map (sheetLines lvl))).flatMap nl =
          ((pre ++ [headingLine lvl last.name, []] ++ T).flatMap nl ++ i) ++ 124 :: (10 :: G.flatMap nl) := by
        rw [hAG, hAf]
        simp [List.flatMap_append, nl]
      have htrim : HF.trimSpace ((joinSheets (ss.map (sheetLines lvl))).flatMap nl) =
          ((pre ++ [headingLine lvl last.name, []] ++ T).flatMap nl ++ i) ++
            124 :: HF.trimRight (10 :: G.flatMap nl) := by
        rw [hz, trimSpace_of_hash, ← hz, htext, trimRight_append _ _ 124 pipe_not_space]
      obtain ⟨suf, hsuf⟩ := HF.trimRight_prefix (10 :: G.flatMap nl)
      have hfront : ∀ (G' : List Str), (∀ l ∈ G', mdParseLine l = none) →
          (sectionLines k (joinSheets ((init ++ [last]).map (sheetLines lvl)) ++ G')).filterMap mdParseLine =
            match ss[k]? with
            | some s => (tableLines s).filterMap mdParseLine
            | none => [] := by
        intro G' hG'
        rw [section_tail lvl hl (init ++ [last]) G' hG' k]
        have hss' : ss = (init ++ [last]) ++ trailing := by rw [hsplit]; simp
        by_cases hk : k < (init ++ [last]).length
        · rw [hss', List.getElem?_append_left hk]
        · rw [List.getElem?_eq_none (by omega)]
          rw [hss', List.getElem?_append_right (by omega)]
          cases ht : trailing[k - (init ++ [last]).length]? with
          | none => rfl
          | some t =>
            simp only
            rw [tableLines_empty t (hrect t (hmemt t (List.mem_of_getElem? ht))) (htrail' t (List.mem_of_getElem? ht))]
            rfl
      have hfinal : ∀ (L : List Str),
          L.filterMap mdParseLine = (match ss[k]? with
            | some s => (tableLines s).filterMap mdParseLine
            | none => []) →
          dropSecond (L.filterMap mdParseLine) = match ss[k]? with
            | some s => if (findContentBounds s).isEmpty then [] else (boxTable s).map (·.map pad)
            | none => [] := by
        intro L hL
        rw [hL]
        cases hk : ss[k]? with
        | none => rfl
        | some s => exact tableLines_read s (hrect s (List.mem_of_getElem? hk))
      apply hfinal
      rw [htrim]
      cases hV : HF.trimRight (10 :: G.flatMap nl) with
      | nil =>
        have hsplit2 := splitOn_lines (pre ++ [headingLine lvl last.name, []] ++ T) (i ++ [124])
          (fun l hl' => hcleanf l (by rw [hAf]; exact List.mem_append_left _ hl'))
          (hcleanf _ (by rw [hAf]; simp))
        have hnl : (fun (l : Str) => l ++ [10]) = nl := rfl
        rw [hnl] at hsplit2
        have e : ((pre ++ [headingLine lvl last.name, []] ++ T).flatMap nl ++ i) ++ [124] =
            (pre ++ [headingLine lvl last.name, []] ++ T).flatMap nl ++ (i ++ [124]) := by simp
        rw [e, hsplit2, ← hAf]
        have := hfront [] (by simp)
        rw [List.append_nil] at this
        exact this
      | cons a V'' =>
        rw [hV] at hsuf
        have ha : a = 10 := by
          have := congrArg List.head? hsuf
          simpa using this.symm
        subst ha
        have hV'' : V'' <+: G.flatMap nl := by
          refine ⟨suf, ?_⟩
          have := hsuf
          simp only [List.cons_append, List.cons.injEq, true_and] at this
          exact this.symm
        have e : ((pre ++ [headingLine lvl last.name, []] ++ T).flatMap nl ++ i) ++ 124 :: 10 :: V'' =
            ((pre ++ [headingLine lvl last.name, []] ++ T).flatMap nl ++ (i ++ [124])) ++ 10 :: V'' := by simp
        rw [e, splitOn_append_sep]
        have hsplit2 := splitOn_lines (pre ++ [headingLine lvl last.name, []] ++ T) (i ++ [124])
          (fun l hl' => hcleanf l (by rw [hAf]; exact List.mem_append_left _ hl'))
          (hcleanf _ (by rw [hAf]; simp))
        have hnl : (fun (l : Str) => l ++ [10]) = nl := rfl
        rw [hnl] at hsplit2
        rw [hsplit2, ← hAf]
        exact hfront _ (prefix_nonPipe G hGl V'' hV'')

end Tabula.Wb
