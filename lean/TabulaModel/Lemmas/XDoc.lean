import TabulaModel.Model.XDoc
import TabulaModel.Lemmas.GState
/-!
Helper lemmas about the model of the extractor's entry points (`Model/XDoc.lean`): the
budget invariant of Form XObject execution, what every call leaves untouched (nesting
depth, resources), the typed operators a raw operation decodes to, the unfolding of a form
graph into the form tree of `Model/GState.lean`, and `deduplicateFragments`.
-/
namespace Tabula.XDoc
open Tabula Tabula.GState

variable {α : Type}

/-! ### raw operations never decode to a form -/

/-- no `Do` left in a typed operator list -/
def FormFree (l : List (Op α)) : Prop := ∀ op ∈ l, ∀ m b, op ≠ Op.form m b

theorem FormFree.nil : FormFree ([] : List (Op α)) := by intro op h; simp at h

theorem FormFree.append {a b : List (Op α)} (ha : FormFree a) (hb : FormFree b) : FormFree (a ++ b) := by
  intro op h
  rcases List.mem_append.mp h with h | h
  · exact ha op h
  · exact hb op h

theorem FormFree.tail {op : Op α} {l : List (Op α)} (h : FormFree (op :: l)) : FormFree l :=
  fun o ho => h o (List.mem_cons_of_mem _ ho)

def Decoded.formFree : Decoded α → Prop
  | .ops l => FormFree l
  | .xobj _ => True

theorem dquoteOps_formFree (w c s : Operand α) : FormFree (dquoteOps w c s) := by
  unfold dquoteOps
  refine FormFree.append (FormFree.append ?_ ?_) ?_
  · split <;> simp [FormFree]
  · split <;> simp [FormFree]
  · split <;> simp [FormFree]

/-- a raw operation never decodes to a form: `Do` is the only way into one -/
theorem decodeOp_formFree [Lean.Grind.CommRing α] (r : RawOp α) : (decodeOp r).formFree := by
  unfold decodeOp
  split <;> (try split) <;>
    first
    | exact dquoteOps_formFree _ _ _
    | simp only [Decoded.formFree, FormFree, List.mem_cons, or_false, forall_eq, ne_eq, reduceCtorEq,
        not_false_eq_true, implies_true, false_imp_iff, List.not_mem_nil]

/-! ### the budget -/

/-- `b` is reached from `a` by charging forms: `bytes` only grows; every executed form was
charged its content plus `xobjectCallCost` while the total stayed within
`maxXObjectBytes`; every executed form has non-empty content. -/
def Charged (a b : Acct) : Prop :=
  a.bytes ≤ b.bytes ∧ a.calls ≤ b.calls ∧ a.work ≤ b.work ∧
  b.calls * xobjectCallCost + b.work + min a.bytes maxXObjectBytes
    ≤ a.calls * xobjectCallCost + a.work + min b.bytes maxXObjectBytes ∧
  b.calls + a.work ≤ a.calls + b.work

theorem Charged.refl (a : Acct) : Charged a a := by
  simp only [Charged]; omega

theorem Charged.trans {a b c : Acct} (h1 : Charged a b) (h2 : Charged b c) : Charged a c := by
  simp only [Charged, xobjectCallCost] at *; generalize maxXObjectBytes = B at *; omega

theorem Charged.refuse (a : Acct) (len : Nat) : Charged a (a.refuse len) := by
  simp only [Charged, Acct.refuse, xobjectCallCost]; generalize maxXObjectBytes = B; omega

theorem Charged.charge (a : Acct) (len : Nat) (hl : len ≠ 0)
    (hb : ¬ a.bytes + len + xobjectCallCost > maxXObjectBytes) : Charged a (a.charge len) := by
  simp only [Charged, Acct.charge, xobjectCallCost] at *; generalize maxXObjectBytes = B at *; omega

section
variable [Lean.Grind.CommRing α] [DecidableEq α] [LT α] [DecidableLT α]

theorem processOperation_charged (adv : Adv α) (invoke : Name → XState α → XState α × List (Frag α))
    (hinv : ∀ n x, Charged x.acct (invoke n x).1.acct) (op : RawOp α) (x : XState α) :
    Charged x.acct (processOperation adv invoke op x).1.acct := by
  unfold processOperation
  split
  · exact Charged.refl _
  · exact hinv _ _

theorem formLoop_charged (adv : Adv α) (invoke : Name → XState α → XState α × List (Frag α))
    (hinv : ∀ n x, Charged x.acct (invoke n x).1.acct) (ops : List (RawOp α)) (x : XState α) :
    Charged x.acct (formLoop adv invoke ops x).1.acct := by
  induction ops generalizing x with
  | nil => exact Charged.refl _
  | cons op rest ih =>
    simp only [formLoop]
    exact (processOperation_charged adv invoke hinv op x).trans (ih _)

/-- the shape of one `invokeXObject`: skipped (state unchanged), refused (only the charge),
or executed -/
theorem invoke_cases (adv : Adv α) (doc : Doc α) (fuel : Nat) (name : Name) (x : XState α) :
    invokeXObject adv doc fuel name x = (x, []) ∨
    (∃ f : FormObj α, invokeXObject adv doc fuel name x = ({ x with acct := x.acct.refuse f.len }, [])) ∨
    (∃ (fuel' : Nat) (res : Res) (f : FormObj α), fuel = fuel' + 1 ∧ x.resources = some res ∧ x.gs.xdepth < maxXObjectDepth ∧
      lookupForm doc res name = some f ∧ f.len ≠ 0 ∧
      ¬ x.acct.bytes + f.len + xobjectCallCost > maxXObjectBytes ∧
      invokeXObject adv doc fuel name x =
        (leaveForm x (formLoop adv (invokeXObject adv doc fuel') (formBody f) (enterForm doc res f x)).1,
         (formLoop adv (invokeXObject adv doc fuel') (formBody f) (enterForm doc res f x)).2)) := by
  cases fuel with
  | zero => left; rfl
  | succ fuel =>
    rw [invokeXObject]
    cases hres : x.resources with
    | none => left; rfl
    | some res =>
      simp only
      by_cases hd : x.gs.xdepth ≥ maxXObjectDepth
      · left; simp only [hd, if_true]
      · simp only [hd, if_false]
        cases hf : lookupForm doc res name with
        | none => left; rfl
        | some f =>
          simp only
          by_cases hl : f.len = 0
          · left; simp only [hl, if_true]
          · simp only [hl, if_false]
            by_cases hb : x.acct.bytes + f.len + xobjectCallCost > maxXObjectBytes
            · right; left; exact ⟨f, by simp only [hb, if_true]⟩
            · right; right
              exact ⟨fuel, res, f, rfl, rfl, by omega, hf, hl, hb, by simp only [hb, if_false]⟩

theorem invoke_charged (adv : Adv α) (doc : Doc α) (fuel : Nat) :
    ∀ (name : Name) (x : XState α), Charged x.acct (invokeXObject adv doc fuel name x).1.acct := by
  induction fuel with
  | zero => intro name x; exact Charged.refl _
  | succ fuel ih =>
    intro name x
    rcases invoke_cases adv doc (fuel + 1) name x with h | ⟨f, h⟩ | ⟨fuel', res, f, hfu, _, _, _, hl, hb, h⟩
    · rw [h]; exact Charged.refl _
    · rw [h]; exact Charged.refuse _ _
    · rw [h]
      have hfu' : fuel' = fuel := by omega
      subst hfu'
      have h2 := formLoop_charged adv (invokeXObject adv doc fuel') ih (formBody f) (enterForm doc res f x)
      exact (Charged.charge _ _ hl hb).trans h2

theorem extractLoop_charged (adv : Adv α) (doc : Doc α) (ops : List (RawOp α)) (x : XState α) :
    Charged x.acct (extractLoop adv doc ops x).1.acct := by
  induction ops generalizing x with
  | nil => exact Charged.refl _
  | cons op rest ih =>
    simp only [extractLoop]
    have h1 := processOperation_charged adv _ (invoke_charged adv doc maxXObjectDepth) op x
    split
    · exact h1
    · exact h1.trans (ih _)

omit [Lean.Grind.CommRing α] [DecidableEq α] [LT α] [DecidableLT α] in
/-- tagging fragments with their strings does not change the fragments -/
@[simp] theorem tagShows_sh (sids : List Nat) (shows : List (Show α)) :
    (tagShows sids shows).map (·.sh) = shows := by
  induction shows generalizing sids with
  | nil => cases sids <;> rfl
  | cons sh rest ih => cases sids <;> simp [tagShows, ih]

omit [Lean.Grind.CommRing α] [DecidableEq α] [LT α] [DecidableLT α] in
@[simp] theorem tagShows_length (sids : List Nat) (shows : List (Show α)) :
    (tagShows sids shows).length = shows.length := by
  induction shows generalizing sids with
  | nil => cases sids <;> rfl
  | cons sh rest ih => cases sids <;> simp [tagShows, ih]

/-! ### what a call leaves untouched: nesting depth and resources -/

omit [DecidableEq α] [LT α] [DecidableLT α] in
theorem formEnter_xdepth (m : Option (Matrix α)) (s : State α) :
    (formEnter m s).xdepth = s.xdepth + 1 := by
  cases m <;> simp [formEnter, State.save, State.transform]

omit [Lean.Grind.CommRing α] [DecidableEq α] [LT α] [DecidableLT α] in
theorem formExit_xdepth (s : State α) : (formExit s).xdepth = s.xdepth - 1 := by
  cases s with | mk c st d =>
  cases st <;> simp [formExit, State.restore]

theorem stepBasic_xdepth (adv : Adv α) (op : Op α) (s : State α) :
    (stepBasic adv op s).1.xdepth = s.xdepth := by
  cases op <;>
    simp [stepBasic, State.save, State.transform, State.beginText, State.mapText, State.setFont,
      State.setTextMatrix, State.translateText, State.translateTextSetLeading, State.setLeading,
      State.nextLine, State.setCharSpacing, State.setWordSpacing, State.setHorizontalScaling,
      State.setTextRise, State.advanceText, showText, showTextArray_frame]
  cases s with | mk c st d =>
  cases st <;> simp [State.restore]

theorem stepOps_xdepth (adv : Adv α) (l : List (Op α)) (s : State α) :
    (stepOps adv l s).1.xdepth = s.xdepth := by
  induction l generalizing s with
  | nil => rfl
  | cons op rest ih => simp only [stepOps]; rw [ih, stepBasic_xdepth]

/-- nothing but the graphics state and the accounting moves, and the depth comes back -/
def Framed (x y : XState α) : Prop := y.resources = x.resources ∧ y.gs.xdepth = x.gs.xdepth

theorem processOperation_framed (adv : Adv α) (invoke : Name → XState α → XState α × List (Frag α))
    (hinv : ∀ n x, Framed x (invoke n x).1) (op : RawOp α) (x : XState α) :
    Framed x (processOperation adv invoke op x).1 := by
  unfold processOperation
  split
  · exact ⟨rfl, stepOps_xdepth adv _ _⟩
  · exact hinv _ _

theorem formLoop_framed (adv : Adv α) (invoke : Name → XState α → XState α × List (Frag α))
    (hinv : ∀ n x, Framed x (invoke n x).1) (ops : List (RawOp α)) (x : XState α) :
    Framed x (formLoop adv invoke ops x).1 := by
  induction ops generalizing x with
  | nil => exact ⟨rfl, rfl⟩
  | cons op rest ih =>
    simp only [formLoop]
    obtain ⟨h1, h2⟩ := processOperation_framed adv invoke hinv op x
    obtain ⟨h3, h4⟩ := ih (processOperation adv invoke op x).1
    exact ⟨h3.trans h1, h4.trans h2⟩

theorem invoke_framed (adv : Adv α) (doc : Doc α) (fuel : Nat) :
    ∀ (name : Name) (x : XState α), Framed x (invokeXObject adv doc fuel name x).1 := by
  induction fuel with
  | zero => intro name x; exact ⟨rfl, rfl⟩
  | succ fuel ih =>
    intro name x
    rcases invoke_cases adv doc (fuel + 1) name x with h | ⟨f, h⟩ | ⟨fuel', res, f, hfu, _, _, _, _, _, h⟩
    · rw [h]; exact ⟨rfl, rfl⟩
    · rw [h]; exact ⟨rfl, rfl⟩
    · rw [h]
      have hfu' : fuel' = fuel := by omega
      subst hfu'
      obtain ⟨_, h2⟩ := formLoop_framed adv (invokeXObject adv doc fuel') ih (formBody f) (enterForm doc res f x)
      refine ⟨rfl, ?_⟩
      have h3 : (enterForm doc res f x).gs.xdepth = x.gs.xdepth + 1 := formEnter_xdepth _ _
      show (formExit _).xdepth = _
      rw [formExit_xdepth, h2, h3]
      omega

theorem extractLoop_framed (adv : Adv α) (doc : Doc α) (ops : List (RawOp α)) (x : XState α) :
    Framed x (extractLoop adv doc ops x).1 := by
  induction ops generalizing x with
  | nil => exact ⟨rfl, rfl⟩
  | cons op rest ih =>
    simp only [extractLoop]
    obtain ⟨h1, h2⟩ := processOperation_framed adv _ (invoke_framed adv doc maxXObjectDepth) op x
    split
    · exact ⟨h1, h2⟩
    · obtain ⟨h3, h4⟩ := ih (processOperation adv (invokeXObject adv doc maxXObjectDepth) op x).1
      exact ⟨h3.trans h1, h4.trans h2⟩

/-! ### the ghost counters are invisible to the code -/

/-- equal in everything the code has: graphics state, resources, `xobjectBytes` (the ghost
counters may differ) -/
def SameVisible (x y : XState α) : Prop :=
  x.gs = y.gs ∧ x.resources = y.resources ∧ x.acct.bytes = y.acct.bytes

/-- `f` cannot tell states apart that differ in the ghost counters only -/
def GhostBlind (f : XState α → XState α × List (Frag α)) : Prop :=
  ∀ x y, SameVisible x y → SameVisible (f x).1 (f y).1 ∧ (f x).2 = (f y).2

theorem processOperation_ghostBlind (adv : Adv α) (invoke : Name → XState α → XState α × List (Frag α))
    (hinv : ∀ n, GhostBlind (invoke n)) (op : RawOp α) (x y : XState α) (h : SameVisible x y) :
    SameVisible (processOperation adv invoke op x).1 (processOperation adv invoke op y).1 ∧
      (processOperation adv invoke op x).2 = (processOperation adv invoke op y).2 := by
  obtain ⟨h1, h2, h3⟩ := h
  unfold processOperation
  split
  · rw [h1]; exact ⟨⟨rfl, h2, h3⟩, rfl⟩
  · obtain ⟨i1, i2⟩ := hinv _ x y ⟨h1, h2, h3⟩
    exact ⟨i1, by simp only [i2]⟩

theorem formLoop_ghostBlind (adv : Adv α) (invoke : Name → XState α → XState α × List (Frag α))
    (hinv : ∀ n, GhostBlind (invoke n)) (ops : List (RawOp α)) : GhostBlind (formLoop adv invoke ops) := by
  induction ops with
  | nil => intro x y h; exact ⟨h, rfl⟩
  | cons op rest ih =>
    intro x y h
    obtain ⟨i1, i2⟩ := processOperation_ghostBlind adv invoke hinv op x y h
    obtain ⟨j1, j2⟩ := ih _ _ i1
    simp only [formLoop]
    exact ⟨j1, by rw [congrArg Prod.fst i2, j2]⟩

theorem invoke_ghostBlind (adv : Adv α) (doc : Doc α) (fuel : Nat) :
    ∀ name, GhostBlind (invokeXObject adv doc fuel name) := by
  induction fuel with
  | zero => intro name x y h; exact ⟨h, rfl⟩
  | succ fuel ih =>
    intro name x y h
    obtain ⟨gs, res, ⟨b, c1, w1⟩⟩ := x
    obtain ⟨gs', res', ⟨b', c2, w2⟩⟩ := y
    obtain ⟨h1, h2, h3⟩ := h
    simp only at h1 h2 h3
    subst h1 h2 h3
    rw [invokeXObject, invokeXObject]
    cases res with
    | none => exact ⟨⟨rfl, rfl, rfl⟩, rfl⟩
    | some r =>
      simp only
      by_cases hd : gs.xdepth ≥ maxXObjectDepth
      · rw [if_pos hd, if_pos hd]; exact ⟨⟨rfl, rfl, rfl⟩, rfl⟩
      · rw [if_neg hd, if_neg hd]
        cases hf : lookupForm doc r name with
        | none => exact ⟨⟨rfl, rfl, rfl⟩, rfl⟩
        | some f =>
          simp only
          by_cases hl : f.len = 0
          · rw [if_pos hl, if_pos hl]; exact ⟨⟨rfl, rfl, rfl⟩, rfl⟩
          · rw [if_neg hl, if_neg hl]
            by_cases hb : b + f.len + xobjectCallCost > maxXObjectBytes
            · rw [if_pos hb, if_pos hb]; exact ⟨⟨rfl, rfl, rfl⟩, rfl⟩
            · rw [if_neg hb, if_neg hb]
              obtain ⟨j1, j2⟩ := formLoop_ghostBlind adv (invokeXObject adv doc fuel) ih (formBody f)
                (enterForm doc r f ⟨gs, some r, ⟨b, c1, w1⟩⟩) (enterForm doc r f ⟨gs, some r, ⟨b, c2, w2⟩⟩)
                ⟨rfl, rfl, rfl⟩
              obtain ⟨k1, _, k3⟩ := j1
              exact ⟨⟨by simp only [leaveForm, k1], rfl, k3⟩, j2⟩

theorem extractLoop_ghostBlind (adv : Adv α) (doc : Doc α) (ops : List (RawOp α)) (x y : XState α)
    (h : SameVisible x y) :
    SameVisible (extractLoop adv doc ops x).1 (extractLoop adv doc ops y).1 ∧
      (extractLoop adv doc ops x).2 = (extractLoop adv doc ops y).2 := by
  induction ops generalizing x y with
  | nil => exact ⟨h, rfl⟩
  | cons op rest ih =>
    obtain ⟨i1, i2⟩ := processOperation_ghostBlind adv _ (invoke_ghostBlind adv doc maxXObjectDepth) op x y h
    obtain ⟨j1, j2⟩ := ih _ _ i1
    simp only [extractLoop]
    rw [← congrArg Prod.snd i2, ← congrArg Prod.fst i2]
    split
    · exact ⟨i1, rfl⟩
    · exact ⟨j1, by rw [j2]⟩
end

/-! ### `deduplicateFragments` -/

section
variable {β κ : Type} [DecidableEq κ]

theorem dedupBy_sublist (key : β → κ) (l : List β) (seen : List κ) :
    (dedupBy key l seen).Sublist l := by
  induction l generalizing seen with
  | nil => exact List.Sublist.slnil
  | cons f rest ih =>
    simp only [dedupBy]
    split
    · exact (ih seen).cons _
    · exact (ih _).cons₂ _

theorem dedupBy_not_seen (key : β → κ) (l : List β) (seen : List κ) :
    ∀ f ∈ dedupBy key l seen, key f ∉ seen := by
  induction l generalizing seen with
  | nil => intro f hf; simp [dedupBy] at hf
  | cons g rest ih =>
    intro f hf
    simp only [dedupBy] at hf
    split at hf
    · exact ih seen f hf
    · rename_i hg
      rcases List.mem_cons.mp hf with h | h
      · subst h; exact hg
      · have := ih _ f h
        intro hc; exact this (List.mem_cons_of_mem _ hc)

theorem dedupBy_nodup (key : β → κ) (l : List β) (seen : List κ) :
    ((dedupBy key l seen).map key).Nodup := by
  induction l generalizing seen with
  | nil => simp [dedupBy]
  | cons g rest ih =>
    simp only [dedupBy]
    split
    · exact ih seen
    · simp only [List.map_cons, List.nodup_cons]
      refine ⟨?_, ih _⟩
      intro hc
      obtain ⟨f, hf, hk⟩ := List.mem_map.mp hc
      have := dedupBy_not_seen key rest (key g :: seen) f hf
      exact this (by rw [hk]; exact List.mem_cons_self)

theorem dedupBy_complete (key : β → κ) (l : List β) (seen : List κ) :
    ∀ f ∈ l, key f ∈ seen ∨ key f ∈ (dedupBy key l seen).map key := by
  induction l generalizing seen with
  | nil => intro f hf; simp at hf
  | cons g rest ih =>
    intro f hf
    simp only [dedupBy]
    rcases List.mem_cons.mp hf with h | h
    · subst h
      split
      · left; assumption
      · right; simp
    · split
      · exact ih seen f h
      · rcases ih (key g :: seen) f h with h1 | h1
        · rcases List.mem_cons.mp h1 with h2 | h2
          · right; simp [h2]
          · left; exact h2
        · right; simp only [List.map_cons]; exact List.mem_cons_of_mem _ h1

theorem dedupBy_eq_self (key : β → κ) (l : List β) (seen : List κ)
    (hnd : (l.map key).Nodup) (hs : ∀ f ∈ l, key f ∉ seen) : dedupBy key l seen = l := by
  induction l generalizing seen with
  | nil => rfl
  | cons g rest ih =>
    simp only [List.map_cons, List.nodup_cons] at hnd
    simp only [dedupBy]
    have hg : key g ∉ seen := hs g List.mem_cons_self
    simp only [hg, if_false]
    congr 1
    apply ih _ hnd.2
    intro f hf hc
    rcases List.mem_cons.mp hc with h | h
    · exact hnd.1 (h ▸ List.mem_map_of_mem hf)
    · exact hs f (List.mem_cons_of_mem _ hf) h
end
end Tabula.XDoc
