import TabulaModel.Model.ReaderHist
/-
Invariants of the reader caches of `Model/ReaderHist.lean`: everything cached is what the file
says (`Inv`), every look-up keeps that and answers with what the file says.
-/
namespace Tabula.ReaderHist

/-- a `*core.ObjectStream` agrees with the bytes of its stream -/
def StmOk (st : StmState) : Prop :=
  (st.decoded = true → st.data.decodes = true ∧
     ((st.data.header = none ∧ st.headerErr = true) ∨
      (st.data.header = some st.offsets ∧ st.headerErr = false))) ∧
  (st.decoded = false → st.headerErr = false) ∧
  (∀ i v, st.objects i = some v → st.data.member[i]? = some (some v))

/-- the caches of a reader agree with the file -/
def Inv (x : Xref) (r : Reader) : Prop :=
  (∀ n o, r.objCache n = some o → specGet x n = some o) ∧
  (∀ s st, r.stmCache s = some st → specStm x s = some st.data ∧ StmOk st)

theorem inv_empty (x : Xref) : Inv x Reader.empty :=
  ⟨fun _ _ h => by simp [Reader.empty] at h, fun _ _ h => by simp [Reader.empty] at h⟩

theorem stmOk_fresh (d : StmData) : StmOk { data := d } :=
  ⟨fun h => by simp at h, fun _ => rfl, fun _ _ h => by simp at h⟩

theorem upd_eq {β : Type} (m : Nat → Option β) (k : Nat) (v : β) : upd m k v k = some v := by
  simp [upd]

theorem upd_some {β : Type} {m : Nat → Option β} {k : Nat} {v w : β} {j : Nat}
    (h : upd m k v j = some w) : (j = k ∧ w = v) ∨ (j ≠ k ∧ m j = some w) := by
  unfold upd at h
  split at h
  · rename_i hj
    exact .inl ⟨hj, by simpa using h.symm⟩
  · rename_i hj
    exact .inr ⟨hj, h⟩

/-- `decode`: the state stays in agreement with the bytes; it succeeds exactly when the stream
decodes and the header parses, and then `offsets` is the header -/
theorem decode_spec (st : StmState) (h : StmOk st) :
    StmOk st.decode.1 ∧ st.decode.1.data = st.data ∧
    (st.decode.2 = true → st.data.decodes = true ∧ st.data.header = some st.decode.1.offsets) ∧
    (st.decode.2 = false → st.data.decodes = false ∨ st.data.header = none) := by
  obtain ⟨h1, h3, h2⟩ := h
  by_cases hd : st.decoded = true
  · have e : st.decode = (st, !st.headerErr) := by simp [StmState.decode, hd]
    rw [e]
    obtain ⟨hdec, hh⟩ := h1 hd
    refine ⟨⟨h1, h3, h2⟩, rfl, ?_, ?_⟩
    · intro he
      rcases hh with ⟨_, he'⟩ | ⟨hh, _⟩
      · simp [he'] at he
      · exact ⟨hdec, hh⟩
    · intro he
      rcases hh with ⟨hh, _⟩ | ⟨_, he'⟩
      · exact .inr hh
      · simp [he'] at he
  · have hd' : st.decoded = false := by simpa using hd
    by_cases hc : st.data.decodes = true
    · cases hh : st.data.header with
      | none =>
        have e : st.decode = ({ st with decoded := true, headerErr := true, offsets := [] }, false) := by
          simp [StmState.decode, hd', hc, hh]
        rw [e]
        refine ⟨⟨fun _ => ⟨hc, .inl ⟨hh, rfl⟩⟩, fun hq => by simp at hq, h2⟩, rfl, ?_, ?_⟩
        · intro he; simp at he
        · intro _; exact .inr rfl
      | some hdr =>
        have e : st.decode = ({ st with decoded := true, offsets := hdr }, true) := by
          simp [StmState.decode, hd', hc, hh]
        rw [e]
        have hhe : st.headerErr = false := h3 hd'
        refine ⟨⟨fun _ => ⟨hc, .inr ⟨hh, hhe⟩⟩, fun hq => by simp at hq, h2⟩, rfl, ?_, ?_⟩
        · intro _; exact ⟨hc, rfl⟩
        · intro he; simp at he
    · have hc' : st.data.decodes = false := by simpa using hc
      have e : st.decode = (st, false) := by simp [StmState.decode, hd', hc']
      rw [e]
      refine ⟨⟨h1, h3, h2⟩, rfl, ?_, ?_⟩
      · intro he; simp at he
      · intro _; exact .inl hc'

/-- what `getCompressedObject` makes of the answer of `GetObjectByIndex` -/
def memberAns (n : Nat) : Option (Int × Nat) → Option Obj
  | some (v, num) => if num = n then some (.val v) else none
  | none => none

/-- `GetObjectByIndex`: agreement is kept, the answer is the file's -/
theorem getByIndex_spec (st : StmState) (h : StmOk st) (n i : Nat) :
    StmOk (st.getByIndex i).1 ∧ (st.getByIndex i).1.data = st.data ∧
    memberAns n (st.getByIndex i).2 = specMember st.data n i := by
  obtain ⟨hok, hdata, ht, hf⟩ := decode_spec st h
  unfold StmState.getByIndex
  cases hdec : st.decode with
  | mk st1 ok =>
    rw [hdec] at hok hdata ht hf
    simp only at hok hdata ht hf
    cases ok with
    | false =>
      refine ⟨hok, hdata, ?_⟩
      simp only [memberAns, specMember]
      rcases hf rfl with hc | hh
      · simp [hc]
      · simp [hh]
    | true =>
      obtain ⟨hc, hh⟩ := ht rfl
      simp only
      cases ho : st1.offsets[i]? with
      | none =>
        refine ⟨hok, hdata, ?_⟩
        simp [memberAns, specMember, hc, hh, ho]
      | some num =>
        simp only
        cases hob : st1.objects i with
        | some v =>
          refine ⟨hok, hdata, ?_⟩
          have hm := hok.2.2 i v hob
          rw [hdata] at hm
          simp [memberAns, specMember, hc, hh, ho, hm]
        | none =>
          simp only
          cases hm : st1.data.member[i]? with
          | none =>
            refine ⟨hok, hdata, ?_⟩
            rw [hdata] at hm
            simp [memberAns, specMember, hc, hh, ho, hm]
          | some mv =>
            cases mv with
            | none =>
              refine ⟨hok, hdata, ?_⟩
              rw [hdata] at hm
              simp [memberAns, specMember, hc, hh, ho, hm]
            | some v =>
              refine ⟨⟨hok.1, hok.2.1, ?_⟩, hdata, ?_⟩
              · intro j w hj
                rcases upd_some hj with ⟨rfl, rfl⟩ | ⟨_, hj'⟩
                · exact hm
                · exact hok.2.2 j w hj'
              · rw [hdata] at hm
                simp [memberAns, specMember, hc, hh, ho, hm]

/-- `getObjectStream`: the stream handed out is the file's and agrees with it; the caches stay in
agreement; it fails exactly when the file has no object stream under that number -/
theorem getObjectStream_spec (x : Xref) (r : Reader) (h : Inv x r) (s : Nat) :
    Inv x (getObjectStream x r s).1 ∧
    (getObjectStream x r s).1.objCache = r.objCache ∧
    (match (getObjectStream x r s).2 with
     | some st => specStm x s = some st.data ∧ StmOk st
     | none => specStm x s = none) := by
  unfold getObjectStream
  cases hc : r.stmCache s with
  | some st => exact ⟨h, rfl, h.2 s st hc⟩
  | none =>
    simp only
    cases hx : x.get s with
    | none => exact ⟨h, rfl, by simp [specStm, hx]⟩
    | some e =>
      cases e with
      | free => exact ⟨h, rfl, by simp [specStm, hx]⟩
      | inStm a b => exact ⟨h, rfl, by simp [specStm, hx]⟩
      | own o =>
        cases o with
        | none => exact ⟨h, rfl, by simp [specStm, hx]⟩
        | some ob =>
          cases ob with
          | val v => exact ⟨h, rfl, by simp [specStm, hx]⟩
          | stm d =>
            have hs : specStm x s = some d := by simp [specStm, hx]
            refine ⟨⟨h.1, ?_⟩, rfl, hs, stmOk_fresh d⟩
            intro s' st' hs'
            rcases upd_some hs' with ⟨rfl, rfl⟩ | ⟨_, hs''⟩
            · exact ⟨hs, stmOk_fresh d⟩
            · exact h.2 s' st' hs''

/-- `getCompressedObject` -/
theorem getCompressed_spec (x : Xref) (r : Reader) (h : Inv x r) (n s i : Nat) :
    Inv x (getCompressed x r n s i).1 ∧ (getCompressed x r n s i).1.objCache = r.objCache ∧
    (getCompressed x r n s i).2 = specIn x n s i := by
  obtain ⟨hinv, hcache, hres⟩ := getObjectStream_spec x r h s
  unfold getCompressed
  cases hg : getObjectStream x r s with
  | mk r1 res =>
    rw [hg] at hinv hcache hres
    simp only at hinv hcache hres
    cases res with
    | none =>
      simp only at hres
      exact ⟨hinv, hcache, by simp [specIn, hres]⟩
    | some st =>
      simp only at hres
      obtain ⟨hs, hst⟩ := hres
      obtain ⟨hok', hdata', hans⟩ := getByIndex_spec st hst n i
      have keep : ∀ st1 : StmState, StmOk st1 → st1.data = st.data →
          Inv x { r1 with stmCache := upd r1.stmCache s st1 } := by
        intro st1 hk hd
        refine ⟨hinv.1, ?_⟩
        intro s' st' hs'
        rcases upd_some hs' with ⟨rfl, rfl⟩ | ⟨_, hs''⟩
        · exact ⟨by rw [hd]; exact hs, hk⟩
        · exact hinv.2 s' st' hs''
      cases hgi : st.getByIndex i with
      | mk st1 ans =>
        rw [hgi] at hok' hdata' hans
        simp only at hok' hdata' hans
        cases ans with
        | none =>
          simp only [hgi]
          refine ⟨keep st1 hok' hdata', hcache, ?_⟩
          simp only [specIn, hs]
          simpa [memberAns] using hans
        | some p =>
          obtain ⟨v, num⟩ := p
          simp only [hgi]
          refine ⟨keep st1 hok' hdata', hcache, ?_⟩
          simp only [specIn, hs]
          simpa [memberAns] using hans

/-- `GetObject`: the caches stay in agreement with the file, and the answer is the file's -/
theorem getObject_spec (x : Xref) (r : Reader) (h : Inv x r) (n : Nat) :
    Inv x (getObject x r n).1 ∧ (getObject x r n).2 = specGet x n := by
  unfold getObject
  cases hc : r.objCache n with
  | some o => exact ⟨h, (h.1 n o hc).symm⟩
  | none =>
    simp only
    cases hx : x.get n with
    | none => exact ⟨h, by simp [specGet, hx]⟩
    | some e =>
      cases e with
      | free => exact ⟨h, by simp [specGet, hx]⟩
      | own o =>
        cases o with
        | none => exact ⟨h, by simp [specGet, hx]⟩
        | some ob =>
          have hs : specGet x n = some ob := by simp [specGet, hx]
          refine ⟨⟨?_, h.2⟩, hs.symm⟩
          intro n' o' hn'
          rcases upd_some hn' with ⟨rfl, rfl⟩ | ⟨_, hn''⟩
          · exact hs
          · exact h.1 n' o' hn''
      | inStm s i =>
        obtain ⟨hinv, hcache, hres⟩ := getCompressed_spec x r h n s i
        have hs : specGet x n = specIn x n s i := by
          simp [specGet, hx]
        simp only
        cases hg : getCompressed x r n s i with
        | mk r1 res =>
          rw [hg] at hinv hcache hres
          simp only at hinv hcache hres
          cases res with
          | none => exact ⟨hinv, by rw [hs, ← hres]⟩
          | some ob =>
            have hs' : specGet x n = some ob := by rw [hs, ← hres]
            refine ⟨⟨?_, hinv.2⟩, hs'.symm⟩
            intro n' o' hn'
            rcases upd_some hn' with ⟨rfl, rfl⟩ | ⟨_, hn''⟩
            · exact hs'
            · exact hinv.1 n' o' hn''

theorem step_spec (x : Xref) (r : Reader) (h : Inv x r) (a : Access) :
    Inv x (step x r a).1 ∧ (step x r a).2 = specAccess x a := by
  cases a with
  | get n => exact getObject_spec x r h n
  | clear => exact ⟨inv_empty x, rfl⟩

theorem run_spec (x : Xref) (as : List Access) :
    ∀ r, Inv x r → run x r as = as.map (specAccess x) ∧ Inv x (exec x r as) := by
  induction as with
  | nil => intro r h; exact ⟨rfl, h⟩
  | cons a as ih =>
    intro r h
    obtain ⟨hi, ha⟩ := step_spec x r h a
    obtain ⟨h1, h2⟩ := ih _ hi
    exact ⟨by simp only [run, List.map_cons, ha, h1], by simpa only [exec] using h2⟩

/-! ### the page list -/

theorem pageStep_spec {P : Type} (f : TreeFile P) (s : TreeState P)
    (h : ∀ l, s.pages = some l → f.walk = some l) (ht : s.tree = true → f.hasRoot = true) (c : PageCall) :
    (pageStep f s c).2 = pageSpec f c ∧
    (∀ l, (pageStep f s c).1.pages = some l → f.walk = some l) ∧
    ((pageStep f s c).1.tree = true → f.hasRoot = true) := by
  cases c <;> cases htree : s.tree <;> cases hr : f.hasRoot <;> cases hd : f.declared <;>
    cases hp : s.pages <;> cases hw : f.walk <;>
    simp_all [pageStep, pageStepWith, ensureTree, pageSpec, ensurePages]

theorem pageRun_spec {P : Type} (f : TreeFile P) (cs : List PageCall) :
    ∀ s : TreeState P, (∀ l, s.pages = some l → f.walk = some l) → (s.tree = true → f.hasRoot = true) →
      pageRun f s cs = cs.map (pageSpec f) := by
  induction cs with
  | nil => intro s _ _; rfl
  | cons c cs ih =>
    intro s h ht
    obtain ⟨h1, h2, h3⟩ := pageStep_spec f s h ht c
    have := ih _ h2 h3
    unfold pageRun at this ⊢
    simp only [pageRunWith, List.map_cons, h1, this]

end Tabula.ReaderHist
