import TabulaModel.Model.LayoutElem
import TabulaModel.Lemmas.LayoutOrder
import TabulaModel.Props.C09Order
/-!
Lemmas about `Model/LayoutElem.lean`: the fragment ids of headings and lists are a sub-multiset
of the ids of the page paragraphs; the ids of the page lines and of the reading-order lines are
a sub-multiset of the ids of the input fragments.
-/
namespace Tabula.Layout
open List

theorem sublist_flatMap {α β : Type} (f : α → List β) {l1 l2 : List α} (h : l1.Sublist l2) :
    (l1.flatMap f).Sublist (l2.flatMap f) := by
  induction h with
  | slnil => exact List.Sublist.refl _
  | cons a _ ih => rw [List.flatMap_cons]; exact ih.trans (List.sublist_append_right _ _)
  | cons_cons a _ ih =>
    rw [List.flatMap_cons, List.flatMap_cons]
    exact List.Sublist.append (List.Sublist.refl _) ih

theorem filter_flatten_sublist {α : Type} (p : List α → Bool) (L : List (List α)) :
    (L.filter p).flatten.Sublist L.flatten := by
  have h := sublist_flatMap (fun l : List α => l) (List.filter_sublist (p := p) (l := L))
  rw [List.flatMap_id', List.flatMap_id'] at h
  exact h

theorem count_eq_ite {l : List Nat} {i : Nat} (h : l.count i ≤ 1) :
    l.count i = if i ∈ l then 1 else 0 := by
  split
  · rename_i hm
    have := List.count_pos_iff.mpr hm
    omega
  · rename_i hm
    exact List.count_eq_zero.mpr hm

/-! ## headings and lists -/

theorem map_elem_ids (l : List PPar) :
    (l.map fun p => (⟨p.box, p.ids⟩ : Elem)).flatMap (·.ids) = l.flatMap (·.ids) := by
  induction l with
  | nil => rfl
  | cons a l ih => simp only [List.map_cons, List.flatMap_cons, ih]

theorem headingElems_ids_sublist (ps : List PPar) :
    ((headingElems ps).flatMap (·.ids)).Sublist (ps.flatMap (·.ids)) := by
  unfold headingElems
  rw [map_elem_ids]
  exact sublist_flatMap _ List.filter_sublist

theorem candsFrom_ids_sublist (i : Nat) (ps : List PPar) :
    ((candsFrom i ps).flatMap (·.2.ids)).Sublist (ps.flatMap (·.ids)) := by
  induction ps generalizing i with
  | nil => exact List.Sublist.refl _
  | cons p r ih =>
    unfold candsFrom
    split
    · rw [List.flatMap_cons, List.flatMap_cons]
      exact List.Sublist.append (List.Sublist.refl _) (ih (i + 1))
    · rw [List.flatMap_cons]
      exact (ih (i + 1)).trans (List.sublist_append_right _ _)

theorem map_listElem_ids (gs : List (List (Nat × PPar))) :
    (gs.map listElem).flatMap (·.ids) = gs.flatten.flatMap (·.2.ids) := by
  induction gs with
  | nil => rfl
  | cons g gs ih =>
    simp only [List.map_cons, List.flatMap_cons, List.flatten_cons, List.flatMap_append, ih]
    rfl

theorem groupIntoLists_flatten_sublist (maxGap : Rat) (minItems : Nat) (cs : List (Nat × PPar)) :
    (groupIntoLists maxGap minItems cs).flatten.Sublist cs := by
  unfold groupIntoLists
  have h := filter_flatten_sublist (fun g : List (Nat × PPar) => decide (minItems ≤ g.length))
    (segment (listBreak maxGap) cs [])
  rw [segment_flatten, List.nil_append] at h
  exact h

theorem listElems_ids_sublist (maxGap : Rat) (minItems : Nat) (ps : List PPar) :
    ((listElems maxGap minItems ps).flatMap (·.ids)).Sublist (ps.flatMap (·.ids)) := by
  unfold listElems
  rw [map_listElem_ids]
  exact (sublist_flatMap _ (groupIntoLists_flatten_sublist maxGap minItems _)).trans
    (candsFrom_ids_sublist 0 ps)

/-- no paragraph with a list type: no candidates -/
theorem candsFrom_none (i : Nat) (ps : List PPar) (h : ∀ p ∈ ps, p.ty = 0) : candsFrom i ps = [] := by
  induction ps generalizing i with
  | nil => rfl
  | cons p r ih =>
    unfold candsFrom
    have h0 : p.ty = 0 := h p (by simp)
    simp only [h0, bne_self_eq_false, Bool.false_eq_true, ↓reduceIte]
    exact ih (i + 1) fun q hq => h q (List.mem_cons_of_mem _ hq)

/-! ## the headings and lists the repaired tree emits show every id at most as often as the page -/

/-- in a list without repeated values, a value belongs to one member only -/
theorem nodup_flatMap_unique {α β : Type} (f : α → List β) {l : List α} (h : (l.flatMap f).Nodup)
    {a b : α} (ha : a ∈ l) (hb : b ∈ l) {x : β} (hxa : x ∈ f a) (hxb : x ∈ f b) : a = b := by
  induction l with
  | nil => simp at ha
  | cons c t ih =>
    rw [List.flatMap_cons, List.nodup_append] at h
    rcases h with ⟨_, ht, hd⟩
    rcases List.mem_cons.mp ha with rfl | ha'
    · rcases List.mem_cons.mp hb with rfl | hb'
      · rfl
      · exact absurd rfl (hd x hxa x (List.mem_flatMap.mpr ⟨b, hb', hxb⟩))
    · rcases List.mem_cons.mp hb with rfl | hb'
      · exact absurd rfl (hd x hxb x (List.mem_flatMap.mpr ⟨a, ha', hxa⟩))
      · exact ih ht ha' hb'

theorem candsFrom_mem (i : Nat) (ps : List PPar) (c : Nat × PPar) (h : c ∈ candsFrom i ps) : c.2 ∈ ps := by
  induction ps generalizing i with
  | nil => simp [candsFrom] at h
  | cons p r ih =>
    unfold candsFrom at h
    split at h
    · rcases List.mem_cons.mp h with rfl | h'
      · exact List.mem_cons_self
      · exact List.mem_cons_of_mem _ (ih (i + 1) h')
    · exact List.mem_cons_of_mem _ (ih (i + 1) h)

/-- an item of a list is a page paragraph, and the list shows all its ids -/
theorem listElems_item (maxGap : Rat) (minItems : Nat) (ps : List PPar) (i : Nat)
    (h : i ∈ (listElems maxGap minItems ps).flatMap (·.ids)) :
    ∃ q ∈ ps, i ∈ q.ids ∧ ∀ j ∈ q.ids, j ∈ (listElems maxGap minItems ps).flatMap (·.ids) := by
  unfold listElems at h ⊢
  rw [map_listElem_ids] at h ⊢
  rcases List.mem_flatMap.mp h with ⟨c, hc, hi⟩
  refine ⟨c.2, candsFrom_mem 0 ps c ((groupIntoLists_flatten_sublist maxGap minItems _).subset hc), hi, ?_⟩
  intro j hj
  exact List.mem_flatMap.mpr ⟨c, hc, hj⟩

/-- distinct ids on the page: the headings the tree emits and the lists together show an id at
most as often as the page paragraphs do - a heading that shares an id with a list IS an item of
that list (same page paragraph) and is left to the list -/
theorem shown_le_page (ps : List PPar) (hn : (ps.flatMap (·.ids)).Nodup) (i : Nat) :
    ((shownHeadings (headingElems ps) (listElems 2 2 ps)).flatMap (·.ids)).count i +
      ((listElems 2 2 ps).flatMap (·.ids)).count i ≤ (ps.flatMap (·.ids)).count i := by
  by_cases hl : i ∈ (listElems 2 2 ps).flatMap (·.ids)
  · have h0 : ((shownHeadings (headingElems ps) (listElems 2 2 ps)).flatMap (·.ids)).count i = 0 := by
      rw [List.count_eq_zero]
      intro hm
      rcases List.mem_flatMap.mp hm with ⟨e, he, hie⟩
      unfold shownHeadings at he
      rcases List.mem_filter.mp he with ⟨he1, he2⟩
      unfold headingElems at he1
      rcases List.mem_map.mp he1 with ⟨p, hp, rfl⟩
      have hp' : p ∈ ps := (List.mem_filter.mp hp).1
      rcases listElems_item 2 2 ps i hl with ⟨q, hq, hiq, hall⟩
      have hpq : p = q := nodup_flatMap_unique (·.ids) hn hp' hq hie hiq
      subst hpq
      have hne : p.ids.isEmpty = false := by
        cases hids : p.ids with
        | nil => rw [hids] at hie; simp at hie
        | cons _ _ => rfl
      have hall' : (p.ids.all fun j => ((listElems 2 2 ps).flatMap (·.ids)).contains j) = true := by
        rw [List.all_eq_true]
        intro j hj
        exact List.contains_iff_mem.mpr (hall j hj)
      simp only [hne, hall', Bool.not_true, Bool.or_false] at he2
      exact Bool.noConfusion he2
    rw [h0, Nat.zero_add]
    exact (listElems_ids_sublist 2 2 ps).count_le i
  · rw [List.count_eq_zero.mpr hl, Nat.add_zero]
    unfold shownHeadings
    exact Nat.le_trans ((sublist_flatMap _ List.filter_sublist).count_le i)
      ((headingElems_ids_sublist ps).count_le i)

/-! ## the element tree before the repair 8ee0e52, id by id -/

theorem count_elementTreeOld (ov : Box → Box → Bool) (hs ls ps : List Elem) (i : Nat) :
    ((elementTreeOld ov hs ls ps).flatMap (·.ids)).count i =
      (hs.flatMap (·.ids)).count i + (ls.flatMap (·.ids)).count i +
        ((ps.filter fun p => !consumed ov hs ls p).flatMap (·.ids)).count i := by
  unfold elementTreeOld
  rw [List.flatMap_append, List.flatMap_append, List.count_append, List.count_append]

theorem mem_elementTreeOld (ov : Box → Box → Bool) (hs ls ps : List Elem) (i : Nat) :
    i ∈ (elementTreeOld ov hs ls ps).flatMap (·.ids) ↔
      i ∈ hs.flatMap (·.ids) ∨ i ∈ ls.flatMap (·.ids) ∨
        ∃ p ∈ ps, consumed ov hs ls p = false ∧ i ∈ p.ids := by
  unfold elementTreeOld
  rw [List.flatMap_append, List.flatMap_append, List.mem_append, List.mem_append, or_assoc]
  refine or_congr Iff.rfl (or_congr Iff.rfl ?_)
  rw [List.mem_flatMap]
  constructor
  · rintro ⟨p, hp, hi⟩
    rcases List.mem_filter.mp hp with ⟨h1, h2⟩
    refine ⟨p, h1, ?_, hi⟩
    cases hc : consumed ov hs ls p
    · rfl
    · rw [hc] at h2; simp at h2
  · rintro ⟨p, h1, h2, hi⟩
    exact ⟨p, List.mem_filter.mpr ⟨h1, by rw [h2]; rfl⟩, hi⟩

/-! ## ids of lines -/

theorem pars_ids (info : List (List Frag) → ParInfo) (pars : List (List (List Frag))) :
    (pars.map (mkPPar info)).flatMap (·.ids) = pars.flatten.flatten.map (·.id) := by
  induction pars with
  | nil => rfl
  | cons p pars ih =>
    simp only [List.map_cons, List.flatMap_cons, List.flatten_cons, List.flatten_append, List.map_append, ih]
    rfl

theorem ropars_ids (box : List (List Frag) → Box) (pars : List (List (List Frag))) :
    (pars.map fun p => (⟨box p, paraIds p⟩ : Elem)).flatMap (·.ids) = pars.flatten.flatten.map (·.id) := by
  induction pars with
  | nil => rfl
  | cons p pars ih =>
    simp only [List.map_cons, List.flatMap_cons, List.flatten_cons, List.flatten_append, List.map_append, ih]
    rfl

/-- the ids of the detected lines: each at most as often as in the input -/
theorem detectLines_ids_le (tol minW : Rat) (preserve : List Frag → Bool) (fs : List Frag) (i : Nat) :
    ((detectLines tol minW preserve fs).flatten.map (·.id)).count i ≤ (fs.map (·.id)).count i := by
  unfold detectLines buildLines
  have h1 := ((filter_flatten_sublist (keepLine minW) (groupIntoLines tol preserve fs)).map (·.id)).count_le i
  have h2 := ((C09.lines_partition tol preserve fs).map (·.id)).count_eq i
  omega

theorem secs_ids_le (ss : List Sec) (i : Nat)
    (h : ∀ s ∈ ss, (s.lines.flatten.map (·.id)).count i ≤ (s.frags.map (·.id)).count i) :
    ((ss.flatMap (·.lines)).flatten.map (·.id)).count i ≤ ((ss.flatMap (·.frags)).map (·.id)).count i := by
  induction ss with
  | nil => exact Nat.le_refl _
  | cons s ss ih =>
    simp only [List.flatMap_cons, List.flatten_append, List.map_append, List.count_append]
    exact Nat.add_le_add (h s (by simp)) (ih fun t ht => h t (List.mem_cons_of_mem _ ht))

theorem mkSection_ids_le (tolOf : List Frag → Rat) (minW : Rat) (preserve : List Frag → Bool) (sp : Bool)
    (frs : List Frag) (i : Nat) :
    (((mkSection tolOf minW preserve sp frs).lines.flatten).map (·.id)).count i ≤
      ((mkSection tolOf minW preserve sp frs).frags.map (·.id)).count i := by
  unfold mkSection
  simp only
  rw [((reorderLinesByY_perm _).flatten.map (·.id)).count_eq i]
  exact detectLines_ids_le _ _ _ _ i

/-- the ids of the reading-order lines: each at most as often as in the input -/
theorem readingOrder_lines_ids_le (gaps : List Gap) (minCW minW : Rat)
    (isSpan keep : List Frag → List Frag → Bool) (tolOf : List Frag → Rat) (preserve : List Frag → Bool)
    (rtl : Bool) (fs : List Frag) (i : Nat) :
    ((readingOrder gaps minCW minW isSpan keep tolOf preserve rtl fs).lines.flatten.map (·.id)).count i ≤
      (fs.map (·.id)).count i := by
  have hp := ((C09Order.reading_order_partition gaps minCW minW isSpan keep tolOf preserve rtl fs).map (·.id)).count_eq i
  rw [← hp]
  by_cases hE : fs.isEmpty = true
  · rw [readingOrder_empty _ _ _ _ _ _ _ _ _ hE]; exact Nat.le_refl _
  · rw [readingOrder_nonempty _ _ _ _ _ _ _ _ _ hE, readingOrderOf_lines_eq, readingOrderOf_fragments_eq]
    apply secs_ids_le
    intro s hs
    unfold readingOrderOf at hs
    have hm := (orderSections_perm rtl _).mem_iff.mp hs
    unfold buildSections at hm
    rcases List.mem_append.mp hm with h | h
    · split at h
      · simp at h
      · rw [List.mem_singleton] at h; subst h; exact mkSection_ids_le _ _ _ _ _ i
    · rcases List.mem_map.mp h with ⟨c, _, rfl⟩
      exact mkSection_ids_le _ _ _ _ _ i

end Tabula.Layout
