import TabulaModel.Lemmas.HeaderFooter
/-!
`strings.TrimRight…(unicode.IsSpace)` (the model `HF.trimRight`) stops at the last byte that belongs
to no space rune: what precedes such a byte is kept, what follows is trimmed on its own (C17).
-/
namespace Tabula.Wb
open Tabula.HF

theorem dropPrefix?_append (q Q R : List Nat) (c : Nat) (hc : c ∉ q) :
    dropPrefix? q (Q ++ c :: R) = (dropPrefix? q Q).map (· ++ c :: R) := by
  induction q generalizing Q with
  | nil => simp [dropPrefix?]
  | cons a q ih =>
    have hac : a ≠ c := fun h => hc (by simp [h])
    have hcq : c ∉ q := fun h => hc (by simp [h])
    cases Q with
    | nil => simp [dropPrefix?, hac]
    | cons b Q =>
      simp only [List.cons_append, dropPrefix?]
      split
      · exact ih Q hcq
      · rfl

theorem stripOne_append (tbl : List (List Nat)) (Q R : List Nat) (c : Nat) (hc : ∀ q ∈ tbl, c ∉ q) :
    stripOne tbl (Q ++ c :: R) = (stripOne tbl Q).map (· ++ c :: R) := by
  induction tbl with
  | nil => rfl
  | cons q qs ih =>
    simp only [stripOne]
    rw [dropPrefix?_append q Q R c (hc q (by simp))]
    cases dropPrefix? q Q with
    | some r => rfl
    | none => exact ih (fun q' hq' => hc q' (by simp [hq']))

theorem stripMany_append (tbl : List (List Nat)) (ht : NonEmptyTbl tbl) (c : Nat) (hc : ∀ q ∈ tbl, c ∉ q)
    (n : Nat) (Q R : List Nat) (hn : Q.length ≤ n) :
    stripMany tbl n (Q ++ c :: R) = stripMany tbl n Q ++ c :: R := by
  induction n generalizing Q with
  | zero => rfl
  | succ n ih =>
    simp only [stripMany]
    rw [stripOne_append tbl Q R c hc]
    cases h : stripOne tbl Q with
    | none => rfl
    | some r =>
      have := stripOne_length ht h
      exact ih r (by omega)

/-- enough fuel is enough -/
theorem stripMany_fuel (tbl : List (List Nat)) (ht : NonEmptyTbl tbl) (n m : Nat) (Q : List Nat)
    (hn : Q.length ≤ n) (hm : Q.length ≤ m) : stripMany tbl n Q = stripMany tbl m Q := by
  induction n generalizing m Q with
  | zero =>
    have : Q = [] := by cases Q with
      | nil => rfl
      | cons _ _ => simp at hn
    subst this
    cases m with
    | zero => rfl
    | succ m =>
      have h0 : stripOne tbl [] = none := by
        cases h : stripOne tbl [] with
        | none => rfl
        | some r => have := stripOne_length ht h; simp at this
      simp [stripMany, h0]
  | succ n ih =>
    cases m with
    | zero =>
      have : Q = [] := by cases Q with
        | nil => rfl
        | cons _ _ => simp at hm
      subst this
      have h0 : stripOne tbl [] = none := by
        cases h : stripOne tbl [] with
        | none => rfl
        | some r => have := stripOne_length ht h; simp at this
      simp [stripMany, h0]
    | succ m =>
      simp only [stripMany]
      cases h : stripOne tbl Q with
      | none => rfl
      | some r =>
        have := stripOne_length ht h
        exact ih m r (by omega) (by omega)

/-- a byte that occurs in no space rune stops the right trim -/
theorem trimRight_append (P V : List Nat) (c : Nat) (hc : ∀ q ∈ spaceSeqs, c ∉ q) :
    HF.trimRight (P ++ c :: V) = P ++ c :: HF.trimRight V := by
  have hc' : ∀ q ∈ spaceSeqs.map List.reverse, c ∉ q := by
    intro q hq
    obtain ⟨q', hq', rfl⟩ := List.mem_map.mp hq
    simpa using hc q' hq'
  unfold HF.trimRight
  have hrev : (P ++ c :: V).reverse = V.reverse ++ c :: P.reverse := by simp
  rw [hrev, stripMany_append _ spaceSeqsRev_nonEmpty c hc' _ _ _ (by simp; omega)]
  rw [stripMany_fuel _ spaceSeqsRev_nonEmpty (P ++ c :: V).length V.length V.reverse (by simp; omega) (by simp)]
  simp

theorem pipe_not_space : ∀ q ∈ spaceSeqs, 124 ∉ q := by decide
theorem hash_not_space : ∀ q ∈ spaceSeqs, 35 ∉ q := by decide

end Tabula.Wb
