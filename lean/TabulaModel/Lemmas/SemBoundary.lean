import TabulaModel.Model.SemBoundary
import TabulaModel.Lemmas.SplitBoundaries
import TabulaModel.Lemmas.OverlapFull
/-!
C13, round 6: every position `DetectBoundaries` returns lies on a character boundary of the
text that joins the blocks with blank lines (behind an ASCII `.`, `!`, `?`, behind the `\n\n`
separator, or at the end of the text), whatever the bytes; the positions are in order.
-/
set_option linter.unusedVariables false
namespace Tabula.SemBoundary
open Tabula.Split Tabula.Overlap Tabula.Sentences

theorem isSentenceEndB_punct (text : Array Nat) (i : Nat) (h : isSentenceEndB text i = true) :
    i < text.size ∧ (getB text i = 46 ∨ getB text i = 33 ∨ getB text i = 63) := by
  unfold isSentenceEndB at h
  by_cases h1 : i ≥ text.size
  · rw [if_pos h1] at h; exact Bool.noConfusion h
  · refine ⟨by omega, ?_⟩
    rw [if_neg h1] at h
    simp only at h
    by_cases h2 : (getB text i != 46 && getB text i != 33 && getB text i != 63) = true
    · rw [if_pos h2] at h; exact Bool.noConfusion h
    · simp only [Bool.and_eq_true, bne_iff_ne, ne_eq, not_and, Decidable.not_not] at h2
      by_cases a : getB text i = 46
      · exact Or.inl a
      · by_cases b : getB text i = 33
        · exact Or.inr (Or.inl b)
        · exact Or.inr (Or.inr (h2 ⟨a, b⟩))

theorem detectInternal_mem (b : Block) (pos i : Nat) (d : DBoundary) (hd : d ∈ detectInternal b pos i) :
    ∃ j c, b.text[j]? = some c ∧ c < 0x80 ∧ d.pos = pos + j + 1 ∧ d.ty = .sentence ∧ d.score = 20
      ∧ (c = 46 ∨ c = 33 ∨ c = 63) := by
  unfold detectInternal at hd
  split at hd
  · obtain ⟨j, hj, e⟩ := List.mem_map.mp hd
    obtain ⟨hj1, hj2⟩ := List.mem_filter.mp hj
    obtain ⟨hlt, hp⟩ := isSentenceEndB_punct _ _ hj2
    have hlt' : j < b.text.length := by simpa using hlt
    have hg : getB b.text.toArray j = b.text[j] := by
      unfold getB
      simp [hlt']
    refine ⟨j, b.text[j], List.getElem?_eq_getElem hlt', ?_, ?_, ?_, ?_, ?_⟩
    · rw [← hg]; omega
    · rw [← e]
    · rw [← e]
    · rw [← e]; rfl
    · rw [← hg]; exact hp
  · cases hd

theorem joinBlocks_cons (b : Block) (rest : List Block) :
    joinBlocks (b :: rest) = if rest = [] then b.text else b.text ++ [10, 10] ++ joinBlocks rest := by
  unfold joinBlocks
  rw [List.map_cons, joinWith_cons]
  simp

/-- every boundary of the loop lies on a character boundary of the whole text `T`, behind
`position`, inside `T` -/
theorem detectAux_spec (T : Str) : ∀ (blocks : List Block) (i pos : Nat) (pre : Str),
    T = pre ++ joinBlocks blocks → pre.length = pos → NotCovered T pos →
    ∀ d ∈ detectAux blocks i pos, NotCovered T d.pos ∧ pos ≤ d.pos ∧ d.pos ≤ T.length := by
  intro blocks
  induction blocks with
  | nil => intro i pos pre _ _ _ d hd; cases hd
  | cons b rest ih =>
    intro i pos pre hT hpre hn d hd
    rw [joinBlocks_cons] at hT
    have hlenT : pos + b.text.length + (if rest ≠ [] then 2 else 0) ≤ T.length := by
      rw [hT]
      by_cases hr : rest = []
      · simp [hr, hpre]
      · simp [hr, hpre]; omega
    -- the position behind the block
    have hn' : NotCovered T (pos + b.text.length + (if rest ≠ [] then 2 else 0)) := by
      by_cases hr : rest = []
      · apply notCovered_of_ge
        rw [hT]; simp [hr]; omega
      · rw [if_pos hr]
        have hget : T[pos + b.text.length + 1]? = some 10 := by
          rw [hT, if_neg hr, List.getElem?_append_right (by omega), hpre,
            List.append_assoc, List.getElem?_append_right (by omega)]
          have : pos + b.text.length + 1 - pos - b.text.length = 1 := by omega
          rw [this]; rfl
        exact notCovered_after_ascii T _ 10 hget (by decide)
    unfold detectAux at hd
    simp only [List.mem_append] at hd
    rcases hd with ((hd | hd) | hd) | hd
    · -- boundary before a heading
      split at hd
      · have : d.pos = pos := by
          have := List.mem_singleton.mp hd
          rw [this]
        rw [this]
        exact ⟨hn, Nat.le_refl _, by omega⟩
      · cases hd
    · -- sentence boundaries
      obtain ⟨j, c, hj, hc, e, _⟩ := detectInternal_mem b pos i d hd
      have hjl : j < b.text.length := (List.getElem?_eq_some_iff.mp hj).1
      have hget : T[pos + j]? = some c := by
        rw [hT]
        have : (pre ++ b.text)[pos + j]? = some c := by
          rw [List.getElem?_append_right (by omega), hpre, Nat.add_sub_cancel_left]; exact hj
        split
        · exact this
        · rw [← List.append_assoc, ← List.append_assoc, List.append_assoc (pre ++ b.text),
            List.getElem?_append_left (by simp; omega)]
          exact this
      rw [e]
      exact ⟨notCovered_after_ascii T _ c hget hc, by omega, by omega⟩
    · -- boundary behind the block
      split at hd
      · have : d.pos = pos + b.text.length + (if rest ≠ [] then 2 else 0) := by
          have := List.mem_singleton.mp hd
          rw [this]
        rw [this]
        exact ⟨hn', by omega, hlenT⟩
      · cases hd
    · -- the following blocks
      by_cases hr : rest = []
      · subst hr; cases hd
      · have hT' : T = (pre ++ b.text ++ [10, 10]) ++ joinBlocks rest := by
          rw [hT, if_neg hr]; simp [List.append_assoc]
        have := ih (i + 1) (pos + b.text.length + (if rest ≠ [] then 2 else 0))
          (pre ++ b.text ++ [10, 10]) hT' (by simp [hr, hpre]; omega) hn' d hd
        exact ⟨this.1, by omega, this.2.2⟩

/-- **every detected boundary is on a character boundary** of the joined text, for any bytes -/
theorem detectBoundaries_aligned (blocks : List Block) :
    ∀ d ∈ detectBoundaries blocks,
      NotCovered (joinBlocks blocks) d.pos ∧ d.pos ≤ (joinBlocks blocks).length := by
  intro d hd
  have := detectAux_spec (joinBlocks blocks) blocks 0 0 [] rfl rfl (notCovered_zero _) d hd
  exact ⟨this.1, this.2.2⟩

theorem boundariesAligned_detect (blocks : List Block) :
    BoundariesAligned (joinBlocks blocks) ((detectBoundaries blocks).map DBoundary.toBoundary) := by
  intro b hb
  obtain ⟨d, hd, e⟩ := List.mem_map.mp hb
  subst e
  exact (detectBoundaries_aligned blocks d hd).1

/-! ### order -/

theorem detectAux_ge : ∀ (blocks : List Block) (i pos : Nat), ∀ d ∈ detectAux blocks i pos, pos ≤ d.pos := by
  intro blocks
  induction blocks with
  | nil => intro i pos d hd; cases hd
  | cons b rest ih =>
    intro i pos d hd
    unfold detectAux at hd
    simp only [List.mem_append] at hd
    rcases hd with ((hd | hd) | hd) | hd
    · split at hd
      · have := List.mem_singleton.mp hd; rw [this]; exact Nat.le_refl _
      · cases hd
    · obtain ⟨j, c, _, _, e, _⟩ := detectInternal_mem b pos i d hd
      omega
    · split at hd
      · have := List.mem_singleton.mp hd; rw [this]; simp only; omega
      · cases hd
    · have := ih _ _ d hd; omega

theorem detectInternal_sorted (b : Block) (pos i : Nat) :
    (detectInternal b pos i).Pairwise (fun x y => x.pos ≤ y.pos) := by
  unfold detectInternal
  split
  · rw [List.pairwise_map]
    apply List.Pairwise.imp (R := fun x y => x < y)
    · intro x y h; simp only; omega
    · exact List.Pairwise.filter _ List.pairwise_lt_range
  · exact List.Pairwise.nil

/-- **the boundaries come in the order of their positions** -/
theorem detectAux_sorted : ∀ (blocks : List Block) (i pos : Nat),
    (detectAux blocks i pos).Pairwise (fun x y => x.pos ≤ y.pos) := by
  intro blocks
  induction blocks with
  | nil => intro i pos; exact List.Pairwise.nil
  | cons b rest ih =>
    intro i pos
    unfold detectAux
    simp only
    have hint : ∀ d ∈ detectInternal b pos i, pos ≤ d.pos ∧ d.pos ≤ pos + b.text.length := by
      intro d hd
      obtain ⟨j, c, hj, _, e, _⟩ := detectInternal_mem b pos i d hd
      have := (List.getElem?_eq_some_iff.mp hj).1
      omega
    rw [List.pairwise_append, List.pairwise_append, List.pairwise_append]
    refine ⟨⟨⟨?_, detectInternal_sorted b pos i, ?_⟩, ?_, ?_⟩, ih _ _, ?_⟩
    · split
      · exact List.pairwise_singleton _ _
      · exact List.Pairwise.nil
    · intro x hx y hy
      split at hx
      · have := List.mem_singleton.mp hx; rw [this]; exact (hint y hy).1
      · cases hx
    · split
      · exact List.pairwise_singleton _ _
      · exact List.Pairwise.nil
    · intro x hx y hy
      have hxle : x.pos ≤ pos + b.text.length := by
        rcases List.mem_append.mp hx with hx | hx
        · split at hx
          · have := List.mem_singleton.mp hx; rw [this]; simp only; omega
          · cases hx
        · exact (hint x hx).2
      split at hy
      · have := List.mem_singleton.mp hy; rw [this]; simp only; omega
      · cases hy
    · intro x hx y hy
      have hy' := detectAux_ge rest _ _ y hy
      have hxle : x.pos ≤ pos + b.text.length + (if rest ≠ [] then 2 else 0) := by
        rcases List.mem_append.mp hx with hx | hx
        · rcases List.mem_append.mp hx with hx | hx
          · split at hx
            · have := List.mem_singleton.mp hx; rw [this]; simp only; omega
            · cases hx
          · have := (hint x hx).2; omega
        · split at hx
          · have := List.mem_singleton.mp hx; rw [this]; exact Nat.le_refl _
          · cases hx
      omega

theorem detectBoundaries_sorted (blocks : List Block) :
    (detectBoundaries blocks).Pairwise (fun x y => x.pos ≤ y.pos) :=
  detectAux_sorted blocks 0 0

end Tabula.SemBoundary

namespace Tabula.SemBoundary
open Tabula.Split Tabula.Overlap Tabula.Sentences

/-! ### the byte-level and the rune-level sentence-end tests agree on ASCII text -/

/-- every byte is ASCII -/
def Ascii (text : Array Nat) : Prop := ∀ i, getB text i < 0x80

theorem getB_eq_getR (text : Array Nat) (i : Nat) : getB text i = getR text i := rfl

theorem isUpper_ascii (cl : Classes) {b : Nat} (h : b < 0x80) : isUpper cl b = isUpperLatin1 b := by
  unfold isUpper isUpperLatin1
  rw [if_pos h]
  have h1 : (192 ≤ b) = False := by simp; omega
  have h2 : (216 ≤ b) = False := by simp; omega
  simp [h1, h2]

theorem isLetter_ascii (cl : Classes) {b : Nat} (h : b < 0x80) : isLetter cl b = isLetterLatin1 b := by
  unfold isLetter isLetterLatin1
  rw [if_pos h]
  have h1 : (b == 170) = false := by simp; omega
  have h2 : (b == 181) = false := by simp; omega
  have h3 : (b == 186) = false := by simp; omega
  have h4 : decide (192 ≤ b) = false := by simp; omega
  have h5 : decide (216 ≤ b) = false := by simp; omega
  have h6 : decide (248 ≤ b) = false := by simp; omega
  simp [h1, h2, h3, h4, h5, h6]

theorem isDigit_ascii (cl : Classes) {b : Nat} (h : b < 0x80) : isDigit cl b = isDigitLatin1 b := by
  unfold isDigit isDigitLatin1
  rw [if_pos h]

theorem isSpaceRune_ascii {b : Nat} (h : b < 0x80) : isSpaceRune b = isSpaceLatin1 b := by
  unfold isSpaceRune isSpaceLatin1
  have e : ∀ k : Nat, 0x80 ≤ k → (b == k) = false := by intro k hk; simp; omega
  have h1 : decide (0x2000 ≤ b) = false := by simp; omega
  simp [e 0x85, e 0xA0, e 0x1680, e 0x2028, e 0x2029, e 0x202F, e 0x205F, e 0x3000, h1]

theorem toLower_ascii (cl : Classes) {b : Nat} (h : b < 0x80) : toLower cl b = asciiLower b := by
  unfold toLower asciiLower
  rw [if_pos h]

theorem letterStart_ascii (cl : Classes) (text : Array Nat) (ha : Ascii text) (i : Nat) :
    letterStart cl text i = letterStartB text i := by
  induction i with
  | zero => rfl
  | succ n ih =>
    unfold letterStart letterStartB
    have e : getR text n = getB text n := rfl
    rw [e, isLetter_ascii cl (ha n), ih]

theorem extract_ascii (text : Array Nat) (ha : Ascii text) (a b : Nat) :
    ∀ x ∈ (text.extract a b).toList, x < 0x80 := by
  intro x hx
  have hx' : x ∈ text.toList := by
    have : x ∈ List.take (b - a) (List.drop a text.toList) := by simpa using hx
    exact List.mem_of_mem_drop (List.mem_of_mem_take this)
  obtain ⟨i, hi, e⟩ := List.getElem_of_mem hx'
  have := ha i
  unfold getB at this
  have hi' : i < text.size := by simpa using hi
  simp [hi'] at this
  have e' : text[i] = x := by simpa using e
  omega

theorem isAbbreviation_ascii (cl : Classes) (text : Array Nat) (ha : Ascii text) (i : Nat) :
    isAbbreviationRune cl text i = isAbbreviationB text i := by
  unfold isAbbreviationRune isAbbreviationB
  simp only
  rw [letterStart_ascii cl text ha]
  split
  · rfl
  · congr 1
    apply List.map_congr_left
    intro x hx
    exact toLower_ascii cl (extract_ascii text ha _ _ x hx)

/-- on ASCII text `isSentenceEnd` (boundary.go, bytes read as Latin-1) and `isSentenceEndRune`
(overlap.go, runes with the Unicode tables) give the same answer at every position -/
theorem isSentenceEnd_agree_ascii (cl : Classes) (text : Array Nat) (ha : Ascii text) (i : Nat) :
    isSentenceEndRune cl text i = isSentenceEndB text i := by
  unfold isSentenceEndRune isSentenceEndB
  have e : ∀ j, getR text j = getB text j := fun _ => rfl
  have : (i > 0) = (i ≥ 1) := by apply propext; omega
  simp only [e, isUpper_ascii cl (ha (i - 1)), isLetter_ascii cl (ha (i - 2)), isAbbreviation_ascii cl text ha,
    isDigit_ascii cl (ha (i - 1)), isDigit_ascii cl (ha (i + 1)), isSpaceRune_ascii (ha (i + 1)),
    isUpper_ascii cl (ha (i + 2)), this]

end Tabula.SemBoundary
