import TabulaModel.Lemmas.WorkbookBounds
/-!
The outputs of the xlsx reader as renderings of one table of displayed values (C17):
`shownGrid` (all positions, for the text) and `boxTable` (the content box, for Markdown,
Document and Tables).
-/
namespace Tabula.Wb
open Tabula.A1 Tabula.Sheet

/-! ## generic list facts -/

/-- a loop over `a, a+1, …, a+n-1` indexing a list = a walk over that slice of the list -/
theorem range'_map_getElem? {α β : Type} (f : Option α → β) (l : List α) (a n : Nat) (h : a + n ≤ l.length) :
    (List.range' a n).map (fun i => f l[i]?) = ((l.drop a).take n).map (fun x => f (some x)) := by
  induction n generalizing a with
  | zero => simp
  | succ n ih =>
    have ha : a < l.length := by omega
    rw [List.range'_succ, List.map_cons, ih (a + 1) (by omega), List.drop_eq_getElem_cons ha,
      List.take_succ_cons, List.map_cons, List.getElem?_eq_getElem ha]

theorem flatMap_const_length {α β γ : Type} (x : List γ) (l : List α) (l' : List β) (h : l.length = l'.length) :
    l.flatMap (fun _ => x) = l'.flatMap (fun _ => x) := by
  induction l generalizing l' with
  | nil => cases l' with
    | nil => rfl
    | cons _ _ => simp at h
  | cons a l ih => cases l' with
    | nil => simp at h
    | cons b l' =>
      simp only [List.flatMap_cons]
      rw [ih l' (by simpa using h)]

/-! ## the tables of displayed values -/

/-- the displayed text of every cell of the grid, row by row -/
def shownGrid (g : Grid) : List (List Str) := g.map fun row => row.map cellText

/-- rows `r0 … r0+nR-1`, columns `c0 … c0+nC-1` of a table -/
def subTable {α : Type} (t : List (List α)) (r0 nR c0 nC : Nat) : List (List α) :=
  ((t.drop r0).take nR).map fun row => (row.drop c0).take nC

def Bounds.r0 (b : Bounds) : Nat := b.minRow.toNat
def Bounds.nR (b : Bounds) : Nat := (b.maxRow - b.minRow + 1).toNat
def Bounds.c0 (b : Bounds) : Nat := b.minCol.toNat
def Bounds.nC (b : Bounds) : Nat := (b.maxCol - b.minCol + 1).toNat

/-- **the content box**: the displayed values of the positions inside `findContentBounds` -/
def boxTable (s : Sheet) : List (List Str) :=
  let b := findContentBounds s
  subTable (shownGrid s.rows) b.r0 b.nR b.c0 b.nC

theorem shownGrid_get (g : Grid) (r c : Nat) :
    ((shownGrid g)[r]?).bind (·[c]?) = (g.get r c).map cellText := by
  unfold shownGrid Grid.get
  rw [List.getElem?_map]
  cases g[r]? with
  | none => rfl
  | some row => simp [List.getElem?_map]

/-- entry `(i,j)` of a sub-table is entry `(r0+i, c0+j)` of the table -/
theorem subTable_get {α : Type} (t : List (List α)) (r0 nR c0 nC i j : Nat) :
    ((subTable t r0 nR c0 nC)[i]?).bind (·[j]?) =
      if i < nR ∧ j < nC then (t[r0 + i]?).bind (·[c0 + j]?) else none := by
  unfold subTable
  rw [List.getElem?_map, List.getElem?_take]
  by_cases hi : i < nR
  · simp only [hi, if_true, true_and, List.getElem?_drop]
    cases t[r0 + i]? <;> by_cases hj : j < nC <;> simp [hj, List.getElem?_take, List.getElem?_drop]
  · simp [hi]

theorem boxTable_get (s : Sheet) (i j : Nat) :
    ((boxTable s)[i]?).bind (·[j]?) =
      if i < (findContentBounds s).nR ∧ j < (findContentBounds s).nC then
        (s.rows.get ((findContentBounds s).r0 + i) ((findContentBounds s).c0 + j)).map cellText
      else none := by
  unfold boxTable
  simp only
  rw [subTable_get, shownGrid_get]

theorem subTable_length {α : Type} (t : List (List α)) (r0 nR c0 nC : Nat) (h : r0 + nR ≤ t.length) :
    (subTable t r0 nR c0 nC).length = nR := by
  unfold subTable
  rw [List.length_map, List.length_take, List.length_drop]
  omega

theorem subTable_row_length {α : Type} (t : List (List α)) (r0 nR c0 nC n : Nat)
    (hrect : ∀ row ∈ t, row.length = n) (h : c0 + nC ≤ n) :
    ∀ row ∈ subTable t r0 nR c0 nC, row.length = nC := by
  intro row hrow
  unfold subTable at hrow
  simp only [List.mem_map] at hrow
  obtain ⟨row', hr', rfl⟩ := hrow
  have : row' ∈ t := List.mem_of_mem_drop (List.mem_of_mem_take hr')
  rw [List.length_take, List.length_drop, hrect row' this]
  omega

/-! ## the box in natural numbers -/

theorem box_facts (s : Sheet) (hrect : Rect (s.maxCol + 1) s.rows)
    (hne : (findContentBounds s).isEmpty = false) :
    (findContentBounds s).r0 + (findContentBounds s).nR ≤ s.rows.length ∧
    (findContentBounds s).c0 + (findContentBounds s).nC ≤ s.maxCol + 1 ∧
    1 ≤ (findContentBounds s).nR ∧ 1 ≤ (findContentBounds s).nC ∧
    span (findContentBounds s).minCol (findContentBounds s).maxCol =
      List.range' (findContentBounds s).c0 (findContentBounds s).nC ∧
    span ((findContentBounds s).minRow + 1) (findContentBounds s).maxRow =
      List.range' ((findContentBounds s).r0 + 1) ((findContentBounds s).nR - 1) := by
  obtain ⟨h1, h2, h3, h4, h5, h6⟩ := bounds_in_grid s hrect hne
  unfold Bounds.r0 Bounds.nR Bounds.c0 Bounds.nC span
  refine ⟨by omega, by omega, by omega, by omega, rfl, ?_⟩
  congr 1 <;> omega

/-- the cells of the content box -/
def boxCells (s : Sheet) : List (List Cell) :=
  let b := findContentBounds s
  subTable s.rows b.r0 b.nR b.c0 b.nC

theorem subTable_map {α β : Type} (f : α → β) (t : List (List α)) (r0 nR c0 nC : Nat) :
    subTable (t.map fun row => row.map f) r0 nR c0 nC = (subTable t r0 nR c0 nC).map fun row => row.map f := by
  unfold subTable
  rw [← List.map_drop, ← List.map_take, List.map_map, List.map_map]
  apply List.map_congr_left
  intro row _
  simp [List.map_drop, List.map_take]

theorem boxTable_eq_boxCells (s : Sheet) : boxTable s = (boxCells s).map fun row => row.map cellText := by
  unfold boxTable boxCells shownGrid
  exact subTable_map cellText s.rows _ _ _ _

/-- the box has at least one row: its first row and the rest -/
theorem boxCells_cons (s : Sheet) (hrect : Rect (s.maxCol + 1) s.rows)
    (hne : (findContentBounds s).isEmpty = false) :
    ∃ cells, s.rows[(findContentBounds s).r0]? = some cells ∧
      boxCells s = ((cells.drop (findContentBounds s).c0).take (findContentBounds s).nC) ::
        ((s.rows.drop ((findContentBounds s).r0 + 1)).take ((findContentBounds s).nR - 1)).map
          fun row => (row.drop (findContentBounds s).c0).take (findContentBounds s).nC := by
  obtain ⟨f1, f2, f3, f4, _, _⟩ := box_facts s hrect hne
  have hlt : (findContentBounds s).r0 < s.rows.length := by omega
  refine ⟨s.rows[(findContentBounds s).r0], List.getElem?_eq_getElem hlt, ?_⟩
  unfold boxCells subTable
  simp only
  rw [List.drop_eq_getElem_cons hlt]
  have : (findContentBounds s).nR = ((findContentBounds s).nR - 1) + 1 := by omega
  rw [this, List.take_succ_cons, List.map_cons]
  simp

/-! ## Tables -/

theorem tableCell_eq (g : Grid) (row : Nat) :
    tableCell g row = fun col => match (g[row]?).bind (·[col]?) with | some cell => cellText cell | none => [] := rfl

/-- the headers and rows of `sheetToTable` are the content box of displayed values -/
theorem sheetToTable_box (s : Sheet) (hrect : Rect (s.maxCol + 1) s.rows)
    (hne : (findContentBounds s).isEmpty = false) :
    (sheetToTable s).name = s.name ∧
    boxTable s = (sheetToTable s).headers :: (sheetToTable s).rows := by
  obtain ⟨f1, f2, f3, f4, f5, f6⟩ := box_facts s hrect hne
  obtain ⟨cells, hcells, hbox⟩ := boxCells_cons s hrect hne
  have hlt : (findContentBounds s).r0 < s.rows.length := by omega
  have hlen : ∀ row ∈ s.rows, (findContentBounds s).c0 + (findContentBounds s).nC ≤ row.length := by
    intro row hrow; rw [hrect row hrow]; exact f2
  have hrow : ∀ (row : List Cell), (findContentBounds s).c0 + (findContentBounds s).nC ≤ row.length →
      (List.range' (findContentBounds s).c0 (findContentBounds s).nC).map
        (fun col => match (some row).bind (·[col]?) with | some cell => cellText cell | none => []) =
      ((row.drop (findContentBounds s).c0).take (findContentBounds s).nC).map cellText := by
    intro row h
    have := range'_map_getElem? (fun o => match o with | some cell => cellText cell | none => ([] : Str)) row _ _ h
    simpa using this
  unfold sheetToTable
  simp only [hne, Bool.false_eq_true, if_false]
  refine ⟨trivial, ?_⟩
  rw [boxTable_eq_boxCells, hbox, List.map_cons, f5, f6]
  have e0 : (findContentBounds s).minRow.toNat = (findContentBounds s).r0 := rfl
  simp only [e0, hlt, if_true]
  congr 1
  · simp only [tableCell_eq, hcells]
    rw [hrow cells (hlen cells (List.mem_of_getElem? hcells))]
  · have := range'_map_getElem?
      (fun o => (List.range' (findContentBounds s).c0 (findContentBounds s).nC).map
        (fun col => match (o : Option (List Cell)).bind (·[col]?) with | some cell => cellText cell | none => ([] : Str)))
      s.rows ((findContentBounds s).r0 + 1) ((findContentBounds s).nR - 1) (by omega)
    simp only [tableCell_eq]
    rw [this, List.map_map]
    apply List.map_congr_left
    intro row hrow'
    have hmem : row ∈ s.rows := List.mem_of_mem_drop (List.mem_of_mem_take hrow')
    simp only [Function.comp]
    exact (hrow row (hlen row hmem)).symm

/-! ## Markdown -/

def cellMd (o : Option Cell) : Str :=
  match o with
  | some cell => escapeMarkdown (cellText cell)
  | none => []

theorem mdCell_eq (g : Grid) (row col : Nat) : mdCell g row col = cellMd ((g[row]?).bind (·[col]?)) := by
  unfold mdCell cellMd Grid.get
  cases (g[row]?).bind (·[col]?) with
  | none => rfl
  | some cell =>
    simp only
    unfold cellText
    cases cell.merged <;> cases cell.root <;> simp <;> rfl

def rowMd (cols : List Nat) (o : Option (List Cell)) : Str :=
  [124] ++ cols.flatMap (fun col => [32] ++ cellMd (o.bind (·[col]?)) ++ [32, 124]) ++ [10]

theorem mdRow_eq (g : Grid) (cols : List Nat) : mdRow g cols = fun row => rowMd cols g[row]? := by
  funext row
  unfold mdRow rowMd
  simp only [mdCell_eq]

theorem rowMd_some (cells : List Cell) (c0 nC : Nat) (h : c0 + nC ≤ cells.length) :
    rowMd (List.range' c0 nC) (some cells) = ptRow (((cells.drop c0).take nC).map cellText) := by
  unfold rowMd ptRow
  simp only [Option.bind_some]
  rw [List.flatMap_def, range'_map_getElem? (fun o => [32] ++ cellMd o ++ [32, 124]) cells c0 nC h,
    List.flatMap_def, List.map_map]
  rfl

/-- **the Markdown table of a sheet is the Markdown of its `Tables()` entry** -/
theorem sheetTableMd_eq (s : Sheet) (hrect : Rect (s.maxCol + 1) s.rows) :
    sheetTableMd s = (sheetToTable s).toMarkdown := by
  cases hne : (findContentBounds s).isEmpty with
  | true =>
    have h1 : sheetTableMd s = [] := by
      unfold sheetTableMd; simp only [hne]; split <;> rfl
    have h2 : sheetToTable s = ⟨s.name, [], []⟩ := by
      unfold sheetToTable; simp only [hne, if_true]
    rw [h1, h2]; rfl
  | false =>
    obtain ⟨f1, f2, f3, f4, f5, f6⟩ := box_facts s hrect hne
    obtain ⟨cells, hcells, hbox⟩ := boxCells_cons s hrect hne
    obtain ⟨_, htab⟩ := sheetToTable_box s hrect hne
    rw [boxTable_eq_boxCells, hbox, List.map_cons] at htab
    have hh := (List.cons.inj htab).1
    have hr := (List.cons.inj htab).2
    have hlen : ∀ row ∈ s.rows, (findContentBounds s).c0 + (findContentBounds s).nC ≤ row.length := by
      intro row hrow; rw [hrect row hrow]; exact f2
    have hnonempty : s.rows.isEmpty = false := by
      cases hs : s.rows with
      | nil => rw [hs] at f1; simp at f1; omega
      | cons _ _ => rfl
    have hcl := hlen cells (List.mem_of_getElem? hcells)
    have hhlen : (sheetToTable s).headers.length = (findContentBounds s).nC := by
      rw [← hh, List.length_map, List.length_take, List.length_drop]; omega
    have hhne : (sheetToTable s).headers.isEmpty = false := by
      cases hx : (sheetToTable s).headers with
      | nil => rw [hx] at hhlen; simp at hhlen; omega
      | cons _ _ => rfl
    unfold sheetTableMd PTable.toMarkdown
    simp only [hnonempty, hne, Bool.false_eq_true, if_false, hhne, false_and]
    rw [f5, f6, mdRow_eq]
    simp only
    have e0 : (findContentBounds s).minRow.toNat = (findContentBounds s).r0 := rfl
    rw [e0, hcells, rowMd_some cells _ _ hcl, hh]
    congr 1
    · congr 1
      unfold mdSep
      congr 2
      apply flatMap_const_length
      rw [List.length_range', hhlen]
    · rw [List.flatMap_def, range'_map_getElem?
        (fun o => rowMd (List.range' (findContentBounds s).c0 (findContentBounds s).nC) o)
        s.rows ((findContentBounds s).r0 + 1) ((findContentBounds s).nR - 1) (by omega),
        ← hr, List.flatMap_def]
      simp only [List.map_map]
      congr 1
      apply List.map_congr_left
      intro row hrow'
      have hmem : row ∈ s.rows := List.mem_of_mem_drop (List.mem_of_mem_take hrow')
      simp only [Function.comp]
      exact rowMd_some row _ _ (hlen row hmem)

/-! ## Document -/

theorem toDCell_text (h : Bool) (cell : Cell) : (toDCell h cell).text = cellText cell := rfl

/-- the texts of the document table are the content box of displayed values -/
theorem docTable_texts (g : Grid) (b : Bounds) :
    (docTable g b).map (fun row => row.map (·.text)) = subTable (shownGrid g) b.r0 b.nR b.c0 b.nC := by
  unfold docTable shownGrid
  rw [subTable_map]
  unfold subTable Bounds.r0 Bounds.nR Bounds.c0 Bounds.nC
  simp only [List.map_map]
  have : ∀ (l : List (List Cell)) (n : Nat),
      (l.zipIdx n).map ((fun row => List.map (fun x => x.text) row) ∘ fun (x : List Cell × Nat) =>
        List.map (toDCell (x.2 == 0)) (List.take (b.maxCol - b.minCol + 1).toNat (List.drop b.minCol.toNat x.1))) =
      l.map ((fun row => List.map cellText row) ∘ fun row => List.take (b.maxCol - b.minCol + 1).toNat (List.drop b.minCol.toNat row)) := by
    intro l
    induction l with
    | nil => intro n; rfl
    | cons row rows ih =>
      intro n
      simp only [List.zipIdx_cons, List.map_cons, Function.comp, List.map_map]
      congr 1
      exact ih (n + 1)
  exact this _ 0

/-- entry `(i,j)` of the document table is built from grid cell `(r0+i, c0+j)`; the first row is
the header row -/
theorem docTable_get (g : Grid) (b : Bounds) (i j : Nat) :
    ((docTable g b)[i]?).bind (·[j]?) =
      if i < b.nR ∧ j < b.nC then (g.get (b.r0 + i) (b.c0 + j)).map (toDCell (i == 0)) else none := by
  unfold docTable Grid.get Bounds.r0 Bounds.nR Bounds.c0 Bounds.nC
  simp only [List.getElem?_map, List.getElem?_zipIdx, List.getElem?_take, List.getElem?_drop]
  by_cases hi : i < (b.maxRow - b.minRow + 1).toNat
  · simp only [hi, if_true, true_and]
    cases g[b.minRow.toNat + i]? <;> by_cases hj : j < (b.maxCol - b.minCol + 1).toNat <;>
      simp [hj, List.getElem?_take, List.getElem?_drop]
  · simp [hi]

end Tabula.Wb
