import TabulaModel.Lemmas.Utf8
import TabulaModel.Lemmas.Overlap
/-!
C13, UTF-8 integrity and size of the character overlap (`generateCharacterOverlap`).
-/
set_option linter.unusedVariables false
namespace Tabula.Overlap
open Tabula.Split

/-- `skipCont` stops at the end or at a rune-start byte -/
theorem skipCont_eq_drop (t : Str) :
    ∃ j, skipCont t = t.drop j ∧ (t.length ≤ j ∨ ∃ b, t[j]? = some b ∧ runeStart b = true) := by
  induction t with
  | nil => exact ⟨0, rfl, Or.inl (Nat.le_refl _)⟩
  | cons b rest ih =>
    unfold skipCont
    split
    · rename_i hb; exact ⟨0, rfl, Or.inr ⟨b, rfl, hb⟩⟩
    · obtain ⟨j, e, hj⟩ := ih
      refine ⟨j + 1, by simpa using e, ?_⟩
      rcases hj with hj | ⟨b', hb', hs⟩
      · left; simp; omega
      · right; exact ⟨b', by simpa using hb', hs⟩

theorem valid_skipCont_drop (s : Str) (hv : validUtf8 s = true) (k : Nat) :
    validUtf8 (skipCont (s.drop k)) = true := by
  obtain ⟨j, e, hj⟩ := skipCont_eq_drop (s.drop k)
  rw [e, List.drop_drop]
  rcases hj with hj | ⟨b, hb, hs⟩
  · have : s.drop (k + j) = [] := by
      apply List.drop_eq_nil_of_le
      simp only [List.length_drop] at hj; omega
    rw [this]; exact validUtf8_nil
  · rw [List.getElem?_drop] at hb
    have ht := valid_take_of_runeStart s hv (k + j) (Or.inr ⟨b, hb, hs⟩)
    exact valid_drop_of_valid_take s hv _ ht

theorem valid_skipNonSpace (fuel : Nat) (s : Str) (hv : validUtf8 s = true) :
    validUtf8 (skipNonSpace fuel s) = true := by
  induction fuel generalizing s with
  | zero => exact hv
  | succ n ih =>
    unfold skipNonSpace
    split
    · exact validUtf8_nil
    · rename_i hs
      split
      · exact hv
      · apply ih
        have hc := charLen_ne_zero_of_valid hs hv
        have : runeLen s = charLen s := by simp [runeLen, hc]
        rw [this, ← validUtf8_step s hc]; exact hv

/-- the character overlap of valid UTF-8 is valid UTF-8 -/
theorem valid_generateCharacterOverlap (c : OverlapConfig) (text : Str) (hv : validUtf8 text = true) :
    validUtf8 (generateCharacterOverlap c text) = true := by
  unfold generateCharacterOverlap
  split
  · exact hv
  · simp only
    have h1 := valid_skipCont_drop text hv (text.length - c.size)
    generalize skipCont (text.drop (text.length - c.size)) = t1 at h1 ⊢
    have h2 : validUtf8 (if c.preserveWords = true then trimLeft (skipNonSpace t1.length t1) else t1) = true := by
      split
      · exact valid_trimLeft _ (valid_skipNonSpace _ _ h1)
      · exact h1
    generalize (if c.preserveWords = true then trimLeft (skipNonSpace t1.length t1) else t1) = t at h2 ⊢
    split
    · exact validUtf8_nil
    · exact valid_trimSpace _ h2

theorem skipNonSpace_length_le (fuel : Nat) (s : Str) : (skipNonSpace fuel s).length ≤ s.length := by
  obtain ⟨a, e⟩ := skipNonSpace_suffix fuel s
  exact suffix_length_le e

/-- the character overlap has at most `Size` bytes -/
theorem generateCharacterOverlap_length_le_size (c : OverlapConfig) (text : Str) :
    (generateCharacterOverlap c text).length ≤ c.size := by
  unfold generateCharacterOverlap
  split
  · assumption
  · simp only
    have h1 := skipCont_length_le (text.drop (text.length - c.size))
    simp only [List.length_drop] at h1
    generalize skipCont (text.drop (text.length - c.size)) = t1 at h1 ⊢
    have h2 : (if c.preserveWords = true then trimLeft (skipNonSpace t1.length t1) else t1).length ≤ t1.length := by
      split
      · exact Nat.le_trans (trimLeft_length_le _) (skipNonSpace_length_le _ _)
      · exact Nat.le_refl _
    generalize (if c.preserveWords = true then trimLeft (skipNonSpace t1.length t1) else t1) = t at h2 ⊢
    split
    · simp
    · have := trimSpace_length_le t
      omega

end Tabula.Overlap
