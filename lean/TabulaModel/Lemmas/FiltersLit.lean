import TabulaModel.Model.FiltersLit
import TabulaModel.Lemmas.Filters
/-!
The loop-level models of `Model/FiltersLit.lean` compute what the one-pass models of
`Model/Filters.lean` compute, on every input: `hexDecodeLit = hexDecode`, `a85DecodeLit = a85Decode`.
Machine arithmetic first (`byte`, `uint64`, shifts, bitwise or), then the loops.
-/
namespace Tabula.Filters

/-! ### machine arithmetic -/

/-- `b << 4` on a `byte` holding a hexadecimal digit value does not overflow -/
theorem toByte_shl4 (b : Nat) (h : b < 16) : toByte (b <<< 4) = b * 16 := by
  unfold toByte
  rw [Nat.shiftLeft_eq]
  omega

/-- `(b1 << 4) | b2` is `b1*16 + b2` for two digit values -/
theorem nibbles_or (h l : Nat) (hh : h < 16) (hl : l < 16) : (h * 16) ||| l = h * 16 + l := by
  have key : ∀ a : Fin 16, ∀ b : Fin 16, (a.val * 16) ||| b.val = a.val * 16 + b.val := by decide
  exact key ⟨h, hh⟩ ⟨l, hl⟩

/-- `data[i] - '!'` on a `byte` in `!`..`u` does not wrap -/
theorem toByte_digit (c : Nat) (h1 : 33 ≤ c) (h2 : c ≤ 117) : toByte (c - 33) = c - 33 := by
  unfold toByte; omega

/-- the `uint64` accumulator never wraps on five base-85 digits -/
theorem a85ValueU64_five (d0 d1 d2 d3 d4 : Nat) (h0 : d0 < 85) (h1 : d1 < 85) (h2 : d2 < 85) (h3 : d3 < 85)
    (h4 : d4 < 85) : a85ValueU64 [d0, d1, d2, d3, d4] = a85Value [d0, d1, d2, d3, d4] := by
  simp only [a85ValueU64, a85Value, List.foldl_cons, List.foldl_nil, toU64, Nat.zero_mul, Nat.zero_add]
  omega

/-- `byte(value >> (24 - j*8))` for `j < numBytes ≤ 4` are the leading big-endian bytes -/
theorem a85Emit_eq (v k : Nat) (hk : k ≤ 4) : a85Emit v k = (bytes4 v).take k := by
  have e24 : v >>> 24 = v / 16777216 := by rw [Nat.shiftRight_eq_div_pow]
  have e16 : v >>> 16 = v / 65536 := by rw [Nat.shiftRight_eq_div_pow]
  have e8 : v >>> 8 = v / 256 := by rw [Nat.shiftRight_eq_div_pow]
  have e0 : v >>> 0 = v := rfl
  match k, hk with
  | 0, _ => rfl
  | 1, _ => simp [a85Emit, List.range, List.range.loop, bytes4, toByte, e24]
  | 2, _ => simp [a85Emit, List.range, List.range.loop, bytes4, toByte, e24, e16]
  | 3, _ => simp [a85Emit, List.range, List.range.loop, bytes4, toByte, e24, e16, e8]
  | 4, _ => simp [a85Emit, List.range, List.range.loop, bytes4, toByte, e24, e16, e8, e0]

/-- everything between the end of the inner loop and the next turn of the outer loop of
`ASCII85Decode` (`numBytes` with its clamp, the `u` padding, the `uint64` value, the range test, the
byte extraction) is `a85Flush` -/
theorem a85_tail_eq_flush (ds : List Nat) (h1 : 1 ≤ ds.length) (h5 : ds.length ≤ 5) (hd : ∀ d ∈ ds, d < 85) :
    (if a85ValueU64 (padTo5 ds) > 4294967295 then none
     else some (a85Emit (a85ValueU64 (padTo5 ds)) (if ds.length - 1 > 4 then 4 else ds.length - 1))) = a85Flush ds := by
  have hne : ds ≠ [] := by intro h; rw [h] at h1; simp at h1
  have hnb : (if ds.length - 1 > 4 then 4 else ds.length - 1) = ds.length - 1 := by
    split <;> omega
  have hval : a85ValueU64 (padTo5 ds) = a85Value (ds ++ List.replicate (5 - ds.length) 84) := by
    unfold padTo5
    match ds, h1, h5, hd with
    | [a], _, _, hd =>
      exact a85ValueU64_five a 84 84 84 84 (hd a (by simp)) (by omega) (by omega) (by omega) (by omega)
    | [a, b], _, _, hd =>
      exact a85ValueU64_five a b 84 84 84 (hd a (by simp)) (hd b (by simp)) (by omega) (by omega) (by omega)
    | [a, b, c], _, _, hd =>
      exact a85ValueU64_five a b c 84 84 (hd a (by simp)) (hd b (by simp)) (hd c (by simp)) (by omega) (by omega)
    | [a, b, c, d], _, _, hd =>
      exact a85ValueU64_five a b c d 84 (hd a (by simp)) (hd b (by simp)) (hd c (by simp)) (hd d (by simp)) (by omega)
    | [a, b, c, d, e], _, _, hd =>
      exact a85ValueU64_five a b c d e (hd a (by simp)) (hd b (by simp)) (hd c (by simp)) (hd d (by simp)) (hd e (by simp))
    | _ :: _ :: _ :: _ :: _ :: _ :: _, _, h5, _ => simp at h5
  rw [hnb, hval, a85Emit_eq _ _ (by omega)]
  simp [a85Flush, hne]

/-! ### the white-space loop -/

/-- what `skipWs` steps over is white space, and it stops at the end or at a non-white-space byte -/
theorem skipWs_spec (data : Str) : ∀ (n i : Nat), data.length - i = n →
    ∃ w, (∀ c ∈ w, isWs c = true) ∧ data.drop i = w ++ data.drop (skipWs data i) ∧
      (∀ h : skipWs data i < data.length, isWs (data[skipWs data i]'h) = false) := by
  intro n
  induction n using Nat.strongRecOn with
  | _ n ih =>
    intro i hn
    rw [skipWs]
    split
    · rename_i hlt
      split
      · rename_i hws
        obtain ⟨w, hw, hdrop, hstop⟩ := ih (data.length - (i + 1)) (by omega) (i + 1) rfl
        refine ⟨data[i] :: w, ?_, ?_, hstop⟩
        · intro c hc
          simp only [List.mem_cons] at hc
          rcases hc with hc | hc
          · rw [hc]; exact hws
          · exact hw c hc
        · rw [List.drop_eq_getElem_cons hlt, hdrop]; rfl
      · rename_i hws
        exact ⟨[], by simp, rfl, fun _ => by simpa using hws⟩
    · rename_i hge
      exact ⟨[], by simp, rfl, fun h => absurd h hge⟩

/-! ### ASCIIHexDecode -/

theorem hexLoop_eq (data : Str) : ∀ (n i : Nat) (out : Str), data.length - i = n →
    hexLoop data i out = hexGo (data.drop i) none out.reverse := by
  intro n
  induction n using Nat.strongRecOn with
  | _ n ih =>
    intro i out hn
    rw [hexLoop]
    split
    · rename_i hlt
      rw [List.drop_eq_getElem_cons hlt]
      simp only [hexGo]
      split
      · -- white space
        exact ih (data.length - (i + 1)) (by omega) (i + 1) out rfl
      · rename_i hws
        split
        · -- `>`
          simp [hexFinish]
        · rename_i h62
          split
          · -- the last byte of the data
            rename_i hlast
            have hnil : data.drop (i + 1) = [] := List.drop_eq_nil_of_le (by omega)
            cases hv : hexVal data[i] with
            | none => rfl
            | some b =>
              have hb := (hexVal_some_props _ _ hv).2.2
              simp [hnil, hexGo, hexFinish, toByte_shl4 b hb]
          · rename_i hlast
            cases hv : hexVal data[i] with
            | none => rfl
            | some b1 =>
              have hb1 := (hexVal_some_props _ _ hv).2.2
              simp only
              obtain ⟨w, hw, hdrop, hstop⟩ := skipWs_spec data _ (i + 1) rfl
              have hge := skipWs_ge data _ (i + 1) rfl
              rw [hdrop, hexGo_ws w _ _ _ hw]
              split
              · rename_i hj
                rw [List.drop_eq_getElem_cons hj]
                have hnws := hstop hj
                simp only [hexGo, hnws, Bool.false_eq_true, if_false]
                split
                · -- `>` after the first digit
                  simp [hexFinish, toByte_shl4 b1 hb1]
                · cases hv2 : hexVal data[skipWs data (i + 1)] with
                  | none => rfl
                  | some b2 =>
                    have hb2 := (hexVal_some_props _ _ hv2).2.2
                    simp only
                    rw [ih (data.length - (skipWs data (i + 1) + 1)) (by omega) _ _ rfl]
                    simp [toByte_shl4 b1 hb1, nibbles_or b1 b2 hb1 hb2]
              · rename_i hj
                have hnil : data.drop (skipWs data (i + 1)) = [] := List.drop_eq_nil_of_le (by omega)
                simp [hnil, hexGo, hexFinish, toByte_shl4 b1 hb1]
    · rename_i hge
      have hnil : data.drop i = [] := List.drop_eq_nil_of_le (by omega)
      simp [hnil, hexGo, hexFinish]

/-- **the loops of `ASCIIHexDecode` are the state machine `hexDecode`**, on every input -/
theorem hexDecodeLit_eq (data : Str) : hexDecodeLit data = hexDecode data := by
  unfold hexDecodeLit hexDecode
  rw [hexLoop_eq data _ 0 [] rfl]
  rfl

/-! ### ASCII85Decode -/

/-- `isEODAt` is the test of `a85Go` on the remaining input -/
theorem isEODAt_iff (data : Str) (i : Nat) (h : i < data.length) :
    isEODAt data i = true ↔ (data[i] = 126 ∧ (data.drop (i + 1)).head? = some 62) := by
  unfold isEODAt
  rw [List.getElem?_eq_getElem h]
  by_cases h2 : i + 1 < data.length
  · rw [List.getElem?_eq_getElem h2, List.drop_eq_getElem_cons h2]
    simp [h2]
  · have hnil : data.drop (i + 1) = [] := List.drop_eq_nil_of_le (by omega)
    simp [h2, hnil]

/-! the inner loop, one turn at a time -/

theorem a85Inner_exit (data : Str) (i : Nat) (ds : List Nat) (h : ¬ (ds.length < 5 ∧ i < data.length)) :
    a85Inner data i ds = some (i, ds) := by
  rw [a85Inner]; simp [h]

theorem a85Inner_ws (data : Str) (i : Nat) (ds : List Nat) (hl : ds.length < 5) (hlt : i < data.length)
    (hws : isWs data[i] = true) : a85Inner data i ds = a85Inner data (i + 1) ds := by
  rw [a85Inner]; simp [hl, hlt, hws]

theorem a85Inner_eod (data : Str) (i : Nat) (ds : List Nat) (hl : ds.length < 5) (hlt : i < data.length)
    (hws : isWs data[i] = false) (he : isEODAt data i = true) : a85Inner data i ds = some (i, ds) := by
  rw [a85Inner]; simp [hl, hlt, hws, he]

theorem a85Inner_bad (data : Str) (i : Nat) (ds : List Nat) (hl : ds.length < 5) (hlt : i < data.length)
    (hws : isWs data[i] = false) (he : isEODAt data i = false) (hbad : data[i] < 33 ∨ data[i] > 117) :
    a85Inner data i ds = none := by
  rw [a85Inner]; simp [hl, hlt, hws, he, hbad]

theorem a85Inner_digit (data : Str) (i : Nat) (ds : List Nat) (hl : ds.length < 5) (hlt : i < data.length)
    (hws : isWs data[i] = false) (he : isEODAt data i = false) (hok : ¬ (data[i] < 33 ∨ data[i] > 117)) :
    a85Inner data i ds = a85Inner data (i + 1) (ds ++ [data[i] - 33]) := by
  rw [a85Inner]
  have : toByte (data[i] - 33) = data[i] - 33 := toByte_digit _ (by omega) (by omega)
  simp [hl, hlt, hws, he, hok, this]

/-- the inner loop from a state with at least one digit stored (and fewer than five): it fails
exactly when `a85Go` fails inside the group; with five digits it hands them to the flush and the
outer loop goes on behind them; with fewer it stopped at `~>` or at the end of the data, where
`a85Go` finishes -/
theorem a85Inner_spec (data : Str) : ∀ (n i : Nat) (ds : List Nat) (acc : Str), data.length - i = n →
    ds ≠ [] → ds.length < 5 → (∀ d ∈ ds, d < 85) →
    (a85Inner data i ds = none → a85Go (data.drop i) ds acc = none) ∧
    (∀ i' ds', a85Inner data i ds = some (i', ds') →
      i ≤ i' ∧ ds' ≠ [] ∧ ds'.length ≤ 5 ∧ (∀ d ∈ ds', d < 85) ∧
      (ds'.length = 5 → i < i' ∧
        a85Go (data.drop i) ds acc = match a85Flush ds' with
          | none => none
          | some g => a85Go (data.drop i') [] (g.reverse ++ acc)) ∧
      (ds'.length < 5 → (¬ i' < data.length ∨ isEODAt data i' = true) ∧
        a85Go (data.drop i) ds acc = a85Finish ds' acc)) := by
  intro n
  induction n using Nat.strongRecOn with
  | _ n ih =>
    intro i ds acc hn hne hl hd
    by_cases hlt : i < data.length
    · rw [List.drop_eq_getElem_cons hlt]
      by_cases hws : isWs data[i] = true
      · -- white space
        rw [a85Inner_ws data i ds hl hlt hws]
        have := ih (data.length - (i + 1)) (by omega) (i + 1) ds acc rfl hne hl hd
        simp only [a85Go, hws, if_true]
        refine ⟨this.1, ?_⟩
        intro i' ds' hr
        obtain ⟨h1, h2, h3, h4, h5, h7⟩ := this.2 i' ds' hr
        exact ⟨by omega, h2, h3, h4, fun h => ⟨by omega, (h5 h).2⟩, h7⟩
      · have hws' : isWs data[i] = false := by simpa using hws
        by_cases heod : isEODAt data i = true
        · -- `~>`
          have heod' := (isEODAt_iff data i hlt).mp heod
          rw [a85Inner_eod data i ds hl hlt hws' heod]
          refine ⟨fun h => absurd h (by simp), ?_⟩
          intro i' ds' hr
          simp only [Option.some.injEq, Prod.mk.injEq] at hr
          obtain ⟨hi, hds⟩ := hr
          subst hi hds
          refine ⟨Nat.le_refl _, hne, by omega, hd, fun h => by omega, fun _ => ⟨Or.inr heod, ?_⟩⟩
          have w126 : isWs 126 = false := by decide
          simp only [a85Go, w126, Bool.false_eq_true, if_false, heod', and_self, if_true]
        · have heodf : isEODAt data i = false := by simpa using heod
          have heod' : ¬ (data[i] = 126 ∧ (data.drop (i + 1)).head? = some 62) := by
            intro h; exact heod ((isEODAt_iff data i hlt).mpr h)
          have hnz : ¬ (ds = [] ∧ data[i] = 122) := fun h => hne h.1
          by_cases hbad : data[i] < 33 ∨ data[i] > 117
          · -- a byte outside `!`..`u`
            rw [a85Inner_bad data i ds hl hlt hws' heodf hbad]
            refine ⟨fun _ => ?_, fun i' ds' h => absurd h (by simp)⟩
            simp only [a85Go, hws', Bool.false_eq_true, if_false, heod', hnz, hbad, if_true]
          · rw [a85Inner_digit data i ds hl hlt hws' heodf hbad]
            have hl' : (ds ++ [data[i] - 33]).length = ds.length + 1 := by simp
            have hd' : ∀ d ∈ ds ++ [data[i] - 33], d < 85 := by
              intro d hdm
              rcases List.mem_append.mp hdm with h | h
              · exact hd d h
              · simp at h; omega
            simp only [a85Go, hws', Bool.false_eq_true, if_false, heod', hnz, hbad]
            by_cases hfull : (ds ++ [data[i] - 33]).length = 5
            · -- the digit just stored was the fifth: the inner loop stops at once
              rw [a85Inner_exit data (i + 1) _ (by omega)]
              refine ⟨fun h => absurd h (by simp), ?_⟩
              intro i' ds' hr
              simp only [Option.some.injEq, Prod.mk.injEq] at hr
              obtain ⟨hi, hds⟩ := hr
              subst hi hds
              refine ⟨by omega, by simp, by omega, hd', fun _ => ⟨by omega, ?_⟩, fun h => by omega⟩
              simp only [hfull, if_true]
              rfl
            · simp only [hfull, if_false]
              have := ih (data.length - (i + 1)) (by omega) (i + 1) (ds ++ [data[i] - 33]) acc rfl (by simp)
                (by omega) hd'
              refine ⟨this.1, ?_⟩
              intro i' ds' hr
              obtain ⟨h1, h2, h3, h4, h5, h7⟩ := this.2 i' ds' hr
              exact ⟨by omega, h2, h3, h4, fun h => ⟨by omega, (h5 h).2⟩, h7⟩
    · rw [a85Inner_exit data i ds (by omega)]
      refine ⟨fun h => absurd h (by simp), ?_⟩
      intro i' ds' hr
      simp only [Option.some.injEq, Prod.mk.injEq] at hr
      obtain ⟨hi, hds⟩ := hr
      subst hi hds
      have hnil : data.drop i = [] := List.drop_eq_nil_of_le (by omega)
      exact ⟨Nat.le_refl _, hne, by omega, hd, fun h => by omega, fun _ => ⟨Or.inl hlt, by rw [hnil]; rfl⟩⟩

/-- the outer loop at `~>` or at the end of the data returns what it has -/
theorem a85Outer_stop (data : Str) (i : Nat) (out : Str) (h : ¬ i < data.length ∨ isEODAt data i = true) :
    a85Outer data i out = some out := by
  rw [a85Outer]
  split
  · rename_i hlt
    rcases h with h | h
    · exact absurd hlt h
    · have h126 := ((isEODAt_iff data i hlt).mp h).1
      have hws : isWs data[i] = false := by rw [h126]; decide
      simp [hws, h]
  · rfl

theorem a85Outer_ws (data : Str) (i : Nat) (out : Str) (hlt : i < data.length) (hws : isWs data[i] = true) :
    a85Outer data i out = a85Outer data (i + 1) out := by
  rw [a85Outer]; simp [hlt, hws]

theorem a85Outer_z (data : Str) (i : Nat) (out : Str) (hlt : i < data.length)
    (he : isEODAt data i = false) (hz : data[i] = 122) :
    a85Outer data i out = a85Outer data (i + 1) (out ++ [0, 0, 0, 0]) := by
  rw [a85Outer]
  have w122 : isWs 122 = false := by decide
  simp only [hlt, dite_true, w122, he, Bool.false_eq_true, if_false, hz, if_true]

/-- a turn of the outer loop that collects a group -/
theorem a85Outer_group (data : Str) (i : Nat) (out : Str) (hlt : i < data.length) (hws : isWs data[i] = false)
    (he : isEODAt data i = false) (hz : data[i] ≠ 122) :
    a85Outer data i out =
      match a85Inner data i [] with
      | none => none
      | some (i', digits) =>
        if digits.length = 0 then some out
        else if a85ValueU64 (padTo5 digits) > 4294967295 then none
        else if i < i' then
          a85Outer data i' (out ++ a85Emit (a85ValueU64 (padTo5 digits)) (if digits.length - 1 > 4 then 4 else digits.length - 1))
        else none := by
  rw [a85Outer]
  simp only [hlt, dite_true, hws, he, Bool.false_eq_true, if_false, hz]
  rfl

theorem a85Outer_eq (data : Str) : ∀ (n i : Nat) (out : Str), data.length - i = n →
    a85Outer data i out = a85Go (data.drop i) [] out.reverse := by
  intro n
  induction n using Nat.strongRecOn with
  | _ n ih =>
    intro i out hn
    by_cases hlt : i < data.length
    · rw [List.drop_eq_getElem_cons hlt]
      by_cases hws : isWs data[i] = true
      · rw [a85Outer_ws data i out hlt hws]
        simp only [a85Go, hws, if_true]
        exact ih (data.length - (i + 1)) (by omega) (i + 1) out rfl
      · have hws' : isWs data[i] = false := by simpa using hws
        by_cases heod : isEODAt data i = true
        · have heod' := (isEODAt_iff data i hlt).mp heod
          rw [a85Outer_stop data i out (Or.inr heod)]
          have w126 : isWs 126 = false := by decide
          simp only [a85Go, w126, Bool.false_eq_true, if_false, heod', and_self, if_true]
          simp [a85Finish, a85Flush]
        · have heodf : isEODAt data i = false := by simpa using heod
          have heod' : ¬ (data[i] = 126 ∧ (data.drop (i + 1)).head? = some 62) := by
            intro h; exact heod ((isEODAt_iff data i hlt).mpr h)
          by_cases hz : data[i] = 122
          · rw [a85Outer_z data i out hlt heodf hz]
            have w122 : isWs 122 = false := by decide
            have heod122 : ¬ ((122 : Nat) = 126 ∧ (data.drop (i + 1)).head? = some 62) := by omega
            simp only [a85Go, w122, Bool.false_eq_true, if_false, heod122, hz, and_self, if_true]
            rw [ih (data.length - (i + 1)) (by omega) (i + 1) _ rfl]
            simp
          · have hnz : ¬ (([] : List Nat) = [] ∧ data[i] = 122) := fun h => hz h.2
            rw [a85Outer_group data i out hlt hws' heodf hz]
            simp only [a85Go, hws', Bool.false_eq_true, if_false, heod', hz, and_false]
            by_cases hbad : data[i] < 33 ∨ data[i] > 117
            · rw [a85Inner_bad data i [] (by simp) hlt hws' heodf hbad]
              simp only [hbad, if_true]
            · rw [a85Inner_digit data i [] (by simp) hlt hws' heodf hbad]
              simp only [hbad, if_false, List.nil_append, List.length_singleton, Nat.reduceEqDiff]
              have hspec := a85Inner_spec data _ (i + 1) [data[i] - 33] out.reverse rfl (by simp) (by simp)
                (by intro d hd; simp at hd; omega)
              cases hr : a85Inner data (i + 1) [data[i] - 33] with
              | none => exact (hspec.1 hr).symm
              | some r =>
                obtain ⟨i', ds'⟩ := r
                obtain ⟨h1, h2, h3, h4, h5, h7⟩ := hspec.2 i' ds' hr
                simp only
                have hlen0 : ¬ (ds'.length = 0) := by
                  intro h0; exact h2 (List.length_eq_zero_iff.mp h0)
                simp only [hlen0, if_false]
                have hprog : i < i' := by omega
                have htail := a85_tail_eq_flush ds' (by omega) h3 h4
                by_cases hfive : ds'.length = 5
                · rw [(h5 hfive).2]
                  cases hfl : a85Flush ds' with
                  | none =>
                    rw [hfl] at htail
                    split at htail
                    · rename_i hv; simp [hv]
                    · exact absurd htail (by simp)
                  | some g =>
                    rw [hfl] at htail
                    split at htail
                    · exact absurd htail (by simp)
                    · rename_i hv
                      simp only [Option.some.injEq] at htail
                      simp only [hv, if_false, hprog, if_true]
                      rw [ih (data.length - i') (by omega) i' _ rfl, htail]
                      simp
                · obtain ⟨hstop, hgo⟩ := h7 (by omega)
                  rw [hgo]
                  unfold a85Finish
                  cases hfl : a85Flush ds' with
                  | none =>
                    rw [hfl] at htail
                    split at htail
                    · rename_i hv; simp [hv]
                    · exact absurd htail (by simp)
                  | some g =>
                    rw [hfl] at htail
                    split at htail
                    · exact absurd htail (by simp)
                    · rename_i hv
                      simp only [Option.some.injEq] at htail
                      simp only [hv, if_false, hprog, if_true]
                      rw [a85Outer_stop data i' _ hstop, htail]
                      simp
    · have hnil : data.drop i = [] := List.drop_eq_nil_of_le (by omega)
      rw [a85Outer_stop data i out (Or.inl hlt), hnil]
      simp [a85Go, a85Finish, a85Flush]

/-- **the loops of `ASCII85Decode` are the state machine `a85Decode`**, on every input -/
theorem a85DecodeLit_eq (data : Str) : a85DecodeLit data = a85Decode data := by
  unfold a85DecodeLit a85Decode
  rw [a85Outer_eq data _ _ [] rfl]
  obtain ⟨w, hw, hdrop, _⟩ := skipWs_spec data _ 0 rfl
  simp only [List.drop_zero] at hdrop
  rw [List.reverse_nil]
  conv => rhs; rw [hdrop]
  rw [a85Go_ws w _ _ _ hw]

/-- the index of the inner loop never goes back -/
theorem a85Inner_mono (data : Str) : ∀ (n j : Nat) (ds : List Nat) (r : Nat × List Nat), data.length - j = n →
    a85Inner data j ds = some r → j ≤ r.1 := by
  intro n
  induction n using Nat.strongRecOn with
  | _ n ih =>
    intro j ds r hn hr
    rw [a85Inner] at hr
    split at hr
    · rename_i hc
      split at hr
      · have := ih _ (by omega) (j + 1) ds r rfl hr; omega
      · split at hr
        · simp only [Option.some.injEq] at hr; rw [← hr]; exact Nat.le_refl _
        · split at hr
          · exact absurd hr (by simp)
          · have := ih _ (by omega) (j + 1) _ r rfl hr; omega
    · simp only [Option.some.injEq] at hr; rw [← hr]; exact Nat.le_refl _

/-- the branch `else none` of `a85Outer` that only serves its termination proof is dead: whenever
the inner loop comes back with a digit it has advanced -/
theorem a85Inner_progress (data : Str) (i i' : Nat) (ds' : List Nat) (hlt : i < data.length)
    (h : a85Inner data i [] = some (i', ds')) (hne : ds' ≠ []) : i < i' := by
  rw [a85Inner] at h
  have hcond : ([] : List Nat).length < 5 ∧ i < data.length := ⟨by simp, hlt⟩
  simp only [hcond, and_self, dif_pos] at h
  split at h
  · have := a85Inner_mono data _ (i + 1) [] (i', ds') rfl h
    simp only at this
    omega
  · split at h
    · simp only [Option.some.injEq, Prod.mk.injEq] at h
      exact absurd h.2.symm hne
    · split at h
      · exact absurd h (by simp)
      · have := a85Inner_mono data _ (i + 1) _ (i', ds') rfl h
        simp only at this
        omega

end Tabula.Filters
