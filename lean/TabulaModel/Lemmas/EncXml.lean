import TabulaModel.Model.EncXml
import TabulaModel.Lemmas.Admit
/-!
Helper lemmas for `Props/C20Enc.lean`: a declarative reading of what `xml.Unmarshal` makes
of an encryption.xml tree (which attributes of which elements feed an entry), and its
algebra (append, insertion of foreign nodes, permutation of the entries).
-/
set_option autoImplicit false
namespace Tabula.EncXml
open Tabula.Detect Tabula.Drm Tabula.Admit

/-! ### attributes -/

theorem lastAttr_append (l : Str) (a b : List XAttr) :
    lastAttr l (a ++ b) = match lastAttr l b with
      | some v => some v
      | none => lastAttr l a := by
  induction a with
  | nil => simp only [List.nil_append, lastAttr]; cases lastAttr l b <;> rfl
  | cons x rest ih =>
    rw [List.cons_append, lastAttr, ih]
    cases hb : lastAttr l b with
    | some v => rfl
    | none => rw [lastAttr]

theorem lastAttr_singleton (l : Str) (x : XAttr) :
    lastAttr l [x] = if x.space = [] ∧ x.loc = l then some x.val else none := by
  simp [lastAttr]

/-- an attribute in a namespace, or with another local name, is never read -/
theorem lastAttr_insert (l : Str) (a b : List XAttr) (x : XAttr) (hx : x.space ≠ [] ∨ x.loc ≠ l) :
    lastAttr l (a ++ x :: b) = lastAttr l (a ++ b) := by
  have h1 : lastAttr l (x :: b) = lastAttr l b := by
    rw [lastAttr]
    cases lastAttr l b with
    | some v => rfl
    | none =>
      simp only
      rw [if_neg]
      rintro ⟨h1, h2⟩
      rcases hx with h | h
      · exact h h1
      · exact h h2
  rw [lastAttr_append, lastAttr_append, h1]

/-! ### the declarative reading -/

/-- is an element with local name `n` -/
def XNode.named (n : Str) : XNode → Bool
  | .elem n' _ _ => n' = n
  | .other => false

/-- the attributes of the direct children named `n`, in document order -/
def attrsOfNamed (n : Str) : List XNode → List XAttr
  | [] => []
  | .elem n' as _ :: rest => if n' = n then as ++ attrsOfNamed n rest else attrsOfNamed n rest
  | .other :: rest => attrsOfNamed n rest

/-- the content of the direct children named `n`, in document order -/
def kidsOfNamed (n : Str) : List XNode → List XNode
  | [] => []
  | .elem n' _ ks :: rest => if n' = n then ks ++ kidsOfNamed n rest else kidsOfNamed n rest
  | .other :: rest => kidsOfNamed n rest

/-- the content of each direct child `EncryptedData`, in document order -/
def dataKids (ks : List XNode) : List (List XNode) :=
  ks.filterMap fun k => match k with
    | .elem n _ ks' => if n = sEncryptedData then some ks' else none
    | .other => none

/-- the algorithm of an `EncryptedData` with content `ks`: the last unqualified `Algorithm`
attribute over all its `EncryptionMethod` children; `""` without one -/
def algOf (ks : List XNode) : Str := (lastAttr sAlgorithm (attrsOfNamed sEncryptionMethod ks)).getD []

/-- its cipher reference: the last unqualified `URI` attribute over all `CipherReference`
children of all its `CipherData` children; `""` without one -/
def uriOf (ks : List XNode) : Str :=
  (lastAttr sURI (attrsOfNamed sCipherReference (kidsOfNamed sCipherData ks))).getD []

/-- the entry of an `EncryptedData` with content `ks` -/
def entryOf (ks : List XNode) : Entry := ⟨algOf ks, uriOf ks⟩

theorem attrsOfNamed_append (n : Str) (a b : List XNode) :
    attrsOfNamed n (a ++ b) = attrsOfNamed n a ++ attrsOfNamed n b := by
  induction a with
  | nil => rfl
  | cons x rest ih =>
    cases x with
    | other => simpa [attrsOfNamed] using ih
    | elem n' as ks =>
      simp only [List.cons_append, attrsOfNamed, ih]
      split <;> simp

theorem kidsOfNamed_append (n : Str) (a b : List XNode) :
    kidsOfNamed n (a ++ b) = kidsOfNamed n a ++ kidsOfNamed n b := by
  induction a with
  | nil => rfl
  | cons x rest ih =>
    cases x with
    | other => simpa [kidsOfNamed] using ih
    | elem n' as ks =>
      simp only [List.cons_append, kidsOfNamed, ih]
      split <;> simp

theorem attrsOfNamed_skip (n : Str) (x : XNode) (hx : x.named n = false) (rest : List XNode) :
    attrsOfNamed n (x :: rest) = attrsOfNamed n rest := by
  cases x with
  | other => rfl
  | elem n' as ks =>
    have : n' ≠ n := by simpa [XNode.named] using hx
    simp [attrsOfNamed, this]

theorem kidsOfNamed_skip (n : Str) (x : XNode) (hx : x.named n = false) (rest : List XNode) :
    kidsOfNamed n (x :: rest) = kidsOfNamed n rest := by
  cases x with
  | other => rfl
  | elem n' as ks =>
    have : n' ≠ n := by simpa [XNode.named] using hx
    simp [kidsOfNamed, this]

theorem umCipherData_eq (cur : Str) (ks : List XNode) :
    umCipherData cur ks = (lastAttr sURI (attrsOfNamed sCipherReference ks)).getD cur := by
  induction ks generalizing cur with
  | nil => rfl
  | cons x rest ih =>
    cases x with
    | other => simpa [umCipherData, attrsOfNamed] using ih cur
    | elem n as ks' =>
      by_cases hn : n = sCipherReference
      · simp only [umCipherData, attrsOfNamed, hn, if_true]
        rw [ih, lastAttr_append, umRef]
        cases lastAttr sURI (attrsOfNamed sCipherReference rest) <;> rfl
      · simp only [umCipherData, attrsOfNamed, hn, if_false]
        exact ih cur

theorem names_distinct : sEncryptionMethod ≠ sCipherData := by decide

theorem umEncData_eq (cur : Entry) (ks : List XNode) :
    umEncData cur ks =
      ⟨(lastAttr sAlgorithm (attrsOfNamed sEncryptionMethod ks)).getD cur.algorithm,
       (lastAttr sURI (attrsOfNamed sCipherReference (kidsOfNamed sCipherData ks))).getD cur.uri⟩ := by
  induction ks generalizing cur with
  | nil => rfl
  | cons x rest ih =>
    cases x with
    | other => simpa [umEncData, attrsOfNamed, kidsOfNamed] using ih cur
    | elem n as ks' =>
      by_cases h1 : n = sEncryptionMethod
      · have h2 : n ≠ sCipherData := by rw [h1]; exact names_distinct
        simp only [umEncData, attrsOfNamed, kidsOfNamed, h1, if_true]
        rw [if_neg names_distinct, ih, lastAttr_append, umMethod]
        cases lastAttr sAlgorithm (attrsOfNamed sEncryptionMethod rest) <;> rfl
      · by_cases h2 : n = sCipherData
        · have h3 : sCipherData ≠ sEncryptionMethod := fun h => names_distinct h.symm
          simp only [umEncData, attrsOfNamed, kidsOfNamed, h2, if_true]
          rw [if_neg h3, if_neg h3, ih, umCipherData_eq, attrsOfNamed_append, lastAttr_append]
          cases lastAttr sURI (attrsOfNamed sCipherReference (kidsOfNamed sCipherData rest)) <;> rfl
        · simp only [umEncData, attrsOfNamed, kidsOfNamed, h1, h2, if_false]
          exact ih cur

theorem umEncData_fresh (ks : List XNode) : umEncData ⟨[], []⟩ ks = entryOf ks := by
  rw [umEncData_eq]; rfl

theorem umRootKids_eq (ks : List XNode) : umRootKids ks = (dataKids ks).map entryOf := by
  induction ks with
  | nil => rfl
  | cons x rest ih =>
    cases x with
    | other => simpa [umRootKids, dataKids] using ih
    | elem n as ks' =>
      by_cases hn : n = sEncryptedData
      · simp only [umRootKids, hn, if_true, dataKids, List.filterMap_cons, List.map_cons, umEncData_fresh]
        rw [ih]; rfl
      · simp only [umRootKids, hn, if_false, dataKids, List.filterMap_cons]
        rw [ih]; rfl

theorem dataKids_append (a b : List XNode) : dataKids (a ++ b) = dataKids a ++ dataKids b := by
  simp [dataKids, List.filterMap_append]

theorem dataKids_skip (x : XNode) (hx : x.named sEncryptedData = false) (rest : List XNode) :
    dataKids (x :: rest) = dataKids rest := by
  cases x with
  | other => rfl
  | elem n as ks =>
    have : n ≠ sEncryptedData := by simpa [XNode.named] using hx
    simp [dataKids, this]

theorem dataKids_perm {a b : List XNode} (h : a.Perm b) : (dataKids a).Perm (dataKids b) :=
  h.filterMap _

theorem hasEncryptedContent_perm {es es' : List Entry} (h : es.Perm es') :
    hasEncryptedContent es = hasEncryptedContent es' := by
  rw [hasEncryptedContent_eq_any, hasEncryptedContent_eq_any]
  exact any_perm h

end Tabula.EncXml
