import TabulaModel.Lemmas.TraverseOld
import TabulaModel.Lemmas.HtmlText
/-!
Fix 75d57dc against the traversal before it (C19, Props/C19Repair.lean):

* an inline child (`isInline`) produces nothing when it is traversed — no atom, no change of the
  state — in the old and in the repaired traversal, under every predicate: this is why collecting
  its text into a run cannot return text twice;
* the atoms of the old traversal are a sublist of the atoms of the repaired one (nothing that
  was returned is changed, moved or dropped; paragraphs are added);
* on a tree in which every inline child of every p/div block container is blank, the two
  traversals return the same element list.
-/
namespace Tabula.Html

theorem classify_of_plain (tag : Str) (hb : isBlockTag tag = false) (hl : (tag == T.li) = false)
    (hc : (tag == T.code) = false) : classify tag = .void ∨ classify tag = .other := by
  simp only [isBlockTag, Bool.or_eq_false_iff, beq_eq_false_iff_ne, ne_eq] at hb hl hc
  unfold classify
  simp only [hb, hl, hc, if_false, or_false]
  split <;> simp

/-- what `isInline` says about an element that is not skipped -/
theorem isInline_elem {tag : Str} {attrs : List (Str × Str)} {kids : List Dom}
    (h : isInline (.elem tag attrs kids) = true) (hs : isSkip tag = false) :
    (classify tag = .void ∨ classify tag = .other) ∧ isInlineL kids = true := by
  simp only [isInline, hs, Bool.false_eq_true, if_false] at h
  by_cases hb : (isBlockTag tag || tag == T.li || tag == T.code) = true
  · simp [hb] at h
  · simp only [hb, Bool.false_eq_true, if_false] at h
    have hb' : (isBlockTag tag || tag == T.li || tag == T.code) = false := by simpa using hb
    simp only [Bool.or_eq_false_iff] at hb'
    exact ⟨classify_of_plain tag hb'.1.1 hb'.1.2 hb'.2, h⟩

/-! ### an inline child produces nothing when traversed -/

mutual
theorem atoms_inline (p : Pos → Dom → Bool) (w : Bool) :
    ∀ (t : Dom) (pos : Pos) (lc : LC), isInline t = true → atoms p w pos lc t = []
  | .text _, _, _, _ => by simp [atoms]
  | .other kids, pos, lc, h => by
      simp only [atoms]
      exact atomsL_inline p w kids _ lc (by simpa [isInline] using h)
  | .elem tag attrs kids, pos, lc, h => by
      unfold atoms
      by_cases hs : isSkip tag = true
      · simp [hs]
      · by_cases hp : p pos (.elem tag attrs kids) = true
        · simp [hs, hp]
        · have hi := isInline_elem h (by simpa using hs)
          simp only [hs, hp, if_false, Bool.false_eq_true]
          rcases hi.1 with hc | hc
          · simp only [hc]
          · simp only [hc]; exact atomsL_inline p w kids _ lc hi.2
theorem atomsL_inline (p : Pos → Dom → Bool) (w : Bool) :
    ∀ (ts : List Dom) (kp : Pos) (lc : LC), isInlineL ts = true → atomsL p w kp lc ts = []
  | [], _, _, _ => by simp [atomsL]
  | k :: ks, kp, lc, h => by
      have h' : isInline k = true ∧ isInlineL ks = true := by simpa [isInlineL] using h
      simp only [atomsL, atoms_inline p w k kp lc h'.1, atomsL_inline p w ks kp lc h'.2, List.append_nil]
end

mutual
theorem atomsOld_inline (p : Pos → Dom → Bool) (w : Bool) :
    ∀ (t : Dom) (pos : Pos) (lc : LC), isInline t = true → atomsOld p w pos lc t = []
  | .text _, _, _, _ => by simp [atomsOld]
  | .other kids, pos, lc, h => by
      simp only [atomsOld]
      exact atomsLOld_inline p w kids _ lc (by simpa [isInline] using h)
  | .elem tag attrs kids, pos, lc, h => by
      unfold atomsOld
      by_cases hs : isSkip tag = true
      · simp [hs]
      · by_cases hp : p pos (.elem tag attrs kids) = true
        · simp [hs, hp]
        · have hi := isInline_elem h (by simpa using hs)
          simp only [hs, hp, if_false, Bool.false_eq_true]
          rcases hi.1 with hc | hc
          · simp only [hc]
          · simp only [hc]; exact atomsLOld_inline p w kids _ lc hi.2
theorem atomsLOld_inline (p : Pos → Dom → Bool) (w : Bool) :
    ∀ (ts : List Dom) (kp : Pos) (lc : LC), isInlineL ts = true → atomsLOld p w kp lc ts = []
  | [], _, _, _ => by simp [atomsLOld]
  | k :: ks, kp, lc, h => by
      have h' : isInline k = true ∧ isInlineL ks = true := by simpa [isInlineL] using h
      simp only [atomsLOld, atomsOld_inline p w k kp lc h'.1, atomsLOld_inline p w ks kp lc h'.2, List.append_nil]
end

mutual
theorem trav_inline (p : Pos → Dom → Bool) (w : Bool) :
    ∀ (t : Dom) (pos : Pos) (s : St), isInline t = true → trav p w pos t s = s
  | .text _, _, _, _ => by simp [trav]
  | .other kids, pos, s, h => by
      simp only [trav]
      exact travL_inline p w kids _ s (by simpa [isInline] using h)
  | .elem tag attrs kids, pos, s, h => by
      unfold trav
      by_cases hs : isSkip tag = true
      · simp [hs]
      · by_cases hp : p pos (.elem tag attrs kids) = true
        · simp [hs, hp]
        · have hi := isInline_elem h (by simpa using hs)
          simp only [hs, hp, if_false, Bool.false_eq_true]
          rcases hi.1 with hc | hc
          · simp only [hc]
          · simp only [hc]; exact travL_inline p w kids _ s hi.2
theorem travL_inline (p : Pos → Dom → Bool) (w : Bool) :
    ∀ (ts : List Dom) (kp : Pos) (s : St), isInlineL ts = true → travL p w kp ts s = s
  | [], _, _, _ => by simp [travL]
  | k :: ks, kp, s, h => by
      have h' : isInline k = true ∧ isInlineL ks = true := by simpa [isInlineL] using h
      simp only [travL, trav_inline p w k kp s h'.1, travL_inline p w ks kp s h'.2]
end

mutual
theorem travOld_inline (p : Pos → Dom → Bool) (w : Bool) :
    ∀ (t : Dom) (pos : Pos) (s : St), isInline t = true → travOld p w pos t s = s
  | .text _, _, _, _ => by simp [travOld]
  | .other kids, pos, s, h => by
      simp only [travOld]
      exact travLOld_inline p w kids _ s (by simpa [isInline] using h)
  | .elem tag attrs kids, pos, s, h => by
      unfold travOld
      by_cases hs : isSkip tag = true
      · simp [hs]
      · by_cases hp : p pos (.elem tag attrs kids) = true
        · simp [hs, hp]
        · have hi := isInline_elem h (by simpa using hs)
          simp only [hs, hp, if_false, Bool.false_eq_true]
          rcases hi.1 with hc | hc
          · simp only [hc]
          · simp only [hc]; exact travLOld_inline p w kids _ s hi.2
theorem travLOld_inline (p : Pos → Dom → Bool) (w : Bool) :
    ∀ (ts : List Dom) (kp : Pos) (s : St), isInlineL ts = true → travLOld p w kp ts s = s
  | [], _, _, _ => by simp [travLOld]
  | k :: ks, kp, s, h => by
      have h' : isInline k = true ∧ isInlineL ks = true := by simpa [isInlineL] using h
      simp only [travLOld, travOld_inline p w k kp s h'.1, travLOld_inline p w ks kp s h'.2]
end

/-! ### the repair only adds paragraphs -/

mutual
theorem atomsOld_sublist (p : Pos → Dom → Bool) (w : Bool) :
    ∀ (t : Dom) (pos : Pos) (lc : LC), (atomsOld p w pos lc t).Sublist (atoms p w pos lc t)
  | .text _, pos, lc => by simp [atoms, atomsOld]
  | .other kids, pos, lc => by
      simp only [atoms, atomsOld]
      exact atomsLOld_sublist p w kids _ lc
  | .elem tag attrs kids, pos, lc => by
      unfold atoms atomsOld
      by_cases hs : isSkip tag = true
      · simp [hs]
      · by_cases hp : p pos (.elem tag attrs kids) = true
        · simp [hs, hp]
        · simp only [hs, hp, if_false, Bool.false_eq_true]
          cases hc : classify tag with
          | heading lvl => exact List.Sublist.refl _
          | pdiv isP =>
            simp only []
            split
            · exact List.Sublist.refl _
            · exact atomsLOld_sublistM p w kids _ lc []
          | list ord => exact atomsLOld_sublist p w kids _ _
          | li => exact List.Sublist.append (List.Sublist.refl _) (atomsLiOld_sublist p w kids _ _)
          | table => exact List.Sublist.refl _
          | code => exact List.Sublist.refl _
          | quote => exact List.Sublist.refl _
          | void => exact List.Sublist.refl _
          | other => exact atomsLOld_sublist p w kids _ lc
theorem atomsLOld_sublist (p : Pos → Dom → Bool) (w : Bool) :
    ∀ (ts : List Dom) (kp : Pos) (lc : LC), (atomsLOld p w kp lc ts).Sublist (atomsL p w kp lc ts)
  | [], kp, lc => by simp [atomsL, atomsLOld]
  | k :: ks, kp, lc => by
      simp only [atomsL, atomsLOld]
      exact List.Sublist.append (atomsOld_sublist p w k kp lc) (atomsLOld_sublist p w ks kp lc)
theorem atomsLiOld_sublist (p : Pos → Dom → Bool) (w : Bool) :
    ∀ (ts : List Dom) (kp : Pos) (lc : LC), (atomsLiOld p w kp lc ts).Sublist (atomsLi p w kp lc ts)
  | [], kp, lc => by simp [atomsLi, atomsLiOld]
  | k :: ks, kp, lc => by
      simp only [atomsLi, atomsLiOld]
      refine List.Sublist.append ?_ (atomsLiOld_sublist p w ks kp lc)
      split
      · exact atomsOld_sublist p w k kp lc
      · exact List.Sublist.refl _
/-- the old child loop of a block container against the repaired one, whatever run is pending -/
theorem atomsLOld_sublistM (p : Pos → Dom → Bool) (w : Bool) :
    ∀ (ts : List Dom) (kp : Pos) (lc : LC) (run : Str),
      (atomsLOld p w kp lc ts).Sublist (atomsM p w kp lc ts run)
  | [], kp, lc, run => by simp [atomsLOld]
  | k :: ks, kp, lc, run => by
      simp only [atomsLOld, atomsM]
      by_cases hk : isInline k = true
      · simp only [hk, if_true, atomsOld_inline p w k kp lc hk, List.nil_append]
        exact atomsLOld_sublistM p w ks kp lc _
      · simp only [hk, if_false, Bool.false_eq_true, List.append_assoc]
        exact (List.Sublist.append (atomsOld_sublist p w k kp lc) (atomsLOld_sublistM p w ks kp lc [])).trans
          (List.sublist_append_right _ _)
end

/-! ### without own text in block containers nothing changes -/

mutual
/-- no p/div of the tree that has a block-level child has an inline child with text: the documents
the fix does not concern -/
def quiet : Dom → Bool
  | .text _ => true
  | .other kids => quietL kids
  | .elem tag _ kids =>
    (match classify tag with
      | .pdiv _ => if isBlockContainer kids then blankInline kids else true
      | _ => true) && quietL kids
def quietL : List Dom → Bool
  | [] => true
  | k :: ks => quiet k && quietL ks
end

theorem emitRun_blank (run : Str) (s : St) (h : squeeze run = []) : emitRun run s = s := by
  unfold emitRun
  have : trim run = [] := (trim_eq_nil_iff run).mpr h
  simp [this]

mutual
theorem trav_quiet (p : Pos → Dom → Bool) (w : Bool) :
    ∀ (t : Dom) (pos : Pos) (s : St), quiet t = true → trav p w pos t s = travOld p w pos t s
  | .text _, _, _, _ => by simp [trav, travOld]
  | .other kids, pos, s, h => by
      simp only [trav, travOld]
      exact travL_quiet p w kids _ s (by simpa [quiet] using h)
  | .elem tag attrs kids, pos, s, h => by
      have hq : quietL kids = true := by
        simp only [quiet, Bool.and_eq_true] at h; exact h.2
      unfold trav travOld
      by_cases hs : isSkip tag = true
      · simp [hs]
      · by_cases hp : p pos (.elem tag attrs kids) = true
        · simp [hs, hp]
        · simp only [hs, hp, if_false, Bool.false_eq_true]
          cases hc : classify tag with
          | heading lvl => rfl
          | pdiv isP =>
            simp only []
            split
            · rfl
            · rename_i hcnd
              by_cases hb : isBlockContainer kids = true
              · have hbl : blankInline kids = true := by
                  simp only [quiet, hc, hb, if_true, Bool.and_eq_true] at h; exact h.1
                exact travM_quiet p w kids _ [] _ rfl hbl hq
              · -- not a block container, hence blank: every child is traversed or skipped alike
                have hb' : isBlockContainer kids = false := by simpa using hb
                have ht : trim (getTextContent (.elem tag attrs kids)) = [] := by
                  simpa [hb'] using hcnd
                have hsq : squeeze (tnFlatL kids) = [] := by
                  have := (trim_eq_nil_iff _).mp ht
                  rw [squeeze_getTextContent, tnFlat_elem tag attrs kids (by simpa using hs)] at this
                  exact this
                exact travM_blank p w kids _ [] _ rfl hsq hq
          | list ord => simp only []; rw [travL_quiet p w kids _ _ hq]
          | li =>
            simp only []
            rw [travLi_quiet p w kids _ _ hq, travLi_quiet p w kids _ _ hq]
          | table => rfl
          | code => rfl
          | quote => rfl
          | void => rfl
          | other => simp only []; exact travL_quiet p w kids _ s hq
theorem travL_quiet (p : Pos → Dom → Bool) (w : Bool) :
    ∀ (ts : List Dom) (kp : Pos) (s : St), quietL ts = true → travL p w kp ts s = travLOld p w kp ts s
  | [], _, _, _ => by simp [travL, travLOld]
  | k :: ks, kp, s, h => by
      have h' : quiet k = true ∧ quietL ks = true := by simpa [quietL] using h
      simp only [travL, travLOld, trav_quiet p w k kp s h'.1, travL_quiet p w ks kp _ h'.2]
theorem travLi_quiet (p : Pos → Dom → Bool) (w : Bool) :
    ∀ (ts : List Dom) (kp : Pos) (s : St), quietL ts = true → travLi p w kp ts s = travLiOld p w kp ts s
  | [], _, _, _ => by simp [travLi, travLiOld]
  | k :: ks, kp, s, h => by
      have h' : quiet k = true ∧ quietL ks = true := by simpa [quietL] using h
      simp only [travLi, travLiOld, trav_quiet p w k kp s h'.1, travLi_quiet p w ks kp _ h'.2]
/-- the repaired child loop of a block container whose inline children are blank -/
theorem travM_quiet (p : Pos → Dom → Bool) (w : Bool) :
    ∀ (ts : List Dom) (kp : Pos) (run : Str) (s : St), squeeze run = [] → blankInline ts = true →
      quietL ts = true → travM p w kp ts run s = travLOld p w kp ts s
  | [], _, run, s, hr, _, _ => by simp only [travM, travLOld]; exact emitRun_blank run s hr
  | k :: ks, kp, run, s, hr, hb, h => by
      have h' : quiet k = true ∧ quietL ks = true := by simpa [quietL] using h
      simp only [blankInline, List.all_cons, Bool.and_eq_true] at hb
      simp only [travM, travLOld]
      by_cases hk : isInline k = true
      · have hkb : squeeze (tnFlat k) = [] := by
          have := hb.1
          simpa [hk] using this
        simp only [hk, if_true, travOld_inline p w k kp s hk]
        exact travM_quiet p w ks kp _ s (by rw [squeeze_append, hr, squeeze_textRec, hkb]; rfl) hb.2 h'.2
      · simp only [hk, if_false, Bool.false_eq_true, emitRun_blank run s hr, trav_quiet p w k kp s h'.1]
        exact travM_quiet p w ks kp [] _ rfl hb.2 h'.2
/-- … and of a p/div without any text -/
theorem travM_blank (p : Pos → Dom → Bool) (w : Bool) :
    ∀ (ts : List Dom) (kp : Pos) (run : Str) (s : St), squeeze run = [] → squeeze (tnFlatL ts) = [] →
      quietL ts = true → travM p w kp ts run s = travLOld p w kp ts s
  | [], _, run, s, hr, _, _ => by simp only [travM, travLOld]; exact emitRun_blank run s hr
  | k :: ks, kp, run, s, hr, hb, h => by
      have h' : quiet k = true ∧ quietL ks = true := by simpa [quietL] using h
      simp only [tnFlatL, squeeze_append, List.append_eq_nil_iff] at hb
      simp only [travM, travLOld]
      by_cases hk : isInline k = true
      · simp only [hk, if_true, travOld_inline p w k kp s hk]
        exact travM_blank p w ks kp _ s (by rw [squeeze_append, hr, squeeze_textRec, hb.1]; rfl) hb.2 h'.2
      · simp only [hk, if_false, Bool.false_eq_true, emitRun_blank run s hr, trav_quiet p w k kp s h'.1]
        exact travM_blank p w ks kp [] _ rfl hb.2 h'.2
end

end Tabula.Html
