import TabulaModel.Model.ChunkSent
import TabulaModel.Lemmas.ChunkLayout
/-!
Helper lemmas for property C12: `splitIntoSentences` conserves its text (white space aside)
whatever the Unicode table says, so the hypothesis `SentsOK` of the layout-based chunker's
cover theorem is met by the model of the function itself.
-/
namespace Tabula.ChunkSent
open Tabula.Chunk Tabula.ChunkLayout

theorem emitSentence_strip (rcur : Str) : strip (emitSentence rcur).flatten = strip rcur.reverse := by
  unfold emitSentence
  by_cases h : (trim rcur.reverse).isEmpty = true
  · rw [if_pos h]
    exact (trim_empty_strip _ h).symm
  · rw [if_neg h]
    simp [strip_trim]

theorem sentScan_strip (low : Str → Bool) (text rcur : Str) :
    strip (sentScan low text rcur).flatten = strip (rcur.reverse ++ text) := by
  induction text generalizing rcur with
  | nil => simp [sentScan, emitSentence_strip]
  | cons b rest ih =>
    simp only [sentScan]
    split
    · rw [List.flatten_append, strip_append, emitSentence_strip, ih]
      simp only [List.reverse_cons, List.reverse_nil, List.nil_append, strip_append, List.append_assoc]
      rw [← strip_append]; rfl
    · rw [ih]; simp

/-- `splitIntoSentences` loses and invents nothing, white space aside — for every text and
every classification of the non-ASCII characters -/
theorem splitIntoSentences_strip (low : Str → Bool) (text : Str) :
    strip (splitIntoSentences low text).flatten = strip text := by
  unfold splitIntoSentences
  rw [sentScan_strip]; rfl

/-- no sentence is empty -/
theorem emitSentence_nonempty (rcur : Str) : ∀ s ∈ emitSentence rcur, s ≠ [] := by
  intro s hs
  unfold emitSentence at hs
  split at hs
  · cases hs
  · rename_i h
    simp only [List.mem_singleton] at hs
    subst hs
    exact fun e => h (by rw [e]; rfl)

theorem sentScan_nonempty (low : Str → Bool) (text rcur : Str) :
    ∀ s ∈ sentScan low text rcur, s ≠ [] := by
  induction text generalizing rcur with
  | nil => exact emitSentence_nonempty rcur
  | cons b rest ih =>
    simp only [sentScan]
    split
    · intro s hs
      rcases List.mem_append.mp hs with h | h
      · exact emitSentence_nonempty _ s h
      · exact ih [] s h
    · exact ih _

/-! ### `withSents` changes nothing but the `sents` fields -/

/-- the sentences of every content element are those `splitIntoSentences` gives for its text -/
def SentsModel (low : Str → Bool) (cfg : Cfg) (d : LDoc) : Prop :=
  ∀ e ∈ canon cfg d, e.sents = splitIntoSentences low e.text

theorem sentsOK_of_model (low : Str → Bool) (cfg : Cfg) (e : CE)
    (h : e.sents = splitIntoSentences low e.text) : SentsOK cfg e := by
  intro _
  rw [h, splitIntoSentences_strip]

theorem withSents_model (low : Str → Bool) (cfg : Cfg) (d : LDoc) : SentsModel low cfg (withSents low d) := by
  intro e he
  unfold canon withSents at he
  obtain ⟨pg, hpg, hin⟩ := List.mem_flatMap.mp he
  obtain ⟨pg0, _, rfl⟩ := List.mem_map.mp hpg
  unfold pageCanon at hin
  cases hl : pg0.layout with
  | none => simp [hl] at hin
  | some lay =>
    simp only [hl, Option.map_some] at hin
    rcases List.mem_append.mp hin with h1 | h1
    · rcases List.mem_append.mp h1 with h2 | h2
      · obtain ⟨h, hh, rfl⟩ := List.mem_map.mp h2
        obtain ⟨hh1, _⟩ := List.mem_filter.mp hh
        obtain ⟨h0, _, rfl⟩ := List.mem_map.mp hh1
        rfl
      · obtain ⟨p, hp, rfl⟩ := List.mem_map.mp h2
        obtain ⟨p0, _, rfl⟩ := List.mem_map.mp hp
        rfl
    · obtain ⟨l, hl', rfl⟩ := List.mem_map.mp h1
      obtain ⟨l0, _, rfl⟩ := List.mem_map.mp hl'
      rfl

/-- the element as the property sees it: everything but the sentence parameter -/
def CE.core (e : CE) : Kind × Str × Int × Bool := (e.kind, e.text, e.page, e.intro)

theorem withSents_canon (low : Str → Bool) (cfg : Cfg) (d : LDoc) :
    (canon cfg (withSents low d)).map CE.core = (canon cfg d).map CE.core := by
  unfold canon withSents
  induction d with
  | nil => rfl
  | cons pg pgs ih =>
    simp only [List.map_cons, List.flatMap_cons, List.map_append, ih]
    congr 1
    unfold pageCanon
    cases hl : pg.layout with
    | none => rfl
    | some lay =>
      simp only [Option.map_some, List.map_append, List.map_map, List.filter_map]
      congr 1

theorem withSents_texts (low : Str → Bool) (cfg : Cfg) (d : LDoc) :
    ceTexts (canon cfg (withSents low d)) = ceTexts (canon cfg d) := by
  have h := congrArg (fun l => (l.map (fun x : Kind × Str × Int × Bool => x.2.1)).flatten) (withSents_canon low cfg d)
  simp only [List.map_map] at h
  unfold ceTexts
  rw [List.flatMap_def, List.flatMap_def]
  exact h

end Tabula.ChunkSent
