import TabulaModel.Model.PrintReal
import TabulaModel.Model.CSParser
import TabulaModel.Lemmas.PdfTok
namespace Tabula.Pdf
open Tabula.A1 (digitsAcc)

/-! Reals of property C06: `parseReal`, `nextToken` and `CS.parseNumber` read every legal spelling
of a real number back; `normReal` keeps the value and gives the normal form.  Core Lean only. -/

namespace Rl

theorem digit_bounds {c : Nat} (h : isDigit c = true) : 48 ≤ c ∧ c ≤ 57 := by
  simpa [isDigit] using h

theorem DigitStr.head {c : Nat} {s : Str} (h : DigitStr (c :: s)) : isDigit c = true :=
  h c (by simp)

theorem DigitStr.tail {c : Nat} {s : Str} (h : DigitStr (c :: s)) : DigitStr s :=
  fun x hx => h x (by simp [hx])

theorem DigitStr.append {s t : Str} (hs : DigitStr s) (ht : DigitStr t) : DigitStr (s ++ t) := by
  intro c hc
  rcases List.mem_append.mp hc with h | h
  · exact hs c h
  · exact ht c h

theorem isDigits_of {s : Str} (h : DigitStr s) : Tok.IsDigits s :=
  fun c hc => digit_bounds (h c hc)

/-- on digit strings `digitsAcc` is the decimal fold -/
theorem digitsAcc_digits (s : Str) (hs : DigitStr s) (a : Nat) :
    digitsAcc s a = some (s.foldl (fun a c => a * 10 + (c - 48)) a) := by
  induction s generalizing a with
  | nil => rfl
  | cons c s ih =>
    have hc := digit_bounds (DigitStr.head hs)
    simp only [digitsAcc, List.foldl_cons]
    simp only [hc.1, hc.2, decide_true, Bool.and_self, if_true]
    exact ih (DigitStr.tail hs) _

theorem digitsAcc_val (s : Str) (hs : DigitStr s) : digitsAcc s 0 = some (digitsVal s) :=
  digitsAcc_digits s hs 0

theorem takeWhile_body (ip fp : Str) (hi : DigitStr ip) :
    (ip ++ 46 :: fp).takeWhile isDigit = ip := by
  induction ip with
  | nil => simp [isDigit]
  | cons c ip ih =>
    rw [List.cons_append, List.takeWhile_cons, if_pos (DigitStr.head hi), ih (DigitStr.tail hi)]

theorem dropWhile_body (ip fp : Str) (hi : DigitStr ip) :
    (ip ++ 46 :: fp).dropWhile isDigit = 46 :: fp := by
  induction ip with
  | nil => simp [isDigit]
  | cons c ip ih =>
    rw [List.cons_append, List.dropWhile_cons, if_pos (DigitStr.head hi), ih (DigitStr.tail hi)]

/-- `parseReal` after the sign has been looked at -/
def core (neg : Bool) (ds : Str) : Option Obj :=
  let ip := ds.takeWhile isDigit
  let fp := match ds.dropWhile isDigit with | 46 :: f => f | r => r
  if ip.isEmpty && fp.isEmpty then none else
  match digitsAcc (ip ++ fp) 0 with
  | none => none
  | some m =>
    let p := normReal m fp.length
    some (.real (neg && p.1 != 0) p.1 p.2)

theorem parseReal_minus (r : Str) : parseReal (45 :: r) = core true r := rfl
theorem parseReal_plus (r : Str) : parseReal (43 :: r) = core false r := rfl

theorem parseReal_nosign (c : Nat) (r : Str) (h45 : c ≠ 45) (h43 : c ≠ 43) :
    parseReal (c :: r) = core false (c :: r) := by
  unfold parseReal core
  split
  · rename_i heq; cases heq; exact absurd rfl h45
  · split
    · rename_i heq; cases heq; exact absurd rfl h45
    · rename_i heq; cases heq; exact absurd rfl h43
    · rfl

theorem core_body (neg : Bool) (ip fp : Str) (hi : DigitStr ip) (hf : DigitStr fp)
    (hne : ip ≠ [] ∨ fp ≠ []) :
    core neg (ip ++ 46 :: fp) =
      some (.real (neg && (normReal (digitsVal (ip ++ fp)) fp.length).1 != 0)
        (normReal (digitsVal (ip ++ fp)) fp.length).1 (normReal (digitsVal (ip ++ fp)) fp.length).2) := by
  have he : (ip.isEmpty && fp.isEmpty) = false := by
    rcases hne with h | h
    · cases ip with
      | nil => exact absurd rfl h
      | cons _ _ => rfl
    · cases fp with
      | nil => exact absurd rfl h
      | cons _ _ => simp
  unfold core
  simp only [takeWhile_body ip fp hi, dropWhile_body ip fp hi, he,
    digitsAcc_val _ (DigitStr.append hi hf)]
  rfl

/-- the first byte of an unsigned body is a digit or the point -/
theorem body_head (ip fp : Str) (hi : DigitStr ip) :
    ∃ c r, ip ++ 46 :: fp = c :: r ∧ ((48 ≤ c ∧ c ≤ 57) ∨ c = 46) := by
  cases ip with
  | nil => exact ⟨46, fp, rfl, Or.inr rfl⟩
  | cons c ip => exact ⟨c, ip ++ 46 :: fp, rfl, Or.inl (digit_bounds (DigitStr.head hi))⟩

theorem term_head {c : Nat} (hc : (isWs c || isDelim c) = true) :
    isDigit c = false ∧ c ≠ 46 ∧ c ≠ 45 ∧ c ≠ 43 := by
  have h46 : c ≠ 46 := by intro e; subst e; revert hc; decide
  have h45 : c ≠ 45 := by intro e; subst e; revert hc; decide
  have h43 : c ≠ 43 := by intro e; subst e; revert hc; decide
  refine ⟨?_, h46, h45, h43⟩
  cases hdd : isDigit c with
  | false => rfl
  | true =>
    have := digit_bounds hdd
    have : c = 48 ∨ c = 49 ∨ c = 50 ∨ c = 51 ∨ c = 52 ∨ c = 53 ∨ c = 54 ∨ c = 55 ∨ c = 56 ∨ c = 57 := by omega
    rcases this with e | e | e | e | e | e | e | e | e | e <;> subst e <;> revert hc <;> decide

/-! #### the document lexer -/

theorem numLoop_frac (fp tail : Str) (hf : DigitStr fp) (ht : Terminated tail) :
    numLoop true false (fp ++ tail) = (fp, true, tail) := by
  induction fp with
  | nil => exact Tok.numLoop_stop true false tail ht
  | cons c fp ih =>
    rw [List.cons_append, Tok.numLoop_digit true false c _ (digit_bounds (DigitStr.head hf)),
      ih (DigitStr.tail hf)]

theorem numLoop_point (first : Bool) (r : Str) :
    numLoop false first (46 :: r) =
      (46 :: (numLoop true false r).1, (numLoop true false r).2.1, (numLoop true false r).2.2) := by
  rw [numLoop.eq_def]
  simp

theorem numLoop_body (first : Bool) (ip fp tail : Str) (hi : DigitStr ip) (hf : DigitStr fp)
    (ht : Terminated tail) :
    numLoop false first ((ip ++ 46 :: fp) ++ tail) = (ip ++ 46 :: fp, true, tail) := by
  induction ip generalizing first with
  | nil =>
    simp only [List.nil_append, List.cons_append]
    rw [numLoop_point, numLoop_frac fp tail hf ht]
  | cons c ip ih =>
    simp only [List.cons_append, List.append_assoc] at ih ⊢
    rw [Tok.numLoop_digit false first c _ (digit_bounds (DigitStr.head hi)), ih false (DigitStr.tail hi)]

theorem dispatch_point (r : Str) :
    Tok.dispatch 46 r =
      some (if (numLoop false true (46 :: r)).2.1 then .real (numLoop false true (46 :: r)).1
            else .integer (numLoop false true (46 :: r)).1, (numLoop false true (46 :: r)).2.2) := by
  simp [Tok.dispatch]

/-! #### the content-stream reader -/

theorem numBody_stop (hasDec : Bool) (tail : Str) (ht : Terminated tail) :
    CS.numBody hasDec tail = ([], hasDec, tail) := by
  rcases ht with h | ⟨c, r, h, hc⟩
  · subst h; rfl
  · subst h
    obtain ⟨hd, h46, _, _⟩ := term_head hc
    rw [CS.numBody.eq_def]
    simp [hd, h46]

theorem numBody_digit (hasDec : Bool) (c : Nat) (r : Str) (hc : isDigit c = true) :
    CS.numBody hasDec (c :: r) =
      (c :: (CS.numBody hasDec r).1, (CS.numBody hasDec r).2.1, (CS.numBody hasDec r).2.2) := by
  rw [CS.numBody.eq_def]
  simp [hc]

theorem numBody_point (r : Str) :
    CS.numBody false (46 :: r) =
      (46 :: (CS.numBody true r).1, (CS.numBody true r).2.1, (CS.numBody true r).2.2) := by
  rw [CS.numBody.eq_def]
  simp [isDigit]

theorem numBody_frac (fp tail : Str) (hf : DigitStr fp) (ht : Terminated tail) :
    CS.numBody true (fp ++ tail) = (fp, true, tail) := by
  induction fp with
  | nil => exact numBody_stop true tail ht
  | cons c fp ih =>
    rw [List.cons_append, numBody_digit true c _ (DigitStr.head hf), ih (DigitStr.tail hf)]

theorem numBody_body (ip fp tail : Str) (hi : DigitStr ip) (hf : DigitStr fp)
    (ht : Terminated tail) :
    CS.numBody false ((ip ++ 46 :: fp) ++ tail) = (ip ++ 46 :: fp, true, tail) := by
  induction ip with
  | nil =>
    simp only [List.nil_append, List.cons_append]
    rw [numBody_point, numBody_frac fp tail hf ht]
  | cons c ip ih =>
    simp only [List.cons_append, List.append_assoc] at ih ⊢
    rw [numBody_digit false c _ (DigitStr.head hi), ih (DigitStr.tail hi)]

/-- `CS.parseNumber` once the sign and the body are known -/
theorem cs_signed (c : Nat) (body tail : Str) (o : Obj) (hc : c = 43 ∨ c = 45)
    (hb : CS.numBody false (body ++ tail) = (body, true, tail))
    (hp : parseReal (c :: body) = some o) :
    CS.parseNumber (c :: body ++ tail) = some (o, tail) := by
  unfold CS.parseNumber
  simp only [List.cons_append, hc, if_true, List.length_singleton, List.drop_succ_cons, List.drop_zero,
    hb, List.nil_append, hp]

theorem cs_unsigned (c : Nat) (r tail : Str) (o : Obj) (hc : c ≠ 43 ∧ c ≠ 45)
    (hb : CS.numBody false (c :: r ++ tail) = (c :: r, true, tail))
    (hp : parseReal (c :: r) = some o) :
    CS.parseNumber (c :: r ++ tail) = some (o, tail) := by
  unfold CS.parseNumber
  have : ¬ (c = 43 ∨ c = 45) := by omega
  simp only [List.cons_append] at hb
  simp only [List.cons_append, this, if_false, List.length_nil, List.drop_zero, hb, List.nil_append, hp,
    if_true]

end Rl

/-- `strconv.ParseFloat` (as modelled) on every legal spelling of a real gives the number meant -/
theorem parseReal_render (r : RealSp) (h : r.Ok) : parseReal r.render = some r.value := by
  obtain ⟨neg, plus, ip, fp⟩ := r
  obtain ⟨hi, hf, hne⟩ := h
  simp only at hi hf hne
  have hcore := fun n => Rl.core_body n ip fp hi hf hne
  cases neg with
  | true =>
    simp only [RealSp.render, if_true, List.singleton_append]
    rw [Rl.parseReal_minus, hcore]; rfl
  | false =>
    cases plus with
    | true =>
      simp only [RealSp.render, Bool.false_eq_true, if_false, if_true, List.singleton_append]
      rw [Rl.parseReal_plus, hcore]; simp [RealSp.value]
    | false =>
      simp only [RealSp.render, Bool.false_eq_true, if_false, List.nil_append]
      obtain ⟨c, r, e, hc⟩ := Rl.body_head ip fp hi
      rw [e, Rl.parseReal_nosign c r (by omega) (by omega), ← e, hcore]; simp [RealSp.value]

/-- the document-level lexer reads every legal spelling of a real as ONE real token and stops at its end -/
theorem nextToken_real (r : RealSp) (tail : Str) (h : r.Ok) (ht : Terminated tail) :
    nextToken (r.render ++ tail) = some (.real r.render, tail) := by
  obtain ⟨neg, plus, ip, fp⟩ := r
  obtain ⟨hi, hf, hne⟩ := h
  simp only at hi hf hne
  have hbody := fun first => Rl.numLoop_body first ip fp tail hi hf ht
  cases neg with
  | true =>
    simp only [RealSp.render, if_true, List.cons_append, List.nil_append]
    rw [Tok.nextToken_cons 45 _ (by decide), Tok.dispatch_num 45 _ (by omega),
      Tok.numLoop_sign false 45 _ (by omega), hbody false]
    simp
  | false =>
    cases plus with
    | true =>
      simp only [RealSp.render, Bool.false_eq_true, if_false, if_true, List.cons_append, List.nil_append]
      rw [Tok.nextToken_cons 43 _ (by decide), Tok.dispatch_num 43 _ (by omega),
        Tok.numLoop_sign false 43 _ (by omega), hbody false]
      simp
    | false =>
      simp only [RealSp.render, Bool.false_eq_true, if_false, List.nil_append]
      have hb := hbody true
      obtain ⟨c, r, e, hc⟩ := Rl.body_head ip fp hi
      rw [e] at hb ⊢
      simp only [List.cons_append] at hb ⊢
      rcases hc with hc | hc
      · rw [Tok.nextToken_cons c _ (Tok.isWs_num c (Or.inl hc)), Tok.dispatch_num c _ (Or.inl hc), hb]
        simp
      · subst hc
        rw [Tok.nextToken_cons 46 _ (by decide), Rl.dispatch_point, hb]
        simp

/-- the content-stream number reader on the same spellings -/
theorem cs_parseNumber_real (r : RealSp) (tail : Str) (h : r.Ok) (ht : Terminated tail) :
    CS.parseNumber (r.render ++ tail) = some (r.value, tail) := by
  have hp := parseReal_render r h
  obtain ⟨neg, plus, ip, fp⟩ := r
  obtain ⟨hi, hf, hne⟩ := h
  simp only at hi hf hne
  have hbody := Rl.numBody_body ip fp tail hi hf ht
  cases neg with
  | true =>
    simp only [RealSp.render, if_true, List.singleton_append] at hp ⊢
    exact Rl.cs_signed 45 _ tail _ (by omega) hbody hp
  | false =>
    cases plus with
    | true =>
      simp only [RealSp.render, Bool.false_eq_true, if_false, if_true, List.singleton_append] at hp ⊢
      exact Rl.cs_signed 43 _ tail _ (by omega) hbody hp
    | false =>
      simp only [RealSp.render, Bool.false_eq_true, if_false, List.nil_append] at hp ⊢
      obtain ⟨c, r, e, hc⟩ := Rl.body_head ip fp hi
      rw [e] at hp hbody ⊢
      exact Rl.cs_unsigned c r tail _ (by omega) hbody hp

/-- `normReal` keeps the value and produces the normal form: m / 10^s = m' / 10^s', and m' has no
trailing zero unless s' = 0 -/
theorem normReal_spec (m s : Nat) :
    m * 10 ^ (normReal m s).2 = (normReal m s).1 * 10 ^ s ∧ (normReal m s).2 ≤ s ∧
      ((normReal m s).2 = 0 ∨ (normReal m s).1 % 10 ≠ 0) := by
  induction s generalizing m with
  | zero => simp [normReal]
  | succ s ih =>
    rw [normReal]
    split
    · rename_i h0
      obtain ⟨h1, h2, h3⟩ := ih (m / 10)
      refine ⟨?_, by omega, h3⟩
      have hm : m / 10 * 10 = m := Nat.div_mul_cancel (Nat.dvd_of_mod_eq_zero h0)
      calc m * 10 ^ (normReal (m / 10) s).2
          = (m / 10 * 10) * 10 ^ (normReal (m / 10) s).2 := by rw [hm]
        _ = (m / 10 * 10 ^ (normReal (m / 10) s).2) * 10 := Nat.mul_right_comm _ _ _
        _ = ((normReal (m / 10) s).1 * 10 ^ s) * 10 := by rw [h1]
        _ = (normReal (m / 10) s).1 * 10 ^ (s + 1) := by rw [Nat.mul_assoc, ← Nat.pow_succ]
    · rename_i h0
      exact ⟨rfl, Nat.le_refl _, Or.inr h0⟩

end Tabula.Pdf
