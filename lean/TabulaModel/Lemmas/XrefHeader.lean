import TabulaModel.Model.XrefFile
import TabulaModel.Lemmas.PdfParse
/-!
A sequence of objects read by repeated `ParseObject` calls (what `parseHeader` of an object
stream does), and the header of an object stream.
-/
namespace Tabula.XrefFile
open Tabula.Pdf Tabula.A1 Tabula.Pdf.Prs Tabula.Reader

theorem render_len_pos (so : SObj) : 1 ≤ so.render.length := by
  have := size_le so; omega

theorem renderList_len (xs : List SObj) : xs.length ≤ (renderList xs).length := by
  induction xs with
  | nil => simp [renderList]
  | cons x xs ih =>
    have := render_len_pos x
    simp only [renderList, List.length_append, List.length_cons]; omega

theorem stateAt_trail (trail : Sep) (ht : SepOk trail) :
    (stateAt (renderSep trail)).cur = some .eof ∧ (stateAt (renderSep trail)).err = false := by
  have hs := starts_eof trail ht
  refine ⟨hs.cur, ?_⟩
  exact stateAt_err_false (renderSep trail) .eof [] .eof [] hs.lex hs.ns (by simp [lexSkip, nextToken_nil])

theorem parseObject_trail (trail : Sep) (ht : SepOk trail) (f : Nat) :
    parseObject (f + 1) 0 (stateAt (renderSep trail)) = .error .eof := by
  obtain ⟨h1, h2⟩ := stateAt_trail trail ht
  simp [parseObject, h1, h2]

/-- the loop of `coreParseAll` on a list of spelled objects followed by white space / comments -/
theorem go_list (inp : Str) (F : Nat) (hF : fuelFor inp = F + 1) (xs : List SObj) (trail : Sep) (ht : SepOk trail) :
    ∀ (need : Bool) (n : Nat) (acc : List Obj), ValidList need xs → xs.length < n →
      (∀ x ∈ xs, x.size ≤ F + 1 ∧ x.value.depth ≤ maxNestingDepth) →
      coreParseAll.go inp n (stateAt (renderList xs ++ renderSep trail)) acc = (acc ++ valueList xs, some .eof) := by
  induction xs with
  | nil =>
    intro need n acc _ hn _
    cases n with
    | zero => simp at hn
    | succ n =>
      simp only [renderList, List.nil_append, coreParseAll.go, hF, parseObject_trail trail ht F, valueList,
        List.append_nil]
  | cons x xs ih =>
    intro need n acc hv hn hsz
    cases n with
    | zero => simp at hn
    | succ n =>
      simp only [ValidList] at hv
      have hT : Terminated (renderSep trail) := by
        have := term_sep trail ht [] (Or.inl rfl)
        simpa using this
      obtain ⟨he1, _⟩ := stateAt_trail trail ht
      have hT1 : FirstNotR (renderSep trail) := by unfold FirstNotR; rw [he1]; intro e; cases e
      have hT2 : NoRefAhead (renderSep trail) := by intro vb b hc _; rw [he1] at hc; cases hc
      have hterm : x.endsRegular = true → Terminated (renderList xs ++ renderSep trail) := by
        intro he
        have hv2 := hv.2
        rw [he] at hv2
        exact term_list xs hv2 _ hT
      have hp := parse_roundtrip x need (renderList xs ++ renderSep trail) (F + 1) 0 hv.1
        (hsz x (by simp)).1 (by have := (hsz x (by simp)).2; omega) hterm
        (firstNotR_list xs _ hv.2 _ hT hT1) (noRefAhead_list xs _ hv.2 _ hT hT1 hT2)
      simp only [renderList, List.append_assoc, coreParseAll.go, hF, hp]
      rw [ih x.endsRegular n (acc ++ [x.value]) hv.2 (by simp at hn; omega) (fun y hy => hsz y (by simp [hy]))]
      simp [valueList]

/-- **repeated `ParseObject`**: any sequence of objects in any legal spelling, followed by
white space / comments, is read back one by one, then the input ends -/
theorem coreParseAll_list (xs : List SObj) (trail : Sep) (hv : ValidList false xs) (ht : SepOk trail)
    (hd : ∀ x ∈ xs, x.value.depth ≤ maxNestingDepth) :
    coreParseAll (renderList xs ++ renderSep trail) = (valueList xs, .eof) := by
  unfold coreParseAll
  have hF : fuelFor (renderList xs ++ renderSep trail) = (4 * (renderList xs ++ renderSep trail).length + 7) + 1 := by
    unfold fuelFor; omega
  have hsz : ∀ x ∈ xs, x.size ≤ (4 * (renderList xs ++ renderSep trail).length + 7) + 1 := by
    intro x hx
    have h1 := size_le x
    have h2 : x.render.length ≤ (renderList xs).length := by
      clear hv hd hF
      induction xs with
      | nil => cases hx
      | cons y ys ih =>
        simp only [List.mem_cons] at hx
        simp only [renderList, List.length_append]
        rcases hx with rfl | hx
        · omega
        · have := ih hx; omega
    simp only [List.length_append]
    omega
  have hgo := go_list (renderList xs ++ renderSep trail) _ hF xs trail ht false
    ((renderList xs ++ renderSep trail).length + 2) [] hv (by
      have := renderList_len xs
      simp only [List.length_append]; omega) (fun x hx => ⟨hsz x hx, hd x hx⟩)
  have e : newParser (renderList xs ++ renderSep trail) = stateAt (renderList xs ++ renderSep trail) := rfl
  rw [e, hgo]
  simp

end Tabula.XrefFile

/-! ### the header of an object stream (ISO 32000-1 7.5.7): N pairs "number offset" -/
namespace Tabula.XrefFile
open Tabula.Pdf Tabula.A1 Tabula.Pdf.Prs Tabula.Reader

/-- the header integers as spelled objects: separated by one space -/
def hdrObjs : Bool → List (Nat × Nat) → List SObj
  | _, [] => []
  | first, (n, o) :: r =>
    .int (if first then [] else [.ws 32]) false 0 (n : Int) :: .int [.ws 32] false 0 (o : Int) :: hdrObjs false r

/-- `n1 o1 n2 o2 … ` -/
def headerText (pairs : List (Nat × Nat)) : Str := renderList (hdrObjs true pairs) ++ [32]

def PairsOk (pairs : List (Nat × Nat)) : Prop := ∀ p ∈ pairs, p.1 < 9223372036854775808 ∧ p.2 < 9223372036854775808

theorem sepOk_ws32 : SepOk [SepUnit.ws 32] := by
  intro u hu; simp at hu; subst hu; simp [SepUnit.Ok, isWs]

theorem hdrObjs_valid (pairs : List (Nat × Nat)) (h : PairsOk pairs) :
    ∀ (first need : Bool), (need = true → first = false) → ValidList need (hdrObjs first pairs) := by
  induction pairs with
  | nil => intro _ _ _; simp [hdrObjs, ValidList]
  | cons p r ih =>
    intro first need hfn
    obtain ⟨n, o⟩ := p
    have hp := h (n, o) (by simp)
    simp only [hdrObjs, ValidList, SObj.Valid, SObj.endsRegular]
    refine ⟨⟨?_, ?_, by omega, by omega⟩, ⟨sepOk_ws32, by simp, by omega, by omega⟩,
      ih (fun q hq => h q (by simp [hq])) false true (fun _ => rfl)⟩
    · cases first
      · exact sepOk_ws32
      · intro u hu; cases hu
    · intro hn
      rw [hfn hn]; simp

theorem hdrObjs_depth (first : Bool) (pairs : List (Nat × Nat)) :
    ∀ x ∈ hdrObjs first pairs, x.value.depth ≤ maxNestingDepth := by
  induction pairs generalizing first with
  | nil => intro x hx; cases hx
  | cons p r ih =>
    obtain ⟨n, o⟩ := p
    intro x hx
    simp only [hdrObjs, List.mem_cons] at hx
    rcases hx with rfl | rfl | hx
    · simp [SObj.value, Obj.depth]
    · simp [SObj.value, Obj.depth]
    · exact ih false x hx

theorem hdrObjs_values (first : Bool) (pairs : List (Nat × Nat)) (len : Nat) (h : ∀ p ∈ pairs, p.2 ≤ len) :
    headerPairs len pairs.length (valueList (hdrObjs first pairs)) =
      some (pairs.map fun p => ((p.1 : Int), p.2)) := by
  induction pairs generalizing first with
  | nil => simp [hdrObjs, valueList, headerPairs]
  | cons p r ih =>
    obtain ⟨n, o⟩ := p
    have ho := h (n, o) (by simp)
    simp only [hdrObjs, valueList, SObj.value, List.length_cons, headerPairs]
    have hc : ¬ ((o : Int) < 0 ∨ (o : Int) > (len : Int)) := by simp only at ho; omega
    simp only [hc, if_false, ih false (fun q hq => h q (by simp [hq])), Option.map_some, Int.toNat_natCast,
      List.map_cons]

/-- the decoded object stream the writer meant -/
def writerObjStm (pairs : List (Nat × Nat)) (bodies : Str) : ObjStm :=
  ⟨(headerText pairs).length, pairs.map (fun p => ((p.1 : Int), p.2)), headerText pairs ++ bodies⟩

/-- **the header round trip**: a stream whose dictionary says `/Type /ObjStm`, `/N` = the
number of pairs, `/First` = the length of the header, no `/Extends`, and whose data decodes to
the header `n1 o1 n2 o2 … ` followed by the member bytes, is opened as exactly those pairs -/
theorem mkObjStm_header (ext : Reader.Ext) (kv : Dict) (raw : Str) (pairs : List (Nat × Nat)) (bodies : Str)
    (hT : dget kv Reader.kType = some (.name kObjStm))
    (hN : dget kv kN = some (.int pairs.length))
    (hF : dget kv kFirst = some (.int (headerText pairs).length))
    (hE : dget kv kExtends = none)
    (hdec : decodeStream ext kv raw = some (headerText pairs ++ bodies))
    (hp : PairsOk pairs) (hoff : ∀ p ∈ pairs, p.2 ≤ (headerText pairs ++ bodies).length) :
    mkObjStm ext kv raw = .ok (writerObjStm pairs bodies) := by
  unfold mkObjStm
  rw [hT, hN, hF]
  have hc : ¬ (kObjStm ≠ kObjStm ∨ ((pairs.length : Nat) : Int) < 0 ∨ (((headerText pairs).length : Nat) : Int) < 0 ∨
      (dget kv kExtends).isSome = true) := by
    rw [hE]; simp
  simp only [hc, if_false, hdec, Int.toNat_natCast]
  have hlen : ¬ ((headerText pairs).length > (headerText pairs ++ bodies).length) := by simp
  simp only [hlen, if_false, List.take_left]
  have hparse : coreParseAll (headerText pairs) = (valueList (hdrObjs true pairs), .eof) := by
    have := coreParseAll_list (hdrObjs true pairs) [.ws 32] (hdrObjs_valid pairs hp true false (by intro h; cases h))
      sepOk_ws32 (hdrObjs_depth true pairs)
    simpa [headerText, renderSep, SepUnit.render] using this
  rw [hparse]
  simp only [hdrObjs_values true pairs _ hoff, writerObjStm]

end Tabula.XrefFile

/-! ### the members behind the header -/
namespace Tabula.XrefFile
open Tabula.Pdf Tabula.A1 Tabula.Pdf.Prs Tabula.Reader

/-- a member as written: its value in some spelling, then one space -/
def memberText (m : Nat × SObj) : Str := m.2.render ++ [32]

def bodiesOf : List (Nat × SObj) → Str
  | [] => []
  | m :: r => memberText m ++ bodiesOf r

/-- the header pairs: member numbers with the running offsets -/
def pairsFrom : Nat → List (Nat × SObj) → List (Nat × Nat)
  | _, [] => []
  | start, m :: r => (m.1, start) :: pairsFrom (start + (memberText m).length) r

theorem bodiesOf_append (a b : List (Nat × SObj)) : bodiesOf (a ++ b) = bodiesOf a ++ bodiesOf b := by
  induction a with
  | nil => rfl
  | cons m a ih => simp [bodiesOf, ih]

theorem pairsFrom_append (s : Nat) (a b : List (Nat × SObj)) :
    pairsFrom s (a ++ b) = pairsFrom s a ++ pairsFrom (s + (bodiesOf a).length) b := by
  induction a generalizing s with
  | nil => simp [pairsFrom, bodiesOf]
  | cons m a ih =>
    simp only [List.cons_append, pairsFrom, bodiesOf, ih, List.length_append]
    rw [Nat.add_assoc]

theorem pairsFrom_length (s : Nat) (a : List (Nat × SObj)) : (pairsFrom s a).length = a.length := by
  induction a generalizing s with
  | nil => rfl
  | cons m a ih => simp [pairsFrom, ih]

/-- the bytes `GetObjectByIndex` cuts out for member number `a.length` are exactly the member's text -/
theorem memberSlice_writer (a b : List (Nat × SObj)) (m : Nat × SObj) :
    memberSlice (writerObjStm (pairsFrom 0 (a ++ m :: b)) (bodiesOf (a ++ m :: b))) a.length =
      some ((m.1 : Int), memberText m) := by
  unfold memberSlice writerObjStm
  simp only
  have hp : pairsFrom 0 (a ++ m :: b) = pairsFrom 0 a ++ (m.1, (bodiesOf a).length) ::
      pairsFrom ((bodiesOf a).length + (memberText m).length) b := by
    rw [pairsFrom_append]; simp [pairsFrom]
  have hl : (pairsFrom 0 a).length = a.length := pairsFrom_length 0 a
  have hmpos : 1 ≤ (memberText m).length := by simp [memberText]
  have hi : (List.map (fun p : Nat × Nat => ((p.1 : Int), p.2)) (pairsFrom 0 (a ++ m :: b)))[a.length]? =
      some ((m.1 : Int), (bodiesOf a).length) := by
    rw [hp, List.map_append, List.getElem?_append_right (by simp [hl])]
    simp [hl]
  rw [hi]
  simp only
  have hdec : headerText (pairsFrom 0 (a ++ m :: b)) ++ bodiesOf (a ++ m :: b) =
      (headerText (pairsFrom 0 (a ++ m :: b)) ++ bodiesOf a) ++ (memberText m ++ bodiesOf b) := by
    rw [bodiesOf_append]; simp [bodiesOf]
  have hdl : (headerText (pairsFrom 0 (a ++ m :: b)) ++ bodiesOf (a ++ m :: b)).length =
      (headerText (pairsFrom 0 (a ++ m :: b))).length + (bodiesOf a).length + (memberText m).length + (bodiesOf b).length := by
    rw [hdec]; simp only [List.length_append]; omega
  have hge : ¬ ((headerText (pairsFrom 0 (a ++ m :: b))).length + (bodiesOf a).length ≥
      (headerText (pairsFrom 0 (a ++ m :: b)) ++ bodiesOf (a ++ m :: b)).length) := by
    rw [hdl]; omega
  simp only [hge, if_false]
  have hdrop : (headerText (pairsFrom 0 (a ++ m :: b)) ++ bodiesOf (a ++ m :: b)).drop
      ((headerText (pairsFrom 0 (a ++ m :: b))).length + (bodiesOf a).length) = memberText m ++ bodiesOf b := by
    rw [hdec, List.drop_left' (by simp)]
  rw [hdrop]
  cases b with
  | nil =>
    have hnext : (List.map (fun p : Nat × Nat => ((p.1 : Int), p.2)) (pairsFrom 0 (a ++ [m])))[a.length + 1]? = none := by
      rw [List.getElem?_eq_none_iff]; simp [pairsFrom_length]
    rw [hnext]
    simp only [bodiesOf, List.append_nil] at hdl ⊢
    have hc : ¬ ((headerText (pairsFrom 0 (a ++ [m])) ++ bodiesOf (a ++ [m])).length >
        (headerText (pairsFrom 0 (a ++ [m])) ++ bodiesOf (a ++ [m])).length ∨
        (headerText (pairsFrom 0 (a ++ [m])) ++ bodiesOf (a ++ [m])).length <
          (headerText (pairsFrom 0 (a ++ [m]))).length + (bodiesOf a).length) := by
      rw [hdl]; omega
    simp only [hc, if_false]
    rw [hdl]
    have : (headerText (pairsFrom 0 (a ++ [m]))).length + (bodiesOf a).length + (memberText m).length + 0 -
        ((headerText (pairsFrom 0 (a ++ [m]))).length + (bodiesOf a).length) = (memberText m).length := by omega
    simp only [List.length_nil] at hdl ⊢
    rw [this]; simp
  | cons m' b' =>
    have hnext : (List.map (fun p : Nat × Nat => ((p.1 : Int), p.2)) (pairsFrom 0 (a ++ m :: m' :: b')))[a.length + 1]? =
        some ((m'.1 : Int), (bodiesOf a).length + (memberText m).length) := by
      rw [hp, List.map_append, List.getElem?_append_right (by simp [hl])]
      simp [hl, pairsFrom]
    rw [hnext]
    simp only
    have hc : ¬ ((headerText (pairsFrom 0 (a ++ m :: m' :: b'))).length + ((bodiesOf a).length + (memberText m).length) >
        (headerText (pairsFrom 0 (a ++ m :: m' :: b')) ++ bodiesOf (a ++ m :: m' :: b')).length ∨
        (headerText (pairsFrom 0 (a ++ m :: m' :: b'))).length + ((bodiesOf a).length + (memberText m).length) <
          (headerText (pairsFrom 0 (a ++ m :: m' :: b'))).length + (bodiesOf a).length) := by
      rw [hdl]; omega
    simp only [hc, if_false]
    have : (headerText (pairsFrom 0 (a ++ m :: m' :: b'))).length + ((bodiesOf a).length + (memberText m).length) -
        ((headerText (pairsFrom 0 (a ++ m :: m' :: b'))).length + (bodiesOf a).length) = (memberText m).length := by omega
    rw [this]; simp

end Tabula.XrefFile

namespace Tabula.XrefFile
open Tabula.Pdf Tabula.A1 Tabula.Pdf.Prs Tabula.Reader

theorem pairsFrom_bounds (s : Nat) (ms : List (Nat × SObj)) :
    ∀ p ∈ pairsFrom s ms, (∃ m ∈ ms, m.1 = p.1) ∧ p.2 ≤ s + (bodiesOf ms).length := by
  induction ms generalizing s with
  | nil => intro p hp; cases hp
  | cons m r ih =>
    intro p hp
    simp only [pairsFrom, List.mem_cons] at hp
    rcases hp with rfl | hp
    · exact ⟨⟨m, by simp, rfl⟩, by simp⟩
    · obtain ⟨⟨m', hm', e⟩, hb⟩ := ih _ p hp
      refine ⟨⟨m', by simp [hm'], e⟩, ?_⟩
      simp only [bodiesOf, List.length_append]; omega

end Tabula.XrefFile
