import TabulaModel.Lemmas.Utf8
import TabulaModel.Lemmas.Split
/-!
Conservation of the non-whitespace content (`stripWs`) for C13: whitespace-only gaps
contribute nothing, valid UTF-8 pieces contribute their own content, so `Pieces text ps`
with valid pieces gives `ps.flatMap stripWs = stripWs text`.
-/
set_option linter.unusedVariables false
namespace Tabula.Split

theorem stripWs_nil : stripWs [] = [] := by rw [stripWs]; rfl

theorem stripWs_space (s : Str) (h : spaceLen s ≠ 0) : stripWs s = stripWs (s.drop (spaceLen s)) := by
  have hs : s ≠ [] := by intro e; subst e; exact h rfl
  conv => lhs; rw [stripWs]
  rw [dif_neg hs, dif_pos h]

theorem stripWs_char (s : Str) (hs : s ≠ []) (h : spaceLen s = 0) :
    stripWs s = s.take (runeLen s) ++ stripWs (s.drop (runeLen s)) := by
  conv => lhs; rw [stripWs]
  rw [dif_neg hs, dif_neg (by simpa using h)]

/-- prefix determinacy of the White_Space patterns -/
theorem spaceLen_append (s t : Str) (h : spaceLen s ≠ 0) : spaceLen (s ++ t) = spaceLen s := by
  rcases spaceLen_cases s with h0 | ⟨b, r, rfl, h1, e⟩ | ⟨b, c, r, rfl, h2, e⟩ | ⟨b, c, d, r, rfl, h3, e⟩
  · exact absurd h0 h
  · rw [e]; simp [spaceLen, h1]
  · rw [e]
    have := isSpace2_not_ascii h2
    simp [spaceLen, h2, this]
  · rw [e]
    have := isSpace3_not_ascii h3
    simp [spaceLen, h3, this.1, this.2]

theorem spaceLen_wsChar_append {c : Str} (hc : IsWsChar c) (t : Str) : spaceLen (c ++ t) = c.length := by
  have h0 : spaceLen c ≠ 0 := by
    rw [hc.2]; exact Nat.ne_of_gt (List.length_pos_iff.mpr hc.1)
  rw [spaceLen_append c t h0, hc.2]

/-- a whitespace-only gap contributes nothing -/
theorem stripWs_wsOnly_append {g : Str} (hg : WsOnly g) (x : Str) : stripWs (g ++ x) = stripWs x := by
  induction hg with
  | nil => rfl
  | @cons c s hc _ ih =>
    have e := spaceLen_wsChar_append hc (s ++ x)
    have hpos : 0 < c.length := List.length_pos_iff.mpr hc.1
    rw [List.append_assoc, stripWs_space _ (by rw [e]; omega), e, List.drop_left]
    exact ih

theorem stripWs_wsOnly {g : Str} (hg : WsOnly g) : stripWs g = [] := by
  have := stripWs_wsOnly_append hg []
  rw [List.append_nil] at this
  rw [this, stripWs_nil]

/-- a character that is complete in `p` is not turned into whitespace by what follows -/
theorem spaceLen_append_zero (p r : Str) (hc : charLen p ≠ 0) (h : spaceLen p = 0) :
    spaceLen (p ++ r) = 0 := by
  apply Classical.byContradiction
  intro hne
  have h1 : charLen (p ++ r) = spaceLen (p ++ r) := charLen_of_spaceLen _ hne
  have h2 : charLen (p ++ r) = charLen p := charLen_append p r hc
  have hle : spaceLen (p ++ r) ≤ p.length := by
    rw [← h1, h2]; exact charLen_le_length p
  have hw := isWsChar_take_spaceLen (p ++ r) hne
  rw [List.take_append_of_le_length hle] at hw
  have h3 := spaceLen_wsChar_append hw (p.drop (spaceLen (p ++ r)))
  rw [List.take_append_drop] at h3
  rw [h] at h3
  have : 0 < (p.take (spaceLen (p ++ r))).length := List.length_pos_iff.mpr hw.1
  omega

/-- a valid UTF-8 piece contributes its own non-whitespace content, whatever follows -/
theorem stripWs_valid_append (p r : Str) (hv : validUtf8 p = true) :
    stripWs (p ++ r) = stripWs p ++ stripWs r := by
  induction p using validUtf8.induct with
  | case1 => rw [stripWs_nil]; rfl
  | case2 x hx h0 => rw [validUtf8_bad x hx h0] at hv; exact Bool.noConfusion hv
  | case3 x hx h0 ih =>
    rw [validUtf8_step x h0] at hv
    have hcl : charLen (x ++ r) = charLen x := charLen_append x r h0
    have hle := charLen_le_length x
    by_cases hsp : spaceLen x = 0
    · have hsp' := spaceLen_append_zero x r h0 hsp
      have hne : x ++ r ≠ [] := by simp [hx]
      have hr1 : runeLen x = charLen x := by simp [runeLen, h0]
      have hr2 : runeLen (x ++ r) = charLen x := by simp [runeLen, hcl, h0]
      rw [stripWs_char _ hne hsp', stripWs_char x hx hsp, hr1, hr2,
        List.take_append_of_le_length hle, List.drop_append_of_le_length hle, ih hv,
        List.append_assoc]
    · have e1 := charLen_of_spaceLen x hsp
      have e2 := spaceLen_append x r hsp
      rw [stripWs_space _ (by rw [e2]; exact hsp), stripWs_space x hsp, e2, ← e1,
        List.drop_append_of_le_length hle, ih hv]

/-- **conservation of non-whitespace content**: in-order substrings with whitespace-only gaps,
each valid UTF-8, carry exactly the non-whitespace characters of the text, in order -/
theorem Pieces.stripWs_eq {t : Str} {ps : List Str} (h : Pieces t ps)
    (hv : ∀ p ∈ ps, validUtf8 p = true) : ps.flatMap stripWs = stripWs t := by
  induction h with
  | done hg => rw [stripWs_wsOnly hg]; rfl
  | @piece g p r ps hg _ ih =>
    rw [List.append_assoc, stripWs_wsOnly_append hg,
      stripWs_valid_append p r (hv p (List.mem_cons_self ..)), List.flatMap_cons,
      ih (fun q hq => hv q (List.mem_cons_of_mem _ hq))]

/-- `stripWs` is idempotent on the pieces' side: trimming changes nothing -/
theorem stripWs_trimSpace (s : Str) (hv : validUtf8 s = true) : stripWs (trimSpace s) = stripWs s := by
  obtain ⟨l, r, hl, hr, e⟩ := trimSpace_decomp s
  have hp : Pieces s [trimSpace s] := (Pieces.piece (p := trimSpace s) hl (.done hr)).cast e
  have := hp.stripWs_eq (by intro p hp; simp at hp; subst hp; exact valid_trimSpace s hv)
  simpa using this

end Tabula.Split
