import TabulaModel.Lemmas.PdfLexProgress
import TabulaModel.Model.LexPos
/-
The observable positions of the lexer (`Model/LexPos.lean`), every input (property C06, progress):
the loop bound of `lexTokens` is never reached, `Token.Pos` strictly increases, every `Pos` and
`SkippedBytes` is sound with respect to the whole input, the result does not depend on the loop
bound, and the run ends with `TokenEOF` as the last token or with an error.  Core Lean only.
-/
namespace Tabula.Pdf
namespace Pos
open Prog

/-! ### small list facts -/

theorem suffix_eq_drop {r inp : Str} (h : r <:+ inp) : r = inp.drop (inp.length - r.length) := by
  obtain ⟨p, rfl⟩ := h
  have : (p ++ r).length - r.length = p.length := by simp
  rw [this, List.drop_left]

theorem mem_takeWhile_ws (s : Str) : ∀ c ∈ s.takeWhile isWs, isWs c = true := by
  induction s with
  | nil => intro c hc; simp at hc
  | cons b s ih =>
    intro c hc
    by_cases hb : isWs b = true
    · rw [List.takeWhile_cons_of_pos hb] at hc
      rcases List.mem_cons.mp hc with rfl | hc
      · exact hb
      · exact ih c hc
    · rw [List.takeWhile_cons_of_neg hb] at hc
      simp at hc

/-! ### one `NextToken` call -/

/-- what one `NextToken` call reports: the position after the call is the offset of the unread rest, the
token's `Pos` lies between the old and the new position, `SkippedBytes` is exactly the white space in front of
the token, and a token other than the end of input moves the position past its `Pos` -/
theorem nextTokenP_spec (off : Nat) (inp : Str) (pt : PosTok) (off' : Nat) (r : Str)
    (h : nextTokenP off inp = some (pt, off', r)) :
    nextToken inp = some (pt.tok, r) ∧ off' + r.length = off + inp.length ∧
      pt.pos = off + pt.skipped.length ∧ pt.skipped = inp.takeWhile isWs ∧ (∀ c ∈ pt.skipped, isWs c = true) ∧
      pt.pos ≤ off' ∧ (pt.tok ≠ .eof → pt.pos < off') ∧ (pt.tok = .eof → pt.pos = off' ∧ r = []) := by
  unfold nextTokenP at h
  cases hn : nextToken inp with
  | none => rw [hn] at h; cases h
  | some p =>
    obtain ⟨t, r0⟩ := p
    rw [hn] at h
    simp only [Option.some.injEq, Prod.mk.injEq] at h
    obtain ⟨rfl, rfl, rfl⟩ := h
    obtain ⟨hsuf, _, heof⟩ := nextToken_progress inp t r0 hn
    obtain ⟨lx, htile, hne, _⟩ := nextToken_tiles inp t r0 hn
    have hlen : inp.length = (inp.takeWhile isWs).length + lx.length + r0.length := by
      have := congrArg List.length htile
      simp only [List.length_append] at this
      omega
    have hle := hsuf.length_le
    refine ⟨rfl, by omega, rfl, rfl, mem_takeWhile_ws inp, ?_, ?_, ?_⟩
    · show off + (inp.takeWhile isWs).length ≤ off + (inp.length - r0.length)
      omega
    · intro ht
      show off + (inp.takeWhile isWs).length < off + (inp.length - r0.length)
      have : lx.length ≠ 0 := fun h0 => hne ht (List.eq_nil_of_length_eq_zero h0)
      omega
    · intro ht
      obtain ⟨hr, hs⟩ := heof ht
      refine ⟨?_, hr⟩
      show off + (inp.takeWhile isWs).length = off + (inp.length - r0.length)
      have h1 := congrArg List.length (skipWs_split inp)
      rw [hs] at h1
      subst hr
      simp only [List.length_append, List.length_nil] at h1 ⊢
      omega

/-- invariant of the loop: `whole` is the complete input, the lexer stands at offset `off` with `inp` unread -/
def Sound (whole : Str) (pt : PosTok) : Prop :=
  pt.pos ≤ whole.length ∧ pt.skipped.length ≤ pt.pos ∧
    (whole.drop (pt.pos - pt.skipped.length)).take pt.skipped.length = pt.skipped ∧
    (∀ c ∈ pt.skipped, isWs c = true) ∧
    (pt.tok ≠ .eof → ∃ c, whole[pt.pos]? = some c ∧ isWs c = false) ∧
    (pt.tok = .eof → pt.pos = whole.length)

/-- one call from offset `pre.length` of `pre ++ inp`: the token is sound with respect to the whole
input, its `Pos` is not before the old position, and the new position is again the length of a
prefix whose rest is the unread input -/
theorem step_sound (pre inp : Str) (pt : PosTok) (off' : Nat) (r : Str)
    (h : nextTokenP pre.length inp = some (pt, off', r)) :
    Sound (pre ++ inp) pt ∧ pre.length ≤ pt.pos ∧ pt.pos ≤ off' ∧ (pt.tok ≠ .eof → pt.pos < off') ∧
      (pt.tok ≠ .eof → r.length < inp.length) ∧
      ∃ pre', pre ++ inp = pre' ++ r ∧ pre'.length = off' := by
  obtain ⟨hnt, hoff, hpos, hsk, hws, hle, hlt, heof⟩ := nextTokenP_spec pre.length inp pt off' r h
  obtain ⟨hsuf, hprog, heof'⟩ := nextToken_progress inp pt.tok r hnt
  obtain ⟨lx, _, hne, hlx⟩ := nextToken_tiles inp pt.tok r hnt
  have hsplit := skipWs_split inp
  rw [← hsk] at hsplit
  refine ⟨⟨?_, by omega, ?_, hws, ?_, ?_⟩, by omega, hle, hlt, hprog, ?_⟩
  · have := congrArg List.length hsplit
    simp only [List.length_append] at this ⊢
    omega
  · have e : pt.pos - pt.skipped.length = pre.length := by omega
    rw [e, List.drop_left]
    conv => lhs; rw [hsplit]
    rw [List.take_left]
  · intro ht
    cases hs : skipWs inp with
    | nil =>
      rw [hs] at hlx
      have : lx = [] := (List.append_eq_nil_iff.mp hlx).1
      exact absurd this (hne ht)
    | cons c x =>
      refine ⟨c, ?_, skipWs_head inp c x hs⟩
      have e : pre ++ inp = (pre ++ pt.skipped) ++ (c :: x) := by
        rw [List.append_assoc, ← hs, ← hsplit]
      rw [e, List.getElem?_append_right (by simp only [List.length_append]; omega)]
      have : pt.pos - (pre ++ pt.skipped).length = 0 := by
        simp only [List.length_append]; omega
      rw [this]
      rfl
  · intro ht
    obtain ⟨_, hs⟩ := heof' ht
    rw [hs, List.append_nil] at hsplit
    rw [List.length_append, hsplit]
    omega
  · refine ⟨pre ++ inp.take (inp.length - r.length), ?_, ?_⟩
    · have hr := suffix_eq_drop hsuf
      have e : inp.take (inp.length - r.length) ++ inp.drop (inp.length - r.length) = inp :=
        List.take_append_drop _ _
      rw [← hr] at e
      rw [List.append_assoc, e]
    · have := hsuf.length_le
      rw [List.length_append, List.length_take]
      omega

/-! ### the loop -/

theorem lexAllP_spec (n : Nat) : ∀ (whole pre inp : Str) (acc : List PosTok),
    whole = pre ++ inp → inp.length + 1 ≤ n →
    (∀ p ∈ acc, Sound whole p ∧ p.pos < pre.length ∧ p.tok ≠ .eof) →
    List.Pairwise (fun a b => a.pos < b.pos) acc →
    (lexAllP n pre.length inp acc).2 ≠ .fuel ∧
    (∀ p ∈ (lexAllP n pre.length inp acc).1, Sound whole p) ∧
    List.Pairwise (fun a b => a.pos < b.pos) (lexAllP n pre.length inp acc).1 := by
  induction n with
  | zero => intro whole pre inp acc _ hn; omega
  | succ n ih =>
    intro whole pre inp acc hw hn hacc hpw
    unfold lexAllP
    cases hnt : nextTokenP pre.length inp with
    | none =>
      exact ⟨by simp, fun p hp => (hacc p hp).1, hpw⟩
    | some x =>
      obtain ⟨pt, off', r⟩ := x
      obtain ⟨hs, hge, hle, hlt, hprog, pre', hpre', hlen'⟩ := step_sound pre inp pt off' r hnt
      rw [← hw] at hs hpre'
      have hpw' : List.Pairwise (fun a b => a.pos < b.pos) (acc ++ [pt]) := by
        rw [List.pairwise_append]
        refine ⟨hpw, List.pairwise_singleton _ _, ?_⟩
        intro a ha b hb
        rw [List.mem_singleton] at hb
        subst hb
        have := (hacc a ha).2.1
        omega
      have hall : ∀ p ∈ acc ++ [pt], Sound whole p := by
        intro p hp
        rcases List.mem_append.mp hp with hp | hp
        · exact (hacc p hp).1
        · rw [List.mem_singleton] at hp
          subst hp
          exact hs
      show (if pt.tok = .eof then (acc ++ [pt], LexEnd.eof) else lexAllP n off' r (acc ++ [pt])).2 ≠ .fuel ∧
        (∀ p ∈ (if pt.tok = .eof then (acc ++ [pt], LexEnd.eof) else lexAllP n off' r (acc ++ [pt])).1,
          Sound whole p) ∧
        List.Pairwise (fun a b => a.pos < b.pos)
          (if pt.tok = .eof then (acc ++ [pt], LexEnd.eof) else lexAllP n off' r (acc ++ [pt])).1
      by_cases ht : pt.tok = .eof
      · rw [if_pos ht]
        exact ⟨by simp, hall, hpw'⟩
      · rw [if_neg ht, ← hlen']
        have hr := hprog ht
        have hlt' := hlt ht
        refine ih whole pre' r (acc ++ [pt]) hpre' (by omega) ?_ hpw'
        intro p hp
        refine ⟨hall p hp, ?_⟩
        rcases List.mem_append.mp hp with hp | hp
        · have := (hacc p hp).2
          exact ⟨by omega, this.2⟩
        · rw [List.mem_singleton] at hp
          subst hp
          exact ⟨by omega, ht⟩

theorem lexTokens_spec (inp : Str) :
    (lexTokens inp).2 ≠ .fuel ∧ (∀ p ∈ (lexTokens inp).1, Sound inp p) ∧
      List.Pairwise (fun a b => a.pos < b.pos) (lexTokens inp).1 := by
  have := lexAllP_spec (inp.length + 1) inp [] inp [] rfl (Nat.le_refl _)
    (fun p hp => by simp at hp) List.Pairwise.nil
  exact this

/-- **the loop bound of `lexTokens` is never reached** -/
theorem lexTokens_never_out_of_fuel (inp : Str) : (lexTokens inp).2 ≠ .fuel := (lexTokens_spec inp).1

/-- **`Token.Pos` strictly increases from token to token** -/
theorem lexTokens_positions_increase (inp : Str) :
    List.Pairwise (fun a b => a.pos < b.pos) (lexTokens inp).1 := (lexTokens_spec inp).2.2

/-- every reported position lies in the input, `SkippedBytes` is the white space that really stands in front of
the token, the token starts on a non-white byte, and `TokenEOF` is reported at the end of the input -/
theorem lexTokens_sound (inp : Str) : ∀ p ∈ (lexTokens inp).1, Sound inp p := (lexTokens_spec inp).2.1

/-- the result does not depend on the loop bound -/
theorem lexAllP_stable (n : Nat) : ∀ (m off : Nat) (inp : Str) (acc : List PosTok),
    inp.length + 1 ≤ n → inp.length + 1 ≤ m → lexAllP n off inp acc = lexAllP m off inp acc := by
  induction n with
  | zero => intro m off inp acc hn; omega
  | succ n ih =>
    intro m off inp acc hn hm
    cases m with
    | zero => omega
    | succ m =>
      unfold lexAllP
      cases hnt : nextTokenP off inp with
      | none => rfl
      | some x =>
        obtain ⟨pt, off', r⟩ := x
        show (if pt.tok = .eof then (acc ++ [pt], LexEnd.eof) else lexAllP n off' r (acc ++ [pt])) =
          (if pt.tok = .eof then (acc ++ [pt], LexEnd.eof) else lexAllP m off' r (acc ++ [pt]))
        by_cases ht : pt.tok = .eof
        · rw [if_pos ht, if_pos ht]
        · rw [if_neg ht, if_neg ht]
          have hnt' := (nextTokenP_spec off inp pt off' r hnt).1
          have := (nextToken_progress inp pt.tok r hnt').2.1 ht
          exact ih m off' r (acc ++ [pt]) (by omega) (by omega)

/-- how a run of the loop ends, any bound, any accumulator without `TokenEOF` -/
theorem lexAllP_end (n : Nat) : ∀ (off : Nat) (inp : Str) (acc : List PosTok),
    (∀ q ∈ acc, q.tok ≠ .eof) →
    ((lexAllP n off inp acc).2 = .eof →
      ∃ l p, (lexAllP n off inp acc).1 = l ++ [p] ∧ p.tok = .eof ∧ ∀ q ∈ l, q.tok ≠ .eof) ∧
    ((lexAllP n off inp acc).2 ≠ .eof → ∀ q ∈ (lexAllP n off inp acc).1, q.tok ≠ .eof) := by
  induction n with
  | zero =>
    intro off inp acc hacc
    unfold lexAllP
    exact ⟨fun h => (by cases h), fun _ => hacc⟩
  | succ n ih =>
    intro off inp acc hacc
    unfold lexAllP
    cases hnt : nextTokenP off inp with
    | none => exact ⟨fun h => (by cases h), fun _ => hacc⟩
    | some x =>
      obtain ⟨pt, off', r⟩ := x
      show ((if pt.tok = .eof then (acc ++ [pt], LexEnd.eof) else lexAllP n off' r (acc ++ [pt])).2 = .eof →
          ∃ l p, (if pt.tok = .eof then (acc ++ [pt], LexEnd.eof) else lexAllP n off' r (acc ++ [pt])).1 = l ++ [p] ∧
            p.tok = .eof ∧ ∀ q ∈ l, q.tok ≠ .eof) ∧
        ((if pt.tok = .eof then (acc ++ [pt], LexEnd.eof) else lexAllP n off' r (acc ++ [pt])).2 ≠ .eof →
          ∀ q ∈ (if pt.tok = .eof then (acc ++ [pt], LexEnd.eof) else lexAllP n off' r (acc ++ [pt])).1,
            q.tok ≠ .eof)
      by_cases ht : pt.tok = .eof
      · rw [if_pos ht]
        exact ⟨fun _ => ⟨acc, pt, rfl, ht, hacc⟩, fun h => absurd rfl h⟩
      · rw [if_neg ht]
        refine ih off' r (acc ++ [pt]) ?_
        intro q hq
        rcases List.mem_append.mp hq with hq | hq
        · exact hacc q hq
        · rw [List.mem_singleton] at hq
          subst hq
          exact ht

/-- how the run ends: with `TokenEOF` as the last token, or with an error and no `TokenEOF` in the list -/
theorem lexTokens_end (inp : Str) :
    ((lexTokens inp).2 = .eof → ∃ l p, (lexTokens inp).1 = l ++ [p] ∧ p.tok = .eof ∧ ∀ q ∈ l, q.tok ≠ .eof) ∧
    ((lexTokens inp).2 = .err → ∀ q ∈ (lexTokens inp).1, q.tok ≠ .eof) := by
  have h := lexAllP_end (inp.length + 1) 0 inp [] (fun q hq => by simp at hq)
  refine ⟨h.1, fun he => h.2 ?_⟩
  show (lexTokens inp).2 ≠ .eof
  rw [he]
  decide

/-- the three ways a run can end are really two: `TokenEOF` or an error -/
theorem lexTokens_eof_or_err (inp : Str) : (lexTokens inp).2 = .eof ∨ (lexTokens inp).2 = .err := by
  have := lexTokens_never_out_of_fuel inp
  cases h : (lexTokens inp).2 with
  | eof => exact Or.inl rfl
  | err => exact Or.inr rfl
  | fuel => exact absurd h this

/-- `lexTokens` with any larger loop bound gives the same result -/
theorem lexTokens_stable (inp : Str) (m : Nat) (h : inp.length + 1 ≤ m) :
    lexAllP m 0 inp [] = lexTokens inp :=
  lexAllP_stable m (inp.length + 1) 0 inp [] h (Nat.le_refl _)

end Pos
end Tabula.Pdf
