import TabulaModel.Lemmas.PdfNumLex
import TabulaModel.Lemmas.PdfReal
/-!
The number grammar of property C06 at full strength, for EVERY input: what `readNumber` cuts out
(`numLoop_grammar`, `number_token`), what `strconv.ParseFloat` / `strconv.ParseInt` (as modelled) make
of every text of that grammar (`parseReal_grammar`, `atoi_grammar`, `integer_token_value`), and the
agreement of the document-level and the content-stream parser on every input (`cs_number_agrees`,
`cs_rejects_only_big_integers`).  Core Lean only.
-/
namespace Tabula.Pdf
namespace Num
open Tabula.A1 (atoi digitsAcc maxInt64)

/-- the texts `readNumber` can produce: optional sign, digits, and (iff `hd`) a point followed by digits -/
def NumText (text : Str) (hd : Bool) : Prop :=
  ∃ sign ip fp, (sign = [] ∨ sign = [43] ∨ sign = [45]) ∧ DigitStr ip ∧ DigitStr fp ∧
    text = sign ++ ip ++ (if hd then 46 :: fp else []) ∧ (hd = false → fp = [])

/-! #### the loop behind the sign -/

theorem digitStr_nil : DigitStr [] := fun _ h => nomatch h

theorem digitStr_cons {c : Nat} {s : Str} (hc : isDigit c = true) (hs : DigitStr s) : DigitStr (c :: s) := by
  intro x hx
  rcases List.mem_cons.mp hx with e | e
  · subst e; exact hc
  · exact hs x e

theorem numBody_nondigit (hd : Bool) (c : Nat) (r : Str) (hc : isDigit c = false)
    (h : c ≠ 46 ∨ hd = true) : CS.numBody hd (c :: r) = ([], hd, c :: r) := by
  rw [CS.numBody.eq_def]
  rcases h with h | h
  · simp [hc, h]
  · simp [hc, h]

/-- after the point: the digits, by maximal munch -/
theorem body_true (inp : Str) :
    DigitStr (CS.numBody true inp).1 ∧ (CS.numBody true inp).2.1 = true ∧
    inp = (CS.numBody true inp).1 ++ (CS.numBody true inp).2.2 ∧
    (∀ c rest, (CS.numBody true inp).2.2 = c :: rest → isDigit c = false) := by
  induction inp with
  | nil => exact ⟨digitStr_nil, rfl, rfl, fun c rest h => nomatch h⟩
  | cons c r ih =>
    by_cases hc : isDigit c = true
    · rw [Rl.numBody_digit true c r hc]
      obtain ⟨h1, h2, h3, h4⟩ := ih
      exact ⟨digitStr_cons hc h1, h2, congrArg (c :: ·) h3, h4⟩
    · have hc' : isDigit c = false := by simpa using hc
      rw [numBody_nondigit true c r hc' (Or.inr rfl)]
      refine ⟨digitStr_nil, rfl, rfl, ?_⟩
      intro c' rest h
      cases h
      exact hc'

/-- before the point: digits, then (if a point follows) the point and more digits, by maximal munch -/
theorem body_false (inp : Str) :
    inp = (CS.numBody false inp).1 ++ (CS.numBody false inp).2.2 ∧
    (∃ ip fp, DigitStr ip ∧ DigitStr fp ∧
      (CS.numBody false inp).1 = ip ++ (if (CS.numBody false inp).2.1 then 46 :: fp else []) ∧
      ((CS.numBody false inp).2.1 = false → fp = [])) ∧
    (∀ c rest, (CS.numBody false inp).2.2 = c :: rest →
      isDigit c = false ∧ (c = 46 → (CS.numBody false inp).2.1 = true)) := by
  induction inp with
  | nil =>
    refine ⟨rfl, ⟨[], [], digitStr_nil, digitStr_nil, ?_, fun _ => rfl⟩, fun c rest h => nomatch h⟩
    simp [CS.numBody]
  | cons c r ih =>
    by_cases hc : isDigit c = true
    · rw [Rl.numBody_digit false c r hc]
      obtain ⟨h1, ⟨ip, fp, hi, hf, ht, hfe⟩, h4⟩ := ih
      refine ⟨congrArg (c :: ·) h1, ⟨c :: ip, fp, digitStr_cons hc hi, hf, ?_, hfe⟩, h4⟩
      simp only [List.cons_append]
      exact congrArg (c :: ·) ht
    · have hc' : isDigit c = false := by simpa using hc
      by_cases h46 : c = 46
      · subst h46
        rw [Rl.numBody_point r]
        obtain ⟨h1, h2, h3, h4⟩ := body_true r
        refine ⟨congrArg (46 :: ·) h3, ⟨[], (CS.numBody true r).1, digitStr_nil, h1, ?_, ?_⟩, ?_⟩
        · simp [h2]
        · simp [h2]
        · intro c' rest h
          exact ⟨h4 c' rest h, fun _ => h2⟩
      · rw [numBody_nondigit false c r hc' (Or.inl h46)]
        refine ⟨rfl, ⟨[], [], digitStr_nil, digitStr_nil, by simp, fun _ => rfl⟩, ?_⟩
        intro c' rest h
        cases h
        exact ⟨hc', fun e => absurd e h46⟩

/-- **the lexeme of a number, every input**: whatever follows, `readNumber` entered on a sign, a digit or the
point splits the input into a text of the number grammar and the rest, by maximal munch: the rest does not
start with a digit, and starts with a point only if the text already has one -/
theorem numLoop_grammar (b : Nat) (r : Str) (hb : b = 45 ∨ b = 43 ∨ b = 46 ∨ isDigit b = true) :
    let p := numLoop false true (b :: r)
    b :: r = p.1 ++ p.2.2 ∧ NumText p.1 p.2.1 ∧ p.1 ≠ [] ∧
      (∀ c rest, p.2.2 = c :: rest → isDigit c = false ∧ (c = 46 → p.2.1 = true)) := by
  intro p
  by_cases hs : b = 45 ∨ b = 43
  · have hp : p = (b :: (CS.numBody false r).1, (CS.numBody false r).2.1, (CS.numBody false r).2.2) :=
      Prog.numLoop_sign_first b r hs
    obtain ⟨h1, ⟨ip, fp, hi, hf, ht, hfe⟩, h4⟩ := body_false r
    rw [hp]
    refine ⟨congrArg (b :: ·) h1, ⟨[b], ip, fp, ?_, hi, hf, ?_, hfe⟩, by simp, h4⟩
    · rcases hs with e | e
      · exact Or.inr (Or.inr (by rw [e]))
      · exact Or.inr (Or.inl (by rw [e]))
    · simp only [List.cons_append, List.nil_append]
      exact congrArg (b :: ·) (by simpa using ht)
  · have hb' : b = 46 ∨ isDigit b = true := by
      rcases hb with h | h | h | h
      · exact absurd (Or.inl h) hs
      · exact absurd (Or.inr h) hs
      · exact Or.inl h
      · exact Or.inr h
    have hp : p = CS.numBody false (b :: r) := Prog.numLoop_body_first b r hb'
    obtain ⟨h1, ⟨ip, fp, hi, hf, ht, hfe⟩, h4⟩ := body_false (b :: r)
    rw [hp]
    refine ⟨h1, ⟨[], ip, fp, Or.inl rfl, hi, hf, by simpa using ht, hfe⟩, ?_, h4⟩
    rcases hb' with e | e
    · subst e; rw [Rl.numBody_point]; simp
    · rw [Rl.numBody_digit false b r e]; simp

/-- the number token of `NextToken`, every input -/
theorem number_token (b : Nat) (r : Str) (hb : b = 45 ∨ b = 43 ∨ b = 46 ∨ isDigit b = true) :
    let p := numLoop false true (b :: r)
    nextToken (b :: r) = some (if p.2.1 then .real p.1 else .integer p.1, p.2.2) := by
  intro p
  by_cases h46 : b = 46
  · subst h46
    rw [Tok.nextToken_cons 46 r (by decide), Rl.dispatch_point]
  · have hb' : (48 ≤ b ∧ b ≤ 57) ∨ b = 45 ∨ b = 43 := by
      rcases hb with h | h | h | h
      · exact Or.inr (Or.inl h)
      · exact Or.inr (Or.inr h)
      · exact absurd h h46
      · exact Or.inl (Rl.digit_bounds h)
    rw [Tok.nextToken_cons b r (Tok.isWs_num b hb'), Tok.dispatch_num b r hb']

/-! #### `strconv.ParseFloat` on the grammar -/

theorem takeWhile_digits (ip : Str) (hi : DigitStr ip) : ip.takeWhile isDigit = ip := by
  induction ip with
  | nil => rfl
  | cons c ip ih => rw [List.takeWhile_cons, if_pos (Rl.DigitStr.head hi), ih (Rl.DigitStr.tail hi)]

theorem dropWhile_digits (ip : Str) (hi : DigitStr ip) : ip.dropWhile isDigit = [] := by
  induction ip with
  | nil => rfl
  | cons c ip ih => rw [List.dropWhile_cons, if_pos (Rl.DigitStr.head hi), ih (Rl.DigitStr.tail hi)]

theorem normReal_zero (m : Nat) : normReal m 0 = (m, 0) := rfl

/-- digits without a point -/
theorem core_nopoint (neg : Bool) (ip : Str) (hi : DigitStr ip) (hne : ip ≠ []) :
    Rl.core neg ip = some (.real (neg && digitsVal ip != 0) (digitsVal ip) 0) := by
  have he : ip.isEmpty = false := by
    cases ip with
    | nil => exact absurd rfl hne
    | cons _ _ => rfl
  unfold Rl.core
  simp only [takeWhile_digits ip hi, dropWhile_digits ip hi, he, List.append_nil, Bool.false_and,
    Rl.digitsAcc_val ip hi]
  rfl

theorem core_grammar (neg : Bool) (ip fp : Str) (hd : Bool) (hi : DigitStr ip) (hf : DigitStr fp)
    (hfd : hd = false → fp = []) :
    Rl.core neg (ip ++ (if hd then 46 :: fp else [])) =
      if ip = [] ∧ fp = [] then none
      else some (.real (neg && (normReal (digitsVal (ip ++ fp)) fp.length).1 != 0)
        (normReal (digitsVal (ip ++ fp)) fp.length).1 (normReal (digitsVal (ip ++ fp)) fp.length).2) := by
  cases hd with
  | true =>
    simp only [if_true]
    by_cases he : ip = [] ∧ fp = []
    · obtain ⟨e1, e2⟩ := he
      subst e1; subst e2
      rfl
    · rw [if_neg he]
      apply Rl.core_body neg ip fp hi hf
      by_cases h1 : ip = []
      · exact Or.inr (fun h2 => he ⟨h1, h2⟩)
      · exact Or.inl h1
  | false =>
    have e := hfd rfl
    subst e
    simp only [Bool.false_eq_true, if_false, List.append_nil, and_true, List.length_nil]
    by_cases he : ip = []
    · subst he; rfl
    · rw [if_neg he, core_nopoint neg ip hi he]
      rfl

/-- `strconv.ParseFloat` as modelled, on EVERY text of the grammar: an error iff there is no digit at all,
else the exact decimal value  (-1)^neg · digitsVal (ip ++ fp) / 10^|fp|  in normal form -/
theorem parseReal_grammar (sign ip fp : Str) (hd : Bool) (hs : sign = [] ∨ sign = [43] ∨ sign = [45])
    (hi : DigitStr ip) (hf : DigitStr fp) (hfd : hd = false → fp = []) :
    parseReal (sign ++ ip ++ (if hd then 46 :: fp else [])) =
      if ip = [] ∧ fp = [] then none
      else some (.real (decide (sign = [45]) && (normReal (digitsVal (ip ++ fp)) fp.length).1 != 0)
        (normReal (digitsVal (ip ++ fp)) fp.length).1 (normReal (digitsVal (ip ++ fp)) fp.length).2) := by
  have hc := fun neg => core_grammar neg ip fp hd hi hf hfd
  rcases hs with e | e | e
  · subst e
    have hdec : decide (([] : Str) = [45]) = false := by decide
    rw [hdec, ← hc false]
    simp only [List.nil_append]
    cases ip with
    | nil =>
      cases hd with
      | true => exact Rl.parseReal_nosign 46 fp (by decide) (by decide)
      | false => rfl
    | cons c ip' =>
      have hb := Rl.digit_bounds (Rl.DigitStr.head hi)
      exact Rl.parseReal_nosign c _ (by omega) (by omega)
  · subst e
    have hdec : decide (([43] : Str) = [45]) = false := by decide
    rw [hdec, ← hc false]
    exact Rl.parseReal_plus _
  · subst e
    have hdec : decide (([45] : Str) = [45]) = true := by decide
    rw [hdec, ← hc true]
    exact Rl.parseReal_minus _

/-! #### `strconv.ParseInt` on the grammar -/

/-- `strconv.ParseInt` as modelled, on every text of the grammar without a point: a value iff there is a digit
and the number lies in the int64 range -/
theorem atoi_grammar (sign ip : Str) (hs : sign = [] ∨ sign = [43] ∨ sign = [45]) (hi : DigitStr ip) :
    atoi (sign ++ ip) =
      if ip = [] then none
      else if sign = [45] then (if digitsVal ip ≤ maxInt64 + 1 then some (-(digitsVal ip : Int)) else none)
      else (if digitsVal ip ≤ maxInt64 then some (digitsVal ip : Int) else none) := by
  have hv := Rl.digitsAcc_val ip hi
  cases ip with
  | nil =>
    rcases hs with e | e | e <;> subst e <;> rfl
  | cons c ip' =>
    have hb := Rl.digit_bounds (Rl.DigitStr.head hi)
    have h43 : c ≠ 43 := by omega
    have h45 : c ≠ 45 := by omega
    rcases hs with e | e | e
    · subst e
      simp only [List.nil_append]
      unfold atoi
      split
      rename_i neg ds heq
      split at heq
      · rename_i h'; simp at h'; omega
      · rename_i h'; simp at h'; omega
      · simp at heq
        obtain ⟨hn, hds⟩ := heq
        subst hn; subst hds
        simp [hv]
    · subst e
      simp [atoi, hv]
    · subst e
      simp [atoi, hv]

/-- what the document-level parser makes of an integer token when no reference follows (`s.peek` is not an
integer): the integer if it fits int64, otherwise the real number with the same digits; an error iff no digit -/
theorem integer_token_value (s : PState) (sign ip : Str) (hs : sign = [] ∨ sign = [43] ∨ sign = [45])
    (hi : DigitStr ip) (hp : ∀ v, s.peek ≠ some (.integer v)) :
    parseNumber s (sign ++ ip) =
      if ip = [] then .error .err
      else match atoi (sign ++ ip) with
        | some i => .ok (.int i, s.next)
        | none => .ok (.real (decide (sign = [45]) && digitsVal ip != 0) (digitsVal ip) 0, s.next) := by
  have hr := parseReal_grammar sign ip [] false hs hi digitStr_nil (fun _ => rfl)
  simp only [Bool.false_eq_true, if_false, List.append_nil, and_true, List.length_nil, normReal_zero] at hr
  have ha := atoi_grammar sign ip hs hi
  unfold parseNumber
  by_cases he : ip = []
  · rw [if_pos he] at hr ha
    rw [if_pos he, ha, hr]
  · rw [if_neg he] at hr
    rw [if_neg he]
    cases hat : atoi (sign ++ ip) with
    | none =>
      simp only [hr]
    | some i =>
      cases hpk : s.peek with
      | none => rfl
      | some t =>
        cases t with
        | integer v => exact absurd hpk (hp v)
        | _ => rfl

/-! #### the two parsers -/

/-- both parsers read the same number from the same bytes, every input: whenever `contentstream.parseNumber`
succeeds, the document-level token has the text the content-stream parser converted, an integer token gives that
integer (`atoi`), a real token that real (`parseReal`), and both stop at the same byte -/
theorem cs_number_agrees (b : Nat) (r : Str) (o : Obj) (rest : Str)
    (hb : b = 45 ∨ b = 43 ∨ b = 46 ∨ isDigit b = true) (h : CS.parseNumber (b :: r) = some (o, rest)) :
    (∃ text i, nextToken (b :: r) = some (.integer text, rest) ∧ atoi text = some i ∧ o = .int i) ∨
    (∃ text, nextToken (b :: r) = some (.real text, rest) ∧ parseReal text = some o) := by
  have ht := number_token b r hb
  rw [Prog.cs_parseNumber_lexeme b r hb] at h
  simp only at ht
  cases hd : (numLoop false true (b :: r)).2.1 with
  | true =>
    rw [hd] at h ht
    simp only [if_true] at h ht
    cases hpr : parseReal (numLoop false true (b :: r)).1 with
    | none => rw [hpr] at h; cases h
    | some o' =>
      rw [hpr] at h
      simp only [Option.some.injEq, Prod.mk.injEq] at h
      obtain ⟨e1, e2⟩ := h
      subst e1; subst e2
      exact Or.inr ⟨_, ht, hpr⟩
  | false =>
    rw [hd] at h ht
    simp only [Bool.false_eq_true, if_false] at h ht
    cases hat : atoi (numLoop false true (b :: r)).1 with
    | none => rw [hat] at h; cases h
    | some i =>
      rw [hat] at h
      simp only [Option.some.injEq, Prod.mk.injEq] at h
      obtain ⟨e1, e2⟩ := h
      subst e1; subst e2
      exact Or.inl ⟨_, i, ht, hat, rfl⟩

/-- the only texts the content-stream parser rejects and the document-level parser accepts: integers outside
int64 (read as reals by the document-level parser) -/
theorem cs_rejects_only_big_integers (b : Nat) (r : Str)
    (hb : b = 45 ∨ b = 43 ∨ b = 46 ∨ isDigit b = true) (h : CS.parseNumber (b :: r) = none) :
    let p := numLoop false true (b :: r)
    (p.2.1 = true ∧ parseReal p.1 = none) ∨ (p.2.1 = false ∧ atoi p.1 = none) := by
  intro p
  rw [Prog.cs_parseNumber_lexeme b r hb] at h
  cases hd : p.2.1 with
  | true =>
    have hd' : (numLoop false true (b :: r)).2.1 = true := hd
    rw [hd'] at h
    simp only [if_true] at h
    cases hpr : parseReal p.1 with
    | none => exact Or.inl ⟨rfl, rfl⟩
    | some o' =>
      have hpr' : parseReal (numLoop false true (b :: r)).1 = some o' := hpr
      rw [hpr'] at h; cases h
  | false =>
    have hd' : (numLoop false true (b :: r)).2.1 = false := hd
    rw [hd'] at h
    simp only [Bool.false_eq_true, if_false] at h
    cases hat : atoi p.1 with
    | none => exact Or.inr ⟨rfl, rfl⟩
    | some i =>
      have hat' : atoi (numLoop false true (b :: r)).1 = some i := hat
      rw [hat'] at h; cases h

end Num
end Tabula.Pdf
