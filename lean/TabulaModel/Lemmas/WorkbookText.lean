import TabulaModel.Lemmas.Workbook
/-!
The lines of `TextWithOptions` over several sheets (C17): blocks joined by a blank line.
-/
namespace Tabula.Wb
open Tabula.A1 Tabula.Sheet

/-- splitting at a separator splits the two sides independently -/
theorem splitAux_append_sep (sep : Nat) (a b cur : Str) :
    splitAux sep (a ++ sep :: b) cur = splitAux sep a cur ++ splitAux sep b [] := by
  induction a generalizing cur with
  | nil => simp [splitAux]
  | cons c a ih =>
    simp only [List.cons_append, splitAux]
    split
    · rw [ih]; rfl
    · exact ih _

theorem splitOn_append_sep (sep : Nat) (a b : Str) :
    splitOn sep (a ++ sep :: b) = splitOn sep a ++ splitOn sep b := splitAux_append_sep sep a b []

/-- the line lists of the blocks, a blank line between consecutive blocks -/
def joinBlocks : List (List Str) → List Str
  | [] => [[]]
  | [b] => b
  | b :: bs => b ++ [[]] ++ joinBlocks bs

/-- the lines of blocks joined by "\n\n" -/
theorem splitOn_blocks (bs : List Str) :
    splitOn 10 (intercalate [10, 10] bs) = joinBlocks (bs.map (splitOn 10)) := by
  induction bs with
  | nil => rfl
  | cons b rest ih =>
    cases rest with
    | nil => rfl
    | cons b' rest' =>
      have e : intercalate [10, 10] (b :: b' :: rest') = b ++ 10 :: (10 :: intercalate [10, 10] (b' :: rest')) := by
        simp [intercalate]
      rw [e, splitOn_append_sep]
      have e2 : splitOn 10 (10 :: intercalate [10, 10] (b' :: rest')) = [] :: splitOn 10 (intercalate [10, 10] (b' :: rest')) := by
        simp [splitOn, splitAux]
      rw [e2, ih]
      simp [joinBlocks]

/-- number of lines before block `k`: the lines of the earlier blocks and one blank line each -/
def lineOffset (pre : List (List Str)) : Nat := (pre.map fun b => b.length + 1).sum

/-- line `i` of a block sits at its offset in the joined text -/
theorem joinBlocks_get (pre : List (List Str)) (b : List Str) (post : List (List Str)) (i : Nat)
    (hi : i < b.length) : (joinBlocks (pre ++ b :: post))[lineOffset pre + i]? = b[i]? := by
  induction pre with
  | nil =>
    simp only [List.nil_append, lineOffset, List.map_nil, List.sum_nil, Nat.zero_add]
    cases post with
    | nil => rfl
    | cons p ps =>
      simp only [joinBlocks, List.append_assoc]
      rw [List.getElem?_append_left hi]
  | cons p pre ih =>
    have hne : pre ++ b :: post ≠ [] := by simp
    have e : joinBlocks (p :: (pre ++ b :: post)) = p ++ [[]] ++ joinBlocks (pre ++ b :: post) := by
      cases h : pre ++ b :: post with
      | nil => exact absurd h hne
      | cons _ _ => rfl
    simp only [List.cons_append, e, lineOffset, List.map_cons, List.sum_cons]
    rw [List.getElem?_append_right (by simp; omega)]
    have : p.length + 1 + (List.map (fun b => b.length + 1) pre).sum + i - (p ++ [[]]).length =
        lineOffset pre + i := by
      simp [lineOffset]; omega
    rw [this]; exact ih

end Tabula.Wb
