import TabulaModel.Lemmas.PdfCSProgress
import TabulaModel.Lemmas.PdfHex
import TabulaModel.Lemmas.PdfName
/-!
The token readers of both PDF parsers, characterised for EVERY input (not only for printed
spellings): hex strings, names, comments, literal strings.  Core Lean only.
-/
namespace Tabula.Pdf
namespace Gram

/-! ### byte classes -/

theorem ws_not_hex {c : Nat} (h : isWs c = true) : isHexDigit c = false := by
  simp only [isWs, Bool.or_eq_true, beq_iff_eq] at h
  cases hh : isHexDigit c with
  | false => rfl
  | true =>
    simp only [isHexDigit, Bool.or_eq_true, Bool.and_eq_true, decide_eq_true_eq] at hh
    omega

theorem hex_not_ws {c : Nat} (h : isHexDigit c = true) : isWs c = false := by
  cases hh : isWs c with
  | false => rfl
  | true => rw [ws_not_hex hh] at h; cases h

theorem hex_ne_gt {c : Nat} (h : isHexDigit c = true) : c ≠ 62 := by
  intro hc; subst hc; revert h; decide

theorem hex_not_delim {c : Nat} (h : isHexDigit c = true) : isDelim c = false := by
  simp only [isHexDigit, Bool.or_eq_true, Bool.and_eq_true, decide_eq_true_eq] at h
  cases hh : isDelim c with
  | false => rfl
  | true =>
    simp only [isDelim, Bool.or_eq_true, beq_iff_eq] at hh
    omega

/-! ### hex strings -/

/-- the body of a hex string: white space and hex digits only -/
def HexBody (body : Str) : Prop := ∀ c ∈ body, isWs c = true ∨ isHexDigit c = true

/-- the digits of a body -/
def hexDigitsOf (body : Str) : Str := body.filter (fun c => !isWs c)

theorem hexBody_nil : HexBody [] := by intro c hc; cases hc

theorem hexBody_cons {c : Nat} {body : Str} (hc : isWs c = true ∨ isHexDigit c = true) (hb : HexBody body) :
    HexBody (c :: body) := by
  intro d hd
  rcases List.mem_cons.mp hd with rfl | hd
  · exact hc
  · exact hb d hd

theorem hexBody_head {c : Nat} {body : Str} (h : HexBody (c :: body)) : isWs c = true ∨ isHexDigit c = true :=
  h c (by simp)

theorem hexBody_tail {c : Nat} {body : Str} (h : HexBody (c :: body)) : HexBody body :=
  fun d hd => h d (by simp [hd])

theorem hexDigitsOf_nil : hexDigitsOf [] = [] := rfl

theorem hexDigitsOf_ws {c : Nat} (body : Str) (h : isWs c = true) : hexDigitsOf (c :: body) = hexDigitsOf body := by
  simp [hexDigitsOf, h]

theorem hexDigitsOf_nws {c : Nat} (body : Str) (h : isWs c = false) :
    hexDigitsOf (c :: body) = c :: hexDigitsOf body := by
  simp [hexDigitsOf, h]

/-- the statement of the task's hint -/
theorem hexDigitsOf_cons (c : Nat) (body : Str) :
    hexDigitsOf (c :: body) = if isWs c then hexDigitsOf body else c :: hexDigitsOf body := by
  cases h : isWs c with
  | true => simp [hexDigitsOf_ws body h]
  | false => simp [hexDigitsOf_nws body h]

/-- the document-level reader runs through a body -/
theorem hexLoop_body (body rest : Str) (hb : HexBody body) :
    hexLoop (body ++ rest) = pre (hexDigitsOf body) (hexLoop rest) := by
  induction body with
  | nil => rw [hexDigitsOf_nil, pre_nil]; rfl
  | cons c body ih =>
    have ih' := ih (hexBody_tail hb)
    rw [List.cons_append]
    cases hw : isWs c with
    | true => rw [hexLoop_ws c _ hw, hexDigitsOf_ws body hw, ih']
    | false =>
      have hx : isHexDigit c = true := by
        rcases hexBody_head hb with h | h
        · rw [hw] at h; cases h
        · exact h
      rw [hexLoop_digit c _ (hex_ne_gt hx) hw hx, hexDigitsOf_nws body hw, ih', pre_pre]
      rfl

/-- **`readHexString`, every input**: it succeeds exactly on `body >` with a body of white space and hex digits
(any number of digits, odd included), returns the digits in order, and leaves what follows the `>` -/
theorem hexLoop_iff (inp ds r : Str) :
    hexLoop inp = some (ds, r) ↔ ∃ body, inp = body ++ 62 :: r ∧ HexBody body ∧ ds = hexDigitsOf body := by
  constructor
  · intro h
    induction inp generalizing ds with
    | nil => simp [hexLoop] at h
    | cons c r0 ih =>
      by_cases h1 : c = 62
      · subst h1
        rw [hexLoop_end] at h
        cases h
        exact ⟨[], rfl, hexBody_nil, rfl⟩
      cases h2 : isWs c with
      | true =>
        rw [hexLoop_ws c r0 h2] at h
        obtain ⟨body, e, hb, hd⟩ := ih ds h
        exact ⟨c :: body, by rw [e]; rfl, hexBody_cons (Or.inl h2) hb, by rw [hexDigitsOf_ws body h2]; exact hd⟩
      | false =>
        obtain ⟨h3, ds', hds, h'⟩ := hexLoop_inv c r0 ds r h1 h2 h
        obtain ⟨body, e, hb, hd⟩ := ih ds' h'
        exact ⟨c :: body, by rw [e]; rfl, hexBody_cons (Or.inr h3) hb,
          by rw [hexDigitsOf_nws body h2, hds, hd]⟩
  · rintro ⟨body, rfl, hb, rfl⟩
    rw [hexLoop_body body _ hb, hexLoop_end]
    simp [pre]

/-! #### the value of the digits -/

theorem hexPairs_cons2 (a b : Nat) (r : Str) : hexPairs (a :: b :: r) = (hexValue a * 16 + hexValue b) :: hexPairs r := by
  rw [hexPairs]

theorem hexPairs_one (a : Nat) : hexPairs [a] = [hexValue a * 16] := by
  rw [hexPairs]

theorem hexPairs_nil : hexPairs [] = [] := by
  rw [hexPairs]

/-- the value: ⌈n/2⌉ bytes -/
theorem hexPairs_length (ds : Str) : (hexPairs ds).length = (ds.length + 1) / 2 := by
  induction ds using hexPairs.induct with
  | case1 a b r ih => rw [hexPairs_cons2]; simp only [List.length_cons]; omega
  | case2 a => rw [hexPairs_one]; simp
  | case3 => rw [hexPairs_nil]; simp

/-- byte i is 16·digit(2i) + digit(2i+1), a missing last digit counts as 0 -/
theorem hexPairs_get (ds : Str) (i : Nat) (h : i < (hexPairs ds).length) :
    (hexPairs ds)[i]? = some (hexValue (ds.getD (2 * i) 48) * 16 + hexValue (ds.getD (2 * i + 1) 48)) := by
  induction ds using hexPairs.induct generalizing i with
  | case1 a b r ih =>
    rw [hexPairs_cons2] at h ⊢
    cases i with
    | zero => simp
    | succ j =>
      simp only [List.length_cons, Nat.add_lt_add_iff_right] at h
      have e1 : 2 * (j + 1) = (2 * j) + 1 + 1 := by omega
      have e2 : 2 * (j + 1) + 1 = (2 * j + 1) + 1 + 1 := by omega
      rw [List.getElem?_cons_succ, ih j h, e2, e1]
      simp only [List.getD_cons_succ]
  | case2 a =>
    rw [hexPairs_one] at h ⊢
    cases i with
    | zero =>
      have : hexValue 48 = 0 := by decide
      simp [this]
    | succ j => simp at h
  | case3 => rw [hexPairs_nil] at h; simp at h

/-- an even number of digits followed by one more: the last byte is that digit times 16 -/
theorem hexPairs_odd (ds : Str) (d : Nat) (h : ds.length % 2 = 0) :
    hexPairs (ds ++ [d]) = hexPairs ds ++ [hexValue d * 16] := by
  induction ds using hexPairs.induct with
  | case1 a b r ih =>
    simp only [List.length_cons] at h
    rw [List.cons_append, List.cons_append, hexPairs_cons2, hexPairs_cons2, ih (by omega)]
    rfl
  | case2 a => simp at h
  | case3 => rw [hexPairs_nil]; exact hexPairs_one d

/-! #### the content-stream reader -/

/-- `readHexString` without the error at the end of the data: the digits read so far are returned -/
def hexScan : Str → Option (Str × Str)
  | [] => some ([], [])
  | b :: r =>
    if b = 62 then some ([], r)
    else if isWs b then hexScan r
    else if isHexDigit b then pre [b] (hexScan r)
    else none

/-- digits to bytes in a reader's result -/
def pairsOf : Option (Str × Str) → Option (Str × Str)
  | none => none
  | some (ds, r) => some (hexPairs ds, r)

theorem hexScan_nil : hexScan [] = some ([], []) := by rw [hexScan]

theorem hexScan_end (r : Str) : hexScan (62 :: r) = some ([], r) := by simp [hexScan]

theorem hexScan_ws (c : Nat) (r : Str) (h : isWs c = true) : hexScan (c :: r) = hexScan r := by
  have := isWs_ne c h
  simp [hexScan, this, h]

theorem hexScan_digit (c : Nat) (r : Str) (h3 : isHexDigit c = true) : hexScan (c :: r) = pre [c] (hexScan r) := by
  simp [hexScan, hex_ne_gt h3, hex_not_ws h3, h3]

theorem hexScan_bad (c : Nat) (r : Str) (h1 : c ≠ 62) (h2 : isWs c = false) (h3 : isHexDigit c = false) :
    hexScan (c :: r) = none := by
  simp [hexScan, h1, h2, h3]

theorem hexScan_skipWs (s : Str) : hexScan (skipWs s) = hexScan s := by
  induction s with
  | nil => rfl
  | cons c s ih =>
    simp only [skipWs]
    split
    · next h => rw [ih, hexScan_ws c s h]
    · rfl

theorem hexScan_body (body rest : Str) (hb : HexBody body) :
    hexScan (body ++ rest) = pre (hexDigitsOf body) (hexScan rest) := by
  induction body with
  | nil => rw [hexDigitsOf_nil, pre_nil]; rfl
  | cons c body ih =>
    have ih' := ih (hexBody_tail hb)
    rw [List.cons_append]
    cases hw : isWs c with
    | true => rw [hexScan_ws c _ hw, hexDigitsOf_ws body hw, ih']
    | false =>
      have hx : isHexDigit c = true := by
        rcases hexBody_head hb with h | h
        · rw [hw] at h; cases h
        · exact h
      rw [hexScan_digit c _ hx, hexDigitsOf_nws body hw, ih', pre_pre]
      rfl

/-- `hexScan`, every input -/
theorem hexScan_iff (inp ds r : Str) :
    hexScan inp = some (ds, r) ↔
      (∃ body, inp = body ++ 62 :: r ∧ HexBody body ∧ ds = hexDigitsOf body) ∨
      (r = [] ∧ HexBody inp ∧ ds = hexDigitsOf inp) := by
  constructor
  · intro h
    induction inp generalizing ds with
    | nil =>
      rw [hexScan_nil] at h
      cases h
      exact Or.inr ⟨rfl, hexBody_nil, rfl⟩
    | cons c r0 ih =>
      by_cases h1 : c = 62
      · subst h1
        rw [hexScan_end] at h
        cases h
        exact Or.inl ⟨[], rfl, hexBody_nil, rfl⟩
      cases h2 : isWs c with
      | true =>
        rw [hexScan_ws c r0 h2] at h
        rcases ih ds h with ⟨body, e, hb, hd⟩ | ⟨hr, hb, hd⟩
        · exact Or.inl ⟨c :: body, by rw [e]; rfl, hexBody_cons (Or.inl h2) hb,
            by rw [hexDigitsOf_ws body h2]; exact hd⟩
        · exact Or.inr ⟨hr, hexBody_cons (Or.inl h2) hb, by rw [hexDigitsOf_ws r0 h2]; exact hd⟩
      | false =>
        cases h3 : isHexDigit c with
        | false => rw [hexScan_bad c r0 h1 h2 h3] at h; cases h
        | true =>
          rw [hexScan_digit c r0 h3] at h
          obtain ⟨ds', h', hds⟩ := Prog.pre_some h
          rcases ih ds' h' with ⟨body, e, hb, hd⟩ | ⟨hr, hb, hd⟩
          · exact Or.inl ⟨c :: body, by rw [e]; rfl, hexBody_cons (Or.inr h3) hb,
              by rw [hexDigitsOf_nws body h2, hds, hd]; rfl⟩
          · exact Or.inr ⟨hr, hexBody_cons (Or.inr h3) hb, by rw [hexDigitsOf_nws r0 h2, hds, hd]; rfl⟩
  · rintro (⟨body, rfl, hb, rfl⟩ | ⟨rfl, hb, rfl⟩)
    · rw [hexScan_body body _ hb, hexScan_end]
      simp [pre]
    · have := hexScan_body inp [] hb
      rw [List.append_nil, hexScan_nil] at this
      rw [this]
      simp [pre]

theorem pairsOf_pre2 (a b : Nat) (x : Option (Str × Str)) :
    pairsOf (pre [a] (pre [b] x)) = pre [hexValue a * 16 + hexValue b] (pairsOf x) := by
  cases x with
  | none => rfl
  | some p =>
    obtain ⟨ds, r⟩ := p
    simp only [pre, pairsOf, List.cons_append, List.nil_append, hexPairs_cons2]

/-! one step of `CS.hexLoop`, the cases PdfHex.lean does not have -/

theorem cs_hexLoop_nil : CS.hexLoop [] = some ([], []) := by
  rw [CS.hexLoop.eq_def]

theorem cs_hexLoop_bad (c : Nat) (r : Str) (h1 : c ≠ 62) (h2 : isWs c = false) (h3 : isHexDigit c = false) :
    CS.hexLoop (c :: r) = none := by
  rw [CS.hexLoop.eq_def]; simp [h1, h2, h3]

theorem cs_hexLoop_d0 (c : Nat) (h3 : isHexDigit c = true) : CS.hexLoop [c] = some ([hexValue c * 16], []) := by
  rw [CS.hexLoop.eq_def]; simp [hex_ne_gt h3, hex_not_ws h3, h3]

theorem cs_hexLoop_dbad (c c2 : Nat) (h3 : isHexDigit c = true)
    (g1 : c2 ≠ 62) (g2 : isWs c2 = false) (g3 : isHexDigit c2 = false) (r2 : Str) :
    CS.hexLoop (c :: c2 :: r2) = none := by
  rw [CS.hexLoop.eq_def]; simp [hex_ne_gt h3, hex_not_ws h3, h3, g1, g2, g3]

theorem cs_hexLoop_dw0 (c c2 : Nat) (h3 : isHexDigit c = true) (g2 : isWs c2 = true) (r2 : Str)
    (hs : skipWs r2 = []) : CS.hexLoop (c :: c2 :: r2) = some ([hexValue c * 16], []) := by
  have g1 := isWs_ne c2 g2
  rw [CS.hexLoop.eq_def]; simp only [hex_ne_gt h3, hex_not_ws h3, h3, g1, g2]
  simp
  split
  · rfl
  · next c3 r3 h => rw [hs] at h; cases h

theorem cs_hexLoop_dwbad (c c2 c3 : Nat) (h3 : isHexDigit c = true) (g2 : isWs c2 = true) (r2 r3 : Str)
    (hs : skipWs r2 = c3 :: r3) (k1 : c3 ≠ 62) (k3 : isHexDigit c3 = false) :
    CS.hexLoop (c :: c2 :: r2) = none := by
  have g1 := isWs_ne c2 g2
  rw [CS.hexLoop.eq_def]; simp only [hex_ne_gt h3, hex_not_ws h3, h3, g1, g2]
  simp
  split
  · next h => rw [hs] at h; cases h
  · next c3' r3' h => rw [hs] at h; cases h; simp [k1, k3]

/-- `contentstream.parseHexString` is `readHexString` without the end-of-data error, followed by the
document-level parser's digits-to-bytes conversion — for every input -/
theorem cs_hexLoop_eq (inp : Str) : CS.hexLoop inp = pairsOf (hexScan inp) := by
  generalize hn : inp.length = n
  induction n using Nat.strongRecOn generalizing inp with
  | _ n ih =>
  cases inp with
  | nil => rw [cs_hexLoop_nil, hexScan_nil]; rfl
  | cons c r0 =>
  by_cases h1 : c = 62
  · subst h1
    rw [cs_hexLoop_end, hexScan_end]; rfl
  cases h2 : isWs c with
  | true =>
    rw [cs_hexLoop_ws c r0 h2, hexScan_ws c r0 h2]
    exact ih r0.length (by simp at hn; omega) r0 rfl
  | false =>
  cases h3 : isHexDigit c with
  | false => rw [cs_hexLoop_bad c r0 h1 h2 h3, hexScan_bad c r0 h1 h2 h3]; rfl
  | true =>
  rw [hexScan_digit c r0 h3]
  cases r0 with
  | nil => rw [cs_hexLoop_d0 c h3, hexScan_nil]; simp [pre, pairsOf, hexPairs_one]
  | cons c2 r2 =>
  by_cases g1 : c2 = 62
  · subst g1
    rw [cs_hexLoop_d1 c h1 h2 h3, hexScan_end]; simp [pre, pairsOf, hexPairs_one]
  cases g2 : isWs c2 with
  | true =>
    rw [hexScan_ws c2 r2 g2, ← hexScan_skipWs]
    have hle := CS.skipWs_le r2
    cases hs : skipWs r2 with
    | nil => rw [cs_hexLoop_dw0 c c2 h3 g2 r2 hs, hexScan_nil]; simp [pre, pairsOf, hexPairs_one]
    | cons c3 r3 =>
    rw [hs] at hle
    by_cases k1 : c3 = 62
    · subst k1
      rw [cs_hexLoop_dw1 c c2 h1 h2 h3 g2 r2 _ hs, hexScan_end]; simp [pre, pairsOf, hexPairs_one]
    have k2 := skipWs_head r2 c3 r3 hs
    cases k3 : isHexDigit c3 with
    | false => rw [cs_hexLoop_dwbad c c2 c3 h3 g2 r2 r3 hs k1 k3, hexScan_bad c3 r3 k1 k2 k3]; rfl
    | true =>
      rw [cs_hexLoop_dw2 c c2 c3 h1 h2 h3 g2 r2 r3 hs k1 k3, hexScan_digit c3 r3 k3, pairsOf_pre2,
        ih r3.length (by simp at hn hle; omega) r3 rfl]
  | false =>
    cases g3 : isHexDigit c2 with
    | false => rw [cs_hexLoop_dbad c c2 h3 g1 g2 g3, hexScan_bad c2 r2 g1 g2 g3]; rfl
    | true =>
      rw [cs_hexLoop_d2 c c2 h1 h2 h3 g1 g2 g3, hexScan_digit c2 r2 g3, pairsOf_pre2,
        ih r2.length (by simp at hn; omega) r2 rfl]

theorem pairsOf_some {x : Option (Str × Str)} {v r : Str} :
    pairsOf x = some (v, r) ↔ ∃ ds, x = some (ds, r) ∧ v = hexPairs ds := by
  cases x with
  | none => simp [pairsOf]
  | some p =>
    obtain ⟨ds, r'⟩ := p
    simp only [pairsOf, Option.some.injEq, Prod.mk.injEq]
    constructor
    · rintro ⟨rfl, rfl⟩; exact ⟨ds, ⟨rfl, rfl⟩, rfl⟩
    · rintro ⟨ds', ⟨rfl, rfl⟩, rfl⟩; exact ⟨rfl, rfl⟩

/-- **`contentstream.parseHexString`, every input**: it succeeds exactly on `body >` (same bodies, same value as
the document-level parser computes) or on a body that runs to the end of the data without `>` (which the
document-level lexer rejects) -/
theorem cs_hexLoop_iff (inp v r : Str) :
    CS.hexLoop inp = some (v, r) ↔
      (∃ body, inp = body ++ 62 :: r ∧ HexBody body ∧ v = hexPairs (hexDigitsOf body)) ∨
      (r = [] ∧ HexBody inp ∧ v = hexPairs (hexDigitsOf inp)) := by
  rw [cs_hexLoop_eq, pairsOf_some]
  constructor
  · rintro ⟨ds, h, rfl⟩
    rcases (hexScan_iff inp ds r).mp h with ⟨body, e, hb, rfl⟩ | ⟨hr, hb, rfl⟩
    · exact Or.inl ⟨body, e, hb, rfl⟩
    · exact Or.inr ⟨hr, hb, rfl⟩
  · rintro (⟨body, e, hb, rfl⟩ | ⟨hr, hb, rfl⟩)
    · exact ⟨hexDigitsOf body, (hexScan_iff inp _ r).mpr (Or.inl ⟨body, e, hb, rfl⟩), rfl⟩
    · exact ⟨hexDigitsOf inp, (hexScan_iff inp _ r).mpr (Or.inr ⟨hr, hb, rfl⟩), rfl⟩

/-- the document-level lexer rejects a body that runs to the end of the data -/
theorem hexLoop_unterminated (inp : Str) (hb : HexBody inp) : hexLoop inp = none := by
  have := hexLoop_body inp [] hb
  rw [List.append_nil] at this
  rw [this]; rfl

/-! ### names -/

/-- regular characters: neither white space nor delimiter -/
def isRegular (c : Nat) : Bool := !isWs c && !isDelim c

theorem regular_of {c : Nat} (h1 : isWs c = false) (h2 : isDelim c = false) : isRegular c = true := by
  simp [isRegular, h1, h2]

theorem not_regular_of {c : Nat} (h : (isWs c || isDelim c) = true) : isRegular c = false := by
  cases h1 : isWs c <;> cases h2 : isDelim c <;> simp_all [isRegular]

theorem hex_regular {c : Nat} (h : isHexDigit c = true) : isRegular c = true :=
  regular_of (hex_not_ws h) (hex_not_delim h)

theorem hash_regular : isRegular 35 = true := by decide

theorem hexpair_split {a b : Nat} (h : (isHexDigit a && isHexDigit b) = true) :
    isHexDigit a = true ∧ isHexDigit b = true := by
  simpa using h

/-- the classification of the head used by both name readers -/
theorem head_cases (c : Nat) :
    ((isWs c || isDelim c) = true ∧ isRegular c = false) ∨
    (isWs c = false ∧ isDelim c = false ∧ isRegular c = true) := by
  cases h1 : isWs c <;> cases h2 : isDelim c <;> simp [isRegular, h1, h2]

theorem nameLoop_rest : ∀ n (inp : Str), inp.length ≤ n → ∀ v r, nameLoop inp = some (v, r) →
    r = inp.dropWhile isRegular := by
  intro n
  induction n with
  | zero =>
    intro inp hl v r h
    cases inp with
    | nil => simp [nameLoop] at h; obtain ⟨_, rfl⟩ := h; rfl
    | cons _ _ => simp at hl
  | succ n ih =>
    intro inp hl v r h
    cases inp with
    | nil => simp [nameLoop] at h; obtain ⟨_, rfl⟩ := h; rfl
    | cons c rest =>
      simp only [List.length_cons] at hl
      rcases head_cases c with ⟨hterm, hreg⟩ | ⟨hw, hd, hreg⟩
      · rw [Nm.nameLoop_term c rest hterm] at h
        cases h
        simp [hreg]
      · by_cases h35 : c = 35
        · subst h35
          match rest, hl, h with
          | [], _, h => rw [Nm.nameLoop_hash0] at h; cases h
          | [a], _, h => rw [Nm.nameLoop_hash1] at h; cases h
          | h1 :: h2 :: r', hl, h =>
            rw [Nm.nameLoop_hash] at h
            split at h
            · next hh =>
              obtain ⟨v', h', _⟩ := Prog.pre_some h
              have := ih r' (by simp only [List.length_cons] at hl; omega) _ _ h'
              obtain ⟨x1, x2⟩ := hexpair_split hh
              simp only [List.dropWhile_cons, hash_regular, hex_regular x1, hex_regular x2, if_true]
              exact this
            · cases h
        · rw [Nm.nameLoop_raw c rest hw hd h35] at h
          obtain ⟨v', h', _⟩ := Prog.pre_some h
          have := ih rest (by omega) _ _ h'
          simp only [List.dropWhile_cons, hreg, if_true]
          exact this

/-- **`readName`, every input**: when it succeeds it has consumed exactly the run of regular characters -/
theorem nameLoop_consumes (inp v r : Str) (h : nameLoop inp = some (v, r)) :
    r = inp.dropWhile isRegular ∧ inp = inp.takeWhile isRegular ++ r := by
  have := nameLoop_rest _ inp (Nat.le_refl _) v r h
  exact ⟨this, by rw [this, List.takeWhile_append_dropWhile]⟩

theorem cs_nameLoop_rest : ∀ n (inp : Str), inp.length ≤ n → (CS.nameLoop inp).2 = inp.dropWhile isRegular := by
  intro n
  induction n with
  | zero =>
    intro inp hl
    cases inp with
    | nil => rw [CS.nameLoop]; rfl
    | cons _ _ => simp at hl
  | succ n ih =>
    intro inp hl
    cases inp with
    | nil => rw [CS.nameLoop]; rfl
    | cons c rest =>
      simp only [List.length_cons] at hl
      rcases head_cases c with ⟨hterm, hreg⟩ | ⟨hw, hd, hreg⟩
      · rw [Nm.cs_nameLoop_term c rest hterm]
        simp [hreg]
      · by_cases h35 : c = 35
        · subst h35
          by_cases hx : ∃ h1 h2 r', rest = h1 :: h2 :: r' ∧ (isHexDigit h1 && isHexDigit h2) = true
          · obtain ⟨h1, h2, r', rfl, hh⟩ := hx
            rw [Nm.cs_nameLoop_hash h1 h2 r' hh]
            simp only [List.length_cons] at hl
            obtain ⟨x1, x2⟩ := hexpair_split hh
            simp only [List.dropWhile_cons, hash_regular, hex_regular x1, hex_regular x2, if_true]
            exact ih r' (by omega)
          · rw [Prog.cs_nameLoop_hash_keep rest (by
              intro h1 h2 r' he
              cases hh : (isHexDigit h1 && isHexDigit h2) with
              | false => rfl
              | true => exact absurd ⟨h1, h2, r', he, hh⟩ hx)]
            simp only [List.dropWhile_cons, hash_regular, if_true]
            exact ih rest (by omega)
        · rw [Nm.cs_nameLoop_raw c rest hw hd h35]
          simp only [List.dropWhile_cons, hreg, if_true]
          exact ih rest (by omega)

/-- … and so has `contentstream.parseName`, which never fails -/
theorem cs_nameLoop_consumes (inp : Str) : (CS.nameLoop inp).2 = inp.dropWhile isRegular :=
  cs_nameLoop_rest _ inp (Nat.le_refl _)

/-- a run without `#` is the name itself, for both parsers -/
theorem name_plain (inp : Str) (h : 35 ∉ inp.takeWhile isRegular) :
    nameLoop inp = some (inp.takeWhile isRegular, inp.dropWhile isRegular) ∧
    CS.nameLoop inp = (inp.takeWhile isRegular, inp.dropWhile isRegular) := by
  induction inp with
  | nil => exact ⟨by simp [nameLoop], by rw [CS.nameLoop]; rfl⟩
  | cons c rest ih =>
    rcases head_cases c with ⟨hterm, hreg⟩ | ⟨hw, hd, hreg⟩
    · rw [Nm.nameLoop_term c rest hterm, Nm.cs_nameLoop_term c rest hterm]
      simp [hreg]
    · simp only [List.takeWhile_cons, hreg, if_true, List.mem_cons, not_or] at h
      have h35 : c ≠ 35 := fun e => h.1 e.symm
      obtain ⟨i1, i2⟩ := ih h.2
      rw [Nm.nameLoop_raw c rest hw hd h35, Nm.cs_nameLoop_raw c rest hw hd h35, i1, i2]
      simp [hreg, pre]

/-- the document-level reader fails exactly when some `#` (not itself part of an escape) is not followed by two
hex digits; then the content-stream reader keeps that `#` literally: the two never return different names -/
theorem name_never_two_values (inp v r : Str) (h : nameLoop inp = some (v, r)) : CS.nameLoop inp = (v, r) :=
  cs_nameLoop_agree inp v r h

/-! ### comments -/

/-- not an end-of-line byte -/
def notEol (c : Nat) : Bool := c != 10 && c != 13

theorem notEol_lf : notEol 10 = false := by decide
theorem notEol_cr : notEol 13 = false := by decide
theorem notEol_other {c : Nat} (h1 : c ≠ 10) (h2 : c ≠ 13) : notEol c = true := by
  simp [notEol, h1, h2]

theorem commentBody_lf (r : Str) : commentBody (10 :: r) = ([], r) := by
  simp [commentBody]

theorem commentBody_crlf (r : Str) : commentBody (13 :: 10 :: r) = ([], r) := by
  simp [commentBody]

theorem commentBody_cr_end : commentBody [13] = ([], []) := by
  simp [commentBody]

theorem commentBody_cr (c : Nat) (r : Str) (h : c ≠ 10) : commentBody (13 :: c :: r) = ([], c :: r) := by
  simp [commentBody, h]

theorem commentBody_other (c : Nat) (r : Str) (h1 : c ≠ 10) (h2 : c ≠ 13) :
    commentBody (c :: r) = (c :: (commentBody r).1, (commentBody r).2) := by
  simp [commentBody, h1, h2]

/-- the text of a comment: everything up to the first CR or LF (or the end) -/
theorem commentBody_text (r : Str) : (commentBody r).1 = r.takeWhile notEol := by
  induction r with
  | nil => rfl
  | cons c r ih =>
    by_cases h10 : c = 10
    · subst h10; rw [commentBody_lf]; simp [notEol_lf]
    by_cases h13 : c = 13
    · subst h13
      cases r with
      | nil => rw [commentBody_cr_end]; simp [notEol_cr]
      | cons d r' =>
        by_cases hd : d = 10
        · subst hd; rw [commentBody_crlf]; simp [notEol_cr]
        · rw [commentBody_cr d r' hd]; simp [notEol_cr]
    rw [commentBody_other c r h10 h13]
    simp only [List.takeWhile_cons, notEol_other h10 h13, if_true, ih]

/-- what is left after a comment, from the end-of-line marker on -/
def afterEol : Str → Str
  | [] => []
  | 13 :: 10 :: rest => rest
  | _ :: rest => rest

theorem commentBody_rest (r : Str) : (commentBody r).2 = afterEol (r.dropWhile notEol) := by
  induction r with
  | nil => rfl
  | cons c r ih =>
    by_cases h10 : c = 10
    · subst h10; rw [commentBody_lf]; simp [notEol_lf, afterEol]
    by_cases h13 : c = 13
    · subst h13
      cases r with
      | nil => rw [commentBody_cr_end]; simp [notEol_cr, afterEol]
      | cons d r' =>
        by_cases hd : d = 10
        · subst hd; rw [commentBody_crlf]; simp [notEol_cr, afterEol]
        · rw [commentBody_cr d r' hd]
          simp only [List.dropWhile_cons, notEol_cr, Bool.false_eq_true, if_false]
          rw [afterEol]
          intro rest _ he
          cases he
          exact hd rfl
    rw [commentBody_other c r h10 h13]
    simp only [List.dropWhile_cons, notEol_other h10 h13, if_true, ih]

/-- **`readComment`, every input**: the text is everything up to the first CR or LF (or the end), and exactly one
end-of-line marker — CR LF, CR or LF — is consumed behind it -/
theorem commentBody_spec (r : Str) :
    (commentBody r).1 = r.takeWhile (fun c => c != 10 && c != 13) ∧
    (match r.dropWhile (fun c => c != 10 && c != 13) with
      | [] => (commentBody r).2 = []
      | 13 :: 10 :: rest => (commentBody r).2 = rest
      | _ :: rest => (commentBody r).2 = rest) := by
  refine ⟨commentBody_text r, ?_⟩
  have h := commentBody_rest r
  have e : (fun c : Nat => c != 10 && c != 13) = notEol := rfl
  rw [e]
  generalize r.dropWhile notEol = t at h
  split
  · rw [h]; rfl
  · rw [h]; rfl
  · next x => rw [h, afterEol]; exact x

/-- the content-stream parser stops in front of the marker -/
theorem skipLine_spec (r : Str) : CS.skipLine r = r.dropWhile (fun c => c != 10 && c != 13) := by
  induction r with
  | nil => rfl
  | cons c r ih =>
    simp only [CS.skipLine, List.dropWhile_cons]
    by_cases h10 : c = 10
    · subst h10; simp
    by_cases h13 : c = 13
    · subst h13; simp
    simp [h10, h13, ih]

/-! ### literal strings -/

theorem readEscape_split {inp bs r : Str} (h : readEscape inp = some (bs, r)) : ∃ p, inp = p ++ r := by
  obtain ⟨t, ht⟩ := Prog.readEscape_suffix h
  exact ⟨t, ht.symm⟩

theorem strLoop_paren : ∀ n (inp : Str), inp.length ≤ n → ∀ (d : Nat) (v r : Str),
    strLoop d inp = some (v, r) → ∃ body, inp = body ++ 41 :: r := by
  intro n
  induction n with
  | zero =>
    intro inp hl d v r h
    cases inp with
    | nil => rw [strLoop] at h; cases h
    | cons _ _ => simp at hl
  | succ n ihn =>
    intro inp hl d v r h
    cases inp with
    | nil => rw [strLoop] at h; cases h
    | cons c rest =>
      have hl' : rest.length ≤ n := by simp only [List.length_cons] at hl; omega
      rw [strLoop] at h
      split at h
      · obtain ⟨v', h', _⟩ := Prog.pre_some h
        obtain ⟨body, e⟩ := ihn rest hl' _ _ _ h'
        exact ⟨c :: body, by rw [e]; rfl⟩
      · split at h
        · next h41 =>
          split at h
          · obtain ⟨v', h', _⟩ := Prog.pre_some h
            obtain ⟨body, e⟩ := ihn rest hl' _ _ _ h'
            exact ⟨c :: body, by rw [e]; rfl⟩
          · cases h; exact ⟨[], by rw [h41]; rfl⟩
        · split at h
          · split at h
            · cases h
            · next bs r' he =>
              obtain ⟨v', h', _⟩ := Prog.pre_some h
              obtain ⟨p, hp⟩ := readEscape_split he
              have hlt := readEscape_lt he
              obtain ⟨body, e⟩ := ihn r' (by omega) _ _ _ h'
              exact ⟨c :: (p ++ body), by rw [hp, e]; simp⟩
          · obtain ⟨v', h', _⟩ := Prog.pre_some h
            obtain ⟨body, e⟩ := ihn rest hl' _ _ _ h'
            exact ⟨c :: body, by rw [e]; rfl⟩

/-- **`readString`, every input**: when it succeeds, the unread rest starts right behind a `)` of the input -/
theorem strLoop_ends_behind_paren (inp : Str) (d : Nat) (v r : Str) (h : strLoop d inp = some (v, r)) :
    ∃ body, inp = body ++ 41 :: r :=
  strLoop_paren _ inp (Nat.le_refl _) d v r h

end Gram
end Tabula.Pdf
