import TabulaModel.Model.TextAdv
import TabulaModel.Lemmas.GState
/-!
Helper lemmas about `AdvanceText`, `TJ` arrays and the displacement function of
`Model/TextAdv.lean`.
-/
namespace Tabula.GState
open Tabula Tabula.Matrix

variable {α : Type} [Lean.Grind.CommRing α]

/-- two displacements along the text x axis add up -/
theorem translate_translate_mul (a b : α) (m : Matrix α) :
    (translate a 0).mul ((translate b 0).mul m) = (translate (b + a) 0).mul m := by
  apply Matrix.ext' <;> simp only [Matrix.mul, translate] <;> grind

theorem translate_zero_mul (m : Matrix α) : (translate (0 : α) 0).mul m = m := by
  apply Matrix.ext' <;> simp only [Matrix.mul, translate] <;> grind

/-- the translation part of `T(x,0) × M` is the image of `(x,0)` under `M` -/
theorem translate_mul_origin (x : α) (m : Matrix α) :
    (((translate x 0).mul m).e, ((translate x 0).mul m).f) = m.transformPoint (x, 0) := by
  simp only [Matrix.mul, translate, transformPoint, Prod.mk.injEq]
  constructor <;> grind

/-- what a show or a `TJ` number leaves of a state: everything but the text matrix and
the ghost flag -/
def SameLine (s s' : State α) : Prop :=
  s' = s.mapText fun t => { t with tm := s'.cur.text.tm, dirty := s'.cur.text.dirty }

theorem SameLine.refl (s : State α) : SameLine s s := by
  cases s with | mk c st d =>
  cases c with | mk ctm t =>
  cases t
  rfl

theorem SameLine.trans {a b c : State α} (h1 : SameLine a b) (h2 : SameLine b c) : SameLine a c := by
  unfold SameLine at *
  rw [h2]
  conv => lhs; rw [h1]
  simp [State.mapText]

theorem sameLine_advanceText (s : State α) (tx : α) : SameLine s (s.advanceText tx) := by
  simp [SameLine, State.advanceText, State.mapText]

section
variable [DecidableEq α] [LT α] [DecidableLT α]

theorem sameLine_showText (adv : Adv α) (sid : Nat) (s : State α) : SameLine s (showText adv sid s).1 :=
  sameLine_advanceText s _

theorem sameLine_showTextArray (adv : Adv α) (items : List (TJItem α)) (s : State α) :
    SameLine s (showTextArray adv items s).1 := by
  induction items generalizing s with
  | nil => exact SameLine.refl s
  | cons it rest ih =>
    cases it with
    | str sid => exact (sameLine_showText adv sid s).trans (ih _)
    | num v => exact (sameLine_advanceText s _).trans (ih _)

theorem showTextArray_append (adv : Adv α) (a b : List (TJItem α)) (s : State α) :
    showTextArray adv (a ++ b) s =
      ((showTextArray adv b (showTextArray adv a s).1).1,
        (showTextArray adv a s).2 ++ (showTextArray adv b (showTextArray adv a s).1).2) := by
  induction a generalizing s with
  | nil => simp [showTextArray]
  | cons it rest ih =>
    cases it with
    | str sid => simp only [List.cons_append, showTextArray, ih, List.cons_append]
    | num v => simp only [List.cons_append, showTextArray, ih]

end

end Tabula.GState
