import TabulaModel.Lemmas.PackageApi
/-!
`path.Clean` / `path.Join` / `path.Dir` / `path.Base` on paths made of plain segments:
what the resolution functions of the readers compute, in terms of segment lists.
-/
namespace Tabula.Package

/-- a segment that `path.Clean` keeps as it is: not empty, not `.`, not `..`, no `/` -/
def Plain (s : Str) : Prop := s ≠ [] ∧ s ≠ sDot ∧ s ≠ sDotDot ∧ 47 ∉ s

theorem splitSlash_noslash (s : Str) (h : 47 ∉ s) : splitSlash s = [s] := by
  induction s with
  | nil => rfl
  | cons c rest ih =>
    have hc : c ≠ 47 := fun e => h (by simp [e])
    have hr : 47 ∉ rest := fun e => h (List.mem_cons_of_mem _ e)
    simp only [splitSlash, hc, if_false, ih hr]

theorem splitSlash_append (s t : Str) (h : 47 ∉ s) : splitSlash (s ++ 47 :: t) = s :: splitSlash t := by
  induction s with
  | nil => simp [splitSlash]
  | cons c rest ih =>
    have hc : c ≠ 47 := fun e => h (by simp [e])
    have hr : 47 ∉ rest := fun e => h (List.mem_cons_of_mem _ e)
    simp only [List.cons_append, splitSlash, hc, if_false, ih hr]

theorem splitSlash_joinSlash (segs : List Str) (hne : segs ≠ []) (hs : ∀ s ∈ segs, 47 ∉ s) :
    splitSlash (joinSlash segs) = segs := by
  induction segs with
  | nil => exact absurd rfl hne
  | cons s rest ih =>
    cases rest with
    | nil => simp [joinSlash, splitSlash_noslash s (hs s List.mem_cons_self)]
    | cons t rest' =>
      simp only [joinSlash]
      rw [splitSlash_append s _ (hs s List.mem_cons_self),
        ih (by simp) (fun u hu => hs u (List.mem_cons_of_mem _ hu))]

theorem joinSlash_append (sa sb : List Str) (ha : sa ≠ []) (hb : sb ≠ []) :
    joinSlash (sa ++ sb) = joinSlash sa ++ 47 :: joinSlash sb := by
  induction sa with
  | nil => exact absurd rfl ha
  | cons s rest ih =>
    cases rest with
    | nil =>
      cases sb with
      | nil => exact absurd rfl hb
      | cons t rest' => simp [joinSlash]
    | cons u rest' =>
      have := ih (by simp)
      simp only [List.cons_append, joinSlash] at this ⊢
      rw [this]
      simp [List.append_assoc]

/-- plain segments are pushed one after the other -/
theorem cleanSegs_plain (rooted : Bool) (segs st : List Str) (h : ∀ s ∈ segs, Plain s) :
    cleanSegs rooted segs st = segs.reverse ++ st := by
  induction segs generalizing st with
  | nil => rfl
  | cons s rest ih =>
    obtain ⟨h1, h2, h3, _⟩ := h s List.mem_cons_self
    have h12 : ¬ (s = [] ∨ s = sDot) := by
      intro e
      rcases e with e | e
      · exact h1 e
      · exact h2 e
    simp only [cleanSegs, h12, h3, if_false]
    rw [ih _ (fun u hu => h u (List.mem_cons_of_mem _ hu))]
    simp

/-- a plain segment is pushed -/
theorem cleanSegs_push (rooted : Bool) (s : Str) (rest st : List Str) (h : Plain s) :
    cleanSegs rooted (s :: rest) st = cleanSegs rooted rest (s :: st) := by
  obtain ⟨h1, h2, h3, _⟩ := h
  have h12 : ¬ (s = [] ∨ s = sDot) := by
    intro e
    rcases e with e | e
    · exact h1 e
    · exact h2 e
  simp only [cleanSegs, h12, h3, if_false]

/-- empty and `.` segments are skipped -/
theorem cleanSegs_skip (rooted : Bool) (s : Str) (rest st : List Str) (h : s = [] ∨ s = sDot) :
    cleanSegs rooted (s :: rest) st = cleanSegs rooted rest st := by
  simp only [cleanSegs, h, if_true]

/-- `..` removes the plain segment before it -/
theorem cleanSegs_dotdot_pop (rooted : Bool) (top : Str) (rest st : List Str) (h : top ≠ sDotDot) :
    cleanSegs rooted (sDotDot :: rest) (top :: st) = cleanSegs rooted rest st := by
  have h1 : ¬ (sDotDot = [] ∨ sDotDot = sDot) := by decide
  simp only [cleanSegs, h1, h, if_false, if_true]

theorem joinSlash_ne_nil (segs : List Str) (hne : segs ≠ []) (h : ∀ s ∈ segs, s ≠ []) : joinSlash segs ≠ [] := by
  cases segs with
  | nil => exact absurd rfl hne
  | cons s rest =>
    have hs := h s List.mem_cons_self
    cases rest with
    | nil => simpa [joinSlash] using hs
    | cons t rest' =>
      simp only [joinSlash]
      intro e
      exact hs (List.append_eq_nil_iff.mp e).1

theorem joinSlash_head (segs : List Str) (hne : segs ≠ []) (h : ∀ s ∈ segs, Plain s) :
    (joinSlash segs).head? ≠ some 47 := by
  cases segs with
  | nil => exact absurd rfl hne
  | cons s rest =>
    obtain ⟨h1, _, _, h4⟩ := h s List.mem_cons_self
    cases s with
    | nil => exact absurd rfl h1
    | cons c s' =>
      have hc : c ≠ 47 := fun e => h4 (by simp [e])
      cases rest with
      | nil => simpa [joinSlash] using hc
      | cons t rest' => simpa [joinSlash] using hc

/-- **`path.Clean` is the identity on a relative path made of plain segments** -/
theorem clean_plain (segs : List Str) (hne : segs ≠ []) (h : ∀ s ∈ segs, Plain s) :
    clean (joinSlash segs) = joinSlash segs := by
  have hnn := joinSlash_ne_nil segs hne (fun s hs => (h s hs).1)
  have hh := joinSlash_head segs hne h
  unfold clean
  simp only [hnn, if_false]
  rw [splitSlash_joinSlash segs hne (fun s hs => (h s hs).2.2.2), cleanSegs_plain _ _ _ h]
  simp only [List.append_nil, List.reverse_reverse, hh, if_false, hnn]

/-- **`path.Join(a, b)` of two relative paths made of plain segments is `a/b`** -/
theorem join2_plain (sa sb : List Str) (ha : sa ≠ []) (hb : sb ≠ [])
    (hpa : ∀ s ∈ sa, Plain s) (hpb : ∀ s ∈ sb, Plain s) :
    join2 (joinSlash sa) (joinSlash sb) = joinSlash sa ++ 47 :: joinSlash sb := by
  have na := joinSlash_ne_nil sa ha (fun s hs => (hpa s hs).1)
  have nb := joinSlash_ne_nil sb hb (fun s hs => (hpb s hs).1)
  unfold join2
  simp only [na, nb, if_false]
  rw [← joinSlash_append sa sb ha hb]
  apply clean_plain
  · simp [ha]
  · intro s hs
    rcases List.mem_append.mp hs with hs | hs
    · exact hpa s hs
    · exact hpb s hs

/-- with an empty base (package document in the archive root) the path itself -/
theorem join2_nil_plain (sb : List Str) (hb : sb ≠ []) (hpb : ∀ s ∈ sb, Plain s) :
    join2 [] (joinSlash sb) = joinSlash sb := by
  have nb := joinSlash_ne_nil sb hb (fun s hs => (hpb s hs).1)
  unfold join2
  simp only [nb, if_true, if_false]
  exact clean_plain sb hb hpb

/-- **one `..` climbs one directory**: `path.Join(a/d, ../b) = a/b` -/
theorem join2_dotdot (sa : List Str) (d : Str) (sb : List Str) (hb : sb ≠ [])
    (hpa : ∀ s ∈ sa, Plain s) (hd : Plain d) (hpb : ∀ s ∈ sb, Plain s) :
    join2 (joinSlash (sa ++ [d])) (joinSlash (sDotDot :: sb)) = joinSlash (sa ++ sb) := by
  have hpad : ∀ s ∈ sa ++ [d], Plain s := by
    intro s hs
    rcases List.mem_append.mp hs with hs | hs
    · exact hpa s hs
    · rw [List.mem_singleton.mp hs]
      exact hd
  have na := joinSlash_ne_nil (sa ++ [d]) (by simp) (fun s hs => (hpad s hs).1)
  have nb : joinSlash (sDotDot :: sb) ≠ [] := by
    cases sb with
    | nil => exact absurd rfl hb
    | cons t r => simp [joinSlash, sDotDot]
  have hall : joinSlash (sa ++ [d]) ++ 47 :: joinSlash (sDotDot :: sb) = joinSlash ((sa ++ [d]) ++ sDotDot :: sb) :=
    (joinSlash_append (sa ++ [d]) (sDotDot :: sb) (by simp) (by simp)).symm
  have hns : ∀ s ∈ (sa ++ [d]) ++ sDotDot :: sb, 47 ∉ s := by
    intro s hs
    rcases List.mem_append.mp hs with hs | hs
    · exact (hpad s hs).2.2.2
    · rcases List.mem_cons.mp hs with hs | hs
      · rw [hs]
        decide
      · exact (hpb s hs).2.2.2
  have hne2 : (joinSlash ((sa ++ [d]) ++ sDotDot :: sb)) ≠ [] := by
    rw [← hall]
    simp
  have hhead : (joinSlash ((sa ++ [d]) ++ sDotDot :: sb)).head? ≠ some 47 := by
    rw [← hall]
    have := joinSlash_head (sa ++ [d]) (by simp) hpad
    cases hj : joinSlash (sa ++ [d]) with
    | nil => exact absurd hj na
    | cons c r =>
      rw [hj] at this
      simpa using this
  have hpab : ∀ s ∈ sa ++ sb, Plain s := by
    intro s hs
    rcases List.mem_append.mp hs with hs | hs
    · exact hpa s hs
    · exact hpb s hs
  have hab : sa ++ sb ≠ [] := by simp [hb]
  unfold join2
  simp only [na, nb, if_false]
  rw [hall]
  unfold clean
  simp only [hne2, if_false, hhead, decide_false]
  rw [splitSlash_joinSlash _ (by simp) hns]
  -- the element loop: push sa, push d, pop at "..", push sb
  have hloop : cleanSegs false ((sa ++ [d]) ++ sDotDot :: sb) [] = (sa ++ sb).reverse := by
    have e1 : (sa ++ [d]) ++ sDotDot :: sb = sa ++ (d :: sDotDot :: sb) := by simp
    rw [e1]
    have gen : ∀ (pre rest st : List Str), (∀ s ∈ pre, Plain s) →
        cleanSegs false (pre ++ rest) st = cleanSegs false rest (pre.reverse ++ st) := by
      intro pre rest st hp
      induction pre generalizing st with
      | nil => rfl
      | cons s r ih =>
        obtain ⟨h1, h2, h3, _⟩ := hp s List.mem_cons_self
        have h12 : ¬ (s = [] ∨ s = sDot) := by
          intro e
          rcases e with e | e
          · exact h1 e
          · exact h2 e
        simp only [List.cons_append, cleanSegs, h12, h3, if_false]
        rw [ih _ (fun u hu => hp u (List.mem_cons_of_mem _ hu))]
        simp
    rw [gen sa _ [] hpa]
    rw [cleanSegs_push false d _ _ hd, cleanSegs_dotdot_pop false d sb _ hd.2.2.1, cleanSegs_plain false sb _ hpb]
    simp
  rw [hloop]
  simp only [List.reverse_reverse]
  have := joinSlash_ne_nil (sa ++ sb) hab (fun s hs => (hpab s hs).1)
  simp only [this, if_false]

/-! ### `path.Dir`, `path.Base`, the relationship part of a part -/

theorem dropWhile_append_stop {α : Type} (p : α → Bool) (l1 : List α) (a : α) (l2 : List α)
    (h1 : ∀ x ∈ l1, p x = true) (ha : p a = false) : (l1 ++ a :: l2).dropWhile p = a :: l2 := by
  induction l1 with
  | nil => simp [ha]
  | cons x rest ih =>
    simp only [List.cons_append, List.dropWhile_cons, h1 x List.mem_cons_self, if_true]
    exact ih (fun y hy => h1 y (List.mem_cons_of_mem _ hy))

theorem takeWhile_append_stop {α : Type} (p : α → Bool) (l1 : List α) (a : α) (l2 : List α)
    (h1 : ∀ x ∈ l1, p x = true) (ha : p a = false) : (l1 ++ a :: l2).takeWhile p = l1 := by
  induction l1 with
  | nil => simp [ha]
  | cons x rest ih =>
    simp only [List.cons_append, List.takeWhile_cons, h1 x List.mem_cons_self, if_true]
    rw [ih (fun y hy => h1 y (List.mem_cons_of_mem _ hy))]

theorem takeWhile_all {α : Type} (p : α → Bool) (l : List α) (h : ∀ x ∈ l, p x = true) : l.takeWhile p = l := by
  induction l with
  | nil => rfl
  | cons x rest ih =>
    simp only [List.takeWhile_cons, h x List.mem_cons_self, if_true]
    rw [ih (fun y hy => h y (List.mem_cons_of_mem _ hy))]

/-- a trailing slash is dropped by `path.Clean` -/
theorem clean_trailing_slash (segs : List Str) (hne : segs ≠ []) (h : ∀ s ∈ segs, Plain s) :
    clean (joinSlash segs ++ [47]) = joinSlash segs := by
  have hnn := joinSlash_ne_nil segs hne (fun s hs => (h s hs).1)
  have hh := joinSlash_head segs hne h
  have e : joinSlash segs ++ [47] = joinSlash (segs ++ [[]]) := by
    rw [joinSlash_append segs [[]] hne (by simp)]
    rfl
  have hns : ∀ s ∈ segs ++ [[]], 47 ∉ s := by
    intro s hs
    rcases List.mem_append.mp hs with hs | hs
    · exact (h s hs).2.2.2
    · rw [List.mem_singleton.mp hs]
      simp
  have hhead : (joinSlash segs ++ [47]).head? ≠ some 47 := by
    cases hj : joinSlash segs with
    | nil => exact absurd hj hnn
    | cons c r =>
      rw [hj] at hh
      simpa using hh
  unfold clean
  have hne2 : joinSlash segs ++ [47] ≠ [] := by simp
  simp only [hne2, if_false, hhead, decide_false]
  rw [e, splitSlash_joinSlash _ (by simp) hns]
  have hloop : cleanSegs false (segs ++ [[]]) [] = segs.reverse := by
    have gen : ∀ (pre rest st : List Str), (∀ s ∈ pre, Plain s) →
        cleanSegs false (pre ++ rest) st = cleanSegs false rest (pre.reverse ++ st) := by
      intro pre rest st hp
      induction pre generalizing st with
      | nil => rfl
      | cons s r ih =>
        rw [List.cons_append, cleanSegs_push false s _ _ (hp s List.mem_cons_self),
          ih _ (fun u hu => hp u (List.mem_cons_of_mem _ hu))]
        simp
    rw [gen segs _ [] h, cleanSegs_skip false [] [] _ (Or.inl rfl)]
    simp [cleanSegs]
  rw [hloop]
  simp only [List.reverse_reverse, hnn, if_false]

/-- all bytes of all segments are bytes -/
def Bytes (segs : List Str) : Prop := ∀ s ∈ segs, ∀ b ∈ s, b < 256

theorem joinSlash_bytes (segs : List Str) (h : Bytes segs) : ∀ b ∈ joinSlash segs, b < 256 := by
  induction segs with
  | nil => simp [joinSlash]
  | cons s rest ih =>
    have hs := h s List.mem_cons_self
    have hr : Bytes rest := fun u hu => h u (List.mem_cons_of_mem _ hu)
    cases rest with
    | nil => simpa [joinSlash] using hs
    | cons t r =>
      intro b hb
      simp only [joinSlash, List.mem_append, List.mem_cons] at hb
      rcases hb with hb | hb | hb
      · exact hs b hb
      · omega
      · exact ih hr b hb

end Tabula.Package

namespace Tabula.PackageApi
open Tabula.Package

/-- **`path.Dir` of `dir/base`** (plain segments, `dir` not empty) is `dir` -/
theorem pathDir_plain (ds : List Str) (b : Str) (hd : ds ≠ []) (hpd : ∀ s ∈ ds, Plain s) (hb : 47 ∉ b) :
    pathDir (joinSlash (ds ++ [b])) = joinSlash ds := by
  unfold pathDir splitDir
  rw [joinSlash_append ds [b] hd (by simp)]
  simp only [joinSlash, List.reverse_append, List.reverse_cons]
  rw [List.append_assoc]
  simp only [List.singleton_append]
  rw [dropWhile_append_stop _ b.reverse 47 _ (by
    intro x hx
    have : x ≠ 47 := fun e => hb (by simpa [e] using hx)
    simpa using this) (by simp)]
  simp only [List.reverse_cons, List.reverse_reverse]
  exact clean_trailing_slash ds hd hpd

/-- `path.Base` of `pre ++ base` where `pre` is empty or ends in a slash -/
theorem pathBase_of_append (pre b : Str) (b1 : b ≠ []) (b4 : 47 ∉ b)
    (hpre : pre = [] ∨ ∃ pre', pre = pre' ++ [47]) : pathBase (pre ++ b) = b := by
  have hne : pre ++ b ≠ [] := fun e => b1 (List.append_eq_nil_iff.mp e).2
  obtain ⟨c, b', hbr⟩ : ∃ c b', b.reverse = c :: b' := by
    cases hr : b.reverse with
    | nil => exact absurd (List.reverse_eq_nil_iff.mp hr) b1
    | cons c b' => exact ⟨c, b', rfl⟩
  have hc : c ≠ 47 := by
    intro e
    apply b4
    have : c ∈ b.reverse := by rw [hbr]; exact List.mem_cons_self
    simpa [e] using List.mem_reverse.mp this
  have hrevp : (pre ++ b).reverse = c :: (b' ++ pre.reverse) := by
    rw [List.reverse_append, hbr]
    rfl
  have hq : ((pre ++ b).reverse.dropWhile (fun x => decide (x = 47))).reverse = pre ++ b := by
    rw [hrevp, List.dropWhile_cons]
    simp only [hc, decide_false, Bool.false_eq_true, if_false]
    rw [← hrevp, List.reverse_reverse]
  have hall : ∀ x ∈ b.reverse, (decide (x ≠ 47)) = true := by
    intro x hx
    have : x ≠ 47 := fun e => b4 (by simpa [e] using List.mem_reverse.mp hx)
    simpa using this
  have ht : ((pre ++ b).reverse.takeWhile (fun x => decide (x ≠ 47))).reverse = b := by
    rcases hpre with hnil | ⟨pre', hp'⟩
    · subst hnil
      rw [List.nil_append, Tabula.Package.takeWhile_all _ _ hall, List.reverse_reverse]
    · subst hp'
      have e : (pre' ++ [47] ++ b).reverse = b.reverse ++ 47 :: pre'.reverse := by simp
      rw [e, takeWhile_append_stop _ b.reverse 47 _ hall (by simp), List.reverse_reverse]
  unfold pathBase
  simp only [hne, if_false, hq, ht, b1]

/-- **`path.Base` of `dir/base`** is `base` -/
theorem pathBase_plain (ds : List Str) (b : Str) (hb : Plain b) :
    pathBase (joinSlash (ds ++ [b])) = b := by
  obtain ⟨b1, _, _, b4⟩ := hb
  cases ds with
  | nil =>
    have := pathBase_of_append [] b b1 b4 (Or.inl rfl)
    simpa [joinSlash] using this
  | cons d r =>
    rw [joinSlash_append (d :: r) [b] (by simp) (by simp)]
    have := pathBase_of_append (joinSlash (d :: r) ++ [47]) b b1 b4 (Or.inr ⟨_, rfl⟩)
    simpa [joinSlash, List.append_assoc] using this

/-- `"_rels"` and `base ++ ".rels"` are plain segments -/
theorem plain_relsDir : Plain sRelsDir := ⟨by decide, by decide, by decide, by decide⟩

theorem plain_relsName (b : Str) (hb : Plain b) : Plain (b ++ sRelsExt) := by
  obtain ⟨b1, _, _, b4⟩ := hb
  refine ⟨by simp [sRelsExt], ?_, ?_, ?_⟩
  · intro e
    have := congrArg List.length e
    simp only [sRelsExt, sDot, List.length_append, List.length_cons, List.length_nil] at this
    omega
  · intro e
    have := congrArg List.length e
    simp only [sRelsExt, sDotDot, List.length_append, List.length_cons, List.length_nil] at this
    omega
  · intro e
    rcases List.mem_append.mp e with e | e
    · exact b4 e
    · simp [sRelsExt] at e

/-- **the relationship part of `dir/base` is `dir/_rels/base.rels`** (OPC part 2 §8.3.4) -/
theorem slideRelsPath_plain (ds : List Str) (b : Str) (hd : ds ≠ []) (hpd : ∀ s ∈ ds, Plain s) (hb : Plain b) :
    slideRelsPath (joinSlash (ds ++ [b])) = joinSlash (ds ++ [sRelsDir, b ++ sRelsExt]) := by
  unfold slideRelsPath
  rw [pathDir_plain ds b hd hpd hb.2.2.2, pathBase_plain ds b hb]
  have nd := joinSlash_ne_nil ds hd (fun s hs => (hpd s hs).1)
  have nb : b ++ sRelsExt ≠ [] := by simp [sRelsExt]
  unfold pathJoin
  have hall : ([joinSlash ds, sRelsDir, b ++ sRelsExt].all fun x => decide (x = [])) = false := by
    simp [nd]
  simp only [hall, Bool.false_eq_true, if_false]
  have hbuf : joinBuf [] [joinSlash ds, sRelsDir, b ++ sRelsExt] = joinSlash (ds ++ [sRelsDir, b ++ sRelsExt]) := by
    rw [joinSlash_append ds _ hd (by simp)]
    have n1 : sRelsDir ≠ [] := by decide
    simp [joinBuf, nd, joinSlash, List.append_assoc]
  rw [hbuf]
  apply clean_plain _ (by simp)
  intro s hs
  rcases List.mem_append.mp hs with hs | hs
  · exact hpd s hs
  · rcases List.mem_cons.mp hs with hs | hs
    · rw [hs]
      exact plain_relsDir
    · rw [List.mem_singleton.mp hs]
      exact plain_relsName b hb

end Tabula.PackageApi
