import TabulaModel.Model.PackageBind
/-!
Lemmas about the attribute binding of `Model/PackageBind.lean` (C18): the value of a
field is the value of the last attribute it takes; attributes it does not take can be
dropped; the loop under a renaming of the namespaces.
-/
namespace Tabula.PackageBind
open Tabula.Package

/-! ## the binding rule: the last attribute the field takes -/

/-- one step of the attribute loop for one field -/
def step (ns loc : Str) (acc : Str) (a : Attr) : Str := if takes ns loc a then a.2.2 else acc

theorem attrField_eq (ns loc : Str) (attrs : List Attr) :
    attrField ns loc attrs = attrs.foldl (step ns loc) [] := rfl

theorem foldl_step_none (ns loc : Str) (attrs : List Attr) (init : Str)
    (h : ∀ a ∈ attrs, takes ns loc a = false) : attrs.foldl (step ns loc) init = init := by
  induction attrs generalizing init with
  | nil => rfl
  | cons a rest ih =>
    have ha : takes ns loc a = false := h a (List.mem_cons_self ..)
    rw [List.foldl_cons, show step ns loc init a = init by simp [step, ha]]
    exact ih init (fun b hb => h b (List.mem_cons_of_mem _ hb))

/-- the value of a field is the value of the LAST attribute it takes -/
theorem attrField_last (ns loc : Str) (pre post : List Attr) (a : Attr)
    (ha : takes ns loc a = true) (hp : ∀ b ∈ post, takes ns loc b = false) :
    attrField ns loc (pre ++ a :: post) = a.2.2 := by
  rw [attrField_eq, List.foldl_append, List.foldl_cons,
    show step ns loc (pre.foldl (step ns loc) []) a = a.2.2 by simp [step, ha]]
  exact foldl_step_none ns loc post _ hp

/-- a field no attribute is taken by stays empty -/
theorem attrField_none (ns loc : Str) (attrs : List Attr) (h : ∀ a ∈ attrs, takes ns loc a = false) :
    attrField ns loc attrs = [] := by
  rw [attrField_eq]; exact foldl_step_none ns loc attrs [] h

theorem foldl_step_filter (ns loc : Str) (p : Attr → Bool)
    (hp : ∀ a, takes ns loc a = true → p a = true) (attrs : List Attr) (init : Str) :
    (attrs.filter p).foldl (step ns loc) init = attrs.foldl (step ns loc) init := by
  induction attrs generalizing init with
  | nil => rfl
  | cons a rest ih =>
    by_cases hpa : p a = true
    · rw [List.filter_cons_of_pos hpa, List.foldl_cons, List.foldl_cons]; exact ih _
    · have ht : takes ns loc a = false := by
        cases h : takes ns loc a with
        | false => rfl
        | true => exact absurd (hp a h) hpa
      rw [List.filter_cons_of_neg hpa, List.foldl_cons, show step ns loc init a = init by simp [step, ht]]
      exact ih init

/-- attributes the field does not take can be dropped -/
theorem attrField_filter (ns loc : Str) (p : Attr → Bool)
    (hp : ∀ a, takes ns loc a = true → p a = true) (attrs : List Attr) :
    attrField ns loc (attrs.filter p) = attrField ns loc attrs := by
  rw [attrField_eq, attrField_eq]; exact foldl_step_filter ns loc p hp attrs []

theorem foldl_congr_mem {α β : Type} (f g : β → α → β) (l : List α) (init : β)
    (h : ∀ a ∈ l, ∀ acc, f acc a = g acc a) : l.foldl f init = l.foldl g init := by
  induction l generalizing init with
  | nil => rfl
  | cons a rest ih =>
    rw [List.foldl_cons, List.foldl_cons, h a (List.mem_cons_self ..) init]
    exact ih _ (fun b hb => h b (List.mem_cons_of_mem _ hb))

theorem nsRelT_ne_nil : nsRelT ≠ [] := by decide
theorem nsRelS_ne_nil : nsRelS ≠ [] := by decide
theorem nsRelS_ne_nsRelT : nsRelS ≠ nsRelT := by decide

theorem takes_ns (ns loc : Str) (hns : ns ≠ []) (a : Attr) :
    takes ns loc a = true ↔ a.2.1 = loc ∧ a.1 = ns := by
  simp only [takes, Bool.and_eq_true, Bool.or_eq_true, decide_eq_true_eq]
  constructor
  · intro h
    rcases h with ⟨h1, h2 | h2⟩
    · exact absurd h2 hns
    · exact ⟨h1, h2.symm⟩
  · intro h; exact ⟨h.1, Or.inr h.2.symm⟩

theorem takes_nil (loc : Str) (a : Attr) : takes [] loc a = true ↔ a.2.1 = loc := by
  simp [takes]

theorem takes_false_of (ns loc : Str) (hns : ns ≠ []) (a : Attr) (h : ¬ (a.1 = ns ∧ a.2.1 = loc)) :
    takes ns loc a = false := by
  cases ht : takes ns loc a with
  | false => rfl
  | true => exact absurd ((takes_ns ns loc hns a).1 ht).symm (fun hh => h ⟨hh.1, hh.2⟩)

theorem retag_foldl (f : Str → Str) (ns loc : Str) (attrs : List Attr) (init : Str) :
    (retag f attrs).foldl (step ns loc) init =
      attrs.foldl (fun acc a => step ns loc acc (f a.1, a.2.1, a.2.2)) init := by
  unfold retag; rw [List.foldl_map]

end Tabula.PackageBind
