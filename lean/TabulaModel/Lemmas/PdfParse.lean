import TabulaModel.Lemmas.PdfState
import TabulaModel.Lemmas.PdfTok
import TabulaModel.Lemmas.PdfReal
import TabulaModel.Lemmas.PdfDepth
namespace Tabula.Pdf
open Tabula.A1 (atoi dec)

/-! Object level of property C06: `ParseObject` with its two-token lookahead reads every legal
spelling of every object tree back as the value meant, and stands exactly on what follows.
Core Lean only. -/

/-- what follows does not start with the keyword R -/
def FirstNotR (rest : Str) : Prop := (stateAt rest).cur ≠ some Token.ref

/-- what follows is not "integer R" (so an integer before it is not the start of a reference) -/
def NoRefAhead (rest : Str) : Prop :=
  ∀ vb b, (stateAt rest).cur = some (Token.integer vb) → atoi vb = some b → (stateAt rest).peek ≠ some Token.ref

namespace Prs

/-! ### A. the window -/

/-- the first token of `inp` is `t` and leaves `r` unread -/
structure Starts (inp : Str) (t : Token) (r : Str) : Prop where
  lex : lexSkip (inp.length + 1) inp = some (t, r)
  ns : t ≠ .keyword kwStream

theorem Starts.cur {inp : Str} {t : Token} {r : Str} (h : Starts inp t r) : (stateAt inp).cur = some t :=
  stateAt_cur_of_lex inp t r h.lex

theorem Starts.next {inp : Str} {t : Token} {r : Str} (h : Starts inp t r) : (stateAt inp).next = stateAt r :=
  stateAt_next inp t r h.lex h.ns

theorem Starts.peek {inp : Str} {t : Token} {r : Str} (h : Starts inp t r) :
    (stateAt inp).peek = (stateAt r).cur :=
  stateAt_peek inp t r h.lex h.ns

theorem sepUnit_len (u : SepUnit) : 1 ≤ u.render.length := by
  cases u <;> simp [SepUnit.render]

theorem sep_len (us : Sep) : us.length ≤ (renderSep us).length := by
  induction us with
  | nil => simp
  | cons u us ih =>
    have e : renderSep (u :: us) = u.render ++ renderSep us := by simp [renderSep]
    have := sepUnit_len u
    rw [e, List.length_append, List.length_cons]
    omega

theorem starts_tok (pre : Sep) (X : Str) (t : Token) (r : Str) (hp : SepOk pre)
    (hX : nextToken X = some (t, r)) (hc : ∀ v, t ≠ .comment v) (hs : t ≠ .keyword kwStream) :
    Starts (renderSep pre ++ X) t r := by
  refine ⟨lexSkip_sep pre X t r _ hp hX hc ?_, hs⟩
  have := sep_len pre
  rw [List.length_append]
  omega

theorem starts_kw (pre : Sep) (kw rest : Str) (hp : SepOk pre)
    (hkw : kw = kwNull ∨ kw = kwTrue ∨ kw = kwFalse) (hT : Terminated rest) :
    Starts (renderSep pre ++ (kw ++ rest)) (.keyword kw) rest :=
  starts_tok pre _ _ _ hp (nextToken_kw kw rest hkw hT) (by intro v h; cases h)
    (by rcases hkw with e | e | e <;> subst e <;> decide)

theorem starts_int (pre : Sep) (plus : Bool) (z : Nat) (i : Int) (rest : Str) (hp : SepOk pre)
    (hT : Terminated rest) :
    Starts (renderSep pre ++ (printInt plus z i ++ rest)) (.integer (printInt plus z i)) rest :=
  starts_tok pre _ _ _ hp (nextToken_int plus z i rest hT) (by intro v h; cases h) (by intro h; cases h)

theorem starts_real (pre : Sep) (r : RealSp) (rest : Str) (hp : SepOk pre) (hr : r.Ok)
    (hT : Terminated rest) :
    Starts (renderSep pre ++ (r.render ++ rest)) (.real r.render) rest :=
  starts_tok pre _ _ _ hp (nextToken_real r rest hr hT) (by intro v h; cases h) (by intro h; cases h)

theorem starts_dec (pre : Sep) (n : Nat) (rest : Str) (hp : SepOk pre) (hT : Terminated rest) :
    Starts (renderSep pre ++ (dec n ++ rest)) (.integer (dec n)) rest :=
  starts_tok pre _ _ _ hp (nextToken_dec n rest hT) (by intro v h; cases h) (by intro h; cases h)

theorem starts_R (pre : Sep) (rest : Str) (hp : SepOk pre) (hT : Terminated rest) :
    Starts (renderSep pre ++ 82 :: rest) .ref rest :=
  starts_tok pre _ _ _ hp (nextToken_R rest hT) (by intro v h; cases h) (by intro h; cases h)

theorem starts_lit (pre : Sep) (ps : List SPiece) (rest : Str) (hp : SepOk pre) (h : ValidStr 0 ps) :
    Starts (renderSep pre ++ (renderStr ps ++ rest)) (.str (strBytes ps)) rest :=
  starts_tok pre _ _ _ hp (nextToken_lit ps rest h) (by intro v h; cases h) (by intro h; cases h)

theorem starts_hex (pre : Sep) (ps : List HPiece) (last : Option HLast) (w rest : Str) (hp : SepOk pre)
    (hps : ∀ p ∈ ps, p.Ok) (hlast : ∀ l, last = some l → l.Ok) (hw : AllWs w) :
    ∃ ds, Starts (renderSep pre ++ (renderHex ps last w ++ rest)) (.hexstr ds) rest ∧
      hexPairs ds = hexValueOf ps last := by
  obtain ⟨ds, h1, h2⟩ := nextToken_hex ps last w rest hps hlast hw
  exact ⟨ds, starts_tok pre _ _ _ hp h1 (by intro v h; cases h) (by intro h; cases h), h2⟩

theorem starts_name (pre : Sep) (ps : List NPiece) (rest : Str) (hp : SepOk pre) (hok : ∀ p ∈ ps, p.Ok)
    (hT : Terminated rest) :
    Starts (renderSep pre ++ 47 :: (renderName ps ++ rest)) (.name (ps.map NPiece.byte)) rest :=
  starts_tok pre _ _ _ hp (nextToken_name ps rest hok hT) (by intro v h; cases h) (by intro h; cases h)

theorem starts_arrStart (pre : Sep) (rest : Str) (hp : SepOk pre) :
    Starts (renderSep pre ++ 91 :: rest) .arrStart rest :=
  starts_tok pre _ _ _ hp (nextToken_arrStart rest) (by intro v h; cases h) (by intro h; cases h)

theorem starts_arrEnd (pre : Sep) (rest : Str) (hp : SepOk pre) :
    Starts (renderSep pre ++ 93 :: rest) .arrEnd rest :=
  starts_tok pre _ _ _ hp (nextToken_arrEnd rest) (by intro v h; cases h) (by intro h; cases h)

theorem starts_dictStart (pre : Sep) (rest : Str) (hp : SepOk pre) :
    Starts (renderSep pre ++ 60 :: 60 :: rest) .dictStart rest :=
  starts_tok pre _ _ _ hp (nextToken_dictStart rest) (by intro v h; cases h) (by intro h; cases h)

theorem starts_dictEnd (pre : Sep) (rest : Str) (hp : SepOk pre) :
    Starts (renderSep pre ++ 62 :: 62 :: rest) .dictEnd rest :=
  starts_tok pre _ _ _ hp (nextToken_dictEnd rest) (by intro v h; cases h) (by intro h; cases h)

theorem nextToken_nil : nextToken [] = some (.eof, []) := by
  simp [nextToken, skipWs]

theorem starts_eof (trail : Sep) (hp : SepOk trail) : Starts (renderSep trail) .eof [] := by
  have := starts_tok trail [] .eof [] hp nextToken_nil (by intro v h; cases h) (by intro h; cases h)
  simpa using this

/-! ### B. what terminates a token -/

theorem term_cons (c : Nat) (r : Str) (h : (isWs c || isDelim c) = true) : Terminated (c :: r) :=
  Or.inr ⟨c, r, rfl, h⟩

theorem term_sep (us : Sep) (h : SepOk us) (X : Str) (hX : Terminated X) : Terminated (renderSep us ++ X) := by
  cases us with
  | nil => simpa [renderSep] using hX
  | cons u us => exact sep_terminated (u :: us) X h (by simp)

theorem term_obj (so : SObj) (need : Bool) (hv : so.Valid need) (X : Str)
    (h : need = true ∨ so.startsRegular = false) : Terminated (so.render ++ X) := by
  cases so with
  | null pre =>
    simp only [SObj.Valid] at hv
    rcases h with h | h
    · simp only [SObj.render, List.append_assoc]
      exact sep_terminated pre _ hv.1 (hv.2 h)
    · simp [SObj.startsRegular] at h
  | bool pre b =>
    simp only [SObj.Valid] at hv
    rcases h with h | h
    · simp only [SObj.render, List.append_assoc]
      exact sep_terminated pre _ hv.1 (hv.2 h)
    · simp [SObj.startsRegular] at h
  | int pre plus z i =>
    simp only [SObj.Valid] at hv
    rcases h with h | h
    · simp only [SObj.render, List.append_assoc]
      exact sep_terminated pre _ hv.1 (hv.2.1 h)
    · simp [SObj.startsRegular] at h
  | real pre r =>
    simp only [SObj.Valid] at hv
    rcases h with h | h
    · simp only [SObj.render, List.append_assoc]
      exact sep_terminated pre _ hv.1 (hv.2.1 h)
    · simp [SObj.startsRegular] at h
  | lit pre ps =>
    simp only [SObj.Valid] at hv
    simp only [SObj.render, renderStr, List.append_assoc, List.cons_append]
    exact term_sep pre hv.1 _ (term_cons 40 _ (by decide))
  | hex pre ps last w =>
    simp only [SObj.Valid] at hv
    simp only [SObj.render, renderHex, List.append_assoc, List.cons_append]
    exact term_sep pre hv.1 _ (term_cons 60 _ (by decide))
  | name pre ps =>
    simp only [SObj.Valid] at hv
    simp only [SObj.render, List.append_assoc, List.cons_append]
    exact term_sep pre hv.1 _ (term_cons 47 _ (by decide))
  | arr pre items close =>
    simp only [SObj.Valid] at hv
    simp only [SObj.render, List.append_assoc, List.cons_append]
    exact term_sep pre hv.1 _ (term_cons 91 _ (by decide))
  | dict pre kvs close =>
    simp only [SObj.Valid] at hv
    simp only [SObj.render, List.append_assoc, List.cons_append]
    exact term_sep pre hv.1 _ (term_cons 60 _ (by decide))
  | ref pre n g s1 s2 =>
    simp only [SObj.Valid] at hv
    rcases h with h | h
    · simp only [SObj.render, List.append_assoc]
      exact sep_terminated pre _ hv.1 (hv.2.1 h)
    · simp [SObj.startsRegular] at h

theorem term_list (xs : List SObj) (hv : ValidList true xs) (T : Str) (hT : Terminated T) :
    Terminated (renderList xs ++ T) := by
  cases xs with
  | nil => simpa [renderList] using hT
  | cons x xs =>
    simp only [ValidList] at hv
    simp only [renderList, List.append_assoc]
    exact term_obj x true hv.1 _ (Or.inl rfl)

/-! ### C. the first token of an object -/

/-- a token that starts an object -/
def ObjTok (t : Token) : Prop := t ≠ .ref ∧ t ≠ .arrEnd ∧ t ≠ .dictEnd ∧ t ≠ .eof

theorem firstNotR_of_starts {inp : Str} {t : Token} {r : Str} (h : Starts inp t r) (ht : t ≠ .ref) :
    FirstNotR inp := by
  unfold FirstNotR
  rw [h.cur]
  intro e
  cases e
  exact ht rfl

theorem noRefAhead_of_starts {inp : Str} {t : Token} {r : Str} (h : Starts inp t r)
    (ht : ∀ v, t = .integer v → FirstNotR r) : NoRefAhead inp := by
  intro vb b hc _
  rw [h.cur] at hc
  cases hc
  rw [h.peek]
  exact ht vb rfl

theorem obj_first (so : SObj) (need : Bool) (hv : so.Valid need) (rest : Str)
    (hterm : so.endsRegular = true → Terminated rest) :
    ∃ t r, Starts (so.render ++ rest) t r ∧ ObjTok t ∧ (∀ v, t = .integer v → FirstNotR rest → FirstNotR r) := by
  cases so with
  | null pre =>
    simp only [SObj.Valid] at hv
    simp only [SObj.render, List.append_assoc]
    exact ⟨_, _, starts_kw pre kwNull rest hv.1 (Or.inl rfl) (hterm rfl),
      ⟨by simp, by simp, by simp, by simp⟩, by intro v h; cases h⟩
  | bool pre b =>
    simp only [SObj.Valid] at hv
    simp only [SObj.render, List.append_assoc]
    cases b with
    | true =>
      exact ⟨_, _, starts_kw pre kwTrue rest hv.1 (Or.inr (Or.inl rfl)) (hterm rfl),
        ⟨by simp, by simp, by simp, by simp⟩, by intro v h; cases h⟩
    | false =>
      exact ⟨_, _, starts_kw pre kwFalse rest hv.1 (Or.inr (Or.inr rfl)) (hterm rfl),
        ⟨by simp, by simp, by simp, by simp⟩, by intro v h; cases h⟩
  | int pre plus z i =>
    simp only [SObj.Valid] at hv
    simp only [SObj.render, List.append_assoc]
    exact ⟨_, _, starts_int pre plus z i rest hv.1 (hterm rfl),
      ⟨by simp, by simp, by simp, by simp⟩, fun _ _ h => h⟩
  | real pre r =>
    simp only [SObj.Valid] at hv
    simp only [SObj.render, List.append_assoc]
    exact ⟨_, _, starts_real pre r rest hv.1 hv.2.2 (hterm rfl),
      ⟨by simp, by simp, by simp, by simp⟩, by intro v h; cases h⟩
  | lit pre ps =>
    simp only [SObj.Valid] at hv
    simp only [SObj.render, List.append_assoc]
    exact ⟨_, _, starts_lit pre ps rest hv.1 hv.2,
      ⟨by simp, by simp, by simp, by simp⟩, by intro v h; cases h⟩
  | hex pre ps last w =>
    simp only [SObj.Valid] at hv
    simp only [SObj.render, List.append_assoc]
    obtain ⟨ds, hs, _⟩ := starts_hex pre ps last w rest hv.1 hv.2.1 hv.2.2.1 hv.2.2.2
    exact ⟨_, _, hs, ⟨by simp, by simp, by simp, by simp⟩, by intro v h; cases h⟩
  | name pre ps =>
    simp only [SObj.Valid] at hv
    simp only [SObj.render, List.append_assoc, List.cons_append]
    exact ⟨_, _, starts_name pre ps rest hv.1 hv.2 (hterm rfl),
      ⟨by simp, by simp, by simp, by simp⟩, by intro v h; cases h⟩
  | arr pre items close =>
    simp only [SObj.Valid] at hv
    simp only [SObj.render, List.append_assoc, List.cons_append]
    exact ⟨_, _, starts_arrStart pre _ hv.1,
      ⟨by simp, by simp, by simp, by simp⟩, by intro v h; cases h⟩
  | dict pre kvs close =>
    simp only [SObj.Valid] at hv
    simp only [SObj.render, List.append_assoc, List.cons_append]
    exact ⟨_, _, starts_dictStart pre _ hv.1,
      ⟨by simp, by simp, by simp, by simp⟩, by intro v h; cases h⟩
  | ref pre n g s1 s2 =>
    simp only [SObj.Valid] at hv
    obtain ⟨hp, _, hs1, hn1, hs2, hn2, _, _⟩ := hv
    simp only [SObj.render, List.append_assoc, List.cons_append, List.nil_append]
    have hT2 : Terminated (renderSep s2 ++ 82 :: rest) := sep_terminated s2 _ hs2 hn2
    have hT1 : Terminated (renderSep s1 ++ (dec g ++ (renderSep s2 ++ 82 :: rest))) :=
      sep_terminated s1 _ hs1 hn1
    have h2 := starts_dec s1 g _ hs1 hT2
    exact ⟨_, _, starts_dec pre n _ hp hT1, ⟨by simp, by simp, by simp, by simp⟩,
      fun _ _ _ => firstNotR_of_starts h2 (by simp)⟩

theorem firstNotR_obj (so : SObj) (need : Bool) (hv : so.Valid need) (rest : Str)
    (hterm : so.endsRegular = true → Terminated rest) : FirstNotR (so.render ++ rest) := by
  obtain ⟨t, r, hs, ht, _⟩ := obj_first so need hv rest hterm
  exact firstNotR_of_starts hs ht.1

theorem noRefAhead_obj (so : SObj) (need : Bool) (hv : so.Valid need) (rest : Str)
    (hterm : so.endsRegular = true → Terminated rest) (hnr : FirstNotR rest) :
    NoRefAhead (so.render ++ rest) := by
  obtain ⟨t, r, hs, _, h3⟩ := obj_first so need hv rest hterm
  exact noRefAhead_of_starts hs (fun v hv' => h3 v hv' hnr)

theorem firstNotR_list (xs : List SObj) (need : Bool) (hv : ValidList need xs) (T : Str)
    (hT : Terminated T) (hT1 : FirstNotR T) : FirstNotR (renderList xs ++ T) := by
  cases xs with
  | nil => simpa [renderList] using hT1
  | cons x xs =>
    simp only [ValidList] at hv
    simp only [renderList, List.append_assoc]
    refine firstNotR_obj x need hv.1 _ ?_
    intro he
    rw [he] at hv
    exact term_list xs hv.2 T hT

theorem noRefAhead_list (xs : List SObj) (need : Bool) (hv : ValidList need xs) (T : Str)
    (hT : Terminated T) (hT1 : FirstNotR T) (hT2 : NoRefAhead T) : NoRefAhead (renderList xs ++ T) := by
  cases xs with
  | nil => simpa [renderList] using hT2
  | cons x xs =>
    simp only [ValidList] at hv
    simp only [renderList, List.append_assoc]
    refine noRefAhead_obj x need hv.1 _ ?_ (firstNotR_list xs _ hv.2 T hT hT1)
    intro he
    have hv2 := hv.2
    rw [he] at hv2
    exact term_list xs hv2 T hT

/-- key/value lists: what follows a value is the next key (a name) or the closing bracket -/
theorem kvs_head (kvs : List SObj) (hv : ValidKVs kvs) (T : Str)
    (hT : Terminated T) (hT1 : FirstNotR T) (hT2 : NoRefAhead T) :
    Terminated (renderList kvs ++ T) ∧ FirstNotR (renderList kvs ++ T) ∧ NoRefAhead (renderList kvs ++ T) := by
  match kvs, hv with
  | [], _ => simpa [renderList] using ⟨hT, hT1, hT2⟩
  | [_], hv => simp [ValidKVs] at hv
  | k :: v :: r, hv =>
    simp only [ValidKVs] at hv
    obtain ⟨hkn, hkv, hvv, _⟩ := hv
    have hY : Terminated (renderList (v :: r) ++ T) := by
      simp only [renderList, List.append_assoc]
      exact term_obj v true hvv _ (Or.inl rfl)
    have e : renderList (k :: v :: r) ++ T = k.render ++ (renderList (v :: r) ++ T) := by
      simp only [renderList, List.append_assoc]
    rw [e]
    refine ⟨term_obj k false hkv _ (Or.inr ?_), firstNotR_obj k false hkv _ (fun _ => hY), ?_⟩
    · cases k <;> simp [SObj.isName] at hkn <;> rfl
    · cases k with
      | name pre ps =>
        simp only [SObj.Valid] at hkv
        have hs' : Starts ((SObj.name pre ps).render ++ (renderList (v :: r) ++ T))
            (.name (ps.map NPiece.byte)) (renderList (v :: r) ++ T) := by
          simp only [SObj.render, List.append_assoc, List.cons_append]
          exact starts_name pre ps _ hkv.1 hkv.2 hY
        exact noRefAhead_of_starts hs' (by intro v h; cases h)
      | _ => simp [SObj.isName] at hkn

/-! ### the parser, one step at a time -/

theorem po_kw (f d : Nat) (s : PState) (v : Str) (h : s.cur = some (.keyword v)) :
    parseObject (f + 1) d s =
      (if v = kwNull then .ok (.null, s.next)
       else if v = kwTrue then .ok (.bool true, s.next)
       else if v = kwFalse then .ok (.bool false, s.next)
       else .error .err) := by
  rw [parseObject]; simp only [h]

theorem po_int (f d : Nat) (s : PState) (v : Str) (h : s.cur = some (.integer v)) :
    parseObject (f + 1) d s = parseNumber s v := by
  rw [parseObject]; simp only [h]

theorem po_real (f d : Nat) (s : PState) (v : Str) (o : Obj) (h : s.cur = some (.real v))
    (hp : parseReal v = some o) :
    parseObject (f + 1) d s = .ok (o, s.next) := by
  rw [parseObject]; simp only [h, hp]

theorem po_str (f d : Nat) (s : PState) (v : Str) (h : s.cur = some (.str v)) :
    parseObject (f + 1) d s = .ok (.str v, s.next) := by
  rw [parseObject]; simp only [h]

theorem po_hex (f d : Nat) (s : PState) (v : Str) (h : s.cur = some (.hexstr v)) :
    parseObject (f + 1) d s = .ok (.str (hexPairs v), s.next) := by
  rw [parseObject]; simp only [h]

theorem po_name (f d : Nat) (s : PState) (v : Str) (h : s.cur = some (.name v)) :
    parseObject (f + 1) d s = .ok (.name v, s.next) := by
  rw [parseObject]; simp only [h]

theorem po_arr (f d : Nat) (s : PState) (h : s.cur = some .arrStart) (hd : d < maxNestingDepth) :
    parseObject (f + 1) d s = parseArray f (d + 1) s.next [] := by
  rw [parseObject]; simp only [h, Nat.not_le.2 hd, if_false]

theorem po_arr_deep (f d : Nat) (s : PState) (h : s.cur = some .arrStart) (hd : maxNestingDepth ≤ d) :
    parseObject (f + 1) d s = .error .err := by
  rw [parseObject]; simp only [h, hd, if_true]

theorem po_dict (f d : Nat) (s : PState) (h : s.cur = some .dictStart) (hd : d < maxNestingDepth) :
    parseObject (f + 1) d s = parseDict f (d + 1) s.next [] := by
  rw [parseObject]; simp only [h, Nat.not_le.2 hd, if_false]

theorem po_dict_deep (f d : Nat) (s : PState) (h : s.cur = some .dictStart) (hd : maxNestingDepth ≤ d) :
    parseObject (f + 1) d s = .error .err := by
  rw [parseObject]; simp only [h, hd, if_true]

theorem pa_end (f d : Nat) (s : PState) (acc : List Obj) (h : s.cur = some .arrEnd) :
    parseArray (f + 1) d s acc = .ok (.arr acc, s.next) := by
  rw [parseArray]; simp only [h]

theorem pa_item (f d : Nat) (s : PState) (acc : List Obj) (t : Token) (o : Obj) (s' : PState)
    (h : s.cur = some t) (h1 : t ≠ .arrEnd) (h2 : t ≠ .eof) (hp : parseObject f d s = .ok (o, s')) :
    parseArray (f + 1) d s acc = parseArray f d s' (acc ++ [o]) := by
  cases t <;> first
    | exact absurd rfl h1
    | exact absurd rfl h2
    | (rw [parseArray]; simp only [h, hp])

theorem pa_item_err (f d : Nat) (s : PState) (acc : List Obj) (t : Token) (e : PErr)
    (h : s.cur = some t) (h1 : t ≠ .arrEnd) (h2 : t ≠ .eof) (hp : parseObject f d s = .error e) :
    parseArray (f + 1) d s acc = .error .err := by
  cases t <;> first
    | exact absurd rfl h1
    | exact absurd rfl h2
    | (rw [parseArray]; simp only [h, hp])

theorem pd_end (f d : Nat) (s : PState) (acc : List (Str × Obj)) (h : s.cur = some .dictEnd) :
    parseDict (f + 1) d s acc = .ok (.dict acc, s.next) := by
  rw [parseDict]; simp only [h]

theorem pd_item (f d : Nat) (s : PState) (acc : List (Str × Obj)) (k : Str) (o : Obj) (s' : PState)
    (h : s.cur = some (.name k)) (hp : parseObject f d s.next = .ok (o, s')) :
    parseDict (f + 1) d s acc = parseDict f d s' (dictSet acc k o) := by
  rw [parseDict]; simp only [h, hp]

theorem pd_item_err (f d : Nat) (s : PState) (acc : List (Str × Obj)) (k : Str) (e : PErr)
    (h : s.cur = some (.name k)) (hp : parseObject f d s.next = .error e) :
    parseDict (f + 1) d s acc = .error .err := by
  rw [parseDict]; simp only [h, hp]

/-- an integer not followed by `integer R` -/
theorem pn_int (s : PState) (v : Str) (a : Int) (rest : Str) (ha : atoi v = some a)
    (hn : s.next = stateAt rest) (hpk : s.peek = (stateAt rest).cur) (hnra : NoRefAhead rest) :
    parseNumber s v = .ok (.int a, stateAt rest) := by
  unfold parseNumber
  simp only [ha, hpk, hn]
  cases hc : (stateAt rest).cur with
  | none => rfl
  | some t =>
    cases t with
    | integer v2 =>
      cases hb : atoi v2 with
      | none => simp only [hb]
      | some b =>
        have := hnra v2 b hc hb
        simp only [hb]
    | _ => rfl

/-- `integer integer R` -/
theorem pn_ref (s : PState) (v v2 : Str) (a b : Int) (ha : atoi v = some a)
    (hpk : s.peek = some (.integer v2)) (hb : atoi v2 = some b) (hr : s.next.peek = some .ref) :
    parseNumber s v = .ok (.ref a b, s.next.next.next) := by
  unfold parseNumber
  simp only [ha, hpk, hb, hr]

theorem dictSet_fresh (acc : List (Str × Obj)) (k : Str) (v : Obj) (h : k ∉ acc.map Prod.fst) :
    dictSet acc k v = acc ++ [(k, v)] := by
  induction acc with
  | nil => rfl
  | cons a acc ih =>
    obtain ⟨k', v'⟩ := a
    simp only [List.map_cons, List.mem_cons, not_or] at h
    have : ¬ k' = k := fun e => h.1 e.symm
    simp only [dictSet, this, if_false, List.cons_append, ih h.2]

/-! ### D. the main induction -/

mutual
theorem obj_rt (so : SObj) (need : Bool) (rest : Str) (f d : Nat)
    (hv : so.Valid need) (hf : so.size ≤ f) (hd : d + so.depth ≤ maxNestingDepth)
    (hterm : so.endsRegular = true → Terminated rest) (hnra : NoRefAhead rest) :
    parseObject f d (stateAt (so.render ++ rest)) = .ok (so.value, stateAt rest) := by
  obtain ⟨f, rfl⟩ : ∃ f', f = f' + 1 := by
    cases f with
    | zero => cases so <;> simp [SObj.size] at hf
    | succ f' => exact ⟨f', rfl⟩
  match so with
  | .null pre =>
    simp only [SObj.Valid] at hv
    simp only [SObj.render, List.append_assoc, SObj.value]
    have hs := starts_kw pre kwNull rest hv.1 (Or.inl rfl) (hterm rfl)
    rw [po_kw f d _ _ hs.cur, hs.next, if_pos rfl]
  | .bool pre b =>
    simp only [SObj.Valid] at hv
    simp only [SObj.render, List.append_assoc, SObj.value]
    cases b with
    | true =>
      have hs := starts_kw pre kwTrue rest hv.1 (Or.inr (Or.inl rfl)) (hterm rfl)
      rw [if_pos rfl, po_kw f d _ _ hs.cur, hs.next, if_neg (by decide), if_pos rfl]
    | false =>
      have hs := starts_kw pre kwFalse rest hv.1 (Or.inr (Or.inr rfl)) (hterm rfl)
      rw [if_neg (by decide), po_kw f d _ _ hs.cur, hs.next, if_neg (by decide), if_neg (by decide), if_pos rfl]
  | .int pre plus z i =>
    simp only [SObj.Valid] at hv
    simp only [SObj.render, List.append_assoc, SObj.value]
    have hs := starts_int pre plus z i rest hv.1 (hterm rfl)
    rw [po_int f d _ _ hs.cur]
    exact pn_int _ _ i rest (atoi_printInt plus z i hv.2.2.1 hv.2.2.2) hs.next hs.peek hnra
  | .real pre r =>
    simp only [SObj.Valid] at hv
    simp only [SObj.render, List.append_assoc, SObj.value]
    have hs := starts_real pre r rest hv.1 hv.2.2 (hterm rfl)
    rw [po_real f d _ _ _ hs.cur (parseReal_render r hv.2.2), hs.next]
  | .lit pre ps =>
    simp only [SObj.Valid] at hv
    simp only [SObj.render, List.append_assoc, SObj.value]
    have hs := starts_lit pre ps rest hv.1 hv.2
    rw [po_str f d _ _ hs.cur, hs.next]
  | .hex pre ps last w =>
    simp only [SObj.Valid] at hv
    simp only [SObj.render, List.append_assoc, SObj.value]
    obtain ⟨ds, hs, hd⟩ := starts_hex pre ps last w rest hv.1 hv.2.1 hv.2.2.1 hv.2.2.2
    rw [po_hex f d _ _ hs.cur, hs.next, hd]
  | .name pre ps =>
    simp only [SObj.Valid] at hv
    simp only [SObj.render, List.append_assoc, List.cons_append, SObj.value]
    have hs := starts_name pre ps rest hv.1 hv.2 (hterm rfl)
    rw [po_name f d _ _ hs.cur, hs.next]
  | .arr pre items close =>
    simp only [SObj.Valid] at hv
    simp only [SObj.size] at hf
    simp only [SObj.depth] at hd
    simp only [SObj.render, List.append_assoc, List.cons_append, SObj.value, List.nil_append]
    have hs := starts_arrStart pre (renderList items ++ (renderSep close ++ 93 :: rest)) hv.1
    rw [po_arr f d _ hs.cur (by omega), hs.next,
      arr_rt items false close rest f (d + 1) [] hv.2.2 hv.2.1 (by omega) (by omega)]
    rfl
  | .dict pre kvs close =>
    simp only [SObj.Valid] at hv
    simp only [SObj.size] at hf
    simp only [SObj.depth] at hd
    simp only [SObj.render, List.append_assoc, List.cons_append, SObj.value, List.nil_append]
    have hs := starts_dictStart pre (renderList kvs ++ (renderSep close ++ 62 :: 62 :: rest)) hv.1
    rw [po_dict f d _ hs.cur (by omega), hs.next,
      dict_rt kvs close rest f (d + 1) [] hv.2.2.1 hv.2.1 hv.2.2.2 (by simp) (by omega) (by omega)]
    rfl
  | .ref pre n g s1 s2 =>
    simp only [SObj.Valid] at hv
    obtain ⟨hp, _, hs1, hn1, hs2, hn2, hn, hg⟩ := hv
    simp only [SObj.render, List.append_assoc, List.cons_append, List.nil_append, SObj.value]
    have hT2 : Terminated (renderSep s2 ++ 82 :: rest) := sep_terminated s2 _ hs2 hn2
    have hT1 : Terminated (renderSep s1 ++ (dec g ++ (renderSep s2 ++ 82 :: rest))) :=
      sep_terminated s1 _ hs1 hn1
    have h3 := starts_R s2 rest hs2 (hterm rfl)
    have h2 := starts_dec s1 g _ hs1 hT2
    have h1 := starts_dec pre n _ hp hT1
    rw [po_int f d _ _ h1.cur,
      pn_ref _ _ (dec g) n g (Tabula.A1.atoi_dec n hn) (by rw [h1.peek, h2.cur]) (Tabula.A1.atoi_dec g hg)
        (by rw [h1.next, h2.peek, h3.cur]),
      h1.next, h2.next, h3.next]
theorem arr_rt (items : List SObj) (need : Bool) (close : Sep) (rest : Str) (f d : Nat) (acc : List Obj)
    (hv : ValidList need items) (hc : SepOk close) (hf : sizeList items + 1 ≤ f)
    (hd : d + sdepthList items ≤ maxNestingDepth) :
    parseArray f d (stateAt (renderList items ++ (renderSep close ++ 93 :: rest))) acc =
      .ok (.arr (acc ++ valueList items), stateAt rest) := by
  obtain ⟨f, rfl⟩ : ∃ f', f = f' + 1 := ⟨f - 1, by omega⟩
  have hE := starts_arrEnd close rest hc
  match items with
  | [] =>
    simp only [renderList, List.nil_append, valueList, List.append_nil]
    rw [pa_end f d _ acc hE.cur, hE.next]
  | x :: xs =>
    simp only [ValidList] at hv
    simp only [sizeList] at hf
    simp only [sdepthList] at hd
    simp only [renderList, List.append_assoc, valueList]
    have hT : Terminated (renderSep close ++ 93 :: rest) := term_sep close hc _ (term_cons 93 _ (by decide))
    have hT1 : FirstNotR (renderSep close ++ 93 :: rest) := firstNotR_of_starts hE (by simp)
    have hT2 : NoRefAhead (renderSep close ++ 93 :: rest) :=
      noRefAhead_of_starts hE (by intro v h; cases h)
    have hterm : x.endsRegular = true → Terminated (renderList xs ++ (renderSep close ++ 93 :: rest)) := by
      intro he
      have hv2 := hv.2
      rw [he] at hv2
      exact term_list xs hv2 _ hT
    obtain ⟨t, r, hs, ht, _⟩ := obj_first x need hv.1 _ hterm
    have hx := obj_rt x need _ f d hv.1 (by omega) (by omega) hterm (noRefAhead_list xs _ hv.2 _ hT hT1 hT2)
    rw [pa_item f d _ acc t _ _ hs.cur ht.2.1 ht.2.2.2 hx,
      arr_rt xs x.endsRegular close rest f d (acc ++ [x.value]) hv.2 hc (by omega) (by omega)]
    simp
theorem dict_rt (kvs : List SObj) (close : Sep) (rest : Str) (f d : Nat) (acc : List (Str × Obj))
    (hv : ValidKVs kvs) (hc : SepOk close)
    (hnd : (keysOf kvs).Nodup) (hfr : ∀ k ∈ keysOf kvs, k ∉ acc.map Prod.fst)
    (hf : sizeList kvs + 1 ≤ f) (hd : d + sdepthList kvs ≤ maxNestingDepth) :
    parseDict f d (stateAt (renderList kvs ++ (renderSep close ++ 62 :: 62 :: rest))) acc =
      .ok (.dict (acc ++ valueKVs kvs), stateAt rest) := by
  obtain ⟨f, rfl⟩ : ∃ f', f = f' + 1 := ⟨f - 1, by omega⟩
  have hE := starts_dictEnd close rest hc
  match kvs with
  | [] =>
    simp only [renderList, List.nil_append, valueKVs, List.append_nil]
    rw [pd_end f d _ acc hE.cur, hE.next]
  | [_] => simp [ValidKVs] at hv
  | k :: v :: kvs' =>
    simp only [ValidKVs] at hv
    obtain ⟨hkn, hkv, hvv, hv'⟩ := hv
    simp only [sizeList] at hf
    simp only [sdepthList] at hd
    simp only [keysOf, List.nodup_cons] at hnd
    match k, hkn, hkv with
    | .name pre ps, _, hkv =>
      simp only [SObj.Valid] at hkv
      simp only [keysOf, SObj.keyBytes, List.mem_cons, forall_eq_or_imp] at hfr hnd
      simp only [renderList, SObj.render, List.append_assoc, List.cons_append, valueKVs, SObj.keyBytes]
      have hT : Terminated (renderSep close ++ 62 :: 62 :: rest) :=
        term_sep close hc _ (term_cons 62 _ (by decide))
      have hT1 : FirstNotR (renderSep close ++ 62 :: 62 :: rest) := firstNotR_of_starts hE (by simp)
      have hT2 : NoRefAhead (renderSep close ++ 62 :: 62 :: rest) :=
        noRefAhead_of_starts hE (by intro v h; cases h)
      obtain ⟨hA, _, hC⟩ := kvs_head kvs' hv' _ hT hT1 hT2
      have hY : Terminated (v.render ++ (renderList kvs' ++ (renderSep close ++ 62 :: 62 :: rest))) :=
        term_obj v true hvv _ (Or.inl rfl)
      have hs := starts_name pre ps _ hkv.1 hkv.2 hY
      have hx := obj_rt v true _ f d hvv (by omega) (by omega) (fun _ => hA) hC
      rw [← hs.next] at hx
      rw [pd_item f d _ acc _ _ _ hs.cur hx, dictSet_fresh acc _ _ hfr.1,
        dict_rt kvs' close rest f d _ hv' hc hnd.2 ?_ (by omega) (by omega)]
      · simp
      · intro k' hk'
        simp only [List.map_append, List.map_cons, List.map_nil, List.mem_append, List.mem_singleton, not_or]
        refine ⟨hfr.2 k' hk', ?_⟩
        intro e; subst e; exact hnd.1 hk'
end

/-! ### D'. beyond the nesting limit: the first container that would be number
`maxNestingDepth + 1` fails, and the failure is handed up through every open container -/

mutual
theorem obj_deep (so : SObj) (need : Bool) (rest : Str) (f d : Nat)
    (hv : so.Valid need) (hf : so.size ≤ f) (hd : d ≤ maxNestingDepth)
    (hdeep : maxNestingDepth < d + so.depth) :
    parseObject f d (stateAt (so.render ++ rest)) = .error .err := by
  obtain ⟨f, rfl⟩ : ∃ f', f = f' + 1 := by
    cases f with
    | zero => cases so <;> simp [SObj.size] at hf
    | succ f' => exact ⟨f', rfl⟩
  match so with
  | .null _ => simp only [SObj.depth] at hdeep; omega
  | .bool _ _ => simp only [SObj.depth] at hdeep; omega
  | .int _ _ _ _ => simp only [SObj.depth] at hdeep; omega
  | .real _ _ => simp only [SObj.depth] at hdeep; omega
  | .lit _ _ => simp only [SObj.depth] at hdeep; omega
  | .hex _ _ _ _ => simp only [SObj.depth] at hdeep; omega
  | .name _ _ => simp only [SObj.depth] at hdeep; omega
  | .ref _ _ _ _ _ => simp only [SObj.depth] at hdeep; omega
  | .arr pre items close =>
    simp only [SObj.Valid] at hv
    simp only [SObj.size] at hf
    simp only [SObj.depth] at hdeep
    simp only [SObj.render, List.append_assoc, List.cons_append, List.nil_append]
    have hs := starts_arrStart pre (renderList items ++ (renderSep close ++ 93 :: rest)) hv.1
    by_cases hlim : maxNestingDepth ≤ d
    · exact po_arr_deep f d _ hs.cur hlim
    · rw [po_arr f d _ hs.cur (by omega), hs.next]
      exact arr_deep items false close rest f (d + 1) [] hv.2.2 hv.2.1 (by omega) (by omega) (by omega)
  | .dict pre kvs close =>
    simp only [SObj.Valid] at hv
    simp only [SObj.size] at hf
    simp only [SObj.depth] at hdeep
    simp only [SObj.render, List.append_assoc, List.cons_append, List.nil_append]
    have hs := starts_dictStart pre (renderList kvs ++ (renderSep close ++ 62 :: 62 :: rest)) hv.1
    by_cases hlim : maxNestingDepth ≤ d
    · exact po_dict_deep f d _ hs.cur hlim
    · rw [po_dict f d _ hs.cur (by omega), hs.next]
      exact dict_deep kvs close rest f (d + 1) [] hv.2.2.1 hv.2.1 hv.2.2.2 (by simp) (by omega) (by omega)
        (by omega)
theorem arr_deep (items : List SObj) (need : Bool) (close : Sep) (rest : Str) (f d : Nat) (acc : List Obj)
    (hv : ValidList need items) (hc : SepOk close) (hf : sizeList items + 1 ≤ f)
    (hd : d ≤ maxNestingDepth) (hdeep : maxNestingDepth < d + sdepthList items) :
    parseArray f d (stateAt (renderList items ++ (renderSep close ++ 93 :: rest))) acc = .error .err := by
  obtain ⟨f, rfl⟩ : ∃ f', f = f' + 1 := ⟨f - 1, by omega⟩
  have hE := starts_arrEnd close rest hc
  match items with
  | [] => simp only [sdepthList] at hdeep; omega
  | x :: xs =>
    simp only [ValidList] at hv
    simp only [sizeList] at hf
    simp only [sdepthList] at hdeep
    simp only [renderList, List.append_assoc]
    have hT : Terminated (renderSep close ++ 93 :: rest) := term_sep close hc _ (term_cons 93 _ (by decide))
    have hT1 : FirstNotR (renderSep close ++ 93 :: rest) := firstNotR_of_starts hE (by simp)
    have hT2 : NoRefAhead (renderSep close ++ 93 :: rest) :=
      noRefAhead_of_starts hE (by intro v h; cases h)
    have hterm : x.endsRegular = true → Terminated (renderList xs ++ (renderSep close ++ 93 :: rest)) := by
      intro he
      have hv2 := hv.2
      rw [he] at hv2
      exact term_list xs hv2 _ hT
    obtain ⟨t, r, hs, ht, _⟩ := obj_first x need hv.1 _ hterm
    have hnra := noRefAhead_list xs _ hv.2 _ hT hT1 hT2
    by_cases hx : d + x.depth ≤ maxNestingDepth
    · have hx' := obj_rt x need _ f d hv.1 (by omega) hx hterm hnra
      rw [pa_item f d _ acc t _ _ hs.cur ht.2.1 ht.2.2.2 hx']
      exact arr_deep xs x.endsRegular close rest f d (acc ++ [x.value]) hv.2 hc (by omega) hd (by omega)
    · have hx' := obj_deep x need (renderList xs ++ (renderSep close ++ 93 :: rest)) f d hv.1 (by omega) hd (by omega)
      exact pa_item_err f d _ acc t _ hs.cur ht.2.1 ht.2.2.2 hx'
theorem dict_deep (kvs : List SObj) (close : Sep) (rest : Str) (f d : Nat) (acc : List (Str × Obj))
    (hv : ValidKVs kvs) (hc : SepOk close)
    (hnd : (keysOf kvs).Nodup) (hfr : ∀ k ∈ keysOf kvs, k ∉ acc.map Prod.fst)
    (hf : sizeList kvs + 1 ≤ f) (hd : d ≤ maxNestingDepth)
    (hdeep : maxNestingDepth < d + sdepthList kvs) :
    parseDict f d (stateAt (renderList kvs ++ (renderSep close ++ 62 :: 62 :: rest))) acc = .error .err := by
  obtain ⟨f, rfl⟩ : ∃ f', f = f' + 1 := ⟨f - 1, by omega⟩
  have hE := starts_dictEnd close rest hc
  match kvs with
  | [] => simp only [sdepthList] at hdeep; omega
  | [_] => simp [ValidKVs] at hv
  | k :: v :: kvs' =>
    simp only [ValidKVs] at hv
    obtain ⟨hkn, hkv, hvv, hv'⟩ := hv
    simp only [sizeList] at hf
    simp only [keysOf, List.nodup_cons] at hnd
    match k, hkn, hkv with
    | .name pre ps, _, hkv =>
      simp only [SObj.Valid] at hkv
      simp only [sdepthList, SObj.depth] at hdeep
      simp only [keysOf, SObj.keyBytes, List.mem_cons, forall_eq_or_imp] at hfr hnd
      simp only [renderList, SObj.render, List.append_assoc, List.cons_append]
      have hT : Terminated (renderSep close ++ 62 :: 62 :: rest) :=
        term_sep close hc _ (term_cons 62 _ (by decide))
      have hT1 : FirstNotR (renderSep close ++ 62 :: 62 :: rest) := firstNotR_of_starts hE (by simp)
      have hT2 : NoRefAhead (renderSep close ++ 62 :: 62 :: rest) :=
        noRefAhead_of_starts hE (by intro v h; cases h)
      obtain ⟨hA, _, hC⟩ := kvs_head kvs' hv' _ hT hT1 hT2
      have hY : Terminated (v.render ++ (renderList kvs' ++ (renderSep close ++ 62 :: 62 :: rest))) :=
        term_obj v true hvv _ (Or.inl rfl)
      have hs := starts_name pre ps _ hkv.1 hkv.2 hY
      by_cases hx : d + v.depth ≤ maxNestingDepth
      · have hx' := obj_rt v true _ f d hvv (by omega) hx (fun _ => hA) hC
        rw [← hs.next] at hx'
        rw [pd_item f d _ acc _ _ _ hs.cur hx', dictSet_fresh acc _ _ hfr.1]
        refine dict_deep kvs' close rest f d _ hv' hc hnd.2 ?_ (by omega) hd (by omega)
        intro k' hk'
        simp only [List.map_append, List.map_cons, List.map_nil, List.mem_append, List.mem_singleton, not_or]
        refine ⟨hfr.2 k' hk', ?_⟩
        intro e; subst e; exact hnd.1 hk'
      · have hx' := obj_deep v true (renderList kvs' ++ (renderSep close ++ 62 :: 62 :: rest)) f d hvv (by omega) hd
          (by omega)
        rw [← hs.next] at hx'
        exact pd_item_err f d _ acc _ _ hs.cur hx'
end

/-! ### E. fuel -/

theorem printInt_len (plus : Bool) (z : Nat) (i : Int) : 1 ≤ (printInt plus z i).length := by
  obtain ⟨d, ds, h, _⟩ := Tabula.A1.dec_head i.natAbs
  unfold printInt
  rw [h]
  simp only [List.length_append, List.length_cons]
  omega

theorem realSp_len (r : RealSp) : 1 ≤ r.render.length := by
  simp only [RealSp.render, List.length_append, List.length_cons]
  omega

mutual
theorem size_le (so : SObj) : so.size + 1 ≤ 3 * so.render.length := by
  match so with
  | .null pre => simp [SObj.size, SObj.render, kwNull]; omega
  | .bool pre b => cases b <;> simp [SObj.size, SObj.render, kwTrue, kwFalse] <;> omega
  | .int pre plus z i =>
    have := printInt_len plus z i
    simp only [SObj.size, SObj.render, List.length_append]; omega
  | .real pre r =>
    have := realSp_len r
    simp only [SObj.size, SObj.render, List.length_append]; omega
  | .lit pre ps => simp [SObj.size, SObj.render, renderStr]; omega
  | .hex pre ps last w => simp [SObj.size, SObj.render, renderHex]; omega
  | .name pre ps => simp [SObj.size, SObj.render]; omega
  | .arr pre items close =>
    have := sizeList_le items
    simp only [SObj.size, SObj.render, List.length_append, List.length_cons, List.length_nil]; omega
  | .dict pre kvs close =>
    have := sizeList_le kvs
    simp only [SObj.size, SObj.render, List.length_append, List.length_cons, List.length_nil]; omega
  | .ref pre n g s1 s2 =>
    obtain ⟨d, ds, h, _⟩ := Tabula.A1.dec_head n
    simp only [SObj.size, SObj.render, List.length_append, h, List.length_cons]; omega
theorem sizeList_le (xs : List SObj) : sizeList xs ≤ 3 * (renderList xs).length := by
  match xs with
  | [] => simp [sizeList]
  | x :: xs =>
    have h1 := size_le x
    have h2 := sizeList_le xs
    simp only [sizeList, renderList, List.length_append]; omega
end

end Prs

/-- one object, any legal spelling, nested at most as deep as `p.depth` leaves room for: the parser
returns the value meant and stands exactly on what follows -/
theorem parse_roundtrip (so : SObj) (need : Bool) (rest : Str) (f d : Nat)
    (hv : so.Valid need) (hf : so.size ≤ f) (hd : d + so.value.depth ≤ maxNestingDepth)
    (hterm : so.endsRegular = true → Terminated rest)
    (hnr : FirstNotR rest) (hnra : NoRefAhead rest) :
    parseObject f d (stateAt (so.render ++ rest)) = .ok (so.value, stateAt rest) := by
  have _ := hnr
  rw [value_depth so need hv] at hd
  exact Prs.obj_rt so need rest f d hv hf hd hterm hnra

/-- … and one that needs more open containers than the limit allows is an error, whatever it is
otherwise -/
theorem parse_too_deep (so : SObj) (need : Bool) (rest : Str) (f d : Nat)
    (hv : so.Valid need) (hf : so.size ≤ f) (hd : d ≤ maxNestingDepth)
    (hdeep : maxNestingDepth < d + so.value.depth) :
    parseObject f d (stateAt (so.render ++ rest)) = .error .err := by
  rw [value_depth so need hv] at hdeep
  exact Prs.obj_deep so need rest f d hv hf hd hdeep

theorem fuelFor_enough (so : SObj) (trail : Sep) : so.size ≤ fuelFor (so.render ++ renderSep trail) := by
  have hsz := Prs.size_le so
  unfold fuelFor
  rw [List.length_append]
  omega

/-- `core.NewParser(r).ParseObject()` on any legal spelling of any object tree nested at most
`maxNestingDepth` deep, optionally followed by white space / comments -/
theorem core_roundtrip_spelled (so : SObj) (trail : Sep) (hv : so.Valid false) (ht : SepOk trail)
    (hd : so.value.depth ≤ maxNestingDepth) :
    coreParse (so.render ++ renderSep trail) = .ok (so.value, stateAt (renderSep trail)) := by
  have hE := Prs.starts_eof trail ht
  have hT : Terminated (renderSep trail) := by
    have := Prs.term_sep trail ht [] (Or.inl rfl)
    simpa using this
  show parseObject (fuelFor (so.render ++ renderSep trail)) 0 (stateAt (so.render ++ renderSep trail)) = _
  exact parse_roundtrip so false (renderSep trail) _ 0 hv (fuelFor_enough so trail) (by omega) (fun _ => hT)
    (Prs.firstNotR_of_starts hE (by simp)) (Prs.noRefAhead_of_starts hE (by intro v h; cases h))

/-- `core.NewParser(r).ParseObject()` on any legal spelling of any object tree nested deeper than
`maxNestingDepth`: an error (not end of input) -/
theorem core_too_deep_spelled (so : SObj) (trail : Sep) (hv : so.Valid false) (ht : SepOk trail)
    (hd : maxNestingDepth < so.value.depth) :
    coreParse (so.render ++ renderSep trail) = .error .err := by
  have _ := ht
  show parseObject (fuelFor (so.render ++ renderSep trail)) 0 (stateAt (so.render ++ renderSep trail)) = _
  exact parse_too_deep so false (renderSep trail) _ 0 hv (fuelFor_enough so trail) (Nat.zero_le _) (by omega)

/-- `a b R` is one reference; the parser then stands on what follows (inside any number of open
containers the limit allows) -/
theorem ref_bytes (n g : Nat) (pre s1 s2 : Sep) (rest : Str) (d : Nat) (hd : d ≤ maxNestingDepth)
    (hv : (SObj.ref pre n g s1 s2).Valid false) (ht : Terminated rest) (hnr : FirstNotR rest) (hnra : NoRefAhead rest) :
    parseObject 1 d (stateAt ((SObj.ref pre n g s1 s2).render ++ rest)) = .ok (.ref n g, stateAt rest) :=
  parse_roundtrip (SObj.ref pre n g s1 s2) false rest 1 d hv (by simp [SObj.size])
    (by simp only [SObj.value, Obj.depth]; omega) (fun _ => ht) hnr hnra

/-- `a b` not followed by R is the integer `a`; the parser then stands on `b`: nothing consumed twice or lost -/
theorem two_ints_bytes (a b : Int) (p1 p2 : Sep) (rest : Str) (d : Nat) (hd : d ≤ maxNestingDepth)
    (h1 : (SObj.int p1 false 0 a).Valid false) (h2 : (SObj.int p2 false 0 b).Valid true)
    (ht : Terminated rest) (hnr : FirstNotR rest) (hnra : NoRefAhead rest) :
    parseObject 1 d (stateAt ((SObj.int p1 false 0 a).render ++ ((SObj.int p2 false 0 b).render ++ rest))) =
        .ok (.int a, stateAt ((SObj.int p2 false 0 b).render ++ rest)) ∧
      parseObject 1 d (stateAt ((SObj.int p2 false 0 b).render ++ rest)) = .ok (.int b, stateAt rest) := by
  refine ⟨?_, ?_⟩
  · exact parse_roundtrip (SObj.int p1 false 0 a) false _ 1 d h1 (by simp [SObj.size])
      (by simp only [SObj.value, Obj.depth]; omega)
      (fun _ => Prs.term_obj _ true h2 rest (Or.inl rfl))
      (Prs.firstNotR_obj _ true h2 rest (fun _ => ht))
      (Prs.noRefAhead_obj _ true h2 rest (fun _ => ht) hnr)
  · exact parse_roundtrip (SObj.int p2 false 0 b) true rest 1 d h2 (by simp [SObj.size])
      (by simp only [SObj.value, Obj.depth]; omega) (fun _ => ht) hnr hnra

end Tabula.Pdf
