import TabulaModel.Model.Filters
/-!
Helper lemmas for C05 (stream filters): row filters and predictors, ASCIIHex, ASCII85.
-/
namespace Tabula.Filters

/-! ### predictor rows -/


theorem encRow_length (P : Str → Nat) : ∀ (rest done : Str), (encRow P rest done).length = rest.length := by
  intro rest
  induction rest with
  | nil => intro done; rfl
  | cons r rs ih => intro done; simp [encRow, ih]

theorem encRow_lt (P : Str → Nat) : ∀ (rest done : Str), ∀ b ∈ encRow P rest done, b < 256 := by
  intro rest
  induction rest with
  | nil => intro done b hb; simp [encRow] at hb
  | cons r rs ih =>
    intro done b hb
    simp only [encRow, List.mem_cons] at hb
    rcases hb with h | h
    · omega
    · exact ih _ b h

/-- the row loop undoes the row filter, whatever the predictor, as long as decoder and
encoder compute the same prediction from the same prefix -/
theorem decRow_encRow (P : Str → Option Nat) (P' : Str → Nat) (n : Nat)
    (hP : ∀ done : Str, done.length < n → P done = some (P' done)) :
    ∀ (rest done : Str), done.length + rest.length = n → (∀ r ∈ rest, r < 256) →
      decRow P (encRow P' rest done) done = some (done ++ rest) := by
  intro rest
  induction rest with
  | nil => intro done _ _; simp [encRow, decRow]
  | cons r rs ih =>
    intro done hlen hb
    simp only [List.length_cons] at hlen
    simp only [encRow, decRow]
    rw [hP done (by omega)]
    have hr : r < 256 := hb r (by simp)
    have e : ((r + 256 - P' done % 256) % 256 + P' done) % 256 = r := by omega
    simp only [e]
    rw [ih (done ++ [r]) (by simp; omega) (fun x hx => hb x (by simp [hx]))]
    simp

theorem byteAt_nat (row : Str) (i : Nat) : byteAt row (i : Int) = row.getD i 0 := by
  unfold byteAt
  have : ¬ ((i : Int) < 0) := by omega
  simp [this]

theorem leftOf_eq (bpp : Nat) (hb : 1 ≤ bpp) (done : Str) :
    leftOf bpp done = some (byteAt done ((done.length : Int) - (bpp : Int))) := by
  unfold leftOf
  split
  · rename_i h
    have e : ((done.length : Int) - (bpp : Int)) = ((done.length - bpp : Nat) : Int) := by omega
    rw [e, byteAt_nat]
    have hlt : done.length - bpp < done.length := by omega
    rw [List.getElem?_eq_getElem hlt]
    simp [List.getD_eq_getElem?_getD, List.getElem?_eq_getElem hlt]
  · rename_i h
    unfold byteAt
    have : ((done.length : Int) - (bpp : Int)) < 0 := by omega
    simp [this]

/-- the relation between the decoder's "previous decoded row" and the encoder's prior scanline -/
def PriorRel (prev : Option Str) (prior : Str) (n : Nat) : Prop :=
  (prev = none ∧ prior = List.replicate n 0) ∨ (prev = some prior ∧ prior.length = n)

theorem byteAt_replicate (n : Nat) (x : Int) : byteAt (List.replicate n 0) x = 0 := by
  unfold byteAt
  split
  · rfl
  · simp only [List.getD_eq_getElem?_getD, List.getElem?_replicate]
    split <;> rfl

theorem upOf_eq (prev : Option Str) (prior : Str) (n i : Nat) (h : PriorRel prev prior n) (hi : i < n) :
    upOf prev i = some (byteAt prior (i : Int)) := by
  rcases h with ⟨h1, h2⟩ | ⟨h1, h2⟩
  · subst h1 h2; simp [upOf, byteAt_replicate]
  · subst h1
    rw [byteAt_nat]
    have hlt : i < prior.length := by omega
    simp [upOf, List.getD_eq_getElem?_getD, List.getElem?_eq_getElem hlt]

theorem upLeftOf_eq (bpp : Nat) (prev : Option Str) (prior : Str) (n i : Nat) (h : PriorRel prev prior n)
    (hi : i < n) : upLeftOf bpp prev i = some (byteAt prior ((i : Int) - (bpp : Int))) := by
  rcases h with ⟨h1, h2⟩ | ⟨h1, h2⟩
  · subst h1 h2; simp [upLeftOf, byteAt_replicate]
  · subst h1
    unfold upLeftOf
    simp only
    split
    · rename_i hge
      have e : ((i : Int) - (bpp : Int)) = ((i - bpp : Nat) : Int) := by omega
      rw [e, byteAt_nat]
      have hlt : i - bpp < prior.length := by omega
      simp [List.getD_eq_getElem?_getD, List.getElem?_eq_getElem hlt]
    · rename_i hge
      unfold byteAt
      have : ((i : Int) - (bpp : Int)) < 0 := by omega
      simp [this]

theorem paeth_eq_spec (a b c : Nat) : paeth a b c = specPaeth a b c := rfl

theorem pngPredicted_eq_spec (tag bpp : Nat) (prev : Option Str) (prior done : Str) (n : Nat)
    (htag : tag ≤ 4) (hb : 1 ≤ bpp) (h : PriorRel prev prior n) (hd : done.length < n) :
    pngPredicted tag bpp prev done = some (specPredAt tag bpp prior done) := by
  have hl := leftOf_eq bpp hb done
  have hu := upOf_eq prev prior n done.length h hd
  have hul := upLeftOf_eq bpp prev prior n done.length h hd
  unfold specPredAt
  match tag, htag with
  | 0, _ => simp [pngPredicted, specPred]
  | 1, _ => simp [pngPredicted, specPred, hl]
  | 2, _ => simp [pngPredicted, specPred, hu]
  | 3, _ => simp [pngPredicted, specPred, hl, hu]
  | 4, _ => simp [pngPredicted, specPred, hl, hu, hul, paeth_eq_spec]


theorem decodePNGRow_encRow (tag bpp : Nat) (prev : Option Str) (prior raw : Str)
    (htag : tag ≤ 4) (hb : 1 ≤ bpp) (h : PriorRel prev prior raw.length) (hraw : ∀ r ∈ raw, r < 256) :
    decodePNGRow (encRow (specPredAt tag bpp prior) raw []) tag bpp prev = some raw := by
  unfold decodePNGRow
  have := decRow_encRow (pngPredicted tag bpp prev) (specPredAt tag bpp prior) raw.length
    (fun done hd => pngPredicted_eq_spec tag bpp prev prior done raw.length htag hb h hd) raw [] (by simp) hraw
  simpa using this

theorem pngPredictRows_length (bpp rowLen : Nat) : ∀ (tags : List Nat) (x prior : Str),
    x.length = tags.length * rowLen →
    (pngPredictRows bpp rowLen tags x prior).length = tags.length * (rowLen + 1) := by
  intro tags
  induction tags with
  | nil => intro x prior _; simp [pngPredictRows]
  | cons t ts ih =>
    intro x prior hx
    simp only [List.length_cons] at hx
    have hx' : x.length = ts.length * rowLen + rowLen := by rw [hx, Nat.add_mul]; omega
    simp only [pngPredictRows, List.length_cons, List.length_append, encRow_length, List.length_take]
    rw [ih (x.drop rowLen) (x.take rowLen) (by simp [hx'])]
    have : min rowLen x.length = rowLen := by omega
    rw [this, Nat.add_mul, Nat.mul_add]
    omega

/-- the row loop of the decoder undoes the conforming encoder, for any number of rows -/
theorem pngRows_pngPredictRows (bpp rowLen : Nat) (hb : 1 ≤ bpp) : ∀ (tags : List Nat) (x prior : Str)
    (prev : Option Str) (acc : List Str),
    x.length = tags.length * rowLen → (∀ t ∈ tags, t ≤ 4) → (∀ r ∈ x, r < 256) →
    PriorRel prev prior rowLen →
    pngRows tags.length rowLen bpp (pngPredictRows bpp rowLen tags x prior) prev acc
      = some (acc.reverse.flatten ++ x) := by
  intro tags
  induction tags with
  | nil =>
    intro x prior prev acc hx _ _ _
    simp at hx
    simp [pngRows, pngPredictRows, hx]
  | cons t ts ih =>
    intro x prior prev acc hx ht hbytes hrel
    simp only [List.length_cons] at hx
    have hx' : x.length = ts.length * rowLen + rowLen := by rw [hx, Nat.add_mul]; omega
    have htake : (x.take rowLen).length = rowLen := by simp; omega
    simp only [pngPredictRows, List.length_cons, pngRows, List.cons_append]
    have hlen : (encRow (specPredAt t bpp prior) (x.take rowLen) []).length = rowLen := by
      rw [encRow_length, htake]
    rw [List.take_left' hlen, List.drop_left' hlen]
    rw [decodePNGRow_encRow t bpp prev prior (x.take rowLen) (ht t (by simp)) hb (by rw [htake]; exact hrel)
      (fun r hr => hbytes r (List.mem_of_mem_take hr))]
    simp only
    rw [ih (x.drop rowLen) (x.take rowLen) (some (x.take rowLen)) (x.take rowLen :: acc) (by simp [hx'])
      (fun t' h' => ht t' (by simp [h'])) (fun r hr => hbytes r (List.mem_of_mem_drop hr))
      (Or.inr ⟨rfl, htake⟩)]
    simp [List.append_assoc]


theorem predictorRowBytes_ok (columns colors : Nat) (h1 : 1 ≤ columns) (h2 : 1 ≤ colors)
    (hcap : columns * colors ≤ 2147483646) :
    predictorRowBytes (columns : Int) (colors : Int) = some (columns * colors) := by
  unfold predictorRowBytes
  have a : ¬ ((columns : Int) < 1 ∨ (colors : Int) < 1) := by omega
  have hpos : (0 : Int) < (colors : Int) := by omega
  have hm : ((columns : Int) * (colors : Int)) = ((columns * colors : Nat) : Int) := by simp
  have b : ¬ ((columns : Int) > 2147483646 / (colors : Int)) := by
    have : (columns : Int) ≤ 2147483646 / (colors : Int) := by
      rw [Int.le_ediv_iff_mul_le hpos, hm]
      omega
    omega
  simp only [a, b, if_false]
  rw [hm, Int.toNat_natCast]

theorem applyPNGPredictor_pngPredict (colors columns : Nat) (tags : List Nat) (x : Str) (p : Params)
    (hcolors : p.colors = some (colors : Int)) (hcolumns : p.columns = some (columns : Int))
    (hbpc : p.bpc = none ∨ p.bpc = some 8)
    (h1 : 1 ≤ columns) (h2 : 1 ≤ colors) (hcap : columns * colors ≤ 2147483646)
    (hx : x.length = tags.length * (columns * colors)) (ht : ∀ t ∈ tags, t ≤ 4) (hb : ∀ r ∈ x, r < 256) :
    applyPNGPredictor (pngPredict colors columns tags x) p = some x := by
  unfold applyPNGPredictor pngPredict
  have hbpc' : ¬ (p.bpc.getD 8 ≠ 8) := by rcases hbpc with h | h <;> simp [h]
  simp only [hcolors, hcolumns, Option.getD_some, hbpc', if_false, predictorRowBytes_ok columns colors h1 h2 hcap]
  rw [pngPredictRows_length colors (columns * colors) tags x _ hx]
  have hm : tags.length * (columns * colors + 1) % (columns * colors + 1) = 0 := Nat.mul_mod_left _ _
  have hd : tags.length * (columns * colors + 1) / (columns * colors + 1) = tags.length :=
    Nat.mul_div_cancel _ (by omega)
  simp only [hm, hd, ne_eq, not_true_eq_false, if_false, Int.toNat_natCast]
  rw [pngRows_pngPredictRows colors (columns * colors) h2 tags x _ none [] hx ht hb (Or.inl ⟨rfl, rfl⟩)]
  simp


theorem tiffPredicted_eq_spec (colors : Nat) (hc : 1 ≤ colors) (done : Str) :
    tiffPredicted colors done = some (specTiffAt colors done) := by
  unfold tiffPredicted specTiffAt
  split
  · rename_i h
    unfold byteAt
    have : ((done.length : Int) - (colors : Int)) < 0 := by omega
    simp [this]
  · rename_i h
    have e : ((done.length : Int) - (colors : Int)) = ((done.length - colors : Nat) : Int) := by omega
    rw [e, byteAt_nat]
    have hlt : done.length - colors < done.length := by omega
    simp [List.getD_eq_getElem?_getD, List.getElem?_eq_getElem hlt]

theorem tiffPredictRows_length (colors rowLen : Nat) : ∀ (n : Nat) (x : Str), x.length = n * rowLen →
    (tiffPredictRows colors rowLen n x).length = n * rowLen := by
  intro n
  induction n with
  | zero => intro x _; simp [tiffPredictRows]
  | succ n ih =>
    intro x hx
    have hx' : x.length = n * rowLen + rowLen := by rw [hx, Nat.add_mul]; omega
    simp only [tiffPredictRows, List.length_append, encRow_length, List.length_take]
    rw [ih (x.drop rowLen) (by simp [hx'])]
    have : min rowLen x.length = rowLen := by omega
    rw [this, Nat.add_mul]
    omega

theorem tiffRows_tiffPredictRows (colors rowLen : Nat) (hc : 1 ≤ colors) : ∀ (n : Nat) (x : Str) (acc : List Str),
    x.length = n * rowLen → (∀ r ∈ x, r < 256) →
    tiffRows n rowLen colors (tiffPredictRows colors rowLen n x) acc = some (acc.reverse.flatten ++ x) := by
  intro n
  induction n with
  | zero =>
    intro x acc hx _
    simp at hx
    simp [tiffRows, hx]
  | succ n ih =>
    intro x acc hx hbytes
    have hx' : x.length = n * rowLen + rowLen := by rw [hx, Nat.add_mul]; omega
    have htake : (x.take rowLen).length = rowLen := by simp; omega
    simp only [tiffPredictRows, tiffRows]
    have hlen : (encRow (specTiffAt colors) (x.take rowLen) []).length = rowLen := by
      rw [encRow_length, htake]
    rw [List.take_left' hlen, List.drop_left' hlen]
    have hrow := decRow_encRow (tiffPredicted colors) (specTiffAt colors) (x.take rowLen).length
      (fun done _ => tiffPredicted_eq_spec colors hc done) (x.take rowLen) [] (by simp)
      (fun r hr => hbytes r (List.mem_of_mem_take hr))
    simp only [List.nil_append] at hrow
    rw [hrow]
    simp only
    rw [ih (x.drop rowLen) (x.take rowLen :: acc) (by simp [hx']) (fun r hr => hbytes r (List.mem_of_mem_drop hr))]
    simp [List.append_assoc]

theorem applyTIFFPredictor2_tiffPredict (colors columns : Nat) (x : Str) (p : Params)
    (hcolors : p.colors = some (colors : Int)) (hcolumns : p.columns = some (columns : Int))
    (hbpc : p.bpc = none ∨ p.bpc = some 8)
    (h1 : 1 ≤ columns) (h2 : 1 ≤ colors) (hcap : columns * colors ≤ 2147483646)
    (hx : x.length % (columns * colors) = 0) (hb : ∀ r ∈ x, r < 256) :
    applyTIFFPredictor2 (tiffPredict colors columns x) p = some x := by
  unfold applyTIFFPredictor2 tiffPredict
  have hbpc' : ¬ (p.bpc.getD 8 ≠ 8) := by rcases hbpc with h | h <;> simp [h]
  simp only [hcolors, hcolumns, Option.getD_some, hbpc', if_false, predictorRowBytes_ok columns colors h1 h2 hcap]
  have hxl : x.length = x.length / (columns * colors) * (columns * colors) := by
    have := Nat.div_add_mod x.length (columns * colors)
    rw [hx, Nat.add_zero, Nat.mul_comm] at this
    exact this.symm
  rw [tiffPredictRows_length colors (columns * colors) _ x hxl]
  have hm : x.length / (columns * colors) * (columns * colors) % (columns * colors) = 0 := Nat.mul_mod_left _ _
  have hpos : 0 < columns * colors := Nat.mul_pos (by omega) (by omega)
  have hd : x.length / (columns * colors) * (columns * colors) / (columns * colors) = x.length / (columns * colors) :=
    Nat.mul_div_cancel _ hpos
  simp only [hm, hd, ne_eq, not_true_eq_false, if_false, Int.toNat_natCast]
  rw [tiffRows_tiffPredictRows colors (columns * colors) h2 _ x [] hxl hb]
  simp



/-! ### ASCIIHex -/



theorem hexVal_some_props (c v : Nat) (h : hexVal c = some v) : isWs c = false ∧ c ≠ 62 ∧ v < 16 := by
  unfold hexVal at h
  unfold isWs
  split at h
  · simp at h; refine ⟨?_, ?_, ?_⟩ <;> first | omega | (simp; omega)
  · split at h
    · simp at h; refine ⟨?_, ?_, ?_⟩ <;> first | omega | (simp; omega)
    · split at h
      · simp at h; refine ⟨?_, ?_, ?_⟩ <;> first | omega | (simp; omega)
      · simp at h

theorem hexGo_ws (w t : Str) (p : Option Nat) (acc : Str) (hw : ∀ c ∈ w, isWs c = true) :
    hexGo (w ++ t) p acc = hexGo t p acc := by
  induction w with
  | nil => rfl
  | cons c cs ih =>
    have hc : isWs c = true := hw c (by simp)
    simp only [List.cons_append, hexGo, hc, if_true]
    exact ih (fun c' h' => hw c' (by simp [h']))

theorem hexGo_digit (c v : Nat) (rest : Str) (p : Option Nat) (acc : Str) (h : hexVal c = some v) :
    hexGo (c :: rest) p acc =
      match p with
      | none => hexGo rest (some v) acc
      | some hi => hexGo rest none ((hi * 16 + v) :: acc) := by
  obtain ⟨h1, h2, _⟩ := hexVal_some_props c v h
  simp only [hexGo, h1, h2, h, if_false, Bool.false_eq_true]
  cases p <;> rfl

theorem hexGo_enc (s x : Str) (h : HexEnc s x) : ∀ (t acc : Str),
    hexGo (s ++ t) none acc = hexGo t none (x.reverse ++ acc) := by
  induction h with
  | nil => intro t acc; rfl
  | ws c s x hc _ ih =>
    intro t acc
    simp only [List.cons_append, hexGo, hc, if_true]
    exact ih t acc
  | byte h l b w s x hh hl hw _ ih =>
    intro t acc
    simp only [List.cons_append]
    rw [hexGo_digit h (b / 16) _ none acc hh]
    simp only [List.append_assoc]
    rw [hexGo_ws w _ _ _ hw]
    simp only [List.cons_append]
    rw [hexGo_digit l (b % 16) _ (some (b / 16)) acc hl]
    simp only
    rw [ih t]
    have : b / 16 * 16 + b % 16 = b := by omega
    simp [this]


theorem hexVal_hexDigit (u : Bool) (n : Nat) (h : n < 16) : hexVal (hexDigit u n) = some n := by
  unfold hexDigit hexVal
  by_cases h10 : n < 10
  · have a : 48 ≤ 48 + n ∧ 48 + n ≤ 57 := by omega
    simp only [h10, if_true, a, and_self]
    congr 1; omega
  · cases u
    · have a : ¬ (48 ≤ 87 + n ∧ 87 + n ≤ 57) := by omega
      have b : ¬ (65 ≤ 87 + n ∧ 87 + n ≤ 70) := by omega
      have c : (97 ≤ 87 + n ∧ 87 + n ≤ 102) := by omega
      simp only [h10, if_false, Bool.false_eq_true, a, b, c, if_true, and_self]
      congr 1; omega
    · have a : ¬ (48 ≤ 55 + n ∧ 55 + n ≤ 57) := by omega
      have b : (65 ≤ 55 + n ∧ 55 + n ≤ 70) := by omega
      simp only [h10, if_false, if_true, a, b, and_self]
      congr 1; omega

/-- the canonical encoder's output (without the EOD) is an accepted writing -/
theorem hexBody_HexEnc (u : Bool) (x : Str) (hx : ∀ b ∈ x, b < 256) : HexEnc (hexBody u x) x := by
  induction x with
  | nil => exact HexEnc.nil
  | cons b bs ih =>
    have hb : b < 256 := hx b (by simp)
    have := HexEnc.byte (hexDigit u (b / 16)) (hexDigit u (b % 16)) b [] (hexBody u bs) bs
      (hexVal_hexDigit u _ (by omega)) (hexVal_hexDigit u _ (by omega)) (by simp)
      (ih (fun c hc => hx c (by simp [hc])))
    simpa [hexBody] using this

theorem hexDecode_enc_eod (s x t : Str) (h : HexEnc s x) : hexDecode (s ++ 62 :: t) = some x := by
  unfold hexDecode
  rw [hexGo_enc s x h]
  simp [hexGo, isWs, hexFinish]

theorem hexDecode_enc_end (s x : Str) (h : HexEnc s x) : hexDecode s = some x := by
  unfold hexDecode
  have := hexGo_enc s x h [] []
  simp only [List.append_nil] at this
  rw [this]
  simp [hexGo, hexFinish]

theorem hexDecode_odd_eod (s x w t : Str) (c v : Nat) (h : HexEnc s x) (hc : hexVal c = some v)
    (hw : ∀ c ∈ w, isWs c = true) : hexDecode (s ++ c :: (w ++ 62 :: t)) = some (x ++ [v * 16]) := by
  unfold hexDecode
  rw [hexGo_enc s x h, hexGo_digit c v _ none _ hc]
  simp only
  rw [hexGo_ws w _ _ _ hw]
  simp [hexGo, isWs, hexFinish]

theorem hexDecode_odd_end (s x w : Str) (c v : Nat) (h : HexEnc s x) (hc : hexVal c = some v)
    (hw : ∀ c ∈ w, isWs c = true) : hexDecode (s ++ c :: w) = some (x ++ [v * 16]) := by
  unfold hexDecode
  rw [hexGo_enc s x h, hexGo_digit c v _ none _ hc]
  simp only
  have := hexGo_ws w [] (some v) (x.reverse ++ []) hw
  rw [List.append_nil w] at this
  rw [this]
  simp [hexGo, hexFinish]

/-- a byte that is neither white space, `>` nor a hexadecimal digit makes the decoder fail,
wherever it stands before the EOD -/
theorem hexGo_bad (pre post : Str) (c : Nat) (hpre : ∀ b ∈ pre, b ≠ 62)
    (h1 : isWs c = false) (h2 : c ≠ 62) (h3 : hexVal c = none) :
    ∀ (p : Option Nat) (acc : Str), hexGo (pre ++ c :: post) p acc = none := by
  induction pre with
  | nil => intro p acc; simp [hexGo, h1, h2, h3]
  | cons b bs ih =>
    intro p acc
    have hb : b ≠ 62 := hpre b (by simp)
    have ih' := ih (fun b' h' => hpre b' (by simp [h']))
    simp only [List.cons_append, hexGo, hb, if_false]
    split
    · exact ih' _ _
    · split
      · rfl
      · split
        · exact ih' _ _
        · exact ih' _ _



/-! ### ASCII85 -/


theorem a85Value_5 (d0 d1 d2 d3 d4 : Nat) :
    a85Value [d0, d1, d2, d3, d4] = (((d0 * 85 + d1) * 85 + d2) * 85 + d3) * 85 + d4 := by
  simp [a85Value]

/-- the five digits of V recompose to V (for V < 85^5), with the last `k` digits replaced -/
theorem digits_recompose4 (V x : Nat) :
    (((V / 52200625 * 85 + V / 614125 % 85) * 85 + V / 7225 % 85) * 85 + V / 85 % 85) * 85 + x
      = V / 85 * 85 + x := by
  have h1 : V / 85 / 85 = V / 7225 := Nat.div_div_eq_div_mul V 85 85
  have h2 : V / 7225 / 85 = V / 614125 := Nat.div_div_eq_div_mul V 7225 85
  have h3 : V / 614125 / 85 = V / 52200625 := Nat.div_div_eq_div_mul V 614125 85
  omega

theorem digits_recompose3 (V x : Nat) :
    ((V / 52200625 * 85 + V / 614125 % 85) * 85 + V / 7225 % 85) * 85 + x = V / 7225 * 85 + x := by
  have h2 : V / 7225 / 85 = V / 614125 := Nat.div_div_eq_div_mul V 7225 85
  have h3 : V / 614125 / 85 = V / 52200625 := Nat.div_div_eq_div_mul V 614125 85
  omega

theorem digits_recompose2 (V x : Nat) :
    (V / 52200625 * 85 + V / 614125 % 85) * 85 + x = V / 614125 * 85 + x := by
  have h3 : V / 614125 / 85 = V / 52200625 := Nat.div_div_eq_div_mul V 614125 85
  omega

theorem bytes4_word (a b c d : Nat) (ha : a < 256) (hb : b < 256) (hc : c < 256) (hd : d < 256) :
    bytes4 (word a b c d) = [a, b, c, d] := by
  unfold bytes4 word
  have e1 : (a * 16777216 + b * 65536 + c * 256 + d) / 16777216 % 256 = a := by omega
  have e2 : (a * 16777216 + b * 65536 + c * 256 + d) / 65536 % 256 = b := by omega
  have e3 : (a * 16777216 + b * 65536 + c * 256 + d) / 256 % 256 = c := by omega
  have e4 : (a * 16777216 + b * 65536 + c * 256 + d) % 256 = d := by omega
  rw [e1, e2, e3, e4]

theorem a85Flush_5 (d0 d1 d2 d3 d4 : Nat) : a85Flush [d0, d1, d2, d3, d4] =
    if (((d0 * 85 + d1) * 85 + d2) * 85 + d3) * 85 + d4 > 4294967295 then none
    else some (bytes4 ((((d0 * 85 + d1) * 85 + d2) * 85 + d3) * 85 + d4)) := by
  simp [a85Flush, a85Value, bytes4]

theorem a85Flush_4 (d0 d1 d2 d3 : Nat) : a85Flush [d0, d1, d2, d3] =
    if (((d0 * 85 + d1) * 85 + d2) * 85 + d3) * 85 + 84 > 4294967295 then none
    else some ((bytes4 ((((d0 * 85 + d1) * 85 + d2) * 85 + d3) * 85 + 84)).take 3) := by
  simp [a85Flush, a85Value, bytes4]

theorem a85Flush_3 (d0 d1 d2 : Nat) : a85Flush [d0, d1, d2] =
    if (((d0 * 85 + d1) * 85 + d2) * 85 + 84) * 85 + 84 > 4294967295 then none
    else some ((bytes4 ((((d0 * 85 + d1) * 85 + d2) * 85 + 84) * 85 + 84)).take 2) := by
  simp [a85Flush, a85Value, bytes4, List.replicate]

theorem a85Flush_2 (d0 d1 : Nat) : a85Flush [d0, d1] =
    if (((d0 * 85 + d1) * 85 + 84) * 85 + 84) * 85 + 84 > 4294967295 then none
    else some ((bytes4 ((((d0 * 85 + d1) * 85 + 84) * 85 + 84) * 85 + 84)).take 1) := by
  simp [a85Flush, a85Value, bytes4, List.replicate]

/-- full group: the decoder's value of the encoder's digits is the word itself -/
theorem flush_full (a b c d : Nat) (ha : a < 256) (hb : b < 256) (hc : c < 256) (hd : d < 256) :
    a85Flush [word a b c d / 52200625, word a b c d / 614125 % 85, word a b c d / 7225 % 85,
      word a b c d / 85 % 85, word a b c d % 85] = some [a, b, c, d] := by
  have hV : word a b c d < 4294967296 := by unfold word; omega
  rw [a85Flush_5, digits_recompose4]
  have e : word a b c d / 85 * 85 + word a b c d % 85 = word a b c d := by omega
  rw [e]
  have : ¬ (word a b c d > 4294967295) := by omega
  simp only [this, if_false]
  rw [bytes4_word a b c d ha hb hc hd]

theorem bytes_near3 (a b c W : Nat) (ha : a < 256) (hb : b < 256) (hc : c < 256)
    (h1 : a * 16777216 + b * 65536 + c * 256 ≤ W) (h2 : W ≤ a * 16777216 + b * 65536 + c * 256 + 255) :
    W / 16777216 % 256 = a ∧ W / 65536 % 256 = b ∧ W / 256 % 256 = c := by
  refine ⟨?_, ?_, ?_⟩ <;> omega

theorem bytes_near2 (a b W : Nat) (ha : a < 256) (hb : b < 256)
    (h1 : a * 16777216 + b * 65536 ≤ W) (h2 : W ≤ a * 16777216 + b * 65536 + 65535) :
    W / 16777216 % 256 = a ∧ W / 65536 % 256 = b := by
  refine ⟨?_, ?_⟩ <;> omega

theorem bytes_near1 (a W : Nat) (ha : a < 256)
    (h1 : a * 16777216 ≤ W) (h2 : W ≤ a * 16777216 + 16777215) :
    W / 16777216 % 256 = a := by
  omega

/-- partial group of three bytes: four digits, padded with 84 -/
theorem flush_3 (a b c : Nat) (ha : a < 256) (hb : b < 256) (hc : c < 256) :
    a85Flush [word a b c 0 / 52200625, word a b c 0 / 614125 % 85, word a b c 0 / 7225 % 85,
      word a b c 0 / 85 % 85] = some [a, b, c] := by
  rw [a85Flush_4, digits_recompose4]
  have hV : word a b c 0 = a * 16777216 + b * 65536 + c * 256 := by unfold word; omega
  rw [hV]
  generalize hW : (a * 16777216 + b * 65536 + c * 256) / 85 * 85 + 84 = W
  have h1 : a * 16777216 + b * 65536 + c * 256 ≤ W := by omega
  have h2 : W ≤ a * 16777216 + b * 65536 + c * 256 + 255 := by omega
  have : ¬ (W > 4294967295) := by omega
  obtain ⟨e1, e2, e3⟩ := bytes_near3 a b c W ha hb hc h1 h2
  simp only [this, if_false, bytes4, e1, e2, e3]
  rfl

theorem flush_2 (a b : Nat) (ha : a < 256) (hb : b < 256) :
    a85Flush [word a b 0 0 / 52200625, word a b 0 0 / 614125 % 85, word a b 0 0 / 7225 % 85] = some [a, b] := by
  rw [a85Flush_3]
  have hV : word a b 0 0 = a * 16777216 + b * 65536 := by unfold word; omega
  rw [hV, digits_recompose3]
  generalize hW : ((a * 16777216 + b * 65536) / 7225 * 85 + 84) * 85 + 84 = W
  have h1 : a * 16777216 + b * 65536 ≤ W := by omega
  have h2 : W ≤ a * 16777216 + b * 65536 + 65535 := by omega
  have : ¬ (W > 4294967295) := by omega
  obtain ⟨e1, e2⟩ := bytes_near2 a b W ha hb h1 h2
  simp only [this, if_false, bytes4, e1, e2]
  rfl

theorem flush_1 (a : Nat) (ha : a < 256) :
    a85Flush [word a 0 0 0 / 52200625, word a 0 0 0 / 614125 % 85] = some [a] := by
  rw [a85Flush_2]
  have hV : word a 0 0 0 = a * 16777216 := by unfold word; omega
  rw [hV, digits_recompose2]
  generalize hW : (((a * 16777216) / 614125 * 85 + 84) * 85 + 84) * 85 + 84 = W
  have h1 : a * 16777216 ≤ W := by omega
  have h2 : W ≤ a * 16777216 + 16777215 := by omega
  have : ¬ (W > 4294967295) := by omega
  have e1 := bytes_near1 a W ha h1 h2
  simp only [this, if_false, bytes4, e1]
  rfl


theorem isWs_ge33 (c : Nat) (h : 33 ≤ c) : isWs c = false := by
  simp [isWs]; omega

/-- one digit character `d+33` (d < 85) read by the decoder inside a group that stays incomplete -/
theorem a85Go_step (d : Nat) (hd : d < 85) (rest ds acc : Str) (hl : ds.length < 4) :
    a85Go ((d + 33) :: rest) ds acc = a85Go rest (ds ++ [d]) acc := by
  have h1 : isWs (d + 33) = false := isWs_ge33 _ (by omega)
  have h2 : ¬ (d + 33 = 126 ∧ rest.head? = some 62) := by omega
  have h3 : ¬ (ds = [] ∧ d + 33 = 122) := by omega
  have h4 : ¬ (d + 33 < 33 ∨ d + 33 > 117) := by omega
  have h5 : ¬ ((ds ++ [d]).length = 5) := by simp; omega
  rw [a85Go]
  simp only [h1, h2, h3, h4, if_false, Bool.false_eq_true, Nat.add_sub_cancel, h5]

/-- the fifth digit of a group -/
theorem a85Go_step5 (d : Nat) (hd : d < 85) (rest ds acc : Str) (hl : ds.length = 4) :
    a85Go ((d + 33) :: rest) ds acc =
      match a85Flush (ds ++ [d]) with
      | none => none
      | some g => a85Go rest [] (g.reverse ++ acc) := by
  have h1 : isWs (d + 33) = false := isWs_ge33 _ (by omega)
  have h2 : ¬ (d + 33 = 126 ∧ rest.head? = some 62) := by omega
  have h3 : ¬ (ds = [] ∧ d + 33 = 122) := by omega
  have h4 : ¬ (d + 33 < 33 ∨ d + 33 > 117) := by omega
  have h5 : (ds ++ [d]).length = 5 := by simp; omega
  rw [a85Go]
  simp only [h1, h2, h3, h4, if_false, Bool.false_eq_true, Nat.add_sub_cancel, h5, if_true]
  cases a85Flush (ds ++ [d]) <;> rfl

theorem a85Go_z (rest acc : Str) : a85Go (122 :: rest) [] acc = a85Go rest [] (0 :: 0 :: 0 :: 0 :: acc) := by
  rw [a85Go]
  simp [isWs]

theorem a85Go_eod (t ds acc : Str) : a85Go (126 :: 62 :: t) ds acc = a85Finish ds acc := by
  rw [a85Go]
  simp [isWs]

theorem a85Go_end (ds acc : Str) : a85Go [] ds acc = a85Finish ds acc := by
  rw [a85Go]

theorem digit_lt (V : Nat) (hV : V < 4294967296) :
    V / 52200625 < 85 ∧ V / 614125 % 85 < 85 ∧ V / 7225 % 85 < 85 ∧ V / 85 % 85 < 85 ∧ V % 85 < 85 := by
  refine ⟨?_, ?_, ?_, ?_, ?_⟩ <;> omega


theorem a85Go_four (d0 d1 d2 d3 : Nat) (h0 : d0 < 85) (h1 : d1 < 85) (h2 : d2 < 85) (h3 : d3 < 85) (t acc : Str) :
    a85Go ((d0 + 33) :: (d1 + 33) :: (d2 + 33) :: (d3 + 33) :: t) [] acc = a85Go t [d0, d1, d2, d3] acc := by
  rw [a85Go_step d0 h0 _ [] acc (by simp), a85Go_step d1 h1 _ _ acc (by simp), a85Go_step d2 h2 _ _ acc (by simp),
    a85Go_step d3 h3 _ _ acc (by simp)]
  rfl

theorem a85Go_three (d0 d1 d2 : Nat) (h0 : d0 < 85) (h1 : d1 < 85) (h2 : d2 < 85) (t acc : Str) :
    a85Go ((d0 + 33) :: (d1 + 33) :: (d2 + 33) :: t) [] acc = a85Go t [d0, d1, d2] acc := by
  rw [a85Go_step d0 h0 _ [] acc (by simp), a85Go_step d1 h1 _ _ acc (by simp), a85Go_step d2 h2 _ _ acc (by simp)]
  rfl

theorem a85Go_two (d0 d1 : Nat) (h0 : d0 < 85) (h1 : d1 < 85) (t acc : Str) :
    a85Go ((d0 + 33) :: (d1 + 33) :: t) [] acc = a85Go t [d0, d1] acc := by
  rw [a85Go_step d0 h0 _ [] acc (by simp), a85Go_step d1 h1 _ _ acc (by simp)]
  rfl

theorem a85Go_five (d0 d1 d2 d3 d4 : Nat) (h0 : d0 < 85) (h1 : d1 < 85) (h2 : d2 < 85) (h3 : d3 < 85)
    (h4 : d4 < 85) (t acc g : Str) (hg : a85Flush [d0, d1, d2, d3, d4] = some g) :
    a85Go ((d0 + 33) :: (d1 + 33) :: (d2 + 33) :: (d3 + 33) :: (d4 + 33) :: t) [] acc
      = a85Go t [] (g.reverse ++ acc) := by
  rw [a85Go_four d0 d1 d2 d3 h0 h1 h2 h3, a85Go_step5 d4 h4 _ _ acc (by simp)]
  simp only [List.cons_append, List.nil_append, hg]


/-- a complete group written by the encoder is read back as its four bytes -/
theorem a85Go_group (a b c d : Nat) (ha : a < 256) (hb : b < 256) (hc : c < 256) (hd : d < 256) (t acc : Str) :
    a85Go ((if a = 0 ∧ b = 0 ∧ c = 0 ∧ d = 0 then [122] else a85Digits (word a b c d)) ++ t) [] acc
      = a85Go t [] (d :: c :: b :: a :: acc) := by
  split
  · rename_i h
    obtain ⟨rfl, rfl, rfl, rfl⟩ := h
    exact a85Go_z t acc
  · have hV : word a b c d < 4294967296 := by unfold word; omega
    obtain ⟨h0, h1, h2, h3, h4⟩ := digit_lt _ hV
    have := a85Go_five _ _ _ _ _ h0 h1 h2 h3 h4 t acc _ (flush_full a b c d ha hb hc hd)
    exact this


/-- the whole body followed by something that makes the decoder stop (the EOD, or the end of the data) -/
theorem a85Go_body (tail : Str) (htail : ∀ ds acc, a85Go tail ds acc = a85Finish ds acc) :
    ∀ (x acc : Str), (∀ r ∈ x, r < 256) → a85Go (a85Body x ++ tail) [] acc = some (acc.reverse ++ x) := by
  intro x
  induction x using a85Body.induct with
  | case1 a b c d rest ih =>
    intro acc hx
    rw [a85Body, List.append_assoc]
    rw [a85Go_group a b c d (hx a (by simp)) (hx b (by simp)) (hx c (by simp)) (hx d (by simp))]
    rw [ih _ (fun r hr => hx r (by simp [hr]))]
    simp
  | case2 a b c =>
    intro acc hx
    have ha := hx a (by simp); have hb := hx b (by simp); have hc := hx c (by simp)
    have hV : word a b c 0 < 4294967296 := by unfold word; omega
    obtain ⟨h0, h1, h2, h3, _⟩ := digit_lt _ hV
    have e := a85Go_four _ _ _ _ h0 h1 h2 h3 tail acc
    have e' : a85Go (a85Body [a, b, c] ++ tail) [] acc = a85Go tail [word a b c 0 / 52200625, word a b c 0 / 614125 % 85,
        word a b c 0 / 7225 % 85, word a b c 0 / 85 % 85] acc := e
    rw [e', htail, a85Finish, flush_3 a b c ha hb hc]
  | case3 a b =>
    intro acc hx
    have ha := hx a (by simp); have hb := hx b (by simp)
    have hV : word a b 0 0 < 4294967296 := by unfold word; omega
    obtain ⟨h0, h1, h2, _, _⟩ := digit_lt _ hV
    have e : a85Go (a85Body [a, b] ++ tail) [] acc = a85Go tail [word a b 0 0 / 52200625, word a b 0 0 / 614125 % 85,
        word a b 0 0 / 7225 % 85] acc := a85Go_three _ _ _ h0 h1 h2 tail acc
    rw [e, htail, a85Finish, flush_2 a b ha hb]
  | case4 a =>
    intro acc hx
    have ha := hx a (by simp)
    have hV : word a 0 0 0 < 4294967296 := by unfold word; omega
    obtain ⟨h0, h1, _, _, _⟩ := digit_lt _ hV
    have e : a85Go (a85Body [a] ++ tail) [] acc = a85Go tail [word a 0 0 0 / 52200625, word a 0 0 0 / 614125 % 85] acc :=
      a85Go_two _ _ h0 h1 tail acc
    rw [e, htail, a85Finish, flush_1 a ha]
  | case5 =>
    intro acc _
    simp only [a85Body, List.nil_append]
    rw [htail]
    simp [a85Finish, a85Flush]


/-- white space is invisible to the decoder (as long as it does not split the EOD marker) -/
theorem a85Go_strip (s t : Str) (hs : ∀ c ∈ s, c ≠ 126) : ∀ (ds acc : Str),
    a85Go (s ++ t) ds acc = a85Go (s.filter (fun c => !isWs c) ++ t) ds acc := by
  induction s with
  | nil => intro ds acc; rfl
  | cons c cs ih =>
    intro ds acc
    have ih' := ih (fun c' h' => hs c' (by simp [h']))
    have hc : c ≠ 126 := hs c (by simp)
    cases hw : isWs c
    · have h2 : ∀ (r : Str), ¬ (c = 126 ∧ r.head? = some 62) := fun r h => hc h.1
      simp only [List.filter_cons, hw, Bool.not_false, if_true, List.cons_append]
      rw [a85Go, a85Go]
      simp only [hw, Bool.false_eq_true, if_false, h2, ih']
    · simp only [List.filter_cons, hw, Bool.not_true, Bool.false_eq_true, if_false, List.cons_append]
      rw [a85Go]
      simp only [hw, if_true]
      exact ih' ds acc

theorem a85Body_no_tilde : ∀ (x : Str), (∀ r ∈ x, r < 256) → ∀ c ∈ a85Body x, c ≠ 126 ∧ isWs c = false ∧ c < 256 := by
  intro x
  induction x using a85Body.induct with
  | case1 a b c d rest ih =>
    intro hx ch hc
    rw [a85Body] at hc
    rcases List.mem_append.mp hc with h | h
    · have hV : word a b c d < 4294967296 := by
        have := hx a (by simp); have := hx b (by simp); have := hx c (by simp); have := hx d (by simp)
        unfold word; omega
      obtain ⟨h0, h1, h2, h3, h4⟩ := digit_lt _ hV
      split at h
      · simp at h; subst h; exact ⟨by omega, by decide, by omega⟩
      · simp only [a85Digits, List.mem_cons, List.not_mem_nil, or_false] at h
        rcases h with h | h | h | h | h <;> (subst h; exact ⟨by omega, isWs_ge33 _ (by omega), by omega⟩)
    · exact ih (fun r hr => hx r (by simp [hr])) ch h
  | case2 a b c =>
    intro hx ch hc
    have hV : word a b c 0 < 4294967296 := by
      have := hx a (by simp); have := hx b (by simp); have := hx c (by simp)
      unfold word; omega
    obtain ⟨h0, h1, h2, h3, h4⟩ := digit_lt _ hV
    simp only [a85Body, a85Digits, List.take, List.mem_cons, List.not_mem_nil, or_false] at hc
    rcases hc with h | h | h | h <;> (subst h; exact ⟨by omega, isWs_ge33 _ (by omega), by omega⟩)
  | case3 a b =>
    intro hx ch hc
    have hV : word a b 0 0 < 4294967296 := by
      have := hx a (by simp); have := hx b (by simp)
      unfold word; omega
    obtain ⟨h0, h1, h2, h3, h4⟩ := digit_lt _ hV
    simp only [a85Body, a85Digits, List.take, List.mem_cons, List.not_mem_nil, or_false] at hc
    rcases hc with h | h | h <;> (subst h; exact ⟨by omega, isWs_ge33 _ (by omega), by omega⟩)
  | case4 a =>
    intro hx ch hc
    have hV : word a 0 0 0 < 4294967296 := by
      have := hx a (by simp)
      unfold word; omega
    obtain ⟨h0, h1, h2, h3, h4⟩ := digit_lt _ hV
    simp only [a85Body, a85Digits, List.take, List.mem_cons, List.not_mem_nil, or_false] at hc
    rcases hc with h | h <;> (subst h; exact ⟨by omega, isWs_ge33 _ (by omega), by omega⟩)
  | case5 => intro _ c hc; simp [a85Body] at hc

theorem a85Writing_no_tilde (s x : Str) (hx : ∀ r ∈ x, r < 256) (h : A85Writing s x) : ∀ c ∈ s, c ≠ 126 := by
  intro c hc h126
  have hws : isWs c = false := by subst h126; decide
  have : c ∈ s.filter (fun c => !isWs c) := by simp [List.mem_filter, hc, hws]
  rw [h] at this
  exact (a85Body_no_tilde x hx c this).1 h126

theorem a85Decode_writing (s x tail : Str) (hx : ∀ r ∈ x, r < 256) (h : A85Writing s x)
    (htail : ∀ ds acc, a85Go tail ds acc = a85Finish ds acc) : a85Decode (s ++ tail) = some x := by
  unfold a85Decode
  rw [a85Go_strip s tail (a85Writing_no_tilde s x hx h), h, a85Go_body tail htail x [] hx]
  simp




/-! ### undecodable data -/


theorem a85Go_ws (w t : Str) (ds acc : Str) (hw : ∀ c ∈ w, isWs c = true) :
    a85Go (w ++ t) ds acc = a85Go t ds acc := by
  induction w with
  | nil => rfl
  | cons c cs ih =>
    have hc : isWs c = true := hw c (by simp)
    rw [List.cons_append, a85Go]
    simp only [hc, if_true]
    exact ih (fun c' h' => hw c' (by simp [h']))

/-- up to four digit characters are collected into the current group -/
theorem a85Go_partial (g t acc : Str) (hg : ∀ c ∈ g, 33 ≤ c ∧ c ≤ 117) : ∀ (ds : Str),
    ds.length + g.length ≤ 4 → a85Go (g ++ t) ds acc = a85Go t (ds ++ g.map (· - 33)) acc := by
  induction g with
  | nil => intro ds _; simp
  | cons c cs ih =>
    intro ds hl
    simp only [List.length_cons] at hl
    obtain ⟨h1, h2⟩ := hg c (by simp)
    have e : c = (c - 33) + 33 := by omega
    rw [List.cons_append, e, a85Go_step (c - 33) (by omega) _ ds acc (by omega)]
    rw [ih (fun c' h' => hg c' (by simp [h'])) (ds ++ [c - 33]) (by simp; omega)]
    simp

/-- `z` inside a group is an error -/
theorem a85Go_z_in_group (post ds acc : Str) (h : ds ≠ []) : a85Go (122 :: post) ds acc = none := by
  rw [a85Go]
  simp [isWs, h]

/-- a byte that cannot occur in ASCII85 data makes the decoder fail wherever it stands before the EOD -/
theorem a85Go_bad (post : Str) (c : Nat) (h1 : isWs c = false) (h2 : c ≠ 122) (h3 : c < 33 ∨ c > 117)
    (h4 : ¬ (c = 126 ∧ post.head? = some 62)) :
    ∀ (pre : Str), (∀ b ∈ pre, b ≠ 126) → ∀ (ds acc : Str), a85Go (pre ++ c :: post) ds acc = none := by
  intro pre
  induction pre with
  | nil =>
    intro _ ds acc
    rw [List.nil_append, a85Go]
    have : ¬ (ds = [] ∧ c = 122) := fun h => h2 h.2
    simp only [h1, h4, this, h3, if_true, if_false, Bool.false_eq_true]
  | cons b bs ih =>
    intro hpre ds acc
    have hb : b ≠ 126 := hpre b (by simp)
    have ih' := ih (fun b' h' => hpre b' (by simp [h']))
    have hb' : ∀ (r : Str), ¬ (b = 126 ∧ r.head? = some 62) := fun r h => hb h.1
    rw [List.cons_append, a85Go]
    simp only [hb', if_false]
    split
    · exact ih' _ _
    · split
      · exact ih' _ _
      · split
        · rfl
        · split
          · split
            · rfl
            · exact ih' _ _
          · exact ih' _ _

/-- a group of five digits whose value exceeds 2^32-1 is an error -/
theorem a85Go_overflow (d0 d1 d2 d3 d4 : Nat) (h0 : d0 < 85) (h1 : d1 < 85) (h2 : d2 < 85) (h3 : d3 < 85)
    (h4 : d4 < 85) (t acc : Str) (hv : (((d0 * 85 + d1) * 85 + d2) * 85 + d3) * 85 + d4 > 4294967295) :
    a85Go ((d0 + 33) :: (d1 + 33) :: (d2 + 33) :: (d3 + 33) :: (d4 + 33) :: t) [] acc = none := by
  rw [a85Go_four d0 d1 d2 d3 h0 h1 h2 h3, a85Go_step5 d4 h4 _ _ acc (by simp)]
  have : a85Flush ([d0, d1, d2, d3] ++ [d4]) = none := by
    show a85Flush [d0, d1, d2, d3, d4] = none
    rw [a85Flush_5, if_pos hv]
  rw [this]


theorem pngPredicted_bad_tag (tag bpp : Nat) (prev : Option Str) (done : Str) (h : tag > 4) :
    pngPredicted tag bpp prev done = none := by
  unfold pngPredicted
  match tag, h with
  | n + 5, _ => rfl

theorem decodePNGRow_bad_tag (row : Str) (tag bpp : Nat) (prev : Option Str) (h : tag > 4) (hr : row ≠ []) :
    decodePNGRow row tag bpp prev = none := by
  unfold decodePNGRow
  cases row with
  | nil => exact absurd rfl hr
  | cons f fs => simp [decRow, pngPredicted_bad_tag tag bpp prev [] h]

/-- a filter-type byte above 4 in any row makes the PNG predictor fail -/
theorem pngRows_bad_tag (rowLen bpp : Nat) (hrow : 1 ≤ rowLen) (tag : Nat) (htag : tag > 4) (rest : Str)
    (hrest : rest ≠ []) : ∀ (k n : Nat) (pre : Str) (prev : Option Str) (acc : List Str),
    k < n → pre.length = k * (rowLen + 1) →
    pngRows n rowLen bpp (pre ++ tag :: rest) prev acc = none := by
  intro k
  induction k with
  | zero =>
    intro n pre prev acc hk hpre
    have : pre = [] := by simpa using hpre
    subst this
    obtain ⟨m, rfl⟩ : ∃ m, n = m + 1 := ⟨n - 1, by omega⟩
    simp only [List.nil_append, pngRows]
    have hne : rest.take rowLen ≠ [] := by
      cases rest with
      | nil => exact absurd rfl hrest
      | cons r rs =>
        obtain ⟨q, rfl⟩ : ∃ q, rowLen = q + 1 := ⟨rowLen - 1, by omega⟩
        simp
    rw [decodePNGRow_bad_tag _ tag bpp prev htag hne]
  | succ k ih =>
    intro n pre prev acc hk hpre
    obtain ⟨m, rfl⟩ : ∃ m, n = m + 1 := ⟨n - 1, by omega⟩
    cases pre with
    | nil => simp [Nat.add_mul] at hpre
    | cons t0 body =>
      simp only [List.cons_append, pngRows]
      split
      · rfl
      · rename_i row _
        have hbl : body.length = k * (rowLen + 1) + rowLen := by
          simp only [List.length_cons] at hpre
          rw [Nat.add_mul] at hpre
          omega
        have hd : (body ++ tag :: rest).drop rowLen = body.drop rowLen ++ tag :: rest := by
          rw [List.drop_append_of_le_length (by omega)]
        rw [hd]
        exact ih m (body.drop rowLen) (some row) (row :: acc) (by omega) (by simp [hbl])

theorem predictorRowBytes_bad (columns colors : Int) (h : columns < 1 ∨ colors < 1) :
    predictorRowBytes columns colors = none := by
  unfold predictorRowBytes
  simp [h]




/-! ### the row filter, position by position -/


/-- the left-to-right row filter, position by position -/
theorem encRow_eq_map (P : Str → Nat) : ∀ (rest done : Str),
    encRow P rest done = (List.range rest.length).map (fun k =>
      ((done ++ rest).getD (done.length + k) 0 + 256 - P ((done ++ rest).take (done.length + k)) % 256) % 256) := by
  intro rest
  induction rest with
  | nil => intro done; simp [encRow]
  | cons r rs ih =>
    intro done
    simp only [encRow, List.length_cons, List.range_succ_eq_map, List.map_cons, List.map_map]
    congr 1
    · simp [List.getD_eq_getElem?_getD]
    · rw [ih (done ++ [r])]
      apply List.map_congr_left
      intro k _
      simp only [Function.comp, List.length_append, List.length_cons, List.length_nil, List.append_assoc,
        List.cons_append, List.nil_append]
      have : done.length + (0 + 1) + k = done.length + (k + 1) := by omega
      rw [this]

theorem byteAt_take (raw : Str) (x : Nat) (i : Int) (h : i < (x : Int)) : byteAt (raw.take x) i = byteAt raw i := by
  unfold byteAt
  split
  · rfl
  · rename_i hi
    have : i.toNat < x := by omega
    simp [List.getD_eq_getElem?_getD, this]

/-- PNG §9.2 literally: Filt(x) = Raw(x) - pred(Raw(x-bpp), Prior(x), Prior(x-bpp)) mod 256 for
every position x of the scanline -/
theorem encRow_is_png_spec (tag bpp : Nat) (hb : 1 ≤ bpp) (prior raw : Str) :
    encRow (specPredAt tag bpp prior) raw [] = (List.range raw.length).map (fun x =>
      (raw.getD x 0 + 256 - specPred tag (byteAt raw ((x : Int) - bpp)) (byteAt prior x)
        (byteAt prior ((x : Int) - bpp)) % 256) % 256) := by
  rw [encRow_eq_map]
  apply List.map_congr_left
  intro x hx
  have hx' : x < raw.length := by simpa using hx
  simp only [List.nil_append, List.length_nil, Nat.zero_add, specPredAt, List.length_take]
  have : min x raw.length = x := by omega
  rw [this, byteAt_take raw x _ (by omega)]



/-- TIFF 6.0 §14 literally: each sample minus the sample `colors` positions to its left -/
theorem encRow_is_tiff_spec (colors : Nat) (hc : 1 ≤ colors) (raw : Str) :
    encRow (specTiffAt colors) raw [] = (List.range raw.length).map (fun x =>
      (raw.getD x 0 + 256 - byteAt raw ((x : Int) - colors) % 256) % 256) := by
  rw [encRow_eq_map]
  apply List.map_congr_left
  intro x hx
  have hx' : x < raw.length := by simpa using hx
  simp only [List.nil_append, List.length_nil, Nat.zero_add, specTiffAt, List.length_take]
  have : min x raw.length = x := by omega
  rw [this, byteAt_take raw x _ (by omega)]

/-! ### the size limit of `filters.CCITTFaxDecode` (`ccittLimit`, fix 6dc2783) -/

theorem ccittKept_length (out : Str) : (ccittKept out).length = min (maxCCITTOutput + 1) out.length := by
  simp [ccittKept, List.length_take]

theorem ccittKept_of_le (out : Str) (h : out.length ≤ maxCCITTOutput + 1) : ccittKept out = out := by
  unfold ccittKept
  exact List.take_of_length_le h

theorem ccittKept_idem (out : Str) : ccittKept (ccittKept out) = ccittKept out :=
  ccittKept_of_le _ (by rw [ccittKept_length]; omega)

/-- within the limit the reader's bytes are handed on unchanged -/
theorem ccittLimit_within (out : Str) (h : out.length ≤ maxCCITTOutput) : ccittLimit (some out) = some out := by
  have hk : ccittKept out = out := ccittKept_of_le out (by omega)
  simp only [ccittLimit, hk]
  rw [if_neg (by omega)]

/-- beyond the limit: an error -/
theorem ccittLimit_beyond (out : Str) (h : out.length > maxCCITTOutput) : ccittLimit (some out) = none := by
  have hk : (ccittKept out).length = maxCCITTOutput + 1 := by rw [ccittKept_length]; omega
  simp only [ccittLimit, hk]
  rw [if_pos (by omega)]

/-- `ccittLimit` without the reader: an answer of more than `maxCCITTOutput` bytes becomes an error,
every other answer is kept -/
theorem ccittLimit_eq (r : Option Str) :
    ccittLimit r = r.bind fun out => if out.length > maxCCITTOutput then none else some out := by
  cases r with
  | none => rfl
  | some out =>
    by_cases h : out.length > maxCCITTOutput
    · rw [ccittLimit_beyond out h]; simp [h]
    · rw [ccittLimit_within out (by omega)]; simp [h]

theorem ccittLimit_some_iff (r : Option Str) (out : Str) :
    ccittLimit r = some out ↔ r = some out ∧ out.length ≤ maxCCITTOutput := by
  cases r with
  | none => simp [ccittLimit]
  | some o =>
    by_cases h : o.length > maxCCITTOutput
    · rw [ccittLimit_beyond o h]
      constructor
      · intro h'; exact absurd h' (by simp)
      · rintro ⟨h1, h2⟩
        simp only [Option.some.injEq] at h1
        subst h1; omega
    · rw [ccittLimit_within o (by omega)]
      constructor
      · intro h'
        simp only [Option.some.injEq] at h'
        subst h'
        exact ⟨rfl, by omega⟩
      · rintro ⟨h1, _⟩; exact h1

/-- the result depends on the reader's answer only through its first `maxCCITTOutput + 1` bytes -/
theorem ccittLimit_prefix (r : Option Str) : ccittLimit (r.map ccittKept) = ccittLimit r := by
  cases r with
  | none => rfl
  | some out => simp only [Option.map_some, ccittLimit, ccittKept_idem]

end Tabula.Filters
