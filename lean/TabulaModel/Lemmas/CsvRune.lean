import TabulaModel.Model.CsvRune
import TabulaModel.Lemmas.Csv
/-!
Lemmas for the rune-delimiter writer/reader pair of `Model/CsvRune.lean`:
`csvReadR (runeBytes r) (csvWriteR extra (runeBytes r) rows) = some rows` for every valid
delimiter rune and ALL field bytes, and agreement with the one-byte model of `Model/Csv.lean`.
-/
namespace Tabula.Csv

/-! ### one unfolding step of the reader -/

theorem stepsR_nil (D : Str) (s : St) (a : Acc) : stepsR D s a [] = some (s, a) := by
  rw [stepsR]

theorem stepsR_cons (D : Str) (s : St) (a : Acc) (c : Nat) (cs : Str) :
    stepsR D s a (c :: cs) =
      match stepR D s a c cs with
      | none => none
      | some (s', a', k) => stepsR D s' a' (cs.drop k) := by
  rw [stepsR]
  rfl

theorem stepsR_of_stepR {D : Str} {s s' : St} {a a' : Acc} {c k : Nat} {cs : Str}
    (h : stepR D s a c cs = some (s', a', k)) :
    stepsR D s a (c :: cs) = stepsR D s' a' (cs.drop k) := by
  rw [stepsR_cons, h]

/-! ### prefixes -/

theorem hasPrefix_append_self (D t : Str) : hasPrefix D (D ++ t) = true := by
  induction D with
  | nil => simp [hasPrefix]
  | cons b bs ih => simp [hasPrefix, ih]

/-- if `P` is a prefix of `x ++ t` then it is a prefix of `x`, or it sticks out of `x` -/
theorem hasPrefix_split {P x t : Str} (h : hasPrefix P (x ++ t) = true) :
    hasPrefix P x = true ∨ ∃ P', P' ≠ [] ∧ P = x ++ P' ∧ hasPrefix P' t = true := by
  induction P generalizing x with
  | nil => left; simp [hasPrefix]
  | cons p ps ih =>
    cases x with
    | nil => right; exact ⟨p :: ps, by simp, by simp, by simpa using h⟩
    | cons c cs =>
      simp only [List.cons_append, hasPrefix, Bool.and_eq_true, beq_iff_eq] at h
      obtain ⟨hpc, hrest⟩ := h
      rcases ih hrest with h1 | ⟨P', hne, heq, hP'⟩
      · left; simp [hasPrefix, hpc, h1]
      · right; exact ⟨P', hne, by simp [hpc, heq], hP'⟩

/-! ### what the proof needs to know about the delimiter bytes -/

/-- the first byte does not occur again ("no border": no proper suffix of `D` starts like
`D`), and `"`, LF, CR do not occur at all -/
def delimOk (D : Str) : Prop :=
  ∃ b bs, D = b :: bs ∧ b ∉ bs ∧ 34 ∉ D ∧ 10 ∉ D ∧ 13 ∉ D

/-- the text after a written field starts with LF or with the delimiter -/
def sepHead (D t : Str) : Prop :=
  ∃ e t', t = e :: t' ∧ (e = 10 ∨ D.head? = some e)

theorem sepHead_lf (D t : Str) : sepHead D (10 :: t) := ⟨10, t, rfl, Or.inl rfl⟩

theorem sepHead_delim {D : Str} (hD : delimOk D) (t : Str) : sepHead D (D ++ t) := by
  obtain ⟨b, bs, rfl, _⟩ := hD
  exact ⟨b, bs ++ t, rfl, Or.inr rfl⟩

/-- KEY: a delimiter cannot begin inside an unquoted field body and end in what follows it -/
theorem hasPrefix_field_false {D x t : Str} (hD : delimOk D) (hx : x ≠ [])
    (hp : hasPrefix D x = false) (ht : sepHead D t) : hasPrefix D (x ++ t) = false := by
  cases h : hasPrefix D (x ++ t) with
  | false => rfl
  | true =>
    exfalso
    rcases hasPrefix_split h with h1 | ⟨P', hne, heq, hP'⟩
    · rw [h1] at hp; cases hp
    · obtain ⟨b, bs, rfl, hb, _, h10, _⟩ := hD
      obtain ⟨e', t', rfl, he'⟩ := ht
      cases x with
      | nil => exact hx rfl
      | cons c cs =>
        cases P' with
        | nil => exact hne rfl
        | cons e es =>
          simp only [hasPrefix, Bool.and_eq_true, beq_iff_eq] at hP'
          simp only [List.cons_append, List.cons.injEq] at heq
          have hmem : e ∈ bs := by rw [heq.2]; simp
          rcases he' with he' | he'
          · apply h10; rw [← he', ← hP'.1]; simp [hmem]
          · simp only [List.head?_cons, Option.some.injEq] at he'
            apply hb; rw [he', ← hP'.1]; exact hmem

/-! ### the writer's quoting test -/

theorem containsSub_false_cons {D : Str} {c : Nat} {cs : Str}
    (h : containsSub D (c :: cs) = false) :
    hasPrefix D (c :: cs) = false ∧ containsSub D cs = false := by
  simpa [containsSub] using h

theorem mustQuoteR_false_cons {D : Str} {c : Nat} {cs : Str}
    (h : mustQuoteR D (c :: cs) = false) :
    hasPrefix D (c :: cs) = false ∧ c ≠ 34 ∧ c ≠ 10 ∧ c ≠ 13 ∧ mustQuoteR D cs = false := by
  simp only [mustQuoteR, containsSub, List.any_cons, Bool.or_eq_false_iff, beq_eq_false_iff_ne]
    at h
  obtain ⟨⟨h1, h2⟩, ⟨⟨h3, h4⟩, h5⟩, h6⟩ := h
  refine ⟨h1, h3, h4, h5, ?_⟩
  simp [mustQuoteR, h2, h6]

/-! ### the reader on the pieces of the writer's output -/

theorem stepR_plain_ordinary {D : Str} {c : Nat} {cs : Str} {s : St} (a : Acc) (hs : plain s)
    (hp : hasPrefix D (c :: cs) = false) (h34 : c ≠ 34) (h10 : c ≠ 10) (h13 : c ≠ 13) :
    stepR D s a c cs = some (.unq, push a c, 0) := by
  rcases hs with h | h | h <;> subst h <;> simp [stepR, hp, h34, h10, h13]

/-- an unquoted field body is copied into `cur`; `t` is the rest of the input -/
theorem stepsR_unquoted {D : Str} (hD : delimOk D) (f t : Str) (s : St) (a : Acc) (hs : plain s)
    (hf : mustQuoteR D f = false) (ht : sepHead D t) :
    ∃ s', plain s' ∧ stepsR D s a (f ++ t) = stepsR D s' { a with cur := a.cur ++ f } t := by
  induction f generalizing s a with
  | nil => exact ⟨s, hs, by simp⟩
  | cons c cs ih =>
    obtain ⟨hp, h34, h10, h13, hcs⟩ := mustQuoteR_false_cons hf
    have hp' : hasPrefix D (c :: (cs ++ t)) = false :=
      hasPrefix_field_false (x := c :: cs) hD (by simp) hp ht
    obtain ⟨s', hs', h⟩ := ih .unq (push a c) (Or.inr (Or.inr rfl)) hcs
    refine ⟨s', hs', ?_⟩
    simp only [push, List.append_assoc, List.singleton_append] at h
    rw [List.cons_append, stepsR_of_stepR (stepR_plain_ordinary a hs hp' h34 h10 h13)]
    simpa [push] using h

/-- the escaped body of a quoted field is decoded into `cur` -/
theorem stepsR_escape (D : Str) (f t : Str) (a : Acc) :
    stepsR D .quo a (escape f ++ t) = stepsR D .quo { a with cur := a.cur ++ f } t := by
  induction f generalizing a with
  | nil => simp [escape]
  | cons c cs ih =>
    by_cases hc : c = 34
    · subst hc
      simp only [escape, if_true, List.cons_append]
      rw [stepsR_of_stepR (s' := .quoSeen) (a' := a) (k := 0) (by simp [stepR])]
      simp only [List.drop_zero]
      rw [stepsR_of_stepR (s' := .quo) (a' := push a 34) (k := 0) (by simp [stepR])]
      simp only [List.drop_zero]
      rw [ih]
      simp [push]
    · simp only [escape, hc, if_false, List.cons_append]
      rw [stepsR_of_stepR (s' := .quo) (a' := push a c) (k := 0) (by simp [stepR, hc])]
      simp only [List.drop_zero]
      rw [ih]
      simp [push]

/-- one written field, read from the start of a field; `t` is the rest of the input -/
theorem stepsR_field (extra : Str → Bool) {D : Str} (hD : delimOk D) (f t : Str) (s : St) (a : Acc)
    (hs : s = .recStart ∨ s = .fieldStart) (ha : a.cur = []) (ht : sepHead D t) :
    ∃ s', endable s' ∧
      stepsR D s a (writeFieldR extra D f ++ t) = stepsR D s' { a with cur := f } t := by
  unfold writeFieldR
  by_cases hq : needsQuotesR extra D f = true
  · simp only [hq, if_true]
    have h1 : ∀ cs, stepR D s a 34 cs = some (.quo, a, 0) := by
      intro cs; rcases hs with h | h <;> subst h <;> simp [stepR]
    refine ⟨.quoSeen, Or.inr (Or.inr (Or.inr rfl)), ?_⟩
    rw [List.cons_append, stepsR_of_stepR (h1 _), List.drop_zero, List.append_assoc,
      stepsR_escape, List.singleton_append,
      stepsR_of_stepR (s' := .quoSeen) (a' := { a with cur := a.cur ++ f }) (k := 0)
        (by simp [stepR]), List.drop_zero]
    simp [ha]
  · simp only [hq]
    have hm : mustQuoteR D f = false := by
      cases f with
      | nil =>
        obtain ⟨b, bs, rfl, _⟩ := hD
        simp [mustQuoteR, containsSub, hasPrefix]
      | cons c cs =>
        simp only [needsQuotesR, Bool.or_eq_true, not_or, Bool.not_eq_true] at hq
        exact hq.1
    have hp : plain s := by rcases hs with h | h <;> simp [plain, h]
    obtain ⟨s', hs', h⟩ := stepsR_unquoted hD f t s a hp hm ht
    refine ⟨s', ?_, ?_⟩
    · rcases hs' with h | h | h <;> simp [endable, h]
    · simpa [ha] using h

theorem stepsR_endable_delim {D : Str} (hD : delimOk D) {s : St} (a : Acc) (t : Str)
    (hs : endable s) : stepsR D s a (D ++ t) = stepsR D .fieldStart (endField a) t := by
  have hpre := hasPrefix_append_self D t
  obtain ⟨b, bs, rfl, _, h34, _, _⟩ := hD
  have hb : b ≠ 34 := fun h => h34 (by simp [h])
  have hstep : stepR (b :: bs) s a b (bs ++ t) = some (.fieldStart, endField a, bs.length) := by
    simp only [List.cons_append] at hpre
    rcases hs with h | h | h | h <;> subst h <;> simp [stepR, sepR, hb, hpre]
  rw [List.cons_append, stepsR_of_stepR hstep]
  simp

theorem stepsR_endable_lf {D : Str} (hD : delimOk D) {s : St} (a : Acc) (t : Str)
    (hs : endable s) : stepsR D s a (10 :: t) = stepsR D .recStart (endRecord a) t := by
  obtain ⟨b, bs, rfl, _, _, h10, _⟩ := hD
  have hb : b ≠ 10 := fun h => h10 (by simp [h])
  have hpre : hasPrefix (b :: bs) (10 :: t) = false := by simp [hasPrefix, hb]
  have hstep : stepR (b :: bs) s a 10 t = some (.recStart, endRecord a, 0) := by
    rcases hs with h | h | h | h <;> subst h <;> simp [stepR, sepR, hpre]
  rw [stepsR_of_stepR hstep, List.drop_zero]

/-- one written record (non-empty list of fields), read from the start of a field -/
theorem stepsR_record (extra : Str → Bool) {D : Str} (hD : delimOk D) (r : List Str) (hr : r ≠ [])
    (t : Str) (s : St) (a : Acc) (hs : s = .recStart ∨ s = .fieldStart) (ha : a.cur = []) :
    stepsR D s a (writeRecordR extra D r ++ t) =
      stepsR D .recStart { cur := [], row := [], rows := a.rows ++ [a.row ++ r] } t := by
  unfold writeRecordR
  induction r generalizing s a with
  | nil => exact absurd rfl hr
  | cons f fs ih =>
    cases fs with
    | nil =>
      obtain ⟨s', hs', h⟩ := stepsR_field extra hD f (10 :: t) s a hs ha (sepHead_lf D t)
      simp only [writeFieldsR, List.append_assoc, List.singleton_append]
      rw [h, stepsR_endable_lf hD _ _ hs']
      simp [endRecord]
    | cons g gs =>
      obtain ⟨s', hs', h⟩ := stepsR_field extra hD f
        (D ++ (writeFieldsR extra D (g :: gs) ++ [10] ++ t)) s a hs ha (sepHead_delim hD _)
      simp only [writeFieldsR, List.append_assoc] at h ⊢
      rw [h, stepsR_endable_delim hD _ _ hs']
      have := ih (by simp) .fieldStart (endField { a with cur := f }) (Or.inr rfl) rfl
      simp only [List.append_assoc] at this
      rw [this]
      simp [endField]

/-- all written records, read from the start of a record -/
theorem stepsR_rows (extra : Str → Bool) {D : Str} (hD : delimOk D) (rows : List (List Str))
    (hrows : ∀ r ∈ rows, r ≠ []) (acc : List (List Str)) :
    stepsR D .recStart ⟨[], [], acc⟩ (csvWriteR extra D rows) =
      some (.recStart, ⟨[], [], acc ++ rows⟩) := by
  induction rows generalizing acc with
  | nil => simp [csvWriteR, stepsR_nil]
  | cons r rs ih =>
    simp only [csvWriteR]
    rw [stepsR_record extra hD r (hrows r (by simp)) _ .recStart _ (Or.inl rfl) rfl]
    simp only [List.nil_append]
    rw [ih (fun r' h => hrows r' (by simp [h]))]
    simp

/-- the reader inverts the writer for every delimiter byte string without a border and
without `"`, LF, CR -/
theorem csvReadR_write_of_delimOk (extra : Str → Bool) {D : Str} (hD : delimOk D)
    (rows : List (List Str)) (hrows : ∀ x ∈ rows, x ≠ []) :
    csvReadR D (csvWriteR extra D rows) = some rows := by
  unfold csvReadR
  rw [stepsR_rows extra hD rows hrows []]
  simp [finish]

/-! ### UTF-8 encodings of valid delimiters -/

theorem runeBytes_ascii (r : Nat) (h : r < 128) : runeBytes r = [r] := by
  simp [runeBytes, h]

theorem delimOk_runeBytes (r : Nat) (hr : validDelimR r) : delimOk (runeBytes r) := by
  obtain ⟨_, h34, h13, h10, hrange, _⟩ := hr
  unfold runeBytes
  by_cases h1 : r < 0x80
  · simp only [h1, if_true]
    exact ⟨r, [], rfl, by simp, by simp; omega, by simp; omega, by simp; omega⟩
  · by_cases h2 : r < 0x800
    · simp only [h1, h2, if_true, if_false]
      refine ⟨_, _, rfl, ?_, ?_, ?_, ?_⟩ <;> simp <;> omega
    · by_cases h3 : r < 0x10000
      · simp only [h1, h2, h3, if_true, if_false]
        refine ⟨_, _, rfl, ?_, ?_, ?_, ?_⟩ <;> simp <;> omega
      · simp only [h1, h2, h3, if_false]
        refine ⟨_, _, rfl, ?_, ?_, ?_, ?_⟩ <;> simp <;> omega

/-- GOAL 1: for every valid delimiter rune the strict reader recovers exactly the written
rows, whatever bytes the fields contain -/
theorem csvReadR_write (extra : Str → Bool) (r : Nat) (hr : validDelimR r)
    (rows : List (List Str)) (hrows : ∀ x ∈ rows, x ≠ []) :
    csvReadR (runeBytes r) (csvWriteR extra (runeBytes r) rows) = some rows :=
  csvReadR_write_of_delimOk extra (delimOk_runeBytes r hr) rows hrows

/-! ### GOAL 2: for a one-byte delimiter the new writer is the writer of `Model/Csv.lean` -/

theorem hasPrefix_one (d c : Nat) (cs : Str) : hasPrefix [d] (c :: cs) = (d == c) := by
  simp [hasPrefix]

theorem mustQuoteR_one_byte (d : Nat) (f : Str) : mustQuoteR [d] f = mustQuote d f := by
  induction f with
  | nil => simp [mustQuoteR, containsSub, hasPrefix, mustQuote]
  | cons c cs ih =>
    have e : mustQuoteR [d] (c :: cs) =
        ((d == c) || (c == 34 || c == 10 || c == 13) || mustQuoteR [d] cs) := by
      simp only [mustQuoteR, containsSub, hasPrefix_one, List.any_cons]
      cases (d == c) <;> cases (c == 34 || c == 10 || c == 13) <;> cases containsSub [d] cs <;> simp
    rw [e, ih]
    simp only [mustQuote, isSpecial]
    by_cases h1 : c = d
    · subst h1; simp
    · have h1' : d ≠ c := fun h => h1 h.symm
      by_cases h2 : c = 34
      · simp [h2]
      · by_cases h3 : c = 10
        · simp [h3]
        · by_cases h4 : c = 13
          · simp [h4]
          · simp [h1, h1', h2, h3, h4]

theorem needsQuotesR_one_byte (extra : Str → Bool) (d : Nat) (f : Str) :
    needsQuotesR extra [d] f = needsQuotes extra d f := by
  cases f with
  | nil => rfl
  | cons c cs => simp only [needsQuotesR, needsQuotes, mustQuoteR_one_byte]

theorem writeFieldR_one_byte (extra : Str → Bool) (d : Nat) (f : Str) :
    writeFieldR extra [d] f = writeField extra d f := by
  simp only [writeFieldR, writeField, needsQuotesR_one_byte]

theorem writeFieldsR_one_byte (extra : Str → Bool) (d : Nat) (r : List Str) :
    writeFieldsR extra [d] r = writeFields extra d r := by
  induction r with
  | nil => rfl
  | cons f fs ih =>
    cases fs with
    | nil => simp only [writeFieldsR, writeFields, writeFieldR_one_byte]
    | cons g gs => simp only [writeFieldsR, writeFields, writeFieldR_one_byte, ih, List.singleton_append]

theorem csvWriteR_one_byte (extra : Str → Bool) (d : Nat) (rows : List (List Str)) :
    csvWriteR extra [d] rows = csvWrite extra d rows := by
  induction rows with
  | nil => rfl
  | cons r rs ih =>
    simp only [csvWriteR, csvWrite, writeRecordR, writeRecord, writeFieldsR_one_byte, ih]

/-- for `Comma < utf8.RuneSelf` the rune writer IS the byte writer of `Model/Csv.lean` -/
theorem csvWriteR_ascii (extra : Str → Bool) (r : Nat) (h : r < 128) (rows : List (List Str)) :
    csvWriteR extra (runeBytes r) rows = csvWrite extra r rows := by
  rw [runeBytes_ascii r h, csvWriteR_one_byte]

/-! ### GOAL 3: for a one-byte delimiter the new reader is the DFA of `Model/Csv.lean`,
on EVERY input -/

theorem sepR_one_byte (d : Nat) (a : Acc) (c : Nat) (cs : Str) :
    sepR [d] a c cs = (sep d a c).map (fun p => (p.1, p.2, 0)) := by
  unfold sepR sep
  rw [hasPrefix_one]
  by_cases h1 : c = d
  · subst h1; simp
  · have h1' : d ≠ c := fun h => h1 h.symm
    by_cases h3 : c = 10
    · subst h3; simp [h1, h1']
    · by_cases h4 : c = 13
      · subst h4; simp [h1, h1']
      · simp [h1, h1', h3, h4]

theorem stepR_one_byte (d : Nat) (s : St) (a : Acc) (c : Nat) (cs : Str) :
    stepR [d] s a c cs = (step d s a c).map (fun p => (p.1, p.2, 0)) := by
  have hp : (hasPrefix [d] (c :: cs) = true) = (c = d) := by
    rw [hasPrefix_one]
    exact propext ⟨fun h => (beq_iff_eq.mp h).symm, fun h => beq_iff_eq.mpr h.symm⟩
  cases s <;> simp only [stepR, step, hp, sepR_one_byte]
  all_goals by_cases h0 : c = 34
  all_goals try by_cases h1 : c = d ∨ c = 10 ∨ c = 13
  all_goals simp [*]

theorem stepsR_one_byte (d : Nat) (input : Str) (s : St) (a : Acc) :
    stepsR [d] s a input = steps d s a input := by
  induction input generalizing s a with
  | nil => simp [stepsR_nil, steps]
  | cons c cs ih =>
    rw [stepsR_cons, stepR_one_byte]
    simp only [steps]
    cases h : step d s a c with
    | none => simp
    | some p => obtain ⟨s', a'⟩ := p; simp [ih]

/-- the two readers agree on every input and for every byte `d` (both machines test `"`,
the delimiter, LF, CR in the same order, so not even `d ∉ {34, 10, 13}` is needed) -/
theorem csvReadR_eq_csvRead (d : Nat) (input : Str) : csvReadR [d] input = csvRead d input := by
  unfold csvReadR csvRead
  rw [stepsR_one_byte]
  rfl

theorem csvReadR_one_byte (d : Nat) (_hd : d ≠ 34 ∧ d ≠ 10 ∧ d ≠ 13) (input : Str) :
    csvReadR [d] input = csvRead d input :=
  csvReadR_eq_csvRead d input

/-! ### GOAL 4: the one-byte `validDelim`, and concrete multi-byte round trips -/

theorem validDelimR_of_validDelim (d : Nat) (h : validDelim d) : validDelimR d := by
  unfold validDelim at h
  unfold validDelimR
  omega

/-- '§' (U+00A7 = C2 A7): fields made of a lone lead byte, the delimiter itself between a
continuation byte and a lead byte, quote + LF, CR, and a lone continuation byte -/
example :
    csvReadR (runeBytes 0xA7) (csvWriteR goExtra (runeBytes 0xA7)
      [[[0xC2], [0xA7, 0xC2, 0xA7, 0xC2], [34, 10]], [[13], [], [0xA7]]]) =
      some [[[0xC2], [0xA7, 0xC2, 0xA7, 0xC2], [34, 10]], [[13], [], [0xA7]]] :=
  csvReadR_write _ _ (by decide) _ (by simp)

/-- the bytes written in that case: only the field that contains `C2 A7` is quoted for the
delimiter's sake; `C2` alone and `A7` alone are written bare -/
example :
    csvWriteR goExtra (runeBytes 0xA7) [[[0xC2], [0xA7, 0xC2, 0xA7, 0xC2], [0xA7]]] =
      [0xC2, 0xC2, 0xA7, 34, 0xA7, 0xC2, 0xA7, 0xC2, 34, 0xC2, 0xA7, 0xA7, 10] := by
  decide

/-- '│' (U+2502 = E2 94 82): partial encodings `E2`, `E2 94`, `94 82`, the full encoding,
quotes, CR, LF -/
example :
    csvReadR (runeBytes 0x2502) (csvWriteR goExtra (runeBytes 0x2502)
      [[[0xE2], [0xE2, 0x94], [0x94, 0x82], [0x41, 0xE2, 0x94, 0x82, 0x42]],
       [[34, 34], [13, 10], [0xE2, 0x94, 0xE2, 0x94, 0x82]]]) =
      some [[[0xE2], [0xE2, 0x94], [0x94, 0x82], [0x41, 0xE2, 0x94, 0x82, 0x42]],
       [[34, 34], [13, 10], [0xE2, 0x94, 0xE2, 0x94, 0x82]]] :=
  csvReadR_write _ _ (by decide) _ (by simp)

example : runeBytes 0xA7 = [0xC2, 0xA7] ∧ runeBytes 0x2502 = [0xE2, 0x94, 0x82] ∧
    runeBytes 0x1F600 = [0xF0, 0x9F, 0x98, 0x80] := by decide

end Tabula.Csv
