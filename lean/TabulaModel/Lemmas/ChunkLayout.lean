import TabulaModel.Model.ChunkLayout
import TabulaModel.Lemmas.Chunk
/-!
Helper lemmas for property C12, layout-based chunker: the section tree that `buildSections`
builds holds every content element exactly once and in order, and `Chunk` visits every
section of the tree (subsections included) once, in document order.
-/
namespace Tabula.ChunkLayout
open Tabula.Chunk

/-! ### the tree, flattened in document (pre-)order -/

mutual
def flatTree : Sec → List (SecInfo × List CE)
  | .mk info content children => (info, content) :: flatForest children
def flatForest : List Sec → List (SecInfo × List CE)
  | [] => []
  | s :: ss => flatTree s ++ flatForest ss
end

theorem flatForest_append (a b : List Sec) : flatForest (a ++ b) = flatForest a ++ flatForest b := by
  induction a with
  | nil => simp [flatForest]
  | cons s ss ih => simp [flatForest, ih]

/-- the loop of `Chunk` over a flat list of sections -/
def chunkFlat (cfg : Cfg) : List (SecInfo × List CE) → Nat → List Chunk
  | [], _ => []
  | (info, content) :: rest, idx =>
    let own := chunkSection cfg info content idx
    own ++ chunkFlat cfg rest (idx + own.length)

theorem chunkFlat_append (cfg : Cfg) (a b : List (SecInfo × List CE)) (idx : Nat) :
    chunkFlat cfg (a ++ b) idx = chunkFlat cfg a idx ++ chunkFlat cfg b (idx + (chunkFlat cfg a idx).length) := by
  induction a generalizing idx with
  | nil => simp [chunkFlat]
  | cons x xs ih =>
    obtain ⟨info, content⟩ := x
    simp only [List.cons_append, chunkFlat, ih, List.append_assoc, List.length_append, Nat.add_assoc]

mutual
/-- `chunkSectionTree` visits the section and all its descendants, in pre-order -/
theorem chunkTree_flat (cfg : Cfg) : ∀ (s : Sec) (idx : Nat), chunkTree cfg s idx = chunkFlat cfg (flatTree s) idx
  | .mk info content children, idx => by
    simp only [chunkTree, flatTree, chunkFlat]
    rw [chunkForest_flat cfg children]
theorem chunkForest_flat (cfg : Cfg) : ∀ (ss : List Sec) (idx : Nat), chunkForest cfg ss idx = chunkFlat cfg (flatForest ss) idx
  | [], _ => by simp [chunkForest, flatForest, chunkFlat]
  | s :: ss, idx => by
    simp only [chunkForest, flatForest]
    rw [chunkTree_flat cfg s, chunkForest_flat cfg ss, chunkFlat_append]
end

/-! ### `buildSections` keeps every content element, once, in order -/

def secContents (l : List (SecInfo × List CE)) : List CE := l.flatMap (·.2)

theorem secContents_append (a b : List (SecInfo × List CE)) :
    secContents (a ++ b) = secContents a ++ secContents b := by
  simp [secContents]

def frameFlat (f : Frame) : List (SecInfo × List CE) := (f.info, f.content) :: flatForest f.children

theorem flatTree_close (f : Frame) : flatTree f.close = frameFlat f := by
  simp [Frame.close, flatTree, frameFlat]

/-- the sections finished or still open, flattened in document order -/
def openFlat (stack : List Frame) (done : List Sec) : List (SecInfo × List CE) :=
  flatForest done ++ stack.reverse.flatMap frameFlat

theorem popFrames_flat (lvl : Int) (stack : List Frame) (path : List Str) (done : List Sec) :
    openFlat (popFrames lvl stack path done).1 (popFrames lvl stack path done).2.2 = openFlat stack done := by
  fun_induction popFrames lvl stack path done with
  | case1 => rfl
  | case2 => rfl
  | case3 path done f hlvl ih =>
    rw [ih]
    simp [openFlat, flatForest_append, flatForest, flatTree_close]
  | case4 path done f hlvl g rest ih =>
    rw [ih]
    simp [openFlat, frameFlat, flatForest_append, flatForest, flatTree_close]

theorem unwind_flat (stack : List Frame) (done : List Sec) :
    flatForest (unwind stack done) = openFlat stack done := by
  fun_induction unwind stack done with
  | case1 => simp [openFlat]
  | case2 f =>
    simp [openFlat, flatForest_append, flatForest, flatTree_close]
  | case3 f g rest ih =>
    rw [ih]
    simp [openFlat, frameFlat, flatForest_append, flatForest, flatTree_close]

/-- every content element seen so far, in the order the sections will be emitted -/
def total (s : BState) : List CE := secContents (openFlat s.stack s.done) ++ s.pre

/-- invariants of the `buildSections` state between two steps -/
structure Inv (s : BState) : Prop where
  pre_empty : s.stack ≠ [] → s.pre = []
  top_leaf : ∀ f rest, s.stack = f :: rest → f.children = []
  done_empty : s.stack = [] → s.done = []

theorem addContent_total (s : BState) (h : Inv s) (ce : CE) :
    total (addContent s ce) = total s ++ [ce] ∧ Inv (addContent s ce) := by
  obtain ⟨done, stack, path, pre, ps, pe⟩ := s
  cases stack with
  | nil =>
    simp only [addContent, total]
    refine ⟨by simp, ⟨fun hne => absurd rfl hne, ?_, fun _ => h.done_empty rfl⟩⟩
    intro f rest hfr; cases hfr
  | cons f rest =>
    have hpre : pre = [] := h.pre_empty (by simp)
    have hleaf : f.children = [] := h.top_leaf f rest rfl
    simp only [addContent, total]
    refine ⟨?_, ⟨fun _ => hpre, ?_, fun hs => by cases hs⟩⟩
    · subst hpre
      simp [openFlat, frameFlat, hleaf, flatForest, secContents]
    · intro f' rest' hfr
      simp only [List.cons.injEq] at hfr
      rw [← hfr.1]; exact hleaf

def isMinor (cfg : Cfg) (h : LHeading) : Bool := !(decide (h.level ≤ cfg.minHeadingLevel))

def headingCE (page : Int) (h : LHeading) : CE := ⟨.heading, h.text, page, false, h.sents⟩
def paraCE (page : Int) (p : LPara) : CE := ⟨.para, p.text, page, p.intro, p.sents⟩
def listCE (page : Int) (l : LList) : CE := ⟨.list, formatList l.items, page, false, l.sents⟩

theorem stepHeading_total (cfg : Cfg) (page : Int) (s : BState) (h : Inv s) (hd : LHeading) :
    total (stepHeading cfg page s hd) = total s ++ (if isMinor cfg hd then [headingCE page hd] else []) ∧
      Inv (stepHeading cfg page s hd) := by
  unfold stepHeading isMinor
  by_cases hmaj : hd.level ≤ cfg.minHeadingLevel
  · simp only [hmaj, if_true, decide_true, Bool.not_true, Bool.false_eq_true, if_false, List.append_nil]
    -- the preamble is closed
    have hflush : ∃ s1 : BState, (if (!s.pre.isEmpty && s.stack.isEmpty) = true then
          { s with done := s.done ++ [preambleSec s], pre := [] } else s) = s1 ∧
          total s1 = total s ∧ s1.pre = [] := by
      by_cases hc : (!s.pre.isEmpty && s.stack.isEmpty) = true
      · refine ⟨_, rfl, ?_, ?_⟩
        · rw [if_pos hc]
          simp only [Bool.and_eq_true, Bool.not_eq_true', List.isEmpty_iff] at hc
          have hd0 := h.done_empty hc.2
          simp [total, openFlat, hc.2, hd0, preambleSec, flatForest, flatTree, secContents]
        · rw [if_pos hc]
      · refine ⟨_, rfl, by rw [if_neg hc], ?_⟩
        rw [if_neg hc]
        by_cases hst : s.stack = []
        · simp only [hst, List.isEmpty_nil, Bool.and_true, Bool.not_eq_true', Bool.not_eq_false] at hc
          exact List.isEmpty_iff.mp hc
        · exact h.pre_empty hst
    obtain ⟨s1, hs1, ht1, hp1⟩ := hflush
    rw [hs1]
    have hpop := popFrames_flat hd.level s1.stack s1.path s1.done
    rcases hr : popFrames hd.level s1.stack s1.path s1.done with ⟨st', p', d'⟩
    rw [hr] at hpop
    simp only at hpop ⊢
    refine ⟨?_, ⟨fun _ => hp1, ?_, fun hs => by cases hs⟩⟩
    · rw [← ht1]
      simp only [total, hp1, List.append_nil]
      simp only [openFlat] at hpop ⊢
      simp [frameFlat, flatForest, ← hpop, secContents]
    · intro f rest hfr
      simp only [List.cons.injEq] at hfr
      rw [← hfr.1]
  · simp only [hmaj, if_false, decide_false, Bool.not_false, if_true]
    exact addContent_total s h _

theorem headings_total (cfg : Cfg) (page : Int) (hs : List LHeading) (s : BState) (h : Inv s) :
    total (hs.foldl (stepHeading cfg page) s) = total s ++ (hs.filter (isMinor cfg)).map (headingCE page) ∧
      Inv (hs.foldl (stepHeading cfg page) s) := by
  induction hs generalizing s with
  | nil => simp [h]
  | cons x xs ih =>
    obtain ⟨t1, i1⟩ := stepHeading_total cfg page s h x
    obtain ⟨t2, i2⟩ := ih _ i1
    simp only [List.foldl_cons]
    refine ⟨?_, i2⟩
    rw [t2, t1, List.filter_cons]
    by_cases hm : isMinor cfg x = true <;> simp [hm]

theorem addAll_total {α} (f : α → CE) (xs : List α) (s : BState) (h : Inv s) :
    total (xs.foldl (fun s x => addContent s (f x)) s) = total s ++ xs.map f ∧
      Inv (xs.foldl (fun s x => addContent s (f x)) s) := by
  induction xs generalizing s with
  | nil => simp [h]
  | cons x xs ih =>
    obtain ⟨t1, i1⟩ := addContent_total s h (f x)
    obtain ⟨t2, i2⟩ := ih _ i1
    simp only [List.foldl_cons]
    exact ⟨by rw [t2, t1]; simp, i2⟩

/-- what the layout-based chunker is given on one page, in the only order its input type
defines: the headings that open no section, then the paragraphs, then the lists -/
def pageCanon (cfg : Cfg) (pg : LPage) : List CE :=
  match pg.layout with
  | none => []
  | some lay =>
    (lay.headings.filter (isMinor cfg)).map (headingCE pg.number) ++
      lay.paras.map (paraCE pg.number) ++ lay.lists.map (listCE pg.number)

def canon (cfg : Cfg) (d : LDoc) : List CE := d.flatMap (pageCanon cfg)

theorem stepPage_total (cfg : Cfg) (s : BState) (h : Inv s) (pg : LPage) :
    total (stepPage cfg s pg) = total s ++ pageCanon cfg pg ∧ Inv (stepPage cfg s pg) := by
  unfold stepPage pageCanon
  cases hl : pg.layout with
  | none => simp [h]
  | some lay =>
    simp only
    obtain ⟨t1, i1⟩ := headings_total cfg pg.number lay.headings s h
    obtain ⟨t2, i2⟩ := addAll_total (paraCE pg.number) lay.paras _ i1
    obtain ⟨t3, i3⟩ := addAll_total (listCE pg.number) lay.lists _ i2
    refine ⟨?_, i3⟩
    unfold paraCE listCE at *
    rw [t3, t2, t1]; simp [List.append_assoc]

theorem pages_total (cfg : Cfg) (d : LDoc) (s : BState) (h : Inv s) :
    total (d.foldl (stepPage cfg) s) = total s ++ canon cfg d ∧ Inv (d.foldl (stepPage cfg) s) := by
  induction d generalizing s with
  | nil => simp [canon, h]
  | cons pg pgs ih =>
    obtain ⟨t1, i1⟩ := stepPage_total cfg s h pg
    obtain ⟨t2, i2⟩ := ih _ i1
    simp only [List.foldl_cons]
    exact ⟨by rw [t2, t1]; simp [canon], i2⟩

/-- **`buildSections` loses nothing**: the contents of the sections it returns, read in
document order (every section followed by its subsections), are exactly the content elements
of the document in canonical order. -/
theorem buildSections_contents (cfg : Cfg) (d : LDoc) :
    secContents (flatForest (buildSections cfg d)) = canon cfg d := by
  have h0 : Inv ⟨[], [], [], [], 0, 0⟩ :=
    ⟨fun hne => absurd rfl hne, fun f rest hfr => (by cases hfr), fun _ => rfl⟩
  obtain ⟨t, i⟩ := pages_total cfg d _ h0
  unfold buildSections
  generalize d.foldl (stepPage cfg) ⟨[], [], [], [], 0, 0⟩ = s at t i
  simp only [total, openFlat, flatForest, List.reverse_nil, List.flatMap_nil, List.append_nil,
    secContents, List.nil_append] at t
  simp only
  by_cases hp : s.pre = []
  · simp only [hp, List.isEmpty_nil, Bool.not_true, Bool.false_and, Bool.false_eq_true, if_false]
    rw [unwind_flat, ← t, hp]; simp [secContents, openFlat]
  · have hst : s.stack = [] := by
      by_cases hs : s.stack = []
      · exact hs
      · exact absurd (i.pre_empty hs) hp
    have hd : s.done = [] := i.done_empty hst
    have hu : unwind s.stack s.done = [] := by rw [hst, hd]; simp [unwind]
    have hne : s.pre.isEmpty = false := by
      cases hpe : s.pre with
      | nil => exact absurd hpe hp
      | cons a b => rfl
    simp only [hu, hne, Bool.not_false, List.isEmpty_nil, Bool.and_self, if_true, List.nil_append]
    rw [← t, hst, hd]
    simp [preambleSec, flatForest, flatTree, secContents]

/-! ### from sections to chunk texts -/

def ceTexts (l : List CE) : Str := l.flatMap (·.text)

theorem joinPara_strip (acc t : Str) : strip (joinPara acc t) = strip acc ++ strip t := by
  unfold joinPara
  cases acc with
  | nil => simp [strip_nil]
  | cons a as =>
    have : (a :: as).isEmpty = false := rfl
    rw [this]
    simp only [Bool.false_eq_true, if_false, strip_append, strip_nn, List.append_nil]

theorem joinAll_strip (es : List CE) (acc : Str) :
    strip (es.foldl (fun acc e => joinPara acc e.text) acc) = strip acc ++ strip (ceTexts es) := by
  induction es generalizing acc with
  | nil => simp [ceTexts, strip_nil]
  | cons e es ih =>
    simp only [List.foldl_cons, ih, joinPara_strip, ceTexts, List.flatMap_cons, strip_append, List.append_assoc]

theorem trim_empty_strip (t : Str) (h : (trim t).isEmpty = true) : strip t = [] := by
  rw [← strip_trim, List.isEmpty_iff.mp h]; rfl

/-- a section's own chunks carry exactly the section's content, white space aside -/
def SectionCover (cfg : Cfg) (x : SecInfo × List CE) : Prop :=
  ∀ idx, strip (textsOf (chunkSection cfg x.1 x.2 idx)) = strip (ceTexts x.2)

theorem chunkFlat_cover (cfg : Cfg) (l : List (SecInfo × List CE)) (h : ∀ x ∈ l, SectionCover cfg x) (idx : Nat) :
    strip (textsOf (chunkFlat cfg l idx)) = strip (ceTexts (secContents l)) := by
  induction l generalizing idx with
  | nil => rfl
  | cons x xs ih =>
    obtain ⟨info, content⟩ := x
    have hx := h (info, content) (List.mem_cons_self ..) idx
    have hxs := ih (fun y hy => h y (List.mem_cons_of_mem _ hy)) (idx + (chunkSection cfg info content idx).length)
    simp only [chunkFlat, textsOf_append, strip_append]
    simp only at hx
    rw [hx, hxs]
    simp [secContents, ceTexts, strip_append]

/-- the section needs no splitting: blank, or its joined text is within `MaxChunkSize` -/
def Fits (cfg : Cfg) (content : List CE) : Prop :=
  lenGt (content.foldl (fun acc e => joinPara acc e.text) []) cfg.maxSize = false

instance (cfg : Cfg) (content : List CE) : Decidable (Fits cfg content) := by
  unfold Fits; infer_instance

theorem sectionCover_of_fits (cfg : Cfg) (info : SecInfo) (content : List CE) (h : Fits cfg content) :
    SectionCover cfg (info, content) := by
  intro idx
  unfold Fits at h
  simp only [chunkSection]
  have hj := joinAll_strip content []
  simp only [strip_nil, List.nil_append] at hj
  by_cases hb : (trim (content.foldl (fun acc e => joinPara acc e.text) [])).isEmpty = true
  · rw [if_pos hb, ← hj, trim_empty_strip _ hb]; rfl
  · rw [if_neg hb, h]
    simp [textsOf, createChunk, hj]

/-! ### sections that are split: `splitSectionByParagraphs` -/

/-- everything emitted or pending, white space aside -/
def pend (s : LS) : Str := strip (textsOf s.chunks) ++ strip s.cur

/-- the sentence splitter conserves the text of the elements it is applied to -/
def SentsOK (cfg : Cfg) (e : CE) : Prop :=
  lenGt e.text cfg.maxSize = true → strip e.sents.flatten = strip e.text

/-- lists are within `MaxChunkSize` (excludes the one reordering the code performs: the
sentence chunks of an over-long list are emitted before its pending introduction) -/
def ListFits (cfg : Cfg) (e : CE) : Prop := e.kind = .list → lenGt e.text cfg.maxSize = false

theorem textsOf_snoc (cs : List Chunk) (c : Chunk) : textsOf (cs ++ [c]) = textsOf cs ++ c.text := by
  rw [textsOf_append]; simp [textsOf]

theorem setLastText_texts (cs : List Chunk) (prev : Chunk) (cur t : Str) (h : cs.getLast? = some prev)
    (ht : strip t = strip prev.text ++ strip cur) :
    strip (textsOf (setLastText cs t)) = strip (textsOf cs) ++ strip cur := by
  induction cs with
  | nil => cases h
  | cons c cs ih =>
    cases cs with
    | nil =>
      simp only [List.getLast?_singleton, Option.some.injEq] at h
      subst h
      simp only [setLastText, textsOf_cons, textsOf_nil, List.append_nil, ht]
    | cons c2 cs =>
      have h' : (c2 :: cs).getLast? = some prev := by simpa [List.getLast?_cons_cons] using h
      simp only [setLastText]
      rw [textsOf_cons, strip_append, ih h', textsOf_cons c, strip_append, List.append_assoc]

theorem flushChunk_pend (cfg : Cfg) (info : SecInfo) (s : LS) :
    pend (flushChunk cfg info s) = pend s ∧ strip (flushChunk cfg info s).cur = [] := by
  unfold flushChunk
  by_cases hb : (trim s.cur).isEmpty = true
  · rw [if_pos hb]; exact ⟨rfl, trim_empty_strip _ hb⟩
  · rw [if_neg hb]
    cases hl : s.chunks.getLast? with
    | none => simp [pend, textsOf_snoc, createChunk, strip_append, strip_nil]
    | some prev =>
      simp only
      split
      · refine ⟨?_, rfl⟩
        unfold pend
        simp only [strip_nil, List.append_nil]
        refine setLastText_texts _ prev s.cur _ hl ?_
        simp only [strip_append, strip_nn, List.append_nil]
      · simp [pend, textsOf_snoc, createChunk, strip_append, strip_nil]

theorem flushIfPending_pend (cfg : Cfg) (info : SecInfo) (s : LS) :
    pend (flushIfPending cfg info s) = pend s ∧ strip (flushIfPending cfg info s).cur = [] := by
  unfold flushIfPending
  by_cases hb : s.cur.isEmpty = true
  · rw [if_pos hb]; exact ⟨rfl, by rw [List.isEmpty_iff.mp hb]; rfl⟩
  · rw [if_neg hb]; exact flushChunk_pend cfg info s

theorem strip_sp : strip [32] = [] := by decide

theorem pend_ite (c : Prop) [Decidable c] (a b : LS) (x : Str) (ha : pend a = x) (hb : pend b = x) :
    pend (if c then a else b) = x := by
  split <;> assumption

theorem sentEmit_pend (cfg : Cfg) (info : SecInfo) (t : Str) (s : LS) :
    pend (sentEmit cfg info t s) = pend s := by
  unfold sentEmit
  apply pend_ite
  · simp [pend, textsOf_snoc, createChunk, strip_append, strip_nil]
  · rfl

theorem sentAdd_pend (t : Str) (s : LS) : pend (sentAdd t s) = pend s ++ strip t := by
  unfold sentAdd pend
  by_cases he : s.cur.isEmpty = true
  · rw [if_pos he, List.isEmpty_iff.mp he]; simp [strip_nil]
  · rw [if_neg he]; simp only [strip_append, strip_sp, List.nil_append, List.append_assoc]

theorem sentLoop_pend (cfg : Cfg) (info : SecInfo) (ts : List Str) (s : LS) :
    pend (sentLoop cfg info ts s) = pend s ++ strip ts.flatten ∧ (sentLoop cfg info ts s).cur = [] := by
  induction ts generalizing s with
  | nil =>
    simp only [sentLoop]
    by_cases hb : s.cur.isEmpty = true
    · rw [if_pos hb]; exact ⟨by simp [strip_nil], List.isEmpty_iff.mp hb⟩
    · rw [if_neg hb]; exact ⟨by simp [pend, textsOf_snoc, createChunk, strip_append, strip_nil], rfl⟩
  | cons t ts ih =>
    simp only [sentLoop]
    obtain ⟨i1, i2⟩ := ih (sentAdd t (sentEmit cfg info t s))
    refine ⟨?_, i2⟩
    rw [i1, sentAdd_pend, sentEmit_pend]; simp [strip_append]

theorem splitBySentences_pend (cfg : Cfg) (info : SecInfo) (sents : List Str) (s : LS)
    (hc : strip s.cur = []) :
    pend (splitBySentences cfg info sents s) = pend s ++ strip sents.flatten ∧
      strip (splitBySentences cfg info sents s).cur = [] := by
  obtain ⟨h1, h2⟩ := sentLoop_pend cfg info sents ⟨s.chunks, [], s.idx⟩
  unfold splitBySentences
  refine ⟨?_, hc⟩
  simp only [pend, h2, hc, strip_nil, List.append_nil] at h1 ⊢
  exact h1

theorem flushIfOver_pend (cfg : Cfg) (info : SecInfo) (added : Int) (s : LS) :
    pend (flushIfOver cfg info added s) = pend s := by
  unfold flushIfOver
  exact pend_ite _ _ _ _ (flushChunk_pend cfg info s).1 rfl

theorem plainElem_pend (cfg : Cfg) (info : SecInfo) (e : CE) (s : LS) (he : SentsOK cfg e) :
    pend (plainElem cfg info e s) = pend s ++ strip e.text := by
  simp only [plainElem]
  have hp1 := flushIfOver_pend cfg info ((e.text.length : Int) + (if s.cur.isEmpty then 0 else 2)) s
  generalize flushIfOver cfg info ((e.text.length : Int) + (if s.cur.isEmpty then 0 else 2)) s = s1 at hp1 ⊢
  by_cases hg : lenGt e.text cfg.maxSize = true
  · rw [if_pos hg]
    obtain ⟨f1, f2⟩ := flushIfPending_pend cfg info s1
    rw [(splitBySentences_pend cfg info e.sents _ f2).1, f1, hp1, he hg]
  · rw [if_neg hg]
    simp only [pend, joinPara_strip] at hp1 ⊢
    rw [← List.append_assoc, hp1]

theorem atomic1_pend (cfg : Cfg) (info : SecInfo) (e : CE) (s : LS) (he : SentsOK cfg e) :
    pend (atomicBlock cfg info [e] s) = pend s ++ strip e.text := by
  obtain ⟨f1, f2⟩ := flushIfPending_pend cfg info s
  simp only [atomicBlock, List.foldl_cons, List.foldl_nil]
  have hj : joinPara [] e.text = e.text := rfl
  simp only [hj]
  by_cases hg : lenGt e.text cfg.maxSize = true
  · rw [if_pos hg]
    simp only [atomicOversize, hg, if_true]
    rw [(splitBySentences_pend cfg info e.sents _ f2).1, f1, he hg]
  · rw [if_neg hg]
    simp only [pend] at f1 ⊢
    rw [textsOf_snoc, strip_append, f2, List.append_nil, ← f1, f2, List.append_nil]
    simp [createChunk]

theorem atomic2_pend (cfg : Cfg) (info : SecInfo) (e n : CE) (s : LS) (he : SentsOK cfg e)
    (hn : lenGt n.text cfg.maxSize = false) :
    pend (atomicBlock cfg info [e, n] s) = pend s ++ strip e.text ++ strip n.text := by
  obtain ⟨f1, f2⟩ := flushIfPending_pend cfg info s
  simp only [atomicBlock, List.foldl_cons, List.foldl_nil]
  have hj : strip (joinPara (joinPara [] e.text) n.text) = strip e.text ++ strip n.text := by
    rw [joinPara_strip]; rfl
  by_cases hbig : lenGt (joinPara (joinPara [] e.text) n.text) cfg.maxSize = true
  · simp only [hbig, if_true]
    simp only [atomicOversize, hn, Bool.false_eq_true, if_false]
    by_cases hg : lenGt e.text cfg.maxSize = true
    · rw [if_pos hg]
      obtain ⟨g1, g2⟩ := splitBySentences_pend cfg info e.sents _ f2
      simp only [pend, joinPara_strip] at g1 ⊢
      rw [← List.append_assoc, g1, he hg]
      simp only [pend] at f1
      rw [f1]
    · rw [if_neg hg]
      simp only [pend, joinPara_strip] at f1 ⊢
      rw [← List.append_assoc, ← List.append_assoc, f1]
  · simp only [hbig, Bool.false_eq_true, if_false]
    simp only [pend] at f1 ⊢
    rw [textsOf_snoc, strip_append, f2, List.append_nil, ← f1, f2, List.append_nil]
    simp only [createChunk, hj, List.append_assoc]

theorem paraLoop_pend (cfg : Cfg) (info : SecInfo) (es : List CE) (s : LS)
    (h : ∀ e ∈ es, SentsOK cfg e ∧ ListFits cfg e) :
    pend (paraLoop cfg info es s) = pend s ++ strip (ceTexts es) := by
  fun_induction paraLoop cfg info es s with
  | case1 s => simp [ceTexts, strip_nil]
  | case2 e s hk =>
    rw [atomic1_pend cfg info e s (h e (List.mem_cons_self ..)).1]; simp [ceTexts]
  | case3 e s hk =>
    rw [plainElem_pend cfg info e s (h e (List.mem_cons_self ..)).1]; simp [ceTexts]
  | case4 e n rest s hk ih =>
    rw [ih (fun x hx => h x (List.mem_cons_of_mem _ hx)),
      atomic1_pend cfg info e s (h e (List.mem_cons_self ..)).1]
    simp [ceTexts, strip_append]
  | case5 e n rest s hk hi hkeep ih =>
    have hn : n ∈ e :: n :: rest := List.mem_cons_of_mem _ (List.mem_cons_self ..)
    have hnk : n.kind = .list := by
      simp only [Bool.and_eq_true, beq_iff_eq] at hi; exact hi.1.2
    rw [ih (fun x hx => h x (List.mem_cons_of_mem _ (List.mem_cons_of_mem _ hx))),
      atomic2_pend cfg info e n s (h e (List.mem_cons_self ..)).1 ((h n hn).2 hnk)]
    simp [ceTexts, strip_append]
  | case6 e n rest s hk hi hkeep s1 ih =>
    rw [ih (fun x hx => h x (List.mem_cons_of_mem _ (List.mem_cons_of_mem _ hx)))]
    have hp1 : pend s1 = pend s := flushIfOver_pend cfg info _ s
    simp only [pend, strip_append, joinPara_strip, strip_nn, List.append_nil] at hp1 ⊢
    rw [← List.append_assoc, ← List.append_assoc, hp1]
    simp [ceTexts, strip_append]
  | case7 e n rest s hk hi ih =>
    rw [ih (fun x hx => h x (List.mem_cons_of_mem _ hx)),
      plainElem_pend cfg info e s (h e (List.mem_cons_self ..)).1]
    simp [ceTexts, strip_append]

theorem splitSection_cover (cfg : Cfg) (info : SecInfo) (content : List CE) (idx : Nat)
    (h : ∀ e ∈ content, SentsOK cfg e ∧ ListFits cfg e) :
    strip (textsOf (splitSectionByParagraphs cfg info content idx)) = strip (ceTexts content) := by
  unfold splitSectionByParagraphs
  obtain ⟨f1, f2⟩ := flushChunk_pend cfg info (paraLoop cfg info content ⟨[], [], idx⟩)
  have hp := paraLoop_pend cfg info content ⟨[], [], idx⟩ h
  simp only [pend, f2, List.append_nil] at f1
  rw [f1]
  simpa [pend, textsOf_nil, strip_nil] using hp

theorem sectionCover_general (cfg : Cfg) (info : SecInfo) (content : List CE)
    (h : ∀ e ∈ content, SentsOK cfg e ∧ ListFits cfg e) : SectionCover cfg (info, content) := by
  intro idx
  simp only [chunkSection]
  have hj := joinAll_strip content []
  simp only [strip_nil, List.nil_append] at hj
  by_cases hb : (trim (content.foldl (fun acc e => joinPara acc e.text) [])).isEmpty = true
  · rw [if_pos hb, ← hj, trim_empty_strip _ hb]; rfl
  · rw [if_neg hb]
    split
    · simp [textsOf, createChunk, hj]
    · exact splitSection_cover cfg info content idx h

/-! ### the whole of `Chunker.Chunk`, fallback included -/

/-- the hypotheses on the two library parameters, for every content element of the document -/
def ParamsOK (cfg : Cfg) (d : LDoc) : Prop := ∀ e ∈ canon cfg d, SentsOK cfg e ∧ ListFits cfg e

theorem forest_cover (cfg : Cfg) (d : LDoc) (h : ParamsOK cfg d) :
    strip (textsOf (chunkForest cfg (buildSections cfg d) 0)) = strip (ceTexts (canon cfg d)) := by
  rw [chunkForest_flat, chunkFlat_cover, buildSections_contents]
  intro x hx
  apply sectionCover_general
  intro e he
  apply h
  rw [← buildSections_contents]
  exact List.mem_flatMap.mpr ⟨x, hx, he⟩

theorem ceTexts_strip_nil (l : List CE) : strip (ceTexts l) = [] ↔ ∀ e ∈ l, strip e.text = [] := by
  induction l with
  | nil => simp [ceTexts, strip_nil]
  | cons x xs ih =>
    simp only [ceTexts, List.flatMap_cons, strip_append, List.append_eq_nil_iff, List.mem_cons, forall_eq_or_imp]
    exact and_congr_right fun _ => ih

theorem fallback_sub (cfg : Cfg) (d : LDoc) : ∀ e ∈ fallbackContent d, e ∈ canon cfg d := by
  intro e he
  unfold fallbackContent at he
  obtain ⟨pg, hpg, hin⟩ := List.mem_flatMap.mp he
  refine List.mem_flatMap.mpr ⟨pg, hpg, ?_⟩
  unfold pageCanon
  cases hl : pg.layout with
  | none => simp [hl] at hin
  | some lay =>
    simp only [hl] at hin ⊢
    rcases List.mem_append.mp hin with h1 | h1
    · exact List.mem_append.mpr (Or.inl (List.mem_append.mpr (Or.inr h1)))
    · exact List.mem_append.mpr (Or.inr h1)

theorem chunkByParagraphs_eq (cfg : Cfg) (title : Str) (d : LDoc) :
    chunkByParagraphs cfg title d = [] ∨
      ∃ info, chunkByParagraphs cfg title d = splitSectionByParagraphs cfg info (fallbackContent d) 0 := by
  unfold chunkByParagraphs
  split
  · exact Or.inr ⟨_, rfl⟩
  · exact Or.inl rfl

/-- **cover for `Chunker.Chunk`** under `ParamsOK` -/
theorem chunk_cover (cfg : Cfg) (title : Str) (d : LDoc) (h : ParamsOK cfg d) :
    strip (textsOf (chunk cfg title d)) = strip (ceTexts (canon cfg d)) := by
  unfold chunk
  simp only [setTotal_texts]
  have hf := forest_cover cfg d h
  by_cases he : (chunkForest cfg (buildSections cfg d) 0).isEmpty = true
  · rw [if_pos he]
    rw [List.isEmpty_iff.mp he] at hf
    have hnil : strip (ceTexts (canon cfg d)) = [] := hf.symm
    rw [hnil]
    rcases chunkByParagraphs_eq cfg title d with h0 | ⟨info, h1⟩
    · rw [h0]; rfl
    · rw [h1, splitSection_cover cfg info _ 0 (fun e he => h e (fallback_sub cfg d e he))]
      rw [ceTexts_strip_nil] at hnil ⊢
      exact fun e he => hnil e (fallback_sub cfg d e he)
  · rw [if_neg he]; exact hf

end Tabula.ChunkLayout
