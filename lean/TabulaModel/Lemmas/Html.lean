import TabulaModel.Model.Html
/-!
Helper lemmas for C19 (Props/C19.lean): monotonicity and locality of the
specification `atoms`, vocabulary monotonicity of the pattern matcher.
-/
namespace Tabula.Html

/-! ### the specification is monotone in the exclusion predicate -/

mutual
theorem atoms_mono (p q : Pos → Dom → Bool) (h : ∀ pos n, p pos n = true → q pos n = true) (w : Bool) :
    ∀ (t : Dom) (pos : Pos) (lc : LC), (atoms q w pos lc t).Sublist (atoms p w pos lc t)
  | .text _, pos, lc => by simp [atoms]
  | .other kids, pos, lc => by
      simp only [atoms]
      exact atomsL_mono p q h w kids _ lc
  | .elem tag attrs kids, pos, lc => by
      unfold atoms
      by_cases hs : isSkip tag = true
      · simp [hs]
      · by_cases hq : q pos (.elem tag attrs kids) = true
        · simp [hs, hq]
        · have hp : ¬ p pos (.elem tag attrs kids) = true := fun hp => hq (h _ _ hp)
          simp only [hs, hq, hp, if_false, Bool.false_eq_true]
          split
          · exact List.Sublist.refl _
          · split
            · exact List.Sublist.refl _
            · exact atomsM_mono p q h w kids _ lc []
          · exact atomsL_mono p q h w kids _ _
          · exact List.Sublist.append (List.Sublist.refl _) (atomsLi_mono p q h w kids _ _)
          · exact List.Sublist.refl _
          · exact List.Sublist.refl _
          · exact List.Sublist.refl _
          · exact List.Sublist.refl _
          · exact atomsL_mono p q h w kids _ lc
theorem atomsL_mono (p q : Pos → Dom → Bool) (h : ∀ pos n, p pos n = true → q pos n = true) (w : Bool) :
    ∀ (ts : List Dom) (kp : Pos) (lc : LC), (atomsL q w kp lc ts).Sublist (atomsL p w kp lc ts)
  | [], kp, lc => by simp [atomsL]
  | k :: ks, kp, lc => by
      simp only [atomsL]
      exact List.Sublist.append (atoms_mono p q h w k kp lc) (atomsL_mono p q h w ks kp lc)
theorem atomsLi_mono (p q : Pos → Dom → Bool) (h : ∀ pos n, p pos n = true → q pos n = true) (w : Bool) :
    ∀ (ts : List Dom) (kp : Pos) (lc : LC), (atomsLi q w kp lc ts).Sublist (atomsLi p w kp lc ts)
  | [], kp, lc => by simp [atomsLi]
  | k :: ks, kp, lc => by
      simp only [atomsLi]
      refine List.Sublist.append ?_ (atomsLi_mono p q h w ks kp lc)
      split
      · exact atoms_mono p q h w k kp lc
      · exact List.Sublist.refl _
theorem atomsM_mono (p q : Pos → Dom → Bool) (h : ∀ pos n, p pos n = true → q pos n = true) (w : Bool) :
    ∀ (ts : List Dom) (kp : Pos) (lc : LC) (run : Str), (atomsM q w kp lc ts run).Sublist (atomsM p w kp lc ts run)
  | [], kp, lc, run => by simp [atomsM]
  | k :: ks, kp, lc, run => by
      simp only [atomsM]
      split
      · exact atomsM_mono p q h w ks kp lc _
      · exact List.Sublist.append (List.Sublist.append (List.Sublist.refl _) (atoms_mono p q h w k kp lc))
          (atomsM_mono p q h w ks kp lc [])
end


/-! ### locality: siblings contribute independent, consecutive segments -/

theorem atomsL_append (p : Pos → Dom → Bool) (w : Bool) (kp : Pos) (lc : LC) (a b : List Dom) :
    atomsL p w kp lc (a ++ b) = atomsL p w kp lc a ++ atomsL p w kp lc b := by
  induction a with
  | nil => simp [atomsL]
  | cons k ks ih => simp [atomsL, ih, List.append_assoc]

theorem atomsLi_append (p : Pos → Dom → Bool) (w : Bool) (kp : Pos) (lc : LC) (a b : List Dom) :
    atomsLi p w kp lc (a ++ b) = atomsLi p w kp lc a ++ atomsLi p w kp lc b := by
  induction a with
  | nil => simp [atomsLi]
  | cons k ks ih => simp [atomsLi, ih, List.append_assoc]

/-- the children of a block container, read by runs: inline children `a` extend the pending run -/
theorem atomsM_inline (p : Pos → Dom → Bool) (w : Bool) (kp : Pos) (lc : LC) :
    ∀ (a rest : List Dom) (run : Str), isInlineL a = true →
      atomsM p w kp lc (a ++ rest) run = atomsM p w kp lc rest (run ++ textRecL a)
  | [], rest, run, _ => by simp [textRecL]
  | k :: ks, rest, run, h => by
      have h' : isInline k = true ∧ isInlineL ks = true := by simpa [isInlineL] using h
      simp only [List.cons_append, atomsM, h'.1, if_true]
      rw [atomsM_inline p w kp lc ks rest _ h'.2]
      simp [textRecL, List.append_assoc]

/-- … and a child that is not inline ends the run: the run's paragraph, the child's atoms, then the
rest with a fresh run -/
theorem atomsM_block (p : Pos → Dom → Bool) (w : Bool) (kp : Pos) (lc : LC) (k : Dom) (rest : List Dom)
    (run : Str) (hk : isInline k = false) :
    atomsM p w kp lc (k :: rest) run = runAtoms run ++ atoms p w kp lc k ++ atomsM p w kp lc rest [] := by
  simp [atomsM, hk]

theorem textRecL_append (a b : List Dom) : textRecL (a ++ b) = textRecL a ++ textRecL b := by
  induction a with
  | nil => simp [textRecL]
  | cons k ks ih => simp [textRecL, ih, List.append_assoc]

/-! ### two predicates that take the same decision at every node of a subtree -/

mutual
/-- `p` and `q` decide alike at every element of the subtree (at the position it has there) -/
def agree (p q : Pos → Dom → Bool) (w : Bool) (pos : Pos) : Dom → Prop
  | .text _ => True
  | .other kids => agreeL p q w (pos.kid w []) kids
  | .elem tag attrs kids => p pos (.elem tag attrs kids) = q pos (.elem tag attrs kids) ∧ agreeL p q w (pos.kid w tag) kids
def agreeL (p q : Pos → Dom → Bool) (w : Bool) (kp : Pos) : List Dom → Prop
  | [] => True
  | k :: ks => agree p q w kp k ∧ agreeL p q w kp ks
end

mutual
theorem atoms_agree (p q : Pos → Dom → Bool) (w : Bool) :
    ∀ (t : Dom) (pos : Pos) (lc : LC), agree p q w pos t → atoms q w pos lc t = atoms p w pos lc t
  | .text _, pos, lc, _ => by simp [atoms]
  | .other kids, pos, lc, h => by
      simp only [atoms]
      exact atomsL_agree p q w kids _ lc (by simpa [agree] using h)
  | .elem tag attrs kids, pos, lc, h => by
      have h' : p pos (.elem tag attrs kids) = q pos (.elem tag attrs kids) ∧ agreeL p q w (pos.kid w tag) kids := by
        simpa [agree] using h
      unfold atoms
      rw [h'.1]
      by_cases hs : isSkip tag = true
      · simp [hs]
      · by_cases hq : q pos (.elem tag attrs kids) = true
        · simp [hs, hq]
        · simp only [hs, hq, if_false, Bool.false_eq_true]
          split
          · rfl
          · split
            · rfl
            · exact atomsM_agree p q w kids _ lc [] h'.2
          · exact atomsL_agree p q w kids _ _ h'.2
          · rw [atomsLi_agree p q w kids _ _ h'.2]
          · rfl
          · rfl
          · rfl
          · rfl
          · exact atomsL_agree p q w kids _ lc h'.2
theorem atomsL_agree (p q : Pos → Dom → Bool) (w : Bool) :
    ∀ (ts : List Dom) (kp : Pos) (lc : LC), agreeL p q w kp ts → atomsL q w kp lc ts = atomsL p w kp lc ts
  | [], kp, lc, _ => by simp [atomsL]
  | k :: ks, kp, lc, h => by
      have h' : agree p q w kp k ∧ agreeL p q w kp ks := by simpa [agreeL] using h
      simp only [atomsL]
      rw [atoms_agree p q w k kp lc h'.1, atomsL_agree p q w ks kp lc h'.2]
theorem atomsLi_agree (p q : Pos → Dom → Bool) (w : Bool) :
    ∀ (ts : List Dom) (kp : Pos) (lc : LC), agreeL p q w kp ts → atomsLi q w kp lc ts = atomsLi p w kp lc ts
  | [], kp, lc, _ => by simp [atomsLi]
  | k :: ks, kp, lc, h => by
      have h' : agree p q w kp k ∧ agreeL p q w kp ks := by simpa [agreeL] using h
      simp only [atomsLi]
      rw [atoms_agree p q w k kp lc h'.1, atomsLi_agree p q w ks kp lc h'.2]
theorem atomsM_agree (p q : Pos → Dom → Bool) (w : Bool) :
    ∀ (ts : List Dom) (kp : Pos) (lc : LC) (run : Str), agreeL p q w kp ts → atomsM q w kp lc ts run = atomsM p w kp lc ts run
  | [], kp, lc, run, _ => by simp [atomsM]
  | k :: ks, kp, lc, run, h => by
      have h' : agree p q w kp k ∧ agreeL p q w kp ks := by simpa [agreeL] using h
      simp only [atomsM]
      rw [atoms_agree p q w k kp lc h'.1, atomsM_agree p q w ks kp lc _ h'.2, atomsM_agree p q w ks kp lc [] h'.2]
end

/-! ### the pattern matcher is monotone in its vocabulary -/

theorem wordAt_mono (v1 v2 : List Str) (h : ∀ x, x ∈ v1 → x ∈ v2) (s : Str) :
    wordAt v1 s = true → wordAt v2 s = true := by
  unfold wordAt
  simp only [List.any_eq_true]
  rintro ⟨x, hx, hm⟩
  exact ⟨x, h x hx, hm⟩

theorem matchFrom_mono (v1 v2 : List Str) (h : ∀ x, x ∈ v1 → x ∈ v2) :
    ∀ (s : Str) (b : Bool), matchFrom v1 b s = true → matchFrom v2 b s = true
  | [], b => by simp [matchFrom]
  | c :: cs, b => by
      simp only [matchFrom, Bool.or_eq_true, Bool.and_eq_true]
      rintro (⟨hb, hw⟩ | hr)
      · exact Or.inl ⟨hb, wordAt_mono v1 v2 h _ hw⟩
      · exact Or.inr (matchFrom_mono v1 v2 h cs _ hr)

theorem excludedPattern_mono (v1 v2 : List Str) (h : ∀ x, x ∈ v1 → x ∈ v2) (attrs : List (Str × Str)) :
    excludedPattern v1 attrs = true → excludedPattern v2 attrs = true := by
  unfold excludedPattern matchVocab
  simp only [Bool.or_eq_true, Bool.and_eq_true]
  rintro (⟨h1, h2⟩ | ⟨h1, h2⟩)
  · exact Or.inl ⟨h1, matchFrom_mono v1 v2 h _ _ h2⟩
  · exact Or.inr ⟨h1, matchFrom_mono v1 v2 h _ _ h2⟩

end Tabula.Html
