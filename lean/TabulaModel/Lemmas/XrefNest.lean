import TabulaModel.Model.XrefFile
/-!
The limit on objects being loaded inside each other (`maxNestedLoads`, reader/reader.go since
129dd3d) in `getObjectB`: beyond the limit the answer is an error, and the structural `fuel` of
the model is never what ends a lookup.
-/
namespace Tabula.XrefFile
open Tabula.Pdf Tabula.Reader

/-- with `maxNestedLoads` objects already being loaded, every further `GetObject` is an error
(whatever the table and the file say about the object) -/
theorem getObjectB_limit (ext : Reader.Ext) (file : Str) (x : RawSection) (fuel : Nat) (loading : List Int)
    (n : Int) (h : maxNestedLoads ≤ loading.length) : getObjectB ext file x fuel loading n = none := by
  cases fuel with
  | zero => rfl
  | succ f =>
    simp only [getObjectB]
    cases getLastI x n with
    | none => rfl
    | some e =>
      simp only
      split
      · rfl
      · split
        · rfl
        · first | rfl | rw [if_pos h]

/-- **fuel independence**: any two amounts of fuel that cover what the limit still allows
(`maxNestedLoads + 1 - loading.length` nested calls) give the same answer -/
theorem getObjectB_fuel (ext : Reader.Ext) (file : Str) (x : RawSection) :
    ∀ (f f' : Nat) (loading : List Int) (n : Int),
      maxNestedLoads + 1 ≤ f + loading.length → maxNestedLoads + 1 ≤ f' + loading.length →
      getObjectB ext file x f loading n = getObjectB ext file x f' loading n := by
  intro f
  induction f with
  | zero =>
    intro f' loading n h _
    rw [getObjectB_limit ext file x 0 loading n (by omega), getObjectB_limit ext file x f' loading n (by omega)]
  | succ f ih =>
    intro f' loading n h h'
    cases f' with
    | zero =>
      rw [getObjectB_limit ext file x (f + 1) loading n (by omega), getObjectB_limit ext file x 0 loading n (by omega)]
    | succ f' =>
      have e : getObjectB ext file x f (n :: loading) = getObjectB ext file x f' (n :: loading) := by
        funext m
        exact ih f' (n :: loading) m (by simp only [List.length_cons]; omega) (by simp only [List.length_cons]; omega)
      simp only [getObjectB, e]

end Tabula.XrefFile
