import TabulaModel.Lemmas.Workbook
/-!
Lemmas for the two budgets of the xlsx loader (C17; the bounded-work facts are the ones C02 asks
about): the merge loop applies regions while their clipped rectangles add up to at most one grid,
and the grids of one workbook add up to at most `maxGridCells`.

* counting: the cells the merge pass visits for a region are `clipArea` many and distinct;
  pairwise disjoint regions cover at most the grid, so all of them are applied;
* `mergeVisits`: the cell visits of the merge pass of one sheet, at most one grid;
* `usedAfter`: the cells taken out of the workbook's budget, from the file only.
-/
namespace Tabula.Wb
open Tabula.A1 Tabula.Sheet

/-! ## counting the cells of a region -/

theorem nodup_prodRange (a b sr sc : Nat) :
    ((List.range a).flatMap fun dr => (List.range b).map fun dc => (sr + dr, sc + dc)).Nodup := by
  rw [List.nodup_iff_pairwise_ne, List.pairwise_flatMap]
  constructor
  · intro dr _
    rw [List.pairwise_map]
    exact List.Pairwise.imp (fun h e => h (by simp only [Prod.mk.injEq] at e; omega)) (List.nodup_iff_pairwise_ne.mp List.nodup_range)
  · refine List.Pairwise.imp ?_ (List.nodup_iff_pairwise_ne.mp (List.nodup_range (n := a)))
    intro d1 d2 hne x hx y hy e
    simp only [List.mem_map] at hx hy
    obtain ⟨c1, _, rfl⟩ := hx
    obtain ⟨c2, _, h2⟩ := hy
    rw [← h2] at e
    simp only [Prod.mk.injEq] at e
    omega

theorem nodup_length_le {α : Type} [DecidableEq α] (L G : List α) (hn : L.Nodup) (hsub : ∀ a ∈ L, a ∈ G) :
    L.length ≤ G.length := by
  induction L generalizing G with
  | nil => simp
  | cons a L ih =>
    have ha : a ∈ G := hsub a (by simp)
    rw [List.nodup_cons] at hn
    have := ih (G.erase a) hn.2 (fun b hb => by
      have hne : b ≠ a := fun e => hn.1 (e ▸ hb)
      exact (List.mem_erase_of_ne hne).mpr (hsub b (by simp [hb])))
    rw [List.length_erase_of_mem ha] at this
    have : 0 < G.length := List.length_pos_of_mem ha
    simp only [List.length_cons]
    omega

theorem nodup_visited (nrows ncols : Nat) (m : Region) : (visited nrows ncols m).Nodup := by
  unfold visited
  split
  · exact List.nodup_nil
  · unfold regionCells; exact nodup_prodRange _ _ _ _

/-- the positions of a grid of `nrows` x `ncols` cells -/
def gridPos (nrows ncols : Nat) : List (Nat × Nat) :=
  (List.range nrows).flatMap fun r => (List.range ncols).map fun c => (r, c)

theorem length_gridPos (nrows ncols : Nat) : (gridPos nrows ncols).length = nrows * ncols :=
  length_prodRange _ _ _

theorem mem_gridPos (nrows ncols r c : Nat) : (r, c) ∈ gridPos nrows ncols ↔ r < nrows ∧ c < ncols := by
  unfold gridPos
  simp only [List.mem_flatMap, List.mem_range, List.mem_map, Prod.mk.injEq]
  constructor
  · rintro ⟨r', hr, c', hc, rfl, rfl⟩; exact ⟨hr, hc⟩
  · rintro ⟨hr, hc⟩; exact ⟨r, hr, c, hc, rfl, rfl⟩

/-- no position of the grid lies in two of the regions (entries of the list are compared by
place, so a region listed twice overlaps itself) — what every valid sheet satisfies: its merged
regions do not overlap at all -/
def DisjointInGrid (nrows ncols : Nat) (ms : List Region) : Prop :=
  ms.Pairwise fun a b => ∀ r c, r < nrows → c < ncols → ¬ (covers a r c ∧ covers b r c)

/-- regions that do not overlap anywhere are disjoint inside every grid -/
theorem disjointInGrid_of_disjoint (nrows ncols : Nat) (ms : List Region)
    (h : ms.Pairwise fun a b => ∀ r c, ¬ (covers a r c ∧ covers b r c)) : DisjointInGrid nrows ncols ms :=
  List.Pairwise.imp (fun hab r c _ _ => hab r c) h

theorem areaSum_eq_length (nrows ncols : Nat) (ms : List Region) :
    areaSum nrows ncols ms = (ms.flatMap (visited nrows ncols)).length := by
  rw [List.length_flatMap]
  unfold areaSum
  congr 1
  apply List.map_congr_left
  intro m _
  exact (length_visited nrows ncols m).symm

/-- **disjoint regions cover at most the grid**: their clipped areas add up to at most
`nrows * ncols` -/
theorem areaSum_le_of_disjoint (nrows ncols : Nat) (ms : List Region) (h : DisjointInGrid nrows ncols ms) :
    areaSum nrows ncols ms ≤ nrows * ncols := by
  rw [areaSum_eq_length, ← length_gridPos]
  apply nodup_length_le
  · rw [List.nodup_iff_pairwise_ne, List.pairwise_flatMap]
    refine ⟨fun m _ => List.nodup_iff_pairwise_ne.mp (nodup_visited nrows ncols m), ?_⟩
    refine List.Pairwise.imp ?_ h
    intro a b hab p hp q hq e
    subst e
    obtain ⟨r, c⟩ := p
    rw [mem_visited] at hp hq
    exact hab r c hp.2.1 hp.2.2 ⟨hp.1, hq.1⟩
  · rintro ⟨r, c⟩ hp
    simp only [List.mem_flatMap] at hp
    obtain ⟨m, _, hm⟩ := hp
    rw [mem_visited] at hm
    exact (mem_gridPos nrows ncols r c).mpr hm.2

/-! ## the applied regions of a sheet -/

theorem applied_all_of_fit (x : SheetXML)
    (h : areaSum (maxRowOf x.rows) (maxColOf x.rows + 1) (fileRegions x) ≤ gridSize x) :
    appliedRegions x = fileRegions x :=
  applied_all _ _ _ _ h

theorem applied_all_of_disjoint (x : SheetXML)
    (h : DisjointInGrid (maxRowOf x.rows) (maxColOf x.rows + 1) (fileRegions x)) :
    appliedRegions x = fileRegions x :=
  applied_all_of_fit x (areaSum_le_of_disjoint _ _ _ h)

/-- **the cell visits of the merge pass of one sheet**, in the order the Go loops make them:
for every applied region the positions of its rectangle inside the grid, each with the region
it is visited for -/
def mergeVisits (x : SheetXML) : List (Region × (Nat × Nat)) :=
  (appliedRegions x).flatMap fun m => (visited (maxRowOf x.rows) (maxColOf x.rows + 1) m).map fun rc => (m, rc)

theorem length_mergeVisits (x : SheetXML) :
    (mergeVisits x).length = areaSum (maxRowOf x.rows) (maxColOf x.rows + 1) (appliedRegions x) := by
  unfold mergeVisits
  rw [List.length_flatMap]
  unfold areaSum
  congr 1
  apply List.map_congr_left
  intro m _
  rw [List.length_map, length_visited]

/-- the merge pass of `loadSheet` is the fold over exactly these visits -/
theorem foldl_applyRegionC_eq_visits (ncols : Nat) (ms : List Region) (g : Grid) :
    ms.foldl (applyRegionC ncols) g =
      (ms.flatMap fun m => (visited g.length ncols m).map fun rc => (m, rc)).foldl
        (fun g (v : Region × (Nat × Nat)) => g.modify v.2.1 v.2.2 (markCell v.1 v.2)) g := by
  induction ms generalizing g with
  | nil => rfl
  | cons m ms ih =>
    simp only [List.foldl_cons, List.flatMap_cons, List.foldl_append]
    rw [ih, length_applyRegionC]
    congr 1
    unfold applyRegionC
    rw [List.foldl_map]

/-! ## the workbook's budget -/

/-- the sheet fits: its grid is at most what is left of `maxGridCells` plus the allowance of its
part (the negation of the "too large to load" test) -/
def fits (used : Nat) (fresh : Bool) (x : SheetXML) : Prop :=
  gridSize x ≤ maxGridCells - used + allowance fresh x

instance (used : Nat) (fresh : Bool) (x : SheetXML) : Decidable (fits used fresh x) := by
  unfold fits; infer_instance

/-- `(r.gridParts, r.gridCells)` after `parseWorksheets` has gone through `parts`, starting from
`(seen, used)`: from the file only.  A missing part records nothing; every other entry records its
member; an entry that fits is charged `cells - allowance`. -/
def stateAfter : List (Option SheetXML) → List Str → Nat → List Str × Nat
  | [], seen, u => (seen, u)
  | none :: ps, seen, u => stateAfter ps seen u
  | some x :: ps, seen, u =>
    stateAfter ps (x.member :: seen)
      (if fits u (!seen.contains x.member) x then u + charge (!seen.contains x.member) x else u)

/-- `loadSheet` fails exactly when the grid does not fit -/
theorem loadSheet_none_iff (shared : List Str) (i used : Nat) (fresh : Bool) (x : SheetXML) :
    loadSheet shared i used fresh x = none ↔ ¬ fits used fresh x := by
  unfold loadSheet fits gridSize
  simp only
  generalize maxGridCells - used + allowance fresh x = avail
  split
  · rename_i h
    simp only [true_iff]
    have := (Nat.div_lt_iff_lt_mul h.1).mp h.2
    rw [Nat.mul_comm] at this; omega
  · rename_i h
    simp only [reduceCtorEq, false_iff, Classical.not_not]
    rcases Nat.eq_zero_or_pos (maxRowOf x.rows) with h0 | h0
    · rw [h0]; simp
    · have h1 : ¬ maxColOf x.rows + 1 > avail / maxRowOf x.rows := fun hh => h ⟨h0, hh⟩
      have h2 : ¬ avail < (maxColOf x.rows + 1) * maxRowOf x.rows := fun hh => h1 ((Nat.div_lt_iff_lt_mul h0).mpr hh)
      rw [Nat.mul_comm] at h2; omega

theorem loadSheet_isSome_iff (shared : List Str) (i used : Nat) (fresh : Bool) (x : SheetXML) :
    (∃ s, loadSheet shared i used fresh x = some s) ↔ fits used fresh x := by
  cases h : loadSheet shared i used fresh x with
  | none =>
    have := (loadSheet_none_iff shared i used fresh x).mp h
    constructor
    · rintro ⟨s, hs⟩; cases hs
    · intro hf; exact absurd hf this
  | some s =>
    constructor
    · intro _
      apply Classical.byContradiction
      intro hn
      rw [(loadSheet_none_iff shared i used fresh x).mpr hn] at h; cases h
    · intro _; exact ⟨s, rfl⟩

/-- the invariant behind the `int` arithmetic of the Go code: `r.gridCells` never exceeds
`maxGridCells` -/
theorem stateAfter_le (parts : List (Option SheetXML)) (seen : List Str) (u : Nat) (hu : u ≤ maxGridCells) :
    (stateAfter parts seen u).2 ≤ maxGridCells := by
  induction parts generalizing seen u with
  | nil => exact hu
  | cons p ps ih =>
    cases p with
    | none => exact ih seen u hu
    | some x =>
      simp only [stateAfter]
      apply ih
      split
      · rename_i hf
        unfold fits at hf; unfold charge; omega
      · exact hu

/-- the cells of a sheet's grid -/
def sheetCells (s : Sheet) : Nat := (s.rows.map List.length).sum

theorem sum_const_length (n : Nat) (g : Grid) (h : Rect n g) : (g.map List.length).sum = g.length * n := by
  induction g with
  | nil => simp
  | cons row g ih =>
    simp only [List.map_cons, List.sum_cons, List.length_cons]
    rw [ih (fun r hr => h r (by simp [hr])), h row (by simp), Nat.succ_mul]
    omega

theorem sheetCells_of_load {shared : List Str} {i used : Nat} {fresh : Bool} {x : SheetXML} {s : Sheet}
    (h : loadSheet shared i used fresh x = some s) : sheetCells s = gridSize x := by
  obtain ⟨h1, h2⟩ := loadSheet_shape h
  unfold sheetCells gridSize
  rw [sum_const_length _ _ h2, h1, (loadSheet_some h).2.2.1]

/-- the `<c>` elements whose allowance was granted: those of the entries that are fresh and load
(each distinct member at most once), from the file only -/
def grantedElements : List (Option SheetXML) → List Str → Nat → Nat
  | [], _, _ => 0
  | none :: ps, seen, u => grantedElements ps seen u
  | some x :: ps, seen, u =>
    if fits u (!seen.contains x.member) x then
      (if !seen.contains x.member then elements x else 0) +
        grantedElements ps (x.member :: seen) (u + charge (!seen.contains x.member) x)
    else grantedElements ps (x.member :: seen) u

/-- the `<c>` elements of the distinct members among the present parts (each member counted at
its first entry) -/
def distinctElements : List (Option SheetXML) → List Str → Nat
  | [], _ => 0
  | none :: ps, seen => distinctElements ps seen
  | some x :: ps, seen =>
    (if !seen.contains x.member then elements x else 0) + distinctElements ps (x.member :: seen)

theorem grantedElements_le (parts : List (Option SheetXML)) (seen : List Str) (u : Nat) :
    grantedElements parts seen u ≤ distinctElements parts seen := by
  induction parts generalizing seen u with
  | nil => exact Nat.le_refl _
  | cons p ps ih =>
    cases p with
    | none => exact ih seen u
    | some x =>
      simp only [grantedElements, distinctElements]
      split
      · have := ih (x.member :: seen) (u + charge (!seen.contains x.member) x); omega
      · have := ih (x.member :: seen) u; omega

/-- a member named by several entries is counted once -/
theorem distinctElements_replicate (x : SheetXML) (k : Nat) (seen : List Str) :
    distinctElements (List.replicate (k + 1) (some x)) seen =
      if seen.contains x.member then 0 else elements x := by
  have hrest : ∀ (n : Nat) (seen' : List Str), x.member ∈ seen' →
      distinctElements (List.replicate n (some x)) seen' = 0 := by
    intro n
    induction n with
    | zero => intro _ _; rfl
    | succ n ih =>
      intro seen' hm
      simp only [List.replicate_succ, distinctElements]
      have : seen'.contains x.member = true := by simpa using hm
      rw [this, ih _ (by simp [hm])]; rfl
  simp only [List.replicate_succ, distinctElements]
  rw [hrest k (x.member :: seen) (by simp)]
  cases seen.contains x.member <;> simp

/-- **the grids of the sheets `parseWorksheets` loads**: their cells are at most what was charged
to the budget plus the allowances granted -/
theorem loadParts_cells_le (shared : List Str) (parts : List (Option SheetXML)) (k : Nat) (seen : List Str) (used : Nat) :
    used + ((loadParts shared parts k seen used).map sheetCells).sum ≤
      (stateAfter parts seen used).2 + gridCellsPerElement * grantedElements parts seen used := by
  induction parts generalizing k seen used with
  | nil => simp [loadParts, stateAfter, grantedElements]
  | cons p ps ih =>
    cases p with
    | none => simp only [loadParts, stateAfter, grantedElements]; exact ih _ _ _
    | some x =>
      simp only [loadParts, stateAfter, grantedElements]
      cases hl : loadSheet shared k used (!seen.contains x.member) x with
      | none =>
        have hn := (loadSheet_none_iff shared k used _ x).mp hl
        simp only [hn, if_false]
        exact ih _ _ _
      | some s =>
        have hf : fits used (!seen.contains x.member) x := (loadSheet_isSome_iff shared k used _ x).mp ⟨s, hl⟩
        simp only [hf, if_true, List.map_cons, List.sum_cons]
        rw [sheetCells_of_load hl]
        have := ih (k + 1) (x.member :: seen) (used + charge (!seen.contains x.member) x)
        have hc : gridSize x ≤ charge (!seen.contains x.member) x +
            gridCellsPerElement * (if !seen.contains x.member then elements x else 0) := by
          unfold charge allowance
          cases seen.contains x.member <;> simp <;> omega
        rw [Nat.mul_add]
        omega

/-- a dense part: its grid has at most `gridCellsPerElement` cells per `<c>` element -/
theorem dense_fits (used : Nat) (x : SheetXML) (h : gridSize x ≤ gridCellsPerElement * elements x) :
    fits used true x ∧ charge true x = 0 := by
  unfold fits charge allowance
  simp only [if_true]
  omega

/-- every present part before position `j` has its member recorded -/
theorem member_seen (parts : List (Option SheetXML)) (seen : List Str) (u : Nat) (x : SheetXML)
    (h : some x ∈ parts) : x.member ∈ (stateAfter parts seen u).1 := by
  have hmono : ∀ (ps : List (Option SheetXML)) (seen' : List Str) (u' : Nat) (m : Str),
      m ∈ seen' → m ∈ (stateAfter ps seen' u').1 := by
    intro ps
    induction ps with
    | nil => intro _ _ _ hm; exact hm
    | cons p ps ih =>
      intro seen' u' m hm
      cases p with
      | none => exact ih _ _ _ hm
      | some y => simp only [stateAfter]; exact ih _ _ _ (by simp [hm])
  induction parts generalizing seen u with
  | nil => cases h
  | cons p ps ih =>
    rcases List.mem_cons.mp h with h1 | h1
    · subst h1
      simp only [stateAfter]
      exact hmono _ _ _ _ (by simp)
    · cases p with
      | none => exact ih _ _ h1
      | some y => simp only [stateAfter]; exact ih _ _ h1

end Tabula.Wb
