import TabulaModel.Model.Split
/-!
Helper lemmas for C13: whitespace-only strings, `strings.TrimSpace` removes only
whitespace from both ends, and the decomposition of a text into gaps and pieces.
-/
set_option linter.unusedVariables false
namespace Tabula.Split

/-- `c` is the encoding of exactly one White_Space character -/
def IsWsChar (c : Str) : Prop := c ≠ [] ∧ spaceLen c = c.length

/-- a concatenation of White_Space characters -/
inductive WsOnly : Str → Prop
  | nil : WsOnly []
  | cons {c s : Str} : IsWsChar c → WsOnly s → WsOnly (c ++ s)

theorem WsOnly.append {a b : Str} (ha : WsOnly a) (hb : WsOnly b) : WsOnly (a ++ b) := by
  induction ha with
  | nil => simpa using hb
  | cons hc _ ih => rw [List.append_assoc]; exact .cons hc ih

theorem WsOnly.single {c : Str} (h : IsWsChar c) : WsOnly c := by
  have := WsOnly.cons h .nil
  simpa using this

theorem isSpace3_not_ascii {b c d : Nat} (h : isSpace3 b c d = true) :
    isAsciiSpace b = false ∧ isSpace2 b c = false := by
  simp only [isSpace3, Bool.or_eq_true, Bool.and_eq_true, beq_iff_eq,
    decide_eq_true_eq] at h
  constructor
  · simp only [isAsciiSpace, Bool.or_eq_false_iff, Bool.and_eq_false_iff, decide_eq_false_iff_not,
      beq_eq_false_iff_ne]
    omega
  · simp only [isSpace2, Bool.and_eq_false_iff, beq_eq_false_iff_ne]
    omega

theorem isSpace2_not_ascii {b c : Nat} (h : isSpace2 b c = true) : isAsciiSpace b = false := by
  simp only [isSpace2, Bool.and_eq_true, beq_iff_eq] at h
  simp only [isAsciiSpace, Bool.or_eq_false_iff, Bool.and_eq_false_iff, decide_eq_false_iff_not,
    beq_eq_false_iff_ne]
  omega

/-- what `trimLeft` strips in one step is one White_Space character -/
theorem isWsChar_take_spaceLen (s : Str) (h : spaceLen s ≠ 0) : IsWsChar (s.take (spaceLen s)) := by
  rcases s with _ | ⟨b, rest⟩
  · simp [spaceLen] at h
  · by_cases hb : isAsciiSpace b = true
    · have e : spaceLen (b :: rest) = 1 := by simp [spaceLen, hb]
      rw [e]; simp [IsWsChar, spaceLen, hb]
    · rcases rest with _ | ⟨c, rest2⟩
      · simp [spaceLen, hb] at h
      · by_cases hc : isSpace2 b c = true
        · have e : spaceLen (b :: c :: rest2) = 2 := by simp [spaceLen, hb, hc]
          rw [e]; simp [IsWsChar, spaceLen, hb, hc]
        · rcases rest2 with _ | ⟨d, rest3⟩
          · simp [spaceLen, hb, hc] at h
          · by_cases hd : isSpace3 b c d = true
            · have e : spaceLen (b :: c :: d :: rest3) = 3 := by simp [spaceLen, hb, hc, hd]
              rw [e]; simp [IsWsChar, spaceLen, hb, hc, hd]
            · simp [spaceLen, hb, hc, hd] at h

/-- what `trimRight` strips in one step (on the reversed string) is one White_Space character -/
theorem isWsChar_take_spaceLenRev (r : Str) (h : spaceLenRev r ≠ 0) :
    IsWsChar (r.take (spaceLenRev r)).reverse := by
  rcases r with _ | ⟨d, rest⟩
  · simp [spaceLenRev] at h
  · by_cases hd : isAsciiSpace d = true
    · have e : spaceLenRev (d :: rest) = 1 := by simp [spaceLenRev, hd]
      rw [e]; simp [IsWsChar, spaceLen, hd]
    · rcases rest with _ | ⟨c, rest2⟩
      · simp [spaceLenRev, hd] at h
      · by_cases hc : isSpace2 c d = true
        · have e : spaceLenRev (d :: c :: rest2) = 2 := by simp [spaceLenRev, hd, hc]
          have hc' := isSpace2_not_ascii hc
          rw [e]; simp [IsWsChar, spaceLen, hc, hc']
        · rcases rest2 with _ | ⟨b, rest3⟩
          · simp [spaceLenRev, hd, hc] at h
          · by_cases hb : isSpace3 b c d = true
            · have e : spaceLenRev (d :: c :: b :: rest3) = 3 := by simp [spaceLenRev, hd, hc, hb]
              have hb' := isSpace3_not_ascii hb
              rw [e]; simp [IsWsChar, spaceLen, hb, hb'.1, hb'.2]
            · simp [spaceLenRev, hd, hc, hb] at h

theorem trimLeft_decomp (s : Str) : ∃ l, WsOnly l ∧ s = l ++ trimLeft s := by
  induction s using trimLeft.induct with
  | case1 s h => exact ⟨[], .nil, by rw [trimLeft, dif_pos h]; rfl⟩
  | case2 s h ih =>
    obtain ⟨l, hl, e⟩ := ih
    refine ⟨s.take (spaceLen s) ++ l, .cons (isWsChar_take_spaceLen s h) hl, ?_⟩
    rw [trimLeft, dif_neg h, List.append_assoc, ← e, List.take_append_drop]

theorem trimLeftRev_decomp (r : Str) : ∃ l, WsOnly l.reverse ∧ r = l ++ trimLeftRev r := by
  induction r using trimLeftRev.induct with
  | case1 r h => exact ⟨[], .nil, by rw [trimLeftRev, dif_pos h]; rfl⟩
  | case2 r h ih =>
    obtain ⟨l, hl, e⟩ := ih
    refine ⟨r.take (spaceLenRev r) ++ l, ?_, ?_⟩
    · rw [List.reverse_append]
      exact hl.append (.single (isWsChar_take_spaceLenRev r h))
    · rw [trimLeftRev, dif_neg h, List.append_assoc, ← e, List.take_append_drop]

theorem trimRight_decomp (s : Str) : ∃ r, WsOnly r ∧ s = trimRight s ++ r := by
  obtain ⟨l, hl, e⟩ := trimLeftRev_decomp s.reverse
  refine ⟨l.reverse, hl, ?_⟩
  have := congrArg List.reverse e
  rw [List.reverse_reverse, List.reverse_append] at this
  exact this

/-- `strings.TrimSpace` removes only whitespace, from both ends -/
theorem trimSpace_decomp (s : Str) :
    ∃ l r, WsOnly l ∧ WsOnly r ∧ s = l ++ trimSpace s ++ r := by
  obtain ⟨l, hl, e1⟩ := trimLeft_decomp s
  obtain ⟨r, hr, e2⟩ := trimRight_decomp (trimLeft s)
  refine ⟨l, r, hl, hr, ?_⟩
  unfold trimSpace
  rw [List.append_assoc, ← e2, ← e1]

theorem wsOnly_of_trimSpace_nil (s : Str) (h : trimSpace s = []) : WsOnly s := by
  obtain ⟨l, r, hl, hr, e⟩ := trimSpace_decomp s
  rw [h] at e
  rw [e]
  simpa using hl.append hr

/-- `Pieces text ps`: the pieces `ps` are, in order, disjoint substrings of `text`, and
everything between them, before the first and after the last is whitespace only. -/
inductive Pieces : Str → List Str → Prop
  | done {g : Str} : WsOnly g → Pieces g []
  | piece {g p r : Str} {ps : List Str} : WsOnly g → Pieces r ps → Pieces (g ++ p ++ r) (p :: ps)

theorem Pieces.append_right {t : Str} {ps : List Str} (h : Pieces t ps) {r : Str} (hr : WsOnly r) :
    Pieces (t ++ r) ps := by
  induction h with
  | done hg => exact .done (hg.append hr)
  | piece hg _ ih => rw [List.append_assoc]; exact .piece hg ih

theorem Pieces.prepend {t : Str} {ps : List Str} (h : Pieces t ps) {g : Str} (hg : WsOnly g) :
    Pieces (g ++ t) ps := by
  induction h with
  | done hx => exact .done (hg.append hx)
  | @piece g' p r' ps' hg' hrest _ =>
    have : g ++ (g' ++ p ++ r') = (g ++ g') ++ p ++ r' := by simp [List.append_assoc]
    rw [this]
    exact .piece (hg.append hg') hrest

theorem Pieces.surround {t : Str} {ps : List Str} (h : Pieces t ps) {g r : Str}
    (hg : WsOnly g) (hr : WsOnly r) : Pieces (g ++ t ++ r) ps := by
  rw [List.append_assoc]
  exact (h.append_right hr).prepend hg

theorem Pieces.cast {t t' : Str} {ps : List Str} (h : Pieces t ps) (e : t' = t) : Pieces t' ps :=
  e ▸ h

theorem Pieces.map_trimSpace {t : Str} {ps : List Str} (h : Pieces t ps) :
    Pieces t (ps.map trimSpace) := by
  induction h with
  | done hg => exact .done hg
  | @piece g p r ps hg hrest ih =>
    obtain ⟨l, r', hl, hr', e⟩ := trimSpace_decomp p
    have h1 := Pieces.piece (p := trimSpace p) (hg.append hl) (ih.prepend hr')
    refine h1.cast ?_
    have : g ++ p ++ r = g ++ (l ++ trimSpace p ++ r') ++ r := by rw [← e]
    rw [this]; simp [List.append_assoc]

/-- the pieces are sub-lists of the text: their total length is at most its length -/
theorem Pieces.length_le {t : Str} {ps : List Str} (h : Pieces t ps) :
    (ps.map List.length).sum ≤ t.length := by
  induction h with
  | done _ => simp
  | piece _ _ ih => simp only [List.map_cons, List.sum_cons, List.length_append]; omega

/-- **conservation** for `SplitToSize`, any configuration, any boundaries, any bytes -/
theorem splitToSize_pieces (c : SizeConfig) (text : Str) (bs : List Boundary) :
    Pieces text (splitToSize c text bs) := by
  induction text, bs using splitToSize.induct c with
  | case1 rem bs h =>
    rw [splitToSize, if_pos h]
    have : rem = [] := List.length_eq_zero_iff.mp h
    subst this
    exact .done .nil
  | case2 rem bs h hmax =>
    rw [splitToSize, if_neg h, if_pos hmax]
    have := Pieces.piece (p := rem) .nil (.done .nil)
    simpa using this
  | case3 rem bs h hmax sp hsp =>
    rw [splitToSize, if_neg h, if_neg hmax]
    simp only [sp] at hsp
    rw [dif_pos hsp]
    have := Pieces.piece (p := rem) .nil (.done .nil)
    simpa using this
  | case4 rem bs h hmax sp hsp chunk rest bs' hchunk ih =>
    rw [splitToSize, if_neg h, if_neg hmax]
    simp only [sp] at hsp
    rw [dif_neg hsp]
    simp only [chunk, sp] at hchunk
    rw [if_pos hchunk]
    obtain ⟨l, r, hl, hr, e⟩ := trimSpace_decomp (rem.drop sp)
    have hw := wsOnly_of_trimSpace_nil _ hchunk
    have := ih.surround (hw.append hl) hr
    have e2 : rem = rem.take sp ++ l ++ rest ++ r := by
      rw [List.append_assoc, List.append_assoc, ← List.append_assoc l, ← e, List.take_append_drop]
    exact this.cast e2
  | case5 rem bs h hmax sp hsp chunk rest bs' hchunk ih =>
    rw [splitToSize, if_neg h, if_neg hmax]
    simp only [sp] at hsp
    rw [dif_neg hsp]
    simp only [chunk, sp] at hchunk
    rw [if_neg hchunk]
    obtain ⟨l1, r1, hl1, hr1, e1⟩ := trimSpace_decomp (rem.take sp)
    obtain ⟨l2, r2, hl2, hr2, e2⟩ := trimSpace_decomp (rem.drop sp)
    have hrest := ih.surround (hr1.append hl2) hr2
    have := Pieces.piece (p := chunk) hl1 hrest
    have e3 : rem = l1 ++ chunk ++ (r1 ++ l2 ++ rest ++ r2) := by
      calc rem = rem.take sp ++ rem.drop sp := (List.take_append_drop sp rem).symm
        _ = (l1 ++ chunk ++ r1) ++ (l2 ++ rest ++ r2) := by rw [← e1, ← e2]
        _ = l1 ++ chunk ++ (r1 ++ l2 ++ rest ++ r2) := by simp [List.append_assoc]
    exact this.cast e3

end Tabula.Split
