import TabulaModel.Lemmas.Detect
import TabulaModel.Lemmas.PackageApi
/-!
The archive as the content sniffing of the front door sees it (`zipMembers`), related to
the archive lookup of the readers; distinct member names make the `mimetype` verdict unique.
-/
namespace Tabula.PackageApi
open Tabula.Package
open Tabula.Detect (Member firstMime hasMember hasDir detectZip mimeVerdict MimeAgree nMimetype)

theorem hasMember_zipMembers (a : Archive) (mime : Nat → Option Str) (n : Str) :
    hasMember n (zipMembers a mime) = (lookup a n).isSome := by
  induction a with
  | nil => rfl
  | cons m rest ih =>
    obtain ⟨k, c⟩ := m
    have ih' : (List.map (fun m => ({ name := m.1, data := if m.1 = nMimetype then mime m.2 else none } : Member)) rest).any
        (fun m => decide (m.name = n)) = (lookup rest n).isSome := by
      simpa [hasMember, zipMembers] using ih
    simp only [zipMembers, hasMember, List.map_cons, List.any_cons, lookup]
    by_cases h : k = n
    · simp [h]
    · simp only [h, decide_false, Bool.false_or, if_false]
      exact ih'

theorem names_zipMembers (a : Archive) (mime : Nat → Option Str) :
    (zipMembers a mime).map (·.name) = a.map Prod.fst := by
  simp [zipMembers]

/-- distinct member names: at most one member is called `mimetype` -/
theorem mimeAgree_of_nodup (ms : List Member) (h : (ms.map (·.name)).Nodup) : MimeAgree ms := by
  induction ms with
  | nil => intro m hm; cases hm
  | cons a rest ih =>
    rw [List.map_cons, List.nodup_cons] at h
    have hname : ∀ m, mimeVerdict m ≠ none → m.name = nMimetype := by
      intro m hv
      apply Classical.byContradiction
      intro hne
      exact hv (Detect.mimeVerdict_none_of_name hne)
    intro m hm m' hm' f g hf hg
    rw [List.mem_cons] at hm hm'
    have nm : m.name = nMimetype := hname m (by rw [hf]; simp)
    have nm' : m'.name = nMimetype := hname m' (by rw [hg]; simp)
    rcases hm with rfl | hm <;> rcases hm' with rfl | hm'
    · rw [hf] at hg; exact Option.some.inj hg
    · exact absurd (List.mem_map.2 ⟨m', hm', by rw [nm', nm]⟩) h.1
    · exact absurd (List.mem_map.2 ⟨m, hm, by rw [nm, nm']⟩) h.1
    · exact ih h.2 m hm m' hm' f g hf hg

end Tabula.PackageApi
