import TabulaModel.Lemmas.GState
import TabulaModel.Lemmas.XDoc
/-!
Spelling forms out: `Do` of a form with `/Matrix N` and content `body` becomes
`q N cm body Q` (ISO 32000-1 8.10.1), recursively, so that a program with forms nested to
any depth becomes a `Do`-free program.  For programs whose form contents are balanced in
q/Q the extractor model runs both to the same state and the same fragments.
-/
namespace Tabula.GState
open Tabula Tabula.XDoc

variable {α : Type}

/-- the `cm` of a form's `/Matrix` -/
def cmOf : Option (Matrix α) → List (Op α)
  | some N => [Op.cm N]
  | none => []

/-- forms spelled out, `d` = the nesting depth at which the program runs; a `Do` at the
nesting limit is dropped, as the extractor drops it -/
def spellOut : Nat → List (Op α) → List (Op α)
  | _, [] => []
  | d, .form m body :: rest =>
    if d ≥ maxXObjectDepth then spellOut d rest
    else Op.q :: (cmOf m ++ spellOut (d + 1) body ++ [Op.Q]) ++ spellOut d rest
  | d, op :: rest => op :: spellOut d rest

theorem spellOut_cons_plain (d : Nat) (op : Op α) (rest : List (Op α)) (h : ∀ m b, op ≠ Op.form m b) :
    spellOut d (op :: rest) = op :: spellOut d rest := by
  cases op <;> first | exact absurd rfl (h _ _) | simp [spellOut]

theorem spellOut_append (d : Nat) (a b : List (Op α)) : spellOut d (a ++ b) = spellOut d a ++ spellOut d b := by
  induction a with
  | nil => simp [spellOut]
  | cons op rest ih =>
    by_cases hf : ∀ m body, op ≠ Op.form m body
    · rw [List.cons_append, spellOut_cons_plain d op _ hf, spellOut_cons_plain d op _ hf, ih]; rfl
    · have : ∃ m body, op = Op.form m body := by
        cases op <;> first | exact ⟨_, _, rfl⟩ | (exfalso; apply hf; intro m b h; cases h)
      obtain ⟨m, body, rfl⟩ := this
      simp only [List.cons_append, spellOut]
      split
      · exact ih
      · rw [ih]; simp [List.append_assoc]

section
variable [Lean.Grind.CommRing α] [DecidableEq α] [LT α] [DecidableLT α]

theorem showText_shift (adv : Adv α) (sid : Nat) (s : State α) (k : Nat) :
    showText adv sid { s with xdepth := k } =
      ({ (showText adv sid s).1 with xdepth := k }, (showText adv sid s).2) := by
  simp [showText, State.advanceText, State.mapText, State.getTextPosition]

theorem showTextArray_shift (adv : Adv α) (items : List (TJItem α)) (s : State α) (k : Nat) :
    showTextArray adv items { s with xdepth := k } =
      ({ (showTextArray adv items s).1 with xdepth := k }, (showTextArray adv items s).2) := by
  induction items generalizing s with
  | nil => rfl
  | cons it rest ih =>
    cases it with
    | str sid =>
      simp only [showTextArray, showText_shift]
      rw [ih]
    | num v =>
      simp only [showTextArray]
      have h : ({ s with xdepth := k } : State α).advanceText (adv s.cur.text (.num v))
          = { s.advanceText (adv s.cur.text (.num v)) with xdepth := k } := by
        simp [State.advanceText, State.mapText]
      rw [h, ih]

/-- the nesting depth plays no part in an operator that is not `Do` -/
theorem stepBasic_shift (adv : Adv α) (op : Op α) (s : State α) (k : Nat) :
    stepBasic adv op { s with xdepth := k } =
      ({ (stepBasic adv op s).1 with xdepth := k }, (stepBasic adv op s).2.1, (stepBasic adv op s).2.2) := by
  cases op with
  | quote sid =>
    have h : ({ s with xdepth := k } : State α).nextLine = { s.nextLine with xdepth := k } := rfl
    simp only [stepBasic, h, showText_shift]
  | dquote aw ac sid =>
    have h : ((({ s with xdepth := k } : State α).setWordSpacing aw).setCharSpacing ac).nextLine
        = { ((s.setWordSpacing aw).setCharSpacing ac).nextLine with xdepth := k } := rfl
    simp only [stepBasic, h, showText_shift]
  | Q =>
    cases s with | mk c st d =>
    cases st <;> simp [stepBasic, State.restore]
  | _ =>
    simp [stepBasic, State.save, State.transform, State.beginText, State.mapText, State.setFont,
      State.setTextMatrix, State.translateText, State.translateTextSetLeading, State.setLeading,
      State.nextLine, State.setCharSpacing, State.setWordSpacing, State.setHorizontalScaling,
      State.setTextRise, showText_shift, showTextArray_shift]

theorem step_formFree (adv : Adv α) (op : Op α) (h : ∀ m b, op ≠ Op.form m b) (s : State α) :
    step adv op s = stepBasic adv op s := by
  cases op <;> first | exact absurd rfl (h _ _) | rfl

/-- a `Do`-free program runs the same at every nesting depth -/
theorem exec_shift (adv : Adv α) (ops : List (Op α)) (hff : FormFree ops) (s : State α) (k : Nat) :
    exec adv ops { s with xdepth := k } =
      (exec adv ops s).map fun r => ({ r.1 with xdepth := k }, r.2) := by
  induction ops generalizing s with
  | nil => simp [exec]
  | cons op rest ih =>
    have hop : ∀ m b, op ≠ Op.form m b := hff op List.mem_cons_self
    simp only [exec, step_formFree adv op hop, stepBasic_shift]
    split
    · rfl
    · rw [ih hff.tail]
      cases exec adv rest (stepBasic adv op s).1 <;> simp

omit [Lean.Grind.CommRing α] [DecidableEq α] [LT α] [DecidableLT α] in
theorem plain_not_form {op : Op α} (h : op.plain = true) : ∀ m b, op ≠ Op.form m b := by
  intro m b hc; subst hc; simp [Op.plain] at h

omit [Lean.Grind.CommRing α] [DecidableEq α] [LT α] [DecidableLT α] in
theorem FormFree.cons {op : Op α} {l : List (Op α)} (h : ∀ m b, op ≠ Op.form m b) (hl : FormFree l) :
    FormFree (op :: l) := by
  intro o ho
  rcases List.mem_cons.mp ho with h1 | h1
  · subst h1; exact h
  · exact hl o h1

omit [Lean.Grind.CommRing α] [DecidableEq α] [LT α] [DecidableLT α] in
theorem cmOf_formFree (m : Option (Matrix α)) : FormFree (cmOf m) := by
  cases m <;> simp [cmOf, FormFree]

omit [Lean.Grind.CommRing α] [DecidableEq α] [LT α] [DecidableLT α] in
/-- spelling out a balanced program leaves no `Do` -/
theorem balanced_inline_formFree {ops : List (Op α)} (hb : Balanced ops) :
    ∀ d, FormFree (spellOut d ops) := by
  induction hb with
  | nil => intro d; simp [spellOut, FormFree]
  | plain op rest hp _ ih =>
    intro d
    rw [spellOut_cons_plain d op rest (plain_not_form hp)]
    exact FormFree.cons (plain_not_form hp) (ih d)
  | qQ body rest _ _ ihb ihr =>
    intro d
    rw [spellOut_cons_plain d Op.q _ (by intro m b h; cases h), spellOut_append,
      spellOut_cons_plain d Op.Q _ (by intro m b h; cases h)]
    exact FormFree.cons (by intro m b h; cases h)
      (FormFree.append (ihb d) (FormFree.cons (by intro m b h; cases h) (ihr d)))
  | form m body rest _ _ ihb ihr =>
    intro d
    simp only [spellOut]
    split
    · exact ihr d
    · exact FormFree.append (FormFree.cons (by intro m b h; cases h)
        (FormFree.append (FormFree.append (cmOf_formFree m) (ihb (d + 1)))
          (FormFree.cons (by intro m b h; cases h) FormFree.nil))) (ihr d)

/-- the state after `q` and the `cm` of `/Matrix` -/
def afterQcm (m : Option (Matrix α)) (s : State α) : State α :=
  match m with
  | some N => s.save.transform N
  | none => s.save

/-- running the `cm` of `/Matrix` -/
theorem exec_cmOf (adv : Adv α) (m : Option (Matrix α)) (s : State α) :
    exec adv (cmOf m) s.save = some (afterQcm m s, []) := by
  cases m <;> simp [cmOf, exec, step, stepBasic, afterQcm]

omit [DecidableEq α] [LT α] [DecidableLT α] in
/-- `formEnter` is `q`, `cm`, one level deeper -/
theorem formEnter_eq (m : Option (Matrix α)) (s : State α) :
    formEnter m s = { afterQcm m s with xdepth := s.xdepth + 1 } := by
  cases m <;> simp [formEnter, State.save, State.transform, afterQcm]

omit [DecidableEq α] [LT α] [DecidableLT α] in
theorem afterQcm_eq (m : Option (Matrix α)) (s : State α) :
    afterQcm m s = { formEnter m s with xdepth := s.xdepth } := by
  cases m <;> simp [formEnter, State.save, State.transform, afterQcm]

/-- **a balanced program and its spelled-out form run alike**: same final state, same
fragments, no error; the stack and the nesting depth come back -/
theorem balanced_inline (adv : Adv α) {ops : List (Op α)} (hb : Balanced ops) :
    ∀ s : State α, ∃ s' out, exec adv ops s = some (s', out) ∧
      exec adv (spellOut s.xdepth ops) s = some (s', out) ∧
      s'.stack = s.stack ∧ s'.xdepth = s.xdepth := by
  induction hb with
  | nil => intro s; exact ⟨s, [], rfl, by simp [spellOut, exec], rfl, rfl⟩
  | plain op rest hp _ ih =>
    intro s
    obtain ⟨he, hs, hd⟩ := stepBasic_plain adv op hp s
    obtain ⟨s', out, h1, h2, h3, h4⟩ := ih (stepBasic adv op s).1
    rw [hd] at h2
    refine ⟨s', (stepBasic adv op s).2.1 ++ out, ?_, ?_, by rw [h3, hs], by rw [h4, hd]⟩
    · simp [exec, step_plain adv op hp, he, h1]
    · rw [spellOut_cons_plain _ op rest (plain_not_form hp)]
      simp [exec, step_plain adv op hp, he, h2]
  | qQ body rest _ _ ihb ihr =>
    intro s
    obtain ⟨s1, o1, h1, h1', h3, h4⟩ := ihb s.save
    have hst : s1.stack = s.cur :: s.stack := by rw [h3]; rfl
    have hres : s1.restore = some s := by
      cases s with | mk c st d =>
      cases s1 with | mk c1 st1 d1 =>
      simp only [State.save] at hst h4
      subst hst h4
      rfl
    obtain ⟨s2, o2, g1, g1', g3, g4⟩ := ihr s
    have hsx : s.save.xdepth = s.xdepth := rfl
    rw [hsx] at h1'
    have hstep : step adv Op.q s = (s.save, [], false) := rfl
    refine ⟨s2, o1 ++ o2, ?_, ?_, g3, g4⟩
    · have hq : exec adv (Op.Q :: rest) s1 = some (s2, o2) := by
        simp [exec, step, stepBasic, hres, g1]
      have hbody : exec adv (body ++ Op.Q :: rest) s.save = some (s2, o1 ++ o2) := by
        rw [exec_append, h1]; simp only; rw [hq]
      rw [exec, hstep]; simp only [Bool.false_eq_true, if_false, hbody, List.nil_append]
    · rw [spellOut_cons_plain _ Op.q _ (by intro m b h; cases h), spellOut_append,
        spellOut_cons_plain _ Op.Q _ (by intro m b h; cases h)]
      have hq : exec adv (Op.Q :: spellOut s.xdepth rest) s1 = some (s2, o2) := by
        simp [exec, step, stepBasic, hres, g1']
      have hbody : exec adv (spellOut s.xdepth body ++ Op.Q :: spellOut s.xdepth rest) s.save = some (s2, o1 ++ o2) := by
        rw [exec_append, h1']; simp only; rw [hq]
      rw [exec, hstep]; simp only [Bool.false_eq_true, if_false, hbody, List.nil_append]
  | form m body rest hbb _ ihb ihr =>
    intro s
    obtain ⟨s2, o2, g1, g1', g3, g4⟩ := ihr s
    by_cases hdep : s.xdepth ≥ maxXObjectDepth
    · refine ⟨s2, o2, ?_, ?_, g3, g4⟩
      · simp [exec, step, hdep, g1]
      · simp only [spellOut, hdep, if_true]; exact g1'
    · obtain ⟨s1, o1, h1, h1', h3, h4⟩ := ihb (formEnter m s)
      obtain ⟨s1b, o1b, k1, k2, _, _⟩ := balanced_exec adv hbb (formEnter m s)
      have hsame : (s1b, o1b) = (s1, o1) := by
        have := k1.symm.trans h1; simpa using this
      have hrun : runForm adv body (formEnter m s) = (s1, o1) := by rw [k2, hsame]
      have hx := formExit_formEnter m s s1 h3 h4
      refine ⟨s2, o1 ++ o2, ?_, ?_, g3, g4⟩
      · simp [exec, step, hdep, hrun, hx, g1]
      · -- the spelled-out form
        simp only [spellOut, hdep, if_false]
        have hxd : (formEnter m s).xdepth = s.xdepth + 1 := by
          cases m <;> simp [formEnter, State.save, State.transform]
        rw [hxd] at h1'
        have hff := balanced_inline_formFree hbb (s.xdepth + 1)
        have hbody : exec adv (spellOut (s.xdepth + 1) body) (afterQcm m s) =
            some ({ s1 with xdepth := s.xdepth }, o1) := by
          rw [afterQcm_eq, exec_shift adv _ hff, h1']; rfl
        have hstk : s1.stack = s.cur :: s.stack := by
          rw [h3]; cases m <;> simp [formEnter, State.save, State.transform]
        have hQ : exec adv [Op.Q] ({ s1 with xdepth := s.xdepth } : State α) = some (s, []) := by
          cases s with | mk c st d =>
          cases s1 with | mk c1 st1 d1 =>
          simp only at hstk
          subst hstk
          simp [exec, step, stepBasic, State.restore]
        have hstep : step adv Op.q s = (s.save, [], false) := rfl
        have hcm : exec adv (cmOf m) s.save = some (afterQcm m s, []) := exec_cmOf adv m s
        rw [List.cons_append, exec, hstep]
        simp only [Bool.false_eq_true, if_false]
        rw [exec_append, exec_append, exec_append, hcm]
        simp only
        rw [hbody]
        simp only
        rw [hQ]
        simp only
        rw [g1']
        simp

/-- the content of every form the program invokes is balanced in q/Q (ISO 32000-1 8.10.1);
`Balanced` reaches through nested forms, the program itself need not be balanced -/
def FormsBalanced (ops : List (Op α)) : Prop := ∀ m body, Op.form m body ∈ ops → Balanced body

omit [Lean.Grind.CommRing α] [DecidableEq α] [LT α] [DecidableLT α] in
theorem FormsBalanced.tail {op : Op α} {l : List (Op α)} (h : FormsBalanced (op :: l)) : FormsBalanced l :=
  fun m b hm => h m b (List.mem_cons_of_mem _ hm)

omit [Lean.Grind.CommRing α] [DecidableEq α] [LT α] [DecidableLT α] in
theorem formsBalanced_inline_formFree {ops : List (Op α)} (h : FormsBalanced ops) (d : Nat) :
    FormFree (spellOut d ops) := by
  induction ops with
  | nil => simp [spellOut, FormFree]
  | cons op rest ih =>
    by_cases hf : ∀ m body, op ≠ Op.form m body
    · rw [spellOut_cons_plain d op rest hf]
      exact FormFree.cons hf (ih h.tail)
    · have : ∃ m body, op = Op.form m body := by
        cases op <;> first | exact ⟨_, _, rfl⟩ | (exfalso; apply hf; intro m b h; cases h)
      obtain ⟨m, body, rfl⟩ := this
      have hb : Balanced body := h m body List.mem_cons_self
      have h1 : FormFree (spellOut d [Op.form m body]) :=
        balanced_inline_formFree (Balanced.form m body [] hb Balanced.nil) d
      have : Op.form m body :: rest = [Op.form m body] ++ rest := rfl
      rw [this, spellOut_append]
      exact FormFree.append h1 (ih h.tail)

/-- **forms spelled out, whole programs**: a program whose forms have balanced content
(itself balanced or not, failing or not) and the `Do`-free program obtained by spelling
every form out as `q N cm … Q`, to any nesting depth, run to the same result -/
theorem exec_inline (adv : Adv α) (ops : List (Op α)) (h : FormsBalanced ops) :
    ∀ s : State α, exec adv ops s = exec adv (spellOut s.xdepth ops) s := by
  induction ops with
  | nil => intro s; simp [spellOut]
  | cons op rest ih =>
    intro s
    by_cases hf : ∀ m body, op ≠ Op.form m body
    · rw [spellOut_cons_plain _ op rest hf]
      simp only [exec, step_formFree adv op hf]
      split
      · rfl
      · rw [ih h.tail, stepBasic_xdepth]
    · have : ∃ m body, op = Op.form m body := by
        cases op <;> first | exact ⟨_, _, rfl⟩ | (exfalso; apply hf; intro m b h; cases h)
      obtain ⟨m, body, rfl⟩ := this
      have hb : Balanced body := h m body List.mem_cons_self
      obtain ⟨s', out, h1, h2, _, h4⟩ :=
        balanced_inline adv (Balanced.form m body [] hb Balanced.nil) s
      have : Op.form m body :: rest = [Op.form m body] ++ rest := rfl
      rw [this, spellOut_append, exec_append, exec_append, h1, h2]
      simp only
      rw [ih h.tail s', h4]

end
end Tabula.GState
