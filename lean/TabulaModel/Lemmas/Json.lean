import TabulaModel.Model.Json
import TabulaModel.Lemmas.Utf8
/-!
Lemmas for the JSON writer/reader pair of `Model/Json.lean`: strings, numbers, values.
-/
set_option linter.unusedSimpArgs false
namespace Tabula.Json
open Tabula.Split

/-! ### strings -/

theorem prepend_append (p q : Str) (o : Option (Str × Str)) : prepend p (prepend q o) = prepend (p ++ q) o := by
  cases o with
  | none => rfl
  | some x => obtain ⟨s, r⟩ := x; simp [prepend]

theorem prepend_nil (o : Option (Str × Str)) : prepend [] o = o := by
  cases o with
  | none => rfl
  | some x => rfl

/-- an ordinary byte is copied -/
theorem parseStr_copy (c : Nat) (t : Str) (h1 : c ≠ 34) (h2 : c ≠ 92) (h3 : ¬ c < 32) :
    parseStr (c :: t) = prepend [c] (parseStr t) := by
  conv => lhs; rw [parseStr.eq_def]
  simp [h1, h2, h3]

theorem hexDigit_val (n : Nat) (h : n < 16) : hexVal (hexDigit n) = some n := by
  revert n; decide

theorem parseStr_u00 (b : Nat) (hb : b < 128) (t : Str) :
    parseStr ([92, 117, 48, 48, hexDigit (b / 16), hexDigit (b % 16)] ++ t) = prepend [b] (parseStr t) := by
  have h1 : hexVal (hexDigit (b / 16)) = some (b / 16) := hexDigit_val _ (by omega)
  have h2 : hexVal (hexDigit (b % 16)) = some (b % 16) := hexDigit_val _ (by omega)
  have h48 : hexVal 48 = some 0 := by decide
  conv => lhs; rw [parseStr.eq_def]
  simp only [List.cons_append, List.nil_append, hex4, h1, h2, h48]
  have e : 0 * 4096 + 0 * 256 + b / 16 * 16 + b % 16 = b := by omega
  rw [e]
  have hs : ¬ (0xD800 ≤ b ∧ b ≤ 0xDFFF) := by omega
  have hlt : b < 0x80 := hb
  simp only [hs, if_false, utf8Enc, hlt, if_true]
  simp

/-- what the writer emits for an ASCII byte reads back as that byte -/
theorem parseStr_escByte (b : Nat) (hb : b < 128) (t : Str) :
    parseStr (escByte b ++ t) = prepend [b] (parseStr t) := by
  unfold escByte
  by_cases h1 : b = 34
  · subst h1; rw [if_pos rfl]; conv => lhs; rw [parseStr.eq_def]
    simp [simpleEsc]
  rw [if_neg h1]
  by_cases h2 : b = 92
  · subst h2; rw [if_pos rfl]; conv => lhs; rw [parseStr.eq_def]
    simp [simpleEsc]
  rw [if_neg h2]
  by_cases h3 : b = 8
  · subst h3; rw [if_pos rfl]; conv => lhs; rw [parseStr.eq_def]
    simp [simpleEsc]
  rw [if_neg h3]
  by_cases h4 : b = 12
  · subst h4; rw [if_pos rfl]; conv => lhs; rw [parseStr.eq_def]
    simp [simpleEsc]
  rw [if_neg h4]
  by_cases h5 : b = 10
  · subst h5; rw [if_pos rfl]; conv => lhs; rw [parseStr.eq_def]
    simp [simpleEsc]
  rw [if_neg h5]
  by_cases h6 : b = 13
  · subst h6; rw [if_pos rfl]; conv => lhs; rw [parseStr.eq_def]
    simp [simpleEsc]
  rw [if_neg h6]
  by_cases h7 : b = 9
  · subst h7; rw [if_pos rfl]; conv => lhs; rw [parseStr.eq_def]
    simp [simpleEsc]
  rw [if_neg h7]
  by_cases h8 : b < 32 ∨ b = 60 ∨ b = 62 ∨ b = 38
  · rw [if_pos h8]; exact parseStr_u00 b hb t
  · rw [if_neg h8]
    exact parseStr_copy b t h1 h2 (by omega)

theorem parseStr_u2028 (t : Str) : parseStr (u2028 ++ t) = prepend [0xE2, 0x80, 0xA8] (parseStr t) := by
  conv => lhs; rw [u2028, parseStr.eq_def]
  simp (decide := true) [hex4, hexVal, utf8Enc]

theorem parseStr_u2029 (t : Str) : parseStr (u2029 ++ t) = prepend [0xE2, 0x80, 0xA9] (parseStr t) := by
  conv => lhs; rw [u2029, parseStr.eq_def]
  simp (decide := true) [hex4, hexVal, utf8Enc]

/-- a block of bytes ≥ 0x80 is copied -/
theorem parseStr_high (w t : Str) (h : ∀ c ∈ w, 128 ≤ c) : parseStr (w ++ t) = prepend w (parseStr t) := by
  induction w with
  | nil => simp [prepend_nil]
  | cons c cs ih =>
    have hc := h c (by simp)
    rw [List.cons_append, parseStr_copy c _ (by omega) (by omega) (by omega), ih (fun x hx => h x (List.mem_cons_of_mem _ hx)),
      prepend_append]
    rfl

theorem take_charLen_high (x : Str) (b : Nat) (r : Str) (hx : x = b :: r) (hb : 128 ≤ b) :
    ∀ c ∈ x.take (charLen x), 128 ≤ c := by
  rcases charLen_cases x with h | ⟨a, r', e, h⟩ | ⟨a, b', r', e, h⟩ | ⟨a, b', c', r', e, h⟩ | ⟨a, b', c', d', r', e, h⟩
  · rw [h]; simp
  · rw [hx] at e; injection e with e1 _; omega
  · rw [e, charLen_two h]
    obtain ⟨h1, _, h3⟩ := ok2_spec h
    have := isCont_ge h3
    intro c hc
    simp only [List.take_succ_cons, List.take_zero, List.mem_cons, List.not_mem_nil, or_false] at hc
    rcases hc with hc | hc <;> omega
  · rw [e, charLen_three h]
    obtain ⟨h1, _, h3, h4⟩ := ok3_spec h
    have := isCont_ge h3
    have := isCont_ge h4
    intro c hc
    simp only [List.take_succ_cons, List.take_zero, List.mem_cons, List.not_mem_nil, or_false] at hc
    rcases hc with hc | hc | hc <;> omega
  · rw [e, charLen_four h]
    obtain ⟨h1, _, h3, h4, h5⟩ := ok4_spec h
    have := isCont_ge h3
    have := isCont_ge h4
    have := isCont_ge h5
    intro c hc
    simp only [List.take_succ_cons, List.take_zero, List.mem_cons, List.not_mem_nil, or_false] at hc
    rcases hc with hc | hc | hc | hc <;> omega

/-- STRINGS ROUND TRIP: what `appendString` writes between the quotes for a well-formed UTF-8
string is decoded back to exactly that string (and the reader goes on with what follows). -/
theorem parseStr_escBody (s : Str) (hv : validUtf8 s = true) (t : Str) :
    parseStr (escBody s ++ t) = prepend s (parseStr t) := by
  induction s using validUtf8.induct with
  | case1 => rw [escBody]; simp [prepend_nil]
  | case2 x hx h0 => rw [validUtf8_bad x hx h0] at hv; exact Bool.noConfusion hv
  | case3 x hx h0 ih =>
    rw [validUtf8_step x h0] at hv
    have ih' := ih hv
    cases x with
    | nil => exact absurd rfl hx
    | cons b rest =>
      rw [escBody]
      by_cases hb : b < 0x80
      · have h1 : charLen (b :: rest) = 1 := charLen_one hb
        rw [h1] at ih'
        simp only [List.drop_succ_cons, List.drop_zero] at ih'
        rw [if_pos hb, List.append_assoc, parseStr_escByte b hb, ih', prepend_append]
        rfl
      · rw [if_neg hb, if_neg h0]
        by_cases h28 : (b :: rest).take 3 = [0xE2, 0x80, 0xA8]
        · have hx3 : b :: rest = [0xE2, 0x80, 0xA8] ++ (b :: rest).drop 3 := by
            rw [← h28]; exact (List.take_append_drop 3 _).symm
          have hc : charLen (b :: rest) = 3 := by
            rw [hx3]; exact charLen_three (by decide)
          rw [hc] at ih'
          rw [if_pos h28, List.append_assoc, parseStr_u2028, ih', prepend_append, ← hx3]
        · rw [if_neg h28]
          by_cases h29 : (b :: rest).take 3 = [0xE2, 0x80, 0xA9]
          · have hx3 : b :: rest = [0xE2, 0x80, 0xA9] ++ (b :: rest).drop 3 := by
              rw [← h29]; exact (List.take_append_drop 3 _).symm
            have hc : charLen (b :: rest) = 3 := by
              rw [hx3]; exact charLen_three (by decide)
            rw [hc] at ih'
            rw [if_pos h29, List.append_assoc, parseStr_u2029, ih', prepend_append, ← hx3]
          · rw [if_neg h29, List.append_assoc,
              parseStr_high _ _ (take_charLen_high (b :: rest) b rest rfl (by omega)), ih', prepend_append,
              List.take_append_drop]

/-- a quoted string reads back -/
theorem parseStr_quote (s : Str) (hv : validUtf8 s = true) (t : Str) :
    parseStr (escBody s ++ 34 :: t) = some (s, t) := by
  rw [parseStr_escBody s hv]
  conv => lhs; rw [parseStr.eq_def]
  simp [prepend]

/-! ### induction over values -/

mutual
  theorem J.ind' (P : J → Prop) (hnull : P .null) (hbool : ∀ b, P (.bool b)) (hnum : ∀ r, P (.num r)) (hstr : ∀ s, P (.str s))
      (harr : ∀ l, (∀ x ∈ l, P x) → P (.arr l)) (hobj : ∀ ms, (∀ p ∈ ms, P p.2) → P (.obj ms)) : ∀ v, P v
    | .null => hnull
    | .bool b => hbool b
    | .num r => hnum r
    | .str s => hstr s
    | .arr l => harr l (J.indList P hnull hbool hnum hstr harr hobj l)
    | .obj ms => hobj ms (J.indMembers P hnull hbool hnum hstr harr hobj ms)
  theorem J.indList (P : J → Prop) (hnull : P .null) (hbool : ∀ b, P (.bool b)) (hnum : ∀ r, P (.num r)) (hstr : ∀ s, P (.str s))
      (harr : ∀ l, (∀ x ∈ l, P x) → P (.arr l)) (hobj : ∀ ms, (∀ p ∈ ms, P p.2) → P (.obj ms)) : ∀ (l : List J), ∀ x ∈ l, P x
    | [], _, h => absurd h (by simp)
    | y :: ys, x, h => by
      rcases List.mem_cons.mp h with e | e
      · rw [e]; exact J.ind' P hnull hbool hnum hstr harr hobj y
      · exact J.indList P hnull hbool hnum hstr harr hobj ys x e
  theorem J.indMembers (P : J → Prop) (hnull : P .null) (hbool : ∀ b, P (.bool b)) (hnum : ∀ r, P (.num r)) (hstr : ∀ s, P (.str s))
      (harr : ∀ l, (∀ x ∈ l, P x) → P (.arr l)) (hobj : ∀ ms, (∀ p ∈ ms, P p.2) → P (.obj ms)) : ∀ (ms : List (Str × J)), ∀ p ∈ ms, P p.2
    | [], _, h => absurd h (by simp)
    | (k, v) :: rest, p, h => by
      rcases List.mem_cons.mp h with e | e
      · rw [e]; exact J.ind' P hnull hbool hnum hstr harr hobj v
      · exact J.indMembers P hnull hbool hnum hstr harr hobj rest p e
end

/-! ### well-formed values, fuel -/

mutual
  /-- strings (and keys) are well-formed UTF-8, numbers are RFC 8259 number tokens -/
  def wf : J → Bool
    | .null => true
    | .bool _ => true
    | .num raw => validNum raw && raw.all isNumChar
    | .str s => validUtf8 s
    | .arr l => wfList l
    | .obj ms => wfMembers ms
  def wfList : List J → Bool
    | [] => true
    | x :: xs => wf x && wfList xs
  def wfMembers : List (Str × J) → Bool
    | [] => true
    | (k, v) :: ms => validUtf8 k && wf v && wfMembers ms
end

mutual
  /-- fuel that suffices to read the value back -/
  def cost : J → Nat
    | .null => 1
    | .bool _ => 1
    | .num _ => 1
    | .str _ => 1
    | .arr l => 1 + costList l
    | .obj ms => 1 + costMembers ms
  def costList : List J → Nat
    | [] => 0
    | x :: xs => 1 + cost x + costList xs
  def costMembers : List (Str × J) → Nat
    | [] => 0
    | (_, v) :: ms => 1 + cost v + costMembers ms
end

/-- a layout inserts white space only -/
structure StyleWs (st : Style) : Prop where
  nl : ∀ d, ∀ c ∈ st.nl d, isWs c = true
  sp : ∀ c ∈ st.sp, isWs c = true

theorem compact_ws : StyleWs compact := ⟨by simp [compact], by simp [compact]⟩

theorem indent2_ws : StyleWs indent2 := by
  constructor
  · intro d c hc
    simp only [indent2, List.mem_cons, List.mem_replicate] at hc
    rcases hc with h | ⟨_, h⟩ <;> subst h <;> decide
  · intro c hc
    simp only [indent2, List.mem_singleton] at hc
    subst hc; decide

/-- what may follow a value: nothing, or a byte that cannot continue a number -/
def termOk : Str → Bool
  | [] => true
  | c :: _ => !isNumChar c

theorem skipWs_ws (w t : Str) (hw : ∀ c ∈ w, isWs c = true) : skipWs (w ++ t) = skipWs t := by
  induction w with
  | nil => rfl
  | cons c cs ih =>
    simp only [List.cons_append, skipWs, hw c (by simp), if_true]
    exact ih (fun x hx => hw x (List.mem_cons_of_mem _ hx))

theorem skipWs_cons (c : Nat) (t : Str) (h : isWs c = false) : skipWs (c :: t) = c :: t := by
  simp [skipWs, h]

theorem parseValue_ws (f : Nat) (w t : Str) (hw : ∀ c ∈ w, isWs c = true) :
    parseValue f (w ++ t) = parseValue f t := by
  cases f with
  | zero => simp [parseValue]
  | succ f => rw [parseValue, parseValue, skipWs_ws w t hw]

theorem takeNum_append (raw rest : Str) (h : raw.all isNumChar = true) (ht : termOk rest = true) :
    takeNum (raw ++ rest) = raw ∧ dropNum (raw ++ rest) = rest := by
  induction raw with
  | nil =>
    cases rest with
    | nil => simp [takeNum, dropNum]
    | cons c r =>
      simp only [termOk, Bool.not_eq_true'] at ht
      simp [takeNum, dropNum, ht]
  | cons c cs ih =>
    simp only [List.all_cons, Bool.and_eq_true] at h
    obtain ⟨e1, e2⟩ := ih h.2
    simp [takeNum, dropNum, h.1, e1, e2]

theorem stripPrefix_self (p rest : Str) : stripPrefix p (p ++ rest) = some rest := by
  induction p with
  | nil => cases rest <;> rfl
  | cons a as ih => simp [stripPrefix, ih]

theorem termOk_of_ws_cons (w : Str) (c : Nat) (t : Str) (hw : ∀ x ∈ w, isWs x = true) (hc : isNumChar c = false) :
    termOk (w ++ c :: t) = true := by
  cases w with
  | nil => simp [termOk, hc]
  | cons x xs =>
    have := hw x (by simp)
    simp only [List.cons_append, termOk, Bool.not_eq_true']
    revert this
    simp only [isWs, isNumChar, isDigit, Bool.or_eq_true, beq_iff_eq, Bool.or_eq_false_iff, Bool.and_eq_false_iff,
      decide_eq_false_iff_not, beq_eq_false_iff_ne, ne_eq, Bool.and_eq_true, decide_eq_true_eq]
    omega

/-- the first byte of a written value: not white space, not a closing bracket, and it selects
the branch of the reader that the value needs -/
inductive HeadKind where
  | lit | num | str | arr | obj

theorem validNum_ne_nil {raw : Str} (h : validNum raw = true) : raw ≠ [] := by
  intro e; subst e; simp [validNum] at h

/-! ### the round trip for values -/

/-- the statement proved for every value by induction -/
def RT (st : Style) (v : J) : Prop :=
  ∀ (d f : Nat) (rest : Str), cost v ≤ f → termOk rest = true →
    parseValue f (write st d v ++ rest) = some (v, rest)

/-- the first byte of a written value is not white space and is none of `]`, `}` -/
theorem write_head (st : Style) (d : Nat) (v : J) (hw : wf v = true) :
    ∃ c r, write st d v = c :: r ∧ isWs c = false ∧ c ≠ 93 ∧ c ≠ 125 := by
  cases v with
  | null => exact ⟨110, _, rfl, by decide, by decide, by decide⟩
  | bool b => cases b <;> exact ⟨_, _, rfl, by decide, by decide, by decide⟩
  | num raw =>
    simp only [wf, Bool.and_eq_true] at hw
    cases raw with
    | nil => exact absurd rfl (validNum_ne_nil hw.1)
    | cons c r =>
      have hc : isNumChar c = true := by
        have := hw.2; simp only [List.all_cons, Bool.and_eq_true] at this; exact this.1
      refine ⟨c, r, rfl, ?_, ?_, ?_⟩ <;>
        (revert hc
         simp only [isWs, isNumChar, isDigit, Bool.or_eq_true, beq_iff_eq, Bool.or_eq_false_iff,
           decide_eq_true_eq, Bool.and_eq_true, beq_eq_false_iff_ne, ne_eq]
         omega)
  | str s => exact ⟨34, _, rfl, by decide, by decide, by decide⟩
  | arr l => cases l <;> exact ⟨91, _, rfl, by decide, by decide, by decide⟩
  | obj ms =>
    cases ms with
    | nil => exact ⟨123, _, rfl, by decide, by decide, by decide⟩
    | cons p ps => obtain ⟨k, v⟩ := p; exact ⟨123, _, rfl, by decide, by decide, by decide⟩

theorem rt_null (st : Style) : RT st .null := by
  intro d f rest hf ht
  cases f with
  | zero => simp [cost] at hf
  | succ f =>
    have : write st d J.null ++ rest = 110 :: 117 :: 108 :: 108 :: rest := rfl
    rw [this, parseValue, skipWs_cons _ _ (by decide)]
    simp (decide := true) [stripPrefix, kNull]

theorem rt_bool (st : Style) (b : Bool) : RT st (.bool b) := by
  intro d f rest hf ht
  cases f with
  | zero => simp [cost] at hf
  | succ f =>
    cases b with
    | true =>
      have : write st d (J.bool true) ++ rest = 116 :: 114 :: 117 :: 101 :: rest := rfl
      rw [this, parseValue, skipWs_cons _ _ (by decide)]
      simp (decide := true) [stripPrefix, kTrue]
    | false =>
      have : write st d (J.bool false) ++ rest = 102 :: 97 :: 108 :: 115 :: 101 :: rest := rfl
      rw [this, parseValue, skipWs_cons _ _ (by decide)]
      simp (decide := true) [stripPrefix, kFalse]

theorem rt_str (st : Style) (s : Str) (hw : validUtf8 s = true) : RT st (.str s) := by
  intro d f rest hf ht
  cases f with
  | zero => simp [cost] at hf
  | succ f =>
    have : write st d (J.str s) ++ rest = 34 :: (escBody s ++ 34 :: rest) := by
      simp [write, quote]
    rw [this, parseValue, skipWs_cons _ _ (by decide)]
    simp (decide := true) [parseStr_quote s hw]

theorem rt_num (st : Style) (raw : Str) (h1 : validNum raw = true) (h2 : raw.all isNumChar = true) :
    RT st (.num raw) := by
  intro d f rest hf ht
  cases f with
  | zero => simp [cost] at hf
  | succ f =>
    cases hr : raw with
    | nil => exact absurd hr (validNum_ne_nil h1)
    | cons c r =>
      have hc : isNumChar c = true := by
        rw [hr] at h2; simp only [List.all_cons, Bool.and_eq_true] at h2; exact h2.1
      have hws : isWs c = false := by
        revert hc
        simp only [isWs, isNumChar, isDigit, Bool.or_eq_true, beq_iff_eq, Bool.or_eq_false_iff,
          decide_eq_true_eq, Bool.and_eq_true, beq_eq_false_iff_ne, ne_eq]
        omega
      have hne : c ≠ 123 ∧ c ≠ 91 ∧ c ≠ 34 ∧ c ≠ 116 ∧ c ≠ 102 ∧ c ≠ 110 := by
        revert hc
        simp only [isNumChar, isDigit, Bool.or_eq_true, beq_iff_eq, decide_eq_true_eq, Bool.and_eq_true]
        omega
      obtain ⟨e1, e2⟩ := takeNum_append raw rest h2 ht
      rw [hr] at e1 e2
      have : write st d (J.num (c :: r)) ++ rest = c :: (r ++ rest) := rfl
      rw [this, parseValue, skipWs_cons _ _ hws]
      simp only [hne.1, hne.2.1, hne.2.2.1, hne.2.2.2.1, hne.2.2.2.2.1, hne.2.2.2.2.2, if_false]
      rw [List.cons_append] at e1 e2
      rw [e1, e2, ← hr, h1]
      simp

/-- array elements: from the start of element `x` to the closing bracket -/
theorem parseElems_write (st : Style) (hst : StyleWs st) (d d' : Nat) (rest : Str) :
    ∀ (xs : List J) (x : J) (acc : List J) (f : Nat) (pre : Str),
      (∀ c ∈ pre, isWs c = true) → (∀ y ∈ x :: xs, RT st y ∧ wf y = true) →
      1 + cost x + costList xs ≤ f →
      parseElems f (pre ++ (write st d x ++ (writeElems st d xs ++ (st.nl d' ++ 93 :: rest)))) acc =
        some (.arr (acc ++ x :: xs), rest) := by
  intro xs
  induction xs with
  | nil =>
    intro x acc f pre hpre hall hf
    cases f with
    | zero => omega
    | succ f =>
      obtain ⟨hrt, _⟩ := hall x (by simp)
      rw [parseElems, parseValue_ws f pre _ hpre]
      simp only [writeElems, List.nil_append]
      rw [hrt d f _ (by simp only [costList] at hf; omega) (termOk_of_ws_cons _ 93 rest (hst.nl d') (by decide))]
      simp only
      rw [skipWs_ws _ _ (hst.nl d'), skipWs_cons _ _ (by decide)]
      simp
  | cons y ys ih =>
    intro x acc f pre hpre hall hf
    cases f with
    | zero => omega
    | succ f =>
      obtain ⟨hrt, _⟩ := hall x (by simp)
      simp only [costList] at hf
      rw [parseElems, parseValue_ws f pre _ hpre]
      simp only [writeElems, List.cons_append, List.append_assoc]
      rw [hrt d f _ (by omega) (by simp [termOk, isNumChar, isDigit])]
      simp only
      rw [skipWs_cons _ _ (by decide)]
      simp only [if_true]
      have := ih y (acc ++ [x]) f (st.nl d) (hst.nl d) (fun z hz => hall z (List.mem_cons_of_mem _ hz)) (by omega)
      rw [this]
      simp

/-- object members: from the start of member `(k, v)` to the closing brace -/
theorem parseMembers_write (st : Style) (hst : StyleWs st) (d d' : Nat) (rest : Str) :
    ∀ (ms : List (Str × J)) (k : Str) (v : J) (acc : List (Str × J)) (f : Nat) (pre : Str),
      (∀ c ∈ pre, isWs c = true) → (∀ p ∈ (k, v) :: ms, validUtf8 p.1 = true ∧ RT st p.2 ∧ wf p.2 = true) →
      1 + cost v + costMembers ms ≤ f →
      parseMembers f (pre ++ (34 :: (escBody k ++ 34 :: 58 :: (st.sp ++ (write st d v ++
        (writeMembers st d ms ++ (st.nl d' ++ 125 :: rest))))))) acc =
        some (.obj (acc ++ (k, v) :: ms), rest) := by
  intro ms
  induction ms with
  | nil =>
    intro k v acc f pre hpre hall hf
    cases f with
    | zero => omega
    | succ f =>
      have hk : validUtf8 k = true := (hall (k, v) (by simp)).1
      have hrt : RT st v := (hall (k, v) (by simp)).2.1
      rw [parseMembers, skipWs_ws _ _ hpre, skipWs_cons _ _ (by decide)]
      simp only [if_true, parseStr_quote k hk]
      rw [skipWs_cons _ _ (by decide)]
      simp only [if_true]
      rw [parseValue_ws f st.sp _ hst.sp]
      simp only [writeMembers, List.nil_append]
      rw [hrt d f _ (by simp only [costMembers] at hf; omega) (termOk_of_ws_cons _ 125 rest (hst.nl d') (by decide))]
      simp only
      rw [skipWs_ws _ _ (hst.nl d'), skipWs_cons _ _ (by decide)]
      simp
  | cons p ps ih =>
    obtain ⟨k2, v2⟩ := p
    intro k v acc f pre hpre hall hf
    cases f with
    | zero => omega
    | succ f =>
      have hk : validUtf8 k = true := (hall (k, v) (by simp)).1
      have hrt : RT st v := (hall (k, v) (by simp)).2.1
      simp only [costMembers] at hf
      rw [parseMembers, skipWs_ws _ _ hpre, skipWs_cons _ _ (by decide)]
      simp only [if_true, parseStr_quote k hk]
      rw [skipWs_cons _ _ (by decide)]
      simp only [if_true]
      rw [parseValue_ws f st.sp _ hst.sp]
      simp only [writeMembers, quote, List.cons_append, List.append_assoc]
      rw [hrt d f _ (by omega) (by simp [termOk, isNumChar, isDigit])]
      simp only
      rw [skipWs_cons _ _ (by decide)]
      simp only [if_true]
      simp only [List.nil_append]
      have := ih k2 v2 (acc ++ [(k, v)]) f (st.nl d) (hst.nl d) (fun z hz => hall z (List.mem_cons_of_mem _ hz)) (by omega)
      rw [this]
      simp

theorem wfList_mem {l : List J} (h : wfList l = true) : ∀ x ∈ l, wf x = true := by
  induction l with
  | nil => simp
  | cons y ys ih =>
    simp only [wfList, Bool.and_eq_true] at h
    intro x hx
    rcases List.mem_cons.mp hx with e | e
    · rw [e]; exact h.1
    · exact ih h.2 x e

theorem wfMembers_mem {ms : List (Str × J)} (h : wfMembers ms = true) :
    ∀ p ∈ ms, validUtf8 p.1 = true ∧ wf p.2 = true := by
  induction ms with
  | nil => simp
  | cons q qs ih =>
    obtain ⟨k, v⟩ := q
    simp only [wfMembers, Bool.and_eq_true] at h
    intro p hp
    rcases List.mem_cons.mp hp with e | e
    · rw [e]; exact ⟨h.1.1, h.1.2⟩
    · exact ih h.2 p e

/-- VALUES ROUND TRIP: every well-formed value, written in any white-space-only layout at any
depth and followed by anything that cannot continue a number, is read back to exactly that value,
with exactly what followed left over. -/
theorem parseValue_write (st : Style) (hst : StyleWs st) (v : J) : wf v = true → RT st v := by
  refine J.ind' (fun v => wf v = true → RT st v) ?_ ?_ ?_ ?_ ?_ ?_ v
  · intro _; exact rt_null st
  · intro b _; exact rt_bool st b
  · intro raw hw
    simp only [wf, Bool.and_eq_true] at hw
    exact rt_num st raw hw.1 hw.2
  · intro s hw; exact rt_str st s hw
  · intro l ih hw
    simp only [wf] at hw
    have hmem := wfList_mem hw
    intro d f rest hf ht
    cases f with
    | zero => simp [cost] at hf
    | succ f =>
      cases l with
      | nil =>
        have : write st d (J.arr []) ++ rest = 91 :: 93 :: rest := rfl
        rw [this, parseValue, skipWs_cons _ _ (by decide)]
        simp (decide := true) [skipWs]
      | cons x xs =>
        obtain ⟨c, r, hc, hcw, hc93, _⟩ := write_head st (d + 1) x (hmem x (by simp))
        have e : write st d (J.arr (x :: xs)) ++ rest =
            91 :: (st.nl (d + 1) ++ (write st (d + 1) x ++ (writeElems st (d + 1) xs ++ (st.nl d ++ 93 :: rest)))) := by
          simp [write]
        rw [e, parseValue, skipWs_cons _ _ (by decide)]
        simp only [show ¬ (91 : Nat) = 123 by decide, if_false, if_true]
        rw [skipWs_ws _ _ (hst.nl (d + 1)), hc, List.cons_append, skipWs_cons _ _ hcw]
        simp only [hc93, if_false]
        have := parseElems_write st hst (d + 1) d rest xs x [] f [] (by simp)
          (fun y hy => ⟨ih y hy (hmem y hy), hmem y hy⟩) (by simp only [cost, costList] at hf; omega)
        simp only [List.nil_append, hc, List.cons_append] at this
        exact this
  · intro ms ih hw
    simp only [wf] at hw
    have hmem := wfMembers_mem hw
    intro d f rest hf ht
    cases f with
    | zero => simp [cost] at hf
    | succ f =>
      cases ms with
      | nil =>
        have : write st d (J.obj []) ++ rest = 123 :: 125 :: rest := rfl
        rw [this, parseValue, skipWs_cons _ _ (by decide)]
        simp (decide := true) [skipWs]
      | cons p ps =>
        obtain ⟨k, v'⟩ := p
        have e : write st d (J.obj ((k, v') :: ps)) ++ rest =
            123 :: (st.nl (d + 1) ++ (34 :: (escBody k ++ 34 :: 58 :: (st.sp ++ (write st (d + 1) v' ++
              (writeMembers st (d + 1) ps ++ (st.nl d ++ 125 :: rest))))))) := by
          simp [write, quote]
        rw [e, parseValue, skipWs_cons _ _ (by decide)]
        simp only [if_true]
        rw [skipWs_ws _ _ (hst.nl (d + 1)), skipWs_cons _ _ (by decide)]
        simp only [show ¬ (34 : Nat) = 125 by decide, if_false]
        have := parseMembers_write st hst (d + 1) d rest ps k v' [] f [] (by simp)
          (fun q hq => ⟨(hmem q hq).1, ih q hq (hmem q hq).2, (hmem q hq).2⟩) (by simp only [cost, costMembers] at hf; omega)
        simp only [List.nil_append] at this
        exact this

/-! ### fuel: the text is at least as long as the cost -/

theorem costList_le (st : Style) (d : Nat) (xs : List J) (h : ∀ x ∈ xs, cost x ≤ (write st d x).length) :
    costList xs ≤ (writeElems st d xs).length := by
  induction xs with
  | nil => simp [costList]
  | cons y ys ih =>
    have h1 := h y (by simp)
    have h2 := ih (fun x hx => h x (List.mem_cons_of_mem _ hx))
    simp only [costList, writeElems, List.length_cons, List.length_append]
    omega

theorem costMembers_le (st : Style) (d : Nat) (ms : List (Str × J)) (h : ∀ p ∈ ms, cost p.2 ≤ (write st d p.2).length) :
    costMembers ms ≤ (writeMembers st d ms).length := by
  induction ms with
  | nil => simp [costMembers]
  | cons q qs ih =>
    obtain ⟨k, v⟩ := q
    have h1 : cost v ≤ (write st d v).length := h (k, v) (by simp)
    have h2 := ih (fun x hx => h x (List.mem_cons_of_mem _ hx))
    simp only [costMembers, writeMembers, List.length_cons, List.length_append]
    omega

theorem cost_le_length (st : Style) (v : J) : wf v = true → ∀ d, cost v ≤ (write st d v).length := by
  refine J.ind' (fun v => wf v = true → ∀ d, cost v ≤ (write st d v).length) ?_ ?_ ?_ ?_ ?_ ?_ v
  · intro _ d; simp [cost, write, kNull]
  · intro b _ d; cases b <;> simp [cost, write, kTrue, kFalse]
  · intro raw hw d
    simp only [wf, Bool.and_eq_true] at hw
    have := validNum_ne_nil hw.1
    simp only [cost, write]
    exact List.length_pos_iff.mpr this
  · intro s _ d; simp [cost, write, quote]
  · intro l ih hw d
    simp only [wf] at hw
    have hmem := wfList_mem hw
    cases l with
    | nil => simp [cost, costList, write]
    | cons x xs =>
      have h1 := ih x (by simp) (hmem x (by simp)) (d + 1)
      have h2 := costList_le st (d + 1) xs (fun y hy => ih y (List.mem_cons_of_mem _ hy) (hmem y (List.mem_cons_of_mem _ hy)) (d + 1))
      simp only [cost, costList, write, List.length_cons, List.length_append, List.length_nil]
      omega
  · intro ms ih hw d
    simp only [wf] at hw
    have hmem := wfMembers_mem hw
    cases ms with
    | nil => simp [cost, costMembers, write]
    | cons p ps =>
      obtain ⟨k, v'⟩ := p
      have h1 : cost v' ≤ (write st (d + 1) v').length := ih (k, v') (by simp) (hmem (k, v') (by simp)).2 (d + 1)
      have h2 := costMembers_le st (d + 1) ps
        (fun y hy => ih y (List.mem_cons_of_mem _ hy) (hmem y (List.mem_cons_of_mem _ hy)).2 (d + 1))
      simp only [cost, costMembers, write, List.length_cons, List.length_append, List.length_nil]
      omega

theorem termOk_of_ws (w : Str) (hw : ∀ c ∈ w, isWs c = true) : termOk w = true := by
  cases w with
  | nil => rfl
  | cons c cs =>
    have := hw c (by simp)
    simp only [termOk, Bool.not_eq_true']
    revert this
    simp only [isWs, isNumChar, isDigit, Bool.or_eq_true, beq_iff_eq, Bool.or_eq_false_iff, Bool.and_eq_false_iff,
      decide_eq_false_iff_not, beq_eq_false_iff_ne, ne_eq, Bool.and_eq_true, decide_eq_true_eq]
    omega

theorem skipWs_all (w : Str) (hw : ∀ c ∈ w, isWs c = true) : skipWs w = [] := by
  have := skipWs_ws w [] hw
  simpa [skipWs] using this

/-- COMPLETE TEXTS ROUND TRIP: a well-formed value written in any white-space-only layout and
followed by white space only (e.g. the newline `Encode` appends) is a JSON text that the reader
accepts and reads back to exactly that value. -/
theorem jsonRead_write (st : Style) (hst : StyleWs st) (v : J) (hw : wf v = true) (trail : Str)
    (ht : ∀ c ∈ trail, isWs c = true) : jsonRead (write st 0 v ++ trail) = some v := by
  unfold jsonRead
  have hc := cost_le_length st v hw 0
  rw [parseValue_write st hst v hw 0 _ trail (by simp only [List.length_append]; omega) (termOk_of_ws trail ht)]
  simp [skipWs_all trail ht]

/-! ### JSON Lines -/

theorem escByte_no_lf (b : Nat) : 10 ∉ escByte b := by
  unfold escByte
  repeat' split
  all_goals first
    | (simp only [List.mem_cons, List.not_mem_nil, or_false, not_or]; omega)
    | skip
  all_goals
    simp only [List.mem_cons, List.not_mem_nil, or_false, not_or, hexDigit]
    refine ⟨by omega, by omega, by omega, by omega, ?_, ?_⟩ <;> (split <;> omega)

theorem escBody_no_lf (s : Str) : 10 ∉ escBody s := by
  induction hn : s.length using Nat.strongRecOn generalizing s with
  | _ n ih =>
    cases s with
    | nil => rw [escBody]; simp
    | cons b rest =>
      rw [escBody]
      simp only [List.length_cons] at hn
      have hrest : 10 ∉ escBody rest := ih rest.length (by omega) rest rfl
      have hdrop : ∀ k, 0 < k → 10 ∉ escBody ((b :: rest).drop k) := by
        intro k hk
        exact ih _ (by simp only [List.length_drop, List.length_cons]; omega) _ rfl
      split
      · simp only [List.mem_append, not_or]; exact ⟨escByte_no_lf b, hrest⟩
      · rename_i hb
        split
        · simp only [List.mem_append, not_or]; exact ⟨by decide, hrest⟩
        · rename_i h0
          split
          · simp only [List.mem_append, not_or]; exact ⟨by decide, hdrop 3 (by omega)⟩
          · split
            · simp only [List.mem_append, not_or]; exact ⟨by decide, hdrop 3 (by omega)⟩
            · simp only [List.mem_append, not_or]
              refine ⟨?_, hdrop _ (by omega)⟩
              intro hm
              have := take_charLen_high (b :: rest) b rest rfl (by omega) 10 hm
              omega

theorem quote_no_lf (s : Str) : 10 ∉ quote s := by
  simp only [quote, List.mem_cons, List.mem_append, List.not_mem_nil, or_false, not_or]
  exact ⟨by omega, escBody_no_lf s, by omega⟩

theorem numChar_no_lf {raw : Str} (h : raw.all isNumChar = true) : 10 ∉ raw := by
  intro hm
  have := List.all_eq_true.mp h 10 hm
  revert this; decide

theorem writeElems_no_lf (d : Nat) (xs : List J) (h : ∀ x ∈ xs, 10 ∉ write compact d x) :
    10 ∉ writeElems compact d xs := by
  induction xs with
  | nil => simp [writeElems]
  | cons y ys ih =>
    simp only [writeElems, compact, List.nil_append, List.mem_cons, List.mem_append, not_or]
    have h1 := h y (by simp)
    have h2 := ih (fun x hx => h x (List.mem_cons_of_mem _ hx))
    simp only [compact] at h1 h2
    repeat' apply And.intro
    all_goals first | omega | assumption | simp

theorem writeMembers_no_lf (d : Nat) (ms : List (Str × J)) (h : ∀ p ∈ ms, 10 ∉ write compact d p.2) :
    10 ∉ writeMembers compact d ms := by
  induction ms with
  | nil => simp [writeMembers]
  | cons q qs ih =>
    obtain ⟨k, v⟩ := q
    have h1 := quote_no_lf k
    have h2 := h (k, v) (by simp)
    have h3 := ih (fun x hx => h x (List.mem_cons_of_mem _ hx))
    simp only [compact] at h2 h3
    simp only [writeMembers, compact, List.nil_append, List.mem_cons, List.mem_append, not_or, List.not_mem_nil]
    repeat' apply And.intro
    all_goals first | omega | assumption | simp

/-- a compactly written value contains no line feed (so it is one line of a JSON Lines text) -/
theorem write_compact_no_lf (v : J) : wf v = true → ∀ d, 10 ∉ write compact d v := by
  refine J.ind' (fun v => wf v = true → ∀ d, 10 ∉ write compact d v) ?_ ?_ ?_ ?_ ?_ ?_ v
  · intro _ d; simp [write, kNull]
  · intro b _ d; cases b <;> simp [write, kTrue, kFalse]
  · intro raw hw d
    simp only [wf, Bool.and_eq_true] at hw
    exact numChar_no_lf hw.2
  · intro s _ d; exact quote_no_lf s
  · intro l ih hw d
    simp only [wf] at hw
    have hmem := wfList_mem hw
    cases l with
    | nil => simp [write]
    | cons x xs =>
      have h1 := ih x (by simp) (hmem x (by simp)) (d + 1)
      have h2 := writeElems_no_lf (d + 1) xs (fun y hy => ih y (List.mem_cons_of_mem _ hy) (hmem y (List.mem_cons_of_mem _ hy)) _)
      simp only [compact] at h1 h2
      simp only [write, compact, List.nil_append, List.mem_cons, List.mem_append, List.not_mem_nil, or_false, not_or]
      repeat' apply And.intro
      all_goals first | omega | assumption | simp
  · intro ms ih hw d
    simp only [wf] at hw
    have hmem := wfMembers_mem hw
    cases ms with
    | nil => simp [write]
    | cons p ps =>
      obtain ⟨k, v'⟩ := p
      have h0 := quote_no_lf k
      have h1 := ih (k, v') (by simp) (hmem (k, v') (by simp)).2 (d + 1)
      have h2 := writeMembers_no_lf (d + 1) ps (fun y hy => ih y (List.mem_cons_of_mem _ hy) (hmem y (List.mem_cons_of_mem _ hy)).2 _)
      simp only [compact] at h1 h2
      simp only [write, compact, List.nil_append, List.mem_cons, List.mem_append, List.not_mem_nil, or_false, not_or]
      repeat' apply And.intro
      all_goals first | omega | assumption | simp

theorem splitLines_line (l rest : Str) (h : 10 ∉ l) :
    splitLines (l ++ 10 :: rest) = l :: splitLines rest := by
  induction l with
  | nil => simp [splitLines]
  | cons c cs ih =>
    have hc : c ≠ 10 := fun e => h (by simp [e])
    simp only [List.cons_append, splitLines, hc, if_false]
    rw [ih (fun hm => h (List.mem_cons_of_mem _ hm))]

theorem splitLines_lines (ls : List Str) (h : ∀ l ∈ ls, 10 ∉ l) :
    splitLines (ls.flatMap (fun l => l ++ [10])) = ls := by
  induction ls with
  | nil => simp [splitLines]
  | cons l rest ih =>
    simp only [List.flatMap_cons, List.append_assoc, List.singleton_append]
    rw [splitLines_line l _ (h l (by simp)), ih (fun x hx => h x (List.mem_cons_of_mem _ hx))]

theorem mapOpt_map {α β : Type} (f : α → Option β) (g : β → α) (l : List β) (h : ∀ b ∈ l, f (g b) = some b) :
    mapOpt f (l.map g) = some l := by
  induction l with
  | nil => rfl
  | cons b bs ih =>
    simp only [List.map_cons, mapOpt, h b (by simp), ih (fun x hx => h x (List.mem_cons_of_mem _ hx))]

/-- JSON LINES ROUND TRIP: one `Encode` per value (compact, newline-terminated) gives a text whose
lines are exactly the values: each line is a complete JSON text and reads back to its value. -/
theorem jsonlRead_encode (vs : List J) (h : ∀ v ∈ vs, wf v = true) :
    jsonlRead (vs.flatMap (encode false)) = some vs := by
  unfold jsonlRead
  have e0 : encode false = fun a => write compact 0 a ++ [10] := by
    funext a; simp [encode]
  have e : vs.flatMap (encode false) = (vs.map (write compact 0)).flatMap (fun l => l ++ [10]) := by
    rw [e0]; simp [List.flatMap_map]
  rw [e, splitLines_lines]
  · exact mapOpt_map jsonRead (write compact 0) vs (fun v hv => by
      have := jsonRead_write compact compact_ws v (h v hv) [] (by simp)
      simpa using this)
  · intro l hl
    obtain ⟨v, hv, e⟩ := List.mem_map.mp hl
    rw [← e]
    exact write_compact_no_lf v (h v hv) 0

end Tabula.Json
