import TabulaModel.Lemmas.MarkdownHtml
/-!
The chunk loop of `rag.(*ChunkCollection).ToMarkdownWithOptions` as chunk outputs joined by blank
lines, and the reading spec on such a join: the reading of the whole is the concatenation of the
readings of the parts.
-/
namespace Tabula.MarkdownDoc
open Tabula.A1 (Str dec decInt)
open Tabula.Markdown

/-! ## reading without preamble, and concatenation -/

/-- the four projections on the lines as they are (no front matter / TOC skipping) -/
def readRaw (L : List Str) : MdDoc :=
  { headings := L.filterMap headingOf, items := L.filterMap itemOf,
    tables := (pipeBlocks L).map gfmTableL, paras := L.filter isPara }

def MdDoc.append (a b : MdDoc) : MdDoc :=
  { headings := a.headings ++ b.headings, items := a.items ++ b.items,
    tables := a.tables ++ b.tables, paras := a.paras ++ b.paras }

def MdDoc.empty : MdDoc := { headings := [], items := [], tables := [], paras := [] }

theorem MdDoc.append_empty (a : MdDoc) : a.append .empty = a := by
  cases a; simp [MdDoc.append, MdDoc.empty]

theorem pipeBlocksAux_blank_split (A B : List Str) : ∀ cur,
    pipeBlocksAux (A ++ [] :: B) cur = pipeBlocksAux A cur ++ pipeBlocksAux B [] := by
  induction A with
  | nil => intro cur; simp [pipeBlocksAux, isPipeLine]
  | cons l A ih =>
    intro cur
    simp only [List.cons_append, pipeBlocksAux]
    split
    · exact ih _
    · rw [ih]; simp

/-- two documents separated by an empty line read as the two readings one after the other -/
theorem readRaw_blank_split (A B : List Str) : readRaw (A ++ [] :: B) = (readRaw A).append (readRaw B) := by
  unfold readRaw MdDoc.append
  simp [List.filterMap_append, headingOf_nil, itemOf_nil, isPara_nil, pipeBlocks, pipeBlocksAux_blank_split]

theorem readLines_eq_raw (L : List Str) (h1 : L.head? ≠ some hrLine) (h2 : tocTitle ∉ L) :
    readLines L = readRaw L := readLines_plain L h1 h2

theorem splitLines_blank_join (a b : Str) : splitLines (a ++ [10, 10] ++ b) = splitLines a ++ [] :: splitLines b := by
  have : a ++ [10, 10] ++ b = a ++ 10 :: (10 :: b) := by simp
  rw [this, splitLines_append_nl]
  simp [splitLines]

/-! ## the chunk loop -/

/-- is the chunk written with its section heading -/
def writesHeading (c : RChunk) (cur : Str) : Bool :=
  (!c.sectionTitle.isEmpty && c.sectionTitle != cur) || isSectionHeading c

/-- what the loop writes for one chunk (after the separator) -/
def chunkOut (o : MdOpts) (c : RChunk) (cur : Str) : Str :=
  if writesHeading c cur then chunkMd o c else contentMd o c

/-- `currentSection` after the chunk -/
def nextCur (c : RChunk) (cur : Str) : Str :=
  if !c.sectionTitle.isEmpty && c.sectionTitle != cur then c.sectionTitle else cur

theorem ragChunks_cons (o : MdOpts) (c : RChunk) (rest : List RChunk) (cur : Str) (first : Bool) :
    ragChunks o (c :: rest) cur first
      = (if first then [] else if o.seps then o.sectionSep else [10, 10]) ++ chunkOut o c cur
          ++ ragChunks o rest (nextCur c cur) false := by
  conv => lhs; rw [ragChunks]
  unfold chunkOut nextCur writesHeading
  by_cases hnew : (!c.sectionTitle.isEmpty && c.sectionTitle != cur) = true
  · simp [hnew]
  · have hnew' : (!c.sectionTitle.isEmpty && c.sectionTitle != cur) = false := by simpa using hnew
    by_cases hs : isSectionHeading c = true
    · simp [hnew', hs]
    · have hs' : isSectionHeading c = false := by simpa using hs
      simp [hnew', hs']

/-- the outputs of the loop, one per chunk -/
def ragOutputs (o : MdOpts) : List RChunk → Str → List Str
  | [], _ => []
  | c :: rest, cur => chunkOut o c cur :: ragOutputs o rest (nextCur c cur)

/-- the readings of the chunk outputs, one after the other -/
def readOutputs : List Str → MdDoc
  | [] => .empty
  | s :: rest => (readRaw (splitLines s)).append (readOutputs rest)

theorem readRaw_nil_line : readRaw [[]] = .empty := by decide

/-- **the chunk loop is compositional for a reader**: without chunk separators (every chunk is
separated from the next by a blank line), the reading of the whole body is the concatenation of
the readings of the chunk outputs, in order — no chunk's structure leaks into its neighbour's
(tables of adjacent chunks do not merge, a heading line is not continued by the next chunk) -/
theorem ragChunks_read (o : MdOpts) (hs : o.seps = false) (cs : List RChunk) : ∀ (cur : Str),
    cs ≠ [] → readRaw (splitLines (ragChunks o cs cur true)) = readOutputs (ragOutputs o cs cur) := by
  induction cs with
  | nil => intro _ h; exact absurd rfl h
  | cons c rest ih =>
    intro cur _
    rw [ragChunks_cons]
    simp only [if_true, List.nil_append, ragOutputs, readOutputs]
    cases rest with
    | nil => simp [ragChunks, ragOutputs, readOutputs, MdDoc.append_empty]
    | cons c2 rest2 =>
      have ih' := ih (nextCur c cur) (by simp)
      -- the rest starts with the separator
      have e : ragChunks o (c2 :: rest2) (nextCur c cur) false
          = [10, 10] ++ (chunkOut o c2 (nextCur c cur) ++ ragChunks o rest2 (nextCur c2 (nextCur c cur)) false) := by
        rw [ragChunks_cons]; simp [hs]
      have e2 : ragChunks o (c2 :: rest2) (nextCur c cur) true
          = chunkOut o c2 (nextCur c cur) ++ ragChunks o rest2 (nextCur c2 (nextCur c cur)) false := by
        rw [ragChunks_cons]; simp
      rw [e, ← List.append_assoc, splitLines_blank_join, readRaw_blank_split, ← e2, ih']

/-! ## a table as lines, for every writer -/

def tableLines (w : Writer) (hdr : List Str) (rest : List (List Str)) : List Str :=
  renderRow w hdr :: renderDelim w hdr.length :: rest.map (renderRow w)

theorem render_lines (w : Writer) (hdr : List Str) (rest : List (List Str)) :
    render w (hdr :: rest) = joinLines (tableLines w hdr rest) := by
  simp only [render, tableLines, joinLines_cons]
  have : (rest.flatMap fun r => renderRow w r ++ [10]) = joinLines (rest.map (renderRow w)) := by
    unfold joinLines; exact flatMap_lines _ rest
  rw [this]; simp

theorem renderRow_pipe (w : Writer) (cells : List Str) (hne : cells ≠ []) : isPipeLine (renderRow w cells) = true := by
  rw [renderRow_eq w cells hne]
  rfl

theorem renderDelim_pipe (w : Writer) (n : Nat) (hn : 1 ≤ n) : isPipeLine (renderDelim w n) = true := by
  rw [renderDelim_eq w n hn]
  rfl

theorem tableLines_props (w : Writer) (hdr : List Str) (rest : List (List Str)) (hne : ∀ r ∈ hdr :: rest, r ≠ []) :
    ∀ l ∈ tableLines w hdr rest, isPipeLine l = true ∧ 10 ∉ l := by
  have hlen : 1 ≤ hdr.length := by
    have := hne hdr (by simp)
    cases hdr with
    | nil => exact absurd rfl this
    | cons a b => simp
  intro l hl
  simp only [tableLines, List.mem_cons, List.mem_map] at hl
  rcases hl with rfl | rfl | ⟨r, hr, rfl⟩
  · exact ⟨renderRow_pipe w hdr (hne hdr (by simp)), renderRow_noNl w hdr (hne hdr (by simp))⟩
  · exact ⟨renderDelim_pipe w _ hlen, renderDelim_noNl w _ hlen⟩
  · exact ⟨renderRow_pipe w r (hne r (List.mem_cons_of_mem _ hr)), renderRow_noNl w r (hne r (List.mem_cons_of_mem _ hr))⟩

/-- the text of a table, read on its own: one pipe block, nothing else -/
theorem readRaw_table (w : Writer) (hdr : List Str) (rest : List (List Str)) (hne : ∀ r ∈ hdr :: rest, r ≠ []) :
    readRaw (splitLines (render w (hdr :: rest)))
      = { headings := [], items := [], tables := [gfmTable (render w (hdr :: rest))], paras := [] } := by
  have hp := tableLines_props w hdr rest hne
  have hsegs : splitLines (render w (hdr :: rest)) = segLines [Seg.table (tableLines w hdr rest)] := by
    rw [render_lines, splitLines_joinLines _ (fun l hl => (hp l hl).2)]
    simp [segLines, Seg.lines]
  have hOK : ∀ sg ∈ [Seg.table (tableLines w hdr rest)], sg.OK := by
    intro sg hsg
    simp only [List.mem_singleton] at hsg
    subst hsg
    exact ⟨by simp [tableLines], fun l hl => (hp l hl).1⟩
  unfold readRaw
  rw [hsegs, filterMap_segLines headingOf headingOf_nil headingOf_pipe _ hOK,
    filterMap_segLines itemOf itemOf_nil itemOf_pipe _ hOK, filter_segLines isPara isPara_nil isPara_pipe _ hOK,
    pipeBlocks_segs _ hOK]
  simp only [segPlain, segTables, List.flatMap_cons, List.flatMap_nil, List.filterMap_nil, List.filter_nil,
    List.filterMap_cons, List.map_cons, List.map_nil, List.append_nil]
  rw [gfmTableL_of_joined _ (fun l hl => (hp l hl).2) (by simp [tableLines]), ← render_lines]

/-! ## the list chunk text: lines joined by `\n`, trailing white space trimmed -/

/-- `strings.TrimRightFunc(·, unicode.IsSpace)` on lines each followed by `\n`: when the last line
ends in a byte that is not white space only the final newline goes, and splitting the result at
`\n` gives the lines back — the first line with its indentation -/
theorem splitLines_trimRight_joinLines (L : List Str) (l : Str) (c : Nat)
    (hnl : ∀ x ∈ L ++ [l], 10 ∉ x) (hc : l.getLast? = some c) (hws : isWs c = false) :
    splitLines (trimRight (joinLines (L ++ [l]))) = L ++ [l] := by
  have e : joinLines (L ++ [l]) = (joinLines L ++ l) ++ [10] := by
    rw [joinLines_append, joinLines_singleton, List.append_assoc]
  rw [e, trimRight_append_ws _ _ (by decide), trimRight_eq_self _ (by
    intro d hd
    rw [List.getLast?_append, hc] at hd
    simp only [Option.some_or, Option.some.injEq] at hd
    subst hd; exact hws)]
  rw [splitLines_joinLines_append L (fun x hx => hnl x (by simp [hx])) l,
    splitLines_noNl l (hnl l (by simp))]

theorem decInt_noNl (i : Int) : 10 ∉ decInt i := by
  unfold Tabula.A1.decInt
  intro hm
  split at hm
  · rcases List.mem_cons.mp hm with h | h
    · omega
    · have := dec_digits _ 10 h; simp [isDigit] at this
  · have := dec_digits _ 10 hm; simp [isDigit] at this

theorem indent2_noNl (lvl : Int) : 10 ∉ indent2 lvl := by
  unfold indent2
  intro hm
  have := List.eq_of_mem_replicate hm
  omega

end Tabula.MarkdownDoc
