/-
Size bound for the model of `SplitToSize` (C13): with a hard maximum in characters or
tokens, `M ≥ 200`, at most 4 tokens per byte and a space at least every 50 bytes, every
piece produced by `splitToSize` (no semantic boundaries) has size `≤ M`.
Core Lean only.
-/
import TabulaModel.Model.Split
namespace Tabula.Split

/-- every window of 50 consecutive bytes contains a space (0x20) -/
def Spaced (s : Str) : Prop := ∀ k, k + 50 ≤ s.length → ∃ j, k ≤ j ∧ j < k + 50 ∧ s[j]? = some 32

/-! ## `trimSpace` returns an infix -/

theorem trimLeft_suffix (s : Str) : trimLeft s <:+ s := by
  induction s using trimLeft.induct with
  | case1 s h => rw [trimLeft, dif_pos h]; exact List.suffix_refl _
  | case2 s h ih => rw [trimLeft, dif_neg h]; exact ih.trans (List.drop_suffix _ _)

theorem trimLeftRev_suffix (s : Str) : trimLeftRev s <:+ s := by
  induction s using trimLeftRev.induct with
  | case1 s h => rw [trimLeftRev, dif_pos h]; exact List.suffix_refl _
  | case2 s h ih => rw [trimLeftRev, dif_neg h]; exact ih.trans (List.drop_suffix _ _)

theorem trimRight_prefix (s : Str) : trimRight s <+: s := by
  have h := List.reverse_prefix.mpr (trimLeftRev_suffix s.reverse)
  rw [List.reverse_reverse] at h
  exact h

theorem trimSpace_infix (s : Str) : trimSpace s <:+: s :=
  (trimRight_prefix (trimLeft s)).isInfix.trans (trimLeft_suffix s).isInfix

/-! ## `Spaced` is inherited by infixes -/

theorem Spaced.of_infix {s t : Str} (h : t <:+: s) (hs : Spaced s) : Spaced t := by
  obtain ⟨a, b, rfl⟩ := h
  intro k hk
  obtain ⟨j, h1, h2, h3⟩ := hs (a.length + k) (by simp only [List.length_append]; omega)
  obtain ⟨i, rfl⟩ : ∃ i, j = a.length + i := ⟨j - a.length, by omega⟩
  refine ⟨i, by omega, by omega, ?_⟩
  rw [List.append_assoc, List.getElem?_append_right (by omega),
    Nat.add_sub_cancel_left, List.getElem?_append_left (by omega)] at h3
  exact h3

theorem Spaced.trimSpace_drop {s : Str} (hs : Spaced s) (n : Nat) :
    Spaced (trimSpace (s.drop n)) :=
  Spaced.of_infix ((trimSpace_infix _).trans (List.drop_suffix n s).isInfix) hs

/-! ## Backward scans -/

theorem sentBack_bound (text : Str) :
    ∀ steps i p, sentBack text i steps = some p → 1 ≤ p ∧ p ≤ i + 1 := by
  intro steps
  induction steps with
  | zero => intro i p h; simp [sentBack] at h
  | succ n ih =>
    intro i p h
    rw [sentBack] at h
    split at h
    · injection h with h; omega
    · split at h
      · cases h
      · have := ih _ _ h; omega

theorem wordBack_found (text : Str) :
    ∀ steps i j, j ≤ i → i + 1 ≤ j + steps → isBreakAt text j = true →
      ∃ p, wordBack text i steps = some p ∧ 1 ≤ p ∧ p ≤ i + 1 := by
  intro steps
  induction steps with
  | zero => intro i j h1 h2 _; omega
  | succ n ih =>
    intro i j h1 h2 hb
    rw [wordBack]
    split
    · exact ⟨i + 1, rfl, by omega, by omega⟩
    · rename_i hi
      have hne : j ≠ i := by intro e; subst e; exact hi hb
      rw [if_neg (by omega)]
      obtain ⟨p, hp, hp1, hp2⟩ := ih (i - 1) j (by omega) (by omega) hb
      exact ⟨p, hp, hp1, by omega⟩

theorem isBreakAt_of_space {text : Str} {j : Nat} (h : text[j]? = some 32) :
    isBreakAt text j = true := by
  simp [isBreakAt, h, isBreak]

theorem findWordBoundaryBefore_bound {text : Str} {T : Nat} (hs : Spaced text)
    (hT : 50 ≤ T) (hlen : T ≤ text.length) :
    1 ≤ findWordBoundaryBefore text T ∧ findWordBoundaryBefore text T ≤ T := by
  obtain ⟨j, h1, h2, h3⟩ := hs (T - 50) (by omega)
  obtain ⟨p, hp, hp1, hp2⟩ :=
    wordBack_found text 50 (T - 1) j (by omega) (by omega) (isBreakAt_of_space h3)
  rw [findWordBoundaryBefore, if_neg (by omega), hp]
  simp only [Option.getD_some]
  omega

theorem findSentenceEndNear_bound {text : Str} {T : Nat} (hs : Spaced text)
    (hT : 50 ≤ T) (hlen : T < text.length) :
    1 ≤ findSentenceEndNear text T ∧ findSentenceEndNear text T ≤ T := by
  have hT0 : ¬ T = 0 := by omega
  have hge : ¬ T ≥ text.length := by omega
  have hw := findWordBoundaryBefore_bound hs hT (Nat.le_of_lt hlen)
  simp only [findSentenceEndNear, if_neg hT0, if_neg hge]
  cases hsb : sentBack text (T - 1) 99 with
  | some p =>
    have := sentBack_bound text _ _ _ hsb
    simp only
    omega
  | none =>
    simp only
    rw [if_pos (by omega)]
    exact hw

theorem findSplitPointAt_nil_bound {c : SizeConfig} {text : Str} {M : Nat} {u : SizeUnit}
    (hs : Spaced text) (hT : 50 ≤ targetPosOf c M u) (hlen : targetPosOf c M u < text.length) :
    1 ≤ findSplitPointAt c text [] M u ∧ findSplitPointAt c text [] M u ≤ targetPosOf c M u := by
  have hge : ¬ targetPosOf c M u ≥ text.length := by omega
  simp only [findSplitPointAt, if_neg hge, List.isEmpty_nil, Bool.not_true, Bool.and_false,
    Bool.false_eq_true, if_false]
  exact findSentenceEndNear_bound hs hT hlen

/-! ## Arithmetic of the units -/

theorem ratio_pos (c : SizeConfig) : 0 < c.ratio.1 ∧ 0 < c.ratio.2 := by
  unfold SizeConfig.ratio
  split
  · exact ⟨by decide, by decide⟩
  · rename_i h
    simp only
    omega

theorem targetPos_ge_50 {c : SizeConfig}
    (hunit : c.maxUnit = .characters ∨ c.maxUnit = .tokens)
    (hM : 200 ≤ c.maxValue) (hratio : c.ratio.1 ≤ 4 * c.ratio.2) :
    50 ≤ targetPosOf c c.maxValue c.maxUnit := by
  obtain ⟨hp, hq⟩ := ratio_pos c
  rcases hunit with h | h <;> rw [h] <;> simp only [targetPosOf]
  · omega
  · rw [Nat.le_div_iff_mul_le hp]
    have : 200 * c.ratio.2 ≤ c.maxValue * c.ratio.2 := Nat.mul_le_mul_right _ hM
    omega

theorem targetPos_lt_of_aboveMax {c : SizeConfig} {rem : Str}
    (hunit : c.maxUnit = .characters ∨ c.maxUnit = .tokens)
    (ha : isAboveMax c rem = true) :
    targetPosOf c c.maxValue c.maxUnit < rem.length := by
  obtain ⟨hp, hq⟩ := ratio_pos c
  unfold isAboveMax at ha
  rcases hunit with h | h <;> rw [h] at ha ⊢ <;>
    simp only [targetPosOf, getSize, estimateTokens] at ha ⊢
  · exact of_decide_eq_true ha
  · rw [Nat.div_lt_iff_lt_mul hp]
    have h1 : (c.maxValue + 1) * c.ratio.2 ≤ rem.length * c.ratio.1 :=
      (Nat.le_div_iff_mul_le hq).mp (of_decide_eq_true ha)
    rw [Nat.add_mul] at h1
    omega

theorem getSize_le_of_length_le {c : SizeConfig} {s : Str}
    (hunit : c.maxUnit = .characters ∨ c.maxUnit = .tokens)
    (hl : s.length ≤ targetPosOf c c.maxValue c.maxUnit) :
    getSize c s c.maxUnit ≤ c.maxValue := by
  obtain ⟨hp, hq⟩ := ratio_pos c
  rcases hunit with h | h <;> rw [h] at hl ⊢ <;>
    simp only [targetPosOf, getSize, estimateTokens] at hl ⊢
  · exact hl
  · rw [Nat.le_div_iff_mul_le hp] at hl
    apply Nat.div_le_of_le_mul
    rw [Nat.mul_comm c.ratio.2]
    exact hl

/-! ## Main theorem -/

theorem adjustBoundaryPositions_nil (n : Nat) : adjustBoundaryPositions [] n = [] := rfl

theorem splitToSize_bound_aux (c : SizeConfig)
    (hunit : c.maxUnit = .characters ∨ c.maxUnit = .tokens)
    (hM : 200 ≤ c.maxValue)
    (hratio : c.ratio.1 ≤ 4 * c.ratio.2) :
    ∀ n (rem : Str), rem.length = n → Spaced rem →
      ∀ p ∈ splitToSize c rem [], getSize c p c.maxUnit ≤ c.maxValue := by
  intro n
  induction n using Nat.strongRecOn with
  | _ n ih =>
    intro rem hn hsp p hp
    rw [splitToSize] at hp
    split at hp
    · cases hp
    · split at hp
      · rename_i hna
        have hpe : p = rem := by simpa using hp
        subst hpe
        simpa [isAboveMax] using hna
      · rename_i hna
        have ha : isAboveMax c rem = true := by simpa using hna
        have hT := targetPos_ge_50 hunit hM hratio
        have hlen := targetPos_lt_of_aboveMax hunit ha
        have hb := findSplitPointAt_nil_bound (c := c) (M := c.maxValue) (u := c.maxUnit) hsp hT hlen
        simp only [adjustBoundaryPositions_nil] at hp
        have hrest : ∀ q ∈ splitToSize c
            (trimSpace (rem.drop (findSplitPointAt c rem [] c.maxValue c.maxUnit))) [],
            getSize c q c.maxUnit ≤ c.maxValue := by
          have hl := trimSpace_length_le
            (rem.drop (findSplitPointAt c rem [] c.maxValue c.maxUnit))
          simp only [List.length_drop] at hl
          exact ih _ (by omega) _ rfl (hsp.trimSpace_drop _)
        split at hp
        · rename_i hbad
          omega
        · split at hp
          · exact hrest p hp
          · rcases List.mem_cons.mp hp with h | h
            · subst h
              apply getSize_le_of_length_le hunit
              have hl := trimSpace_length_le
                (rem.take (findSplitPointAt c rem [] c.maxValue c.maxUnit))
              simp only [List.length_take] at hl
              omega
            · exact hrest p h

/-- size bound: hard maximum in characters or tokens, M ≥ 200, at most 4 tokens per byte,
a space at least every 50 bytes, no semantic boundaries ⇒ every piece has size ≤ M -/
theorem splitToSize_bound (c : SizeConfig) (text : Str)
    (hunit : c.maxUnit = .characters ∨ c.maxUnit = .tokens)
    (hM : 200 ≤ c.maxValue)
    (hratio : c.ratio.1 ≤ 4 * c.ratio.2)
    (hsp : Spaced text) :
    ∀ p ∈ splitToSize c text [], getSize c p c.maxUnit ≤ c.maxValue :=
  splitToSize_bound_aux c hunit hM hratio _ text rfl hsp

/-! ## Non-vacuity -/

/-- executable check of `Spaced` -/
def spacedB (s : Str) : Bool :=
  (List.range (s.length + 1 - 50)).all fun k => (List.range 50).any fun d => s[k + d]? == some 32

theorem Spaced.of_spacedB {s : Str} (h : spacedB s = true) : Spaced s := by
  intro k hk
  simp only [spacedB, List.all_eq_true, List.any_eq_true, List.mem_range, beq_iff_eq] at h
  obtain ⟨d, hd, he⟩ := h k (by omega)
  exact ⟨k + d, by omega, by omega, he⟩

/-- "word " × 60 (300 bytes) -/
def exampleText : Str := (List.replicate 60 [119, 111, 114, 100, 32]).flatten

def exampleConfig : SizeConfig :=
  { maxValue := 200, maxUnit := .characters, tpcNum := 1, tpcDen := 4, sem := true }

/-- the hypotheses of `splitToSize_bound` are satisfiable and the split is not trivial -/
example :
    (exampleConfig.maxUnit = .characters ∨ exampleConfig.maxUnit = .tokens)
    ∧ 200 ≤ exampleConfig.maxValue
    ∧ exampleConfig.ratio.1 ≤ 4 * exampleConfig.ratio.2
    ∧ Spaced exampleText
    ∧ (splitToSize exampleConfig exampleText []).map List.length = [199, 99] :=
  ⟨Or.inl rfl, by decide, by decide, Spaced.of_spacedB (by decide +kernel), by decide +kernel⟩

end Tabula.Split
