import TabulaModel.Model.Sheet
namespace Tabula.Sheet
open Tabula.A1

theorem Grid.get_modify (g : Grid) (r c r' c' : Nat) (f : Cell → Cell) :
    (g.modify r c f).get r' c' =
      if r = r' ∧ c = c' then (g.get r c).map f else g.get r' c' := by
  unfold Grid.modify Grid.get
  cases hr : g[r]? with
  | none =>
    simp only
    split
    · rename_i h; obtain ⟨h1, h2⟩ := h; subst h1; subst h2; simp [hr]
    · rfl
  | some row =>
    simp only
    cases hc : row[c]? with
    | none =>
      simp only
      split
      · rename_i h; obtain ⟨h1, h2⟩ := h; subst h1; subst h2; simp [hr, hc]
      · rfl
    | some cell =>
      simp only
      have hrlt : r < g.length := by
        rcases Nat.lt_or_ge r g.length with h | h
        · exact h
        · rw [List.getElem?_eq_none h] at hr; cases hr
      have hclt : c < row.length := by
        rcases Nat.lt_or_ge c row.length with h | h
        · exact h
        · rw [List.getElem?_eq_none h] at hc; cases hc
      by_cases h1 : r = r'
      · subst h1
        rw [List.getElem?_set_self hrlt]
        by_cases h2 : c = c'
        · subst h2
          simp [List.getElem?_set_self hclt, hc]
        · simp [h2, List.getElem?_set_ne h2, hr]
      · simp [h1, List.getElem?_set_ne h1]

theorem Grid.modify_length (g : Grid) (r c : Nat) (f : Cell → Cell) :
    (g.modify r c f).length = g.length := by
  unfold Grid.modify
  split
  · rfl
  · split
    · rfl
    · simp

/-- the effective writes `(rowIdx, col, cellXML)` one `<row>` makes into a grid with `n` rows -/
def rowWrites (n : Nat) (row : RowXML) : List (Nat × Nat × CellXML) :=
  if row.r - 1 < 0 then [] else if (row.r - 1).toNat ≥ n then [] else
  row.cells.filterMap fun x => (refCol x.ref).map fun col => ((row.r - 1).toNat, col, x)

/-- the flattened list of effective writes of the second pass -/
def writes (n : Nat) (rows : List RowXML) : List (Nat × Nat × CellXML) :=
  rows.flatMap (rowWrites n)

def applyWrite (shared : List Str) (g : Grid) (w : Nat × Nat × CellXML) : Grid :=
  g.modify w.1 w.2.1 (cellContent shared w.2.2)

theorem placeCell_foldl (shared : List Str) (ri : Nat) (cells : List CellXML) (g : Grid) :
    cells.foldl (placeCell shared ri) g =
      (cells.filterMap fun x => (refCol x.ref).map fun col => (ri, col, x)).foldl (applyWrite shared) g := by
  induction cells generalizing g with
  | nil => rfl
  | cons x xs ih =>
    simp only [List.foldl_cons, List.filterMap_cons]
    cases h : refCol x.ref with
    | none => simp [placeCell, h, ih]
    | some col => simp [placeCell, h, ih, applyWrite]

theorem applyWrite_length (shared : List Str) (g : Grid) (w) :
    (applyWrite shared g w).length = g.length := Grid.modify_length _ _ _ _

theorem foldl_applyWrite_length (shared : List Str) (ws : List (Nat × Nat × CellXML)) (g : Grid) :
    (ws.foldl (applyWrite shared) g).length = g.length := by
  induction ws generalizing g with
  | nil => rfl
  | cons w ws ih => simp [ih, applyWrite_length]

theorem placeRow_eq (shared : List Str) (g : Grid) (row : RowXML) :
    placeRow shared g row = (rowWrites g.length row).foldl (applyWrite shared) g := by
  unfold placeRow rowWrites
  split
  · rfl
  · split
    · rfl
    · exact placeCell_foldl _ _ _ _

theorem placeRow_length (shared : List Str) (g : Grid) (row : RowXML) :
    (placeRow shared g row).length = g.length := by
  rw [placeRow_eq, foldl_applyWrite_length]

theorem placeRows_eq_writes (shared : List Str) (rows : List RowXML) (g : Grid) :
    rows.foldl (placeRow shared) g = (writes g.length rows).foldl (applyWrite shared) g := by
  induction rows generalizing g with
  | nil => rfl
  | cons row rows ih =>
    simp only [List.foldl_cons, writes, List.flatMap_cons, List.foldl_append]
    rw [ih, placeRow_length, placeRow_eq]
    rfl

/-- effect of a list of writes on one position: exactly the writes addressed to it,
in order; everything else is invisible there -/
theorem get_foldl_applyWrite (shared : List Str) (ws : List (Nat × Nat × CellXML)) (g : Grid)
    (r c : Nat) :
    ((ws.foldl (applyWrite shared) g).get r c) =
      (g.get r c).map fun cell =>
        (ws.filter fun w => w.1 = r ∧ w.2.1 = c).foldl (fun cell w => cellContent shared w.2.2 cell) cell := by
  induction ws generalizing g with
  | nil => simp
  | cons w ws ih =>
    simp only [List.foldl_cons]
    rw [ih, applyWrite, Grid.get_modify]
    by_cases h : w.1 = r ∧ w.2.1 = c
    · obtain ⟨h1, h2⟩ := h
      subst h1; subst h2
      simp [List.filter_cons]
      rfl
    · simp only [h, if_false]
      rw [List.filter_cons]
      simp [h]

end Tabula.Sheet

namespace Tabula.Sheet
open Tabula.A1

theorem splitAux_append_clean (sep : Nat) (x rest cur : Str) (hx : sep ∉ x) :
    splitAux sep (x ++ rest) cur = splitAux sep rest (x.reverse ++ cur) := by
  induction x generalizing cur with
  | nil => rfl
  | cons a as ih =>
    have ha : a ≠ sep := fun h => hx (by simp [h])
    have has : sep ∉ as := fun h => hx (by simp [h])
    simp only [List.cons_append, splitAux, ha, if_false]
    rw [ih _ has]
    simp

theorem splitOn_intercalate (sep : Nat) (xs : List Str) (hne : xs ≠ [])
    (hclean : ∀ x ∈ xs, sep ∉ x) : splitOn sep (intercalate [sep] xs) = xs := by
  unfold splitOn
  induction xs with
  | nil => exact absurd rfl hne
  | cons x rest ih =>
    cases rest with
    | nil =>
      simp only [intercalate]
      have := splitAux_append_clean sep x [] [] (hclean x (by simp))
      simp only [List.append_nil] at this
      rw [this]
      simp [splitAux]
    | cons y ys =>
      simp only [intercalate, List.append_assoc]
      rw [splitAux_append_clean sep x _ [] (hclean x (by simp))]
      simp only [List.append_nil, List.singleton_append, splitAux, if_true, List.reverse_reverse]
      rw [ih (by simp) (fun z hz => hclean z (by simp [hz]))]

theorem not_mem_intercalate (sep a : Nat) (xs : List Str) (hne : a ≠ sep)
    (h : ∀ x ∈ xs, a ∉ x) : a ∉ intercalate [sep] xs := by
  induction xs with
  | nil => simp [intercalate]
  | cons x rest ih =>
    cases rest with
    | nil => simpa [intercalate] using h x (by simp)
    | cons y ys =>
      simp only [intercalate, List.mem_append, not_or]
      refine ⟨⟨h x (by simp), by simpa using hne⟩, ih (fun z hz => h z (by simp [hz]))⟩

end Tabula.Sheet

/-! ## the merge loop and its budget -/
namespace Tabula.Sheet

/-- **the regions the merge loop applies**, from the region list and the grid dimensions only:
the longest prefix of the list whose clipped areas fit the budget (`applied_prefix`,
`applied_fits`, `applied_maximal`) -/
def appliedPrefix (nrows ncols : Nat) : List Region → Nat → List Region
  | [], _ => []
  | m :: ms, budget =>
    if clipArea nrows ncols m > budget then []
    else m :: appliedPrefix nrows ncols ms (budget - clipArea nrows ncols m)

/-- sum of the clipped areas of a list of regions -/
def areaSum (nrows ncols : Nat) (ms : List Region) : Nat := (ms.map (clipArea nrows ncols)).sum

/-- the rows of the clipped rectangle: the iterations of the outer (row) loop of the merge pass
for a region that is walked -/
def clipRows (nrows : Nat) (m : Region) : Nat := min (m.er + 1) nrows - m.sr

/-- the columns of the clipped rectangle -/
def clipCols (ncols : Nat) (m : Region) : Nat := min (m.ec + 1) ncols - m.sc

theorem clipArea_eq (nrows ncols : Nat) (m : Region) :
    clipArea nrows ncols m = clipRows nrows m * clipCols ncols m := rfl

/-- **the regions the merge loop walks**: those of the applied prefix with a cell inside the grid
(since the fix "merged regions with no cell inside the grid are skipped" no loop runs for the
others) -/
def walkedPrefix (nrows ncols : Nat) (ms : List Region) (budget : Nat) : List Region :=
  (appliedPrefix nrows ncols ms budget).filter fun m => decide (clipArea nrows ncols m > 0)

/-- the merge loop calls `mark` for exactly the walked regions, in order -/
theorem mergeLoop_eq_foldl_walked (mark : Grid → Region → Grid) (nrows ncols : Nat) (ms : List Region)
    (budget : Nat) (g : Grid) :
    mergeLoop mark nrows ncols ms budget g = (walkedPrefix nrows ncols ms budget).foldl mark g := by
  unfold walkedPrefix
  induction ms generalizing budget g with
  | nil => rfl
  | cons m ms ih =>
    simp only [mergeLoop, appliedPrefix, clipArea]
    by_cases hz : min (m.er + 1) nrows - m.sr = 0 ∨ min (m.ec + 1) ncols - m.sc = 0
    · have hz' : (min (m.er + 1) nrows - m.sr) * (min (m.ec + 1) ncols - m.sc) = 0 := Nat.mul_eq_zero.mpr hz
      simp only [hz, if_true, hz', Nat.not_lt_zero, gt_iff_lt, if_false, Nat.sub_zero, List.filter_cons,
        clipArea, Nat.lt_irrefl, decide_false, Bool.false_eq_true]
      exact ih _ _
    · have hpos : (min (m.er + 1) nrows - m.sr) * (min (m.ec + 1) ncols - m.sc) > 0 := by
        rcases Nat.eq_zero_or_pos ((min (m.er + 1) nrows - m.sr) * (min (m.ec + 1) ncols - m.sc)) with h | h
        · exact absurd (Nat.mul_eq_zero.mp h) hz
        · exact h
      simp only [hz, if_false]
      by_cases hgt : (min (m.er + 1) nrows - m.sr) * (min (m.ec + 1) ncols - m.sc) > budget
      · simp only [hgt, if_true, List.filter_nil, List.foldl_nil]
      · simp only [hgt, if_false, List.filter_cons, clipArea, hpos, decide_true, if_true, List.foldl_cons]
        exact ih _ _

/-- the merge loop marks the regions of `appliedPrefix`, in order — for a `mark` that does nothing
for a region without a cell in the grid (the regions the loop skips), on the grids `P` it meets -/
theorem mergeLoop_eq_foldl (mark : Grid → Region → Grid) (nrows ncols : Nat) (P : Grid → Prop)
    (hP : ∀ g m, P g → P (mark g m))
    (hneutral : ∀ g m, P g → clipArea nrows ncols m = 0 → mark g m = g)
    (ms : List Region) (budget : Nat) (g : Grid) (hg : P g) :
    mergeLoop mark nrows ncols ms budget g = (appliedPrefix nrows ncols ms budget).foldl mark g := by
  rw [mergeLoop_eq_foldl_walked]
  unfold walkedPrefix
  generalize appliedPrefix nrows ncols ms budget = as
  induction as generalizing g with
  | nil => rfl
  | cons m as ih =>
    simp only [List.filter_cons, List.foldl_cons]
    by_cases h : clipArea nrows ncols m > 0
    · simp only [h, decide_true, if_true, List.foldl_cons]
      exact ih _ (hP g m hg)
    · simp only [h, decide_false, Bool.false_eq_true, if_false]
      rw [hneutral g m hg (by omega)]
      exact ih g hg

/-- the applied regions are a prefix of the list -/
theorem applied_prefix (nrows ncols : Nat) (ms : List Region) (budget : Nat) :
    ∃ rest, ms = appliedPrefix nrows ncols ms budget ++ rest := by
  induction ms generalizing budget with
  | nil => exact ⟨[], rfl⟩
  | cons m ms ih =>
    simp only [appliedPrefix]
    split
    · exact ⟨m :: ms, rfl⟩
    · obtain ⟨rest, h⟩ := ih (budget - clipArea nrows ncols m)
      exact ⟨rest, by rw [List.cons_append, ← h]⟩

/-- their clipped areas fit the budget -/
theorem applied_fits (nrows ncols : Nat) (ms : List Region) (budget : Nat) :
    areaSum nrows ncols (appliedPrefix nrows ncols ms budget) ≤ budget := by
  induction ms generalizing budget with
  | nil => simp [appliedPrefix, areaSum]
  | cons m ms ih =>
    simp only [appliedPrefix]
    split
    · simp [areaSum]
    · have := ih (budget - clipArea nrows ncols m)
      simp only [areaSum, List.map_cons, List.sum_cons] at this ⊢
      omega

/-- and the prefix is the longest such: the first region left out does not fit any more -/
theorem applied_maximal (nrows ncols : Nat) (ms : List Region) (budget : Nat) (m : Region) (rest : List Region)
    (h : ms = appliedPrefix nrows ncols ms budget ++ m :: rest) :
    areaSum nrows ncols (appliedPrefix nrows ncols ms budget) + clipArea nrows ncols m > budget := by
  induction ms generalizing budget with
  | nil => simp [appliedPrefix] at h
  | cons m0 ms ih =>
    simp only [appliedPrefix] at h ⊢
    split
    · rename_i hgt
      simp only [hgt, if_true, List.nil_append, List.cons.injEq] at h
      rw [← h.1]; simp [areaSum]; omega
    · rename_i hle
      simp only [hle, if_false, List.cons_append, List.cons.injEq, true_and] at h
      have := ih (budget - clipArea nrows ncols m0) h
      simp only [areaSum, List.map_cons, List.sum_cons] at this ⊢
      omega

/-- **every region is applied when the clipped areas add up to at most the budget** -/
theorem applied_all (nrows ncols : Nat) (ms : List Region) (budget : Nat)
    (h : areaSum nrows ncols ms ≤ budget) : appliedPrefix nrows ncols ms budget = ms := by
  induction ms generalizing budget with
  | nil => rfl
  | cons m ms ih =>
    simp only [areaSum, List.map_cons, List.sum_cons] at h
    simp only [appliedPrefix]
    have : ¬ clipArea nrows ncols m > budget := by omega
    simp only [this, if_false]
    rw [ih]
    simp only [areaSum]; omega

/-- conversely, if every region is applied the areas fit -/
theorem applied_all_iff (nrows ncols : Nat) (ms : List Region) (budget : Nat) :
    appliedPrefix nrows ncols ms budget = ms ↔ areaSum nrows ncols ms ≤ budget := by
  constructor
  · intro h
    have := applied_fits nrows ncols ms budget
    rw [h] at this; exact this
  · exact applied_all nrows ncols ms budget

end Tabula.Sheet
