import TabulaModel.Model.Sheet
namespace Tabula.Sheet
open Tabula.A1

theorem Grid.get_modify (g : Grid) (r c r' c' : Nat) (f : Cell → Cell) :
    (g.modify r c f).get r' c' =
      if r = r' ∧ c = c' then (g.get r c).map f else g.get r' c' := by
  unfold Grid.modify Grid.get
  cases hr : g[r]? with
  | none =>
    simp only
    split
    · rename_i h; obtain ⟨h1, h2⟩ := h; subst h1; subst h2; simp [hr]
    · rfl
  | some row =>
    simp only
    cases hc : row[c]? with
    | none =>
      simp only
      split
      · rename_i h; obtain ⟨h1, h2⟩ := h; subst h1; subst h2; simp [hr, hc]
      · rfl
    | some cell =>
      simp only
      have hrlt : r < g.length := by
        rcases Nat.lt_or_ge r g.length with h | h
        · exact h
        · rw [List.getElem?_eq_none h] at hr; cases hr
      have hclt : c < row.length := by
        rcases Nat.lt_or_ge c row.length with h | h
        · exact h
        · rw [List.getElem?_eq_none h] at hc; cases hc
      by_cases h1 : r = r'
      · subst h1
        rw [List.getElem?_set_self hrlt]
        by_cases h2 : c = c'
        · subst h2
          simp [List.getElem?_set_self hclt, hc]
        · simp [h2, List.getElem?_set_ne h2, hr]
      · simp [h1, List.getElem?_set_ne h1]

theorem Grid.modify_length (g : Grid) (r c : Nat) (f : Cell → Cell) :
    (g.modify r c f).length = g.length := by
  unfold Grid.modify
  split
  · rfl
  · split
    · rfl
    · simp

/-- the effective writes `(rowIdx, col, cellXML)` one `<row>` makes into a grid with `n` rows -/
def rowWrites (n : Nat) (row : RowXML) : List (Nat × Nat × CellXML) :=
  if row.r - 1 < 0 then [] else if (row.r - 1).toNat ≥ n then [] else
  row.cells.filterMap fun x => (refCol x.ref).map fun col => ((row.r - 1).toNat, col, x)

/-- the flattened list of effective writes of the second pass -/
def writes (n : Nat) (rows : List RowXML) : List (Nat × Nat × CellXML) :=
  rows.flatMap (rowWrites n)

def applyWrite (shared : List Str) (g : Grid) (w : Nat × Nat × CellXML) : Grid :=
  g.modify w.1 w.2.1 (cellContent shared w.2.2)

theorem placeCell_foldl (shared : List Str) (ri : Nat) (cells : List CellXML) (g : Grid) :
    cells.foldl (placeCell shared ri) g =
      (cells.filterMap fun x => (refCol x.ref).map fun col => (ri, col, x)).foldl (applyWrite shared) g := by
  induction cells generalizing g with
  | nil => rfl
  | cons x xs ih =>
    simp only [List.foldl_cons, List.filterMap_cons]
    cases h : refCol x.ref with
    | none => simp [placeCell, h, ih]
    | some col => simp [placeCell, h, ih, applyWrite]

theorem applyWrite_length (shared : List Str) (g : Grid) (w) :
    (applyWrite shared g w).length = g.length := Grid.modify_length _ _ _ _

theorem foldl_applyWrite_length (shared : List Str) (ws : List (Nat × Nat × CellXML)) (g : Grid) :
    (ws.foldl (applyWrite shared) g).length = g.length := by
  induction ws generalizing g with
  | nil => rfl
  | cons w ws ih => simp [ih, applyWrite_length]

theorem placeRow_eq (shared : List Str) (g : Grid) (row : RowXML) :
    placeRow shared g row = (rowWrites g.length row).foldl (applyWrite shared) g := by
  unfold placeRow rowWrites
  split
  · rfl
  · split
    · rfl
    · exact placeCell_foldl _ _ _ _

theorem placeRow_length (shared : List Str) (g : Grid) (row : RowXML) :
    (placeRow shared g row).length = g.length := by
  rw [placeRow_eq, foldl_applyWrite_length]

theorem placeRows_eq_writes (shared : List Str) (rows : List RowXML) (g : Grid) :
    rows.foldl (placeRow shared) g = (writes g.length rows).foldl (applyWrite shared) g := by
  induction rows generalizing g with
  | nil => rfl
  | cons row rows ih =>
    simp only [List.foldl_cons, writes, List.flatMap_cons, List.foldl_append]
    rw [ih, placeRow_length, placeRow_eq]
    rfl

/-- effect of a list of writes on one position: exactly the writes addressed to it,
in order; everything else is invisible there -/
theorem get_foldl_applyWrite (shared : List Str) (ws : List (Nat × Nat × CellXML)) (g : Grid)
    (r c : Nat) :
    ((ws.foldl (applyWrite shared) g).get r c) =
      (g.get r c).map fun cell =>
        (ws.filter fun w => w.1 = r ∧ w.2.1 = c).foldl (fun cell w => cellContent shared w.2.2 cell) cell := by
  induction ws generalizing g with
  | nil => simp
  | cons w ws ih =>
    simp only [List.foldl_cons]
    rw [ih, applyWrite, Grid.get_modify]
    by_cases h : w.1 = r ∧ w.2.1 = c
    · obtain ⟨h1, h2⟩ := h
      subst h1; subst h2
      simp [List.filter_cons]
      rfl
    · simp only [h, if_false]
      rw [List.filter_cons]
      simp [h]

end Tabula.Sheet

namespace Tabula.Sheet
open Tabula.A1

theorem splitAux_append_clean (sep : Nat) (x rest cur : Str) (hx : sep ∉ x) :
    splitAux sep (x ++ rest) cur = splitAux sep rest (x.reverse ++ cur) := by
  induction x generalizing cur with
  | nil => rfl
  | cons a as ih =>
    have ha : a ≠ sep := fun h => hx (by simp [h])
    have has : sep ∉ as := fun h => hx (by simp [h])
    simp only [List.cons_append, splitAux, ha, if_false]
    rw [ih _ has]
    simp

theorem splitOn_intercalate (sep : Nat) (xs : List Str) (hne : xs ≠ [])
    (hclean : ∀ x ∈ xs, sep ∉ x) : splitOn sep (intercalate [sep] xs) = xs := by
  unfold splitOn
  induction xs with
  | nil => exact absurd rfl hne
  | cons x rest ih =>
    cases rest with
    | nil =>
      simp only [intercalate]
      have := splitAux_append_clean sep x [] [] (hclean x (by simp))
      simp only [List.append_nil] at this
      rw [this]
      simp [splitAux]
    | cons y ys =>
      simp only [intercalate, List.append_assoc]
      rw [splitAux_append_clean sep x _ [] (hclean x (by simp))]
      simp only [List.append_nil, List.singleton_append, splitAux, if_true, List.reverse_reverse]
      rw [ih (by simp) (fun z hz => hclean z (by simp [hz]))]

theorem not_mem_intercalate (sep a : Nat) (xs : List Str) (hne : a ≠ sep)
    (h : ∀ x ∈ xs, a ∉ x) : a ∉ intercalate [sep] xs := by
  induction xs with
  | nil => simp [intercalate]
  | cons x rest ih =>
    cases rest with
    | nil => simpa [intercalate] using h x (by simp)
    | cons y ys =>
      simp only [intercalate, List.mem_append, not_or]
      refine ⟨⟨h x (by simp), by simpa using hne⟩, ih (fun z hz => h z (by simp [hz]))⟩

end Tabula.Sheet
