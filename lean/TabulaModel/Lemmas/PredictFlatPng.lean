import TabulaModel.Model.PredictFlat
import TabulaModel.Lemmas.FiltersSound
/-!
Refinement of the PNG predictor: the buffer-level transcription `applyPNGPredictorFlat`
(`Model/PredictFlat.lean`: one flat result buffer, the previous row read by index, `goSet`,
`goSlice`, `goCopy`) computes exactly what the row-wise model `applyPNGPredictor`
(`Model/Filters.lean`) computes, for all data and parameters. In particular none of the index or
slice panics of the flat model can happen where the row-wise model succeeds. Core Lean only.
-/
namespace Tabula.Filters

/-! ### list lemmas -/

/-- writing at the seam of `a ++ x :: b` replaces `x` -/
theorem set_mid (a : Str) (x v : Nat) (b : Str) : (a ++ x :: b).set a.length v = a ++ v :: b := by
  rw [List.set_append_right _ _ (Nat.le_refl _), Nat.sub_self]
  rfl

/-- reading just past the first part of `a ++ b ++ c` reads `b` -/
theorem getElem?_mid (a b c : Str) (i : Nat) (hi : i < b.length) :
    (a ++ b ++ c)[a.length + i]? = b[i]? := by
  rw [List.append_assoc, List.getElem?_append_right (Nat.le_add_right _ _), Nat.add_sub_cancel_left,
    List.getElem?_append_left hi]

/-- `decRow` appends one byte per input byte -/
theorem decRow_length (P : Str → Option Nat) : ∀ (fs done out : Str),
    decRow P fs done = some out → out.length = done.length + fs.length := by
  intro fs
  induction fs with
  | nil =>
    intro done out h
    simp only [decRow, Option.some.injEq] at h
    subst h
    simp
  | cons f fs ih =>
    intro done out h
    simp only [decRow] at h
    cases hp : P done with
    | none => rw [hp] at h; exact absurd h (by simp)
    | some p =>
      rw [hp] at h
      have := ih _ _ h
      simp only [List.length_append, List.length_cons, List.length_nil] at this ⊢
      omega

/-- `decRow` appends bytes -/
theorem decRow_bytes (P : Str → Option Nat) : ∀ (fs done out : Str), (∀ b ∈ done, b < 256) →
    decRow P fs done = some out → ∀ b ∈ out, b < 256 := by
  intro fs
  induction fs with
  | nil =>
    intro done out hd h
    simp only [decRow, Option.some.injEq] at h
    subst h
    exact hd
  | cons f fs ih =>
    intro done out hd h
    simp only [decRow] at h
    cases hp : P done with
    | none => rw [hp] at h; exact absurd h (by simp)
    | some p =>
      rw [hp] at h
      refine ih _ _ ?_ h
      intro b hb
      rcases List.mem_append.mp hb with hb | hb
      · exact hd b hb
      · simp only [List.mem_singleton] at hb
        subst hb
        exact Nat.mod_lt _ (by decide)

/-- rows of equal length flatten to a multiple of that length -/
theorem flatten_length_rows (cc : Nat) : ∀ (rows : List Str), (∀ r ∈ rows, r.length = cc) →
    rows.flatten.length = rows.length * cc := by
  intro rows
  induction rows with
  | nil => intro _; simp
  | cons r rs ih =>
    intro h
    have h1 : r.length = cc := h r (by simp)
    have h2 := ih (fun x hx => h x (by simp [hx]))
    simp only [List.flatten_cons, List.length_append, List.length_cons, h1, h2, Nat.succ_mul]
    omega

/-! ### one row -/

/-- how the flat result buffer `prevRows` relates to the previous decoded row at row `rowNum` -/
def PrevOK (rowNum : Nat) (prevRows : Str) (cc : Nat) (prev : Option Str) : Prop :=
  (rowNum = 0 ∧ prev = none) ∨
  (0 < rowNum ∧ ∃ pr, prev = some pr ∧ pr.length = cc ∧ (∀ b ∈ pr, b < 256) ∧
    ∀ i, i < cc → prevRows[(rowNum - 1) * cc + i]? = pr[i]?)

/-- `result[i-bytesPerPixel]` only looks at the decoded prefix -/
theorem leftFlat_eq (bpp : Nat) (hb : 1 ≤ bpp) (done zs : Str) :
    leftFlat bpp (done ++ zs) done.length = leftOf bpp done := by
  unfold leftFlat leftOf
  split
  · rename_i h
    cases hd : done.length with
    | zero => omega
    | succ n =>
      rw [List.getElem?_append_left (by omega)]
  · rfl

/-- `prevRows[(rowNum-1)*rowLength+i]` is the byte above -/
theorem upFlat_eq (rowNum : Nat) (prevRows : Str) (cc : Nat) (prev : Option Str)
    (h : PrevOK rowNum prevRows cc prev) (i : Nat) (hi : i < cc) :
    upFlat rowNum prevRows cc i = upOf prev i := by
  unfold upFlat upOf
  rcases h with ⟨h0, hp⟩ | ⟨h0, pr, hp, _, _, hrd⟩
  · subst h0; subst hp; simp
  · subst hp
    simp only [gt_iff_lt, h0, if_true]
    exact hrd i hi

/-- `prevRows[(rowNum-1)*rowLength+i-bytesPerPixel]` is the byte above left -/
theorem upLeftFlat_eq (bpp rowNum : Nat) (prevRows : Str) (cc : Nat) (prev : Option Str)
    (h : PrevOK rowNum prevRows cc prev) (i : Nat) (hi : i < cc) :
    upLeftFlat bpp rowNum prevRows cc i = upLeftOf bpp prev i := by
  unfold upLeftFlat upLeftOf
  rcases h with ⟨h0, hp⟩ | ⟨h0, pr, hp, _, _, hrd⟩
  · subst h0; subst hp; simp
  · subst hp
    simp only [gt_iff_lt, h0, if_true]
    split
    · rename_i hge
      have : (rowNum - 1) * cc + i - bpp = (rowNum - 1) * cc + (i - bpp) := by omega
      rw [this]
      exact hrd (i - bpp) (by omega)
    · rfl

/-- the byte to the left is a byte -/
theorem leftOf_lt (bpp : Nat) (done : Str) (hd : ∀ b ∈ done, b < 256) (l : Nat)
    (h : leftOf bpp done = some l) : l < 256 := by
  unfold leftOf at h
  split at h
  · exact hd l (List.mem_of_getElem? h)
  · simp only [Option.some.injEq] at h; omega

/-- the byte above is a byte -/
theorem upOf_lt (rowNum : Nat) (prevRows : Str) (cc : Nat) (prev : Option Str)
    (hp : PrevOK rowNum prevRows cc prev) (i u : Nat) (h : upOf prev i = some u) : u < 256 := by
  unfold upOf at h
  rcases hp with ⟨_, hp⟩ | ⟨_, pr, hp, _, hb, _⟩
  · subst hp
    simp only [Option.some.injEq] at h; omega
  · subst hp
    exact hb u (List.mem_of_getElem? h)

/-- the `switch predictor` on the buffers is the `switch predictor` of the row-wise model -/
theorem pngPredictedFlat_eq (tag bpp rowNum : Nat) (prevRows : Str) (cc : Nat) (prev : Option Str)
    (hb : 1 ≤ bpp) (hp : PrevOK rowNum prevRows cc prev) (done zs : Str)
    (hd : ∀ b ∈ done, b < 256) (hl : done.length < cc) :
    pngPredictedFlat tag bpp rowNum prevRows cc (done ++ zs) done.length = pngPredicted tag bpp prev done := by
  unfold pngPredictedFlat pngPredicted
  rw [leftFlat_eq bpp hb, upFlat_eq rowNum prevRows cc prev hp _ hl,
    upLeftFlat_eq bpp rowNum prevRows cc prev hp _ hl]
  split
  · rfl
  · rfl
  · rfl
  · cases h1 : leftOf bpp done with
    | none => rfl
    | some l =>
      cases h2 : upOf prev done.length with
      | none => rfl
      | some u =>
        have := leftOf_lt bpp done hd l h1
        have := upOf_lt rowNum prevRows cc prev hp _ u h2
        simp only [toByte]
        rw [Nat.mod_eq_of_lt (by omega)]
  · rfl
  · split <;> first | rfl | (exfalso; simp_all)

/-- the row loop on the row buffer (decoded prefix `done`, zeros after it) is `decRow` -/
theorem pngRowFlatLoop_eq (tag bpp rowNum : Nat) (prevRows : Str) (cc : Nat) (prev : Option Str)
    (hb : 1 ≤ bpp) (hp : PrevOK rowNum prevRows cc prev) (rowData : Str) (hrl : rowData.length = cc) :
    ∀ (fs pre done : Str), rowData = pre ++ fs → pre.length = done.length → (∀ b ∈ done, b < 256) →
      pngRowFlatLoop rowData tag bpp rowNum prevRows cc fs.length done.length
        (done ++ List.replicate fs.length 0) = decRow (pngPredicted tag bpp prev) fs done := by
  intro fs
  induction fs with
  | nil =>
    intro pre done _ _ _
    simp [pngRowFlatLoop, decRow]
  | cons f fs ih =>
    intro pre done hrd hpl hd
    have hlen : done.length < cc := by
      rw [← hrl, hrd, List.length_append, List.length_cons]
      omega
    simp only [List.length_cons, List.replicate_succ, pngRowFlatLoop, decRow]
    rw [pngPredictedFlat_eq tag bpp rowNum prevRows cc prev hb hp done _ hd hlen]
    cases hP : pngPredicted tag bpp prev done with
    | none => rfl
    | some p =>
      have hget : rowData[done.length]? = some f := by
        rw [hrd, ← hpl, List.getElem?_append_right (Nat.le_refl _), Nat.sub_self]
        rfl
      have hset : goSet (done ++ 0 :: List.replicate fs.length 0) done.length (toByte (f + p)) =
          some ((done ++ [(f + p) % 256]) ++ List.replicate fs.length 0) := by
        unfold goSet
        rw [if_pos (by simp only [List.length_append, List.length_cons]; omega), set_mid]
        simp only [toByte, List.append_assoc, List.singleton_append]
      simp only [hget, hset]
      have := ih (pre ++ [f]) (done ++ [(f + p) % 256]) (by rw [hrd]; simp)
        (by simp only [List.length_append, List.length_cons, List.length_nil]; omega)
        (by
          intro b hb
          rcases List.mem_append.mp hb with hb | hb
          · exact hd b hb
          · simp only [List.mem_singleton] at hb
            subst hb
            exact Nat.mod_lt _ (by decide))
      simp only [List.length_append, List.length_cons, List.length_nil] at this
      exact this

/-- `decodePNGRow` on the flat buffer is `decodePNGRow` on the previous row -/
theorem decodePNGRowFlat_eq (tag bpp rowNum : Nat) (prevRows : Str) (cc : Nat) (prev : Option Str)
    (hb : 1 ≤ bpp) (hp : PrevOK rowNum prevRows cc prev) (rowData : Str) (hrl : rowData.length = cc) :
    decodePNGRowFlat rowData tag bpp rowNum prevRows cc = decodePNGRow rowData tag bpp prev := by
  have := pngRowFlatLoop_eq tag bpp rowNum prevRows cc prev hb hp rowData hrl rowData [] [] rfl rfl
    (by intro b hb; cases hb)
  simpa [decodePNGRowFlat, decodePNGRow] using this

/-! ### the rows -/

/-- the result buffer holds the previous decoded row where `decodePNGRow` looks for it -/
theorem prevOK_buffer (cc : Nat) (acc : List Str) (hacc : ∀ r ∈ acc, r.length = cc ∧ ∀ b ∈ r, b < 256)
    (zs : Str) : PrevOK acc.length (acc.reverse.flatten ++ zs) cc acc.head? := by
  cases acc with
  | nil => exact Or.inl ⟨rfl, rfl⟩
  | cons pr acc' =>
    obtain ⟨hl, hbts⟩ := hacc pr (by simp)
    refine Or.inr ⟨by simp, pr, rfl, hl, hbts, ?_⟩
    intro i hi
    have hfl : acc'.reverse.flatten.length = acc'.length * cc := by
      have := flatten_length_rows cc acc'.reverse
        (fun r hr => (hacc r (by simp [List.mem_reverse.mp hr])).1)
      simpa using this
    simp only [List.reverse_cons, List.flatten_append, List.flatten_cons, List.flatten_nil,
      List.append_nil, List.length_cons, Nat.add_sub_cancel]
    rw [← hfl]
    exact getElem?_mid _ _ _ _ (by omega)

/-- `copy(result[row*cc:(row+1)*cc], decodedRow)` at the end of the decoded part -/
theorem goCopy_seam (A drow : Str) (m cc : Nat) (hd : drow.length = cc) :
    goCopy (A ++ List.replicate (m + cc) 0) A.length (A.length + cc) drow =
      some (A ++ drow ++ List.replicate m 0) := by
  unfold goCopy
  rw [if_pos ⟨by omega, by simp only [List.length_append, List.length_replicate]; omega⟩]
  have h1 : A.length + cc - A.length = cc := by omega
  rw [h1, hd, Nat.min_self, List.take_left, List.take_of_length_le (by omega), List.drop_append,
    List.drop_of_length_le (by omega), List.drop_replicate]
  have h2 : m + cc - (A.length + cc - A.length) = m := by omega
  rw [h2]
  rfl

/-- `data[rowStart+1 : rowStart+rowSize]` is the row after the tag -/
theorem goSlice_row (data : Str) (rs cc : Nat) (h : rs + cc + 1 ≤ data.length) :
    goSlice data (rs + 1) (rs + (cc + 1)) = some ((data.drop (rs + 1)).take cc) := by
  unfold goSlice
  rw [if_pos ⟨by omega, by omega⟩, List.take_drop]
  have : rs + 1 + cc = rs + (cc + 1) := by omega
  rw [this]

/-- the row loop of `applyPNGPredictor` on the flat buffer: `acc` are the decoded rows, newest
first, the buffer holds them followed by zeros -/
theorem pngFlatLoop_eq (data : Str) (bpp cc : Nat) (hb : 1 ≤ bpp) :
    ∀ (k row : Nat) (acc : List Str), (∀ r ∈ acc, r.length = cc ∧ ∀ b ∈ r, b < 256) →
      acc.length = row → data.length = (row + k) * (cc + 1) →
      pngFlatLoop data (cc + 1) bpp cc k row (acc.reverse.flatten ++ List.replicate (k * cc) 0) =
        pngRows k cc bpp (data.drop (row * (cc + 1))) acc.head? acc := by
  intro k
  induction k with
  | zero =>
    intro row acc _ _ _
    simp [pngFlatLoop, pngRows]
  | succ k ih =>
    intro row acc hacc hrow hdl
    have hfl : acc.reverse.flatten.length = row * cc := by
      have := flatten_length_rows cc acc.reverse
        (fun r hr => (hacc r (List.mem_reverse.mp hr)).1)
      simpa [hrow] using this
    have hexp : (row + (k + 1)) * (cc + 1) = row * (cc + 1) + (k * (cc + 1) + (cc + 1)) := by
      rw [Nat.add_mul, Nat.succ_mul]
    have hlt : row * (cc + 1) < data.length := by omega
    rw [List.drop_eq_getElem_cons hlt]
    simp only [pngFlatLoop, pngRows, List.getElem?_eq_getElem hlt]
    rw [goSlice_row data (row * (cc + 1)) cc (by omega)]
    have hrlen : ((data.drop (row * (cc + 1) + 1)).take cc).length = cc := by
      rw [List.length_take, List.length_drop]
      omega
    have hp := prevOK_buffer cc acc hacc (List.replicate ((k + 1) * cc) 0)
    rw [hrow] at hp
    simp only []
    rw [decodePNGRowFlat_eq _ bpp row _ cc acc.head? hb hp _ hrlen]
    cases hdec : decodePNGRow ((data.drop (row * (cc + 1) + 1)).take cc) data[row * (cc + 1)] bpp acc.head? with
    | none => rfl
    | some drow =>
      have hdl' : drow.length = cc := by
        have := decRow_length _ _ _ _ hdec
        simpa [hrlen] using this
      have hdb : ∀ b ∈ drow, b < 256 := decRow_bytes _ _ _ _ (by intro b hb; cases hb) hdec
      have e1 : row * cc = acc.reverse.flatten.length := hfl.symm
      have e2 : (row + 1) * cc = acc.reverse.flatten.length + cc := by rw [Nat.succ_mul, hfl]
      have e3 : (k + 1) * cc = k * cc + cc := Nat.succ_mul _ _
      have hcopy : goCopy (acc.reverse.flatten ++ List.replicate ((k + 1) * cc) 0) (row * cc)
          ((row + 1) * cc) drow = some ((drow :: acc).reverse.flatten ++ List.replicate (k * cc) 0) := by
        rw [e3, e2, e1, goCopy_seam _ _ _ _ hdl']
        simp
      simp only [hcopy]
      have hnext := ih (row + 1) (drow :: acc)
        (by
          intro r hr
          rcases List.mem_cons.mp hr with hr | hr
          · subst hr; exact ⟨hdl', hdb⟩
          · exact hacc r hr)
        (by simp [hrow])
        (by rw [hdl, Nat.add_right_comm row 1 k, Nat.add_assoc])
      rw [hnext, List.drop_drop]
      have e4 : (row + 1) * (cc + 1) = row * (cc + 1) + 1 + cc := by rw [Nat.succ_mul]; omega
      rw [e4]
      rfl

/-! ### the whole predictor -/

/-- the buffer-level PNG predictor computes what the row-wise model computes -/
theorem applyPNGPredictorFlat_eq (data : Str) (p : Params) :
    applyPNGPredictorFlat data p = applyPNGPredictor data p := by
  unfold applyPNGPredictorFlat applyPNGPredictor
  simp only []
  split
  · rfl
  · cases hrb : predictorRowBytes (p.columns.getD 1) (p.colors.getD 1) with
    | none => rfl
    | some rb =>
      simp only []
      split
      · rfl
      · rename_i hmod
        obtain ⟨_, h2, _, _⟩ := predictorRowBytes_some _ _ rb hrb
        have hbpp : 1 ≤ (p.colors.getD 1).toNat := by omega
        have hmod' : data.length % (rb + 1) = 0 := by
          apply Classical.byContradiction
          intro hne; exact hmod hne
        have hlen : data.length = (0 + data.length / (rb + 1)) * (rb + 1) := by
          have := Nat.div_add_mod data.length (rb + 1)
          rw [hmod', Nat.add_zero, Nat.mul_comm] at this
          rw [Nat.zero_add]
          exact this.symm
        have := pngFlatLoop_eq data (p.colors.getD 1).toNat rb hbpp (data.length / (rb + 1)) 0 []
          (by intro r hr; cases hr) rfl hlen
        simpa using this

end Tabula.Filters
