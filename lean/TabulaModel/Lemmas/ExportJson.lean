import TabulaModel.Model.ExportJson
import TabulaModel.Lemmas.Json
import TabulaModel.Lemmas.ExportApi
/-!
Lemmas about `Model/ExportJson.lean`: Go values as JSON values (numbers, sorted maps, struct
fields), their well-formedness when the chunk's strings are well-formed UTF-8.
-/
set_option linter.unusedSimpArgs false
namespace Tabula.Export
open Tabula.Csv (Str)
open Tabula.Json
open Tabula.Split (validUtf8 charLen)

/-! ### `%d` output is a JSON number -/

theorem dropDigits_all (r : Str) (h : ∀ x ∈ r, isDigit x = true) : dropDigits r = [] := by
  induction r with
  | nil => rfl
  | cons c cs ih => simp [dropDigits, h c (by simp), ih (fun x hx => h x (List.mem_cons_of_mem _ hx))]

theorem dec_shape (n : Nat) :
    (n = 0 ∧ dec n = [48]) ∨ (0 < n ∧ ∃ c r, dec n = c :: r ∧ 49 ≤ c ∧ c ≤ 57 ∧ ∀ x ∈ r, isDigit x = true) := by
  induction n using Nat.strongRecOn with
  | _ n ih =>
    by_cases h : n < 10
    · rw [dec_small n h]
      by_cases h0 : n = 0
      · left; subst h0; exact ⟨rfl, rfl⟩
      · right; exact ⟨by omega, 48 + n, [], rfl, by omega, by omega, by simp⟩
    · right
      refine ⟨by omega, ?_⟩
      rw [dec_step n h]
      rcases ih (n / 10) (by omega) with ⟨h0, _⟩ | ⟨_, c, r, e, h1, h2, h3⟩
      · omega
      · refine ⟨c, r ++ [48 + n % 10], by rw [e]; rfl, h1, h2, ?_⟩
        intro x hx
        rcases List.mem_append.mp hx with hx | hx
        · exact h3 x hx
        · simp only [List.mem_singleton] at hx
          subst hx
          simp only [isDigit, Bool.and_eq_true, decide_eq_true_eq]
          omega

theorem dec_numOk (n : Nat) : validUnsigned (dec n) = true ∧ (dec n).all isNumChar = true := by
  rcases dec_shape n with ⟨_, e⟩ | ⟨_, c, r, e, h1, h2, h3⟩
  · rw [e]; decide
  · rw [e]
    constructor
    · have hc : ¬ c = 48 := by omega
      simp only [validUnsigned, hc, if_false, h1, h2, and_self, if_true, dropDigits_all r h3, validFrac]
    · simp only [List.all_cons, Bool.and_eq_true, List.all_eq_true]
      refine ⟨?_, fun x hx => ?_⟩
      · simp only [isNumChar, isDigit, Bool.or_eq_true, Bool.and_eq_true, decide_eq_true_eq]
        omega
      · have := h3 x hx
        simp only [isNumChar, this, Bool.true_or]

/-- `fmt.Sprintf("%d", i)` / the JSON encoding of a Go `int` is a number token of the grammar -/
theorem decInt_numOk (i : Int) : validNum (decInt i) = true ∧ (decInt i).all isNumChar = true := by
  obtain ⟨h1, h2⟩ := dec_numOk i.natAbs
  unfold decInt
  split
  · refine ⟨by simp [validNum, h1], ?_⟩
    simp only [List.all_cons, h2, Bool.and_true]
    decide
  · refine ⟨?_, h2⟩
    rcases dec_shape i.natAbs with ⟨_, e⟩ | ⟨_, c, r, e, h3, h4, _⟩
    · rw [e]; decide
    · have hc : ¬ c = 45 := by omega
      rw [e] at h1 ⊢
      simp only [validNum, hc, if_false, h1]

/-! ### members -/

theorem getMember_append (k : Str) (a b : List (Str × J)) :
    getMember k (a ++ b) = (getMember k a).or (getMember k b) := by
  induction a with
  | nil => simp [getMember]
  | cons e rest ih =>
    obtain ⟨k', v'⟩ := e
    simp only [List.cons_append, getMember]
    split
    · simp
    · exact ih

def memberKeys (l : List (Str × J)) : List Str := l.map (·.1)

theorem getMember_none_of_not_mem (k : Str) (l : List (Str × J)) (h : k ∉ memberKeys l) : getMember k l = none := by
  induction l with
  | nil => rfl
  | cons e rest ih =>
    obtain ⟨k', v'⟩ := e
    simp only [memberKeys, List.map_cons, List.mem_cons, not_or] at h
    have : ¬ k' = k := fun e => h.1 e.symm
    simp only [getMember, this, if_false]
    exact ih h.2

theorem memberKeys_insertMember (x : Str × J) (l : List (Str × J)) :
    ∀ k, k ∈ memberKeys (insertMember x l) ↔ k = x.1 ∨ k ∈ memberKeys l := by
  induction l with
  | nil => intro k; simp [insertMember, memberKeys]
  | cons y ys ih =>
    intro k
    simp only [insertMember]
    split
    · simp [memberKeys]
    · simp only [memberKeys, List.map_cons, List.mem_cons] at ih ⊢
      rw [ih k]
      constructor
      · rintro (h | h | h)
        · exact Or.inr (Or.inl h)
        · exact Or.inl h
        · exact Or.inr (Or.inr h)
      · rintro (h | h | h)
        · exact Or.inr (Or.inl h)
        · exact Or.inl h
        · exact Or.inr (Or.inr h)

theorem getMember_insertMember (k : Str) (x : Str × J) (l : List (Str × J)) (hx : x.1 ∉ memberKeys l) :
    getMember k (insertMember x l) = if x.1 = k then some x.2 else getMember k l := by
  induction l with
  | nil => simp [insertMember, getMember]
  | cons y ys ih =>
    obtain ⟨ky, vy⟩ := y
    simp only [memberKeys, List.map_cons, List.mem_cons, not_or] at hx
    simp only [insertMember]
    split
    · simp [getMember]
    · simp only [getMember]
      rw [ih hx.2]
      by_cases h1 : ky = k
      · have : ¬ x.1 = k := fun e => hx.1 (e.trans h1.symm)
        simp [h1, this]
      · simp [h1]

theorem memberKeys_sortMembers (l : List (Str × J)) : ∀ k, k ∈ memberKeys (sortMembers l) ↔ k ∈ memberKeys l := by
  induction l with
  | nil => intro k; rfl
  | cons x xs ih =>
    intro k
    simp only [sortMembers]
    rw [memberKeys_insertMember, ih k]
    simp [memberKeys]

/-- sorting the members of a map (distinct keys) does not change what is found under a key -/
theorem getMember_sortMembers (k : Str) (l : List (Str × J)) (h : (memberKeys l).Nodup) :
    getMember k (sortMembers l) = getMember k l := by
  induction l with
  | nil => rfl
  | cons x xs ih =>
    simp only [memberKeys, List.map_cons, List.nodup_cons] at h
    simp only [sortMembers]
    rw [getMember_insertMember k x _ (fun hm => h.1 ((memberKeys_sortMembers xs x.1).mp hm)), ih h.2]
    obtain ⟨kx, vx⟩ := x
    simp [getMember]

theorem memberKeys_valsToJ (m : MapSV) : memberKeys (valsToJ m) = mapKeys m := by
  induction m with
  | nil => rfl
  | cons e rest ih =>
    obtain ⟨k, v⟩ := e
    simp only [valsToJ, memberKeys, List.map_cons, mapKeys] at ih ⊢
    rw [ih]

theorem getMember_valsToJ (k : Str) (m : MapSV) : getMember k (valsToJ m) = (mapLookup m k).map valToJ := by
  induction m with
  | nil => rfl
  | cons e rest ih =>
    obtain ⟨k', v'⟩ := e
    simp only [valsToJ, getMember, mapLookup]
    split
    · simp
    · exact ih

/-- a metadata map as a JSON object: under every key the JSON form of the map's value -/
theorem mapToJ_get (m : MapSV) (h : (mapKeys m).Nodup) (k : Str) :
    (mapToJ m).get k = (mapLookup m k).map valToJ := by
  simp only [mapToJ, J.get]
  rw [getMember_sortMembers k _ (by rw [memberKeys_valsToJ]; exact h), getMember_valsToJ]

/-! ### validity (well-formed UTF-8) of everything a chunk carries -/

def strsValid (l : List Str) : Bool := l.all validUtf8

def metaValid (m : Meta) : Bool :=
  validUtf8 m.documentTitle && strsValid m.sectionPath && validUtf8 m.sectionTitle &&
  validUtf8 m.parentID && strsValid m.childIDs && strsValid m.elementTypes

/-- ids, texts, titles, section names/paths, parent/child ids, element types are well-formed UTF-8 -/
def chunkValid (c : Chunk) : Bool := validUtf8 c.id && validUtf8 c.text && metaValid c.md

def valValid : Val → Bool
  | .str s => validUtf8 s
  | .strs l => strsValid l
  | .int _ => true
  | .bool _ => true
  | .obj _ => false

def entryValid (e : Str × Val) : Bool := validUtf8 e.1 && valValid e.2

theorem validUtf8_ascii (s : Str) (h : ∀ c ∈ s, c < 128) : validUtf8 s = true := by
  induction s with
  | nil => exact Tabula.Split.validUtf8_nil
  | cons c cs ih =>
    have hc : c < 0x80 := h c (by simp)
    have h1 : charLen (c :: cs) = 1 := Tabula.Split.charLen_one hc
    rw [Tabula.Split.validUtf8_step _ (by rw [h1]; decide), h1]
    exact ih (fun x hx => h x (List.mem_cons_of_mem _ hx))

theorem levelString_valid (l : Int) : validUtf8 (levelString l) = true := by
  unfold levelString
  repeat' split
  all_goals exact validUtf8_ascii _ (by decide)

theorem allE_append {P : Str × Val → Prop} {a b : MapSV} (ha : ∀ e ∈ a, P e) (hb : ∀ e ∈ b, P e) :
    ∀ e ∈ a ++ b, P e := by
  intro e he
  rcases List.mem_append.mp he with h | h
  · exact ha e h
  · exact hb e h

theorem allE_single {P : Str × Val → Prop} (k : Str) (v : Val) (hv : P (k, v)) : ∀ e ∈ [(k, v)], P e := by
  intro e he
  simp only [List.mem_singleton] at he
  rw [he]; exact hv

theorem allE_if {P : Str × Val → Prop} (c : Prop) [Decidable c] (k : Str) (v : Val) (hv : P (k, v)) :
    ∀ e ∈ (if c then [(k, v)] else []), P e := by
  split
  · exact allE_single k v hv
  · intro e he; simp at he

theorem entryValid_mk (k : Str) (v : Val) (hk : ∀ c ∈ k, c < 128) (hv : valValid v = true) :
    entryValid (k, v) = true := by
  simp [entryValid, validUtf8_ascii k hk, hv]

theorem chunkMetadataToMap_valid (m : Meta) (h : metaValid m = true) :
    ∀ e ∈ chunkMetadataToMap m, entryValid e = true := by
  simp only [metaValid, Bool.and_eq_true] at h
  obtain ⟨⟨⟨⟨⟨h1, h2⟩, h3⟩, h4⟩, h5⟩, h6⟩ := h
  unfold chunkMetadataToMap
  repeat (first
    | apply allE_append
    | exact allE_if _ _ _ (entryValid_mk _ _ (by decide) (by first | assumption | rfl | exact levelString_valid _))
    | exact allE_single _ _ (entryValid_mk _ _ (by decide) (by first | assumption | rfl | exact levelString_valid _)))

theorem mem_mapInsert {m : MapSV} {k : Str} {v : Val} {e : Str × Val} (h : e ∈ mapInsert m k v) :
    e ∈ m ∨ e = (k, v) := by
  induction m with
  | nil => simp only [mapInsert, List.mem_singleton] at h; exact Or.inr h
  | cons e0 rest ih =>
    obtain ⟨k1, v1⟩ := e0
    simp only [mapInsert] at h
    split at h
    · rcases List.mem_cons.mp h with h | h
      · exact Or.inr h
      · exact Or.inl (List.mem_cons_of_mem _ h)
    · rcases List.mem_cons.mp h with h | h
      · exact Or.inl (by rw [h]; exact List.mem_cons_self)
      · rcases ih h with h | h
        · exact Or.inl (List.mem_cons_of_mem _ h)
        · exact Or.inr h

theorem mem_filterFields {fs : List Str} {md acc : MapSV} {e : Str × Val} (h : e ∈ filterFields fs md acc) :
    e ∈ acc ∨ e ∈ md := by
  induction fs generalizing acc with
  | nil => exact Or.inl h
  | cons f rest ih =>
    simp only [filterFields] at h
    cases hl : mapLookup md f with
    | none => rw [hl] at h; exact ih h
    | some v =>
      rw [hl] at h
      rcases ih h with h' | h'
      · rcases mem_mapInsert h' with h'' | h''
        · exact Or.inl h''
        · exact Or.inr (h'' ▸ mem_of_mapLookup md f v hl)
      · exact Or.inr h'

/-- every entry of an exported metadata map is an entry of `chunkMetadataToMap` -/
theorem mem_filterMetadata_chunk (cfg : Config) (m : Meta) (e : Str × Val)
    (h : e ∈ filterMetadata cfg (chunkMetadataToMap m)) : e ∈ chunkMetadataToMap m := by
  have hfl := values_flat m
  unfold filterMetadata at h
  cases hf : cfg.metadataFields with
  | none =>
    rw [hf] at h
    simp only [flatten_chunk_metadata, ite_self] at h
    exact h
  | some fs =>
    rw [hf] at h
    obtain ⟨h1, h2, _⟩ := filterFields_spec fs (chunkMetadataToMap m) [] (by simp [mapKeys]) (by simp) hfl
    have e2 : (if cfg.flattenMetadata = true then flattenMetadata (filterFields fs (chunkMetadataToMap m) []) []
        else filterFields fs (chunkMetadataToMap m) []) = filterFields fs (chunkMetadataToMap m) [] := by
      split
      · unfold flattenMetadata
        rw [flattenGo_flat _ [] h2 (by simpa [mapKeys] using h1)]
        simp
      · rfl
    simp only [e2] at h
    rcases mem_filterFields h with h' | h'
    · simp at h'
    · exact h'

/-! ### well-formedness of the JSON values the exporters build -/

theorem wfMembers_append (a b : List (Str × J)) : wfMembers (a ++ b) = (wfMembers a && wfMembers b) := by
  induction a with
  | nil => simp [wfMembers]
  | cons e rest ih =>
    obtain ⟨k, v⟩ := e
    simp only [List.cons_append, wfMembers, ih, Bool.and_assoc]

theorem wfMembers_insertMember (x : Str × J) (l : List (Str × J)) :
    wfMembers (insertMember x l) = (validUtf8 x.1 && wf x.2 && wfMembers l) := by
  induction l with
  | nil => obtain ⟨k, v⟩ := x; simp [insertMember, wfMembers]
  | cons y ys ih =>
    obtain ⟨k, v⟩ := x
    obtain ⟨ky, vy⟩ := y
    simp only [insertMember]
    split
    · simp [wfMembers]
    · simp only [wfMembers, ih]
      cases validUtf8 ky <;> cases wf vy <;> cases validUtf8 k <;> cases wf v <;> simp

theorem wfMembers_sortMembers (l : List (Str × J)) : wfMembers (sortMembers l) = wfMembers l := by
  induction l with
  | nil => rfl
  | cons x xs ih =>
    obtain ⟨k, v⟩ := x
    simp only [sortMembers, wfMembers_insertMember, ih, wfMembers]

theorem wfList_strs (l : List Str) (h : strsValid l = true) : wfList (l.map J.str) = true := by
  induction l with
  | nil => rfl
  | cons s rest ih =>
    simp only [strsValid, List.all_cons, Bool.and_eq_true] at h
    simp only [List.map_cons, wfList, wf, h.1, Bool.true_and]
    exact ih h.2

theorem wf_jStrs (l : List Str) (h : strsValid l = true) : wf (jStrs l) = true := by
  simp only [jStrs, wf]; exact wfList_strs l h

theorem wf_numInt (i : Int) : wf (.num (decInt i)) = true := by
  simp only [wf, Bool.and_eq_true]; exact decInt_numOk i

theorem wf_valToJ (v : Val) (h : valValid v = true) : wf (valToJ v) = true := by
  cases v with
  | str s => simpa [valToJ, wf, valValid] using h
  | int i => simp only [valToJ]; exact wf_numInt i
  | bool b => simp [valToJ, wf]
  | strs l => simp only [valToJ]; exact wf_jStrs l h
  | obj kvs => simp [valValid] at h

theorem wfMembers_valsToJ (m : MapSV) (h : ∀ e ∈ m, entryValid e = true) : wfMembers (valsToJ m) = true := by
  induction m with
  | nil => rfl
  | cons e rest ih =>
    obtain ⟨k, v⟩ := e
    have he := h (k, v) (by simp)
    simp only [entryValid, Bool.and_eq_true] at he
    simp only [valsToJ, wfMembers, he.1, wf_valToJ v he.2, Bool.true_and]
    exact ih (fun x hx => h x (List.mem_cons_of_mem _ hx))

theorem wf_mapToJ (m : MapSV) (h : ∀ e ∈ m, entryValid e = true) : wf (mapToJ m) = true := by
  simp only [mapToJ, wf, wfMembers_sortMembers]
  exact wfMembers_valsToJ m h

theorem wfMembers_omitStr (k s : Str) (hk : ∀ c ∈ k, c < 128) (hs : validUtf8 s = true) :
    wfMembers (omitStr k s) = true := by
  unfold omitStr
  split
  · rfl
  · simp [wfMembers, wf, validUtf8_ascii k hk, hs]

theorem wfMembers_omitInt (k : Str) (i : Int) (hk : ∀ c ∈ k, c < 128) : wfMembers (omitInt k i) = true := by
  unfold omitInt
  split
  · rfl
  · simp [wfMembers, validUtf8_ascii k hk, wf_numInt i]

theorem wfMembers_omitBool (k : Str) (b : Bool) (hk : ∀ c ∈ k, c < 128) : wfMembers (omitBool k b) = true := by
  unfold omitBool
  split
  · simp [wfMembers, wf, validUtf8_ascii k hk]
  · rfl

/-- the JSON value of an exported record is well-formed when the chunk's strings are -/
theorem wf_exportedToJ (cfg : Config) (c : Chunk) (h : chunkValid c = true) :
    wf (exportedToJ (prepareChunkForExport cfg c)) = true := by
  simp only [chunkValid, Bool.and_eq_true] at h
  obtain ⟨⟨hid, htext⟩, hmeta⟩ := h
  have hm := hmeta
  simp only [metaValid, Bool.and_eq_true] at hm
  obtain ⟨⟨⟨⟨⟨h1, h2⟩, h3⟩, h4⟩, h5⟩, h6⟩ := hm
  have htext' : validUtf8 (if cfg.includeText = true then c.text else []) = true := by
    split
    · exact htext
    · exact Tabula.Split.validUtf8_nil
  simp only [exportedToJ, wf, wfMembers_append, prepareChunkForExport, Bool.and_eq_true]
  refine ⟨⟨⟨⟨⟨⟨⟨⟨⟨⟨⟨?_, ?_⟩, ?_⟩, ?_⟩, ?_⟩, ?_⟩, ?_⟩, ?_⟩, ?_⟩, ?_⟩, ?_⟩, ?_⟩
  · exact wfMembers_omitStr _ _ (by decide) hid
  · exact wfMembers_omitStr _ _ (by decide) htext'
  · split
    · rename_i md hmd
      split
      · rfl
      · simp only [wfMembers, Bool.and_true, Bool.and_eq_true]
        refine ⟨validUtf8_ascii _ (by decide), wf_mapToJ md ?_⟩
        intro e he
        by_cases hi : cfg.includeMetadata = true
        · simp only [hi, if_true, Option.some.injEq] at hmd
          rw [← hmd] at he
          exact chunkMetadataToMap_valid c.md hmeta e (mem_filterMetadata_chunk cfg c.md e he)
        · simp [hi] at hmd
    · rfl
  · exact wfMembers_omitStr _ _ (by decide) h1
  · exact wfMembers_omitInt _ _ (by decide)
  · exact wfMembers_omitInt _ _ (by decide)
  · exact wfMembers_omitInt _ _ (by decide)
  · exact wfMembers_omitStr _ _ (by decide) h3
  · by_cases hp : c.md.sectionPath.isEmpty = true
    · simp [hp, wfMembers]
    · simp [hp, wfMembers, validUtf8_ascii kSectionPath (by decide), wf_jStrs _ h2]
  · exact wfMembers_omitBool _ _ (by decide)
  · exact wfMembers_omitBool _ _ (by decide)
  · exact wfMembers_omitBool _ _ (by decide)

/-! ### reading members of the values built from struct fields -/

theorem getMember_omitStr (k k' s : Str) :
    getMember k (omitStr k' s) = if k' = k ∧ s.isEmpty = false then some (.str s) else none := by
  unfold omitStr
  by_cases hs : s.isEmpty = true
  · simp [hs, getMember]
  · by_cases hk : k' = k <;> simp [hs, hk, getMember]

theorem getMember_omitInt (k k' : Str) (i : Int) :
    getMember k (omitInt k' i) = if k' = k ∧ i ≠ 0 then some (.num (decInt i)) else none := by
  unfold omitInt
  by_cases hs : i = 0
  · simp [hs, getMember]
  · by_cases hk : k' = k <;> simp [hs, hk, getMember]

theorem getMember_omitBool (k k' : Str) (b : Bool) :
    getMember k (omitBool k' b) = if k' = k ∧ b = true then some (.bool true) else none := by
  unfold omitBool
  by_cases hs : b = true
  · by_cases hk : k' = k <;> simp [hs, hk, getMember]
  · simp [hs, getMember]

/-! ### vector-database values -/

/-- the JSON text of a float is a number token of the grammar (a property of the float printer,
checked on the op line; here a hypothesis on the tokens) -/
def tokOk (t : Str) : Bool := validNum t && t.all isNumChar

def embOk : Emb Str → Bool
  | none => true
  | some l => l.all tokOk

def embsOk (embs : List (Emb Str)) : Bool := embs.all embOk

theorem wfList_nums (l : List Str) (h : l.all tokOk = true) : wfList (l.map J.num) = true := by
  induction l with
  | nil => rfl
  | cons t rest ih =>
    simp only [List.all_cons, Bool.and_eq_true] at h
    have ht := h.1
    simp only [tokOk] at ht
    simp only [List.map_cons, wfList, wf, ht, Bool.true_and]
    exact ih h.2

theorem wf_embToJ (e : Emb Str) (h : embOk e = true) : wf (embToJ e) = true := by
  cases e with
  | none => rfl
  | some l => simp only [embToJ, wf]; exact wfList_nums l h

theorem embAt_ok (embs : List (Emb Str)) (h : embsOk embs = true) (i : Nat) : (embAt embs i).all tokOk = true := by
  unfold embAt
  cases hi : embs[i]? with
  | none => rfl
  | some e =>
    cases e with
    | none => rfl
    | some v =>
      have hm : some v ∈ embs := List.mem_of_getElem? hi
      exact List.all_eq_true.mp h (some v) hm

theorem entries_valid_of (l : MapSV) (h : ∀ e ∈ l, entryValid e = true) : ∀ e ∈ l, entryValid e = true := h

theorem pineconeMetadata_valid (c : Chunk) (h : chunkValid c = true) : ∀ e ∈ pineconeMetadata c, entryValid e = true := by
  simp only [chunkValid, metaValid, Bool.and_eq_true] at h
  obtain ⟨⟨_, htext⟩, ⟨⟨⟨⟨⟨h1, _⟩, h3⟩, _⟩, _⟩, _⟩⟩ := h
  intro e he
  simp only [pineconeMetadata, List.mem_cons, List.not_mem_nil, or_false] at he
  rcases he with he | he | he | he <;> subst he
  · exact entryValid_mk _ _ (by decide) htext
  · exact entryValid_mk _ _ (by decide) h1
  · exact entryValid_mk _ _ (by decide) rfl
  · exact entryValid_mk _ _ (by decide) h3

theorem chromaMetadata_valid (m : Meta) (h : metaValid m = true) : ∀ e ∈ chromaMetadata m, entryValid e = true := by
  simp only [metaValid, Bool.and_eq_true] at h
  obtain ⟨⟨⟨⟨⟨h1, _⟩, h3⟩, _⟩, _⟩, _⟩ := h
  intro e he
  simp only [chromaMetadata, List.mem_cons, List.not_mem_nil, or_false] at he
  rcases he with he | he | he | he <;> subst he
  · exact entryValid_mk _ _ (by decide) h1
  · exact entryValid_mk _ _ (by decide) rfl
  · exact entryValid_mk _ _ (by decide) h3
  · exact entryValid_mk _ _ (by decide) rfl

theorem weaviateProps_valid (c : Chunk) (h : chunkValid c = true) : ∀ e ∈ weaviateProps c, entryValid e = true := by
  simp only [chunkValid, metaValid, Bool.and_eq_true] at h
  obtain ⟨⟨_, htext⟩, ⟨⟨⟨⟨⟨h1, _⟩, h3⟩, _⟩, _⟩, _⟩⟩ := h
  intro e he
  simp only [weaviateProps, List.mem_cons, List.not_mem_nil, or_false] at he
  rcases he with he | he | he | he | he <;> subst he
  · exact entryValid_mk _ _ (by decide) htext
  · exact entryValid_mk _ _ (by decide) h1
  · exact entryValid_mk _ _ (by decide) rfl
  · exact entryValid_mk _ _ (by decide) h3
  · exact entryValid_mk _ _ (by decide) rfl

theorem wfList_map {α : Type} (f : α → J) (l : List α) (h : ∀ a ∈ l, wf (f a) = true) : wfList (l.map f) = true := by
  induction l with
  | nil => rfl
  | cons a rest ih =>
    simp only [List.map_cons, wfList, h a (by simp), Bool.true_and]
    exact ih (fun x hx => h x (List.mem_cons_of_mem _ hx))

theorem wf_pineconeRecordToJ (r : PineconeRecord Str) (hid : validUtf8 r.id = true)
    (hv : r.values.all tokOk = true) (hm : ∀ e ∈ r.metadata, entryValid e = true) :
    wf (pineconeRecordToJ r) = true := by
  simp only [pineconeRecordToJ, wf, wfMembers_append, wfMembers, Bool.and_true, Bool.and_eq_true]
  refine ⟨⟨⟨validUtf8_ascii _ (by decide), hid⟩, validUtf8_ascii _ (by decide), wfList_nums _ hv⟩, ?_⟩
  by_cases he : r.metadata.isEmpty = true
  · simp [he, wfMembers]
  · simp [he, wfMembers, validUtf8_ascii kMetadata (by decide), wf_mapToJ _ hm]

theorem wf_pineconeDoc (chunks : List Chunk) (embs : List (Emb Str))
    (hc : ∀ c ∈ chunks, chunkValid c = true) (he : embsOk embs = true) :
    wf (.obj [(kVectors, .arr ((pineconeVectors chunks embs).map pineconeRecordToJ))]) = true := by
  simp only [wf, wfMembers, Bool.and_true, Bool.and_eq_true]
  refine ⟨validUtf8_ascii _ (by decide), wfList_map _ _ ?_⟩
  intro r hr
  have h0 : pineconeVectors chunks embs = chunks.zipIdx.filterMap (pineconeOf embs) := pineconeLoop_eq embs chunks 0
  rw [h0] at hr
  obtain ⟨p, hp, hpr⟩ := List.mem_filterMap.mp hr
  have hcm : p.1 ∈ chunks := by
    have := List.mem_map_of_mem (f := Prod.fst) hp
    rwa [List.zipIdx_map_fst] at this
  have hcv := hc p.1 hcm
  unfold pineconeOf at hpr
  split at hpr
  · cases hpr
  · rename_i v vs hev
    injection hpr with hpr
    rw [← hpr]
    refine wf_pineconeRecordToJ _ ?_ ?_ (pineconeMetadata_valid p.1 hcv)
    · simp only [chunkValid, Bool.and_eq_true] at hcv; exact hcv.1.1
    · show (v :: vs).all tokOk = true
      rw [← hev]; exact embAt_ok embs he p.2

theorem wf_chromaDoc (chunks : List Chunk) (embs : List (Emb Str))
    (hc : ∀ c ∈ chunks, chunkValid c = true) (he : embsOk embs = true) :
    wf (chromaRecordToJ (chromaRecord chunks embs)) = true := by
  have hids : strsValid (chunks.map (·.id)) = true := by
    simp only [strsValid, List.all_map, List.all_eq_true]
    intro c hcm
    have := hc c hcm
    simp only [chunkValid, Bool.and_eq_true] at this
    exact this.1.1
  have hdocs : strsValid (chunks.map (·.text)) = true := by
    simp only [strsValid, List.all_map, List.all_eq_true]
    intro c hcm
    have := hc c hcm
    simp only [chunkValid, Bool.and_eq_true] at this
    exact this.1.2
  unfold chromaRecord
  rw [chromaLoop_eq]
  simp only [chromaRecordToJ, wf, wfMembers_append, wfMembers, Bool.and_true, Bool.and_eq_true]
  refine ⟨⟨⟨⟨validUtf8_ascii _ (by decide), wf_jStrs _ hids⟩, validUtf8_ascii _ (by decide), wf_jStrs _ hdocs⟩, ?_⟩, ?_⟩
  · by_cases hl : embs.length > 0
    · simp only [hl, if_true, wfMembers, Bool.and_true, Bool.and_eq_true]
      refine ⟨validUtf8_ascii _ (by decide), ?_⟩
      simp only [wf]
      exact wfList_map _ _ (fun e hem => wf_embToJ e (List.all_eq_true.mp he e hem))
    · simp [hl, wfMembers]
  · by_cases hm : (chunks.map (fun c => chromaMetadata c.md)).isEmpty = true
    · simp [hm, wfMembers]
    · simp only [hm, Bool.false_eq_true, if_false, wfMembers, Bool.and_true, Bool.and_eq_true]
      refine ⟨validUtf8_ascii _ (by decide), ?_⟩
      simp only [wf]
      refine wfList_map _ _ ?_
      intro m hm'
      obtain ⟨c, hcm, e⟩ := List.mem_map.mp hm'
      rw [← e]
      have := hc c hcm
      simp only [chunkValid, Bool.and_eq_true] at this
      exact wf_mapToJ _ (chromaMetadata_valid c.md this.2)

theorem wf_weaviateObjectToJ (o : WeaviateObject Str) (hcls : validUtf8 o.cls = true) (hid : validUtf8 o.id = true)
    (hp : ∀ e ∈ o.properties, entryValid e = true) (hv : o.vector.all tokOk = true) :
    wf (weaviateObjectToJ o) = true := by
  simp only [weaviateObjectToJ, wf, wfMembers_append, wfMembers, Bool.and_true, Bool.and_eq_true]
  refine ⟨⟨⟨⟨validUtf8_ascii _ (by decide), hcls⟩, wfMembers_omitStr _ _ (by decide) hid⟩,
    validUtf8_ascii _ (by decide), wf_mapToJ _ hp⟩, ?_⟩
  by_cases he : o.vector.isEmpty = true
  · simp [he, wfMembers]
  · simp [he, wfMembers, validUtf8_ascii kVector (by decide), wf, wfList_nums _ hv]

theorem wf_weaviateObjects (cls : Str) (chunks : List Chunk) (embs : List (Emb Str)) (hcls : validUtf8 cls = true)
    (hc : ∀ c ∈ chunks, chunkValid c = true) (he : embsOk embs = true) :
    ∀ o ∈ weaviateObjects cls chunks embs, wf (weaviateObjectToJ o) = true := by
  intro o ho
  have h0 : weaviateObjects cls chunks embs = chunks.zipIdx.map (weaviateOf cls embs) := weaviateLoop_eq cls embs chunks 0
  rw [h0] at ho
  obtain ⟨p, hp, e⟩ := List.mem_map.mp ho
  have hcm : p.1 ∈ chunks := by
    have := List.mem_map_of_mem (f := Prod.fst) hp
    rwa [List.zipIdx_map_fst] at this
  have hcv := hc p.1 hcm
  rw [← e]
  refine wf_weaviateObjectToJ _ hcls ?_ (weaviateProps_valid p.1 hcv) (embAt_ok embs he p.2)
  simp only [chunkValid, Bool.and_eq_true] at hcv
  exact hcv.1.1

end Tabula.Export
