import TabulaModel.Lemmas.ChunkLayoutMeta
/-!
Helper lemmas for property C12, layout-based chunker: what `buildSections` writes into
`Section.Path`, `PageStart` and `PageEnd`.

* `buildSections_labels`: every content element lies in a section whose `Path` is the chain of
  section-opening headings that enclose it, read off the whole history of such headings by
  `openSpec` (a heading is on the chain iff every later one is strictly deeper).
* `buildSections_pages`: for pages numbered from 1 upwards in non-decreasing order, every
  section's page range starts and ends on pages of the document and contains the page of every
  element of its content.
-/
namespace Tabula.ChunkLayout
open Tabula.Chunk

/-! ### the shape of one step -/

theorem openFlat_cons (f : Frame) (rest : List Frame) (done : List Sec) :
    openFlat (f :: rest) done = openFlat rest done ++ frameFlat f := by
  simp [openFlat, List.flatMap_append]

theorem openFlat_cons_leaf (f : Frame) (rest : List Frame) (done : List Sec) (h : f.children = []) :
    openFlat (f :: rest) done = openFlat rest done ++ [(f.info, f.content)] := by
  rw [openFlat_cons]; simp [frameFlat, h, flatForest]

def titles (stack : List Frame) : List Str := stack.map (·.info.title)

/-- level and title of every open section, innermost first -/
def levelTitles (stack : List Frame) : List H := stack.map fun f => (f.info.level, f.info.title)

theorem popFrames_levelTitles (lvl : Int) (stack : List Frame) (path : List Str) (done : List Sec) :
    levelTitles (popFrames lvl stack path done).1 =
      (levelTitles stack).dropWhile (fun e => decide (lvl ≤ e.1)) := by
  fun_induction popFrames lvl stack path done with
  | case1 => rfl
  | case2 path done f rest hlvl =>
    have : ¬ lvl ≤ f.info.level := by omega
    simp [levelTitles, this]
  | case3 path done f hlvl ih =>
    have : lvl ≤ f.info.level := by omega
    rw [ih]; simp [levelTitles, this]
  | case4 path done f hlvl g rest ih =>
    have : lvl ≤ f.info.level := by omega
    rw [ih]
    simp only [levelTitles, List.map_cons, List.dropWhile_cons (x := (f.info.level, f.info.title)), this,
      decide_true, if_true]

theorem popFrames_titles (lvl : Int) (stack : List Frame) (path : List Str) (done : List Sec) :
    path = titles stack → (popFrames lvl stack path done).2.1 = titles (popFrames lvl stack path done).1 := by
  fun_induction popFrames lvl stack path done with
  | case1 => intro h; exact h
  | case2 path done f rest hlvl => intro h; exact h
  | case3 path done f hlvl ih => intro h; apply ih; rw [h]; rfl
  | case4 path done f hlvl g rest ih => intro h; apply ih; rw [h]; rfl

/-- the branch of `stepHeading` for a section-opening heading, with projections -/
theorem stepHeading_major_eq (cfg : Cfg) (page : Int) (s : BState) (hd : LHeading)
    (hmaj : hd.level ≤ cfg.minHeadingLevel) :
    stepHeading cfg page s hd =
      (let s1 : BState := if (!s.pre.isEmpty && s.stack.isEmpty) = true then
          { s with done := s.done ++ [preambleSec s], pre := [] } else s
       let r := popFrames hd.level s1.stack s1.path s1.done
       { s1 with done := r.2.2, path := hd.text :: r.2.1,
                 stack := ⟨⟨hd.text, hd.level, (hd.text :: r.2.1).reverse, page, page⟩, [], []⟩ :: r.1 }) := by
  unfold stepHeading
  simp only [hmaj, if_true]

/-- a section-opening heading: the preamble is closed if it is the first, sections of the
same or a deeper level are closed, the new section is opened on what is left -/
theorem stepMajor_shape (cfg : Cfg) (page : Int) (s : BState) (hi : Inv s) (hd : LHeading)
    (hmaj : hd.level ≤ cfg.minHeadingLevel) (hpath : s.path = titles s.stack) :
    ∃ st' : List Frame,
      (stepHeading cfg page s hd).stack =
        ⟨⟨hd.text, hd.level, (hd.text :: titles st').reverse, page, page⟩, [], []⟩ :: st' ∧
      (stepHeading cfg page s hd).pre = [] ∧
      (stepHeading cfg page s hd).path = hd.text :: titles st' ∧
      (stepHeading cfg page s hd).preStart = s.preStart ∧
      (stepHeading cfg page s hd).preEnd = s.preEnd ∧
      levelTitles st' = (levelTitles s.stack).dropWhile (fun e => decide (hd.level ≤ e.1)) ∧
      openFlat (stepHeading cfg page s hd).stack (stepHeading cfg page s hd).done =
        openFlat s.stack s.done ++
          (if s.pre = [] then [] else [((⟨[], 0, [], s.preStart, s.preEnd⟩ : SecInfo), s.pre)]) ++
          [((⟨hd.text, hd.level, (hd.text :: titles st').reverse, page, page⟩ : SecInfo), [])] ∧
      (s.pre ≠ [] → s.stack = []) := by
  rw [stepHeading_major_eq cfg page s hd hmaj]
  by_cases hc : (!s.pre.isEmpty && s.stack.isEmpty) = true
  · -- the preamble is closed
    rw [if_pos hc]
    simp only [Bool.and_eq_true, Bool.not_eq_true', List.isEmpty_iff] at hc
    obtain ⟨hpre, hst⟩ := hc
    have hpre' : s.pre ≠ [] := by
      intro e; rw [e] at hpre; cases hpre
    have hd0 : s.done = [] := hi.done_empty hst
    have hp0 : s.path = [] := by rw [hpath, hst]; rfl
    refine ⟨[], ?_, rfl, ?_, rfl, rfl, ?_, ?_, fun _ => hst⟩
    · simp only [hst, popFrames, hp0, titles, List.map_nil]
    · simp only [hst, popFrames, hp0, titles, List.map_nil]
    · simp only [hst, levelTitles, List.map_nil, List.dropWhile_nil]
    · simp only [hst, popFrames, hp0, hd0, if_neg hpre', titles, List.map_nil]
      simp [openFlat, preambleSec, flatForest, flatTree, frameFlat]
  · rw [if_neg hc]
    have hpre : s.pre = [] := by
      by_cases hst : s.stack = []
      · simp only [hst, List.isEmpty_nil, Bool.and_true, Bool.not_eq_true', Bool.not_eq_false] at hc
        exact List.isEmpty_iff.mp hc
      · exact hi.pre_empty hst
    have hflat := popFrames_flat hd.level s.stack s.path s.done
    have hlt := popFrames_levelTitles hd.level s.stack s.path s.done
    have htt := popFrames_titles hd.level s.stack s.path s.done hpath
    simp only []
    generalize popFrames hd.level s.stack s.path s.done = r at hflat hlt htt ⊢
    refine ⟨r.1, ?_, hpre, ?_, trivial, trivial, hlt, ?_, fun h => absurd hpre h⟩
    · simp only [htt]
    · simp only [htt]
    · simp only [htt, if_pos hpre, List.append_nil]
      rw [openFlat_cons_leaf _ _ _ rfl, hflat]

/-! ### the section path -/

/-- the chain of section-opening headings that enclose the position behind the history `hist` -/
def chain (hist : List H) : List Str := (openSpec hist).map (·.2)

structure LabSt where
  out : List (CE × List Str)
  hist : List H

/-- the specification walks the document in canonical order, remembers every section-opening
heading it has passed and labels every content element with `chain` of that history -/
def labHeading (cfg : Cfg) (page : Int) (s : LabSt) (h : LHeading) : LabSt :=
  if h.level ≤ cfg.minHeadingLevel then { s with hist := s.hist ++ [(h.level, h.text)] }
  else { s with out := s.out ++ [(headingCE page h, chain s.hist)] }

def labContent (s : LabSt) (ces : List CE) : LabSt :=
  { s with out := s.out ++ ces.map fun ce => (ce, chain s.hist) }

def labPage (cfg : Cfg) (s : LabSt) (pg : LPage) : LabSt :=
  match pg.layout with
  | none => s
  | some lay =>
    labContent (labContent (lay.headings.foldl (labHeading cfg pg.number) s)
      (lay.paras.map (paraCE pg.number))) (lay.lists.map (listCE pg.number))

/-- every content element of the document, in canonical order, with the chain of
section-opening headings enclosing it -/
def labelled (cfg : Cfg) (d : LDoc) : List (CE × List Str) := (d.foldl (labPage cfg) ⟨[], []⟩).out

/-- the content elements of a list of sections, each with the `Path` of its section -/
def labelsOf (l : List (SecInfo × List CE)) : List (CE × List Str) :=
  l.flatMap fun x => x.2.map fun ce => (ce, x.1.path)

theorem labelsOf_append (a b : List (SecInfo × List CE)) : labelsOf (a ++ b) = labelsOf a ++ labelsOf b := by
  simp [labelsOf]

theorem labelsOf_fst (l : List (SecInfo × List CE)) : (labelsOf l).map (·.1) = secContents l := by
  induction l with
  | nil => rfl
  | cons x xs ih =>
    simp only [labelsOf, secContents, List.flatMap_cons, List.map_append, List.map_map] at ih ⊢
    rw [ih]
    congr 1
    exact List.map_id' _

/-- pushing a heading on the chain of open ones (innermost first) against the history -/
theorem stackRel_push (st hist : List H) (l : Int) (t : Str) (h : StackRel st hist) :
    StackRel ((l, t) :: st.dropWhile fun e => decide (l ≤ e.1)) (hist ++ [(l, t)]) := by
  unfold StackRel at *
  rw [openSpec_snoc, ← h]
  have hp : st.Pairwise (fun a b => b.1 < a.1) := by
    have := openSpec_pairwise hist
    rw [← h, List.pairwise_reverse] at this
    exact this
  rw [dropWhile_eq_filter_of_pairwise st l hp]
  simp [List.filter_reverse]

structure Rel (s : BState) (ls : LabSt) : Prop where
  inv : Inv s
  out : labelsOf (openFlat s.stack s.done) ++ s.pre.map (fun ce => (ce, ([] : List Str))) = ls.out
  levels : StackRel (levelTitles s.stack) ls.hist
  path : s.path = titles s.stack
  top : ∀ f rest, s.stack = f :: rest → f.info.path = chain ls.hist
  empty : s.stack = [] → ls.hist = []

theorem addContent_rel (s : BState) (ls : LabSt) (h : Rel s ls) (ce : CE) :
    Rel (addContent s ce) { ls with out := ls.out ++ [(ce, chain ls.hist)] } := by
  have hinv := (addContent_total s h.inv ce).2
  obtain ⟨done, stack, path, pre, ps, pe⟩ := s
  cases stack with
  | nil =>
    have hh : ls.hist = [] := h.empty rfl
    refine ⟨hinv, ?_, h.levels, h.path, fun f rest hfr => (by cases hfr), fun _ => hh⟩
    have := h.out
    simp only [addContent, List.map_append, List.map_cons, List.map_nil] at this ⊢
    rw [← List.append_assoc, this, hh]; rfl
  | cons f rest =>
    have hpre : pre = [] := h.inv.pre_empty (by simp)
    have hleaf : f.children = [] := h.inv.top_leaf f rest rfl
    have htop := h.top f rest rfl
    refine ⟨hinv, ?_, h.levels, h.path, ?_, fun hs => (by cases hs)⟩
    · have := h.out
      subst hpre
      simp only [addContent, List.map_nil, List.append_nil] at this ⊢
      rw [openFlat_cons_leaf _ _ _ hleaf, labelsOf_append] at this
      rw [openFlat_cons_leaf _ _ _ (by exact hleaf), labelsOf_append, ← this, ← htop]
      simp [labelsOf]
    · intro f' rest' hfr
      simp only [addContent, List.cons.injEq] at hfr
      rw [← hfr.1]; exact htop

theorem stepHeading_rel (cfg : Cfg) (page : Int) (s : BState) (ls : LabSt) (h : Rel s ls) (hd : LHeading) :
    Rel (stepHeading cfg page s hd) (labHeading cfg page ls hd) := by
  by_cases hmaj : hd.level ≤ cfg.minHeadingLevel
  · obtain ⟨st', hst, hpre, hpath, _, _, hlt, hflat, hps⟩ :=
      stepMajor_shape cfg page s h.inv hd hmaj h.path
    have hinv := (stepHeading_total cfg page s h.inv hd).2
    have hlev : StackRel (levelTitles (stepHeading cfg page s hd).stack) (ls.hist ++ [(hd.level, hd.text)]) := by
      rw [hst]
      have := stackRel_push _ _ hd.level hd.text h.levels
      rw [← hlt] at this
      exact this
    simp only [labHeading, hmaj, if_true]
    refine ⟨hinv, ?_, hlev, ?_, ?_, ?_⟩
    · rw [hflat, hpre, labelsOf_append, labelsOf_append, ← h.out]
      by_cases hp : s.pre = []
      · simp [hp, labelsOf]
      · have hs := hps hp
        have hd0 := h.inv.done_empty hs
        simp [hp, labelsOf, hs, hd0, openFlat, flatForest]
    · rw [hpath, hst]; rfl
    · intro f rest hfr
      rw [hst] at hfr
      simp only [List.cons.injEq] at hfr
      rw [← hfr.1]
      unfold StackRel at hlev
      rw [hst] at hlev
      simp only [chain, ← hlev, levelTitles, titles, List.map_cons, List.reverse_cons, List.map_append,
        List.map_reverse, List.map_map]
      rfl
    · intro hs; rw [hst] at hs; cases hs
  · have : labHeading cfg page ls hd = { ls with out := ls.out ++ [(headingCE page hd, chain ls.hist)] } := by
      simp [labHeading, hmaj]
    rw [this]
    have hs : stepHeading cfg page s hd = addContent s (headingCE page hd) := by
      simp [stepHeading, hmaj, headingCE]
    rw [hs]
    exact addContent_rel s ls h _

theorem headings_rel (cfg : Cfg) (page : Int) (hs : List LHeading) (s : BState) (ls : LabSt) (h : Rel s ls) :
    Rel (hs.foldl (stepHeading cfg page) s) (hs.foldl (labHeading cfg page) ls) := by
  induction hs generalizing s ls with
  | nil => exact h
  | cons x xs ih => exact ih _ _ (stepHeading_rel cfg page s ls h x)

theorem addAll_rel {α} (f : α → CE) (xs : List α) (s : BState) (ls : LabSt) (h : Rel s ls) :
    Rel (xs.foldl (fun s x => addContent s (f x)) s) (labContent ls (xs.map f)) := by
  induction xs generalizing s ls with
  | nil => simpa [labContent] using h
  | cons x xs ih =>
    have := ih _ _ (addContent_rel s ls h (f x))
    simpa [labContent, List.append_assoc] using this

theorem stepPage_rel (cfg : Cfg) (s : BState) (ls : LabSt) (h : Rel s ls) (pg : LPage) :
    Rel (stepPage cfg s pg) (labPage cfg ls pg) := by
  unfold stepPage labPage
  cases pg.layout with
  | none => exact h
  | some lay =>
    exact addAll_rel (listCE pg.number) lay.lists _ _
      (addAll_rel (paraCE pg.number) lay.paras _ _ (headings_rel cfg pg.number lay.headings s ls h))

theorem pages_rel (cfg : Cfg) (d : LDoc) (s : BState) (ls : LabSt) (h : Rel s ls) :
    Rel (d.foldl (stepPage cfg) s) (d.foldl (labPage cfg) ls) := by
  induction d generalizing s ls with
  | nil => exact h
  | cons pg pgs ih => exact ih _ _ (stepPage_rel cfg s ls h pg)

theorem rel_init : Rel ⟨[], [], [], [], 0, 0⟩ ⟨[], []⟩ where
  inv := ⟨fun hne => absurd rfl hne, fun f rest hfr => (by cases hfr), fun _ => rfl⟩
  out := rfl
  levels := rfl
  path := rfl
  top := fun f rest hfr => by cases hfr
  empty := fun _ => rfl

/-- what `buildSections` returns, given the final loop state -/
theorem buildSections_flat (cfg : Cfg) (d : LDoc) :
    let s := d.foldl (stepPage cfg) ⟨[], [], [], [], 0, 0⟩
    flatForest (buildSections cfg d) = openFlat s.stack s.done ++
      (if s.pre = [] then [] else [((⟨[], 0, [], s.preStart, s.preEnd⟩ : SecInfo), s.pre)]) ∧
    (s.pre ≠ [] → s.stack = [] ∧ s.done = []) := by
  have hi := (pages_total cfg d _ rel_init.inv).2
  unfold buildSections
  generalize d.foldl (stepPage cfg) ⟨[], [], [], [], 0, 0⟩ = s at hi
  simp only
  by_cases hp : s.pre = []
  · refine ⟨?_, fun h => absurd hp h⟩
    simp only [hp, List.isEmpty_nil, Bool.not_true, Bool.false_and, Bool.false_eq_true, if_false, if_true,
      List.append_nil]
    exact unwind_flat _ _
  · have hst : s.stack = [] := by
      by_cases hs : s.stack = []
      · exact hs
      · exact absurd (hi.pre_empty hs) hp
    have hd : s.done = [] := hi.done_empty hst
    refine ⟨?_, fun _ => ⟨hst, hd⟩⟩
    have hu : unwind s.stack s.done = [] := by rw [hst, hd]; simp [unwind]
    have hne : s.pre.isEmpty = false := by
      cases hpe : s.pre with
      | nil => exact absurd hpe hp
      | cons a b => rfl
    simp only [hu, hne, Bool.not_false, List.isEmpty_nil, Bool.and_self, if_true, List.nil_append, hp, if_false]
    simp [hst, hd, openFlat, preambleSec, flatForest, flatTree]

/-- **`Section.Path` is the chain of enclosing headings**, for every content element -/
theorem buildSections_labels (cfg : Cfg) (d : LDoc) :
    labelsOf (flatForest (buildSections cfg d)) = labelled cfg d := by
  have hr := pages_rel cfg d _ _ rel_init
  obtain ⟨hf, _⟩ := buildSections_flat cfg d
  rw [hf, labelsOf_append]
  unfold labelled
  rw [← hr.out]
  congr 1
  split
  · rename_i hp; simp [hp, labelsOf]
  · simp [labelsOf]

theorem labelled_fst (cfg : Cfg) (d : LDoc) : (labelled cfg d).map (·.1) = canon cfg d := by
  rw [← buildSections_labels, labelsOf_fst, buildSections_contents]

/-! ### the page range of a section -/

/-- the page range of a section starts and ends on pages of the document (`ps`) and contains
the page of every element of the section's content -/
def SecPagesOK (ps : List Int) (x : SecInfo × List CE) : Prop :=
  x.1.pageStart ∈ ps ∧ x.1.pageEnd ∈ ps ∧ x.1.pageStart ≤ x.1.pageEnd ∧
  ∀ ce ∈ x.2, x.1.pageStart ≤ ce.page ∧ ce.page ≤ x.1.pageEnd

def preInfo (s : BState) : SecInfo := ⟨[], 0, [], s.preStart, s.preEnd⟩

/-- invariant of `buildSections` while pages are numbered upwards; `b` is the number of the
last page seen -/
structure PInv (ps : List Int) (b : Int) (s : BState) : Prop where
  secs : ∀ x ∈ openFlat s.stack s.done, SecPagesOK ps x ∧ x.1.pageEnd ≤ b
  pre : s.pre ≠ [] → SecPagesOK ps (preInfo s, s.pre) ∧ s.preEnd ≤ b ∧ 1 ≤ s.preStart
  fresh : s.pre = [] → s.stack = [] → s.preStart = 0

theorem PInv.mono {ps : List Int} {b b' : Int} {s : BState} (h : PInv ps b s) (hb : b ≤ b') : PInv ps b' s where
  secs := fun x hx => ⟨(h.secs x hx).1, Int.le_trans (h.secs x hx).2 hb⟩
  pre := fun hp => ⟨(h.pre hp).1, Int.le_trans (h.pre hp).2.1 hb, (h.pre hp).2.2⟩
  fresh := h.fresh

theorem addContent_pinv (ps : List Int) (b : Int) (s : BState) (hi : Inv s) (h : PInv ps b s) (ce : CE)
    (hmem : ce.page ∈ ps) (hb : b ≤ ce.page) (h1 : 1 ≤ ce.page) : PInv ps ce.page (addContent s ce) := by
  obtain ⟨done, stack, path, pre, pst, pen⟩ := s
  cases stack with
  | nil =>
    have hm := h.mono hb
    refine ⟨hm.secs, fun _ => ?_, fun hp => ?_⟩
    · by_cases hp : pre = []
      · have h0 : pst = 0 := h.fresh hp rfl
        subst hp h0
        simp only [addContent, preInfo, SecPagesOK, List.nil_append, List.mem_singleton]
        refine ⟨⟨by simpa using hmem, hmem, by simp, ?_⟩, Int.le_refl _, by simpa using h1⟩
        intro c hc; subst hc; simp
      · obtain ⟨⟨m1, _, o1, c1⟩, e1, s1⟩ := h.pre hp
        simp only [preInfo] at m1 o1 c1 e1 s1
        have hne : (pst == 0) = false := by
          have : pst ≠ 0 := by omega
          simpa using this
        simp only [addContent, preInfo, SecPagesOK, hne, Bool.false_eq_true, if_false]
        refine ⟨⟨m1, hmem, by omega, ?_⟩, Int.le_refl _, s1⟩
        intro c hc
        rcases List.mem_append.mp hc with hc | hc
        · have := c1 c hc; omega
        · simp only [List.mem_singleton] at hc; subst hc; omega
    · simp [addContent] at hp
  | cons f rest =>
    have hleaf : f.children = [] := hi.top_leaf f rest rfl
    have hpre : pre = [] := hi.pre_empty (by simp)
    refine ⟨?_, fun hp => absurd hpre (by simpa [addContent] using hp), fun _ hs => by simp [addContent] at hs⟩
    have hold := h.secs
    simp only [addContent] at hold ⊢
    rw [openFlat_cons_leaf _ _ _ hleaf] at hold
    rw [openFlat_cons_leaf _ _ _ (by exact hleaf)]
    intro x hx
    rcases List.mem_append.mp hx with hx | hx
    · have := hold x (List.mem_append.mpr (Or.inl hx))
      exact ⟨this.1, Int.le_trans this.2 hb⟩
    · simp only [List.mem_singleton] at hx
      subst hx
      obtain ⟨⟨m1, _, o1, c1⟩, e1⟩ := hold (f.info, f.content) (List.mem_append.mpr (Or.inr (List.mem_singleton.mpr rfl)))
      simp only at m1 o1 c1 e1
      refine ⟨⟨m1, hmem, by simp only; omega, ?_⟩, Int.le_refl _⟩
      intro c hc
      simp only at hc ⊢
      rcases List.mem_append.mp hc with hc | hc
      · have := c1 c hc; omega
      · simp only [List.mem_singleton] at hc; subst hc; omega

theorem stepHeading_pinv (cfg : Cfg) (ps : List Int) (b page : Int) (s : BState) (ls : LabSt) (hr : Rel s ls)
    (h : PInv ps b s) (hd : LHeading) (hmem : page ∈ ps) (hb : b ≤ page) (h1 : 1 ≤ page) :
    PInv ps page (stepHeading cfg page s hd) := by
  by_cases hmaj : hd.level ≤ cfg.minHeadingLevel
  · obtain ⟨st', hst, hpre, _, _, _, _, hflat, hps⟩ := stepMajor_shape cfg page s hr.inv hd hmaj hr.path
    refine ⟨?_, fun hp => absurd hpre hp, fun _ hs => by rw [hst] at hs; cases hs⟩
    rw [hflat]
    intro x hx
    rcases List.mem_append.mp hx with hx | hx
    · rcases List.mem_append.mp hx with hx | hx
      · have := h.secs x hx
        exact ⟨this.1, Int.le_trans this.2 hb⟩
      · by_cases hp : s.pre = []
        · simp [hp] at hx
        · simp only [hp, if_false, List.mem_singleton] at hx
          subst hx
          obtain ⟨k1, k2, _⟩ := h.pre hp
          exact ⟨k1, Int.le_trans k2 hb⟩
    · simp only [List.mem_singleton] at hx
      subst hx
      exact ⟨⟨hmem, hmem, Int.le_refl _, fun c hc => by cases hc⟩, Int.le_refl _⟩
  · have hs : stepHeading cfg page s hd = addContent s (headingCE page hd) := by
      simp [stepHeading, hmaj, headingCE]
    rw [hs]
    exact addContent_pinv ps b s hr.inv h (headingCE page hd) hmem hb h1

theorem headings_pinv (cfg : Cfg) (ps : List Int) (page : Int) (hs : List LHeading) (b : Int) (s : BState)
    (ls : LabSt) (hr : Rel s ls) (h : PInv ps b s) (hmem : page ∈ ps) (hb : b ≤ page) (h1 : 1 ≤ page) :
    PInv ps page (hs.foldl (stepHeading cfg page) s) := by
  induction hs generalizing s ls b with
  | nil => exact h.mono hb
  | cons x xs ih =>
    exact ih page _ _ (stepHeading_rel cfg page s ls hr x)
      (stepHeading_pinv cfg ps b page s ls hr h x hmem hb h1) (Int.le_refl _)

theorem addAll_pinv {α} (f : α → CE) (ps : List Int) (page : Int) (hf : ∀ x, (f x).page = page) (xs : List α)
    (b : Int) (s : BState) (ls : LabSt) (hr : Rel s ls) (h : PInv ps b s) (hmem : page ∈ ps) (hb : b ≤ page)
    (h1 : 1 ≤ page) : PInv ps page (xs.foldl (fun s x => addContent s (f x)) s) := by
  induction xs generalizing s ls b with
  | nil => exact h.mono hb
  | cons x xs ih =>
    have hx := addContent_pinv ps b s hr.inv h (f x) (by rw [hf]; exact hmem) (by rw [hf]; exact hb) (by rw [hf]; exact h1)
    rw [hf] at hx
    exact ih page _ _ (addContent_rel s ls hr (f x)) hx (Int.le_refl _)

theorem stepPage_pinv (cfg : Cfg) (ps : List Int) (b : Int) (s : BState) (ls : LabSt) (hr : Rel s ls)
    (h : PInv ps b s) (pg : LPage) (hmem : pg.number ∈ ps) (hb : b ≤ pg.number) (h1 : 1 ≤ pg.number) :
    PInv ps pg.number (stepPage cfg s pg) := by
  unfold stepPage
  cases pg.layout with
  | none => exact h.mono hb
  | some lay =>
    have r1 := headings_rel cfg pg.number lay.headings s ls hr
    have p1 := headings_pinv cfg ps pg.number lay.headings b s ls hr h hmem hb h1
    have r2 := addAll_rel (paraCE pg.number) lay.paras _ _ r1
    have p2 := addAll_pinv (paraCE pg.number) ps pg.number (fun _ => rfl) lay.paras _ _ _ r1 p1 hmem (Int.le_refl _) h1
    exact addAll_pinv (listCE pg.number) ps pg.number (fun _ => rfl) lay.lists _ _ _ r2 p2 hmem (Int.le_refl _) h1

/-- page numbers start at 1 or above and never decrease -/
def AscFrom : Int → LDoc → Prop
  | _, [] => True
  | b, pg :: pgs => b ≤ pg.number ∧ 1 ≤ pg.number ∧ AscFrom pg.number pgs

theorem pages_pinv (cfg : Cfg) (ps : List Int) (d : LDoc) (b : Int) (s : BState) (ls : LabSt) (hr : Rel s ls)
    (h : PInv ps b s) (hsub : ∀ pg ∈ d, pg.number ∈ ps) (hasc : AscFrom b d) :
    ∃ b', PInv ps b' (d.foldl (stepPage cfg) s) := by
  induction d generalizing s ls b with
  | nil => exact ⟨b, h⟩
  | cons pg pgs ih =>
    obtain ⟨hb, h1, hrest⟩ := hasc
    exact ih pg.number _ _ (stepPage_rel cfg s ls hr pg)
      (stepPage_pinv cfg ps b s ls hr h pg (hsub pg (List.mem_cons_self ..)) hb h1)
      (fun q hq => hsub q (List.mem_cons_of_mem _ hq)) hrest

/-- **every section's page range covers the pages of its content** and lies on pages of the
document, when pages are numbered from 1 upwards in non-decreasing order -/
theorem buildSections_pages (cfg : Cfg) (d : LDoc) (b : Int) (hasc : AscFrom b d) :
    ∀ x ∈ flatForest (buildSections cfg d), SecPagesOK (d.map (·.number)) x := by
  have h0 : PInv (d.map (·.number)) b ⟨[], [], [], [], 0, 0⟩ :=
    ⟨fun x hx => by simp [openFlat, flatForest] at hx, fun hp => absurd rfl hp, fun _ _ => rfl⟩
  obtain ⟨b', hp⟩ := pages_pinv cfg (d.map (·.number)) d b _ _ rel_init h0
    (fun pg hpg => List.mem_map.mpr ⟨pg, hpg, rfl⟩) hasc
  obtain ⟨hf, _⟩ := buildSections_flat cfg d
  rw [hf]
  intro x hx
  rcases List.mem_append.mp hx with hx | hx
  · exact (hp.secs x hx).1
  · split at hx
    · cases hx
    · rename_i hne
      simp only [List.mem_singleton] at hx
      subst hx
      exact (hp.pre hne).1

/-! ### one group of chunks per section, stamped with the section's metadata -/

/-- `gs` are the chunks of the sections `l`, section by section: every chunk of a group carries
its section's path and page range, and the group's texts are the section's content -/
def GroupsOK (cfg : Cfg) : List (SecInfo × List CE) → List (List Chunk) → Prop
  | [], [] => True
  | x :: xs, g :: gs =>
    ((∀ c ∈ g, c.path = x.1.path ∧ c.pageStart = x.1.pageStart ∧ c.pageEnd = x.1.pageEnd) ∧
      strip (textsOf g) = strip (ceTexts (emitOrder cfg x.2))) ∧ GroupsOK cfg xs gs
  | _, _ => False

theorem secGroups_ok (cfg : Cfg) (l : List (SecInfo × List CE)) (h : ∀ x ∈ l, ∀ e ∈ x.2, SentsOK cfg e)
    (idx : Nat) : GroupsOK cfg l (secGroups cfg l idx) := by
  induction l generalizing idx with
  | nil => trivial
  | cons x xs ih =>
    obtain ⟨info, content⟩ := x
    simp only [secGroups, GroupsOK]
    refine ⟨⟨?_, ?_⟩, ih (fun y hy => h y (List.mem_cons_of_mem _ hy)) _⟩
    · intro c hc
      exact ((chunkSection_ok cfg info content idx).2 c hc).2
    · exact sectionCoverO cfg info content (h (info, content) (List.mem_cons_self ..)) idx

/-- when no section yields a chunk (the case in which `Chunk` falls back on
`chunkByParagraphs`) the document has no content, white space aside -/
theorem forest_empty_blank (cfg : Cfg) (d : LDoc) (h : ∀ e ∈ canon cfg d, SentsOK cfg e)
    (he : chunkForest cfg (buildSections cfg d) 0 = []) : strip (ceTexts (canon cfg d)) = [] := by
  have hf : strip (textsOf (chunkForest cfg (buildSections cfg d) 0)) = strip (ceTexts (emitted cfg d)) := by
    rw [chunkForest_flat, chunkFlat_coverO]
    · rfl
    · intro x hx
      apply sectionCoverO
      intro e hee
      apply h
      rw [← buildSections_contents]
      exact List.mem_flatMap.mpr ⟨x, hx, hee⟩
  rw [he] at hf
  exact ceTexts_perm_strip_nil (emitted_perm cfg d).symm hf.symm

end Tabula.ChunkLayout
