import TabulaModel.Lemmas.XrefDeepResolver
import TabulaModel.Model.XrefFile
/-!
# Every parsed object has dictionaries with pairwise distinct keys

`parseDict` (core/parser.go) fills a Go map: `dict[key] = value` (`dictSet`) replaces the value of
a key that is already there. So whatever `ParseObject` returns has dictionaries with pairwise
distinct keys at every level (`ObjWF`), and so has every value a lookup on a file yields
(`getObjectB_wf`): the hypothesis `WF` of the resolver theorems (`Lemmas/XrefDeepResolver.lean`)
holds of the objects of any file.

* `dictSet_keys_nodup`, `dictSet_values` - map assignment keeps the keys distinct;
* `parseObject_wf` - the three mutually recursive parser functions; `coreParse_wf`;
* `ofObj_wf`, `ofPVal_obj_wf`, `ofPVal_stream_wf` - `ObjWF` is `WF` of the API value;
* `parseIndirect_wf`, `uncompressedAt_wf`, `memberAtI_wf`, `getObjectB_wf`, `lookup_wf`.

Core Lean only.
-/
namespace Tabula.XrefR
open Tabula.Pdf Tabula.Reader Tabula.XrefFile

/-- all dictionaries of a parser object have pairwise distinct keys -/
inductive ObjWF : Obj → Prop
  | null : ObjWF .null
  | bool (b : Bool) : ObjWF (.bool b)
  | int (i : Int) : ObjWF (.int i)
  | real (n : Bool) (m s : Nat) : ObjWF (.real n m s)
  | str (s : List Nat) : ObjWF (.str s)
  | name (s : List Nat) : ObjWF (.name s)
  | arr {xs : List Obj} : (∀ e ∈ xs, ObjWF e) → ObjWF (.arr xs)
  | dict {kv : List (List Nat × Obj)} : (kv.map Prod.fst).Nodup → (∀ e ∈ kv.map Prod.snd, ObjWF e) →
      ObjWF (.dict kv)
  | ref (n g : Int) : ObjWF (.ref n g)

namespace ParsedWF

/-! ## `dict[key] = value` -/

theorem dictSet_keys (acc : List (List Nat × Obj)) (k : List Nat) (v : Obj) :
    ∀ x ∈ (dictSet acc k v).map Prod.fst, x = k ∨ x ∈ acc.map Prod.fst := by
  induction acc with
  | nil => intro x hx; simp only [dictSet, List.map_cons, List.map_nil, List.mem_singleton] at hx; exact .inl hx
  | cons a r ih =>
    obtain ⟨k', v'⟩ := a
    intro x hx
    simp only [dictSet] at hx
    split at hx
    · next hk =>
      simp only [List.map_cons, List.mem_cons] at hx ⊢
      rcases hx with hx | hx
      · exact .inl hx
      · exact .inr (.inr hx)
    · simp only [List.map_cons, List.mem_cons] at hx ⊢
      rcases hx with hx | hx
      · exact .inr (.inl hx)
      · rcases ih x hx with h | h
        · exact .inl h
        · exact .inr (.inr h)

end ParsedWF

open ParsedWF

/-- map assignment keeps the keys pairwise distinct -/
theorem dictSet_keys_nodup (acc : List (List Nat × Obj)) (k : List Nat) (v : Obj)
    (h : (acc.map Prod.fst).Nodup) : ((dictSet acc k v).map Prod.fst).Nodup := by
  induction acc with
  | nil => simp [dictSet]
  | cons a r ih =>
    obtain ⟨k', v'⟩ := a
    simp only [List.map_cons, List.nodup_cons] at h
    simp only [dictSet]
    split
    · next hk =>
      simp only [List.map_cons, List.nodup_cons]
      exact ⟨hk ▸ h.1, h.2⟩
    · next hk =>
      simp only [List.map_cons, List.nodup_cons]
      refine ⟨?_, ih h.2⟩
      intro hm
      rcases dictSet_keys r k v k' hm with e | e
      · exact hk e
      · exact h.1 e

/-- the values after a map assignment: the new value, or values there before -/
theorem dictSet_values (acc : List (List Nat × Obj)) (k : List Nat) (v : Obj) :
    ∀ x ∈ (dictSet acc k v).map Prod.snd, x = v ∨ x ∈ acc.map Prod.snd := by
  induction acc with
  | nil => intro x hx; simp only [dictSet, List.map_cons, List.map_nil, List.mem_singleton] at hx; exact .inl hx
  | cons a r ih =>
    obtain ⟨k', v'⟩ := a
    intro x hx
    simp only [dictSet] at hx
    split at hx
    · simp only [List.map_cons, List.mem_cons] at hx ⊢
      rcases hx with hx | hx
      · exact .inl hx
      · exact .inr (.inr hx)
    · simp only [List.map_cons, List.mem_cons] at hx ⊢
      rcases hx with hx | hx
      · exact .inr (.inl hx)
      · rcases ih x hx with h | h
        · exact .inl h
        · exact .inr (.inr h)

/-! ## the parser -/

theorem parseReal_wf (v : List Nat) (o : Obj) (h : parseReal v = some o) : ObjWF o := by
  unfold parseReal at h
  dsimp only at h
  repeat' split at h
  all_goals (cases h <;> exact .real _ _ _)

theorem parseNumber_wf (s : PState) (v : List Nat) (o : Obj) (s' : PState)
    (h : parseNumber s v = .ok (o, s')) : ObjWF o := by
  unfold parseNumber at h
  repeat' (first | split at h | (dsimp only at h; split at h))
  all_goals (cases h <;> first | exact .int _ | exact .ref _ _ | exact parseReal_wf _ _ (by assumption))

/-- whatever `ParseObject` returns has dictionaries with pairwise distinct keys; the two loops
keep the property of what they have collected -/
theorem parseObject_wf (f : Nat) :
    (∀ d s o s', parseObject f d s = .ok (o, s') → ObjWF o) ∧
    (∀ d s acc o s', parseArray f d s acc = .ok (o, s') → (∀ e ∈ acc, ObjWF e) → ObjWF o) ∧
    (∀ d s acc o s', parseDict f d s acc = .ok (o, s') → (acc.map Prod.fst).Nodup →
      (∀ e ∈ acc.map Prod.snd, ObjWF e) → ObjWF o) := by
  induction f with
  | zero =>
    refine ⟨?_, ?_, ?_⟩
    · intro d s o s' h; rw [parseObject] at h; cases h
    · intro d s acc o s' h; rw [parseArray] at h; cases h
    · intro d s acc o s' h; rw [parseDict] at h; cases h
  | succ f ih =>
    obtain ⟨ihO, ihA, ihD⟩ := ih
    refine ⟨?_, ?_, ?_⟩
    · intro d s o s' h
      rw [parseObject] at h
      cases hc : s.cur with
      | none => rw [hc] at h; cases h
      | some t =>
        rw [hc] at h
        cases t with
        | eof => dsimp only at h; split at h <;> cases h
        | comment v => cases h
        | keyword v =>
          dsimp only at h
          repeat' split at h
          all_goals (cases h <;> first | exact .null | exact .bool _)
        | integer v => exact parseNumber_wf s v o s' h
        | real v =>
          dsimp only at h
          split at h
          · cases h
          · next o' ho => cases h; exact parseReal_wf v _ ho
        | str v => cases h; exact .str _
        | hexstr v => cases h; exact .str _
        | name v => cases h; exact .name _
        | arrStart =>
          dsimp only at h
          split at h
          · cases h
          · exact ihA (d + 1) s.next [] o s' h (by intro e he; cases he)
        | arrEnd => cases h
        | dictStart =>
          dsimp only at h
          split at h
          · cases h
          · exact ihD (d + 1) s.next [] o s' h List.nodup_nil (by intro e he; cases he)
        | dictEnd => cases h
        | ref => cases h
    · intro d s acc o s' h hacc
      rw [parseArray] at h
      cases hc : s.cur with
      | none => rw [hc] at h; cases h
      | some t =>
        rw [hc] at h
        have step : (match parseObject f d s with
            | .error _ => (.error .err : Except PErr (Obj × PState))
            | .ok (o, s') => parseArray f d s' (acc ++ [o])) = .ok (o, s') → ObjWF o := by
          intro h
          split at h
          · cases h
          · next o1 s1 h1 =>
            have a := ihO d s o1 s1 h1
            refine ihA d s1 (acc ++ [o1]) o s' h ?_
            intro e he
            rcases List.mem_append.1 he with he | he
            · exact hacc e he
            · rw [List.mem_singleton] at he; exact he ▸ a
        cases t with
        | arrEnd => cases h; exact .arr hacc
        | eof => cases h
        | _ => exact step h
    · intro d s acc o s' h hk hv
      rw [parseDict] at h
      cases hc : s.cur with
      | none => rw [hc] at h; cases h
      | some t =>
        rw [hc] at h
        cases t with
        | dictEnd => cases h; exact .dict hk hv
        | name k =>
          dsimp only at h
          split at h
          · cases h
          · next o1 s1 h1 =>
            have a := ihO d s.next o1 s1 h1
            refine ihD d s1 _ o s' h (dictSet_keys_nodup acc k o1 hk) ?_
            intro e he
            rcases dictSet_values acc k o1 e he with he | he
            · exact he ▸ a
            · exact hv e he
        | _ => cases h

/-- `core.NewParser(r).ParseObject()` returns objects whose dictionaries have distinct keys -/
theorem coreParse_wf (inp : List Nat) (o : Obj) (s : PState) (h : coreParse inp = .ok (o, s)) :
    ObjWF o :=
  (parseObject_wf _).1 0 _ o s h

/-! ## from the parser's objects to the API's -/

theorem ofKVs_keys : ∀ kv : List (List Nat × Obj), (ofKVs kv).map Prod.fst = kv.map Prod.fst
  | [] => by simp [ofKVs]
  | (k, v) :: r => by simp only [ofKVs, List.map_cons, ofKVs_keys r]

theorem ofObjs_mem : ∀ (xs : List Obj) (e : DObj), e ∈ ofObjs xs → ∃ x ∈ xs, e = ofObj x
  | [], e, h => by simp [ofObjs] at h
  | x :: xs, e, h => by
    simp only [ofObjs, List.mem_cons] at h
    rcases h with h | h
    · exact ⟨x, List.mem_cons_self, h⟩
    · obtain ⟨y, hy, he⟩ := ofObjs_mem xs e h
      exact ⟨y, List.mem_cons_of_mem _ hy, he⟩

theorem ofKVs_values_mem : ∀ (kv : List (List Nat × Obj)) (e : DObj), e ∈ (ofKVs kv).map Prod.snd →
    ∃ x ∈ kv.map Prod.snd, e = ofObj x
  | [], e, h => by simp [ofKVs] at h
  | (k, v) :: r, e, h => by
    simp only [ofKVs, List.map_cons, List.mem_cons] at h
    rcases h with h | h
    · exact ⟨v, by simp, h⟩
    · obtain ⟨y, hy, he⟩ := ofKVs_values_mem r e h
      exact ⟨y, by simp only [List.map_cons, List.mem_cons]; exact .inr hy, he⟩

mutual
/-- distinct keys in the parser's object: distinct keys in the API value -/
theorem ofObj_wf : ∀ o : Obj, ObjWF o → WF (ofObj o)
  | .null, _ => by rw [ofObj]; exact .null
  | .bool b, _ => by rw [ofObj]; exact .bool b
  | .int i, _ => by rw [ofObj]; exact .int i
  | .real n m s, _ => by rw [ofObj]; exact .real n m s
  | .str s, _ => by rw [ofObj]; exact .str s
  | .name s, _ => by rw [ofObj]; exact .name s
  | .ref n g, _ => by rw [ofObj]; exact .ref n g
  | .arr xs, h => by
    rw [ofObj]
    cases h with
    | arr hx => exact .arr (ofObjs_wf xs hx)
  | .dict kv, h => by
    rw [ofObj]
    cases h with
    | dict hk hv => exact .dict (by rw [ofKVs_keys]; exact hk) (ofKVs_wf kv hv)
theorem ofObjs_wf : ∀ xs : List Obj, (∀ e ∈ xs, ObjWF e) → ∀ e ∈ ofObjs xs, WF e
  | [], _, e, he => by simp [ofObjs] at he
  | x :: xs, h, e, he => by
    simp only [ofObjs, List.mem_cons] at he
    rcases he with he | he
    · rw [he]; exact ofObj_wf x (h x List.mem_cons_self)
    · exact ofObjs_wf xs (fun e he => h e (List.mem_cons_of_mem _ he)) e he
theorem ofKVs_wf : ∀ kv : List (List Nat × Obj), (∀ e ∈ kv.map Prod.snd, ObjWF e) →
    ∀ e ∈ (ofKVs kv).map Prod.snd, WF e
  | [], _, e, he => by simp [ofKVs] at he
  | (k, v) :: r, h, e, he => by
    simp only [ofKVs, List.map_cons, List.mem_cons] at he
    rcases he with he | he
    · rw [he]; exact ofObj_wf v (h v (by simp))
    · exact ofKVs_wf r (fun e he => h e (by simp only [List.map_cons, List.mem_cons]; exact .inr he)) e he
end

theorem ofPVal_obj_wf (o : Obj) (h : ObjWF o) : WF (ofPVal (.obj o)) := by
  rw [ofPVal]; exact ofObj_wf o h

/-- a stream whose dictionary is a well-formed parsed dictionary -/
theorem ofPVal_stream_wf (kv : List (List Nat × Obj)) (data : List Nat) (h : ObjWF (.dict kv)) :
    WF (ofPVal (.stream kv data)) := by
  rw [ofPVal]
  cases h with
  | dict hk hv => exact .stream (by rw [ofKVs_keys]; exact hk) (ofKVs_wf kv hv)

/-! ## indirect objects, object-stream members, lookups on the bytes -/

theorem indirectBody_wf (fuel : Nat) (num gen : Int) (s : PState) (lenOf : Int → Option Int)
    (n g : Int) (v : PVal) (h : indirectBody fuel num gen s lenOf = some (n, g, v)) :
    WF (ofPVal v) := by
  unfold indirectBody at h
  split at h
  · cases h
  · next o s4 ho =>
    have wo : ObjWF o := (parseObject_wf _).1 0 _ o s4 ho
    split at h
    · split at h
      · next kv =>
        split at h
        · cases h
        · split at h
          · cases h; exact ofPVal_stream_wf _ _ wo
          · cases h
      · cases h
    · split at h
      · cases h; exact ofPVal_obj_wf _ wo
      · cases h

/-- `ParseIndirectObject` yields values whose dictionaries have distinct keys -/
theorem parseIndirect_wf (inp : List Nat) (lenOf : Int → Option Int) (num gen : Int) (v : PVal)
    (h : parseIndirect inp lenOf = some (num, gen, v)) : WF (ofPVal v) := by
  unfold parseIndirect at h
  dsimp only at h
  repeat' split at h
  all_goals first | cases h | exact indirectBody_wf _ _ _ _ _ _ _ _ h

theorem uncompressedAt_wf (file : List Nat) (n off : Int) (lenOf : Int → Option Int) (v : PVal)
    (h : uncompressedAt file n off lenOf = some v) : WF (ofPVal v) := by
  unfold uncompressedAt at h
  split at h
  · cases h
  · split at h
    · next num g v' hp =>
      split at h
      · cases h; exact parseIndirect_wf _ _ _ _ _ hp
      · cases h
    · cases h

/-- a member of an object stream is a `ParseObject` result -/
theorem memberAtI_wf (os : Reader.ObjStm) (n idx : Int) (o : Obj)
    (h : memberAtI os n idx = some o) : ObjWF o := by
  unfold memberAtI at h
  split at h
  · cases h
  · split at h
    · cases h
    · split at h
      · cases h
      · next o' s' hp =>
        split at h
        · cases h; exact coreParse_wf _ _ _ hp
        · cases h

/-- every value a lookup on the bytes of a file yields - an object at an offset, a stream, a
member of an object stream - has dictionaries with pairwise distinct keys, at every level -/
theorem getObjectB_wf (ext : Reader.Ext) (file : List Nat) (x : RawSection) (fuel : Nat)
    (loading : List Int) (n : Int) (t : PVal)
    (h : getObjectB ext file x fuel loading n = some t) : WF (ofPVal t) := by
  cases fuel with
  | zero => rw [getObjectB] at h; cases h
  | succ fuel =>
    rw [getObjectB] at h
    split at h
    · cases h
    · next e he =>
      split at h
      · cases h
      split at h
      · cases h
      split at h
      · cases h
      dsimp only at h
      split at h
      · exact uncompressedAt_wf _ _ _ _ _ h
      split at h
      · cases h
      · next se hse =>
        split at h
        · cases h
        split at h
        · next kv data hu =>
          split at h
          · next os hos =>
            cases hm : memberAtI os n e.f2 with
            | none => rw [hm] at h; cases h
            | some o =>
              rw [hm] at h
              cases h
              exact ofPVal_obj_wf _ (memberAtI_wf _ _ _ _ hm)
          · cases h
        · cases h

/-- `Open` + `GetObject` on a file: the same -/
theorem lookup_wf (ext : Reader.Ext) (file : List Nat) (n : Int) (t : PVal)
    (h : XrefFile.lookup ext file n = .ok (some t)) : WF (ofPVal t) := by
  unfold XrefFile.lookup at h
  split at h
  · cases h
  · next x hx =>
    have h1 := Except.ok.inj h
    exact getObjectB_wf _ _ _ _ _ _ _ h1

end Tabula.XrefR
