import TabulaModel.Model.DocxRender
import TabulaModel.Lemmas.DocRender
import TabulaModel.Lemmas.Docx
/-!
Lemmas about the DOCX reader's views (`Model/DocxRender.lean`): what each element
contributes to the plain text, to the Markdown buffer and to the page of `Document()`.
-/
namespace Tabula.Docx
open Tabula.Xml Tabula.Render

/-! ### plain text -/

/-- the marker `writeParagraphText` puts between the indentation and the text of a list item -/
def textMarker (nm : Numbering) (numId : Str) (level : Nat) (cs : Counters) : Str :=
  let r := resolveLevel nm numId level
  if r.1 then formatNumber nm (wrap64 (r.2.2 + (ctrGet cs (numId, level) + 1) - 1)) numId level ++ [46, 32]
  else (if r.2.1 = [] then levelBullet level else r.2.1) ++ [32]

theorem writeParagraphText_plain (nm : Numbering) (p : Para) (cs : Counters) (h : p.list = none) :
    writeParagraphText nm p cs = (p.text, cs) := by
  unfold writeParagraphText; rw [h]

theorem writeParagraphText_item (nm : Numbering) (p : Para) (cs : Counters) (numId : Str) (level : Nat)
    (h : p.list = some (numId, level)) :
    (writeParagraphText nm p cs).1 = indent level ++ textMarker nm numId level cs ++ p.text := by
  unfold writeParagraphText textMarker
  rw [h]
  simp only
  split <;> simp [List.append_assoc]

/-- what a paragraph contributes ends with the paragraph's text -/
theorem writeParagraphText_suffix (nm : Numbering) (p : Para) (cs : Counters) :
    ∃ pre, (writeParagraphText nm p cs).1 = pre ++ p.text := by
  cases h : p.list with
  | none => exact ⟨[], by rw [writeParagraphText_plain nm p cs h]; rfl⟩
  | some nl =>
    obtain ⟨numId, level⟩ := nl
    exact ⟨indent level ++ textMarker nm numId level cs, by rw [writeParagraphText_item nm p cs numId level h]⟩

/-- the texts an element shows in the plain text -/
def textTexts (rd : Reader) (opts : ExtractOptions) (e : Elem) : List Str :=
  match e with
  | .para p => if excluded opts rd.headerTexts rd.footerTexts p.text then [] else [p.text]
  | .table rows => tableTextCells (rrows rows)

theorem textPiece_inOrder (rd : Reader) (opts : ExtractOptions) (e : Elem) (cs : Counters) :
    InOrder (textTexts rd opts e) (textPiece rd opts e cs).1 := by
  cases e with
  | para p =>
    simp only [textTexts, textPiece]
    split
    · exact .nil _
    · obtain ⟨pre, hpre⟩ := writeParagraphText_suffix rd.numbering p cs
      rw [hpre]
      have := InOrder.single p.text pre []
      simpa using this
  | table rows =>
    simp only [textTexts, textPiece]
    exact tableToText_inOrder _

theorem textPieces_pieces (rd : Reader) (opts : ExtractOptions) : ∀ (els : List Elem) (cs : Counters),
    Pieces (els.map (textTexts rd opts)) (textPieces rd opts els cs) := by
  intro els
  induction els with
  | nil => intro cs; exact .nil
  | cons e rest ih =>
    intro cs
    simp only [List.map_cons, textPieces]
    exact .cons (textPiece_inOrder rd opts e cs) (ih _)

theorem textPieces_length (rd : Reader) (opts : ExtractOptions) : ∀ (els : List Elem) (cs : Counters),
    (textPieces rd opts els cs).length = els.length := by
  intro els
  induction els with
  | nil => intro cs; rfl
  | cons e rest ih => intro cs; simp [textPieces, ih]

/-! ### Markdown -/

/-- the number of `#` stays in Markdown's range -/
theorem mdHeadingLevel_range (o : MdOptions) (l : Nat) : 1 ≤ mdHeadingLevel o l ∧ mdHeadingLevel o l ≤ 6 := by
  unfold mdHeadingLevel
  simp only
  split <;> split <;> split <;> split <;> omega

/-- without offset and cap: the level itself, at least 1, at most 6 -/
theorem mdHeadingLevel_default (l : Nat) : mdHeadingLevel {} l = min (max l 1) 6 := by
  unfold mdHeadingLevel
  simp only
  split <;> split <;> split <;> split <;> omega

/-- the marker `writeMarkdownListItem` writes: "- " or the item's number and ". " -/
def mdMarker (nm : Numbering) (numId : Str) (level : Nat) (cs : Counters) : Str :=
  let cs1 := match ctrGet? cs (numId, -1) with
    | some lastLevel => if (level : Int) ≤ lastLevel then ctrDropDeeper cs numId level else cs
    | none => cs
  let cs2 := ctrSet cs1 (numId, -1) level
  let r := resolveLevel nm numId level
  if r.1 then intToDec (wrap64 (r.2.2 + (ctrGet cs2 (numId, level) + 1) - 1)) ++ [46, 32] else [45, 32]

theorem mdListItem_line (nm : Numbering) (text numId : Str) (level : Nat) (cs : Counters) :
    (mdListItem nm text numId level cs).1 = indent level ++ mdMarker nm numId level cs ++ text ++ [10] := by
  unfold mdListItem mdMarker
  simp only
  split <;> simp only [List.append_assoc] <;> rfl

/-- the texts an element shows in Markdown -/
def mdTexts (rd : Reader) (opts : ExtractOptions) (e : Elem) : List Str :=
  match e with
  | .para p => if excluded opts rd.headerTexts rd.footerTexts p.text then [] else [p.text]
  | .table rows => if mdColCount (rrows rows) = 0 then [] else (rrows rows).flatMap fun row => (ownCells row).map mdCellText

/-- one turn of the Markdown loop appends a chunk that shows the element's texts -/
theorem mdStep_chunk (rd : Reader) (opts : ExtractOptions) (o : MdOptions) (i : Nat) (e : Elem) (s : MdState) :
    ∃ chunk, (mdStep rd opts o i e s).out = s.out ++ chunk ∧ InOrder (mdTexts rd opts e) chunk := by
  cases e with
  | para p =>
    simp only [mdStep, mdTexts]
    by_cases hex : excluded opts rd.headerTexts rd.footerTexts p.text = true
    · simp only [hex, if_true]
      exact ⟨[], by simp, .nil _⟩
    · simp only [hex, Bool.false_eq_true, if_false]
      -- the optional blank line before the paragraph
      generalize hs' : (if (decide (i > 0) && s.out != [] && s.inList && (!p.list.isSome || (p.list.map (·.1)).getD [] != s.lastNumId)) = true
        then { s with out := s.out ++ [10], inList := false } else s) = s'
      have hout : ∃ sep, s'.out = s.out ++ sep := by
        rw [← hs']
        split
        · exact ⟨[10], rfl⟩
        · exact ⟨[], by simp⟩
      obtain ⟨sep, hsep⟩ := hout
      cases hh : p.heading with
      | some l =>
        simp only []
        refine ⟨sep ++ (repeatStr [35] (mdHeadingLevel o l) ++ [32] ++ p.text ++ [10, 10]), ?_, ?_⟩
        · simp [hsep, List.append_assoc]
        · have := InOrder.single p.text (sep ++ (repeatStr [35] (mdHeadingLevel o l) ++ [32])) [10, 10]
          simpa [List.append_assoc] using this
      | none =>
        cases hl : p.list with
        | some nl =>
          obtain ⟨id, level⟩ := nl
          simp only []
          rw [mdListItem_line]
          refine ⟨sep ++ (indent level ++ mdMarker rd.numbering id level s'.cs ++ p.text ++ [10]), ?_, ?_⟩
          · simp [hsep, List.append_assoc]
          · have := InOrder.single p.text (sep ++ (indent level ++ mdMarker rd.numbering id level s'.cs)) [10]
            simpa [List.append_assoc] using this
        | none =>
          simp only []
          by_cases ht : p.text = []
          · simp only [ht, bne_self_eq_false, Bool.false_eq_true, if_false]
            refine ⟨sep, hsep, ?_⟩
            have := InOrder.single [] sep []
            simpa using this
          · have hne : (p.text != []) = true := by simpa using ht
            simp only [hne, if_true]
            refine ⟨sep ++ (p.text ++ [10, 10]), by simp [hsep, List.append_assoc], ?_⟩
            have := InOrder.single p.text sep [10, 10]
            simpa [List.append_assoc] using this
  | table rows =>
    simp only [mdStep, mdTexts]
    generalize hs' : (if s.inList = true then { s with out := s.out ++ [10], inList := false } else s) = s'
    have hout : ∃ sep, s'.out = s.out ++ sep := by
      rw [← hs']
      split
      · exact ⟨[10], rfl⟩
      · exact ⟨[], by simp⟩
    obtain ⟨sep, hsep⟩ := hout
    refine ⟨sep ++ (tableToMarkdown (rrows rows) ++ [10]), by simp [hsep, List.append_assoc], ?_⟩
    by_cases hcc : mdColCount (rrows rows) = 0
    · simp only [hcc, if_true]; exact .nil _
    · simp only [hcc, if_false]
      exact ((tableToMarkdown_inOrder _ hcc).append_right [10]).prepend sep

theorem mdLoop_chunk (rd : Reader) (opts : ExtractOptions) (o : MdOptions) : ∀ (els : List Elem) (i : Nat) (s : MdState),
    ∃ chunk, (mdLoop rd opts o els i s).out = s.out ++ chunk ∧ InOrder (els.map (mdTexts rd opts)).flatten chunk := by
  intro els
  induction els with
  | nil => intro i s; exact ⟨[], by simp [mdLoop], .nil _⟩
  | cons e rest ih =>
    intro i s
    obtain ⟨c1, h1, o1⟩ := mdStep_chunk rd opts o i e s
    obtain ⟨c2, h2, o2⟩ := ih (i + 1) (mdStep rd opts o i e s)
    refine ⟨c1 ++ c2, ?_, ?_⟩
    · simp only [mdLoop]; rw [h2, h1, List.append_assoc]
    · simp only [List.map_cons, List.flatten_cons]
      exact o1.append o2

/-! ### Document() -/

/-- an element of the document model, lists taken apart into their items -/
inductive Entry where
  | para (text : Str)
  | heading (level : Nat) (text : Str)
  | item (level : Nat) (text : Str)
  | table (grid : List (List MCell))
deriving Repr, DecidableEq

def flattenElem : DocElem → List Entry
  | .para t => [.para t]
  | .heading l t => [.heading l t]
  | .list _ items => items.map fun it => .item it.level it.text
  | .table g => [.table g]

/-- the page as a flat sequence -/
def flattenDoc (page : List DocElem) : List Entry := page.flatMap flattenElem

/-- what one element of the reader becomes in the document model -/
def entryOf (e : Elem × Nat) : Option Entry :=
  match e.1 with
  | .para p =>
    if p.text = [] then none
    else match p.list with
      | some (_, level) => some (.item level p.text)
      | none => match p.heading with
        | some l => some (.heading l p.text)
        | none => some (.para p.text)
  | .table rows => if (toModelTable rows e.2).length > 0 then some (.table (toModelTable rows e.2)) else none

/-- the page so far plus the items of the list being built -/
def flatState (s : DocState) : List Entry :=
  flattenDoc s.page ++ (match s.cur with
    | some l => l.items.map fun it => .item it.level it.text
    | none => [])

theorem flattenDoc_append (a b : List DocElem) : flattenDoc (a ++ b) = flattenDoc a ++ flattenDoc b := by
  simp [flattenDoc]

theorem flatState_finalize (s : DocState) : flatState (finalizeList s) = flatState s := by
  unfold finalizeList flatState
  cases hc : s.cur with
  | none => simp [hc]
  | some l =>
    by_cases hi : l.items = []
    · simp [hi, flattenDoc]
    · simp [hi, flattenDoc_append, flattenDoc, flattenElem]

theorem finalize_cur (s : DocState) : (finalizeList s).cur = none := by
  unfold finalizeList
  cases hc : s.cur with
  | none => simp [hc]
  | some l => by_cases hi : l.items = [] <;> simp [hi]

theorem addItem_items (nm : Numbering) (text numId : Str) (level : Nat) (l : OpenList) :
    (addItem nm text numId level l).items.map (fun it => Entry.item it.level it.text)
      = l.items.map (fun it => Entry.item it.level it.text) ++ [.item level text] := by
  simp [addItem]

theorem openListFor_flat (nm : Numbering) (numId : Str) (level : Nat) (s : DocState) :
    flattenDoc (openListFor nm numId level s).1.page ++ (openListFor nm numId level s).2.items.map (fun it => Entry.item it.level it.text)
      = flatState s := by
  unfold openListFor
  cases hc : s.cur with
  | none => simp [flatState, hc]
  | some l =>
    by_cases hn : l.numId = numId
    · simp [hn, flatState, hc]
    · simp only [hn, if_false, List.map_nil, List.append_nil]
      have := flatState_finalize s
      rw [flatState, finalize_cur] at this
      simpa using this

theorem docStep_flat (nm : Numbering) (e : Elem × Nat) (s : DocState) :
    flatState (docStep nm e s) = flatState s ++ (entryOf e).toList := by
  obtain ⟨el, n⟩ := e
  cases el with
  | para p =>
    simp only [docStep, entryOf]
    by_cases ht : p.text = []
    · simp [ht]
    · simp only [ht, if_false]
      cases hl : p.list with
      | some nl =>
        obtain ⟨numId, level⟩ := nl
        simp only [Option.toList]
        rw [flatState]
        simp only
        rw [addItem_items, ← List.append_assoc, openListFor_flat]
      | none =>
        cases hh : p.heading with
        | some lv =>
          simp only [Option.toList]
          rw [flatState]
          simp only [finalize_cur, List.append_nil, flattenDoc_append]
          have := flatState_finalize s
          rw [flatState, finalize_cur] at this
          simp only [List.append_nil] at this
          rw [this]; rfl
        | none =>
          simp only [Option.toList]
          rw [flatState]
          simp only [finalize_cur, List.append_nil, flattenDoc_append]
          have := flatState_finalize s
          rw [flatState, finalize_cur] at this
          simp only [List.append_nil] at this
          rw [this]; rfl
  | table rows =>
    simp only [docStep, entryOf]
    have hf := flatState_finalize s
    by_cases hg : (toModelTable rows n).length > 0
    · simp only [hg, if_true, Option.toList]
      rw [flatState]
      simp only [finalize_cur, List.append_nil, flattenDoc_append]
      rw [flatState, finalize_cur] at hf
      simp only [List.append_nil] at hf
      rw [hf]; rfl
    · simp only [hg, if_false, Option.toList, List.append_nil]
      exact hf

theorem docLoop_flat (nm : Numbering) : ∀ (els : List (Elem × Nat)) (s : DocState),
    flatState (docLoop nm els s) = flatState s ++ els.filterMap entryOf := by
  intro els
  induction els with
  | nil => intro s; simp [docLoop]
  | cons e rest ih =>
    intro s
    simp only [docLoop]
    rw [ih, docStep_flat, List.filterMap_cons]
    cases entryOf e <;> simp

end Tabula.Docx
