import TabulaModel.Lemmas.HtmlText
import TabulaModel.Lemmas.Traverse
/-!
Helper lemmas for C19 (Props/C19Text.lean, Props/C19Api.lean): the atoms of a
document against its source text `src`; the plain-text view up to white space as
a function of the atoms alone; sublists under `flatMap`.
-/
namespace Tabula.Html

/-! ### small list facts -/

theorem flatMap_sublist {α β} (f g : α → List β) (h : ∀ x, (f x).Sublist (g x)) :
    ∀ l : List α, (l.flatMap f).Sublist (l.flatMap g)
  | [] => by simp
  | x :: xs => by
      simp only [List.flatMap_cons]
      exact List.Sublist.append (h x) (flatMap_sublist f g h xs)

theorem sublist_flatMap {α β} (f : α → List β) {l₁ l₂ : List α} (h : l₁.Sublist l₂) :
    (l₁.flatMap f).Sublist (l₂.flatMap f) := by
  induction h with
  | slnil => simp
  | cons a _ ih =>
    simp only [List.flatMap_cons]
    exact ih.trans (List.sublist_append_right _ _)
  | cons_cons a _ ih =>
    simp only [List.flatMap_cons]
    exact List.Sublist.append (List.Sublist.refl _) ih

theorem cells_flatMap_text (l : List Cell) :
    (l.map Atom.cell).flatMap Atom.text = (l.map (·.text)).flatten := by
  induction l with
  | nil => rfl
  | cons c cs ih => simp [List.flatMap_cons, Atom.text, ih]

/-! ### atoms against the source text -/

theorem opt_atom_text (mk : Str → Atom) (hmk : ∀ t, (mk t).text = t) (t : Str) :
    squeeze ((if (t != []) = true then [mk t] else []).flatMap Atom.text) = squeeze t := by
  by_cases h : t = []
  · simp [h]
  · simp [h, hmk]

theorem trimmed_text_cond (e : Dom) :
    (trim (getTextContent e) != []) = (squeeze (tnFlat e) != []) := by
  have : trim (getTextContent e) = [] ↔ squeeze (tnFlat e) = [] := by
    rw [trim_eq_nil_iff, squeeze_getTextContent]
  by_cases h : trim (getTextContent e) = []
  · have h2 := this.mp h
    rw [h, h2]
  · have h2 : ¬ squeeze (tnFlat e) = [] := fun x => h (this.mpr x)
    have e1 : (trim (getTextContent e) != []) = true := by simpa using h
    have e2 : (squeeze (tnFlat e) != []) = true := by simpa using h2
    rw [e1, e2]

theorem squeeze_trimmed_text (e : Dom) : squeeze (trim (getTextContent e)) = squeeze (tnFlat e) := by
  rw [squeeze_trim, squeeze_getTextContent]

theorem runAtoms_text (run : Str) : squeeze ((runAtoms run).flatMap Atom.text) = squeeze run := by
  unfold runAtoms
  rw [opt_atom_text Atom.para (fun _ => rfl), squeeze_trim]

mutual
/-- Up to white space, the text the atoms of a subtree carry is the source text of the subtree. -/
theorem atoms_src (p : Pos → Dom → Bool) (w : Bool) :
    ∀ (t : Dom) (pos : Pos) (lc : LC),
      squeeze ((atoms p w pos lc t).flatMap Atom.text) = squeeze (src p w pos t)
  | .text _, pos, lc => by simp [atoms, src]
  | .other kids, pos, lc => by
      simp only [atoms, src]; exact atomsL_src p w kids _ lc
  | .elem tag attrs kids, pos, lc => by
      unfold atoms src
      by_cases hs : isSkip tag = true
      · simp [hs]
      · by_cases hp : p pos (.elem tag attrs kids) = true
        · simp [hs, hp]
        · have hs' : isSkip tag = false := by simpa using hs
          have hflat : tnFlat (.elem tag attrs kids) = tnFlatL kids := tnFlat_elem tag attrs kids hs'
          simp only [hs, hp, if_false, Bool.false_eq_true]
          cases hc : classify tag with
          | heading lvl =>
            simp only []
            rw [opt_atom_text (Atom.heading lvl) (fun _ => rfl), squeeze_trimmed_text, hflat]
          | pdiv isP =>
            simp only []
            rw [trimmed_text_cond, hflat]
            by_cases hcnd : (squeeze (tnFlatL kids) != [] && !isBlockContainer kids) = true
            · simp only [hcnd, if_true]
              simp only [List.flatMap_cons, List.flatMap_nil, List.append_nil, Atom.text]
              rw [squeeze_trimmed_text, hflat]
            · simp only [hcnd, if_false, Bool.false_eq_true]
              have := atomsM_src p w kids (pos.kid w tag) lc []
              simpa [squeeze_nil] using this
          | list ord =>
            simp only []
            exact atomsL_src p w kids _ _
          | li =>
            simp only []
            rw [List.flatMap_append, squeeze_append, squeeze_append,
              opt_atom_text (Atom.item lc.enter.level) (fun _ => rfl), squeeze_getDirectTextContent,
              atomsLi_src p w kids _ _]
          | table =>
            simp only []
            rw [cells_flatMap_text, parseTable_texts, squeeze_cellTexts]
          | code =>
            simp only []
            rw [opt_atom_text Atom.code (fun _ => rfl), squeeze_getTextContent, hflat]
          | quote =>
            simp only []
            rw [opt_atom_text Atom.quote (fun _ => rfl), squeeze_trimmed_text, hflat]
          | void => simp
          | other =>
            simp only []
            exact atomsL_src p w kids _ lc
theorem atomsL_src (p : Pos → Dom → Bool) (w : Bool) :
    ∀ (ts : List Dom) (kp : Pos) (lc : LC),
      squeeze ((atomsL p w kp lc ts).flatMap Atom.text) = squeeze (srcL p w kp ts)
  | [], kp, lc => by simp [atomsL, srcL]
  | k :: ks, kp, lc => by
      simp only [atomsL, srcL, List.flatMap_append, squeeze_append,
        atoms_src p w k kp lc, atomsL_src p w ks kp lc]
theorem atomsLi_src (p : Pos → Dom → Bool) (w : Bool) :
    ∀ (ts : List Dom) (kp : Pos) (lc : LC),
      squeeze ((atomsLi p w kp lc ts).flatMap Atom.text) = squeeze (srcLi p w kp ts)
  | [], kp, lc => by simp [atomsLi, srcLi]
  | k :: ks, kp, lc => by
      simp only [atomsLi, srcLi, List.flatMap_append, squeeze_append, atomsLi_src p w ks kp lc]
      congr 1
      split
      · exact atoms_src p w k kp lc
      · rfl
theorem atomsM_src (p : Pos → Dom → Bool) (w : Bool) :
    ∀ (ts : List Dom) (kp : Pos) (lc : LC) (run : Str),
      squeeze ((atomsM p w kp lc ts run).flatMap Atom.text) = squeeze run ++ squeeze (srcM p w kp ts)
  | [], kp, lc, run => by simp [atomsM, srcM, runAtoms_text, squeeze_nil]
  | k :: ks, kp, lc, run => by
      simp only [atomsM, srcM]
      by_cases hk : isInline k = true
      · simp only [hk, if_true]
        rw [atomsM_src p w ks kp lc _, squeeze_append, squeeze_append, squeeze_textRec, List.append_assoc]
      · simp only [hk, if_false, Bool.false_eq_true]
        rw [List.flatMap_append, List.flatMap_append, squeeze_append, squeeze_append, squeeze_append,
          runAtoms_text, atoms_src p w k kp lc, atomsM_src p w ks kp lc []]
        simp [List.append_assoc, squeeze_nil]
end

/-! ### the plain-text view up to white space -/

theorem squeeze_sep (acc : Str) : squeeze (sep acc) = [] := by
  unfold sep; split <;> rfl

theorem squeeze_spaces : ∀ n, squeeze (spaces n) = []
  | 0 => rfl
  | n + 1 => by
      have : squeeze (spaces (n + 1)) = squeeze (spaces n) := by
        simp [spaces, squeeze, isSpace]
      rw [this]; exact squeeze_spaces n

theorem squeeze_renderItems : ∀ (items : List Item) (first : Bool),
    squeeze (renderItems items first) = items.flatMap fun i => 0x2022 :: squeeze i.text
  | [], _ => rfl
  | i :: rest, first => by
      simp only [renderItems, squeeze_append, squeeze_spaces, squeeze_renderItems rest false,
        List.flatMap_cons]
      have h1 : squeeze (if first = true then [] else [10]) = [] := by split <;> rfl
      have h2 : squeeze [0x2022, 32] = [0x2022] := by decide
      rw [h1, h2]; simp

theorem squeeze_renderRow : ∀ (cells : List Cell) (first : Bool),
    squeeze (renderRow cells first) = cells.flatMap fun c => squeeze c.text
  | [], _ => rfl
  | c :: rest, first => by
      simp only [renderRow, squeeze_append, squeeze_renderRow rest false, List.flatMap_cons]
      have h1 : squeeze (if first = true then [] else [9]) = [] := by split <;> rfl
      rw [h1]; simp

theorem squeeze_renderRows (rows : List (List Cell)) :
    squeeze (rows.flatMap (renderRow · true)) = rows.flatten.flatMap fun c => squeeze c.text := by
  induction rows with
  | nil => rfl
  | cons r rs ih =>
    simp only [List.flatMap_cons, squeeze_append, squeeze_renderRow, ih, List.flatten_cons,
      List.flatMap_append]

theorem items_sq (items : List Item) :
    (items.map fun i => Atom.item i.level i.text).flatMap Atom.sq
      = items.flatMap fun i => 0x2022 :: squeeze i.text := by
  induction items with
  | nil => rfl
  | cons i rest ih => simp [List.flatMap_cons, Atom.sq, ih]

theorem cells_sq (cs : List Cell) :
    (cs.map Atom.cell).flatMap Atom.sq = cs.flatMap fun c => squeeze c.text := by
  induction cs with
  | nil => rfl
  | cons c rest ih => simp [List.flatMap_cons, Atom.sq, Atom.text, ih]

/-- Up to white space the plain-text view is a function of the atoms alone (how the items are
grouped into list elements does not show). -/
theorem squeeze_renderText : ∀ (els : List Element) (acc : Str),
    squeeze (renderText els acc) = squeeze acc ++ (flatten els).flatMap Atom.sq
  | [], acc => by simp [renderText, flatten]
  | e :: rest, acc => by
      have hf : flatten (e :: rest) = e.atoms ++ flatten rest := by simp [flatten]
      rw [hf, List.flatMap_append, ← List.append_assoc]
      unfold renderText
      simp only []
      rw [squeeze_renderText rest]
      congr 1
      cases e with
      | heading l t => simp [squeeze_append, squeeze_sep, Element.atoms, Atom.sq, Atom.text]
      | para t => simp [squeeze_append, squeeze_sep, Element.atoms, Atom.sq, Atom.text]
      | code t => simp [squeeze_append, squeeze_sep, Element.atoms, Atom.sq, Atom.text]
      | quote t => simp [squeeze_append, squeeze_sep, Element.atoms, Atom.sq, Atom.text]
      | list o items =>
        simp only [squeeze_append, squeeze_sep, Element.atoms, squeeze_renderItems, items_sq,
          List.append_nil]
      | table hd rows =>
        simp only [Element.atoms, cells_sq]
        by_cases hr : rows = []
        · simp [hr]
        · simp only [hr, if_false, squeeze_append, squeeze_sep, squeeze_renderRows, List.append_nil]


/-! ### the source text outside an excluded subtree -/

mutual
theorem src_agree (p q : Pos → Dom → Bool) (w : Bool) :
    ∀ (t : Dom) (pos : Pos), agree p q w pos t → src q w pos t = src p w pos t
  | .text _, pos, _ => by simp [src]
  | .other kids, pos, h => by
      simp only [src]
      exact srcL_agree p q w kids _ (by simpa [agree] using h)
  | .elem tag attrs kids, pos, h => by
      have h' : p pos (.elem tag attrs kids) = q pos (.elem tag attrs kids) ∧ agreeL p q w (pos.kid w tag) kids := by
        simpa [agree] using h
      unfold src
      rw [h'.1]
      by_cases hs : isSkip tag = true
      · simp [hs]
      · by_cases hq : q pos (.elem tag attrs kids) = true
        · simp [hs, hq]
        · simp only [hs, hq, if_false, Bool.false_eq_true]
          split
          · rfl
          · split
            · rfl
            · exact srcM_agree p q w kids _ h'.2
          · exact srcL_agree p q w kids _ h'.2
          · rw [srcLi_agree p q w kids _ h'.2]
          · rfl
          · rfl
          · rfl
          · rfl
          · exact srcL_agree p q w kids _ h'.2
theorem srcL_agree (p q : Pos → Dom → Bool) (w : Bool) :
    ∀ (ts : List Dom) (kp : Pos), agreeL p q w kp ts → srcL q w kp ts = srcL p w kp ts
  | [], kp, _ => by simp [srcL]
  | k :: ks, kp, h => by
      have h' : agree p q w kp k ∧ agreeL p q w kp ks := by simpa [agreeL] using h
      simp only [srcL]
      rw [src_agree p q w k kp h'.1, srcL_agree p q w ks kp h'.2]
theorem srcLi_agree (p q : Pos → Dom → Bool) (w : Bool) :
    ∀ (ts : List Dom) (kp : Pos), agreeL p q w kp ts → srcLi q w kp ts = srcLi p w kp ts
  | [], kp, _ => by simp [srcLi]
  | k :: ks, kp, h => by
      have h' : agree p q w kp k ∧ agreeL p q w kp ks := by simpa [agreeL] using h
      simp only [srcLi]
      rw [src_agree p q w k kp h'.1, srcLi_agree p q w ks kp h'.2]
theorem srcM_agree (p q : Pos → Dom → Bool) (w : Bool) :
    ∀ (ts : List Dom) (kp : Pos), agreeL p q w kp ts → srcM q w kp ts = srcM p w kp ts
  | [], kp, _ => by simp [srcM]
  | k :: ks, kp, h => by
      have h' : agree p q w kp k ∧ agreeL p q w kp ks := by simpa [agreeL] using h
      simp only [srcM]
      rw [src_agree p q w k kp h'.1, srcM_agree p q w ks kp h'.2]
end

theorem srcL_append (p : Pos → Dom → Bool) (w : Bool) (kp : Pos) (a b : List Dom) :
    srcL p w kp (a ++ b) = srcL p w kp a ++ srcL p w kp b := by
  induction a with
  | nil => simp [srcL]
  | cons k ks ih => simp [srcL, ih, List.append_assoc]

theorem srcM_append (p : Pos → Dom → Bool) (w : Bool) (kp : Pos) (a b : List Dom) :
    srcM p w kp (a ++ b) = srcM p w kp a ++ srcM p w kp b := by
  induction a with
  | nil => simp [srcM]
  | cons k ks ih => simp [srcM, ih, List.append_assoc]

end Tabula.Html
