import TabulaModel.Util
import TabulaModel.Model.Export
/-
Line-protocol handler for C14.  Wire format (one op per line, fields separated by one space):

  chunk   := id.text.title.sectitle.path.parent.children.etypes.hl.ps.pe.ci.tc.lvl.cc.wc.et.flags
             strings = hex ("-" empty); lists = "~" (empty) or comma-separated hex; ints decimal;
             flags = three 0/1 digits (table, list, image)
  chunks  := c=<chunk>/<chunk>/…            (c= for the empty collection)
  config  := g=<fmt>;<inclMeta>;<fields>;<inclText>;<inclEmb>;<flatten>;<delimRune>;<header>;<pretty>;<textcol>;<idcol>
             fmt = jsonl|json|csv|tsv|other; fields = "~" (nil) or "=" + comma-separated hex
  val     := s<hex> | i<int> | b0 | b1 | l<hex>+<hex>…   (l alone = empty list)

  c14.csvcols g c   -> comma-separated hex column names
  c14.rows g c      -> records ';'-joined, cells ','-joined hex; "none" when no record
  c14.export g c    -> "ok <hex text>" | "err"
  c14.json g c      -> records ';'-joined: id|text|meta|title|ps|pe|ci|sectitle|path|flags
                       meta = "~" (absent or empty) or sorted key:val ','-joined
  c14.stream g c    -> "ok <same dump as c14.json>" | "err"
  c14.batch size n  -> batches ','-joined: num:start:end:count:i+i+…   ("none" when no batch)
  c14.filt f=<op>+<op>… L=<hex>>hex,… c   -> ids ','-joined hex ("none")
                       op = sec:<hex> | page:<int> | range:<int>:<int> | etype:<hex> | tables | lists |
                            images | min:<int> | max:<int> | search:<hex>;  L = strings.ToLower table
  c14.csv d r=<rows>     -> hex of the csv.Writer output (rows ';'-joined, cells ','-joined, "~" = record without fields)
  c14.csvread d <hex>    -> "err" | rows dump as in c14.rows
  c14.fmtval <val>       -> hex of formatValue
  c14.meta2map <chunk>   -> sorted key:val dump of chunkMetadataToMap
  c14.flatten <tokens>   -> sorted key:val dump of flattenMetadata(map,""); tokens ','-joined, prefix
                            notation: o<n> then n × (<keyhex>, value) | s<hex> | i<int> | b0 | b1 | l<hex>+…
-/
namespace Tabula.C14H
open Tabula Tabula.Export Tabula.Csv

def toStr (b : Bytes) : Str := b.map (·.toNat)
def ofStr (s : Str) : Bytes := s.map UInt8.ofNat
def hexS (s : Str) : String := hex (ofStr s)
def unhexS (s : String) : Option Str := (unhex s).map toStr

def parseList (s : String) : Option (List Str) :=
  if s == "~" then some [] else (s.splitOn ",").mapM unhexS

def parseBool (s : String) : Option Bool :=
  if s == "1" then some true else if s == "0" then some false else none

def parseChunk (s : String) : Option Chunk :=
  match s.splitOn "." with
  | [id, text, title, sect, path, parent, children, etypes, hl, ps, pe, ci, tc, lvl, cc, wc, et, flags] => do
    let id ← unhexS id; let text ← unhexS text; let title ← unhexS title; let sect ← unhexS sect
    let path ← parseList path; let parent ← unhexS parent
    let children ← parseList children; let etypes ← parseList etypes
    let hl ← hl.toInt?; let ps ← ps.toInt?; let pe ← pe.toInt?; let ci ← ci.toInt?; let tc ← tc.toInt?
    let lvl ← lvl.toInt?; let cc ← cc.toInt?; let wc ← wc.toInt?; let et ← et.toInt?
    let (ft, fl, fi) ← match flags.toList with
      | [a, b, c] => some (a == '1', b == '1', c == '1')
      | _ => none
    pure { id := id, text := text, md := {
      documentTitle := title, sectionPath := path, sectionTitle := sect, headingLevel := hl,
      pageStart := ps, pageEnd := pe, chunkIndex := ci, totalChunks := tc, level := lvl,
      parentID := parent, childIDs := children, elementTypes := etypes,
      hasTable := ft, hasList := fl, hasImage := fi, charCount := cc, wordCount := wc, estimatedTokens := et } }
  | _ => none

def parseChunks (s : String) : Option (List Chunk) :=
  if !s.startsWith "c=" then none else
  let body := (s.drop 2).toString
  if body == "" then some [] else (body.splitOn "/").mapM parseChunk

def parseFormat (s : String) : Format :=
  if s == "jsonl" then .jsonl else if s == "json" then .json else if s == "csv" then .csv
  else if s == "tsv" then .tsv else .other

def parseConfig (s : String) : Option Config :=
  if !s.startsWith "g=" then none else
  match ((s.drop 2).toString).splitOn ";" with
  | [fmt, im, fields, it, ie, fl, d, hd, pp, tcol, icol] => do
    let im ← parseBool im; let it ← parseBool it; let ie ← parseBool ie; let fl ← parseBool fl
    let hd ← parseBool hd; let pp ← parseBool pp
    let d ← d.toNat?
    let tcol ← unhexS tcol; let icol ← unhexS icol
    let fields ← if fields == "~" then some none
      else if fields == "=" then some (some [])
      else if fields.startsWith "=" then ((fields.drop 1).toString.splitOn ",").mapM unhexS |>.map some
      else none
    pure { format := parseFormat fmt, includeMetadata := im, metadataFields := fields, includeText := it,
           includeEmbeddings := ie, flattenMetadata := fl, csvDelimiter := d, includeHeader := hd,
           prettyPrint := pp, textColumnName := tcol, chunkIDColumnName := icol }
  | _ => none

def dumpRow (r : List Str) : String := if r.isEmpty then "~" else ",".intercalate (r.map hexS)
def dumpRows (rs : List (List Str)) : String :=
  if rs.isEmpty then "none" else ";".intercalate (rs.map dumpRow)

def dumpVal : Val → String
  | .str s => "s" ++ hexS s
  | .int i => "i" ++ toString i
  | .bool b => if b then "b1" else "b0"
  | .strs l => "l" ++ "+".intercalate (l.map hexS)
  | .obj _ => "o"

def sortKV (m : MapSV) : MapSV :=
  let keys := sortStrings (mapKeys m)
  keys.filterMap (fun k => (mapLookup m k).map (fun v => (k, v)))

def dumpMap (m : MapSV) : String :=
  if m.isEmpty then "~" else ",".intercalate ((sortKV m).map (fun (k, v) => hexS k ++ ":" ++ dumpVal v))

def b01 (b : Bool) : String := if b then "1" else "0"

def dumpPath (l : List Str) : String := if l.isEmpty then "~" else ",".intercalate (l.map hexS)

def dumpExported (e : Exported) : String :=
  "|".intercalate [hexS e.id, hexS e.text,
    (match e.metadata with | none => "~" | some m => dumpMap m),
    hexS e.documentTitle, toString e.pageStart, toString e.pageEnd, toString e.chunkIndex,
    hexS e.sectionTitle, dumpPath e.sectionPath, b01 e.hasTable ++ b01 e.hasList ++ b01 e.hasImage]

def dumpRecords (rs : List Exported) : String :=
  if rs.isEmpty then "none" else ";".intercalate (rs.map dumpExported)

def noMarshal (_ : MapSV) : Str := []

def parseRows (s : String) : Option (List (List Str)) :=
  if !s.startsWith "r=" then none else
  let body := (s.drop 2).toString
  if body == "" then some [] else
  (body.splitOn ";").mapM (fun r => if r == "~" then some [] else (r.splitOn ",").mapM unhexS)

def parseVal (s : String) : Option Val :=
  if s.startsWith "s" then (unhexS (s.drop 1).toString).map Val.str
  else if s.startsWith "i" then ((s.drop 1).toString.toInt?).map Val.int
  else if s == "b1" then some (.bool true) else if s == "b0" then some (.bool false)
  else if s == "l" then some (.strs [])
  else if s.startsWith "l" then (((s.drop 1).toString.splitOn "+").mapM unhexS).map Val.strs
  else none

/-- prefix-notation tokens of a nested map value -/
partial def parseTok : List String → Option (Val × List String)
  | [] => none
  | t :: rest =>
    if t.startsWith "o" then
      match (t.drop 1).toString.toNat? with
      | none => none
      | some n =>
        let rec entries (n : Nat) (toks : List String) (acc : List (Str × Val)) : Option (List (Str × Val) × List String) :=
          match n with
          | 0 => some (acc.reverse, toks)
          | n + 1 =>
            match toks with
            | k :: more =>
              match unhexS k, parseTok more with
              | some k, some (v, rest') => entries n rest' ((k, v) :: acc)
              | _, _ => none
            | [] => none
        match entries n rest [] with
        | some (kvs, rest') => some (.obj kvs, rest')
        | none => none
    else (parseVal t).map (fun v => (v, rest))

def asciiLower (c : Nat) : Nat := if 65 ≤ c && c ≤ 90 then c + 32 else c
/-- `strings.EqualFold` restricted to what the harness sends (ASCII element types) -/
def asciiEqFold (a b : Str) : Bool := a.map asciiLower == b.map asciiLower

def parseLower (s : String) : Option (List (Str × Str)) :=
  if !s.startsWith "L=" then none else
  let body := (s.drop 2).toString
  if body == "" then some [] else
  (body.splitOn ",").mapM (fun p => match p.splitOn ">" with
    | [a, b] => do let a ← unhexS a; let b ← unhexS b; pure (a, b)
    | _ => none)

def parseOp (s : String) : Option FilterOp :=
  match s.splitOn ":" with
  | ["sec", h] => (unhexS h).map FilterOp.section
  | ["page", n] => n.toInt?.map FilterOp.page
  | ["range", a, b] => do let a ← a.toInt?; let b ← b.toInt?; pure (.pageRange a b)
  | ["etype", h] => (unhexS h).map FilterOp.elementType
  | ["tables"] => some .tables
  | ["lists"] => some .lists
  | ["images"] => some .images
  | ["min", n] => n.toInt?.map FilterOp.minTokens
  | ["max", n] => n.toInt?.map FilterOp.maxTokens
  | ["search", h] => (unhexS h).map FilterOp.search
  | _ => none

def parseChain (s : String) : Option (List FilterOp) :=
  if !s.startsWith "f=" then none else
  let body := (s.drop 2).toString
  if body == "" then some [] else (body.splitOn "+").mapM parseOp

def handle (op : String) (args : List String) : String :=
  match op, args with
  | "c14.csvcols", [g, c] =>
    (match parseConfig g, parseChunks c with
     | some cfg, some cs => dumpRow (collectCSVColumns cfg cs)
     | _, _ => "bad-op")
  | "c14.rows", [g, c] =>
    (match parseConfig g, parseChunks c with
     | some cfg, some cs => dumpRows (exportCSVRecords noMarshal cfg cs)
     | _, _ => "bad-op")
  | "c14.export", [g, c] =>
    (match parseConfig g, parseChunks c with
     | some cfg, some cs =>
       (match exportCSV noMarshal cfg cs with
        | some t => "ok " ++ hexS t
        | none => "err")
     | _, _ => "bad-op")
  | "c14.json", [g, c] =>
    (match parseConfig g, parseChunks c with
     | some cfg, some cs => dumpRecords (exportRecords cfg cs)
     | _, _ => "bad-op")
  | "c14.stream", [g, c] =>
    (match parseConfig g, parseChunks c with
     | some cfg, some cs =>
       (match streamAll cfg cs [] with
        | some rs => "ok " ++ dumpRecords rs
        | none => "err")
     | _, _ => "bad-op")
  | "c14.batch", [size, n] =>
    (match size.toNat?, n.toNat? with
     | some size, some n =>
       (match batchExport size (List.range n) with
        | none => "size0"
        | some bs =>
          if bs.isEmpty then "none" else
          ",".intercalate (bs.map fun b =>
            s!"{b.batchNumber}:{b.startIndex}:{b.endIndex}:{b.chunkCount}:" ++
              "+".intercalate (b.items.map toString)))
     | _, _ => "bad-op")
  | "c14.filt", [f, l, c] =>
    (match parseChain f, parseLower l, parseChunks c with
     | some ops, some tbl, some cs =>
       let env : StrEnv := { toLower := fun s => (tbl.lookup s).getD s, eqFold := asciiEqFold }
       let r := applyChain env ops cs
       if r.isEmpty then "none" else ",".intercalate (r.map (hexS ·.id))
     | _, _, _ => "bad-op")
  | "c14.csv", [d, r] =>
    (match d.toNat?, parseRows r with
     | some d, some rows => hexS (csvWrite goExtra d rows)
     | _, _ => "bad-op")
  | "c14.csvread", [d, h] =>
    (match d.toNat?, unhexS h with
     | some d, some input =>
       (match csvRead d input with
        | some rows => dumpRows rows
        | none => "err")
     | _, _ => "bad-op")
  | "c14.fmtval", [v] =>
    (match parseVal v with
     | some v => hexS (formatValue noMarshal v)
     | none => "bad-op")
  | "c14.meta2map", [c] =>
    (match parseChunk c with
     | some c => dumpMap (chunkMetadataToMap c.md)
     | none => "bad-op")
  | "c14.flatten", [t] =>
    (match parseTok (t.splitOn ",") with
     | some (.obj kvs, []) => dumpMap (flattenMetadata kvs [])
     | _ => "bad-op")
  | _, _ => "bad-op"

end Tabula.C14H
