import TabulaModel.Util
import TabulaModel.Model.Export
import TabulaModel.Model.ExportApi
import TabulaModel.Model.ExportJson
import TabulaModel.Model.Collection
import TabulaModel.Model.ExportIO
import TabulaModel.Model.ExportDecodeVdb
/-
Line-protocol handler for C14.  Wire format (one op per line, fields separated by one space):

  chunk   := id.text.title.sectitle.path.parent.children.etypes.hl.ps.pe.ci.tc.lvl.cc.wc.et.flags
             strings = hex ("-" empty); lists = "~" (empty) or comma-separated hex; ints decimal;
             flags = three 0/1 digits (table, list, image)
  chunks  := c=<chunk>/<chunk>/…            (c= for the empty collection)
  config  := g=<fmt>;<inclMeta>;<fields>;<inclText>;<inclEmb>;<flatten>;<delimRune>;<header>;<pretty>;<textcol>;<idcol>
             fmt = jsonl|json|csv|tsv|other; fields = "~" (nil) or "=" + comma-separated hex
  val     := s<hex> | i<int> | b0 | b1 | l<hex>+<hex>…   (l alone = empty list)

  c14.csvcols g c   -> comma-separated hex column names
  c14.rows g c      -> records ';'-joined, cells ','-joined hex; "none" when no record
  c14.export g c    -> "ok <hex text>" | "err"
  c14.json g c      -> records ';'-joined: id|text|meta|title|ps|pe|ci|sectitle|path|flags
                       meta = "~" (absent or empty) or sorted key:val ','-joined
  c14.stream g c    -> "ok <same dump as c14.json>" | "err"
  c14.batch size n  -> batches ','-joined: num:start:end:count:i+i+…   ("none" when no batch)
  c14.filt f=<op>+<op>… L=<hex>>hex,… c   -> ids ','-joined hex ("none")
                       op = sec:<hex> | page:<int> | range:<int>:<int> | etype:<hex> | tables | lists |
                            images | min:<int> | max:<int> | search:<hex>;  L = strings.ToLower table
  c14.csv d r=<rows>     -> hex of the csv.Writer output (rows ';'-joined, cells ','-joined, "~" = record without fields)
  c14.csvread d <hex>    -> "err" | rows dump as in c14.rows
  c14.fmtval <val>       -> hex of formatValue
  c14.meta2map <chunk>   -> sorted key:val dump of chunkMetadataToMap
  c14.flatten <tokens>   -> sorted key:val dump of flattenMetadata(map,""); tokens ','-joined, prefix
                            notation: o<n> then n × (<keyhex>, value) | s<hex> | i<int> | b0 | b1 | l<hex>+…
  c14.cfg <name>         -> the library configuration of that name, in the `g=` notation
                            (default|jsonl|csv|tsv|tojson|vectordb)
  c14.spec g c           -> the rows of c14.rows computed from the SPECIFICATION (`cellSpec` over the
                            chunks' own fields), not from the exporter model
  c14.batchrun g size fail c -> `<result>|num:start:end:count,…` of (*BatchExporter).Export whose callback
                            fails on its fail-th invocation (fail = -1: never); result = ok | cberr:<n> | experr:<start> | size0
  c14.calls g k=<calls> c -> `<results>|<records>` of a StreamExporter after the call sequence; calls ','-joined:
                            w<i>:<index> = WriteChunk(chunks[i], index), x = Close(); results = one 0/1 per call
  c14.vdb e=<embs> <classhex> c -> `P <pinecone> C <chroma> W <weaviate> R <prepare>`; embs '/'-joined: n (nil slice) |
                            v<tok>,<tok>… (v alone = empty slice), tok = the JSON text of the float
  c14.tostring g c       -> "ok <hex>" | "err": (*Exporter).ExportToString, every format (JSON text through the
                            assumed encoding/json writer of Model/Json.lean, CSV with json.Marshal modelled)
  c14.short <name> c     -> the same for ToJSON | ToJSONL | ToCSV | ToTSV
  c14.streamtext g k=<calls> c -> hex of the bytes a StreamExporter has written after the call sequence
  c14.vdbtext e=<embs> <classhex> c -> `P <hex> C <hex> W <hex>`: the three vector-database texts
  c14.quote <hex>        -> hex of the JSON string literal encoding/json writes for these bytes (any bytes)
  c14.fmtobj <tokens>    -> hex of formatValue of a nested map (json.Marshal), tokens as in c14.flatten
  c14.jsonread <hex>     -> "err" | dump of the value a standard JSON reader returns:
                            z | t | f | n<numbertext> | s<hex> | [v,v…] | {<keyhex>:v,…} (members in text order)
  c14.jsonlread <hex>    -> "err" | the dumps of the lines, ';'-joined ("none" for no line)
  c14.decode g <hex>     -> "err" | c=<chunk>/…: the INVERSE READER (`decodeExportR`: standard parser of the configured
                            format, then `decodeRecord` / `decodeRow`) applied to a text
  c14.project g <0|1> c  -> `<normal flags>|c=<chunk>/…`: `projectChunk` (1 = JSON, section_path always) of every chunk,
                            and one 0/1 per chunk for `chunkNormal`
  c14.csvr r r=<rows>    -> hex of the csv.Writer output for delimiter RUNE r (any int; negative = invalid), "invalid" when
                            encoding/csv rejects the delimiter and there is a record to write
  c14.csvreadr r <hex>   -> "err" | rows dump: the RFC 4180 reader for the UTF-8 encoding of rune r
  c14.batchint g size fail c -> like c14.batchrun with `size` any int (≤ 0: result sizeerr)
  c14.tofile g <0|1> p=<name|-> c -> `<result>|<hex content | nofile>` of ExportToFile("out.dat") (0 = the file cannot be
                            created; p = a file of that name exists before the call with content OLD); result = ok | createerr | experr
  c14.tofiles g size n=<names> m=<names> p=<name|-> c -> `<result>|<namehex>:<hex>,…` (files sorted by name; "none"):
                            ExportToFiles with fmt.Sprintf(pattern, k) = names[k]; m = names that cannot be created
  c14.fmtname <int>      -> `<hex of ExportFormat(int).String()> <hex of .FileExtension()>`
  c14.vdbdecode <P|C|W> <hex> -> "err" | records ';'-joined ("none"): the inverse reader of a Pinecone / Chroma / Weaviate text;
                            record = [<classhex>|]<idhex>|<texthex>|<titlehex>|<pageStart>|<sectionhex>|<chunkIndex>|<tok>+<tok>… ("~")
  c14.coll f=<chain> <idhex> <i> c -> the accessors of the collection the chain returns (no search op in the chain):
                            count|first|last|GetByIndex(i)|GetByID(id)|sections|ps:pe|tokens|words|stats
                            chunk = <idhex>/<texthex> or nil; stats = 13 comma-separated numbers
-/
namespace Tabula.C14H
open Tabula Tabula.Export Tabula.Csv

def toStr (b : Bytes) : Str := b.map (·.toNat)
def ofStr (s : Str) : Bytes := s.map UInt8.ofNat
def hexS (s : Str) : String := hex (ofStr s)
def unhexS (s : String) : Option Str := (unhex s).map toStr

def parseList (s : String) : Option (List Str) :=
  if s == "~" then some [] else (s.splitOn ",").mapM unhexS

def parseBool (s : String) : Option Bool :=
  if s == "1" then some true else if s == "0" then some false else none

def parseChunk (s : String) : Option Chunk :=
  match s.splitOn "." with
  | [id, text, title, sect, path, parent, children, etypes, hl, ps, pe, ci, tc, lvl, cc, wc, et, flags] => do
    let id ← unhexS id; let text ← unhexS text; let title ← unhexS title; let sect ← unhexS sect
    let path ← parseList path; let parent ← unhexS parent
    let children ← parseList children; let etypes ← parseList etypes
    let hl ← hl.toInt?; let ps ← ps.toInt?; let pe ← pe.toInt?; let ci ← ci.toInt?; let tc ← tc.toInt?
    let lvl ← lvl.toInt?; let cc ← cc.toInt?; let wc ← wc.toInt?; let et ← et.toInt?
    let (ft, fl, fi) ← match flags.toList with
      | [a, b, c] => some (a == '1', b == '1', c == '1')
      | _ => none
    pure { id := id, text := text, md := {
      documentTitle := title, sectionPath := path, sectionTitle := sect, headingLevel := hl,
      pageStart := ps, pageEnd := pe, chunkIndex := ci, totalChunks := tc, level := lvl,
      parentID := parent, childIDs := children, elementTypes := etypes,
      hasTable := ft, hasList := fl, hasImage := fi, charCount := cc, wordCount := wc, estimatedTokens := et } }
  | _ => none

def parseChunks (s : String) : Option (List Chunk) :=
  if !s.startsWith "c=" then none else
  let body := (s.drop 2).toString
  if body == "" then some [] else (body.splitOn "/").mapM parseChunk

def parseFormat (s : String) : Format :=
  if s == "jsonl" then .jsonl else if s == "json" then .json else if s == "csv" then .csv
  else if s == "tsv" then .tsv else .other

def parseConfig (s : String) : Option Config :=
  if !s.startsWith "g=" then none else
  match ((s.drop 2).toString).splitOn ";" with
  | [fmt, im, fields, it, ie, fl, d, hd, pp, tcol, icol] => do
    let im ← parseBool im; let it ← parseBool it; let ie ← parseBool ie; let fl ← parseBool fl
    let hd ← parseBool hd; let pp ← parseBool pp
    let di ← d.toInt?
    let d : Nat := if di < 0 then 0x110000 else di.toNat   -- a negative rune is as invalid as one above U+10FFFF
    let tcol ← unhexS tcol; let icol ← unhexS icol
    let fields ← if fields == "~" then some none
      else if fields == "=" then some (some [])
      else if fields.startsWith "=" then ((fields.drop 1).toString.splitOn ",").mapM unhexS |>.map some
      else none
    pure { format := parseFormat fmt, includeMetadata := im, metadataFields := fields, includeText := it,
           includeEmbeddings := ie, flattenMetadata := fl, csvDelimiter := d, includeHeader := hd,
           prettyPrint := pp, textColumnName := tcol, chunkIDColumnName := icol }
  | _ => none

def dumpRow (r : List Str) : String := if r.isEmpty then "~" else ",".intercalate (r.map hexS)
def dumpRows (rs : List (List Str)) : String :=
  if rs.isEmpty then "none" else ";".intercalate (rs.map dumpRow)

def dumpVal : Val → String
  | .str s => "s" ++ hexS s
  | .int i => "i" ++ toString i
  | .bool b => if b then "b1" else "b0"
  | .strs l => "l" ++ "+".intercalate (l.map hexS)
  | .obj _ => "o"

def sortKV (m : MapSV) : MapSV :=
  let keys := sortStrings (mapKeys m)
  keys.filterMap (fun k => (mapLookup m k).map (fun v => (k, v)))

def dumpMap (m : MapSV) : String :=
  if m.isEmpty then "~" else ",".intercalate ((sortKV m).map (fun (k, v) => hexS k ++ ":" ++ dumpVal v))

def b01 (b : Bool) : String := if b then "1" else "0"

def dumpPath (l : List Str) : String := if l.isEmpty then "~" else ",".intercalate (l.map hexS)

def dumpExported (e : Exported) : String :=
  "|".intercalate [hexS e.id, hexS e.text,
    (match e.metadata with | none => "~" | some m => dumpMap m),
    hexS e.documentTitle, toString e.pageStart, toString e.pageEnd, toString e.chunkIndex,
    hexS e.sectionTitle, dumpPath e.sectionPath, b01 e.hasTable ++ b01 e.hasList ++ b01 e.hasImage]

def dumpRecords (rs : List Exported) : String :=
  if rs.isEmpty then "none" else ";".intercalate (rs.map dumpExported)

def noMarshal (_ : MapSV) : Str := []

def parseRows (s : String) : Option (List (List Str)) :=
  if !s.startsWith "r=" then none else
  let body := (s.drop 2).toString
  if body == "" then some [] else
  (body.splitOn ";").mapM (fun r => if r == "~" then some [] else (r.splitOn ",").mapM unhexS)

def parseVal (s : String) : Option Val :=
  if s.startsWith "s" then (unhexS (s.drop 1).toString).map Val.str
  else if s.startsWith "i" then ((s.drop 1).toString.toInt?).map Val.int
  else if s == "b1" then some (.bool true) else if s == "b0" then some (.bool false)
  else if s == "l" then some (.strs [])
  else if s.startsWith "l" then (((s.drop 1).toString.splitOn "+").mapM unhexS).map Val.strs
  else none

/-- prefix-notation tokens of a nested map value -/
partial def parseTok : List String → Option (Val × List String)
  | [] => none
  | t :: rest =>
    if t.startsWith "o" then
      match (t.drop 1).toString.toNat? with
      | none => none
      | some n =>
        let rec entries (n : Nat) (toks : List String) (acc : List (Str × Val)) : Option (List (Str × Val) × List String) :=
          match n with
          | 0 => some (acc.reverse, toks)
          | n + 1 =>
            match toks with
            | k :: more =>
              match unhexS k, parseTok more with
              | some k, some (v, rest') => entries n rest' ((k, v) :: acc)
              | _, _ => none
            | [] => none
        match entries n rest [] with
        | some (kvs, rest') => some (.obj kvs, rest')
        | none => none
    else (parseVal t).map (fun v => (v, rest))

def asciiLower (c : Nat) : Nat := if 65 ≤ c && c ≤ 90 then c + 32 else c
/-- `strings.EqualFold` restricted to what the harness sends (ASCII element types) -/
def asciiEqFold (a b : Str) : Bool := a.map asciiLower == b.map asciiLower

def parseLower (s : String) : Option (List (Str × Str)) :=
  if !s.startsWith "L=" then none else
  let body := (s.drop 2).toString
  if body == "" then some [] else
  (body.splitOn ",").mapM (fun p => match p.splitOn ">" with
    | [a, b] => do let a ← unhexS a; let b ← unhexS b; pure (a, b)
    | _ => none)

def parseOp (s : String) : Option FilterOp :=
  match s.splitOn ":" with
  | ["sec", h] => (unhexS h).map FilterOp.section
  | ["page", n] => n.toInt?.map FilterOp.page
  | ["range", a, b] => do let a ← a.toInt?; let b ← b.toInt?; pure (.pageRange a b)
  | ["etype", h] => (unhexS h).map FilterOp.elementType
  | ["tables"] => some .tables
  | ["lists"] => some .lists
  | ["images"] => some .images
  | ["min", n] => n.toInt?.map FilterOp.minTokens
  | ["max", n] => n.toInt?.map FilterOp.maxTokens
  | ["search", h] => (unhexS h).map FilterOp.search
  | _ => none

def parseChain (s : String) : Option (List FilterOp) :=
  if !s.startsWith "f=" then none else
  let body := (s.drop 2).toString
  if body == "" then some [] else (body.splitOn "+").mapM parseOp

/-! ### part 2: configurations, specification rows, batch runs, stream calls, vector databases -/

def dumpFields (f : Option (List Str)) : String :=
  match f with
  | none => "~"
  | some l => "=" ++ ",".intercalate (l.map hexS)

def formatName : Format → String
  | .jsonl => "jsonl" | .json => "json" | .csv => "csv" | .tsv => "tsv" | .other => "other"

def dumpConfig (c : Config) : String :=
  "g=" ++ ";".intercalate [formatName c.format, b01 c.includeMetadata, dumpFields c.metadataFields, b01 c.includeText,
    b01 c.includeEmbeddings, b01 c.flattenMetadata, toString c.csvDelimiter, b01 c.includeHeader, b01 c.prettyPrint,
    hexS c.textColumnName, hexS c.chunkIDColumnName]

def configByName (n : String) : Option Config :=
  if n == "default" then some defaultExportConfig
  else if n == "jsonl" then some jsonlExportConfig
  else if n == "csv" then some csvExportConfig
  else if n == "tsv" then some tsvExportConfig
  else if n == "tojson" then some toJSONConfig
  else if n == "vectordb" then some vectorDBExportConfig
  else none

def specRows (cfg : Config) (cs : List Chunk) : List (List Str) :=
  let cols := collectCSVColumns cfg cs
  (if cfg.includeHeader then [cols] else []) ++ cs.map (fun c => cols.map (cellSpec cfg c))

/-- `ExportToString` of a batch, its text dropped (the op compares the control flow of the batch
loop; the `Data` texts are compared by c14.tostring / c14.export on the first batch) -/
def exportSucceeds (cfg : Config) (items : List Chunk) : Option Unit :=
  (exportToStringR cfg items).map (fun _ => ())

def dumpBatchResult : BatchResult → String
  | .ok => "ok"
  | .callbackErr n => s!"cberr:{n}"
  | .exportErr s => s!"experr:{s}"

def dumpBatchRun (r : List (Batch Chunk × Unit) × BatchResult) : String :=
  dumpBatchResult r.2 ++ "|" ++
    (if r.1.isEmpty then "none" else
      ",".intercalate (r.1.map fun p => s!"{p.1.batchNumber}:{p.1.startIndex}:{p.1.endIndex}:{p.1.chunkCount}"))

def parseCall (cs : List Chunk) (s : String) : Option StreamCall :=
  if s == "x" then some .close
  else if s.startsWith "w" then
    match ((s.drop 1).toString).splitOn ":" with
    | [i, idx] => do
      let i ← i.toNat?; let idx ← idx.toInt?
      let c ← cs[i]?
      pure (.write c idx)
    | _ => none
  else none

def parseCalls (cs : List Chunk) (s : String) : Option (List StreamCall) :=
  if !s.startsWith "k=" then none else
  let body := (s.drop 2).toString
  if body == "" then some [] else (body.splitOn ",").mapM (parseCall cs)

/-- embedding components travel as the JSON text of the float (byte strings in the model) -/
def parseEmb (s : String) : Option (Emb Str) :=
  if s == "n" then some none
  else if s == "v" then some (some [])
  else if s.startsWith "v" then some (some (((s.drop 1).toString.splitOn ",").map (fun t => toStr t.toUTF8.toList)))
  else none

def parseEmbs (s : String) : Option (List (Emb Str)) :=
  if !s.startsWith "e=" then none else
  let body := (s.drop 2).toString
  if body == "" then some [] else (body.splitOn "/").mapM parseEmb

def strOfStr (s : Str) : String := String.ofList (s.map Char.ofNat)

def dumpToks (l : List Str) : String := if l.isEmpty then "~" else "+".intercalate (l.map strOfStr)

def dumpEmb : Emb Str → String
  | none => "n"
  | some l => "v" ++ ",".intercalate (l.map strOfStr)

def dumpList (l : List String) : String := if l.isEmpty then "none" else ";".intercalate l

def dumpPinecone (rs : List (PineconeRecord Str)) : String :=
  dumpList (rs.map fun r => hexS r.id ++ "|" ++ dumpToks r.values ++ "|" ++ dumpMap r.metadata)

def dumpChroma (r : ChromaRecord Str) : String :=
  dumpPath r.ids ++ "|" ++ dumpPath r.documents ++ "|" ++
    (match r.embeddings with | none => "~" | some es => "/".intercalate (es.map dumpEmb)) ++ "|" ++
    dumpList (r.metadatas.map dumpMap)

def dumpWeaviate (os : List (WeaviateObject Str)) : String :=
  dumpList (os.map fun o => hexS o.cls ++ "|" ++ hexS o.id ++ "|" ++ dumpMap o.properties ++ "|" ++ dumpToks o.vector)

def dumpPrepared (rs : List EmbeddingRecord) : String :=
  dumpList (rs.map fun r => hexS r.id ++ "|" ++ hexS r.text ++ "|" ++ dumpMap r.metadata)

/-! ### part 5: inverse reader, rune delimiters, every batch size, files -/

def dumpChunkW (c : Chunk) : String :=
  ".".intercalate [hexS c.id, hexS c.text, hexS c.md.documentTitle, hexS c.md.sectionTitle, dumpPath c.md.sectionPath,
    hexS c.md.parentID, dumpPath c.md.childIDs, dumpPath c.md.elementTypes, toString c.md.headingLevel,
    toString c.md.pageStart, toString c.md.pageEnd, toString c.md.chunkIndex, toString c.md.totalChunks,
    toString c.md.level, toString c.md.charCount, toString c.md.wordCount, toString c.md.estimatedTokens,
    b01 c.md.hasTable ++ b01 c.md.hasList ++ b01 c.md.hasImage]

def dumpChunksW (cs : List Chunk) : String := "c=" ++ "/".intercalate (cs.map dumpChunkW)

def parseRune (s : String) : Option Nat :=
  s.toInt?.map (fun i => if i < 0 then 0x110000 else i.toNat)

def parseNames (pfx : String) (s : String) : Option (List Str) :=
  if !s.startsWith pfx then none else
  let body := (s.drop pfx.length).toString
  if body == "" then some [] else (body.splitOn ",").mapM unhexS

def kOld : Str := [79, 76, 68]   -- "OLD"

def parsePre (s : String) : Option FS :=
  if s == "p=-" then some []
  else if s.startsWith "p=" then (unhexS (s.drop 2).toString).map (fun n => [(n, kOld)])
  else none

def dumpFS (fs : FS) : String :=
  if fs.isEmpty then "none" else
  ",".intercalate ((sortStrings (fs.map (·.1))).filterMap fun n => (fsRead fs n).map fun d => hexS n ++ ":" ++ hexS d)

def dumpBatchResultI : BatchResultI → String
  | .ok => "ok"
  | .sizeErr => "sizeerr"
  | .callbackErr n => s!"cberr:{n}"
  | .exportErr s => s!"experr:{s}"

def dumpCalls (calls : List (Batch Chunk × Unit)) : String :=
  if calls.isEmpty then "none" else
    ",".intercalate (calls.map fun p => s!"{p.1.batchNumber}:{p.1.startIndex}:{p.1.endIndex}:{p.1.chunkCount}")

def dumpView (v : VdbView) : String :=
  "|".intercalate [hexS v.id, hexS v.text, hexS v.title, toString v.pageStart, hexS v.sectionTitle,
    toString v.chunkIndex, dumpToks v.vector]

def kOutDat : Str := [111, 117, 116, 46, 100, 97, 116]   -- "out.dat"

def handle5 (op : String) (args : List String) : String :=
  match op, args with
  | "c14.decode", [g, h] =>
    (match parseConfig g, unhexS h with
     | some cfg, some text =>
       (match decodeExportR cfg text with
        | some cs => dumpChunksW cs
        | none => "err")
     | _, _ => "bad-op")
  | "c14.project", [g, b, c] =>
    (match parseConfig g, parseBool b, parseChunks c with
     | some cfg, some b, some cs =>
       String.join (cs.map fun c => b01 (chunkNormal c)) ++ "|" ++ dumpChunksW (cs.map (projectChunk b cfg))
     | _, _, _ => "bad-op")
  | "c14.csvr", [r, rows] =>
    (match parseRune r, parseRows rows with
     | some r, some rows =>
       if rows.isEmpty then hexS []
       else if Tabula.Csv.validDelimR r then hexS (Tabula.Csv.csvWriteR goExtra (Tabula.Csv.runeBytes r) rows)
       else "invalid"
     | _, _ => "bad-op")
  | "c14.csvreadr", [r, h] =>
    (match parseRune r, unhexS h with
     | some r, some input =>
       (match Tabula.Csv.csvReadR (Tabula.Csv.runeBytes r) input with
        | some rows => dumpRows rows
        | none => "err")
     | _, _ => "bad-op")
  | "c14.batchint", [g, size, fail, c] =>
    (match parseConfig g, size.toInt?, fail.toInt?, parseChunks c with
     | some cfg, some size, some fail, some cs =>
       let r := batchExportRunInt size (exportSucceeds cfg) (fun b _ => decide ((b.batchNumber : Int) ≠ fail)) cs
       dumpBatchResultI r.2 ++ "|" ++ dumpCalls r.1
     | _, _, _, _ => "bad-op")
  | "c14.tofile", [g, ok, pre, c] =>
    (match parseConfig g, parseBool ok, parsePre pre, parseChunks c with
     | some cfg, some ok, some fs, some cs =>
       let r := collExportToFile (fun _ => ok) cs kOutDat cfg fs
       (match r.2 with | .ok => "ok" | .createErr => "createerr" | .exportErr => "experr") ++ "|" ++
         (match fsRead r.1 kOutDat with | some d => hexS d | none => "nofile")
     | _, _, _, _ => "bad-op")
  | "c14.fmtname", [i] =>
    (match i.toInt? with
     | some i => hexS (formatString (formatOfInt i)) ++ " " ++ hexS (fileExtension (formatOfInt i))
     | none => "bad-op")
  | "c14.vdbdecode", [w, h] =>
    (match unhexS h with
     | some text =>
       if w == "W" then
         (match decodeWeaviateText text with
          | some rs => dumpList (rs.map fun r => hexS r.1 ++ "|" ++ dumpView r.2)
          | none => "err")
       else if w == "P" then
         (match decodePineconeText text with
          | some rs => dumpList (rs.map dumpView)
          | none => "err")
       else if w == "C" then
         (match decodeChromaText text with
          | some rs => dumpList (rs.map dumpView)
          | none => "err")
       else "bad-op"
     | none => "bad-op")
  | "c14.tofiles", [g, size, names, mask, pre, c] =>
    (match parseConfig g, size.toInt?, parseNames "n=" names, parseNames "m=" mask, parsePre pre, parseChunks c with
     | some cfg, some size, some names, some mask, some fs, some cs =>
       let r := exportToFiles (fun n => !mask.contains n) (fun k => (names[k]?).getD []) cfg size cs fs
       dumpBatchResultI r.2 ++ "|" ++ dumpFS r.1
     | _, _, _, _, _, _ => "bad-op")
  | _, _ => "bad-op"

/-! ### part 4: collection accessors -/

def dumpChunkRef : Option Chunk → String
  | none => "nil"
  | some c => hexS c.id ++ "/" ++ hexS c.text

def dumpStats (s : Stats) : String :=
  ",".intercalate [toString s.totalChunks, toString s.totalTokens, toString s.totalWords, toString s.totalChars,
    toString s.avgTokens, toString s.minTokens, toString s.maxTokens, toString s.withTables, toString s.withLists,
    toString s.withImages, toString s.uniqueSections, toString s.pageStart, toString s.pageEnd]

def handle4 (op : String) (args : List String) : String :=
  match op, args with
  | "c14.coll", [f, id, i, c] =>
    (match parseChain f, unhexS id, i.toInt?, parseChunks c with
     | some ops, some id, some i, some cs =>
       let env : StrEnv := { toLower := fun s => s, eqFold := asciiEqFold }
       let r := applyChain env ops cs
       "|".intercalate [toString (collCount r), dumpChunkRef (collFirst r), dumpChunkRef (collLast r),
         dumpChunkRef (collGetByIndex r i), dumpChunkRef (collGetByID id r), dumpPath (collSections r),
         toString (collPageRange r).1 ++ ":" ++ toString (collPageRange r).2,
         toString (collTotalTokens r 0), toString (collTotalWords r 0), dumpStats (collStatistics r)]
     | _, _, _, _ => "bad-op")
  | _, _ => handle5 op args

/-! ### part 3: text level of the JSON formats -/

open Tabula.Json in
partial def dumpJ : J → String
  | .null => "z"
  | .bool b => if b then "t" else "f"
  | .num raw => "n" ++ strOfStr raw
  | .str s => "s" ++ hexS s
  | .arr l => "[" ++ ",".intercalate (l.map dumpJ) ++ "]"
  | .obj ms => "{" ++ ",".intercalate (ms.map fun (k, v) => hexS k ++ ":" ++ dumpJ v) ++ "}"

def okHex (o : Option Str) : String :=
  match o with
  | some t => "ok " ++ hexS t
  | none => "err"

def handle3 (op : String) (args : List String) : String :=
  match op, args with
  | "c14.tostring", [g, c] =>
    (match parseConfig g, parseChunks c with
     | some cfg, some cs => okHex (exportToStringR cfg cs)
     | _, _ => "bad-op")
  | "c14.short", [n, c] =>
    (match parseChunks c with
     | some cs =>
       if n == "ToJSON" then okHex (toJSON cs) else if n == "ToJSONL" then okHex (toJSONL cs)
       else if n == "ToCSV" then okHex (toCSV cs) else if n == "ToTSV" then okHex (toTSV cs) else "bad-op"
     | none => "bad-op")
  | "c14.streamtext", [g, k, c] =>
    (match parseConfig g, parseChunks c with
     | some cfg, some cs =>
       (match parseCalls cs k with
        | some calls => hexS (streamText (streamRun cfg calls ⟨[], []⟩).written)
        | none => "bad-op")
     | _, _ => "bad-op")
  | "c14.vdbtext", [e, cls, c] =>
    (match parseEmbs e, unhexS cls, parseChunks c with
     | some embs, some cls, some cs =>
       "P " ++ hexS (pineconeText cs embs) ++ " C " ++ hexS (chromaText cs embs) ++ " W " ++ hexS (weaviateText cls cs embs)
     | _, _, _ => "bad-op")
  | "c14.quote", [h] =>
    (match unhexS h with
     | some s => hexS (Tabula.Json.quote s)
     | none => "bad-op")
  | "c14.fmtobj", [t] =>
    (match parseTok (t.splitOn ",") with
     | some (.obj kvs, []) => hexS (formatValue goMarshal (.obj kvs))
     | _ => "bad-op")
  | "c14.jsonread", [h] =>
    (match unhexS h with
     | some s => (match Tabula.Json.jsonRead s with | some v => dumpJ v | none => "err")
     | none => "bad-op")
  | "c14.jsonlread", [h] =>
    (match unhexS h with
     | some s => (match Tabula.Json.jsonlRead s with | some vs => dumpList (vs.map dumpJ) | none => "err")
     | none => "bad-op")
  | _, _ => handle4 op args

def handle2 (op : String) (args : List String) : String :=
  match op, args with
  | "c14.cfg", [n] =>
    (match configByName n with
     | some c => dumpConfig c
     | none => "bad-op")
  | "c14.spec", [g, c] =>
    (match parseConfig g, parseChunks c with
     | some cfg, some cs => dumpRows (specRows cfg cs)
     | _, _ => "bad-op")
  | "c14.batchrun", [g, size, fail, c] =>
    (match parseConfig g, size.toNat?, fail.toInt?, parseChunks c with
     | some cfg, some size, some fail, some cs =>
       (match batchExportRun size (exportSucceeds cfg) (fun b _ => decide ((b.batchNumber : Int) ≠ fail)) cs with
        | none => "size0"
        | some r => dumpBatchRun r)
     | _, _, _, _ => "bad-op")
  | "c14.calls", [g, k, c] =>
    (match parseConfig g, parseChunks c with
     | some cfg, some cs =>
       (match parseCalls cs k with
        | some calls =>
          let st := streamRun cfg calls ⟨[], []⟩
          String.join (st.results.map b01) ++ "|" ++ dumpRecords st.written
        | none => "bad-op")
     | _, _ => "bad-op")
  | "c14.vdb", [e, cls, c] =>
    (match parseEmbs e, unhexS cls, parseChunks c with
     | some embs, some cls, some cs =>
       "P " ++ dumpPinecone (pineconeVectors cs embs) ++ " C " ++ dumpChroma (chromaRecord cs embs) ++
       " W " ++ dumpWeaviate (weaviateObjects cls cs embs) ++ " R " ++ dumpPrepared (prepareForVectorDB cs)
     | _, _, _ => "bad-op")
  | _, _ => handle3 op args

def handle (op : String) (args : List String) : String :=
  match op, args with
  | "c14.csvcols", [g, c] =>
    (match parseConfig g, parseChunks c with
     | some cfg, some cs => dumpRow (collectCSVColumns cfg cs)
     | _, _ => "bad-op")
  | "c14.rows", [g, c] =>
    (match parseConfig g, parseChunks c with
     | some cfg, some cs => dumpRows (exportCSVRecords noMarshal cfg cs)
     | _, _ => "bad-op")
  | "c14.export", [g, c] =>
    (match parseConfig g, parseChunks c with
     | some cfg, some cs =>
       (match exportCSVR noMarshal cfg cs with
        | some t => "ok " ++ hexS t
        | none => "err")
     | _, _ => "bad-op")
  | "c14.json", [g, c] =>
    (match parseConfig g, parseChunks c with
     | some cfg, some cs => dumpRecords (exportRecords cfg cs)
     | _, _ => "bad-op")
  | "c14.stream", [g, c] =>
    (match parseConfig g, parseChunks c with
     | some cfg, some cs =>
       (match streamAll cfg cs [] with
        | some rs => "ok " ++ dumpRecords rs
        | none => "err")
     | _, _ => "bad-op")
  | "c14.batch", [size, n] =>
    (match size.toNat?, n.toNat? with
     | some size, some n =>
       (match batchExport size (List.range n) with
        | none => "size0"
        | some bs =>
          if bs.isEmpty then "none" else
          ",".intercalate (bs.map fun b =>
            s!"{b.batchNumber}:{b.startIndex}:{b.endIndex}:{b.chunkCount}:" ++
              "+".intercalate (b.items.map toString)))
     | _, _ => "bad-op")
  | "c14.filt", [f, l, c] =>
    (match parseChain f, parseLower l, parseChunks c with
     | some ops, some tbl, some cs =>
       let env : StrEnv := { toLower := fun s => (tbl.lookup s).getD s, eqFold := asciiEqFold }
       let r := applyChain env ops cs
       if r.isEmpty then "none" else ",".intercalate (r.map (hexS ·.id))
     | _, _, _ => "bad-op")
  | "c14.csv", [d, r] =>
    (match d.toNat?, parseRows r with
     | some d, some rows => hexS (csvWrite goExtra d rows)
     | _, _ => "bad-op")
  | "c14.csvread", [d, h] =>
    (match d.toNat?, unhexS h with
     | some d, some input =>
       (match csvRead d input with
        | some rows => dumpRows rows
        | none => "err")
     | _, _ => "bad-op")
  | "c14.fmtval", [v] =>
    (match parseVal v with
     | some v => hexS (formatValue noMarshal v)
     | none => "bad-op")
  | "c14.meta2map", [c] =>
    (match parseChunk c with
     | some c => dumpMap (chunkMetadataToMap c.md)
     | none => "bad-op")
  | "c14.flatten", [t] =>
    (match parseTok (t.splitOn ",") with
     | some (.obj kvs, []) => dumpMap (flattenMetadata kvs [])
     | _ => "bad-op")
  | _, _ => handle2 op args

end Tabula.C14H
