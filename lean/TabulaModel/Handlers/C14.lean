import TabulaModel.Util
namespace Tabula.C14H

def handle (_op : String) (_args : List String) : String := "bad-op"

end Tabula.C14H
