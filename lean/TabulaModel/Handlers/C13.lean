import TabulaModel.Util
import TabulaModel.Model.Split
import TabulaModel.Model.Overlap
import TabulaModel.Model.Sentences
import TabulaModel.Model.SemBoundary
import TabulaModel.Model.OverlapApi
/-!
Line protocol of C13 (all byte strings lower-case hex, `-` = empty):

* `c13.split <unit>:<max>:<tpcNum>/<tpcDen>:<sem> <text>` → `[p1,p2,…]`
  (`SplitToSize(text, nil)`; unit 0 characters, 1 tokens, 2 words, 3 sentences, 4 paragraphs)
* `c13.doc <same cfg> <para1,para2,…>` → `[t1,t2,…]` (chunk texts of `ChunkDocumentWithConfig`)
* `c13.ovl <strategy>:<size>:<min>:<max>:<preserveWords>:<ctx> <classes> <titles> <chunks>`
  → `[has/prefix/text,…]` (`ApplyOverlapToChunks`; strategy 0 none, 1 character, 2 sentence,
  3 paragraph; classes = `cp.flags.lower,…` for every non-ASCII character, flags 1 upper,
  2 letter, 4 digit, 8 space, 16 lower-case; `-` if none)
* `c13.cwo <overlapSize>:<sentences>:<ctx> <classes> <titles> <chunks>` → same, with the
  overlap configuration derived as `ChunkWithOverlapEnabled` derives it.
* `c13.splitb <cfg> <pos:score,…> <text>` → `[p1,…]` (`SplitToSize(text, boundaries)`)
* `c13.fsp <cfg> <limit> <unit> <pos:score,…> <text>` → split position
  (`FindSplitPointAt`, and `FindSplitPoint` with that target)
* `c13.size <cfg> <text>` → `chars:tokens:words:sentences:paragraphs` (`Calculate`)
* `c13.preset <name> [<max>]` → `<cfg>` of the preset constructor
* `c13.sent <classes> <text>` → `[s1,…]` (`splitIntoSentences` of chunker.go)
* `c13.chunk <max>:<min> <classes> <paras>` → chunk texts of `Chunker.Chunk` on a document of
  layout paragraphs
* `c13.cwe <max>:<min>:<overlapSize>:<sentences>:<ctx> <classes> <paras>` → `[has/prefix/text,…]`
  of `Chunker.ChunkWithOverlapEnabled` on the same kind of document (end to end)
* `c13.docp <cfg> <page1>;<page2>;…` → chunk texts of `ChunkDocumentWithConfig` on several pages
  (each page a list of paragraphs, `_` = no paragraph)
* `c13.nonspace <text>` → the text without its White_Space characters (`stripWs`, the
  specification-side function of the conservation theorems; the harness computes it from
  `unicode.IsSpace`)

Round 6 (`Model/SemBoundary.lean`, `Model/OverlapApi.lean`):

* `c13.detect <blocks>` → `ty:pos:score:elem,…` (`DetectBoundaries`; blocks =
  `<elementType>.<isListIntro>.<text>,…`, `-` = none)
* `c13.splitd <cfg> <blocks>` → `[p1,…]` (`SplitToSize(join(blocks, "\n\n"), DetectBoundaries(blocks))`)
* `c13.best <minPos> <maxPos> <pos:score,…>` → `pos:score` or `none` (`FindBestBoundary`)
* `c13.look <lookAheadChars> <target> <pos:score,…>` → same (`FindBoundaryWithLookAhead`)
* `c13.orphan <minOrphanSize> <position> <pos:score,…> <text>` → `<would>/<adjusted>`
  (`WouldCreateOrphan` 0/1, `AdjustForOrphans`; `panic` where the code indexes out of range)
* `c13.orig <ovl cfg> <classes> <titles> <chunks>` →
  `[original/hasSuffix/suffix/chars:words:tokens,…]` (`GetOriginalText`, `HasOverlapSuffix`,
  `OverlapSuffix` and the rewritten metadata of every chunk `ApplyOverlapToChunks` returns)
* `c13.gen <ovl cfg> <classes> <text>` → `text/charCount/sentenceCount/strategy` (`GenerateOverlap`)
* `c13.content <text>` → the non-whitespace characters of `string([]rune(text))` (`content`, the
  specification-side function of the overlap theorems for arbitrary bytes)
* `c13.conv <value> <from> <to>` → `ConvertSize`
* `c13.defovl` → `DefaultOverlapConfig` as an `<ovl cfg>`
-/
namespace Tabula.C13H
open Tabula Tabula.Split Tabula.Overlap

def toStr (b : Bytes) : Str := b.map (·.toNat)
def ofStr (s : Str) : Bytes := s.map UInt8.ofNat
def hexS (s : Str) : String := hex (ofStr s)
def unhexS (s : String) : Option Str := (unhex s).map toStr

def parseHexList (s : String) : Option (List Str) :=
  if s == "" then some [] else (s.splitOn ",").mapM unhexS

def dumpList (ps : List Str) : String := "[" ++ ",".intercalate (ps.map hexS) ++ "]"

def unitOf : Nat → Option SizeUnit
  | 0 => some .characters | 1 => some .tokens | 2 => some .words
  | 3 => some .sentences | 4 => some .paragraphs | _ => none

def parseCfg (s : String) : Option SizeConfig :=
  match s.splitOn ":" with
  | [u, m, tpc, sem] =>
    match tpc.splitOn "/" with
    | [n, d] => do
      let u ← u.toNat? >>= unitOf
      let m ← m.toNat?
      let n ← n.toInt?
      let d ← d.toNat?
      pure { maxValue := m, maxUnit := u, tpcNum := n, tpcDen := d, sem := sem == "1" }
    | _ => none
  | _ => none

def parseClass (s : String) : Option (Nat × RuneClass) :=
  match s.splitOn "." with
  | [cp, f, lo] => do
    let cp ← cp.toNat?
    let f ← f.toNat?
    let lo ← lo.toNat?
    pure (cp, { upper := f % 2 == 1, letter := f / 2 % 2 == 1, digit := f / 4 % 2 == 1,
                space := f / 8 % 2 == 1, lower := lo, isLower := f / 16 % 2 == 1 })
  | _ => none

def parseClasses (s : String) : Option (List (Nat × RuneClass)) :=
  if s == "-" then some [] else (s.splitOn ",").mapM parseClass

def dumpOvl (rs : List OverlapOut) : String :=
  "[" ++ ",".intercalate (rs.map fun r =>
    s!"{if r.has then 1 else 0}/{hexS r.pref}/{hexS r.text}") ++ "]"

def parseOvlCfg (s : String) : Option OverlapConfig :=
  match (s.splitOn ":").mapM String.toNat? with
  | some [st, size, mn, mx, pw, ctx] =>
    some { strategy := st, size := size, minOverlap := mn, maxOverlap := mx,
           preserveWords := pw == 1, includeHeadingContext := ctx == 1 }
  | _ => none

def parseBoundary (s : String) : Option Boundary :=
  match s.splitOn ":" with
  | [p, sc] => do
    let p ← p.toNat?
    let sc ← sc.toInt?
    pure { pos := p, score := sc }
  | _ => none

def parseBoundaries (s : String) : Option (List Boundary) :=
  if s == "-" then some [] else (s.splitOn ",").mapM parseBoundary

def unitNo : SizeUnit → Nat
  | .characters => 0 | .tokens => 1 | .words => 2 | .sentences => 3 | .paragraphs => 4

def dumpCfg (c : SizeConfig) : String :=
  s!"{unitNo c.maxUnit}:{c.maxValue}:{c.tpcNum}/{c.tpcDen}:{if c.sem then 1 else 0}"

/-- the ops added by the deepening round (entry points, boundaries, presets) -/
def handleApi (op : String) (args : List String) : Option String :=
  match op, args with
  | "c13.splitb", [cfg, bs, text] =>
    match parseCfg cfg, parseBoundaries bs, unhexS text with
    | some c, some bs, some t => some (dumpList (splitToSize c t bs))
    | _, _, _ => some "bad-op"
  | "c13.fsp", [cfg, limit, unit, bs, text] =>
    match parseCfg cfg, limit.toNat?, unit.toNat? >>= unitOf, parseBoundaries bs, unhexS text with
    | some c, some l, some u, some bs, some t => some (toString (findSplitPoint c t bs l u))
    | _, _, _, _, _ => some "bad-op"
  | "c13.size", [cfg, text] =>
    match parseCfg cfg, unhexS text with
    | some c, some t =>
      let m := calculate c t
      some s!"{m.characters}:{m.tokens}:{m.words}:{m.sentences}:{m.paragraphs}"
    | _, _ => some "bad-op"
  | "c13.sent", [classes, text] =>
    match parseClasses classes, unhexS text with
    | some cl, some t => some (dumpList (Tabula.Sentences.splitIntoSentences cl t))
    | _, _ => some "bad-op"
  | "c13.chunk", [cfg, classes, paras] =>
    match (cfg.splitOn ":").mapM String.toNat?, parseClasses classes, parseHexList paras with
    | some [mx, mn], some cl, some ps => some (dumpList (Tabula.Sentences.chunkParagraphDoc cl mx mn ps))
    | _, _, _ => some "bad-op"
  | "c13.cwe", [cfg, classes, paras] =>
    match (cfg.splitOn ":").mapM String.toNat?, parseClasses classes, parseHexList paras with
    | some [mx, mn, size, sent, ctx], some cl, some ps =>
      some (dumpOvl (Tabula.Sentences.chunkWithOverlapEnabled cl mx mn size (sent == 1) (ctx == 1) ps))
    | _, _, _ => some "bad-op"
  | "c13.docp", [cfg, pages] =>
    match parseCfg cfg, (pages.splitOn ";").mapM (fun p => if p == "_" then some [] else parseHexList p) with
    | some c, some ps => some (dumpList (docChunksPages c ps))
    | _, _ => some "bad-op"
  | "c13.nonspace", [text] =>
    match unhexS text with
    | some t => some (hexS (stripWs t))
    | none => some "bad-op"
  | "c13.preset", [name] =>
    match presetByName name with
    | some c => some (dumpCfg c)
    | none => some "bad-op"
  | "c13.preset", [name, mx] =>
    match name, mx.toNat? with
    | "token", some m => some (dumpCfg (tokenBasedSizeConfig m))
    | "semantic", some m => some (dumpCfg (semanticSizeConfig m))
    | _, _ => some "bad-op"
  | _, _ => none

open Tabula.SemBoundary Tabula.OverlapApi in
def parseBlock (s : String) : Option Block :=
  match s.splitOn "." with
  | [k, i, t] => do
    let k ← k.toNat?
    let t ← unhexS t
    pure { kind := Kind.ofWire k, text := t, intro := i == "1" }
  | _ => none

open Tabula.SemBoundary in
def parseBlocks (s : String) : Option (List Block) :=
  if s == "-" then some [] else (s.splitOn ",").mapM parseBlock

def dumpBoundary : Option Boundary → String
  | some b => s!"{b.pos}:{b.score}"
  | none => "none"

open Tabula.SemBoundary Tabula.OverlapApi in
/-- the ops of round 6 (boundary detection, original text, overlap result, conversions) -/
def handleRound6 (op : String) (args : List String) : Option String :=
  match op, args with
  | "c13.detect", [blocks] =>
    match parseBlocks blocks with
    | some bl =>
      let ds := detectBoundaries bl
      some (if ds.isEmpty then "-" else
        ",".intercalate (ds.map fun d => s!"{d.ty.no}:{d.pos}:{d.score}:{d.elem}"))
    | none => some "bad-op"
  | "c13.splitd", [cfg, blocks] =>
    match parseCfg cfg, parseBlocks blocks with
    | some c, some bl =>
      some (dumpList (splitToSize c (joinBlocks bl) ((detectBoundaries bl).map DBoundary.toBoundary)))
    | _, _ => some "bad-op"
  | "c13.best", [mn, mx, bs] =>
    match mn.toInt?, mx.toNat?, parseBoundaries bs with
    | some mn, some mx, some bs => some (dumpBoundary (findBestBoundary bs mn mx))
    | _, _, _ => some "bad-op"
  | "c13.look", [la, target, bs] =>
    match la.toNat?, target.toNat?, parseBoundaries bs with
    | some la, some t, some bs => some (dumpBoundary (findBoundaryWithLookAhead bs la t))
    | _, _, _ => some "bad-op"
  | "c13.orphan", [mo, pos, bs, text] =>
    match mo.toNat?, pos.toNat?, parseBoundaries bs, unhexS text with
    | some mo, some pos, some bs, some t =>
      let w := match wouldCreateOrphan mo t pos with
        | some true => "1" | some false => "0" | none => "panic"
      let a := match adjustForOrphans mo t pos bs with
        | some q => toString q | none => "panic"
      some s!"{w}/{a}"
    | _, _, _, _ => some "bad-op"
  | "c13.orig", [cfg, classes, titles, chunks] =>
    match parseOvlCfg cfg, parseClasses classes, parseHexList titles, parseHexList chunks with
    | some c, some cl, some ts, some cs =>
      let outs := applyOverlapToChunks cl c cs ts
      let full := withSuffixes outs
      some ("[" ++ ",".intercalate ((outs.zip full).map fun (o, f) =>
        s!"{hexS (getOriginalText o)}/{if f.hasSuffix then 1 else 0}/{hexS f.suffix}/{f.charCount}:{f.wordCount}:{f.tokens}") ++ "]")
    | _, _, _, _ => some "bad-op"
  | "c13.gen", [cfg, classes, text] =>
    match parseOvlCfg cfg, parseClasses classes, unhexS text with
    | some c, some cl, some t =>
      let r := generateOverlapResult cl c t
      some s!"{hexS r.text}/{r.charCount}/{r.sentenceCount}/{r.strategy}"
    | _, _, _ => some "bad-op"
  | "c13.content", [text] =>
    match unhexS text with
    | some t => some (hexS (Tabula.Overlap.content t))
    | none => some "bad-op"
  | "c13.conv", [v, a, b] =>
    match v.toNat?, a.toNat? >>= unitOf, b.toNat? >>= unitOf with
    | some v, some a, some b => some (toString (convertSize v a b))
    | _, _, _ => some "bad-op"
  | "c13.defovl", [] =>
    let c := defaultOverlapConfig
    some s!"{c.strategy}:{c.size}:{c.minOverlap}:{c.maxOverlap}:{if c.preserveWords then 1 else 0}:{if c.includeHeadingContext then 1 else 0}"
  | _, _ => none

def handle (op : String) (args : List String) : String :=
  match handleRound6 op args with
  | some r => r
  | none =>
  match handleApi op args with
  | some r => r
  | none =>
  match op, args with
  | "c13.split", [cfg, text] =>
    match parseCfg cfg, unhexS text with
    | some c, some t => dumpList (splitToSize c t [])
    | _, _ => "bad-op"
  | "c13.doc", [cfg] =>
    match parseCfg cfg with
    | some c => dumpList (docChunks c [])
    | _ => "bad-op"
  | "c13.doc", [cfg, paras] =>
    match parseCfg cfg, parseHexList paras with
    | some c, some ps => dumpList (docChunks c ps)
    | _, _ => "bad-op"
  | "c13.ovl", [cfg, classes, titles, chunks] =>
    match parseOvlCfg cfg, parseClasses classes, parseHexList titles, parseHexList chunks with
    | some c, some cl, some ts, some cs => dumpOvl (applyOverlapToChunks cl c cs ts)
    | _, _, _, _ => "bad-op"
  | "c13.cwo", [cfg, classes, titles, chunks] =>
    match (cfg.splitOn ":").mapM String.toNat?, parseClasses classes, parseHexList titles, parseHexList chunks with
    | some [size, sent, ctx], some cl, some ts, some cs =>
      dumpOvl (applyOverlapToChunks cl (chunkerOverlapConfig size (sent == 1) (ctx == 1)) cs ts)
    | _, _, _, _ => "bad-op"
  | _, _ => "bad-op"

end Tabula.C13H
