import TabulaModel.Util
namespace Tabula.C13H

def handle (_op : String) (_args : List String) : String := "bad-op"

end Tabula.C13H
