import TabulaModel.Util
import TabulaModel.Model.Split
import TabulaModel.Model.Overlap
/-!
Line protocol of C13 (all byte strings lower-case hex, `-` = empty):

* `c13.split <unit>:<max>:<tpcNum>/<tpcDen>:<sem> <text>` → `[p1,p2,…]`
  (`SplitToSize(text, nil)`; unit 0 characters, 1 tokens, 2 words, 3 sentences, 4 paragraphs)
* `c13.doc <same cfg> <para1,para2,…>` → `[t1,t2,…]` (chunk texts of `ChunkDocumentWithConfig`)
* `c13.ovl <strategy>:<size>:<min>:<max>:<preserveWords>:<ctx> <classes> <titles> <chunks>`
  → `[has/prefix/text,…]` (`ApplyOverlapToChunks`; strategy 0 none, 1 character, 2 sentence,
  3 paragraph; classes = `cp.flags.lower,…` for every non-ASCII character, flags 1 upper,
  2 letter, 4 digit, 8 space; `-` if none)
* `c13.cwo <overlapSize>:<sentences>:<ctx> <classes> <titles> <chunks>` → same, with the
  overlap configuration derived as `ChunkWithOverlapEnabled` derives it.
-/
namespace Tabula.C13H
open Tabula Tabula.Split Tabula.Overlap

def toStr (b : Bytes) : Str := b.map (·.toNat)
def ofStr (s : Str) : Bytes := s.map UInt8.ofNat
def hexS (s : Str) : String := hex (ofStr s)
def unhexS (s : String) : Option Str := (unhex s).map toStr

def parseHexList (s : String) : Option (List Str) :=
  if s == "" then some [] else (s.splitOn ",").mapM unhexS

def dumpList (ps : List Str) : String := "[" ++ ",".intercalate (ps.map hexS) ++ "]"

def unitOf : Nat → Option SizeUnit
  | 0 => some .characters | 1 => some .tokens | 2 => some .words
  | 3 => some .sentences | 4 => some .paragraphs | _ => none

def parseCfg (s : String) : Option SizeConfig :=
  match s.splitOn ":" with
  | [u, m, tpc, sem] =>
    match tpc.splitOn "/" with
    | [n, d] => do
      let u ← u.toNat? >>= unitOf
      let m ← m.toNat?
      let n ← n.toInt?
      let d ← d.toNat?
      pure { maxValue := m, maxUnit := u, tpcNum := n, tpcDen := d, sem := sem == "1" }
    | _ => none
  | _ => none

def parseClass (s : String) : Option (Nat × RuneClass) :=
  match s.splitOn "." with
  | [cp, f, lo] => do
    let cp ← cp.toNat?
    let f ← f.toNat?
    let lo ← lo.toNat?
    pure (cp, { upper := f % 2 == 1, letter := f / 2 % 2 == 1, digit := f / 4 % 2 == 1,
                space := f / 8 % 2 == 1, lower := lo })
  | _ => none

def parseClasses (s : String) : Option (List (Nat × RuneClass)) :=
  if s == "-" then some [] else (s.splitOn ",").mapM parseClass

def dumpOvl (rs : List OverlapOut) : String :=
  "[" ++ ",".intercalate (rs.map fun r =>
    s!"{if r.has then 1 else 0}/{hexS r.pref}/{hexS r.text}") ++ "]"

def parseOvlCfg (s : String) : Option OverlapConfig :=
  match (s.splitOn ":").mapM String.toNat? with
  | some [st, size, mn, mx, pw, ctx] =>
    some { strategy := st, size := size, minOverlap := mn, maxOverlap := mx,
           preserveWords := pw == 1, includeHeadingContext := ctx == 1 }
  | _ => none

def handle (op : String) (args : List String) : String :=
  match op, args with
  | "c13.split", [cfg, text] =>
    match parseCfg cfg, unhexS text with
    | some c, some t => dumpList (splitToSize c t [])
    | _, _ => "bad-op"
  | "c13.doc", [cfg] =>
    match parseCfg cfg with
    | some c => dumpList (docChunks c [])
    | _ => "bad-op"
  | "c13.doc", [cfg, paras] =>
    match parseCfg cfg, parseHexList paras with
    | some c, some ps => dumpList (docChunks c ps)
    | _, _ => "bad-op"
  | "c13.ovl", [cfg, classes, titles, chunks] =>
    match parseOvlCfg cfg, parseClasses classes, parseHexList titles, parseHexList chunks with
    | some c, some cl, some ts, some cs => dumpOvl (applyOverlapToChunks cl c cs ts)
    | _, _, _, _ => "bad-op"
  | "c13.cwo", [cfg, classes, titles, chunks] =>
    match (cfg.splitOn ":").mapM String.toNat?, parseClasses classes, parseHexList titles, parseHexList chunks with
    | some [size, sent, ctx], some cl, some ts, some cs =>
      dumpOvl (applyOverlapToChunks cl (chunkerOverlapConfig size (sent == 1) (ctx == 1)) cs ts)
    | _, _, _, _ => "bad-op"
  | _, _ => "bad-op"

end Tabula.C13H
