import TabulaModel.Util
import TabulaModel.Model.Markdown
/-!
Line protocol of C15 (see harness/c15):
* `c15.mdtab <w> <rows>`      rows `;`-separated, cells `,`-separated hex → hex of `render w t`
* `c15.mdspan <w> <rows>`     cells `hex:span:cont` → hex of `renderSpan w t` (docx, odt)
* `c15.mdrow <w> <cells>`     → hex of `renderRow w cells`
* `c15.gfm <hex doc>`         → `none` | `ok <rows>` (`gfmTable`)
* `c15.splitrow <hex line>`   → `<cells> <count>` (`gfmSplitRow`)
* `c15.hlvl <l> <off> <max>`  → `headingLevel`;  `c15.hlvlrag …` → `headingLevelRag`
* `c15.atx <hex line>`        → `none` | `<level> <hex text>` (`parseAtx`)
* `c15.list <depth>:<o|u>:<num>:<hex text>` → hex of `listLine`
* `c15.listparse <hex line>`  → `none` | `<depth> <o|u> <hex text>` (`parseListLine`)
-/
namespace Tabula.C15H
open Tabula Tabula.Markdown

abbrev Str := List Nat
def toStr (b : Bytes) : Str := b.map (·.toNat)
def ofStr (s : Str) : Bytes := s.map UInt8.ofNat
def hexS (s : Str) : String := hex (ofStr s)
def unhexS (s : String) : Option Str := (unhex s).map toStr

def hexList (xs : List Str) : String := ",".intercalate (xs.map hexS)

def writerOf : String → Option Writer
  | "model" => some .model | "docx" => some .docx | "odt" => some .odt
  | "xlsx" => some .xlsx | "pptx" => some .pptx | "html" => some .html
  | _ => none

def parseRow (s : String) : Option (List Str) := (s.splitOn ",").mapM unhexS

def parseTable (s : String) : Option (List (List Str)) := (s.splitOn ";").mapM parseRow

def parseSCell (s : String) : Option SCell :=
  match s.splitOn ":" with
  | [h, sp, ct] => do
    let t ← unhexS h
    let n ← sp.toInt?
    pure ⟨t, n, ct == "1"⟩
  | _ => none

def parseSpanTable (s : String) : Option (List (List SCell)) :=
  (s.splitOn ";").mapM fun row => (row.splitOn ",").mapM parseSCell

def encTable (t : List (List Str)) : String := ";".intercalate (t.map hexList)

def handle (op : String) (args : List String) : String :=
  match op, args with
  | "c15.mdtab", [w, rows] =>
    match writerOf w, parseTable rows with
    | some w, some t => hexS (render w t)
    | _, _ => "bad-op"
  | "c15.mdspan", [w, rows] =>
    match writerOf w, parseSpanTable rows with
    | some .html, some t => hexS (renderHtmlSpan t)
    | some w, some t => hexS (renderSpan w t)
    | _, _ => "bad-op"
  | "c15.mdrow", [w, cells] =>
    match writerOf w, parseRow cells with
    | some w, some r => hexS (renderRow w r)
    | _, _ => "bad-op"
  | "c15.gfm", [doc] =>
    match unhexS doc with
    | some d => (match gfmTable d with
      | some rows => "ok " ++ encTable rows
      | none => "none")
    | none => "bad-op"
  | "c15.splitrow", [line] =>
    match unhexS line with
    | some l => let cs := gfmSplitRow l; s!"{hexList cs} {cs.length}"
    | none => "bad-op"
  | "c15.hlvl", [l, o, m] =>
    match l.toInt?, o.toInt?, m.toInt? with
    | some l, some o, some m => toString (headingLevel l o m)
    | _, _, _ => "bad-op"
  | "c15.hlvlrag", [l, o, m] =>
    match l.toInt?, o.toInt?, m.toInt? with
    | some l, some o, some m => toString (headingLevelRag l o m)
    | _, _, _ => "bad-op"
  | "c15.atx", [line] =>
    match unhexS line with
    | some l => (match parseAtx l with
      | some (n, t) => s!"{n} {hexS t}"
      | none => "none")
    | none => "bad-op"
  | "c15.list", [item] =>
    match item.splitOn ":" with
    | [d, k, n, t] =>
      (match d.toNat?, n.toNat?, unhexS t with
      | some d, some n, some t => hexS (listLine ⟨d, k == "o", n, t⟩)
      | _, _, _ => "bad-op")
    | _ => "bad-op"
  | "c15.listparse", [line] =>
    match unhexS line with
    | some l => (match parseListLine l with
      | some (d, o, t) => s!"{d} {if o then "o" else "u"} {hexS t}"
      | none => "none")
    | none => "bad-op"
  | _, _ => "bad-op"

end Tabula.C15H
