import TabulaModel.Util
import TabulaModel.Model.Markdown
import TabulaModel.Model.MarkdownDoc
/-!
Line protocol of C15 (see harness/c15):
* `c15.mdtab <w> <rows>`      rows `;`-separated, cells `,`-separated hex → hex of `render w t`
* `c15.mdspan <w> <rows>`     cells `hex:span:cont` → hex of `renderSpan w t` (docx, odt)
* `c15.mdhtml <rows>`         htmldoc cells `hex.colspan.rowspan`, `_` = row without cells → hex of
                              `renderHtmlSpan t`;  `c15.htmlgrid <rows>` → `<width> <grid texts>`
                              (`htmlWidth`, `htmlGridTexts`: the table `Document()` builds)
* `c15.mdrow <w> <cells>`     → hex of `renderRow w cells`
* `c15.gfm <hex doc>`         → `none` | `ok <rows>` (`gfmTable`)
* `c15.splitrow <hex line>`   → `<cells> <count>` (`gfmSplitRow`)
* `c15.hlvl <l> <off> <max>`  → `headingLevel`;  `c15.hlvlrag …` → `headingLevelRag`
* `c15.atx <hex line>`        → `none` | `<level> <hex text>` (`parseAtx`)
* `c15.list <depth>:<o|u>:<num>:<hex text>` → hex of `listLine`
* `c15.listparse <hex line>`  → `none` | `<depth> <o|u> <hex text>` (`parseListLine`)

Document level (Model/MarkdownDoc.lean); every field is non-empty, `-` = empty string / empty list:
* `c15.readmd <hex md>` → `h=<n>:<hex>,… i=<d>:<o|u>:<hex>,… t=<none|rows>/… p=<hex>,…` (`readMd`)
* opts  = `meta:toc:seps:pages:ids:offset:max:<hex sectionSep>` (flags 0/1)
* ext   = `q:<hex raw>:<hex quoted>,l:<hex raw>:<hex lower>,…` (results of `%q` and `ToLower`)
* meta  = `<title>:<author>:<subject>:<kw+kw+…|_>:<creator>` (hex)
* entry = `md` | `mdo:<exH><exF>` | `rag:<exH><exF>` | `ext:<exH><exF>` (`Markdown`, `MarkdownWithOptions`,
  `MarkdownWithRAGOptions`, `tabula.Extractor.ToMarkdownWithOptions`); pptx has a third flag (notes)
* `c15.docxmd <entry> <opts> <ext> <meta> <hdrs;ftrs> <fmt> <nParas> <elems>` → hex; fmt =
  `<numid>:<level>:<o|u>:<start>,…`; elems `|`-separated: `p=<text>:<h>:<level>:<li>:<numid>:<listlevel>`,
  `t=<span rows>`
* `c15.odtmd  <entry> <opts> <ext> <meta> <hdrs;ftrs> <ord> <nParas> <elems>` → hex; ord =
  `<style>:<level>:<0|1>,…`; paragraphs carry the style name where docx has the numId
* `c15.htmlmd <entry> <opts> <ext> <hmeta> <elems>` → hex; hmeta = `<title>:<author|~>:<desc|~>:<kw|~>`;
  elems: `h=<level>:<text>`, `p=<text>`, `l=<text>.<level>.<o|u>,…`, `t=<rows of hex.colspan.rowspan>|~|-`, `c=<text>`, `q=<text>`
* `c15.htmlhist <ext> <hmeta> <mode>=<elems>#… <calls>` → hex,…; calls `,`-separated: `md`, `mdo:<mode>`,
  `rag:<mode>:<opts with ; for :>`
* `c15.pptxmd <entry> <opts> <ext> <meta> <sel> <slides>` → hex; slides `|`-separated
  `<title>/<notes>/<blocks>/<tables>`, blocks `+`-separated `<isTitle>:<placeholder>:<paras>`, paras
  `<text>.<level>.<bullet>.<numbered>,…`, tables `+`-separated rows
* `c15.xlsxmd <entry> <opts> <ext> <meta> <sel> <sheets>` → hex; sheets `|`-separated
  `<name>/<maxCol>/<rows>`, rows `;`, cells `,` = `<value>.<typeEmpty>.<merged>.<root>`, `_` = row without cells
* `c15.ragmd <opts> <ext> <chunks>` → hex (`collectionMd`); chunk =
  `<id>:<text>:<title>:<doctitle>:<hlevel>:<pstart>:<pend>:<words>:<section>:<types +|_>`
* `c15.ragchunk <opts> <chunk>` → hex (`chunkMd`);  `c15.ragcontent <opts> <chunk>` → hex (`contentMd`)
* `c15.raglist <o|u> <level>:<text>,…` → hex (`ragListText`)
* `c15.bounds <sheet>` → `minRow maxRow minCol maxCol` (`findContentBounds`)
-/
namespace Tabula.C15H
open Tabula Tabula.Markdown

abbrev Str := List Nat
def toStr (b : Bytes) : Str := b.map (·.toNat)
def ofStr (s : Str) : Bytes := s.map UInt8.ofNat
def hexS (s : Str) : String := hex (ofStr s)
def unhexS (s : String) : Option Str := (unhex s).map toStr

def hexList (xs : List Str) : String := ",".intercalate (xs.map hexS)

def writerOf : String → Option Writer
  | "model" => some .model | "docx" => some .docx | "odt" => some .odt
  | "xlsx" => some .xlsx | "pptx" => some .pptx | "html" => some .html
  | _ => none

def parseRow (s : String) : Option (List Str) := (s.splitOn ",").mapM unhexS

def parseTable (s : String) : Option (List (List Str)) := (s.splitOn ";").mapM parseRow

def parseSCell (s : String) : Option SCell :=
  match s.splitOn ":" with
  | [h, sp, ct] => do
    let t ← unhexS h
    let n ← sp.toInt?
    pure ⟨t, n, ct == "1"⟩
  | _ => none

def parseSpanTable (s : String) : Option (List (List SCell)) :=
  (s.splitOn ";").mapM fun row => (row.splitOn ",").mapM parseSCell

def encTable (t : List (List Str)) : String := ";".intercalate (t.map hexList)

/-- one htmldoc cell `<hex>.<colspan>.<rowspan>` -/
def parseHCell (s : String) : Option HCell :=
  match s.splitOn "." with
  | [h, cs, rs] => do pure ⟨← unhexS h, ← cs.toInt?, ← rs.toInt?⟩
  | _ => none

/-- rows of htmldoc cells: rows `;`-separated, cells `,`-separated, a row without cells is `_`,
no rows at all `-` -/
def parseHTable (s : String) : Option (List (List HCell)) :=
  if s == "-" then some [] else
    (s.splitOn ";").mapM fun row => if row == "_" then some [] else (row.splitOn ",").mapM parseHCell

def handleBase (op : String) (args : List String) : String :=
  match op, args with
  | "c15.mdtab", [w, rows] =>
    match writerOf w, parseTable rows with
    | some w, some t => hexS (render w t)
    | _, _ => "bad-op"
  | "c15.mdspan", [w, rows] =>
    match writerOf w, parseSpanTable rows with
    | some w, some t => hexS (renderSpan w t)
    | _, _ => "bad-op"
  | "c15.mdhtml", [rows] =>
    match parseHTable rows with
    | some t => hexS (renderHtmlSpan t)
    | none => "bad-op"
  | "c15.htmlgrid", [rows] =>
    match parseHTable rows with
    | some t => s!"{htmlWidth t} {encTable (htmlGridTexts t)}"
    | none => "bad-op"
  | "c15.mdrow", [w, cells] =>
    match writerOf w, parseRow cells with
    | some w, some r => hexS (renderRow w r)
    | _, _ => "bad-op"
  | "c15.gfm", [doc] =>
    match unhexS doc with
    | some d => (match gfmTable d with
      | some rows => "ok " ++ encTable rows
      | none => "none")
    | none => "bad-op"
  | "c15.splitrow", [line] =>
    match unhexS line with
    | some l => let cs := gfmSplitRow l; s!"{hexList cs} {cs.length}"
    | none => "bad-op"
  | "c15.hlvl", [l, o, m] =>
    match l.toInt?, o.toInt?, m.toInt? with
    | some l, some o, some m => toString (headingLevel l o m)
    | _, _, _ => "bad-op"
  | "c15.hlvlrag", [l, o, m] =>
    match l.toInt?, o.toInt?, m.toInt? with
    | some l, some o, some m => toString (headingLevelRag l o m)
    | _, _, _ => "bad-op"
  | "c15.atx", [line] =>
    match unhexS line with
    | some l => (match parseAtx l with
      | some (n, t) => s!"{n} {hexS t}"
      | none => "none")
    | none => "bad-op"
  | "c15.list", [item] =>
    match item.splitOn ":" with
    | [d, k, n, t] =>
      (match d.toNat?, n.toNat?, unhexS t with
      | some d, some n, some t => hexS (listLine ⟨d, k == "o", n, t⟩)
      | _, _, _ => "bad-op")
    | _ => "bad-op"
  | "c15.listparse", [line] =>
    match unhexS line with
    | some l => (match parseListLine l with
      | some (d, o, t) => s!"{d} {if o then "o" else "u"} {hexS t}"
      | none => "none")
    | none => "bad-op"
  | _, _ => "bad-op"

/-! ## document level -/
open Tabula.MarkdownDoc

def flag (s : String) : Bool := s == "1"

/-- `x1,x2,…` with `-` for the empty list -/
def listOf {α} (sepr : String) (f : String → Option α) (s : String) : Option (List α) :=
  if s == "-" then some [] else (s.splitOn sepr).mapM f

def parseOpts (sepr : String) (s : String) : Option MdOpts :=
  match s.splitOn sepr with
  | [m, t, sp, pg, ids, off, mx, ss] => do
    let off ← off.toInt?
    let mx ← mx.toInt?
    let ss ← unhexS ss
    pure { «meta» := flag m, toc := flag t, seps := flag sp, pages := flag pg, ids := flag ids,
           offset := off, max := mx, sectionSep := ss }
  | _ => none

/-- the `%q` / `ToLower` results the harness supplies; a string without an entry maps to itself
(the harness lists every string the writer can reach) -/
def parseExt (s : String) : Option Ext := do
  let es ← listOf "," (fun e => match e.splitOn ":" with
    | [k, a, b] => do pure (k, ← unhexS a, ← unhexS b)
    | _ => none) s
  let look (k : String) (x : Str) : Str :=
    match es.find? fun e => e.1 == k && e.2.1 == x with
    | some e => e.2.2
    | none => x
  pure { quote := look "q", lower := look "l" }

def parseMeta (s : String) : Option Meta :=
  match s.splitOn ":" with
  | [t, a, su, kw, cr] => do
    let kws ← if kw == "_" then some [] else (kw.splitOn "+").mapM unhexS
    pure { title := ← unhexS t, author := ← unhexS a, subject := ← unhexS su, keywords := kws, creator := ← unhexS cr }
  | _ => none

def optHex (s : String) : Option (Option Str) := if s == "~" then some none else (unhexS s).map some

def parseHMeta (s : String) : Option HMeta :=
  match s.splitOn ":" with
  | [t, a, d, k] => do
    pure { title := ← unhexS t, author := ← optHex a, description := ← optHex d, keywords := ← optHex k }
  | _ => none

def parseHF (s : String) : Option (List Str × List Str) :=
  match s.splitOn ";" with
  | [h, f] => do pure (← listOf "," unhexS h, ← listOf "," unhexS f)
  | _ => none

structure Entry where
  kind : String
  exH : Bool
  exF : Bool
  notes : Bool

def parseEntry (s : String) : Option Entry :=
  match s.splitOn ":" with
  | [k] => some ⟨k, false, false, false⟩
  | [k, fl] =>
    match fl.toList with
    | [a, b] => some ⟨k, a == '1', b == '1', false⟩
    | [a, b, c] => some ⟨k, a == '1', b == '1', c == '1'⟩
    | _ => none
  | _ => none

def parseDElem (s : String) : Option DElem :=
  if s.startsWith "p=" then
    match (s.drop 2).toString.splitOn ":" with
    | [t, h, l, li, nid, ll] => do
      pure (.para { text := ← unhexS t, isHeading := flag h, level := ← l.toInt?, isListItem := flag li,
                    numID := ← unhexS nid, listLevel := ← ll.toInt? })
    | _ => none
  else if s.startsWith "t=" then
    let body := (s.drop 2).toString
    if body == "-" then some (.table []) else (parseSpanTable body).map .table
  else none

def parseOElem (s : String) : Option OElem :=
  if s.startsWith "p=" then
    match (s.drop 2).toString.splitOn ":" with
    | [t, h, l, li, st, ll] => do
      pure (.para { text := ← unhexS t, isHeading := flag h, level := ← l.toInt?, isListItem := flag li,
                    styleName := ← unhexS st, listLevel := ← ll.toInt? })
    | _ => none
  else if s.startsWith "t=" then
    let body := (s.drop 2).toString
    if body == "-" then some (.table []) else (parseSpanTable body).map .table
  else none

def parseFmt (s : String) : Option (Str → Int → NumFmt) := do
  let es ← listOf "," (fun e => match e.splitOn ":" with
    | [n, l, k, st] => do pure (← unhexS n, ← l.toInt?, k == "o", ← st.toInt?)
    | _ => none) s
  pure fun n l =>
    match es.find? fun e => e.1 == n && e.2.1 == l with
    | some e => ⟨e.2.2.1, e.2.2.2⟩
    | none => ⟨false, 1⟩

def parseOrd (s : String) : Option (Str → Int → Bool) := do
  let es ← listOf "," (fun e => match e.splitOn ":" with
    | [n, l, k] => do pure (← unhexS n, ← l.toInt?, flag k)
    | _ => none) s
  pure fun n l =>
    match es.find? fun e => e.1 == n && e.2.1 == l with
    | some e => e.2.2
    | none => false

def parseHItem (s : String) : Option HItem :=
  match s.splitOn "." with
  | [t, l, k] => do pure { text := ← unhexS t, level := ← l.toInt?, ordered := k == "o" }
  | _ => none

/-- `-` = no rows at all; a row without cells is `_` -/
def parseRows (s : String) : Option (List (List Str)) :=
  if s == "-" then some [] else
    (s.splitOn ";").mapM fun row => if row == "_" then some [] else parseRow row

def parseHSrc (s : String) : Option HSrc :=
  let body := (s.drop 2).toString
  if s.startsWith "h=" then
    match body.splitOn ":" with
    | [l, t] => do pure (.heading (← l.toInt?) (← unhexS t))
    | _ => none
  else if s.startsWith "p=" then (unhexS body).map .para
  else if s.startsWith "l=" then (listOf "," parseHItem body).map .list
  else if s.startsWith "t=" then
    if body == "~" then some (.table none) else (parseHTable body).map fun r => .table (some r)
  else if s.startsWith "c=" then (unhexS body).map .code
  else if s.startsWith "q=" then (unhexS body).map .quote
  else none

/-- an element of the reader as the writer loop sees it (`HSrc.view`: tables as their grid) -/
def parseHElem (s : String) : Option HElem := (parseHSrc s).map HSrc.view

def parsePPara (s : String) : Option PPara :=
  match s.splitOn "." with
  | [t, l, b, n] => do pure { text := ← unhexS t, level := ← l.toInt?, isBullet := flag b, isNumbered := flag n }
  | _ => none

def parsePBlock (s : String) : Option PBlock :=
  match s.splitOn ":" with
  | [it, ph, ps] => do pure { isTitle := flag it, placeholder := ← unhexS ph, paras := ← listOf "," parsePPara ps }
  | _ => none

def parsePSlide (s : String) : Option PSlide :=
  match s.splitOn "/" with
  | [t, n, bs, ts] => do
    pure { title := ← unhexS t, notes := ← unhexS n, content := ← listOf "+" parsePBlock bs,
           tables := ← listOf "+" parseRows ts }
  | _ => none

def parseXCell (s : String) : Option XCell :=
  match s.splitOn "." with
  | [v, e, m, r] => do pure { value := ← unhexS v, typeEmpty := flag e, merged := flag m, mergeRoot := flag r }
  | _ => none

def parseXSheet (s : String) : Option XSheet :=
  match s.splitOn "/" with
  | [n, mc, rows] => do
    let rs ← if rows == "-" then some [] else
      (rows.splitOn ";").mapM fun row => if row == "_" then some [] else (row.splitOn ",").mapM parseXCell
    pure { name := ← unhexS n, maxCol := ← mc.toInt?, rows := rs }
  | _ => none

def parseRChunk (s : String) : Option RChunk :=
  match s.splitOn ":" with
  | [id, tx, ti, dt, hl, ps, pe, wc, sec, tys] => do
    let tys ← if tys == "_" then some [] else (tys.splitOn "+").mapM unhexS
    pure { id := ← unhexS id, text := ← unhexS tx, sectionTitle := ← unhexS ti, docTitle := ← unhexS dt,
           headingLevel := ← hl.toInt?, pageStart := ← ps.toInt?, pageEnd := ← pe.toInt?,
           wordCount := ← wc.toInt?, isSection := flag sec, elementTypes := tys }
  | _ => none

def parseInts (s : String) : Option (List Int) := listOf "," (·.toInt?) s

def encHeading (h : Nat × Str) : String := s!"{h.1}:{hexS h.2}"
def encItem (i : Nat × Bool × Str) : String := s!"{i.1}:{if i.2.1 then "o" else "u"}:{hexS i.2.2}"
def encOptTable : Option (List (List Str)) → String
  | none => "none"
  | some rows => "ok=" ++ encTable rows

def joinOr (sepr : String) (xs : List String) : String := if xs.isEmpty then "-" else sepr.intercalate xs

def encMdDoc (d : MdDoc) : String :=
  s!"h={joinOr "," (d.headings.map encHeading)} i={joinOr "," (d.items.map encItem)} t={joinOr "/" (d.tables.map encOptTable)} p={joinOr "," (d.paras.map hexS)}"

def parseHCall (s : String) : Option HCall :=
  match s.splitOn ":" with
  | ["md"] => some .markdown
  | ["mdo", m] => m.toInt?.map .withOptions
  | ["rag", m, o] => do pure (.rag (← m.toInt?) (← parseOpts ";" o))
  | _ => none

def parseModes (s : String) : Option (List (Int × List HElem)) :=
  (s.splitOn "#").mapM fun e =>
    match e.splitOn "=" with
    | m :: rest => do
      let m ← m.toInt?
      let els ← listOf "|" parseHElem ("=".intercalate rest)
      pure (m, els)
    | _ => none

def orBad (r : Option String) : String := r.getD "bad-op"

def handleDoc (op : String) (args : List String) : Option String :=
  match op, args with
  | "c15.readmd", [md] => do
    let d ← unhexS md
    pure (encMdDoc (readMd d))
  | "c15.docxmd", [e, o, x, m, hf, f, n, els] => do
    let e ← parseEntry e; let o ← parseOpts ":" o; let x ← parseExt x; let m ← parseMeta m
    let hf ← parseHF hf; let f ← parseFmt f; let n ← n.toNat?; let els ← listOf "|" parseDElem els
    match e.kind with
    | "md" => pure (hexS (docxMarkdown f hf.1 hf.2 n els))
    | "mdo" => pure (hexS (docxMarkdownWithOptions f hf.1 hf.2 e.exH e.exF n els))
    | "rag" => pure (hexS (docxMarkdownRag x f hf.1 hf.2 e.exH e.exF o m n els))
    | "ext" => pure (hexS (extractorMarkdown x e.exH e.exF o (.docx f hf.1 hf.2 m n els)))
    | _ => none
  | "c15.odtmd", [e, o, x, m, hf, f, n, els] => do
    let e ← parseEntry e; let o ← parseOpts ":" o; let x ← parseExt x; let m ← parseMeta m
    let hf ← parseHF hf; let f ← parseOrd f; let n ← n.toNat?; let els ← listOf "|" parseOElem els
    match e.kind with
    | "md" => pure (hexS (odtMarkdown f hf.1 hf.2 n els))
    | "mdo" => pure (hexS (odtMarkdownWithOptions f hf.1 hf.2 e.exH e.exF n els))
    | "rag" => pure (hexS (odtMarkdownRag x f hf.1 hf.2 e.exH e.exF o m n els))
    | "ext" => pure (hexS (extractorMarkdown x e.exH e.exF o (.odt f hf.1 hf.2 m n els)))
    | _ => none
  | "c15.htmlmd", [e, o, x, m, els] => do
    let e ← parseEntry e; let o ← parseOpts ":" o; let x ← parseExt x; let m ← parseHMeta m
    let els ← listOf "|" parseHElem els
    match e.kind with
    | "mdo" => pure (hexS (htmlMarkdownWithOptions els))
    | "rag" => pure (hexS (htmlMarkdownRag x o m els))
    | "ext" => pure (hexS (extractorMarkdown x e.exH e.exF o (.html m els)))
    | _ => none
  | "c15.htmlhist", [x, m, modes, calls] => do
    let x ← parseExt x; let m ← parseHMeta m; let modes ← parseModes modes
    let calls ← listOf "," parseHCall calls
    let extract (k : Int) : List HElem := ((modes.find? fun e => e.1 == k).map (·.2)).getD []
    pure (joinOr "," ((hRun x m extract { elements := extract 0 } calls).map hexS))
  | "c15.pptxmd", [e, o, x, m, sel, slides] => do
    let e ← parseEntry e; let o ← parseOpts ":" o; let x ← parseExt x; let m ← parseMeta m
    let sel ← parseInts sel; let slides ← listOf "|" parsePSlide slides
    match e.kind with
    | "mdo" => pure (hexS (pptxMarkdownWithOptions e.exH e.exF e.notes sel slides))
    | "rag" => pure (hexS (pptxMarkdownRag x e.exH e.exF e.notes sel o m slides))
    | "ext" => pure (hexS (extractorMarkdown x e.exH e.exF o (.pptx m slides)))
    | _ => none
  | "c15.xlsxmd", [e, o, x, m, sel, sheets] => do
    let e ← parseEntry e; let o ← parseOpts ":" o; let x ← parseExt x; let m ← parseMeta m
    let sel ← parseInts sel; let sheets ← listOf "|" parseXSheet sheets
    match e.kind with
    | "mdo" => pure (hexS (xlsxMarkdownWithOptions sel sheets))
    | "rag" => pure (hexS (xlsxMarkdownRag x sel o m sheets))
    | "ext" => pure (hexS (extractorMarkdown x e.exH e.exF o (.xlsx m sheets)))
    | _ => none
  | "c15.bounds", [sheet] => do
    let s ← parseXSheet sheet
    let b := findContentBounds s
    pure s!"{b.minRow} {b.maxRow} {b.minCol} {b.maxCol}"
  | "c15.ragmd", [o, x, cs] => do
    let o ← parseOpts ":" o; let x ← parseExt x; let cs ← listOf "|" parseRChunk cs
    pure (hexS (extractorMarkdown x false false o (.pdf cs)))
  | "c15.ragchunk", [o, c] => do
    let o ← parseOpts ":" o; let c ← parseRChunk c
    pure (hexS (chunkMd o c))
  | "c15.ragcontent", [o, c] => do
    let o ← parseOpts ":" o; let c ← parseRChunk c
    pure (hexS (contentMd o c))
  | "c15.raglist", [k, items] => do
    let its ← listOf "," (fun e => match e.splitOn ":" with
      | [l, t] => do pure ((← l.toInt?), (← unhexS t))
      | _ => none) items
    pure (hexS (ragListText (k == "o") its))
  | _, _ => none

def isDocOp (op : String) : Bool :=
  ["c15.readmd", "c15.docxmd", "c15.odtmd", "c15.htmlmd", "c15.htmlhist", "c15.pptxmd", "c15.xlsxmd",
   "c15.bounds", "c15.ragmd", "c15.ragchunk", "c15.ragcontent", "c15.raglist"].contains op

def handle (op : String) (args : List String) : String :=
  if isDocOp op then orBad (handleDoc op args) else handleBase op args

end Tabula.C15H
