import TabulaModel.Util
namespace Tabula.C15H

def handle (_op : String) (_args : List String) : String := "bad-op"

end Tabula.C15H
