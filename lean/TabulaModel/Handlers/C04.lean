import TabulaModel.Util
namespace Tabula.C04H

def handle (_op : String) (_args : List String) : String := "bad-op"

end Tabula.C04H
