import TabulaModel.Util
import TabulaModel.Model.Xref
import TabulaModel.Model.XrefBytes
namespace Tabula.C04H
open Tabula Tabula.Xref

def nat? (s : String) : Option Nat := s.toNat?

def parseEntry (s : String) : Option (Nat × Entry) :=
  match s.splitOn "." with
  | [n, t, a, b] => do
    let n ← nat? n; let t ← nat? t; let a ← nat? a; let b ← nat? b
    match t with
    | 0 => some (n, .free a)
    | 1 => some (n, .at a)
    | 2 => some (n, .inStm a b)
    | _ => none
  | _ => none

def parseList {α} (sep : String) (f : String → Option α) (s : String) : Option (List α) :=
  if s == "" then some [] else (s.splitOn sep).mapM f

/-- `<off>/<prev|->/<entries>` -/
def parseSec (s : String) : Option (Nat × (Section × Option Nat)) :=
  match s.splitOn "/" with
  | [off, prev, es] => do
    let off ← nat? off
    let prev ← if prev == "-" then some none else (nat? prev).map some
    let es ← parseList "," parseEntry es
    some (off, (es, prev))
  | _ => none

def parseMember (s : String) : Option (Nat × Nat × Nat) :=
  match s.splitOn "." with
  | [n, k, i] => do some ((← nat? n), (← nat? k), (← nat? i))
  | _ => none

def parseVal (s : String) : Option Val :=
  match s.toList with
  | 'i' :: r => (nat? (String.ofList r)).map .int
  | 'd' :: r => (nat? (String.ofList r)).map .dict
  | 's' :: r => (parseList "+" parseMember (String.ofList r)).map .objstm
  | ['t'] => some .stream
  | ['o'] => some .other
  | _ => none

def parseObj (s : String) : Option (Nat × (Nat × Val)) :=
  match s.splitOn ":" with
  | [off, num, v] => do some ((← nat? off), ((← nat? num), (← parseVal v)))
  | _ => none

def parseOp (s : String) : Option Op :=
  match s.toList with
  | ['c'] => some .clear
  | 'g' :: r => (nat? (String.ofList r)).map .get
  | _ => none

def showVal : Option Val → String
  | none => "e"
  | some (.int i) => s!"i{i}"
  | some (.dict i) => s!"d{i}"
  | some (.objstm _) => "S"
  | some .stream => "S"
  | some .other => "o"

def showEntry (n : Nat) : Entry → String
  | .free a => s!"{n}:0:{a}"
  | .at a => s!"{n}:1:{a}"
  | .inStm a b => s!"{n}:2:{a}:{b}"

def insertSorted (x : Nat) : List Nat → List Nat
  | [] => [x]
  | y :: ys => if x < y then x :: y :: ys else if x = y then y :: ys else y :: insertSorted x ys

def dumpXref (x : Section) : String :=
  let keys := (x.map Prod.fst).foldl (fun acc k => insertSorted k acc) []
  ",".intercalate (keys.filterMap fun k => (getLast x k).map (showEntry k))

def handle (op : String) (args : List String) : String :=
  match op, args with
  | "c04.run", [start, secs, objs, ops] =>
    match nat? ((start.drop 2).toString), parseList "|" parseSec (secs.drop 2).toString,
          parseList ";" parseObj (objs.drop 2).toString, parseList "," parseOp (ops.drop 2).toString with
    | some st, some secs, some objs, some ops =>
      let tables := parseAllXRefs secs st
      let x := mergeTables tables
      let res := run ⟨x, objs⟩ {} ops
      s!"xref=[{dumpXref x}] res=[{",".intercalate (res.map showVal)}]"
    | _, _, _, _ => "bad-op"
  | "c04.xent", [h] =>
    match unhex h with
    | some bs =>
      (match XrefBytes.parseEntry (bs.map (·.toNat)) with
       | some (off, gen, inUse) => s!"ok {off} {gen} {if inUse then "n" else "f"}"
       | none => "err")
    | none => "bad-op"
  | "c04.xsent", [ws, h] =>
    match (ws.splitOn ",").mapM String.toNat?, unhex h with
    | some [w0, w1, w2], some bs =>
      (match XrefBytes.parseStreamEntry (bs.map (·.toNat)) w0 w1 w2 with
       | some ((k, f1, f2), n) => s!"ok {XrefBytes.kindCode k} {f1} {f2} {n}"
       | none => "err")
    | _, _ => "bad-op"
  | _, _ => "bad-op"

end Tabula.C04H
